import RootSim.Model.Topology
import Driver.Util
/-! Line protocol of the topology model (driver mode `topo`), stateful:
the state is the variant selection, the current topology and the contents of the two file-scope
direction arrays (which persist over topologies, exactly as the C statics do).

* `variant c s f`      — select the model: `c`/`s`/`f` = 1 iff the count / star / shuffle patch is in the tree
* `init g a [b]`       — `InitializeTopology(g, a[, b])` (grids: `a` = height, `b` = width) → regions | `null`
* `recv from d rin…`   — `GetReceiver(from, topology, d)` with the random inputs → `inv` | region | `undef`
* `count from`         — `CountDirections`
* `isnb from to`       — `IsNeighbor` → 0/1
* `link from to ok`    — `AddTopologyLink` (`ok` = probability within [0,1]) → 0/1 | `oob`
-/
namespace Driver
open RootSim.Topo

structure TopoState where
  countFix : Bool := true
  starFix : Bool := true
  shufFix : Bool := true
  topo : Option Topo := none
  arr : Arrays := Arrays.init

def recvToString : Recv → String
  | .invalid => "inv"
  | .region r => toString r
  | .undef => "undef"

def c19 (st : TopoState) (toks : List String) : TopoState × String :=
  match toks with
  | ["variant", c, s, f] =>
    ({ st with countFix := nat! c != 0, starFix := nat! s != 0, shufFix := nat! f != 0 }, "ok")
  | "init" :: g :: args =>
    match initTopology (nat! g) (args.map nat!) with
    | none => ({ st with topo := none }, "null")
    | some T => ({ st with topo := some T }, toString T.regions)
  | "recv" :: src :: d :: rin =>
    match st.topo with
    | none => (st, "no-topology")
    | some T =>
      let (r, a) := getReceiverV st.starFix st.shufFix T st.arr (nat! src) (nat! d) (rin.map nat!)
      ({ st with arr := a }, recvToString r)
  | ["count", src] =>
    match st.topo with
    | none => (st, "no-topology")
    | some T => (st, toString (if st.countFix then countDirections T (nat! src) else countDirectionsOrig T (nat! src)))
  | ["isnb", src, to] =>
    match st.topo with
    | none => (st, "no-topology")
    | some T => (st, b2s (isNeighbor T (nat! src) (nat! to)))
  | ["link", src, to, ok] =>
    match st.topo with
    | none => (st, "no-topology")
    | some T =>
      match addLink T (nat! src) (nat! to) (nat! ok != 0) with
      | none => (st, "oob")
      | some (T', b) => ({ st with topo := some T' }, b2s b)
  | _ => (st, "bad-op")

end Driver
