import RootSim.Model.MQueue
import Driver.Util
namespace Driver
open RootSim.MQueue

/-- `msg_queue_insert_queued()`: the exchange, then the whole walk (no yield point inside, so the real
consumer executes it within one scheduled step). `none`: the consumer was not idle / the walk did not end. -/
def insertQueued (s : St) : Option St :=
  match swap s with
  | some s1 =>
    let rec go : Nat → St → Option St
      | 0, _ => none
      | fuel+1, s =>
        match s.cons with
        | .ready => some s
        | _ => match walk s with
          | some s' => go fuel s'
          | none => none
    go (s1.nmsgs + 2) s1
  | none => none

/-- Line protocol of mode `mqueue` (one scenario = `init`, then one line per scheduled step):
* `init <P>`            — `P` producers → `ok`
* `load <p> <thex>`     — producer `p` (at the start of `msg_queue_insert` of a new message with time stamp key
                          `thex`) executes the load → `loaded <id>` (ids are handed out in this order)
* `cas <p>`             — producer `p` executes the CAS → `ok` (inserted) / `fail` (it will retry)
* `c extract <id|none>` — the consumer executes `msg_queue_extract`: swap, walk, extraction; `<id>` is the message the
                          real heap returned: it must be in the model's private multiset with minimal time stamp
                          → `x <id> <thex>` / `x none`; `bad-min` if the choice is not a minimal element,
                          `bad-none` if `none` although the model's heap is not empty
* `c peek`              — the consumer executes `msg_queue_time_peek` → `p <thex>` -/
def mqueueStep (s : St) (toks : List String) : St × String :=
  match toks with
  | ["init", p] => (init (nat! p), "ok")
  | ["load", p, t] =>
    match insLoad s (nat! p) (parseHexNat t) with
    | some s' => (s', s!"loaded {s.nmsgs}")
    | none => (s, "bad-op")
  | ["cas", p] =>
    match insCas s (nat! p) false with
    | some s' => (s', if s'.comp.length > s.comp.length then "ok" else "fail")
    | none => (s, "bad-op")
  | ["c", "extract", c] =>
    match insertQueued s with
    | some s1 =>
      if c == "none" then
        match extract s1 none with
        | some s2 => (s2, "x none")
        | none => (s, "bad-none")
      else
        let m := nat! c
        match extract s1 (some m) with
        | some s2 => (s2, s!"x {m} {toHex (s1.t m)}")
        | none => (s, "bad-min")
    | none => (s, "bad-op")
  | ["c", "peek"] =>
    match insertQueued s with
    | some s1 =>
      match peek s1 with
      | some (s2, v) => (s2, s!"p {toHex v}")
      | none => (s, "bad-op")
    | none => (s, "bad-op")
  | _ => (s, "bad-op")

end Driver
