import RootSim.Proofs.Shutdown
import Std.Data.HashSet
import Std.Data.HashMap
import Driver.Util
/-!
Bounded exhaustive exploration of `Model/Shutdown.lean` by the COMPILED definitions (driver mode
`shutdownmc`). This is model checking of the model for small thread counts, not a kernel-checked proof:
it is reported by the check as search evidence for deadlock-freedom / absence of livelocks of the
proposed repair (and it re-finds F1 and F10 on the pinned variant).
-/
namespace Driver
open RootSim.Shutdown

deriving instance Hashable for TPh, NPh, Pc, Th, St

/-- all successors that differ from `s` (`RootsimStop` only before termination has been decided) -/
def mcSuccs (v : Variant) (n : Nat) (s : St) : List St :=
  ((acts n).map (stepNS v s)).filter (· != s)

structure McResult where
  states : Nat := 0
  trig : Nat := 0
  deadlocks : Nat := 0
  finals : Nat := 0
  finiOk : Bool := true
  cycle : Bool := false
  height : Nat := 0
  exhausted : Bool := false

/-- BFS (fuel-bounded), then Kahn's algorithm on the subgraph of triggered states: a cycle there is a
livelock candidate; `height` = longest path to quiescence. -/
def modelCheck (v : Variant) (n : Nat) (zq : Bool) (fuel : Nat) : McResult := Id.run do
  let s0 := St.init n zq
  let mut seen : Std.HashSet St := Std.HashSet.emptyWithCapacity.insert s0
  let mut frontier : List St := [s0]
  let mut all : List St := [s0]
  let mut exhausted := false
  for _ in [0:fuel] do
    if frontier.isEmpty then
      exhausted := true
      break
    let mut next : List St := []
    for s in frontier do
      for s' in mcSuccs v n s do
        if !seen.contains s' then
          seen := seen.insert s'
          next := s' :: next
          all := s' :: all
    frontier := next
  let trig := all.filter triggered
  let mut r : McResult := { states := all.length, trig := trig.length, exhausted := exhausted }
  for s in all do
    if final s then
      r := { r with finals := r.finals + 1, finiOk := r.finiOk && finiOnce s }
    else if triggered s && stuck v s then
      r := { r with deadlocks := r.deadlocks + 1 }
  -- Kahn on the triggered subgraph (it is closed under successors: `triggered` is stable)
  let mut indeg : Std.HashMap St Nat := {}
  for s in trig do
    for s' in mcSuccs v n s do
      indeg := indeg.insert s' (indeg.getD s' 0 + 1)
  let mut level : List St := trig.filter (fun s => indeg.getD s 0 == 0)
  let mut processed := 0
  let mut height := 0
  for _ in [0:trig.length + 1] do
    if level.isEmpty then break
    processed := processed + level.length
    let mut next : List St := []
    for s in level do
      for s' in mcSuccs v n s do
        let d := indeg.getD s' 0 - 1
        indeg := indeg.insert s' d
        if d == 0 then next := s' :: next
    if !next.isEmpty then height := height + 1
    level := next
  return { r with cycle := processed < trig.length, height := height }

/-- `mc closeFix zeroFix n zq` -/
def shutdownMc (toks : List String) : String :=
  match toks with
  | ["mc", cf, zf, n, zq] =>
    let r := modelCheck { closeFix := cf == "1", zeroFix := zf == "1" } (nat! n) (zq == "1") 100000
    s!"states={r.states} triggered={r.trig} deadlocks={r.deadlocks} livelock={b2s r.cycle} " ++
    s!"height={r.height} finals={r.finals} finiOnce={b2s r.finiOk} exhaustive={b2s r.exhausted}"
  | _ => "bad-op"

end Driver
