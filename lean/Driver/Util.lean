/-! Line-protocol helpers shared by all driver sub-commands (core Lean only). -/
namespace Driver

def hexVal (c : Char) : Nat :=
  if '0' ≤ c ∧ c ≤ '9' then c.toNat - '0'.toNat
  else if 'a' ≤ c ∧ c ≤ 'f' then c.toNat - 'a'.toNat + 10
  else if 'A' ≤ c ∧ c ≤ 'F' then c.toNat - 'A'.toNat + 10
  else 0

/-- "-" or "" = empty, otherwise pairs of hex digits -/
def parseHexBytes (s : String) : List Nat :=
  if s == "-" then [] else
  let rec go : List Char → List Nat
    | a :: b :: rest => (hexVal a * 16 + hexVal b) :: go rest
    | _ => []
  go s.toList

def parseHexNat (s : String) : Nat := s.toList.foldl (fun acc c => acc * 16 + hexVal c) 0

def hexDigit (n : Nat) : Char :=
  if n < 10 then Char.ofNat (n + '0'.toNat) else Char.ofNat (n - 10 + 'a'.toNat)

def toHex (n : Nat) : String :=
  if n = 0 then "0" else
  let rec go (fuel n : Nat) (acc : List Char) : List Char :=
    match fuel with
    | 0 => acc
    | fuel+1 => if n = 0 then acc else go fuel (n / 16) (hexDigit (n % 16) :: acc)
  String.ofList (go 64 n [])

def b2s (b : Bool) : String := if b then "1" else "0"

def nat! (s : String) : Nat := s.toNat?.getD 0
def int! (s : String) : Int := s.toInt?.getD 0

def tokens (line : String) : List String :=
  (line.trimAscii.toString.splitOn " ").filter (· ≠ "")

end Driver

namespace Driver
/-- generic line loop: one line in, one line out, explicit state -/
partial def runLoop {σ : Type} (init : σ) (step : σ → List String → σ × String) : IO Unit := do
  let stdin ← IO.getStdin
  let stdout ← IO.getStdout
  let rec go (st : σ) : IO Unit := do
    let line ← stdin.getLine
    if line.isEmpty then return ()
    let (st', o) := step st (tokens line)
    stdout.putStrLn o
    go st'
  go init
end Driver
