import Driver.C16

open Driver

/-- one line in, one line out; the first token selects the model -/
def dispatch (st : Unit) (line : String) : Unit × String :=
  match tokens line with
  | "cmp" :: args => (st, c16 args)
  | _ => (st, "bad-op")

partial def loop (h : IO.FS.Stream) (out : IO.FS.Stream) (st : Unit) : IO Unit := do
  let line ← h.getLine
  if line.isEmpty then return ()
  let (st', o) := dispatch st line
  out.putStrLn o
  loop h out st'

def main : IO Unit := do
  let stdin ← IO.getStdin
  let stdout ← IO.getStdout
  loop stdin stdout ()
