import Driver.C16
import Driver.Run
import Driver.C10
import Driver.C14
import Driver.C20

open Driver

/-- `driver <mode>`: each mode is the line-protocol front end of one model family.
Input lines start with the command name; the mode only selects the state type. -/
def main (args : List String) : IO Unit :=
  match args with
  | ["c16"] => runLoop () (fun st toks => match toks with
      | "cmp" :: a => (st, c16 a)
      | _ => (st, "bad-op"))
  | ["place"] => runLoop () (fun st toks => match toks with
      | cmd :: a => (st, c14 cmd a)
      | _ => (st, "bad-op"))
  | ["stats"] => runLoop () (fun st toks => (st, statsCmd toks))
  | ["heap"] => runLoop ({} : HeapSt) heapStep
  | ["par"] => runLoop ({} : Driver.Run.Sys) Driver.Run.parStep
  | ["seq"] => runLoop ({} : Driver.Run.SeqSys) Driver.Run.seqStep
  | ["serial2"] => runLoop ({} : Driver.Run.Serial2) Driver.Run.serial2Step
  | ["serial"] => runLoop ({} : Driver.Run.SerialSys) Driver.Run.serStep
  | _ => IO.eprintln "usage: driver <mode>"
