import Driver.C16
import Driver.Run
import Driver.C10
import Driver.C14
import Driver.C20
import Driver.C17
import Driver.C06
import Driver.C15
import Driver.C19
import Driver.C18
import Driver.Alloc
import Driver.C07
import Driver.C08
import Driver.C08mc
import Driver.Wire
import Driver.GvtNode
import Driver.TW

open Driver

/-- `driver <mode>`: each mode is the line-protocol front end of one model family.
Input lines start with the command name; the mode only selects the state type. -/
def main (args : List String) : IO Unit :=
  match args with
  | ["c16"] => runLoop () (fun st toks => match toks with
      | "cmp" :: a => (st, c16 a)
      | _ => (st, "bad-op"))
  | ["place"] => runLoop () (fun st toks => match toks with
      | cmd :: a => (st, c14 cmd a)
      | _ => (st, "bad-op"))
  | ["stats"] => runLoop false statsStep
  | ["mqueue"] => runLoop (RootSim.MQueue.init 0) mqueueStep
  | ["msgauto"] => runLoop TraceSt.none msgautoStep
  | ["barrier"] => runLoop ({} : BarSt) barrierStep
  | ["topo"] => runLoop ({} : TopoState) c19
  | ["alloc"] => runLoop ({} : AllocSt) allocStep
  | ["term"] => runLoop ({} : TermSt) (termStep false)
  | ["termfix"] => runLoop ({} : TermSt) (termStep true)
  | ["shutdown00"] => runLoop (RootSim.Shutdown.St.init 1) (shutdownStep { closeFix := false, zeroFix := false })
  | ["shutdown10"] => runLoop (RootSim.Shutdown.St.init 1) (shutdownStep { closeFix := true, zeroFix := false })
  | ["shutdown01"] => runLoop (RootSim.Shutdown.St.init 1) (shutdownStep { closeFix := false, zeroFix := true })
  | ["shutdown11"] => runLoop (RootSim.Shutdown.St.init 1) (shutdownStep { closeFix := true, zeroFix := true })
  | ["shutdownmc"] => runLoop () (fun st toks => (st, shutdownMc toks))
  | ["gvtnode"] => runLoop ({} : GNSt) gnStep
  | ["tw"] => runLoop ({} : TWSt) twStep
  | ["wire"] => runLoop () (fun st toks => (st, wirecmd toks))
  | ["heap"] => runLoop ({} : HeapSt) heapStep
  | ["par"] => runLoop ({} : Driver.Run.Sys) Driver.Run.parStep
  | ["seq"] => runLoop ({} : Driver.Run.SeqSys) Driver.Run.seqStep
  | ["serial2"] => runLoop ({} : Driver.Run.Serial2) Driver.Run.serial2Step
  | ["serial"] => runLoop ({} : Driver.Run.SerialSys) Driver.Run.serStep
  | [mode] =>
    match randVariantOfMode mode with
    | some v => runLoop () (fun st toks => (st, randcmd v toks))
    | none => IO.eprintln "usage: driver <mode>"
  | _ => IO.eprintln "usage: driver <mode>"
