import RootSim.Model.MsgAuto
import RootSim.Model.MsgAutoRemote
import Driver.Util
namespace Driver
open RootSim.MsgAuto

/-!
Driver mode `msgauto`: trace-inclusion checker for the per-message automata of C06.

The integrator splits a full-run trace (hooks `VK_*` of `core/verif.h`) by message and feeds, for ONE
message at a time, the observed actions in log order (the log must be linearised: under the token
scheduler there is no yield between an atomic operation and its `VERIF_TRACE`). Every line is answered
`ok` or `reject <reason>`; after a `reject` the automaton state is left unchanged.

## Vocabulary — local message (`msg local`)
| line                  | hook                                   | automaton action(s)                                  |
|-----------------------|----------------------------------------|------------------------------------------------------|
| `msg local`           | —                                      | start a new (not yet allocated) local message        |
| `alloc`               | `VK_MSG_ALLOC`                         | `alloc`                                              |
| `send_local`          | `VK_SEND_LOCAL`                        | `sendLocal` (flags := 0, insert, sender entry)       |
| `dequeue`             | `VK_DEQUEUE` (optional)                | `pop`                                                |
| `extract <prev>`      | `VK_EXTRACT` b=prev                    | [`pop` unless a `dequeue` preceded] + `flagProcess`; `<prev>` must equal the automaton's flag word |
| `lp_init`             | (after `alloc`, message never sent)    | the `LP_INIT` pseudo-message of `process_lp_init`: flags := PROCESSED, in the history, no sender |
| `forward`             | `VK_FORWARD`                           | `forward`                                            |
| `anti_local <prev>`   | `VK_ANTI_LOCAL` b=prev                 | `antiLocal`; `<prev>` checked                        |
| `anti_insert`         | (no hook; optional)                    | `antiInsert`                                         |
| `unprocess <prev>`    | `VK_UNPROCESS` b=prev                  | `unprocess`; `<prev>` checked                        |
| `requeue`             | (no hook; optional)                    | `requeue`                                            |
| `anti_discard <prev>` | `VK_ANTI_DISCARD` b=prev               | marker: the receiver must be about to free (`antiFree`), `<prev>` odd |
| `fossil_free`         | `VK_FOSSIL_FREE`, untagged entry       | [`commit`] + `fossilFree`; the following `free` is absorbed |
| `fini_entry`          | `VK_FINI_ENTRY`, untagged entry        | [`shutdown`] + `finiEntry`; a following `free` is absorbed iff it released |
| `queue_fini_free`     | (optional explicit form of `free`)     | [`shutdown`] + `queueFini`; the following `free` is absorbed |
| `sender_drop`         | `VK_FOSSIL_FREE`/`VK_FINI_ENTRY`, entry tagged `|1` | `senderDrop`                            |
| `free`                | `VK_MSG_FREE`                          | absorbed after `fossil_free`/`fini_entry`/`queue_fini_free`; else `antiFree` if the receiver is about to free; else [`shutdown`] + `queueFini` |
| `commit`, `shutdown`  | (optional, environment)                | `commit`, `shutdown`                                 |
| `end`                 | —                                      | `ok <life> …` summary; `reject leak` if the run was shut down and the buffer is still live |

Silent actions are inserted lazily and deterministically where the trace needs them (`[...]` above, and a
pending `antiInsert`/`requeue` before an `extract` / `shutdown`), so the accepted traces are exactly the
paths of the automaton with the unobservable actions projected away.

## Vocabulary — remote message (`msg remote`); the integrator correlates the three buffers by (id, m_seq)
`alloc`, `send_remote`, `recv_pos`, `recv_anti`, `drain_pos`, `drain_anti`,
`extract_r <prev&3>`, `forward_r`, `unprocess_r <prev&3>`, `requeue_r`, `early_match` (`VK_EARLY_MATCH`: the
two frees are included), `extract_a <prev&3>` (`VK_EXTRACT` of the anti copy; followed by `early_anti`
marker or by the rollback), `early_anti` (marker `VK_EARLY_ANTI`), `free_ra` (the two `VK_MSG_FREE` after
the rollback), `anti_remote` (`VK_ANTI_REMOTE` + `VK_MSG_FREE_AT_GVT`), `free_s_gvt`, `free_s_fossil`,
`free_s_fini`, `free_s_allocfini`, `fossil_free_r`, `fini_entry_r`, `queue_fini_r`, `queue_fini_a`,
`scommit`, `commit`, `shutdown`, `end`.
-/

/-- constructor name without its namespace -/
def short {α : Type} [Repr α] (x : α) : String := (((reprStr x).splitOn ".").getLast?).getD ""

inductive TraceSt
  | none
  | loc (s : LState) (absorb : Bool)
  | rem (s : RState)

def tryL (s : LState) (a : LAct) : Except String LState :=
  match lstep s a with
  | some s' => .ok s'
  | none => .error s!"action {short a} is not enabled (flags={s.flags} qc={s.qc} rpc={short s.rpc} inHist={s.inHist} life={short s.life})"

def tryR (s : RState) (a : RAct) : Except String RState :=
  match rstep s a with
  | some s' => .ok s'
  | none => .error s!"action {short a} is not enabled (pc={short s.pc} rq={s.rq} aq={s.aq} rLow={s.rLow} aLow={s.aLow})"

/-- resolve pending silent inserts -/
def flushL (s : LState) : Except String LState := do
  let s ← if s.spend then tryL s .antiInsert else pure s
  if s.rpend then tryL s .requeue else pure s

def ensureDownL (s : LState) : Except String LState := do
  if s.down then pure s else
    let s ← flushL s
    tryL s .shutdown

def checkPrev (what : String) (prev have_ : Nat) : Except String Unit :=
  if prev = have_ then pure () else .error s!"{what}: trace says previous flags {prev}, automaton has {have_}"

def localLine (s : LState) (absorb : Bool) (toks : List String) : Except String (LState × Bool) :=
  match toks with
  | ["alloc"] => do pure (← tryL s .alloc, false)
  | ["send_local"] => do pure (← tryL s .sendLocal, false)
  | ["dequeue"] => do
    let s ← if s.qc = 0 then flushL s else pure s
    pure (← tryL s .pop, false)
  | ["extract", p] => do
    let s ← if s.rpc = .hand then pure s else do
      let s ← if s.qc = 0 then flushL s else pure s
      tryL s .pop
    checkPrev "extract" (nat! p) s.flags
    pure (← tryL s .flagProcess, false)
  | ["lp_init"] => do
    -- the LP_INIT pseudo-message of `process_lp_init`: packed, `raw_flags = MSG_FLAG_PROCESSED`, pushed
    -- directly into the history; no sender. Equivalent automaton path:
    let s ← tryL s .sendLocal
    let s ← tryL s .senderDrop
    let s ← tryL s .pop
    let s ← tryL s .flagProcess
    pure (← tryL s .forward, false)
  | ["forward"] => do pure (← tryL s .forward, false)
  | ["anti_local", p] => do
    checkPrev "anti_local" (nat! p) s.flags
    pure (← tryL s .antiLocal, false)
  | ["anti_insert"] => do pure (← tryL s .antiInsert, false)
  | ["unprocess", p] => do
    checkPrev "unprocess" (nat! p) s.flags
    pure (← tryL s .unprocess, false)
  | ["requeue"] => do pure (← tryL s .requeue, false)
  | ["anti_discard", p] =>
    if s.rpc = .antiFree ∧ nat! p % 2 = 1 then pure (s, false)
    else .error s!"anti_discard: receiver is not about to free (rpc={short s.rpc})"
  | ["fossil_free"] => do
    let s ← if s.committed then pure s else tryL s .commit
    pure (← tryL s .fossilFree, true)
  | ["fini_entry"] => do
    let s ← ensureDownL s
    let s' ← tryL s .finiEntry
    pure (s', s'.life != s.life)
  | ["queue_fini_free"] => do
    let s ← ensureDownL s
    pure (← tryL s .queueFini, true)
  | ["sender_drop"] => do pure (← tryL s .senderDrop, false)
  | ["free"] =>
    if absorb then pure (s, false)
    else if s.rpc = .antiFree then do pure (← tryL s .antiFree, false)
    else do
      let s ← ensureDownL s
      pure (← tryL s .queueFini, false)
  | ["commit"] => do pure (← tryL s .commit, false)
  | ["shutdown"] => do pure (← ensureDownL s, false)
  | _ => .error "unknown action"

def remoteLine (s : RState) (toks : List String) : Except String RState :=
  match toks with
  | ["alloc"] => tryR s .alloc
  | ["send_remote"] => tryR s .sendRemote
  | ["recv_pos"] => tryR s .recvPos
  | ["recv_anti"] => tryR s .recvAnti
  | ["drain_pos"] => tryR s .drainPos
  | ["drain_anti"] => tryR s .drainAnti
  | ["extract_r", p] => do
    let s ← if s.rq = 0 ∧ s.rpend then tryR s .requeueR else pure s
    checkPrev "extract_r" (nat! p) s.rLow
    let s ← tryR s .popR
    tryR s .flagR
  | ["forward_r"] => tryR s .forwardR
  | ["unprocess_r", p] => do
    checkPrev "unprocess_r" (nat! p) s.rLow
    tryR s .unprocessR
  | ["requeue_r"] => tryR s .requeueR
  | ["early_match"] => tryR s .earlyFree
  | ["extract_a", p] => do
    checkPrev "extract_a" (nat! p) s.aLow
    let s ← tryR s .popA
    tryR s .flagA
  | ["early_anti"] => if s.aEarly then pure s else .error "early_anti: the automaton found the message in the history"
  | ["free_ra"] => tryR s .freeRA
  | ["anti_remote"] => tryR s .antiRemote
  | ["free_s_gvt"] => do
    let s ← if s.committed then pure s else tryR s .commit
    tryR s .sGvtFree
  | ["free_s_fossil"] => do
    let s ← if s.scommitted then pure s else tryR s .scommit
    tryR s .sFossilFree
  | ["free_s_fini"] => do
    let s ← if s.down then pure s else tryR s .shutdown
    tryR s .sFiniEntry
  | ["free_s_allocfini"] => do
    let s ← if s.down then pure s else tryR s .shutdown
    tryR s .sFiniFree
  | ["fossil_free_r"] => do
    let s ← if s.committed then pure s else tryR s .commit
    tryR s .fossilFreeR
  | ["fini_entry_r"] => do
    let s ← if s.down then pure s else tryR s .shutdown
    tryR s .finiEntryR
  | ["queue_fini_r"] => do
    let s ← if s.down then pure s else tryR s .shutdown
    tryR s .queueFiniR
  | ["queue_fini_a"] => do
    let s ← if s.down then pure s else tryR s .shutdown
    tryR s .queueFiniA
  | ["scommit"] => tryR s .scommit
  | ["commit"] => tryR s .commit
  | ["shutdown"] => tryR s .shutdown
  | _ => .error "unknown action"

def msgautoStep (st : TraceSt) (toks : List String) : TraceSt × String :=
  match toks with
  | ["msg", "local"] => (.loc LState.init false, "ok")
  | ["msg", "remote"] => (.rem RState.init, "ok")
  | ["end"] =>
    match st with
    | .loc s _ =>
      if s.life = .live ∧ s.down then (st, "reject leak: run shut down, buffer still live")
      else (st, s!"ok life={short s.life} flags={s.flags} qc={s.qc} inHist={s.inHist} cancelled={s.cancelled} freedBy={short s.freedBy}")
    | .rem s =>
      (st, s!"ok S={short s.sLife} R={short s.rLife} A={short s.aLife} early={s.aEarly} cancelled={s.cancelled}")
    | .none => (st, "reject no message")
  | _ =>
    match st with
    | .none => (st, "reject no message (start with `msg local` or `msg remote`)")
    | .loc s ab =>
      match localLine s ab toks with
      | .ok (s', ab') => if s'.err then (st, "reject undefined behaviour on the message") else (.loc s' ab', "ok")
      | .error e => (st, "reject " ++ e)
    | .rem s =>
      match remoteLine s toks with
      | .ok s' => if s'.err then (st, "reject undefined behaviour on the message") else (.rem s', "ok")
      | .error e => (st, "reject " ++ e)

end Driver
