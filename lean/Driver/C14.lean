import RootSim.Model.Place
import Driver.Util
namespace Driver
open RootSim.Place

def showE (r : Except Err String) : String :=
  match r with
  | .ok s => s
  | .error e => e.str

/-- line protocol of mode `place` (all numbers decimal):
* `node  lps n t k`            → `lid_node_first n_lps_node n_threads(after clamp)`   (`lp_global_init` on rank k)
* `thread first m t r`         → `lid_thread_first lid_thread_end`                    (`lp_init` on thread r)
* `route lps n first m t lp`   → `lid_to_nid(lp) lid_to_rid(lp)`
* `workers lps n t k`          → the ranges of all workers of rank k, or the error
* `owner lps n t lp`           → `(rank, thread)` computed by `lid_to_nid` then, on that rank, `lid_to_rid`
* `nodeu` / `threadu` / `routeu`: the same through the fixed-width model. -/
def c14 (cmd : String) (args : List String) : String :=
  match cmd, args.map nat! with
  | "node", [lps, n, t, k] => showE do
      let c ← lpGlobalInit? lps n t k
      pure s!"{c.first} {c.m} {c.t}"
  | "nodeu", [lps, n, t, k] => showE do
      let c ← lpGlobalInitU64 lps n t k
      pure s!"{c.first} {c.m} {c.t}"
  | "thread", [first, m, t, r] => showE do
      let (a, b) ← lpInit? ⟨first, m, t⟩ r
      pure s!"{a} {b}"
  | "threadu", [first, m, t, r] => showE do
      let (a, b) ← lpInitU64 ⟨first, m, t⟩ r
      pure s!"{a} {b}"
  | "route", [lps, n, first, m, t, lp] => showE do
      let a ← lidToNid? lps n lp
      let b ← lidToRid? ⟨first, m, t⟩ lp
      pure s!"{a} {b}"
  | "routeu", [lps, n, first, m, t, lp] => showE do
      let a ← lidToNidU64? lps n lp
      let b ← lidToRidU64? ⟨first, m, t⟩ lp
      pure s!"{a} {b}"
  | "owner", [lps, n, t, lp] => showE do
      let (k, r) ← route lps n t lp
      pure s!"{k} {r}"
  | "workers", [lps, n, t, k] => showE do
      let l ← nodeWorkers? lps n t k
      pure (" ".intercalate (l.map fun (a, b) => s!"{a}-{b}"))
  | _, _ => "bad-op"
end Driver
