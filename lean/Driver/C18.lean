import RootSim.Model.Rand
import RootSim.Model.RandGamma
import Driver.Util
namespace Driver
open RootSim.Rand RootSim.Float

/-- which tree is modelled: pinned (`false`) or patched (`true`), per finding -/
structure RandVariant where
  fixShift : Bool := false   -- repo_patches/random_shift_ub.diff applied
  fixMod : Bool := false     -- repo_patches/random_range_nonuniform_negative.diff applied

def RandVariant.bits (v : RandVariant) : BitsFn := if v.fixShift then randomBitsFixed else randomBits

def ubName : UB → String
  | .shiftWidth => "UB-shift"
  | .intOverflow => "UB-intoverflow"
  | .divZero => "UB-divzero"
  | .floatToInt => "UB-float2int"
  | .xxteaLen => "UB-xxtealen"

def showRng (g : Rng) : String :=
  toHex g.s0 ++ " " ++ toHex g.s1 ++ " " ++ toHex g.s2 ++ " " ++ toHex g.s3

def parseRng : List String → Option (Rng × List String)
  | a :: b :: c :: d :: rest => some (⟨parseHexNat a, parseHexNat b, parseHexNat c, parseHexNat d⟩, rest)
  | _ => none

def showE18 {α : Type} (f : α → String) : Except UB α → String
  | .ok a => f a
  | .error e => ubName e

def showInt (i : Int) : String := toString i

/-- the non-uniform function of the selected tree -/
def RandVariant.nonUniform (v : RandVariant) (x min max : Int) (g : Rng) : Except UB (Int × Rng) :=
  randomRangeNonUniform v.bits (if v.fixMod then nonUniformOfFixed else nonUniformOf) true x min max g

/-- value of `x` after the `while(ia--) x *= 1 - Random();` loop of `Gamma`, as bits -/
def gammaX (v : RandVariant) (ia : Nat) (g : Rng) : Except UB (Nat × Rng) := do
  let (x, g') ← gammaLoop v.bits ia FVal.one g
  pure (encodeDouble x, g')

/-- class of a `double`: `fin`, `+inf`, `-inf`, `nan` -/
def fclass : FVal → String
  | .fin _ _ => "fin"
  | .inf false => "+inf"
  | .inf true => "-inf"
  | .nan => "nan"

/-- sign of a `double`: `-`, `0`, `+` (`?` for NaN) -/
def fsign : FVal → String
  | .fin m _ => if m < 0 then "-" else if m = 0 then "0" else "+"
  | .inf n => if n then "-" else "+"
  | .nan => "?"

/-- inner-loop fuel of `gammabig1` (the harness gives up after the same number of passes) -/
def gammaBig1Fuel : Nat := 64

/-- `gammabig1 <fixed> <ia> <state>`: ONE pass of the outer loop of the rejection branch of
`Gamma`, the part of the operand chain that does not depend on libm (`gammaInner`, `gammaY`,
`gammaAm`, `gammaSqArg`: the definitions the theorems of `Props/C18Gamma.lean` are about):
`<passes> <v1 bits> <v2 bits> <y bits> <v1 == 0> <sign v2> <class y> <am bits> <2am+1 bits> <state>` -/
def gammaBig1 (v : RandVariant) (fixed : Bool) (ia : Nat) (g : Rng) : String :=
  showE18 (fun (p : (Option (FVal × FVal) × Nat) × Rng) =>
    match p.1.1 with
    | none => "stuck " ++ toString p.1.2 ++ " " ++ showRng p.2
    | some (v1, v2) =>
      let y := gammaY v1 v2
      let am := gammaAm ia
      " ".intercalate [toString p.1.2, toHex (encodeDouble v1), toHex (encodeDouble v2), toHex (encodeDouble y),
        b2s v1.isZero, fsign v2, fclass y, toHex (encodeDouble am), toHex (encodeDouble (gammaSqArg am)),
        showRng p.2])
    (gammaInner v.bits fixed gammaBig1Fuel g)

/-- `fop <op> <a bits> <b bits>`: one binary64 operation of `Model/Float.lean` on arbitrary
operands (`-0.0` is read as `0.0`, every NaN is printed as `7ff8000000000000`) -/
def fopcmd (op : String) (a b : FVal) : String :=
  match op with
  | "add" => toHex (encodeDouble (FVal.add a b))
  | "sub" => toHex (encodeDouble (FVal.sub a b))
  | "mul" => toHex (encodeDouble (FVal.mul a b))
  | "div" => toHex (encodeDouble (FVal.div a b))
  | "gt" => b2s (FVal.gt a b)
  | "lt" => b2s (FVal.lt a b)
  | "eq0" => b2s a.isZero
  | _ => "bad-op"

def randcmd (v : RandVariant) (args : List String) : String :=
  match args with
  | "next" :: rest =>
    match parseRng rest with
    | some (g, _) => let r := xoshiroNext g; toHex r.1 ++ " " ++ showRng r.2
    | none => "bad-op"
  | ["craft", u] => toHex (craftS1 (parseHexNat u))
  | ["bits", u] => showE18 toHex (v.bits (parseHexNat u))
  | ["seed", lp, sd] => showRng (seedState (parseHexNat lp) (parseHexNat sd))
  | "xxtea" :: "enc" :: ws => showE18 (fun l => " ".intercalate (l.map toHex)) (xxteaEncode (ws.map parseHexNat) seedingKey)
  | "xxtea" :: "dec" :: ws => showE18 (fun l => " ".intercalate (l.map toHex)) (xxteaDecode (ws.map parseHexNat) seedingKey)
  | ["range", u, mn, mx] =>
    showE18 showInt (do
      let b ← v.bits (parseHexNat u)
      rangeOf (decodeDouble b) (int! mn) (int! mx))
  | ["onem", u] =>
    showE18 toHex (do
      let b ← v.bits (parseHexNat u)
      pure (encodeDouble (oneMinus (decodeDouble b))))
  | ["mul", u, n] =>
    showE18 toHex (do
      let b ← v.bits (parseHexNat u)
      pure (encodeDouble (FVal.mul (decodeDouble b) (FVal.ofInt (int! n)))))
  | "random" :: rest =>
    match parseRng rest with
    | some (g, _) => showE18 (fun p => toHex p.1 ++ " " ++ showRng p.2) (randomB v.bits g)
    | none => "bad-op"
  | "rrange" :: mn :: mx :: rest =>
    match parseRng rest with
    | some (g, _) => showE18 (fun p => showInt p.1 ++ " " ++ showRng p.2) (randomRange v.bits (int! mn) (int! mx) g)
    | none => "bad-op"
  | "nonuni" :: x :: mn :: mx :: rest =>
    match parseRng rest with
    | some (g, _) => showE18 (fun p => showInt p.1 ++ " " ++ showRng p.2) (v.nonUniform (int! x) (int! mn) (int! mx) g)
    | none => "bad-op"
  | "gammax" :: ia :: rest =>
    match parseRng rest with
    | some (g, _) => showE18 (fun p => toHex p.1 ++ " " ++ showRng p.2) (gammaX v (nat! ia) g)
    | none => "bad-op"
  | "gammabig1" :: fx :: ia :: rest =>
    match parseRng rest with
    | some (g, _) => gammaBig1 v (fx == "1") (nat! ia) g
    | none => "bad-op"
  | ["fop", op, a, b] => fopcmd op (decodeDouble (parseHexNat a)) (decodeDouble (parseHexNat b))
  | "adv" :: k :: rest =>
    match parseRng rest with
    | some (g, _) => showRng (advance (nat! k) g)
    | none => "bad-op"
  | _ => "bad-op"

/-- `rand`, `rand-fs`, `rand-fm`, `rand-fs-fm` -/
def randVariantOfMode (mode : String) : Option RandVariant :=
  match mode.splitOn "-" with
  | "rand" :: flags =>
    if flags.all (fun f => f == "fs" || f == "fm") then
      some { fixShift := flags.contains "fs", fixMod := flags.contains "fm" }
    else none
  | _ => none

end Driver
