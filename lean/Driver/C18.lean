import RootSim.Model.Rand
import Driver.Util
namespace Driver
open RootSim.Rand RootSim.Float

/-- which tree is modelled: pinned (`false`) or patched (`true`), per finding -/
structure RandVariant where
  fixShift : Bool := false   -- repo_patches/random_shift_ub.diff applied
  fixMod : Bool := false     -- repo_patches/random_range_nonuniform_negative.diff applied

def RandVariant.bits (v : RandVariant) : BitsFn := if v.fixShift then randomBitsFixed else randomBits

def ubName : UB → String
  | .shiftWidth => "UB-shift"
  | .intOverflow => "UB-intoverflow"
  | .divZero => "UB-divzero"
  | .floatToInt => "UB-float2int"
  | .xxteaLen => "UB-xxtealen"

def showRng (g : Rng) : String :=
  toHex g.s0 ++ " " ++ toHex g.s1 ++ " " ++ toHex g.s2 ++ " " ++ toHex g.s3

def parseRng : List String → Option (Rng × List String)
  | a :: b :: c :: d :: rest => some (⟨parseHexNat a, parseHexNat b, parseHexNat c, parseHexNat d⟩, rest)
  | _ => none

def showE18 {α : Type} (f : α → String) : Except UB α → String
  | .ok a => f a
  | .error e => ubName e

def showInt (i : Int) : String := toString i

/-- the non-uniform function of the selected tree -/
def RandVariant.nonUniform (v : RandVariant) (x min max : Int) (g : Rng) : Except UB (Int × Rng) :=
  randomRangeNonUniform v.bits (if v.fixMod then nonUniformOfFixed else nonUniformOf) true x min max g

/-- value of `x` after the `while(ia--) x *= 1 - Random();` loop of `Gamma`, as bits -/
def gammaX (v : RandVariant) (ia : Nat) (g : Rng) : Except UB (Nat × Rng) := do
  let (x, g') ← gammaLoop v.bits ia FVal.one g
  pure (encodeDouble x, g')

def randcmd (v : RandVariant) (args : List String) : String :=
  match args with
  | "next" :: rest =>
    match parseRng rest with
    | some (g, _) => let r := xoshiroNext g; toHex r.1 ++ " " ++ showRng r.2
    | none => "bad-op"
  | ["craft", u] => toHex (craftS1 (parseHexNat u))
  | ["bits", u] => showE18 toHex (v.bits (parseHexNat u))
  | ["seed", lp, sd] => showRng (seedState (parseHexNat lp) (parseHexNat sd))
  | "xxtea" :: "enc" :: ws => showE18 (fun l => " ".intercalate (l.map toHex)) (xxteaEncode (ws.map parseHexNat) seedingKey)
  | "xxtea" :: "dec" :: ws => showE18 (fun l => " ".intercalate (l.map toHex)) (xxteaDecode (ws.map parseHexNat) seedingKey)
  | ["range", u, mn, mx] =>
    showE18 showInt (do
      let b ← v.bits (parseHexNat u)
      rangeOf (decodeDouble b) (int! mn) (int! mx))
  | ["onem", u] =>
    showE18 toHex (do
      let b ← v.bits (parseHexNat u)
      pure (encodeDouble (oneMinus (decodeDouble b))))
  | ["mul", u, n] =>
    showE18 toHex (do
      let b ← v.bits (parseHexNat u)
      pure (encodeDouble (FVal.mul (decodeDouble b) (FVal.ofInt (int! n)))))
  | "random" :: rest =>
    match parseRng rest with
    | some (g, _) => showE18 (fun p => toHex p.1 ++ " " ++ showRng p.2) (randomB v.bits g)
    | none => "bad-op"
  | "rrange" :: mn :: mx :: rest =>
    match parseRng rest with
    | some (g, _) => showE18 (fun p => showInt p.1 ++ " " ++ showRng p.2) (randomRange v.bits (int! mn) (int! mx) g)
    | none => "bad-op"
  | "nonuni" :: x :: mn :: mx :: rest =>
    match parseRng rest with
    | some (g, _) => showE18 (fun p => showInt p.1 ++ " " ++ showRng p.2) (v.nonUniform (int! x) (int! mn) (int! mx) g)
    | none => "bad-op"
  | "gammax" :: ia :: rest =>
    match parseRng rest with
    | some (g, _) => showE18 (fun p => toHex p.1 ++ " " ++ showRng p.2) (gammaX v (nat! ia) g)
    | none => "bad-op"
  | "adv" :: k :: rest =>
    match parseRng rest with
    | some (g, _) => showRng (advance (nat! k) g)
    | none => "bad-op"
  | _ => "bad-op"

/-- `rand`, `rand-fs`, `rand-fm`, `rand-fs-fm` -/
def randVariantOfMode (mode : String) : Option RandVariant :=
  match mode.splitOn "-" with
  | "rand" :: flags =>
    if flags.all (fun f => f == "fs" || f == "fm") then
      some { fixShift := flags.contains "fs", fixMod := flags.contains "fm" }
    else none
  | _ => none

end Driver
