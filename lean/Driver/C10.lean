import RootSim.Model.Heap
import RootSim.Model.Msg
import Driver.C16
/-!
Driver mode `heap` (C10 / heap half of C15): a stateful front end of the model heap of `Model/Heap.lean`.

Two heaps are driven by the same operation lines, exactly as `harness/hc10.c` drives the real macros:
* `h1 : Array Msg`   with `isBefore`     (`heap_declare(struct lp_msg *)` + `msg_is_before`, serial.c)
* `h2 : Array QElem` with `qElemBefore`  (`heap_declare(struct q_elem)` + `q_elem_is_before`, msg_queue.c)

Each message carries a harness-chosen ordinal in `mSeq` (ignored by the order).  After every operation the
digest of the whole array order (ordinal and anti bit of every slot, in array order) is printed, so the model
array layout is compared with the C array layout after every operation.

  ins <k> <t> <flags> <type> <size> <hex>   -> "<pos1> <pos2> <d1> <d2>"   (value of the macro = final index)
  insn (<k> <t> <flags> <type> <size> <hex>)*  -> "<d1> <d2>"               (heap_insert_n)
  ext                                        -> "<k1> <k2> <d1> <d2>" | "empty"
  min                                        -> "<k1> <k2> <t2>" | "empty"
  cnt                                        -> "<n1> <n2>"
  flip <k>                                   -> "<d2>"   (sets MSG_FLAG_ANTI of message k as seen by h2 only)
  clr                                        -> "ok"
-/
namespace Driver
open RootSim RootSim.Heap

structure HeapSt where
  h1 : Array Msg := #[]
  h2 : Array QElem := #[]

def digestStep (h : UInt64) (seq anti : Nat) : UInt64 :=
  h * 1000003 + UInt64.ofNat (seq * 2 + anti) + 1

def digest1 (a : Array Msg) : String :=
  toHex (a.foldl (fun h m => digestStep h m.mSeq m.anti) 1469598103934665603).toNat

def digest2 (a : Array QElem) : String :=
  toHex (a.foldl (fun h q => digestStep h q.m.mSeq q.m.anti) 1469598103934665603).toNat

def parseSeqMsg : List String → Option (Msg × List String)
  | k :: rest =>
    match parseMsg rest with
    | some (m, rest') =>
      if m.plSize ≤ m.pl.length then some ({ m with mSeq := nat! k }, rest') else none
    | none => none
  | _ => none

def parseSeqMsgs (fuel : Nat) (toks : List String) (acc : List Msg) : Option (List Msg) :=
  match fuel with
  | 0 => none
  | fuel + 1 =>
    match toks with
    | [] => some acc.reverse
    | _ => match parseSeqMsg toks with
      | some (m, rest) => parseSeqMsgs fuel rest (m :: acc)
      | none => none

def qe (m : Msg) : QElem := ⟨m.destT, m⟩

def heapStep (st : HeapSt) (toks : List String) : HeapSt × String :=
  match toks with
  | "ins" :: args =>
    match parseSeqMsg args with
    | some (m, _) =>
      let r1 := heapInsert isBefore st.h1 m
      let r2 := heapInsert qElemBefore st.h2 (qe m)
      ({ h1 := r1.1, h2 := r2.1 },
        s!"{r1.2} {r2.2} {digest1 r1.1} {digest2 r2.1}")
    | none => (st, "bad-op")
  | "insn" :: args =>
    match parseSeqMsgs (args.length + 1) args [] with
    | some ms =>
      let a1 := heapInsertN isBefore st.h1 ms
      let a2 := heapInsertN qElemBefore st.h2 (ms.map qe)
      ({ h1 := a1, h2 := a2 }, s!"{digest1 a1} {digest2 a2}")
    | none => (st, "bad-op")
  | ["ext"] =>
    match heapExtract isBefore st.h1, heapExtract qElemBefore st.h2 with
    | some (m1, a1), some (q2, a2) =>
      ({ h1 := a1, h2 := a2 }, s!"{m1.mSeq} {q2.m.mSeq} {digest1 a1} {digest2 a2}")
    | none, none => (st, "empty")
    | _, _ => (st, "desync")
  | ["min"] =>
    match heapMin st.h1, heapMin st.h2 with
    | some m1, some q2 => (st, s!"{m1.mSeq} {q2.m.mSeq} {toHex q2.t}")
    | none, none => (st, "empty")
    | _, _ => (st, "desync")
  | ["cnt"] => (st, s!"{st.h1.size} {st.h2.size}")
  | ["flip", k] =>
    let k := nat! k
    let a2 := st.h2.map fun q =>
      if q.m.mSeq = k then { q with m := { q.m with rawFlags := q.m.rawFlags ||| 1 } } else q
    ({ st with h2 := a2 }, digest2 a2)
  | ["clr"] => ({}, "ok")
  | _ => (st, "bad-op")

end Driver
