import RootSim.Model.Barrier
import Driver.Util
namespace Driver
open RootSim.Barrier

/-- driver state of mode `barrier`: the model state and the number of uses each harness thread performs -/
structure BarSt where
  s : St := RootSim.Barrier.init 0
  uses : Nat := 0

/-- Line protocol of mode `barrier` (one scenario = `init`, then the schedule):
* `init <N> <U>` — `N` threads, each calls the barrier `U` times → `ok`
* `step <tid>`   — thread `tid` runs from its current yield point to the next one:
  - it was at `VP_BARRIER_ENTER`: executes the `fetch_add` → `spinup` / `spindown` (the point it stops at)
  - it was in a spin loop and the guard is false → `spinup` / `spindown` again
  - the guard is true: it returns → `ret <use> <leader> enter|done` -/
def barrierStep (st : BarSt) (toks : List String) : BarSt × String :=
  match toks with
  | ["init", n, u] => ({ s := RootSim.Barrier.init (nat! n), uses := nat! u }, "ok")
  | ["step", i] =>
    let i := nat! i
    match st.s.ths[i]?, step st.s i with
    | some t, some s' =>
      match s'.ths[i]? with
      | some t' =>
        let out :=
          if t'.spin then (if up t'.uses then "spinup" else "spindown")
          else s!"ret {t.uses} {b2s t.l} " ++ (if t'.uses = st.uses then "done" else "enter")
        ({ st with s := s' }, out)
      | none => (st, "bad-op")
    | _, _ => (st, "bad-op")
  | _ => (st, "bad-op")

end Driver
