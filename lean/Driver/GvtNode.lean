import RootSim.Model.GvtNode
import Driver.Util
/-!
Driver mode `gvtnode`: replay of the node-level GVT actions observed in a real multi-rank run (merged into one causal order by
tools/props/C04.py) on `Model/GvtNode.lean`. For every action the model prints what IT computes: the colour a message is stamped
with, whether a reporting thread is the last of its node, the result of the reduce-scatter, the value read by every poll of
`total_msg_received`, the number of received messages added and whether the thread may proceed. The model covers one round;
between rounds (every thread printed `done`) the per-node records are re-initialised, the per-thread colour and counters carry over.
-/
namespace Driver
open RootSim.GvtNode

structure GNSt where
  s : St := { N := 1, thr := [], nodes := [] }
  keys : List String := []        -- keys of the in-flight messages, parallel to `s.flight`
  doneCnt : List Nat := []        -- per node: threads that finished the current round

def u32 (x : Int) : Nat := (x % 4294967296).toNat

def gnStep (g : GNSt) (toks : List String) : GNSt × String :=
  let tix (node rid : Nat) : Nat := node * g.s.N + rid
  match toks with
  | ["hdr", k, n] =>
    let K := nat! k; let N := nat! n
    ({ s := init K N false, keys := [], doneCnt := List.replicate K 0 }, "hdr ok")
  | ["send", node, rid, d, _colour, key] =>
    let t := tix (nat! node) (nat! rid)
    let col := match g.s.thr[t]? with | some th => (if th.colour then 1 else 0) | none => 9
    match step g.s (.send t (nat! d) 0) with
    | some s' => ({ g with s := s', keys := g.keys ++ [key] }, s!"send colour={col}")
    | none => (g, "send not-enabled")
  | ["recv", node, rid, key] =>
    let t := tix (nat! node) (nat! rid)
    match g.keys.idxOf? key with
    | none => (g, "recv unknown-message")
    | some i =>
      match step g.s (.deliver i t) with
      | some s' => ({ g with s := s', keys := g.keys.eraseIdx i }, "recv ok")
      | none => (g, "recv not-enabled")
  | ["flip", node, rid, _colour, c] =>
    let t := tix (nat! node) (nat! rid)
    if nat! c = 1 then
      match step g.s (.flip t) with
      | some s' =>
        let col := match s'.thr[t]? with | some th => (if th.colour then 1 else 0) | none => 9
        ({ g with s := s' }, s!"flip colour={col}")
      | none => (g, "flip not-enabled")
    else
      -- end of the second thread-level reduction: the thread must be in `redux2`
      match g.s.thr[t]? with
      | some th => (g, if th.stage = Stage.redux2 then "redux2 ok" else "redux2 before-passing-the-receive-wait")
      | none => (g, "bad-thread")
  | ["report", node, rid, _last] =>
    let t := tix (nat! node) (nat! rid)
    match step g.s (.report t) with
    | some s' =>
      let last := match s'.thr[t]? with | some th => (if th.stage = Stage.reduceWait then 1 else 0) | none => 9
      ({ g with s := s' }, s!"report last={last}")
    | none => (g, "report not-enabled")
  | ["coll", node, rid, _to] =>
    let t := tix (nat! node) (nat! rid)
    match step g.s (.collective t) with
    | some s' =>
      let to := match s'.nodes[nat! node]? with | some nd => nd.toReceive.getD 0 | none => 0
      ({ g with s := s' }, s!"coll to={to}")
    | none => (g, "coll not-enabled")
  | ["poll", node, rid, _r, _x] =>
    let t := tix (nat! node) (nat! rid)
    match g.s.thr[t]?, g.s.nodes[nat! node]? with
    | some th, some nd =>
      let r := nd.totalRecv
      let x := th.recv.get (!th.colour)
      match step g.s (.poll t) with
      | some s' => ({ g with s := s' }, s!"poll r={u32 r} x={x} pass={if r = 0 then 1 else 0}")
      | none => (g, "poll not-enabled")
    | _, _ => (g, "bad-thread")
  | ["done", node, rid] =>
    let k := nat! node
    let t := tix k (nat! rid)
    match g.s.thr[t]? with
    | none => (g, "bad-thread")
    | some th =>
      let ok := th.stage = Stage.redux2
      let thr' := g.s.thr.set t { th with stage := Stage.redux1 }
      let dc := g.doneCnt.set k (g.doneCnt.getD k 0 + 1)
      -- when every thread of every node finished the round the node records start afresh
      let all := dc.all (fun c => c == g.s.N)
      let nodes' := if all then g.s.nodes.map (fun _ => ({} : Node)) else g.s.nodes
      let dc' := if all then dc.map (fun _ => 0) else dc
      ({ g with s := { g.s with thr := thr', nodes := nodes' }, doneCnt := dc' }, if ok then "done" else "done before-redux2")
  | _ => (g, "bad-op")

end Driver
