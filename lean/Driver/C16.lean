import RootSim.Model.Msg
import Driver.Util
namespace Driver
open RootSim

/-- `t flags type size hexbytes` (t = key in hex) -/
def parseMsg : List String → Option (Msg × List String)
  | t :: f :: ty :: sz :: pl :: rest =>
    some ({ destT := parseHexNat t, rawFlags := nat! f, mType := nat! ty, plSize := nat! sz,
            pl := parseHexBytes pl }, rest)
  | _ => none

def c16 (args : List String) : String :=
  match parseMsg args with
  | some (a, rest) =>
    match parseMsg rest with
    | some (b, _) =>
      if a.plSize ≤ a.pl.length ∧ b.plSize ≤ b.pl.length then
        b2s (isBefore a b) ++ " " ++ b2s (isBeforeExt a b) ++ " " ++
        b2s (qElemBefore ⟨a.destT, a⟩ ⟨b.destT, b⟩)
      else "bad-op"
    | none => "bad-op"
  | none => "bad-op"
end Driver
