import RootSim.Model.LP
import RootSim.Model.GenModel
import RootSim.Model.Serial
import RootSim.Model.Place
import Driver.Util
/-!
Driver modes `serial` and `par`: re-execution of a real ROOT-Sim run on the Lean models.

`par`: the input lines are the totally ordered trace of a scheduled parallel run (harness/hrun.c).
Lines carrying nondeterministic *inputs* (which message was dequeued, which ordinal the allocator
handed out, checkpoint placement, GVT values) are accepted; for every line the model prints what IT
computes for that event (flag values, rollback index, restored checkpoint, coast-forward entries,
content of every sent message, LP state digest after every forward step / rollback / checkpoint,
entries released by fossil collection, frees). The harness prints the same from the implementation;
the two streams are diffed.
-/
namespace Driver.Run
open RootSim RootSim.LP RootSim.GenModel Driver

structure MsgRec where
  ev     : Event
  flags  : Nat := 0
  queued : Nat := 0
  freed  : Bool := false
  known  : Bool := false   -- content bound (send / init seen)
  mseq   : Nat := 0        -- `m_seq` of a message received from another rank

/-- events the model expects next from a thread (in order) -/
inductive Exp where
  | send (lp : Nat) (e : Event)            -- next `send` line binds its ordinal to this content
  | initPush (lp : Nat) (m : Nat)          -- silently applied before the `ckpt` of process_lp_init
  | antil (m : Nat)
  | unproc (m : Nat)
  | rb (lp pastI ref : Nat)
  | silent (lp idx m : Nat)
  | rbdone (lp pastI : Nat) (dg : UInt64)
  | fwd (m lp : Nat)
  | antid (m f : Nat)
  | free (m : Nat)
  | ffree (lp m idx tag : Nat)
  | fdone (lp n : Nat) (ok : Bool)
  | termrb (lp t : Nat)       -- termination_on_lp_rollback(lp, t)
  | termproc (lp t : Nat)     -- termination_on_msg_process(lp, t) when it gets past its early return
  | vote (tq : Nat)
  | rsend (lp : Nat) (e : Event)   -- ScheduleNewEvent to an LP hosted by another rank
  | antir (m : Nat)                 -- mpi_remote_anti_msg_send for a remote-sent entry being undone
  | fgvt (m : Nat)                  -- msg_allocator_free_at_gvt of the sender's copy
  | early (m : Nat)                 -- remote anti-message that arrived before its event
  | ematch (m a : Nat)              -- remote event annihilated by a waiting early anti-message

/-- `SIMTIME_MAX` as a time key (what the harness prints for it) -/
def tMax : Nat := 2 ^ 62
/-- the negative "not true" sentinel of `termination_t` as printed by the harness -/
def tNone : Nat := 2 ^ 62 + 1

structure Thread where
  /-- `lps_to_end` (uint64, wraps) and `max_t` of gvt/termination.c -/
  lpsToEnd : Nat := 0
  maxT : Nat := 0
  epoch : Nat := 0
  gvt : Nat := 0
  exp : List Exp := []
  lastAlloc : Nat := 0
  cur : Nat := 0        -- message being processed
  atGvt : Array Nat := #[]   -- `at_gvt_list` of mm/msg_allocator.c
  /-- result of the PROVEN one-shot function `LP.processPlain` for the message being processed (sent ordinals unknown yet:
  placeholders), compared with the incrementally built LP state when the `fwd` line arrives -/
  oneShot : Option (LPState GState) := none

structure Sys where
  P : Params := ⟨0, 1, 1, 1, 0, 0, false, false, false, 0⟩
  pool : Array MsgRec := #[]
  lps : Array (LPState GState) := #[]
  ths : Array Thread := #[]
  lastGvt : Nat := 0
  rng0 : Array Rng := #[]
  /-- sequential reference: per-LP dispatched event contents and final states (computed on demand) -/
  seq : Option (Array (Array Event) × Array GState) := none
  /-- number of committed (fossil-collected) past entries per LP -/
  committed : Array Nat := #[]
  allocs : Nat := 0
  frees : Nat := 0
  tterm : Nat := 0
  /-- number of MPI ranks and this rank (rank mode); 1/0 otherwise -/
  nNodes : Nat := 1
  nid : Nat := 0
  /-- `lp->p.early_antis` per LP: newest first -/
  earlyAntis : Array (List Nat) := #[]
  /-- `lp->termination_t` per LP (`tNone` = -1.0 = predicate not true; `tMax` = true since init) -/
  termT : Array Nat := #[]

def dummyEv : Event := { dest := 0, t := 0, type := 0, payload := [] }

def Sys.mrec (s : Sys) (m : Nat) : MsgRec := s.pool.getD m { ev := dummyEv }
def Sys.ev (s : Sys) (m : Nat) : Event := (s.mrec m).ev
/-- message as the C comparisons see it: content + current flag word -/
def Sys.look (s : Sys) (m : Nat) : Msg := { (s.ev m).toMsg with rawFlags := (s.mrec m).flags }
def Sys.setRec (s : Sys) (m : Nat) (r : MsgRec) : Sys :=
  if m < s.pool.size then { s with pool := s.pool.set! m r }
  else { s with pool := (s.pool ++ Array.replicate (m - s.pool.size) ({ ev := dummyEv } : MsgRec)).push r }
def Sys.lp (s : Sys) (i : Nat) : LPState GState := s.lps.getD i { st := {} }
def Sys.setLp (s : Sys) (i : Nat) (l : LPState GState) : Sys := { s with lps := s.lps.set! i l }
def Sys.th (s : Sys) (i : Nat) : Thread := s.ths.getD i {}
def Sys.setTh (s : Sys) (i : Nat) (t : Thread) : Sys := { s with ths := s.ths.set! i t }

def hx (x : UInt64) : String := toHex x.toNat

def renderSend (m from_ : Nat) (e : Event) : String :=
  s!"send {m} from={from_} dest={e.dest} tq={e.t} type={e.type} size={e.payload.length} pl={hx (payloadDigest e.payload)}"

/-- `lid_to_nid(lp) != nid` -/
def Sys.isRemote (s : Sys) (lp : Nat) : Bool :=
  s.nNodes > 1 && RootSim.Place.lidToNid s.P.nLps s.nNodes lp != s.nid

def hnd (s : Sys) (lp : Nat) : GState → Event → GState × List Event := handler s.P lp

/-- queue re-insertion bookkeeping -/
def Sys.requeue (s : Sys) (m : Nat) : Sys := s.setRec m { s.mrec m with queued := (s.mrec m).queued + 1 }

/-- the events a rollback of `lp` to `pastI` produces, and the new LP state -/
def doRollback (s : Sys) (lp pastI : Nat) : Sys × List Exp :=
  match rollback (hnd s lp) s.ev (s.lp lp) pastI with
  | none => (s, [.rb lp pastI 999999999])
  | some o =>
    let antis := o.undone.map (fun e => match e with
      | .past m => Exp.unproc m
      | .sent m => Exp.antil m
      | .rsent m => Exp.antir m)
    let antis := antis.flatMap (fun e => match e with
      | .antir m => [e, Exp.fgvt m]
      | _ => [e])
    (s.setLp lp o.lp,
     antis ++ [.rb lp pastI o.ref] ++ o.silent.map (fun (i, m) => Exp.silent lp i m) ++ [.rbdone lp pastI (digest o.lp.st)])

/-- render + apply an expected event when its line arrives; `arg` = ordinal carried by the line -/
def applyExp (s : Sys) (r : Nat) (e : Exp) (arg : Nat) : Sys × String :=
  match e with
  | .send lp ev =>
    let s := s.setRec arg { ev := ev, flags := 0, queued := 1, known := true }
    let l := s.lp lp
    (s.setLp lp { l with hist := l.hist ++ [.sent arg] }, renderSend arg lp ev)
  | .initPush _ _ => (s, "internal-initPush")
  | .antil m =>
    let f := (s.mrec m).flags
    let s := s.setRec m { s.mrec m with flags := f + 1 }
    let s := if f / 2 % 2 = 1 then s.requeue m else s
    (s, s!"antil {m} f={f}")
  | .unproc m =>
    let f := (s.mrec m).flags
    let s := s.setRec m { s.mrec m with flags := f - 2 }
    let s := if f % 2 = 0 then s.requeue m else s
    (s, s!"unproc {m} f={f}")
  | .rb lp p ref => (s, s!"rb lp={lp} past={p} ref={ref}")
  | .silent lp i m => (s, s!"silent lp={lp} idx={i} m={m}")
  | .rbdone lp p dg => (s, s!"rbdone lp={lp} past={p} st={hx dg}")
  | .fwd m lp =>
    let l := s.lp lp
    let l := { l with hist := l.hist ++ [.past m] }
    let s := s.setLp lp l
    let th := s.th r
    let s := if s.termT.getD lp tNone = tNone then s.setTh r { th with exp := th.exp ++ [.termproc lp (s.ev m).t] } else s
    -- glue check: the incrementally built LP must equal what the proven one-shot `LP.processPlain` computes
    let glue := match th.oneShot with
      | some lp' =>
        if lp'.hist.length == l.hist.length && lp'.hist.map Entry.isPast == l.hist.map Entry.isPast
           && pastMsgs lp'.hist == pastMsgs l.hist && digest lp'.st == digest l.st && lp'.bound == l.bound
           && lp'.logs.map (fun (x : Nat × GState) => x.1) == l.logs.map (fun (x : Nat × GState) => x.1) then "" else " GLUE-MISMATCH"
      | none => " GLUE-UNDEFINED"
    (s, s!"fwd {m} lp={lp} idx={l.hist.length - 1} st={hx (digest l.st)}{glue}")
  | .antid m f => (s, s!"antid {m} f={f}")
  | .free m =>
    if (s.mrec m).freed then (s, s!"double-free {m}")
    else ({ (s.setRec m { s.mrec m with freed := true }) with frees := s.frees + 1 }, s!"free {m}")
  | .ffree lp m i tag => (s, s!"ffree lp={lp} m={if tag = 1 then 0 else m} idx={i} tag={tag}")
  | .fdone lp n ok => (s, s!"fdone lp={lp} n={n} c03={if s.nNodes > 1 then "-" else if ok then "ok" else "MISMATCH"}")
  | .termrb lp t =>
    -- termination_on_lp_rollback: keep = old_t < msg_time || old_t == SIMTIME_MAX
    let old := s.termT.getD lp tNone
    -- keep = old_t < msg_time || old_t == SIMTIME_MAX   (old_t = -1.0 is below every time stamp)
    let keep := old == tNone || decide (old < t) || old == tMax
    let th := s.th r
    let s := { s with termT := s.termT.set! lp (if keep then old else tNone) }
    let s := s.setTh r { th with lpsToEnd := if keep then th.lpsToEnd else (th.lpsToEnd + 1) % 2 ^ 64 }
    (s, s!"termrb lp={lp} old={old} keep={if keep then 1 else 0}")
  | .termproc lp t =>
    -- termination_on_msg_process past the early return (`termination_t == 0` before)
    let term := canEnd s.P lp (s.lp lp).st
    let th := s.th r
    let newT := if term then t else tNone
    let lte := if term then (th.lpsToEnd + 2 ^ 64 - 1) % 2 ^ 64 else th.lpsToEnd
    let s := { s with termT := s.termT.set! lp newT }
    let s := s.setTh r { th with lpsToEnd := lte, maxT := if term then max t th.maxT else th.maxT }
    (s, s!"termproc lp={lp} t={newT} lte={lte}")
  | .rsend lp ev =>
    let s := s.setRec arg { ev := ev, flags := 0, queued := 0, known := true }
    let l := s.lp lp
    (s.setLp lp { l with hist := l.hist ++ [.rsent arg] }, renderSend arg lp ev |>.replace "send " "rsend ")
  | .antir m => (s, s!"antir {m}")
  | .fgvt m =>
    let th := s.th r
    (s.setTh r { th with atGvt := th.atGvt.push m }, s!"fgvt {m}")
  | .early m => (s, s!"early {m}")
  | .ematch m a => (s, s!"ematch {m} {a}")
  | .vote tq =>
    let th := s.th r
    (s.setTh r { th with maxT := tMax }, s!"vote {r} tq={tq} lte={th.lpsToEnd}")

def expKind : Exp → String
  | .send .. => "send" | .initPush .. => "initPush" | .antil .. => "antil" | .unproc .. => "unproc"
  | .rb .. => "rb" | .silent .. => "silent" | .rbdone .. => "rbdone" | .fwd .. => "fwd"
  | .antid .. => "antid" | .free .. => "free" | .ffree .. => "ffree" | .fdone .. => "fdone"
  | .termrb .. => "termrb" | .termproc .. => "termproc" | .vote .. => "vote"
  | .rsend .. => "rsend" | .antir .. => "antir" | .fgvt .. => "fgvt" | .early .. => "early" | .ematch .. => "ematch"

/-- consume the head of the thread's expectation list for a line of kind `kind` -/
def consume (s : Sys) (r : Nat) (kind : String) (arg : Nat) : Sys × String :=
  let t := s.th r
  match t.exp with
  | [] => (s, s!"unexpected {kind} {arg}")
  | e :: rest =>
    if expKind e == kind then
      let (s, out) := applyExp (s.setTh r { t with exp := rest }) r e arg
      (s, out)
    else (s, s!"expected {expKind e} got {kind} {arg}")

/-- process_msg after the `fetch_add(PROCESSED)` saw `f` -/
def onExtract (s : Sys) (r m f : Nat) : Sys :=
  let lpI := (s.ev m).dest
  let t := s.th r
  if f % 2 = 1 && f > 3 then
    -- remote anti-message (`handle_remote_anti_msg`): after `raw_flags -= MSG_FLAG_ANTI` its word is f + 1, which is
    -- exactly the word of the matching event once that has been processed (id + PROCESSED); match on (word, m_seq)
    let mId := f + 1
    let seq := (s.mrec m).mseq
    let l := s.lp lpI
    let k := scanBack (fun e => e.isPast && (s.mrec e.msg).flags == mId && (s.mrec e.msg).mseq == seq) l.hist.reverse
    if k = 0 then
      -- early remote anti-message: parked on the LP's list (its word is now f + 1)
      let s := s.setRec m { s.mrec m with flags := mId }
      let s := { s with earlyAntis := s.earlyAntis.set! lpI (m :: s.earlyAntis.getD lpI []) }
      let l := s.lp lpI
      let s := s.setLp lpI { l with bound := if l.hist.isEmpty then none else l.bound }
      s.setTh r { t with exp := [.early m] }
    else
      let i := k - 1
      let x := (l.hist.getD i (.past 0)).msg
      let pastI := scanBack Entry.isPast (l.hist.take i).reverse
      -- msg->raw_flags |= MSG_FLAG_ANTI
      let s := s.setRec x { s.mrec x with flags := (s.mrec x).flags + 1 }
      let (s, evs) := doRollback s lpI pastI
      let l := s.lp lpI
      let s := s.setLp lpI { l with bound := if l.hist.isEmpty then none else l.bound }
      s.setTh r { (s.th r) with exp := evs ++ [.termrb lpI (s.ev x).t, .free x, .free m] }
  else if f % 2 = 1 then
    -- anti-message
    if f = 3 then
      match matchAnti (s.lp lpI).hist m with
      | none => s.setTh r { t with exp := [.rb lpI 888888888 0] }
      | some pastI =>
        let (s, evs) := doRollback s lpI pastI
        let l := s.lp lpI
        let s := s.setLp lpI { l with bound := if l.hist.isEmpty then none else l.bound }
        s.setTh r { (s.th r) with exp := evs ++ [.termrb lpI (s.ev m).t, .antid m f, .free m] }
    else
      let l := s.lp lpI
      let s := s.setLp lpI { l with bound := if l.hist.isEmpty then none else l.bound }
      s.setTh r { t with exp := [.antid m f, .free m] }
  else
    -- a remote event may already have been cancelled by an early anti-message (`check_early_anti_messages`)
    let early := s.earlyAntis.getD lpI []
    let hit := if f != 0 then early.find? (fun a => (s.mrec a).flags == f + 2 && (s.mrec a).mseq == (s.mrec m).mseq) else none
    match hit with
    | some a =>
      let s := { s with earlyAntis := s.earlyAntis.set! lpI (early.erase a) }
      s.setTh r { t with exp := [.ematch m a, .free m, .free a] }
    | none =>
    let l := s.lp lpI
    let me := s.look m
    let me := { me with rawFlags := f + 2 }
    let strag : Bool := isStraggler s.look l me
    let (s, evs) :=
      if strag then
        let (s, evs) := doRollback s lpI (matchStraggler s.look l.hist me)
        (s, evs ++ [.termrb lpI me.destT])
      else (s, [])
    -- the proven one-shot function on the state before this message (theorems: C01.history_stays_sorted, C05LP.run_exact)
    let oneShot := match processPlain (hnd s lpI) s.ev s.look l m me
        (List.replicate ((hnd s lpI (match (if strag then (rollback (hnd s lpI) s.ev l (matchStraggler s.look l.hist me)).map (·.lp.st) else some l.st) with
          | some st => st | none => l.st) (s.ev m)).2.length) 0) with
      | some (lp', _) => some lp'
      | none => none
    -- forward execution
    let l := s.lp lpI
    let (st', outs) := hnd s lpI l.st (s.ev m)
    let s := s.setLp lpI { l with st := st', bound := some (s.ev m).t }
    -- termination_on_msg_process returns early when termination_t != 0; whether it does is decided when the
    -- rollback's own termination update (if any) has been applied, i.e. at `fwd` time
    s.setTh r { (s.th r) with oneShot := oneShot,
                              exp := evs ++ outs.map (fun e => if s.isRemote e.dest then Exp.rsend lpI e else Exp.send lpI e)
                                  ++ [.fwd m lpI] }

def insertSorted (e : Event) : List Event → List Event
  | [] => [e]
  | x :: xs => if Event.before e x then e :: x :: xs else x :: insertSorted e xs

/-- The non-stopping sequential reference execution of the GenModel instance: LP_INIT for every LP,
then repeatedly the `before`-minimal pending event, until nothing is pending (every LP eventually
freezes, so this terminates; `fuel` bounds the number of dispatches). Returns the per-LP sequences of
dispatched event contents (LP_INIT first) and the final LP states. -/
def seqRun (P : Params) (rng0 : Array Rng) (fuel : Nat) : Array (Array Event) × Array GState :=
  let n := P.nLps
  let initEv (lp : Nat) : Event := { dest := lp, t := 0, type := LP_INIT, payload := [] }
  let (sts, pend, disp) := (List.range n).foldl (fun (acc : Array GState × List Event × Array (Array Event)) lp =>
    let (sts, pend, disp) := acc
    let (st', outs) := handler P lp { rng := rng0.getD lp ⟨0, 0, 0, 0⟩ } (initEv lp)
    (sts.set! lp st', outs.foldl (fun p e => insertSorted e p) pend, disp.set! lp #[initEv lp]))
    (Array.replicate n ({} : GState), [], Array.replicate n #[])
  let rec go (fuel : Nat) (sts : Array GState) (pend : List Event) (disp : Array (Array Event)) :=
    match fuel, pend with
    | 0, _ => (disp, sts)
    | _, [] => (disp, sts)
    | fuel + 1, e :: rest =>
      let lp := e.dest
      let (st', outs) := handler P lp (sts.getD lp {}) e
      go fuel (sts.set! lp st') (outs.foldl (fun p e => insertSorted e p) rest)
        (disp.set! lp ((disp.getD lp #[]).push e))
  go fuel sts pend disp

def Sys.withSeq (s : Sys) : Sys :=
  match s.seq with
  | some _ => s
  | none => { s with seq := some (seqRun s.P s.rng0 2000000) }

/-- are the past entries `ms` (contents) the continuation of LP `lp`'s sequential sequence from
position `from_`? -/
def Sys.prefixOk (s : Sys) (lp from_ : Nat) (ms : List Nat) : Bool :=
  match s.seq with
  | none => false
  | some (disp, _) =>
    let d := disp.getD lp #[]
    (List.range ms.length).all (fun k =>
      match ms[k]?, d[from_ + k]? with
      | some m, some e =>
        let x := s.ev m
        x.t == e.t && x.type == e.type && x.payload == e.payload && x.dest == e.dest
      | _, _ => false)

/-- `deq`: the fossil collection that process_msg may run first -/
def onDequeue (s : Sys) (r m : Nat) : Sys :=
  let lpI := (s.ev m).dest
  let t := s.th r
  let l := s.lp lpI
  let s := s.setRec m { s.mrec m with queued := (s.mrec m).queued - 1 }
  if l.epoch = t.epoch then s else
  match fossil (fun x => (s.ev x).t) l t.gvt t.epoch with
  | none => s
  | some o =>
    let n := o.n
    -- the C loop frees from index n-1 down to 0; local-sent entries are only dropped
    let evs := (List.range n).reverse.flatMap (fun k =>
      match o.dropped[k]? with
      | some e => [Exp.ffree lpI e.msg k e.tag] ++ (if e.tag = 1 then [] else [Exp.free e.msg])
      | none => [])
    let l' := o.lp
    let l' := { l' with bound := if l'.hist.isEmpty then none else l'.bound }
    let s := s.withSeq
    let pm := pastMsgs o.dropped
    let c0 := s.committed.getD lpI 0
    let ok := s.prefixOk lpI c0 pm
    let s := { s with committed := s.committed.set! lpI (c0 + pm.length) }
    (s.setLp lpI l').setTh r { t with exp := evs ++ [.fdone lpI n ok] }

def parStep (s : Sys) (toks : List String) : Sys × String :=
  match toks with
  | "model" :: seed :: lps :: types :: fan :: thr :: spread :: rng :: mem :: t0 :: threads :: _ckpt :: tterm :: skew =>
    let P : Params := ⟨UInt64.ofNat (nat! seed), nat! lps, nat! types, nat! fan, nat! thr, nat! spread,
      nat! rng != 0, nat! mem != 0, nat! t0 != 0, nat! (skew.headD "0")⟩
    let nNodes := match skew with | [_, n, _] => nat! n | _ => 1
    let nid := match skew with | [_, _, i] => nat! i | _ => 0
    ({ s with P := P, tterm := nat! tterm, nNodes := nNodes, nid := nid,
              earlyAntis := Array.replicate (nat! lps) [],
              lps := Array.replicate (nat! lps) { st := {} },
              ths := Array.replicate (nat! threads) {},
              rng0 := Array.replicate (nat! lps) ⟨0, 0, 0, 0⟩,
              termT := Array.replicate (nat! lps) tNone,
              committed := Array.replicate (nat! lps) 0 }, "model ok")
  | ["period", _] => (s, "period")
  | ["alloc", r, o] =>
    let r := nat! r; let o := nat! o
    let s := s.setRec o { ev := dummyEv }
    let s := { s with allocs := s.allocs + 1 }
    (s.setTh r { (s.th r) with lastAlloc := o }, s!"alloc {o}")
  | ["init", r, lp, a, b, c, d] =>
    let r := nat! r; let lp := nat! lp
    let t := s.th r
    let rng : Rng := ⟨UInt64.ofNat (parseHexNat a), UInt64.ofNat (parseHexNat b),
      UInt64.ofNat (parseHexNat c), UInt64.ofNat (parseHexNat d)⟩
    let m := t.lastAlloc
    let initEv : Event := { dest := lp, t := 0, type := LP_INIT, payload := [] }
    let s := s.setRec m { ev := initEv, flags := 2, known := true }
    let s := { s with rng0 := s.rng0.set! lp rng }
    let (st', outs) := hnd s lp { rng := rng } initEv
    let s := s.setLp lp { st := st', bound := some 0 }
    (s.setTh r { t with exp := outs.map (fun e => if s.isRemote e.dest then Exp.rsend lp e else Exp.send lp e)
                            ++ [.initPush lp m] }, s!"init lp={lp}")
  | ["send", r, o, _] => consume s (nat! r) "send" (nat! o)
  | ["ckpt", r, lp, _] =>
    let r := nat! r; let lp := nat! lp
    let t := s.th r
    let s := match t.exp with
      | [.initPush lp' m] =>
        let l := s.lp lp'
        (s.setLp lp' { l with hist := l.hist ++ [Entry.past m] }).setTh r { t with exp := [] }
      | _ => s
    let l := checkpoint (s.lp lp)
    (s.setLp lp l, s!"ckpt lp={lp} ref={l.hist.length} st={hx (digest l.st)}")
  | ["deq", r, m] =>
    let r := nat! r; let m := nat! m
    if !(s.th r).exp.isEmpty then (s, s!"deq-while-expecting") else
    if (s.mrec m).queued = 0 then (s, s!"deq-not-queued {m}") else
    let e := s.ev m
    let s := onDequeue s r m
    let below := decide (e.t < (s.th r).gvt)
    (s.setTh r { (s.th r) with cur := m }, s!"deq {m} lp={e.dest} tq={e.t} type={e.type}{if below then " BELOW-GVT" else ""}")
  | ["ffree", r, _, m, _, _] => consume s (nat! r) "ffree" (nat! m)
  | ["fdone", r, _, _] => consume s (nat! r) "fdone" 0
  | ["ext", r, m, _f] =>
    let r := nat! r; let m := nat! m
    if !(s.th r).exp.isEmpty then (s, s!"ext-while-expecting") else
    let f := (s.mrec m).flags
    let s := s.setRec m { s.mrec m with flags := f + 2 }
    (onExtract s r m f, s!"ext {m} f={f}")
  | ["antid", r, m, _] => consume s (nat! r) "antid" (nat! m)
  | ["antil", r, m, _] => consume s (nat! r) "antil" (nat! m)
  | ["unproc", r, m, _] => consume s (nat! r) "unproc" (nat! m)
  | ["rb", r, _, _, _] => consume s (nat! r) "rb" 0
  | ["silent", r, _, _, _] => consume s (nat! r) "silent" 0
  | ["rbdone", r, _, _] => consume s (nat! r) "rbdone" 0
  | ["fwd", r, m, _, _] => consume s (nat! r) "fwd" (nat! m)
  | ["rsend", r, o, _] => consume s (nat! r) "rsend" (nat! o)
  | ["antir", r, m] => consume s (nat! r) "antir" (nat! m)
  | ["fgvt", r, m] => consume s (nat! r) "fgvt" (nat! m)
  | ["early", r, m] => consume s (nat! r) "early" (nat! m)
  | ["ematch", r, m, _] => consume s (nat! r) "ematch" (nat! m)
  | ["rrecv", _, o, dest, tq, ty, _sz, id, seq, pl] =>
    -- an event received from another rank: content, id word and sequence number are inputs
    let o := nat! o
    let ev : Event := { dest := nat! dest, t := nat! tq, type := nat! ty, payload := parseHexBytes pl }
    (s.setRec o { ev := ev, flags := nat! id, queued := 1, known := true, mseq := nat! seq }, s!"rrecv {o}")
  | ["rrecva", _, o, dest, tq, id, seq] =>
    let o := nat! o
    let ev : Event := { dest := nat! dest, t := nat! tq, type := 0, payload := [] }
    (s.setRec o { ev := ev, flags := nat! id, queued := 1, known := true, mseq := nat! seq }, s!"rrecva {o}")
  | ["termrb", r, _] => consume s (nat! r) "termrb" 0
  | ["termproc", r, _] => consume s (nat! r) "termproc" 0
  | ["terminit", r, lp] =>
    let r := nat! r; let lp := nat! lp
    let term := canEnd s.P lp (s.lp lp).st
    let th := s.th r
    let lte := if term then th.lpsToEnd else (th.lpsToEnd + 1) % 2 ^ 64
    let s := { s with termT := s.termT.set! lp (if term then tMax else tNone) }
    (s.setTh r { th with lpsToEnd := lte }, s!"terminit lp={lp} term={if term then 1 else 0} lte={lte}")
  | ["free", r, m] =>
    let r := nat! r; let m := nat! m
    match (s.th r).exp with
    | _ :: _ => consume s r "free" m
    | [] =>
      -- frees not announced by an LP-level decision: msg_queue_fini releasing what is still queued
      let rc := s.mrec m
      if rc.freed then (s, s!"double-free {m}")
      else if rc.queued > 0 then
        ({ (s.setRec m { rc with freed := true, queued := rc.queued - 1 }) with frees := s.frees + 1 }, s!"free {m}")
      else (s, s!"unexpected-free {m}")
  | ["gvt", r, tq] =>
    let r := nat! r; let tq := nat! tq
    let t := s.th r
    -- termination_on_gvt: no vote while (lps_to_end || max_t >= gvt) && gvt < termination_time
    let termTime := if s.tterm = 0 then tMax else s.tterm
    let noVote := (t.lpsToEnd != 0 || decide (t.maxT ≥ tq)) && decide (tq < termTime)
    let exp := if noVote then t.exp else t.exp ++ [.vote tq]
    -- msg_allocator_on_gvt: for(i = count; i-- > 0;) if(dest_t < gvt) { free; list[i] = list[--count]; }
    let (lst, frees) := (List.range t.atGvt.size).reverse.foldl (fun (acc : Array Nat × List Exp) i =>
      let (lst, fr) := acc
      let m := lst.getD i 0
      if (s.ev m).t < tq then
        let last := lst.getD (lst.size - 1) 0
        ((lst.set! i last).pop, fr ++ [Exp.free m])
      else (lst, fr)) (t.atGvt, [])
    (s.setTh r { t with epoch := t.epoch + 1, gvt := tq, exp := exp ++ frees, atGvt := lst }, s!"gvt {r} tq={tq}")
  | ["vote", r, _, _] => consume s (nat! r) "vote" 0
  | ["stage", r, n] => (s, s!"stage {r} {n}")
  | ["finilp", _, lp] =>
    let lp := nat! lp
    let l := s.lp lp
    let s := s.withSeq
    let sq := if s.tterm ≠ 0 ∨ s.nNodes > 1 then "-" else match s.seq with
      | some (_, sts) => hx (digest (sts.getD lp {}))
      | none => "?"
    (s, s!"finilp lp={lp} st={hx (digest l.st)} cnt={l.st.cnt.toNat} seq={sq}")
  | ["fini", r, lp, _, idx, _] =>
    let r := nat! r; let lp := nat! lp; let idx := nat! idx
    match (s.lp lp).hist[idx]? with
    | none => (s, "fini-out-of-range")
    | some e =>
      let t := s.th r
      let fr := match e with
        | .sent _ => false
        | .rsent _ => true
        | .past m => (s.mrec m).flags % 2 = 0
      let s := if fr then s.setTh r { t with exp := t.exp ++ [.free e.msg] } else s
      -- a past entry below the last GVT is committed: it must continue the sequential sequence
      let s := s.withSeq
      let (s, c03) := match e with
        | .past m =>
          if (s.ev m).t < t.gvt then
            let c0 := s.committed.getD lp 0
            let ok := s.prefixOk lp c0 [m]
            ({ s with committed := s.committed.set! lp (c0 + 1) },
             if s.nNodes > 1 then "" else if ok then " c03=ok" else " c03=MISMATCH")
          else (s, "")
        | _ => (s, "")
      (s, s!"fini lp={lp} m={if e.tag = 1 then 0 else e.msg} idx={idx} tag={e.tag}{c03}")
  | "hang" :: rest => (s, " ".intercalate ("hang" :: rest))
  | ["end"] =>
    let leaked := (List.range s.pool.size).filter (fun m => !(s.mrec m).freed)
    (s, s!"end allocs={s.allocs} frees={s.frees} leaked={leaked.length}")
  | _ => (s, "bad-op")

/-! ### serial mode: the serial runtime's control skeleton over a sorted event list -/


structure SerialSys where
  P : Params := ⟨0, 1, 1, 1, 0, 0, false, false, false, 0⟩
  pending : List Event := []
  sts : Array GState := #[]
  termT : Array Bool := #[]
  toTerm : Nat := 0
  lastVt : Option Nat := none
  period : Nat := 1000
  tterm : Nat := 0          -- 0 = none
  finished : Bool := false
  awaitNow : Nat := 0       -- 1: expecting the timer read after a dispatch; 2: expecting last_vt refresh
  curT : Nat := 0

def serStep (s : SerialSys) (toks : List String) : SerialSys × String :=
  match toks with
  | "model" :: seed :: lps :: types :: fan :: thr :: spread :: rng :: mem :: t0 :: _threads :: _ckpt :: tterm :: skew =>
    let P : Params := ⟨UInt64.ofNat (nat! seed), nat! lps, nat! types, nat! fan, nat! thr, nat! spread,
      nat! rng != 0, nat! mem != 0, nat! t0 != 0, nat! (skew.headD "0")⟩
    ({ s with P := P, sts := Array.replicate (nat! lps) {}, termT := Array.replicate (nat! lps) false,
              toTerm := nat! lps, tterm := nat! tterm }, "model ok")
  | ["period", p] => ({ s with period := nat! p }, "period")
  | ["sinit", lp, a, b, c, d] =>
    let lp := nat! lp
    let rng : Rng := ⟨UInt64.ofNat (parseHexNat a), UInt64.ofNat (parseHexNat b),
      UInt64.ofNat (parseHexNat c), UInt64.ofNat (parseHexNat d)⟩
    let initEv : Event := { dest := lp, t := 0, type := LP_INIT, payload := [] }
    let (st', outs) := handler s.P lp { rng := rng } initEv
    ({ s with sts := s.sts.set! lp st', pending := outs.foldl (fun p e => insertSorted e p) s.pending },
     s!"sinit {lp}")
  | ["snow", v] =>
    let v := nat! v
    match s.lastVt with
    | none => ({ s with lastVt := some v }, "now")
    | some lv =>
      if s.awaitNow = 2 then
        ({ s with lastVt := some v, awaitNow := 0, pending := s.pending.tail }, "now")
      else if s.awaitNow = 1 then
        if s.period ≤ v - lv then
          if s.tterm ≠ 0 ∧ s.curT ≥ s.tterm then ({ s with finished := true, awaitNow := 0 }, "now")
          else ({ s with awaitNow := 2 }, "now")
        else ({ s with awaitNow := 0, pending := s.pending.tail }, "now")
      else (s, "unexpected-now")
  | ["sdisp"] =>
    if s.finished ∨ s.awaitNow ≠ 0 then (s, "unexpected-dispatch") else
    match s.pending with
    | [] => (s, "dispatch-on-empty-queue")
    | e :: _ =>
      let lp := e.dest
      let st := s.sts.getD lp {}
      let fr := st.cnt.toNat ≥ threshold s.P lp
      let (st', outs) := handler s.P lp st e
      let pending := outs.foldl (fun p e => insertSorted e p) s.pending
      let line := s!"d lp={lp} tq={e.t} type={e.type} size={e.payload.length} pl={hx (payloadDigest e.payload)} fr={if fr then 1 else 0}"
      let s := { s with sts := s.sts.set! lp st', pending := pending, curT := e.t }
      if !(s.termT.getD lp false) ∧ canEnd s.P lp st' then
        let s := { s with termT := s.termT.set! lp true, toTerm := s.toTerm - 1 }
        if s.toTerm = 0 then ({ s with finished := true }, line) else ({ s with awaitNow := 1 }, line)
      else ({ s with awaitNow := 1 }, line)
  | ["sfini", lp] =>
    let lp := nat! lp
    if !s.finished ∧ !s.pending.isEmpty then (s, s!"early-fini {lp}") else
    let st := s.sts.getD lp {}
    (s, s!"sfini lp={lp} st={hx (digest st)} cnt={st.cnt.toNat} thr={threshold s.P lp}")
  | ["end"] => (s, "end")
  | _ => (s, "bad-op")


/-! ### `seq` mode: the sequential specification as judge of a distributed run

Input: `model`, then every rank's `init` lines (seeded generator states), then per rank the
`commit lp` lines (one per committed processed message of that LP, in commit order) and the
`finilp` lines. For each `commit` the model prints the content the sequential execution delivers to
that LP at that position; the harness prints the content the implementation committed. -/
structure SeqSys where
  P : Params := ⟨0, 1, 1, 1, 0, 0, false, false, false, 0⟩
  tterm : Nat := 0
  rng0 : Array Rng := #[]
  seq : Option (Array (Array Event) × Array GState) := none
  committed : Array Nat := #[]

def SeqSys.withSeq (s : SeqSys) : SeqSys :=
  match s.seq with
  | some _ => s
  | none => { s with seq := some (seqRun s.P s.rng0 2000000) }

def seqStep (s : SeqSys) (toks : List String) : SeqSys × String :=
  match toks with
  | "model" :: seed :: lps :: types :: fan :: thr :: spread :: rng :: mem :: t0 :: _threads :: _ckpt :: tterm :: skew =>
    let P : Params := ⟨UInt64.ofNat (nat! seed), nat! lps, nat! types, nat! fan, nat! thr, nat! spread,
      nat! rng != 0, nat! mem != 0, nat! t0 != 0, nat! (skew.headD "0")⟩
    ({ s with P := P, tterm := nat! tterm, rng0 := Array.replicate (nat! lps) ⟨0, 0, 0, 0⟩,
              committed := Array.replicate (nat! lps) 0 }, "model ok")
  | ["init", _, lp, a, b, c, d] =>
    let lp := nat! lp
    let rng : Rng := ⟨UInt64.ofNat (parseHexNat a), UInt64.ofNat (parseHexNat b),
      UInt64.ofNat (parseHexNat c), UInt64.ofNat (parseHexNat d)⟩
    ({ s with rng0 := s.rng0.set! lp rng }, s!"init lp={lp}")
  | ["commit", lp] =>
    let lp := nat! lp
    let s := s.withSeq
    let k := s.committed.getD lp 0
    let s' := { s with committed := s.committed.set! lp (k + 1) }
    match s.seq with
    | some (disp, _) =>
      match (disp.getD lp #[])[k]? with
      | some e => (s', s!"commit lp={lp} tq={e.t} type={e.type} size={e.payload.length} pl={hx (payloadDigest e.payload)}")
      | none => (s', s!"commit lp={lp} beyond-sequential-history")
    | none => (s', "no-seq")
  | ["finilp", _, lp] =>
    let lp := nat! lp
    let s := s.withSeq
    match s.seq with
    | some (_, sts) =>
      let st := sts.getD lp {}
      if s.tterm ≠ 0 then (s, s!"finilp lp={lp} seq=-")
      else (s, s!"finilp lp={lp} seq={hx (digest st)} cnt={st.cnt.toNat}")
    | none => (s, "no-seq")
  | ["gvt", r, tq] => (s, s!"gvt {r} tq={tq}")
  | "hang" :: rest => (s, " ".intercalate ("hang" :: rest))
  | ["end"] => (s, "end")
  | _ => (s, "bad-op")


/-! ### `serial2` mode: the step-by-step model of serial.c (`Model/Serial.lean`, verbatim heap) run on the
GenModel instance with the timer decisions observed in the real run; prints the whole dispatch trace at
`end`. Because the model's heap is the verbatim array algorithm, even the order of incomparable
(equal-content, different destination) events must coincide with the implementation's. -/
structure Serial2 where
  P : Params := ⟨0, 1, 1, 1, 0, 0, false, false, false, 0⟩
  tterm : Nat := 0
  period : Nat := 1000
  rng0 : Array Rng := #[]
  nows : Array Nat := #[]

def timerBits (period : Nat) (vals : List Nat) : List Bool :=
  match vals with
  | [] => []
  | v0 :: rest => go period v0 rest rest.length
where
  go (period lastVt : Nat) (vals : List Nat) : Nat → List Bool
    | 0 => []
    | fuel + 1 =>
      match vals with
      | [] => []
      | v :: rest =>
        let fired := decide (period ≤ v - lastVt)
        if fired then
          match rest with
          | [] => [true]
          | r :: rest' => true :: go period r rest' fuel
        else false :: go period lastVt rest fuel

def serial2Step (s : Serial2) (toks : List String) : Serial2 × String :=
  match toks with
  | "model" :: seed :: lps :: types :: fan :: thr :: spread :: rng :: mem :: t0 :: _threads :: _ckpt :: tterm :: skew =>
    let P : Params := ⟨UInt64.ofNat (nat! seed), nat! lps, nat! types, nat! fan, nat! thr, nat! spread,
      nat! rng != 0, nat! mem != 0, nat! t0 != 0, nat! (skew.headD "0")⟩
    ({ s with P := P, tterm := nat! tterm, rng0 := Array.replicate (nat! lps) ⟨0, 0, 0, 0⟩ }, "-")
  | ["period", p] => ({ s with period := nat! p }, "-")
  | ["sinit", lp, a, b, c, d] =>
    let rng : Rng := ⟨UInt64.ofNat (parseHexNat a), UInt64.ofNat (parseHexNat b),
      UInt64.ofNat (parseHexNat c), UInt64.ofNat (parseHexNat d)⟩
    ({ s with rng0 := s.rng0.set! (nat! lp) rng }, "-")
  | ["snow", v] => ({ s with nows := s.nows.push (nat! v) }, "-")
  | ["end"] =>
    let bits := (timerBits s.period s.nows.toList).toArray
    let M := simModel s.P (fun lp => s.rng0.getD lp ⟨0, 0, 0, 0⟩)
    let termT := if s.tterm = 0 then 2 ^ 62 else s.tterm
    let r := serialRun M termT (fun k => bits.getD k false) 4000000
    let lines := r.trace.filterMap (fun e =>
      if e.type = LP_INIT ∨ e.type = LP_FINI then none
      else some s!"d lp={e.dest} tq={e.t} type={e.type} size={e.payload.length} pl={hx (payloadDigest e.payload)}")
    let fin := (List.range s.P.nLps).map (fun lp =>
      let st := r.states.getD lp {}
      s!"sfini lp={lp} st={hx (digest st)} cnt={st.cnt.toNat} thr={threshold s.P lp}")
    let oc := match r.outcome with
      | .finished => "outcome finished"
      | .outOfFuel => "outcome outOfFuel"
      | _ => "outcome error"
    (s, "\n".intercalate (lines ++ fin ++ [oc]))
  | _ => (s, "-")

end Driver.Run
