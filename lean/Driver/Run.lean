import RootSim.Model.LP
import RootSim.Model.LPFull
import RootSim.Model.GenModel
import RootSim.Model.Serial
import RootSim.Model.Place
import RootSim.Model.TimeWarp
import RootSim.Model.TimeWarpG
import RootSim.Model.TimeWarpD
import Driver.Util
/-!
Driver modes `serial` and `par`: re-execution of a real ROOT-Sim run on the Lean models.

`par`: the input lines are the totally ordered trace of a scheduled parallel run (harness/hrun.c).
Lines carrying nondeterministic *inputs* (which message was dequeued, which ordinal the allocator
handed out, checkpoint placement, GVT values) are accepted; for every line the model prints what IT
computes for that event (flag values, rollback index, restored checkpoint, coast-forward entries,
content of every sent message, LP state digest after every forward step / rollback / checkpoint,
entries released by fossil collection, frees). The harness prints the same from the implementation;
the two streams are diffed.
-/
namespace Driver.Run
open RootSim RootSim.LP RootSim.GenModel Driver

structure MsgRec where
  ev     : Event
  flags  : Nat := 0
  queued : Nat := 0
  freed  : Bool := false
  known  : Bool := false   -- content bound (send / init seen)
  mseq   : Nat := 0        -- `m_seq` of a message received from another rank
  /-- ghost creation step (TWG shadow): the abstract step number of the handler invocation that sent this message, i.e. the value
  of `TWGState.now` at the `ext` line of that invocation (`LP_INIT` outputs and the `LP_INIT` message itself: 0) -/
  cr     : Nat := 0

/-- events the model expects next from a thread (in order) -/
inductive Exp where
  | send (lp : Nat) (e : Event)            -- next `send` line binds its ordinal to this content
  | initPush (lp : Nat) (m : Nat)          -- silently applied before the `ckpt` of process_lp_init
  | antil (m : Nat)
  | unproc (m : Nat) (cancelled : Bool)   -- `cancelled`: the model knows the ANTI bit of this message is set
  | rb (lp pastI ref : Nat)
  | silent (lp idx m : Nat)
  | rbdone (lp pastI : Nat) (dg : UInt64)
  | fwd (m lp : Nat)
  | antid (m f : Nat)
  | free (m : Nat)
  | ffree (lp m idx tag : Nat)
  | fdone (lp n : Nat) (ok : Bool)
  | termrb (lp t : Nat)       -- termination_on_lp_rollback(lp, t)
  | termproc (lp t : Nat)     -- termination_on_msg_process(lp, t) when it gets past its early return
  | vote (tq : Nat)
  | rsend (lp : Nat) (e : Event)   -- ScheduleNewEvent to an LP hosted by another rank
  | antir (m : Nat)                 -- mpi_remote_anti_msg_send for a remote-sent entry being undone
  | fgvt (m : Nat)                  -- msg_allocator_free_at_gvt of the sender's copy
  | early (m : Nat)                 -- remote anti-message that arrived before its event
  | ematch (m a : Nat)              -- remote event annihilated by a waiting early anti-message

/-- `SIMTIME_MAX` as a time key (what the harness prints for it) -/
def tMax : Nat := 2 ^ 62
/-- the negative "not true" sentinel of `termination_t` as printed by the harness -/
def tNone : Nat := 2 ^ 62 + 1

structure Thread where
  /-- `lps_to_end` (uint64, wraps) and `max_t` of gvt/termination.c -/
  lpsToEnd : Nat := 0
  maxT : Nat := 0
  epoch : Nat := 0
  gvt : Nat := 0
  exp : List Exp := []
  lastAlloc : Nat := 0
  cur : Nat := 0        -- message being processed
  atGvt : Array Nat := #[]   -- `at_gvt_list` of mm/msg_allocator.c
  /-- forward execution in progress (`LPFull.stepPre` said `cont`): the ordinals carried by the `send` / `rsend` lines are
  collected here (they are the allocator's choices, an input of `LPFull.stepFwd`), which is run when the `fwd` line arrives -/
  collect : Bool := false
  outs : Array Nat := #[]
  /-- TWG shadow: the abstract step number (`TWGState.now` before the step) of the `exec` this thread is in the middle of; the
  `send` lines that follow bind it to the ordinals of the messages the invocation creates (`MsgRec.cr`) -/
  curStep : Nat := 0

/-- Shadow state of the abstract global Time Warp machine (`Model/TimeWarp.lean`, theorems `Props/C01Glue.lean`) that the
re-execution steps alongside the concrete run when the trace asks for it (`twshadow` line; single rank only): every
`process_msg` of the real run is mapped to ONE abstract action (`exec`, `annihilate`, `antiRollback`), which must be enabled, and
afterwards the abstract history of the LP must equal the concrete one (committed part ++ current past entries, as contents);
every GVT value adopted by a thread must be a lower bound of the abstract pending messages and anti-messages — the hypothesis of
`C01Glue.reachable_hist`. A failure is appended to the `end` line (the implementation prints none, so it shows as a divergence).
The one known concrete step that is not an action of THIS machine (`Sys.gapAt`: speculation on a doomed entry) is an action of
the machine of `Model/TimeWarpD.lean`, which the companion shadow `TwgShadow` steps (switched on together with this one): the
content-level shadow hands the run over to it (`handed`) and checks nothing from that line on. -/
structure TwShadow where
  on : Bool := false
  st : Option TWState := none
  /-- per LP: contents of the history entries released by fossil collection so far -/
  dropped : Array (List Event) := #[]
  bad : Option String := none
  /-- set when the one known non-refining concrete step is recognised (`Sys.gapAt`, `C01Refine.cmpOk_is_needed`) and NO live
  companion shadow can take the run over: no check is made (and nothing is claimed) from that line on; reported on the `end`
  line as ` TW-SHADOW-SUSPENDED ...` -/
  suspended : Option String := none
  /-- set when that step is recognised and the companion shadow of the machine with the code's straggler rule
  (`Model/TimeWarpD.lean`) is live: the content-level machine cannot follow, the companion does; reported on the `end` line as
  ` TW-SHADOW-HANDOVER ...` -/
  handed : Option String := none
  steps : Nat := 0
  gvtChecks : Nat := 0

/-- Shadow state of the INSTRUMENTED abstract machine (`Model/TimeWarpG.lean`: ghost creation order; theorems under the runtime's
real contract V2 in `Props/C01GlueV2.lean`; the stepped function is `TWG.step?`, `C01GlueV2.step_function_exact_V2`). Switched on by
the trace line `twgshadow` (hrun key `tw=2`, or `tw=3` for both shadows; single rank only). Every message ordinal carries its
creation step `MsgRec.cr`, so the abstract actions are called with the TAGGED message: `exec ℓ content cr`, `annihilate content cr`,
`antiRollback ℓ position` (enabled only if an anti-message with the content AND creation step of that entry exists). Checks:
the action is enabled; afterwards the abstract history of the LP equals the concrete one (committed ++ current past entries) as
(content, creation step) pairs; every adopted GVT is a lower bound of the tagged pending messages and anti-messages (hypothesis of
`C01GlueV2.reachable_hist_V2`). A failure is appended to the `end` line as ` TWG-SHADOW-FAILED ...`.

The stepped function is `TWD.step?` (`Model/TimeWarpD.lean`: the same machine with the straggler rule of the CODE; theorems
`Props/C01GlueD.lean`, `C01GlueD.step_function_exact_D`); a TWD action that keeps no extra entry IS the TWG action
(`C01GlueD.twg_action_is_twd_action`). The one case in which a concrete `process_msg` is NOT a TWG action
(`C01Refine.cmpOk_is_needed`: the straggler test reads the ANTI bit that the sender of an already processed message has set
concurrently, so a same-time message that is before the flagged one by content is executed AFTER it) is a TWD action: the `exec`
is called with the split point the code used (`extra` = number of entries the concrete backward scan kept beyond the content
rule); `TWD.step?` accepts it only if the last kept entry is doomed IN THE ABSTRACT STATE (its anti-message, content + creation
step, is in `antis`) and has the time stamp of the message. The number of such steps is reported on the `end` line
(` TWD-SHADOW-SPECULATED ...`; `tools/props/runlib.py` counts them). -/
structure TwgShadow where
  on : Bool := false
  st : Option TWGState := none
  /-- per LP: (content, creation step) of the history entries released by fossil collection so far -/
  dropped : Array (List (Event × Nat)) := #[]
  bad : Option String := none
  suspended : Option String := none
  steps : Nat := 0
  gvtChecks : Nat := 0
  /-- number of `exec` steps that kept entries beyond the content rule (speculation on a doomed entry), and the first of them -/
  doomedSteps : Nat := 0
  firstDoomed : Option String := none

structure Sys where
  tw : TwShadow := {}
  twg : TwgShadow := {}
  P : Params := Params.ofFields 0 1 1 1 0 0 0 0 0 0
  pool : Array MsgRec := #[]
  lps : Array (LPState GState) := #[]
  ths : Array Thread := #[]
  lastGvt : Nat := 0
  rng0 : Array Rng := #[]
  /-- sequential reference: per-LP dispatched event contents and final states (computed on demand) -/
  seq : Option (Array (Array Event) × Array GState) := none
  /-- number of committed (fossil-collected) past entries per LP -/
  committed : Array Nat := #[]
  allocs : Nat := 0
  frees : Nat := 0
  tterm : Nat := 0
  /-- number of MPI ranks and this rank (rank mode); 1/0 otherwise -/
  nNodes : Nat := 1
  nid : Nat := 0
  /-- `lp->p.early_antis` per LP: newest first -/
  earlyAntis : Array (List Nat) := #[]
  /-- `lp->termination_t` per LP (`tNone` = -1.0 = predicate not true; `tMax` = true since init) -/
  termT : Array Nat := #[]

def dummyEv : Event := { dest := 0, t := 0, type := 0, payload := [] }

def Sys.mrec (s : Sys) (m : Nat) : MsgRec := s.pool.getD m { ev := dummyEv }
def Sys.ev (s : Sys) (m : Nat) : Event := (s.mrec m).ev
/-- message as the C comparisons see it: content + current flag word -/
def Sys.look (s : Sys) (m : Nat) : Msg := { (s.ev m).toMsg with rawFlags := (s.mrec m).flags, mSeq := (s.mrec m).mseq }
def Sys.setRec (s : Sys) (m : Nat) (r : MsgRec) : Sys :=
  if m < s.pool.size then { s with pool := s.pool.set! m r }
  else { s with pool := (s.pool ++ Array.replicate (m - s.pool.size) ({ ev := dummyEv } : MsgRec)).push r }
def Sys.lp (s : Sys) (i : Nat) : LPState GState := s.lps.getD i { st := {} }
def Sys.setLp (s : Sys) (i : Nat) (l : LPState GState) : Sys := { s with lps := s.lps.set! i l }
def Sys.th (s : Sys) (i : Nat) : Thread := s.ths.getD i {}
def Sys.setTh (s : Sys) (i : Nat) (t : Thread) : Sys := { s with ths := s.ths.set! i t }

def hx (x : UInt64) : String := toHex x.toNat

def renderSend (m from_ : Nat) (e : Event) : String :=
  s!"send {m} from={from_} dest={e.dest} tq={e.t} type={e.type} size={e.payload.length} pl={hx (payloadDigest e.payload)}"

/-- `lid_to_nid(lp) != nid` -/
def Sys.isRemote (s : Sys) (lp : Nat) : Bool :=
  s.nNodes > 1 && RootSim.Place.lidToNid s.P.nLps s.nNodes lp != s.nid

def hnd (s : Sys) (lp : Nat) : GState → Event → GState × List Event := handler s.P lp

/-- queue re-insertion bookkeeping -/
def Sys.requeue (s : Sys) (m : Nat) : Sys := s.setRec m { s.mrec m with queued := (s.mrec m).queued + 1 }

/-! ### shadow of the abstract Time Warp machine -/

/-- `C01Refine.cmpOk_is_needed` on a real trace: message `m` (no ANTI bit) is about to be executed by its LP; `kept` are the past
entries the concrete straggler test keeps. The concrete backward scan stopped at the last kept entry `z`; if `z` carries its
sender's ANTI bit, has the time stamp of `m` and `m` is before `z` by CONTENT, the scan stopped only because of the bit: the
abstract `exec` would undo `z` (and possibly more). -/
def Sys.gapAt (s : Sys) (m : Nat) (kept : List Nat) : Option Nat :=
  match kept.getLast? with
  | none => none
  | some z =>
    if (s.mrec z).flags % 2 = 1 && (s.ev z).t == (s.ev m).t && Event.before (s.ev m) (s.ev z) then some z else none

def gapWhy (m z : Nat) : String :=
  s!"ext {m}: processed message {z} already carries its sender's ANTI bit, message {m} (same time stamp, before it by content) " ++
    "is executed after it (C01Refine.cmpOk_is_needed)"

def Sys.twModel (s : Sys) : SimModel GState := simModel s.P (fun lp => s.rng0.getD lp ⟨0, 0, 0, 0⟩)

def Sys.twFail (s : Sys) (why : String) : Sys :=
  if s.tw.bad.isSome then s else { s with tw := { s.tw with bad := some why } }

/-- created at the first dequeue: by then every LP has been initialised (barrier after `lp_init`) -/
def Sys.twStart (s : Sys) : Sys :=
  if s.tw.on && s.tw.st.isNone && s.nNodes == 1 then
    { s with tw := { s.tw with st := some (TW.init s.twModel), dropped := Array.replicate s.P.nLps [] } }
  else s

/-- the abstraction function commutes: abstract history of `lp` = committed contents ++ contents of the current past entries -/
def Sys.twPastOk (s : Sys) (lp : Nat) : Bool :=
  match s.tw.st with
  | some t => t.past lp == (s.tw.dropped.getD lp []) ++ (pastMsgs (s.lp lp).hist).map s.ev
  | none => true

def Sys.twAct (s : Sys) (a : TW.Action) (what : String) : Sys :=
  if !s.tw.on || s.tw.bad.isSome || s.tw.suspended.isSome || s.tw.handed.isSome then s else
  match s.tw.st with
  | none => s
  | some t =>
    match TW.step? s.twModel t a with
    | none => s.twFail s!"{what}: abstract action not enabled"
    | some t' => { s with tw := { s.tw with st := some t', steps := s.tw.steps + 1 } }

def Sys.twCheckPast (s : Sys) (lp : Nat) (what : String) : Sys :=
  if !s.tw.on || s.tw.bad.isSome || s.tw.suspended.isSome || s.tw.handed.isSome then s else
  if s.twPastOk lp then s else s.twFail s!"{what}: abstract and concrete history of LP {lp} differ"

/-! ### shadow of the instrumented machine (`TWG`) -/

def Sys.twgLive (s : Sys) : Bool := s.twg.on && s.twg.bad.isNone && s.twg.suspended.isNone

def Sys.twgFail (s : Sys) (why : String) : Sys :=
  if s.twg.bad.isSome then s else { s with twg := { s.twg with bad := some why } }

def Sys.twgStart (s : Sys) : Sys :=
  if s.twg.on && s.twg.st.isNone && s.nNodes == 1 then
    { s with twg := { s.twg with st := some (TWG.init s.twModel), dropped := Array.replicate s.P.nLps [] } }
  else s

/-- message ordinal → the tagged message of the instrumented machine -/
def Sys.tagged (s : Sys) (m : Nat) : Event × Nat := (s.ev m, (s.mrec m).cr)

/-- abstract history of `lp` = committed ++ current past entries, as (content, creation step) pairs, and the abstract processing
steps are strictly increasing along the history -/
def Sys.twgPastOk (s : Sys) (lp : Nat) : Bool :=
  match s.twg.st with
  | some t =>
    let h := t.past lp
    h.map (fun u => (u.ev, u.cr)) == (s.twg.dropped.getD lp []) ++ (pastMsgs (s.lp lp).hist).map s.tagged
      && (h.zip (h.drop 1)).all (fun (a, b) => decide (a.pr < b.pr))
  | none => true

def Sys.twgAct (s : Sys) (a : TWD.Action) (what : String) : Sys :=
  if !s.twgLive then s else
  match s.twg.st with
  | none => s
  | some t =>
    match TWD.step? s.twModel t a with
    | none => s.twgFail s!"{what}: abstract action not enabled"
    | some t' => { s with twg := { s.twg with st := some t', steps := s.twg.steps + 1 } }

def Sys.twgCheckPast (s : Sys) (lp : Nat) (what : String) : Sys :=
  if !s.twgLive then s else
  if s.twgPastOk lp then s else s.twgFail s!"{what}: abstract and concrete history of LP {lp} differ"

/-- the trace lines expected for an action of the proven step function `LPFull.step` (`dg` = digest of the LP state after the
rollback of this step, printed by the `rbdone` line) -/
def actExp (lp : Nat) (dg : UInt64) : LPFull.Action → List Exp
  | .unproc m c => [.unproc m c]
  | .antiLocal m => [.antil m]
  | .antiRemote m => [.antir m]
  | .freeAtGvt m => [.fgvt m]
  | .rollback p ref => [.rb lp p ref]
  | .silent i m => [.silent lp i m]
  | .rollbackDone p => [.rbdone lp p dg]
  | .termRollback t => [.termrb lp t]
  | .markAnti _ => []            -- a flag write, no trace line: applied by `onExtract`
  | .antiDiscard m f => [.antid m f]
  | .earlyPark m => [.early m]
  | .earlyMatch m a => [.ematch m a]
  | .send _ e => [.send lp e]
  | .rsend _ e => [.rsend lp e]
  | .forward m _ => [.fwd m lp]
  | .free m => [.free m]

/-- render + apply an expected event when its line arrives; `arg` = ordinal carried by the line -/
def applyExp (s : Sys) (r : Nat) (e : Exp) (arg : Nat) : Sys × String :=
  match e with
  | .send lp ev =>
    let th := s.th r
    let s := s.setRec arg { ev := ev, flags := 0, queued := 1, known := true, cr := if th.collect then th.curStep else 0 }
    if th.collect then (s.setTh r { th with outs := th.outs.push arg }, renderSend arg lp ev) else
    -- process_lp_init
    let l := s.lp lp
    (s.setLp lp { l with hist := l.hist ++ [.sent arg] }, renderSend arg lp ev)
  | .initPush _ _ => (s, "internal-initPush")
  | .antil m =>
    let f := (s.mrec m).flags
    let s := s.setRec m { s.mrec m with flags := f + 1 }
    let s := if f / 2 % 2 = 1 then s.requeue m else s
    (s, s!"antil {m} f={f}")
  | .unproc m c =>
    let f := (s.mrec m).flags
    let s := s.setRec m { s.mrec m with flags := f - 2 }
    let s := if f % 2 = 0 then s.requeue m else s
    (s, s!"unproc {m} f={f}{if c && f % 2 = 0 then " CANCELLED-BUT-REQUEUED" else ""}")
  | .rb lp p ref => (s, s!"rb lp={lp} past={p} ref={ref}")
  | .silent lp i m => (s, s!"silent lp={lp} idx={i} m={m}")
  | .rbdone lp p dg => (s, s!"rbdone lp={lp} past={p} st={hx dg}")
  | .fwd m lp =>
    -- forward execution by the proven `LPFull.stepFwd`, with the ordinals the allocator handed out (collected from the send lines)
    let th := s.th r
    let st0 : LPFull.St GState := { lp := s.lp lp, earlyAntis := s.earlyAntis.getD lp [] }
    let (st1, acts) := LPFull.stepFwd (hnd s lp) s.isRemote (fun k => th.outs.getD k 0) st0 m (s.ev m)
    let idx := match acts.getLast? with
      | some (.forward _ i) => i
      | _ => 999999999
    let s := s.setLp lp st1.lp
    let th := { th with collect := false, outs := #[] }
    let s := s.setTh r th
    let s := if s.termT.getD lp tNone = tNone then s.setTh r { th with exp := th.exp ++ [.termproc lp (s.ev m).t] } else s
    -- shadow: the abstract `exec` was applied when the message was extracted; now the concrete history has caught up
    let s := s.twCheckPast lp s!"fwd {m}"
    let s := s.twgCheckPast lp s!"fwd {m}"
    (s, s!"fwd {m} lp={lp} idx={idx} st={hx (digest st1.lp.st)}")
  | .antid m f => (s, s!"antid {m} f={f}")
  | .free m =>
    if (s.mrec m).freed then (s, s!"double-free {m}")
    else ({ (s.setRec m { s.mrec m with freed := true }) with frees := s.frees + 1 }, s!"free {m}")
  | .ffree lp m i tag => (s, s!"ffree lp={lp} m={if tag = 1 then 0 else m} idx={i} tag={tag}")
  | .fdone lp n ok => (s, s!"fdone lp={lp} n={n} c03={if s.nNodes > 1 then "-" else if ok then "ok" else "MISMATCH"}")
  | .termrb lp t =>
    -- termination_on_lp_rollback: keep = old_t < msg_time || old_t == SIMTIME_MAX
    let old := s.termT.getD lp tNone
    -- keep = old_t < msg_time || old_t == SIMTIME_MAX   (old_t = -1.0 is below every time stamp)
    let keep := old == tNone || decide (old < t) || old == tMax
    let th := s.th r
    let s := { s with termT := s.termT.set! lp (if keep then old else tNone) }
    let s := s.setTh r { th with lpsToEnd := if keep then th.lpsToEnd else (th.lpsToEnd + 1) % 2 ^ 64 }
    (s, s!"termrb lp={lp} old={old} keep={if keep then 1 else 0}")
  | .termproc lp t =>
    -- termination_on_msg_process past the early return (`termination_t == 0` before)
    let term := canEnd s.P lp (s.lp lp).st
    let th := s.th r
    let newT := if term then t else tNone
    let lte := if term then (th.lpsToEnd + 2 ^ 64 - 1) % 2 ^ 64 else th.lpsToEnd
    let s := { s with termT := s.termT.set! lp newT }
    let s := s.setTh r { th with lpsToEnd := lte, maxT := if term then max t th.maxT else th.maxT }
    (s, s!"termproc lp={lp} t={newT} lte={lte}")
  | .rsend lp ev =>
    let th := s.th r
    let s := s.setRec arg { ev := ev, flags := 0, queued := 0, known := true, cr := if th.collect then th.curStep else 0 }
    if th.collect then (s.setTh r { th with outs := th.outs.push arg }, renderSend arg lp ev |>.replace "send " "rsend ") else
    let l := s.lp lp
    (s.setLp lp { l with hist := l.hist ++ [.rsent arg] }, renderSend arg lp ev |>.replace "send " "rsend ")
  | .antir m => (s, s!"antir {m}")
  | .fgvt m =>
    let th := s.th r
    (s.setTh r { th with atGvt := th.atGvt.push m }, s!"fgvt {m}")
  | .early m => (s, s!"early {m}")
  | .ematch m a => (s, s!"ematch {m} {a}")
  | .vote tq =>
    let th := s.th r
    (s.setTh r { th with maxT := tMax }, s!"vote {r} tq={tq} lte={th.lpsToEnd}")

def expKind : Exp → String
  | .send .. => "send" | .initPush .. => "initPush" | .antil .. => "antil" | .unproc .. => "unproc"
  | .rb .. => "rb" | .silent .. => "silent" | .rbdone .. => "rbdone" | .fwd .. => "fwd"
  | .antid .. => "antid" | .free .. => "free" | .ffree .. => "ffree" | .fdone .. => "fdone"
  | .termrb .. => "termrb" | .termproc .. => "termproc" | .vote .. => "vote"
  | .rsend .. => "rsend" | .antir .. => "antir" | .fgvt .. => "fgvt" | .early .. => "early" | .ematch .. => "ematch"

/-- consume the head of the thread's expectation list for a line of kind `kind` -/
def consume (s : Sys) (r : Nat) (kind : String) (arg : Nat) : Sys × String :=
  let t := s.th r
  match t.exp with
  | [] => (s, s!"unexpected {kind} {arg}")
  | e :: rest =>
    if expKind e == kind then
      let (s, out) := applyExp (s.setTh r { t with exp := rest }) r e arg
      (s, out)
    else (s, s!"expected {expKind e} got {kind} {arg}")

/-- process_msg after the `fetch_add(PROCESSED)` saw `f`: every LP-level decision is taken by the PROVEN step function
`LPFull.stepPre` / `LPFull.stepFwd` (= `LPFull.step`; theorems: Props/C06LP.lean, Props/C01Sorted.lean, Props/C05LP.lean). The driver
only renders the actions as expected trace lines and keeps the flag words of the messages. -/
def onExtract (s : Sys) (r m f : Nat) : Sys :=
  let lpI := (s.ev m).dest
  let st0 : LPFull.St GState := { lp := s.lp lpI, earlyAntis := s.earlyAntis.getD lpI [] }
  match LPFull.stepPre (hnd s lpI) s.ev s.look st0 m f with
  | none =>
    -- the C code would run a backward scan off the beginning of an array: no real line can match this
    s.setTh r { (s.th r) with exp := [.rb lpI 999999999 0] }
  | some p =>
    -- flag words written by the step itself: `msg->raw_flags |= MSG_FLAG_ANTI` on the matched event; a parked
    -- anti-message keeps the word `f + 1` (`a_msg->raw_flags -= MSG_FLAG_ANTI`)
    let s := p.acts.foldl (fun s a => match a with
      | .markAnti x => s.setRec x { s.mrec x with flags := (s.mrec x).flags + 1 }
      | .earlyPark a => s.setRec a { s.mrec a with flags := f + 1 }
      | _ => s) s
    -- shadow of the abstract machine (single rank): the whole `process_msg` is ONE abstract action, applied now
    let pastBefore := pastMsgs st0.lp.hist
    let gap := if p.cont then s.gapAt m (pastMsgs p.st.lp.hist) else none
    let s := if !s.tw.on then s else
      if p.cont then
        match gap with
        | some z =>
          if s.tw.suspended.isSome || s.tw.handed.isSome || s.tw.bad.isSome then s
          else if s.twgLive && s.twg.st.isSome then { s with tw := { s.tw with handed := some (gapWhy m z) } }
          else { s with tw := { s.tw with suspended := some (gapWhy m z) } }
        | none => s.twAct (.exec lpI (s.ev m)) s!"ext {m} (exec)"
      else if f == 1 then s.twAct (.annihilate (s.ev m)) s!"ext {m} (annihilate)"
      else if f == 3 then
        match pastBefore.idxOf? m with
        | some i => s.twAct (.antiRollback lpI ((s.tw.dropped.getD lpI []).length + i)) s!"ext {m} (antiRollback)"
        | none => s.twFail s!"ext {m}: cancelled message is not a past entry"
      else s.twFail s!"ext {m}: flag word {f} has no abstract action (remote paths are not shadowed)"
    -- shadow of the instrumented machine: the same mapping, with the tagged message (content + creation step)
    let stepNo := match s.twg.st with | some t => t.now | none => 0
    let s := if !s.twgLive then s else
      let cr := (s.mrec m).cr
      if p.cont then
        -- the split point the code used: how many entries beyond the content rule the concrete backward scan kept
        let kept := pastMsgs p.st.lp.hist
        let keptTotal := (s.twg.dropped.getD lpI []).length + kept.length
        let extra := match s.twg.st with
          | some t => match t.past lpI with
            | _ :: T => (keptTotal - 1) - TWG.keepLen (s.ev m) T
            | [] => 0
          | none => 0
        let s := if extra == 0 then s else
          { s with twg := { s.twg with doomedSteps := s.twg.doomedSteps + 1,
                                       firstDoomed := s.twg.firstDoomed.orElse (fun _ => some (gapWhy m (kept.getLast?.getD 0))) } }
        s.twgAct (.exec lpI (s.ev m) cr extra) s!"ext {m} (exec cr={cr} extra={extra})"
      else if f == 1 then s.twgAct (.annihilate (s.ev m) cr) s!"ext {m} (annihilate cr={cr})"
      else if f == 3 then
        match pastBefore.idxOf? m with
        | some i => s.twgAct (.antiRollback lpI ((s.twg.dropped.getD lpI []).length + i)) s!"ext {m} (antiRollback cr={cr})"
        | none => s.twgFail s!"ext {m}: cancelled message is not a past entry"
      else s.twgFail s!"ext {m}: flag word {f} has no abstract action (remote paths are not shadowed)"
    let s := s.setLp lpI p.st.lp
    let s := { s with earlyAntis := s.earlyAntis.set! lpI p.st.earlyAntis }
    let s := if p.cont then s else s.twCheckPast lpI s!"ext {m}"
    let s := if p.cont then s else s.twgCheckPast lpI s!"ext {m}"
    -- the handler's outputs (contents, local/remote) are known now; their ordinals arrive with the send lines
    let fwdActs := if p.cont then (LPFull.stepFwd (hnd s lpI) s.isRemote (fun _ => 0) p.st m (s.ev m)).2 else []
    -- termination_on_msg_process returns early when termination_t != 0; whether it does is decided when the
    -- rollback's own termination update (if any) has been applied, i.e. at `fwd` time
    s.setTh r { (s.th r) with collect := p.cont, outs := #[], curStep := stepNo,
                              exp := (p.acts ++ fwdActs).flatMap (actExp lpI (digest p.st.lp.st)) }

def insertSorted (e : Event) : List Event → List Event
  | [] => [e]
  | x :: xs => if Event.before e x then e :: x :: xs else x :: insertSorted e xs

/-- The non-stopping sequential reference execution of the GenModel instance: LP_INIT for every LP,
then repeatedly the `before`-minimal pending event, until nothing is pending (every LP eventually
freezes, so this terminates; `fuel` bounds the number of dispatches). Returns the per-LP sequences of
dispatched event contents (LP_INIT first) and the final LP states. -/
def seqRun (P : Params) (rng0 : Array Rng) (fuel : Nat) : Array (Array Event) × Array GState :=
  let n := P.nLps
  let initEv (lp : Nat) : Event := { dest := lp, t := 0, type := LP_INIT, payload := [] }
  let (sts, pend, disp) := (List.range n).foldl (fun (acc : Array GState × List Event × Array (Array Event)) lp =>
    let (sts, pend, disp) := acc
    let (st', outs) := handler P lp { rng := rng0.getD lp ⟨0, 0, 0, 0⟩ } (initEv lp)
    (sts.set! lp st', outs.foldl (fun p e => insertSorted e p) pend, disp.set! lp #[initEv lp]))
    (Array.replicate n ({} : GState), [], Array.replicate n #[])
  let rec go (fuel : Nat) (sts : Array GState) (pend : List Event) (disp : Array (Array Event)) :=
    match fuel, pend with
    | 0, _ => (disp, sts)
    | _, [] => (disp, sts)
    | fuel + 1, e :: rest =>
      let lp := e.dest
      let (st', outs) := handler P lp (sts.getD lp {}) e
      go fuel (sts.set! lp st') (outs.foldl (fun p e => insertSorted e p) rest)
        (disp.set! lp ((disp.getD lp #[]).push e))
  go fuel sts pend disp

def Sys.withSeq (s : Sys) : Sys :=
  match s.seq with
  | some _ => s
  | none => { s with seq := some (seqRun s.P s.rng0 2000000) }

/-- are the past entries `ms` (contents) the continuation of LP `lp`'s sequential sequence from
position `from_`? -/
def Sys.prefixOk (s : Sys) (lp from_ : Nat) (ms : List Nat) : Bool :=
  match s.seq with
  | none => false
  | some (disp, _) =>
    let d := disp.getD lp #[]
    (List.range ms.length).all (fun k =>
      match ms[k]?, d[from_ + k]? with
      | some m, some e =>
        let x := s.ev m
        x.t == e.t && x.type == e.type && x.payload == e.payload && x.dest == e.dest
      | _, _ => false)

/-- `deq`: the fossil collection that process_msg may run first -/
def onDequeue (s : Sys) (r m : Nat) : Sys :=
  let lpI := (s.ev m).dest
  let t := s.th r
  let l := s.lp lpI
  let s := s.setRec m { s.mrec m with queued := (s.mrec m).queued - 1 }
  if l.epoch = t.epoch then s else
  match fossil (fun x => (s.ev x).t) l t.gvt t.epoch with
  | none => s
  | some o =>
    let n := o.n
    -- the C loop frees from index n-1 down to 0; local-sent entries are only dropped
    let evs := (List.range n).reverse.flatMap (fun k =>
      match o.dropped[k]? with
      | some e => [Exp.ffree lpI e.msg k e.tag] ++ (if e.tag = 1 then [] else [Exp.free e.msg])
      | none => [])
    let l' := o.lp
    let l' := { l' with bound := if l'.hist.isEmpty then none else l'.bound }
    let s := s.withSeq
    let pm := pastMsgs o.dropped
    let c0 := s.committed.getD lpI 0
    let ok := s.prefixOk lpI c0 pm
    let s := { s with committed := s.committed.set! lpI (c0 + pm.length) }
    let s := if s.tw.on then
        { s with tw := { s.tw with dropped := s.tw.dropped.set! lpI ((s.tw.dropped.getD lpI []) ++ pm.map s.ev) } } else s
    let s := if s.twg.on then
        { s with twg := { s.twg with dropped := s.twg.dropped.set! lpI ((s.twg.dropped.getD lpI []) ++ pm.map s.tagged) } } else s
    (s.setLp lpI l').setTh r { t with exp := evs ++ [.fdone lpI n ok] }

def parStep (s : Sys) (toks : List String) : Sys × String :=
  match toks with
  | "model" :: seed :: lps :: types :: fan :: thr :: spread :: rng :: mem :: t0 :: threads :: _ckpt :: tterm :: skew =>
    let P : Params := Params.ofFields (nat! seed) (nat! lps) (nat! types) (nat! fan) (nat! thr) (nat! spread)
      (nat! rng) (nat! mem) (nat! t0) (nat! (skew.headD "0"))
    let nNodes := match skew with | [_, n, _] => nat! n | _ => 1
    let nid := match skew with | [_, _, i] => nat! i | _ => 0
    ({ s with P := P, tterm := nat! tterm, nNodes := nNodes, nid := nid,
              earlyAntis := Array.replicate (nat! lps) [],
              lps := Array.replicate (nat! lps) { st := {} },
              ths := Array.replicate (nat! threads) {},
              rng0 := Array.replicate (nat! lps) ⟨0, 0, 0, 0⟩,
              termT := Array.replicate (nat! lps) tNone,
              committed := Array.replicate (nat! lps) 0 }, "model ok")
  | ["period", _] => (s, "period")
  | ["twshadow"] =>
    -- the companion shadow of the machine with the code's straggler rule is switched on too (hand-over at `Sys.gapAt`)
    ({ s with tw := { s.tw with on := true }, twg := { s.twg with on := true } }, "twshadow ok")
  | ["twgshadow"] => ({ s with twg := { s.twg with on := true } }, "twgshadow ok")
  | ["alloc", r, o] =>
    let r := nat! r; let o := nat! o
    let s := s.setRec o { ev := dummyEv }
    let s := { s with allocs := s.allocs + 1 }
    (s.setTh r { (s.th r) with lastAlloc := o }, s!"alloc {o}")
  | ["init", r, lp, a, b, c, d] =>
    let r := nat! r; let lp := nat! lp
    let t := s.th r
    let rng : Rng := ⟨UInt64.ofNat (parseHexNat a), UInt64.ofNat (parseHexNat b),
      UInt64.ofNat (parseHexNat c), UInt64.ofNat (parseHexNat d)⟩
    let m := t.lastAlloc
    let initEv : Event := { dest := lp, t := 0, type := LP_INIT, payload := [] }
    let s := s.setRec m { ev := initEv, flags := 2, known := true }
    let s := { s with rng0 := s.rng0.set! lp rng }
    let (st', outs) := hnd s lp { rng := rng } initEv
    let s := s.setLp lp { st := st', bound := some 0 }
    (s.setTh r { t with exp := outs.map (fun e => if s.isRemote e.dest then Exp.rsend lp e else Exp.send lp e)
                            ++ [.initPush lp m] }, s!"init lp={lp}")
  | ["send", r, o, _] => consume s (nat! r) "send" (nat! o)
  | ["ckpt", r, lp, _] =>
    let r := nat! r; let lp := nat! lp
    let t := s.th r
    let s := match t.exp with
      | [.initPush lp' m] =>
        let l := s.lp lp'
        (s.setLp lp' { l with hist := l.hist ++ [Entry.past m] }).setTh r { t with exp := [] }
      | _ => s
    let l := checkpoint (s.lp lp)
    (s.setLp lp l, s!"ckpt lp={lp} ref={l.hist.length} st={hx (digest l.st)}")
  | ["deq", r, m] =>
    let r := nat! r; let m := nat! m
    if !(s.th r).exp.isEmpty then (s, s!"deq-while-expecting") else
    if (s.mrec m).queued = 0 then (s, s!"deq-not-queued {m}") else
    let e := s.ev m
    let s := s.twStart
    let s := s.twgStart
    let s := onDequeue s r m
    let below := decide (e.t < (s.th r).gvt)
    (s.setTh r { (s.th r) with cur := m }, s!"deq {m} lp={e.dest} tq={e.t} type={e.type}{if below then " BELOW-GVT" else ""}")
  | ["ffree", r, _, m, _, _] => consume s (nat! r) "ffree" (nat! m)
  | ["fdone", r, _, _] => consume s (nat! r) "fdone" 0
  | ["ext", r, m, _f] =>
    let r := nat! r; let m := nat! m
    if !(s.th r).exp.isEmpty then (s, s!"ext-while-expecting") else
    let f := (s.mrec m).flags
    let s := s.setRec m { s.mrec m with flags := f + 2 }
    (onExtract s r m f, s!"ext {m} f={f}")
  | ["antid", r, m, _] => consume s (nat! r) "antid" (nat! m)
  | ["antil", r, m, _] => consume s (nat! r) "antil" (nat! m)
  | ["unproc", r, m, _] => consume s (nat! r) "unproc" (nat! m)
  | ["rb", r, _, _, _] => consume s (nat! r) "rb" 0
  | ["silent", r, _, _, _] => consume s (nat! r) "silent" 0
  | ["rbdone", r, _, _] => consume s (nat! r) "rbdone" 0
  | ["fwd", r, m, _, _] => consume s (nat! r) "fwd" (nat! m)
  | ["rsend", r, o, _] => consume s (nat! r) "rsend" (nat! o)
  | ["antir", r, m] => consume s (nat! r) "antir" (nat! m)
  | ["fgvt", r, m] => consume s (nat! r) "fgvt" (nat! m)
  | ["early", r, m] => consume s (nat! r) "early" (nat! m)
  | ["ematch", r, m, _] => consume s (nat! r) "ematch" (nat! m)
  | ["rrecv", _, o, dest, tq, ty, _sz, id, seq, pl] =>
    -- an event received from another rank: content, id word and sequence number are inputs
    let o := nat! o
    let ev : Event := { dest := nat! dest, t := nat! tq, type := nat! ty, payload := parseHexBytes pl }
    (s.setRec o { ev := ev, flags := nat! id, queued := 1, known := true, mseq := nat! seq }, s!"rrecv {o}")
  | ["rrecva", _, o, dest, tq, id, seq] =>
    let o := nat! o
    let ev : Event := { dest := nat! dest, t := nat! tq, type := 0, payload := [] }
    (s.setRec o { ev := ev, flags := nat! id, queued := 1, known := true, mseq := nat! seq }, s!"rrecva {o}")
  | ["termrb", r, _] => consume s (nat! r) "termrb" 0
  | ["termproc", r, _] => consume s (nat! r) "termproc" 0
  | ["terminit", r, lp] =>
    let r := nat! r; let lp := nat! lp
    let term := canEnd s.P lp (s.lp lp).st
    let th := s.th r
    let lte := if term then th.lpsToEnd else (th.lpsToEnd + 1) % 2 ^ 64
    let s := { s with termT := s.termT.set! lp (if term then tMax else tNone) }
    (s.setTh r { th with lpsToEnd := lte }, s!"terminit lp={lp} term={if term then 1 else 0} lte={lte}")
  | ["free", r, m] =>
    let r := nat! r; let m := nat! m
    match (s.th r).exp with
    | _ :: _ => consume s r "free" m
    | [] =>
      -- frees not announced by an LP-level decision: msg_queue_fini releasing what is still queued
      let rc := s.mrec m
      if rc.freed then (s, s!"double-free {m}")
      else if rc.queued > 0 then
        ({ (s.setRec m { rc with freed := true, queued := rc.queued - 1 }) with frees := s.frees + 1 }, s!"free {m}")
      else (s, s!"unexpected-free {m}")
  | ["gvt", r, tq] =>
    let r := nat! r; let tq := nat! tq
    let t := s.th r
    -- termination_on_gvt: no vote while (lps_to_end || max_t >= gvt) && gvt < termination_time
    let termTime := if s.tterm = 0 then tMax else s.tterm
    let noVote := (t.lpsToEnd != 0 || decide (t.maxT ≥ tq)) && decide (tq < termTime)
    let exp := if noVote then t.exp else t.exp ++ [.vote tq]
    -- msg_allocator_on_gvt: for(i = count; i-- > 0;) if(dest_t < gvt) { free; list[i] = list[--count]; }
    let (lst, frees) := (List.range t.atGvt.size).reverse.foldl (fun (acc : Array Nat × List Exp) i =>
      let (lst, fr) := acc
      let m := lst.getD i 0
      if (s.ev m).t < tq then
        let last := lst.getD (lst.size - 1) 0
        ((lst.set! i last).pop, fr ++ [Exp.free m])
      else (lst, fr)) (t.atGvt, [])
    let s := match s.tw.on && s.tw.suspended.isNone && s.tw.handed.isNone, s.tw.st with
      | true, some tws =>
        let s := { s with tw := { s.tw with gvtChecks := s.tw.gvtChecks + 1 } }
        if tq ≥ tMax || TW.lowerBound tws tq then s
        else s.twFail s!"gvt {tq} told to thread {r} is not a lower bound of the abstract pending messages / anti-messages"
      | _, _ => s
    let s := match s.twgLive, s.twg.st with
      | true, some tws =>
        let s := { s with twg := { s.twg with gvtChecks := s.twg.gvtChecks + 1 } }
        if tq ≥ tMax || TWG.lowerBound tws tq then s
        else s.twgFail s!"gvt {tq} told to thread {r} is not a lower bound of the tagged abstract pending messages / anti-messages"
      | _, _ => s
    (s.setTh r { t with epoch := t.epoch + 1, gvt := tq, exp := exp ++ frees, atGvt := lst }, s!"gvt {r} tq={tq}")
  | ["vote", r, _, _] => consume s (nat! r) "vote" 0
  | ["stage", r, n] => (s, s!"stage {r} {n}")
  | ["finilp", _, lp] =>
    let lp := nat! lp
    let l := s.lp lp
    let s := s.withSeq
    let sq := if s.tterm ≠ 0 ∨ s.nNodes > 1 then "-" else match s.seq with
      | some (_, sts) => hx (digest (sts.getD lp {}))
      | none => "?"
    (s, s!"finilp lp={lp} st={hx (digest l.st)} cnt={l.st.cnt.toNat} seq={sq}")
  | ["fini", r, lp, _, idx, _] =>
    let r := nat! r; let lp := nat! lp; let idx := nat! idx
    match (s.lp lp).hist[idx]? with
    | none => (s, "fini-out-of-range")
    | some e =>
      let t := s.th r
      let fr := match e with
        | .sent _ => false
        | .rsent _ => true
        | .past m => (s.mrec m).flags % 2 = 0
      let s := if fr then s.setTh r { t with exp := t.exp ++ [.free e.msg] } else s
      -- a past entry below the last GVT is committed: it must continue the sequential sequence
      let s := s.withSeq
      let (s, c03) := match e with
        | .past m =>
          if (s.ev m).t < t.gvt then
            let c0 := s.committed.getD lp 0
            let ok := s.prefixOk lp c0 [m]
            ({ s with committed := s.committed.set! lp (c0 + 1) },
             if s.nNodes > 1 then "" else if ok then " c03=ok" else " c03=MISMATCH")
          else (s, "")
        | _ => (s, "")
      (s, s!"fini lp={lp} m={if e.tag = 1 then 0 else e.msg} idx={idx} tag={e.tag}{c03}")
  | "hang" :: rest => (s, " ".intercalate ("hang" :: rest))
  | ["end"] =>
    let leaked := (List.range s.pool.size).filter (fun m => !(s.mrec m).freed)
    let twv := match s.tw.on, s.tw.bad, s.tw.suspended, s.tw.handed with
      | true, some why, _, _ => s!" TW-SHADOW-FAILED after {s.tw.steps} abstract steps: {why}"
      | true, none, some why, _ => s!" TW-SHADOW-SUSPENDED after {s.tw.steps} abstract steps: {why}"
      | true, none, none, some why => s!" TW-SHADOW-HANDOVER after {s.tw.steps} abstract steps: {why}"
      | _, _, _, _ => ""
    let twgv := match s.twg.on, s.twg.bad, s.twg.suspended with
      | true, some why, _ => s!" TWG-SHADOW-FAILED after {s.twg.steps} abstract steps: {why}"
      | true, none, some why => s!" TWG-SHADOW-SUSPENDED after {s.twg.steps} abstract steps: {why}"
      | true, none, none =>
        if s.twg.doomedSteps == 0 then "" else
          s!" TWD-SHADOW-SPECULATED {s.twg.doomedSteps} of {s.twg.steps} abstract steps: {s.twg.firstDoomed.getD ""}"
      | _, _, _ => ""
    (s, s!"end allocs={s.allocs} frees={s.frees} leaked={leaked.length}{twv}{twgv}")
  | _ => (s, "bad-op")

/-! ### serial mode: the serial runtime's control skeleton over a sorted event list -/


structure SerialSys where
  P : Params := Params.ofFields 0 1 1 1 0 0 0 0 0 0
  pending : List Event := []
  sts : Array GState := #[]
  termT : Array Bool := #[]
  toTerm : Nat := 0
  lastVt : Option Nat := none
  period : Nat := 1000
  tterm : Nat := 0          -- 0 = none
  finished : Bool := false
  awaitNow : Nat := 0       -- 1: expecting the timer read after a dispatch; 2: expecting last_vt refresh
  curT : Nat := 0

def serStep (s : SerialSys) (toks : List String) : SerialSys × String :=
  match toks with
  | "model" :: seed :: lps :: types :: fan :: thr :: spread :: rng :: mem :: t0 :: _threads :: _ckpt :: tterm :: skew =>
    let P : Params := Params.ofFields (nat! seed) (nat! lps) (nat! types) (nat! fan) (nat! thr) (nat! spread)
      (nat! rng) (nat! mem) (nat! t0) (nat! (skew.headD "0"))
    ({ s with P := P, sts := Array.replicate (nat! lps) {}, termT := Array.replicate (nat! lps) false,
              toTerm := nat! lps, tterm := nat! tterm }, "model ok")
  | ["period", p] => ({ s with period := nat! p }, "period")
  | ["sinit", lp, a, b, c, d] =>
    let lp := nat! lp
    let rng : Rng := ⟨UInt64.ofNat (parseHexNat a), UInt64.ofNat (parseHexNat b),
      UInt64.ofNat (parseHexNat c), UInt64.ofNat (parseHexNat d)⟩
    let initEv : Event := { dest := lp, t := 0, type := LP_INIT, payload := [] }
    let (st', outs) := handler s.P lp { rng := rng } initEv
    ({ s with sts := s.sts.set! lp st', pending := outs.foldl (fun p e => insertSorted e p) s.pending },
     s!"sinit {lp}")
  | ["snow", v] =>
    let v := nat! v
    match s.lastVt with
    | none => ({ s with lastVt := some v }, "now")
    | some lv =>
      if s.awaitNow = 2 then
        ({ s with lastVt := some v, awaitNow := 0, pending := s.pending.tail }, "now")
      else if s.awaitNow = 1 then
        if s.period ≤ v - lv then
          if s.tterm ≠ 0 ∧ s.curT ≥ s.tterm then ({ s with finished := true, awaitNow := 0 }, "now")
          else ({ s with awaitNow := 2 }, "now")
        else ({ s with awaitNow := 0, pending := s.pending.tail }, "now")
      else (s, "unexpected-now")
  | ["sdisp"] =>
    if s.finished ∨ s.awaitNow ≠ 0 then (s, "unexpected-dispatch") else
    match s.pending with
    | [] => (s, "dispatch-on-empty-queue")
    | e :: _ =>
      let lp := e.dest
      let st := s.sts.getD lp {}
      let fr := st.cnt.toNat ≥ threshold s.P lp
      let (st', outs) := handler s.P lp st e
      let pending := outs.foldl (fun p e => insertSorted e p) s.pending
      let line := s!"d lp={lp} tq={e.t} type={e.type} size={e.payload.length} pl={hx (payloadDigest e.payload)} fr={if fr then 1 else 0}"
      let s := { s with sts := s.sts.set! lp st', pending := pending, curT := e.t }
      if !(s.termT.getD lp false) ∧ canEnd s.P lp st' then
        let s := { s with termT := s.termT.set! lp true, toTerm := s.toTerm - 1 }
        if s.toTerm = 0 then ({ s with finished := true }, line) else ({ s with awaitNow := 1 }, line)
      else ({ s with awaitNow := 1 }, line)
  | ["sfini", lp] =>
    let lp := nat! lp
    if !s.finished ∧ !s.pending.isEmpty then (s, s!"early-fini {lp}") else
    let st := s.sts.getD lp {}
    (s, s!"sfini lp={lp} st={hx (digest st)} cnt={st.cnt.toNat} thr={threshold s.P lp}")
  | ["end"] => (s, "end")
  | _ => (s, "bad-op")


/-! ### `seq` mode: the sequential specification as judge of a distributed run

Input: `model`, then every rank's `init` lines (seeded generator states), then per rank the
`commit lp` lines (one per committed processed message of that LP, in commit order) and the
`finilp` lines. For each `commit` the model prints the content the sequential execution delivers to
that LP at that position; the harness prints the content the implementation committed. -/
structure SeqSys where
  P : Params := Params.ofFields 0 1 1 1 0 0 0 0 0 0
  tterm : Nat := 0
  rng0 : Array Rng := #[]
  seq : Option (Array (Array Event) × Array GState) := none
  committed : Array Nat := #[]

def SeqSys.withSeq (s : SeqSys) : SeqSys :=
  match s.seq with
  | some _ => s
  | none => { s with seq := some (seqRun s.P s.rng0 2000000) }

def seqStep (s : SeqSys) (toks : List String) : SeqSys × String :=
  match toks with
  | "model" :: seed :: lps :: types :: fan :: thr :: spread :: rng :: mem :: t0 :: _threads :: _ckpt :: tterm :: skew =>
    let P : Params := Params.ofFields (nat! seed) (nat! lps) (nat! types) (nat! fan) (nat! thr) (nat! spread)
      (nat! rng) (nat! mem) (nat! t0) (nat! (skew.headD "0"))
    ({ s with P := P, tterm := nat! tterm, rng0 := Array.replicate (nat! lps) ⟨0, 0, 0, 0⟩,
              committed := Array.replicate (nat! lps) 0 }, "model ok")
  | ["init", _, lp, a, b, c, d] =>
    let lp := nat! lp
    let rng : Rng := ⟨UInt64.ofNat (parseHexNat a), UInt64.ofNat (parseHexNat b),
      UInt64.ofNat (parseHexNat c), UInt64.ofNat (parseHexNat d)⟩
    ({ s with rng0 := s.rng0.set! lp rng }, s!"init lp={lp}")
  | ["commit", lp] =>
    let lp := nat! lp
    let s := s.withSeq
    let k := s.committed.getD lp 0
    let s' := { s with committed := s.committed.set! lp (k + 1) }
    match s.seq with
    | some (disp, _) =>
      match (disp.getD lp #[])[k]? with
      | some e => (s', s!"commit lp={lp} tq={e.t} type={e.type} size={e.payload.length} pl={hx (payloadDigest e.payload)}")
      | none => (s', s!"commit lp={lp} beyond-sequential-history")
    | none => (s', "no-seq")
  | ["finilp", _, lp] =>
    let lp := nat! lp
    let s := s.withSeq
    match s.seq with
    | some (_, sts) =>
      let st := sts.getD lp {}
      if s.tterm ≠ 0 then (s, s!"finilp lp={lp} seq=-")
      else (s, s!"finilp lp={lp} seq={hx (digest st)} cnt={st.cnt.toNat}")
    | none => (s, "no-seq")
  | ["gvt", r, tq] => (s, s!"gvt {r} tq={tq}")
  | "hang" :: rest => (s, " ".intercalate ("hang" :: rest))
  | ["end"] => (s, "end")
  | _ => (s, "bad-op")


/-! ### `serial2` mode: the step-by-step model of serial.c (`Model/Serial.lean`, verbatim heap) run on the
GenModel instance with the timer decisions observed in the real run; prints the whole dispatch trace at
`end`. Because the model's heap is the verbatim array algorithm, even the order of incomparable
(equal-content, different destination) events must coincide with the implementation's. -/
structure Serial2 where
  P : Params := Params.ofFields 0 1 1 1 0 0 0 0 0 0
  tterm : Nat := 0
  period : Nat := 1000
  rng0 : Array Rng := #[]
  nows : Array Nat := #[]

def timerBits (period : Nat) (vals : List Nat) : List Bool :=
  match vals with
  | [] => []
  | v0 :: rest => go period v0 rest rest.length
where
  go (period lastVt : Nat) (vals : List Nat) : Nat → List Bool
    | 0 => []
    | fuel + 1 =>
      match vals with
      | [] => []
      | v :: rest =>
        let fired := decide (period ≤ v - lastVt)
        if fired then
          match rest with
          | [] => [true]
          | r :: rest' => true :: go period r rest' fuel
        else false :: go period lastVt rest fuel

def serial2Step (s : Serial2) (toks : List String) : Serial2 × String :=
  match toks with
  | "model" :: seed :: lps :: types :: fan :: thr :: spread :: rng :: mem :: t0 :: _threads :: _ckpt :: tterm :: skew =>
    let P : Params := Params.ofFields (nat! seed) (nat! lps) (nat! types) (nat! fan) (nat! thr) (nat! spread)
      (nat! rng) (nat! mem) (nat! t0) (nat! (skew.headD "0"))
    ({ s with P := P, tterm := nat! tterm, rng0 := Array.replicate (nat! lps) ⟨0, 0, 0, 0⟩ }, "-")
  | ["period", p] => ({ s with period := nat! p }, "-")
  | ["sinit", lp, a, b, c, d] =>
    let rng : Rng := ⟨UInt64.ofNat (parseHexNat a), UInt64.ofNat (parseHexNat b),
      UInt64.ofNat (parseHexNat c), UInt64.ofNat (parseHexNat d)⟩
    ({ s with rng0 := s.rng0.set! (nat! lp) rng }, "-")
  | ["snow", v] => ({ s with nows := s.nows.push (nat! v) }, "-")
  | ["end"] =>
    let bits := (timerBits s.period s.nows.toList).toArray
    let M := simModel s.P (fun lp => s.rng0.getD lp ⟨0, 0, 0, 0⟩)
    let termT := if s.tterm = 0 then 2 ^ 62 else s.tterm
    let r := serialRun M termT (fun k => bits.getD k false) 4000000
    let lines := r.trace.filterMap (fun e =>
      if e.type = LP_INIT ∨ e.type = LP_FINI then none
      else some s!"d lp={e.dest} tq={e.t} type={e.type} size={e.payload.length} pl={hx (payloadDigest e.payload)}")
    let fin := (List.range s.P.nLps).map (fun lp =>
      let st := r.states.getD lp {}
      s!"sfini lp={lp} st={hx (digest st)} cnt={st.cnt.toNat} thr={threshold s.P lp}")
    let oc := match r.outcome with
      | .finished => "outcome finished"
      | .outOfFuel => "outcome outOfFuel"
      | _ => "outcome error"
    (s, "\n".intercalate (lines ++ fin ++ [oc]))
  | _ => (s, "-")

end Driver.Run
