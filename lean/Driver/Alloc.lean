import RootSim.Model.Alloc
import Driver.Util
/-! Driver mode `alloc` (properties C12, C05, C13): stateful line protocol executing `RootSim.Alloc.step`.

ops (first token):
* `cfg T B perArena base [chk]`           — (re)initialise: `model_allocator_lp_init`; `chk` = 1 iff the tree under
                                             test has the overflow-checked `rs_calloc` (detected by the harness), default 0
* `malloc n ins seed`                     — `rs_malloc(n)`, then the whole block is filled with `pat seed`
* `calloc nmemb size ins seed`            — `rs_calloc`, bytes beyond `nmemb*size` filled with `pat seed`
* `realloc a o n ins seed`                — `rs_realloc(p, n)`, `p` = block at offset `o` of arena ordinal `a`
                                             (`a = -` : NULL); if moved, bytes beyond the copied prefix filled
* `free a o` / `free -`                   — `rs_free`
* `fill a o seed`                         — overwrite the whole block
* `ckpt ref`, `restore ref`, `fossil tgt`
answer: `<result> f=<full_ckpt_size> L=<fnv1a of all longest[] arrays> D=<fnv1a of all live bytes> [extras]` -/
namespace Driver
open RootSim.Alloc

structure AllocSt where
  c : Cfg := ⟨16, 6, 0, 0, fun _ _ => 0, false⟩
  s : MM := ⟨[], [], 0, 0⟩

def fnvStep (h : UInt64) (b : Nat) : UInt64 := (h ^^^ b.toUInt64) * 1099511628211
def fnvInit : UInt64 := 14695981039346656037

/-- deterministic fill pattern shared with the harness -/
def pat (seed i : Nat) : Nat := (seed * 167 + i * 13 + i / 251) % 256

def patBytes (seed lo hi : Nat) : List Nat := (List.range (hi - lo)).map fun i => pat seed (lo + i)

def digestL (c : Cfg) (s : MM) : UInt64 :=
  s.arenas.foldl (fun h a => (a.tree.flatten c.T c.B).foldl fnvStep h) fnvInit

def digestD (c : Cfg) (s : MM) : UInt64 :=
  s.arenas.foldl (fun h a =>
    (a.tree.blocks c.T 0).foldl (fun h b => (readAt a.mem b.1 (2 ^ b.2)).foldl fnvStep h) h) fnvInit

def ordOf (s : MM) (id : Nat) : Nat := (s.arenas.findIdx? fun a => a.id == id).getD 999999

def showRet (s : MM) : Ret → String
  | .ptr p => s!"p {ordOf s p.aid} {p.off}"
  | .null => "null"
  | .enomem => "enomem"
  | .einval => "einval"
  | .ok => "ok"
  | .ref r => s!"r {r}"

def tail (c : Cfg) (s : MM) : String :=
  s!" f={s.full} L={toHex (digestL c s).toNat} D={toHex (digestD c s).toNat}"

def parsePtr (s : MM) : List String → Option (Option Ptr × List String)
  | "-" :: rest => some (none, rest)
  | a :: o :: rest => match s.arenas[nat! a]? with
    | some ar => some (some ⟨ar.id, nat! o⟩, rest)
    | none => none
  | _ => none

/-- run one model step, then an optional follow-up store (fill pattern) that depends on the result -/
def doStep (st : AllocSt) (op : Op) (post : MM → Ret → Option Op) (extra : MM → String := fun _ => "") :
    AllocSt × String :=
  match step st.c st.s op with
  | none => (st, "ub")
  | some (s1, r) =>
    let s2 := match post s1 r with
      | some op2 => match step st.c s1 op2 with
        | some (s2, _) => s2
        | none => s1
      | none => s1
    ({ st with s := s2 }, showRet s2 r ++ tail st.c s2 ++ extra s2)

def refsStr (s : MM) : String := ",".intercalate (s.logs.map fun l => toString l.1)

def allocStep (st : AllocSt) : List String → AllocSt × String
  | "cfg" :: t :: b :: pa :: ba :: rest =>
    let c : Cfg := ⟨nat! t, nat! b, nat! pa, nat! ba, fun _ _ => 0, rest == ["1"]⟩
    let s := MM.init c
    ({ c := c, s := s }, "ok" ++ tail c s)
  | ["malloc", n, ins, seed] =>
    doStep st (.malloc (nat! n) (nat! ins)) fun s1 r => match r with
      | .ptr p => (s1.blockAt st.c p).map fun k => .write p 0 (patBytes (nat! seed) 0 (2 ^ k))
      | _ => none
  | ["calloc", nm, sz, ins, seed] =>
    doStep st (.calloc (nat! nm) (nat! sz) (nat! ins)) fun s1 r => match r with
      | .ptr p => (s1.blockAt st.c p).map fun k =>
          let tot := (nat! nm * nat! sz) % 2 ^ 64   -- a pointer is returned only if the product is what C computed
          .write p tot (patBytes (nat! seed) tot (2 ^ k))
      | _ => none
  | "realloc" :: rest =>
    match parsePtr st.s rest with
    | some (p, [n, ins, seed]) =>
      let old := match p with
        | some p => (st.s.blockAt st.c p).map (2 ^ ·)
        | none => some 0
      doStep st (.realloc p (nat! n) (nat! ins)) fun s1 r => match r with
        | .ptr q => if some q = p then none else (s1.blockAt st.c q).map fun k =>
            let keep := min (nat! n) (old.getD 0)
            .write q keep (patBytes (nat! seed) keep (2 ^ k))
        | _ => none
    | _ => (st, "bad-op")
  | "free" :: rest =>
    match parsePtr st.s rest with
    | some (p, []) => doStep st (.free p) fun _ _ => none
    | _ => (st, "bad-op")
  | "fill" :: rest =>
    match parsePtr st.s rest with
    | some (some p, [seed]) =>
      match st.s.blockAt st.c p with
      | some k => doStep st (.write p 0 (patBytes (nat! seed) 0 (2 ^ k))) fun _ _ => none
      | none => (st, "ub")
    | _ => (st, "bad-op")
  | ["ckpt", ref] =>
    doStep st (.take (nat! ref)) (fun _ _ => none) fun s2 =>
      match s2.logs.getLast? with
      | some l => s!" w={l.2.written st.c} refs={refsStr s2}"
      | none => " w=?"
  | ["restore", ref] => doStep st (.restore (nat! ref)) (fun _ _ => none) fun s2 => s!" refs={refsStr s2}"
  | ["fossil", tgt] => doStep st (.fossil (nat! tgt)) (fun _ _ => none) fun s2 => s!" refs={refsStr s2}"
  | _ => (st, "bad-op")

end Driver
