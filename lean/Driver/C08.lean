import RootSim.Model.Shutdown
import Driver.Util
namespace Driver
open RootSim.Shutdown

def showPc : Pc → String
  | .head => "head" | .body => "body" | .flush => "flush"
  | .barArrive k => "ba" ++ toString k | .barWait k => "bw" ++ toString k
  | .forced i => "f" ++ toString i | .lpfini => "lpfini" | .done => "done"

def showTPh : TPh → String
  | .idle => "idle" | .A => "A" | .B => "B" | .C => "C" | .D => "D"

/-- line protocol of mode `shutdown<closeFix><zeroFix>`:
`cfg n zq` | `run i timer vote` | `stop i` | `zero`.
A `run` line answers `pc thread_phase c_a c_b gvt_nodes nodes_to_end got` for thread `i` after the step. -/
def shutdownStep (v : Variant) (s : St) (toks : List String) : St × String :=
  match toks with
  | ["cfg", n, zq] => (St.init (nat! n) (zq == "1"), "ok")
  | ["run", i, tm, vo] =>
    let i := nat! i
    match s.ths[i]? with
    | none => (s, "bad-op")
    | some t =>
      let got : String := match t.pc with
        | .body => b2s (gvtPhaseRun v s i t (tm == "1")).2.2
        | .forced _ => b2s (gvtPhaseRun v s i t true).2.2
        | _ => "-"
      let s' := step v s (.run i (tm == "1") (vo == "1"))
      match s'.ths[i]? with
      | none => (s', "bad-op")
      | some t' =>
        (s', showPc t'.pc ++ " " ++ showTPh t'.tph ++ " " ++ toString s'.ca ++ " " ++ toString s'.cb ++ " " ++
          toString s'.gvtNodes ++ " " ++ toString s'.nodesToEnd ++ " " ++ got)
  | ["stop", i] => let s' := step v s (.stop (nat! i)); (s', toString s'.nodesToEnd)
  | ["zero"] => (step v s .zero, "ok")
  | _ => (s, "bad-op")

end Driver
