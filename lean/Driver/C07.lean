import RootSim.Model.Termination
import Driver.Util
namespace Driver
open RootSim.Term

/-- driver state of mode `term` / `termfix`: number of nodes and the node state -/
structure TermSt where
  nNodes : Nat := 1
  node   : Node := Node.init 1 1 SIMTIME_MAX

def showTermT (x : Int) : String := if x < 0 then "-" ++ toString x.natAbs else toHex x.toNat

def showThread (n : Node) (ti i : Nat) : String :=
  match n.thrs[ti]? with
  | some th => (match th.termT[i]? with | some x => showTermT x | none => "?") ++ " " ++
               toString th.lpsToEnd ++ " " ++ toHex th.maxT
  | none => "?"

def showVote (n : Node) (ti : Nat) (v : Bool) : String :=
  b2s v ++ " " ++ toString n.thrToEnd ++ " " ++ toString n.nodesToEnd ++ " " ++
  (match n.thrs[ti]? with | some th => toHex th.maxT | none => "?")

/-- line protocol (all time stamps = hex keys):
`cfg nthreads nnodes ttime` | `init th term` | `proc th lp t term` | `rb th lp s k` | `gvt th g` |
`stop` | `ctrl` -/
def termStep (fix : Bool) (st : TermSt) (toks : List String) : TermSt × String :=
  let go (o : Op) (out : Node → Bool → String) : TermSt × String :=
    match step fix st.nNodes st.node o with
    | some (n', v) => ({ st with node := n' }, out n' v)
    | none => (st, "bad-op")
  match toks with
  | ["cfg", nt, nn, tt] =>
    ({ nNodes := nat! nn, node := Node.init (nat! nt) (nat! nn) (parseHexNat tt) }, "ok")
  | ["init", th, term] =>
    go (.lpInit (nat! th) (term == "1")) (fun n _ =>
      match n.thrs[nat! th]? with
      | some t => showThread n (nat! th) (t.termT.length - 1)
      | none => "?")
  | ["proc", th, lp, t, term] =>
    go (.proc (nat! th) (nat! lp) (parseHexNat t) (term == "1")) (fun n _ => showThread n (nat! th) (nat! lp))
  | ["rb", th, lp, s, k] =>
    go (.rb (nat! th) (nat! lp) (parseHexNat s) (nat! k)) (fun n _ => showThread n (nat! th) (nat! lp))
  | ["gvt", th, g] => go (.gvt (nat! th) (parseHexNat g)) (fun n v => showVote n (nat! th) v)
  | ["stop"] => go .stop (fun n _ => toString n.nodesToEnd ++ " " ++ b2s (cantEnd n))
  | ["ctrl"] => go .ctrl (fun n _ => toString n.nodesToEnd ++ " " ++ b2s (cantEnd n))
  | _ => (st, "bad-op")

end Driver
