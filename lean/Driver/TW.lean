import RootSim.Model.TimeWarp
import RootSim.Model.GenModel
import Driver.Util
/-! Line-protocol front end of the abstract global Time Warp machine (`Model/TimeWarp.lean`): replays a
trace of abstract actions with the SAME step function `TW.step?` the theorems of `Props/C01Glue.lean` are
about (`C01Glue.step_function_exact`), and evaluates the hypotheses (`TW.lowerBound`) and the conclusion
(`Spec.histCheck`) on the state reached.

```
twmodel pingpong | twmodel fanin
twmodel gen <seed> <lps> <types> <fan> <thr> <spread> <rng> <mem> <t0> [<skew>]
twrng <lp> <s0> <s1> <s2> <s3>            (hex; GenModel only; restarts the machine)
twstep exec <lp> <dest> <t> <type> <hexpayload>
twstep anni <dest> <t> <type> <hexpayload>
twstep arb <lp> <index>
twpast <lp>     twpending     twantis     twhist <g>
```
Events are printed as `dest:t:type:hexpayload`. -/
namespace Driver
open RootSim RootSim.Spec RootSim.TW RootSim.GenModel

structure TWSt where
  nLps : Nat := 0
  /-- `TW.step? M` of the selected model -/
  step : TWState → Action → Option TWState := fun _ _ => none
  /-- `Spec.histCheck M · g` of the selected model -/
  hist : TWState → Nat → Bool := fun _ _ => false
  s    : TWState := ⟨fun _ => [], [], []⟩
  P    : Params := Params.ofFields 0 1 1 1 0 0 0 0 0 0
  rng0 : Array Rng := #[]

def twSelect {σ : Type} (M : SimModel σ) (st : TWSt) : TWSt :=
  { st with nLps := M.nLps, step := TW.step? M, hist := fun s g => histCheck M s.past g,
            s := TW.init M }

def twGen (st : TWSt) : TWSt :=
  twSelect (simModel st.P (fun lp => st.rng0.getD lp ⟨0, 0, 0, 0⟩)) st

def twHex2 (b : Nat) : String := String.ofList [hexDigit (b / 16 % 16), hexDigit (b % 16)]

def showEv (e : Event) : String :=
  s!"{e.dest}:{e.t}:{e.type}:" ++ (if e.payload.isEmpty then "-" else String.join (e.payload.map twHex2))

def showEvs (l : List Event) : String :=
  if l.isEmpty then "-" else " ".intercalate (l.map showEv)

def parseEv : List String → Option Event
  | [d, t, ty, pl] => some { dest := nat! d, t := nat! t, type := nat! ty, payload := parseHexBytes pl }
  | _ => none

/-- smallest time stamp among pending messages and anti-messages (`-` if there are none) -/
def twMin (s : TWState) : String :=
  match (s.pending ++ s.antis).map (·.t) with
  | [] => "-"
  | a :: l => toString (l.foldl min a)

def twApply (st : TWSt) (a : Action) : TWSt × String :=
  match st.step st.s a with
  | none => (st, "disabled")
  | some s' => ({ st with s := s' }, s!"ok pending={s'.pending.length} antis={s'.antis.length} min={twMin s'}")

def twStep (st : TWSt) (toks : List String) : TWSt × String :=
  match toks with
  | ["twmodel", "pingpong"] => (twSelect pingPong st, "model pingpong")
  | ["twmodel", "fanin"] => (twSelect fanIn st, "model fanin")
  | "twmodel" :: "gen" :: seed :: lps :: types :: fan :: thr :: spread :: rng :: mem :: t0 :: skew =>
    let P : Params := Params.ofFields (nat! seed) (nat! lps) (nat! types) (nat! fan) (nat! thr) (nat! spread)
      (nat! rng) (nat! mem) (nat! t0) (nat! (skew.headD "0"))
    (twGen { st with P := P, rng0 := Array.replicate (nat! lps) ⟨0, 0, 0, 0⟩ }, "model gen")
  | ["twrng", lp, a, b, c, d] =>
    let rng : Rng := ⟨UInt64.ofNat (parseHexNat a), UInt64.ofNat (parseHexNat b),
      UInt64.ofNat (parseHexNat c), UInt64.ofNat (parseHexNat d)⟩
    (twGen { st with rng0 := st.rng0.set! (nat! lp) rng }, s!"rng lp={lp}")
  | "twstep" :: "exec" :: lp :: ev =>
    match parseEv ev with
    | some e => twApply st (.exec (nat! lp) e)
    | none => (st, "bad-op")
  | "twstep" :: "anni" :: ev =>
    match parseEv ev with
    | some e => twApply st (.annihilate e)
    | none => (st, "bad-op")
  | ["twstep", "arb", lp, i] => twApply st (.antiRollback (nat! lp) (nat! i))
  | ["twpast", lp] => (st, showEvs (st.s.past (nat! lp)))
  | ["twpending"] => (st, showEvs st.s.pending)
  | ["twantis"] => (st, showEvs st.s.antis)
  | ["twhist", g] =>
    (st, s!"lb={b2s (lowerBound st.s (nat! g))} hist={b2s (st.hist st.s (nat! g))}")
  | _ => (st, "bad-op")

end Driver
