import RootSim.Model.Stats
import RootSim.Proofs.StatsLoop
import Driver.Util
/-! Driver mode `stats` (C20): the codec, the accounting machine and the loop model, line by line.
Stateful in one bit: `variant <0|1>` selects the variant of the loop model (`Cfg.fix6`: 0 = the flush loop of
`gvt_msg_drain` drops a completed round's value, 1 = it records it); the harness probes the tree and says which. -/
namespace Driver
open RootSim.Stats

/-- tail-recursive hex parser (files are long) -/
def hexBytes (s : String) : List Nat :=
  if s == "-" then [] else
  let rec go : List Char → List Nat → List Nat
    | a :: b :: rest, acc => go rest ((hexVal a * 16 + hexVal b) :: acc)
    | _, acc => acc.reverse
  go s.toList []

def hex2 (b : Nat) : String := String.ofList [hexDigit (b / 16), hexDigit (b % 16)]

def bytesHex (bs : List Nat) : String :=
  if bs.isEmpty then "-" else String.join (bs.map hex2)

def joinNat (sep : String) (l : List Nat) : String := sep.intercalate (l.map toString)

/-- canonical rendering of a decoded file (same format as the harness's independent reader) -/
def render (d : StatsData) : String :=
  let names := d.names.map (fun n => " " ++ bytesHex n)
  let nodes := d.nodes.map (fun n =>
    " G " ++ joinNat " " ([n.threads.length, n.lps, n.maxRss] ++ n.ts) ++
    " R " ++ toString n.recs.length ++
    String.join (n.recs.map (fun r => " " ++ toHex r.gvt ++ " " ++ toString r.rss)) ++
    String.join (n.threads.map (fun th =>
      " T " ++ toString th.length ++ String.join (th.map (fun rc => String.join (rc.map (fun v => " " ++ toString v)))))))
  "S " ++ b2s d.be ++ " " ++ toString d.names.length ++ String.join names ++
  " N " ++ toString d.nodes.length ++ String.join nodes

def takeN {α : Type} (f : String → α) (n : Nat) (l : List String) : Option (List α × List String) :=
  if l.length < n then none else some ((l.take n).map f, l.drop n)

def parseRecs (sCnt : Nat) : Nat → List String → Option (List (List Nat) × List String)
  | 0, l => some ([], l)
  | k+1, l =>
    match takeN nat! sCnt l with
    | none => none
    | some (rc, r) =>
      match parseRecs sCnt k r with
      | none => none
      | some (rcs, r') => some (rc :: rcs, r')

def parseThreads (sCnt : Nat) : Nat → List String → Option (List (List (List Nat)) × List String)
  | 0, l => some ([], l)
  | k+1, l =>
    match l with
    | "T" :: n :: r =>
      match parseRecs sCnt (nat! n) r with
      | none => none
      | some (th, r') =>
        match parseThreads sCnt k r' with
        | none => none
        | some (ths, r'') => some (th :: ths, r'')
    | _ => none

def parseNodeRecs : Nat → List String → Option (List NodeRec × List String)
  | 0, l => some ([], l)
  | k+1, g :: m :: r =>
    match parseNodeRecs k r with
    | none => none
    | some (rs, r') => some (⟨parseHexNat g, nat! m⟩ :: rs, r')
  | _, _ => none

def parseNodes (sCnt : Nat) : Nat → List String → Option (List NodeStats × List String)
  | 0, l => some ([], l)
  | k+1, l =>
    match l with
    | "G" :: r =>
      match takeN nat! 9 r with
      | some (tc :: lps :: mr :: ts, "R" :: n :: r') =>
        match parseNodeRecs (nat! n) r' with
        | none => none
        | some (recs, r'') =>
          match parseThreads sCnt tc r'' with
          | none => none
          | some (ths, r3) =>
            match parseNodes sCnt k r3 with
            | none => none
            | some (ns, r4) => some (⟨lps, mr, ts, recs, ths⟩ :: ns, r4)
      | _ => none
    | _ => none

def parseRender (toks : List String) : Option StatsData :=
  match toks with
  | "S" :: be :: sc :: r =>
    let sCnt := nat! sc
    match takeN hexBytes sCnt r with
    | some (names, "N" :: nc :: r') =>
      match parseNodes sCnt (nat! nc) r' with
      | some (nodes, []) => some ⟨be == "1", names, nodes⟩
      | _ => none
    | _ => none
  | _ => none

/-- `f3` = three forward steps, `a2`, `c`, `r<k>`, `s<j>`, `x<f>`, `g<hex>`; time samples unknown to the trace are 0 -/
def parseStepTok (t : String) : Option (List Step) :=
  match t.toList with
  | [] => none
  | c :: rest =>
    let arg := String.ofList rest
    let n := if rest.isEmpty then 1 else nat! arg
    if c == 'f' then some (List.replicate n (.forward 0))
    else if c == 'a' then some (List.replicate n .anti)
    else if c == 'c' then some (List.replicate n (.ckpt 0 0))
    else if c == 'r' then some [.rollback (nat! arg) 0]
    else if c == 's' then some [.silent (nat! arg) 0]
    else if c == 'x' then some [.fossil (nat! arg)]
    else if c == 'g' then some [.gvt (parseHexNat arg) 0 0]
    else none

def parseSteps : List String → List Step → Option (List Step)
  | [], acc => some acc.reverse
  | t :: ts, acc =>
    match parseStepTok t with
    | none => none
    | some l => parseSteps ts (l.reverse ++ acc)

def six (c : Counters) : String :=
  joinNat "," [c.processed, c.rollbacks, c.undone, c.ckpts, c.silent, c.antis]

def acct (args : List String) : String :=
  match args with
  | r0 :: toks =>
    match parseSteps toks [] with
    | none => "bad-op"
    | some steps =>
      match run (r0 == "1") {} steps with
      | none => "bad history"
      | some s =>
        "ok " ++ toString s.out.length ++ String.join (s.out.map (fun c => " " ++ six c)) ++
        " left " ++ six s.cur ++
        (if r0 == "1" then " gvts" ++ String.join (s.nodeOut.map (fun r => " " ++ toHex r.gvt)) else "")
  | _ => "bad-op"

def layout : String :=
  "layout magic=" ++ toString magic ++ " host_be=0 s_cnt=" ++ toString statsCount ++
  " thread_rec=" ++ toString threadRecSize ++ " node_rec=" ++ toString nodeRecSize ++
  " node_gvt_off=0 node_rss_off=8 glob=" ++ toString globSize ++
  " glob_threads_off=0 glob_lps_off=8 glob_maxrss_off=16 glob_ts_off=24 n_ts=" ++ toString globalCount ++
  " cnt_w=8 idx=" ++ joinNat "," [iProcessed, iProcTime, iRollback, iRecovTime, iUndone, iCkpt, iCkptTime, iCkptSize,
      iSilent, iSilentTime, iAnti, iRealTime] ++
  " ts_idx=0,1,2,3,4,5 names=" ++ ",".intercalate (statsNameBytes.map bytesHex)

open RootSim.StatsLoop in
def digits (s : String) : List Nat := s.toList.map (fun c => c.toNat - '0'.toNat)

open RootSim.StatsLoop in
/-- `f6 n period stopThread stopBatch voteMode schedule` at yield-point granularity, for the model variant `fix6`;
`detail`: also the numbers of values dropped in the flush loop -/
def f6 (fix6 detail : Bool) (args : List String) : String :=
  match args with
  | [n, p, st, sb, vm, sched] =>
    let cfg : Cfg := { n := nat! n, period := nat! p,
                       stopBatch := fun i => if i = nat! st then nat! sb else 0,
                       voteAt := fun _ => if nat! vm = 1 then 1 else 0,
                       fix6 := fix6 }
    let s := runHook cfg (initHook cfg) (digits sched)
    (if allDone s then "done " else "notdone ") ++ joinNat " " (recordCounts s) ++
    (if detail then " dropped " ++ joinNat " " (s.ths.map (·.discarded)) ++ " rounds " ++ toString s.sh.started ++
      " " ++ toString s.sh.completed else "")
  | _ => "bad-op"

open RootSim.StatsLoop in
/-- the schedule of `RootSim.C20.same_record_count_counterexample_stop`, as an `f6` line -/
def f6demo : String :=
  let c := stopCfg false
  "f6 " ++ toString c.n ++ " " ++ toString c.period ++ " 1 " ++ toString (c.stopBatch 1) ++ " 0 " ++
  String.join (stopSched.map toString)

open RootSim.StatsLoop in
/-- the 3-thread schedule of the non-vacuity example of `RootSim.C20.same_record_count_fixed_hook` -/
def f6demo3 : String :=
  let c := stop3Cfg false
  "f6 " ++ toString c.n ++ " " ++ toString c.period ++ " 2 " ++ toString (c.stopBatch 2) ++ " 0 " ++
  String.join (stop3Sched.map toString)

/-- the stateless commands -/
def statsCmd (toks : List String) : String :=
  match toks with
  | ["layout"] => layout
  | ["decode", h] =>
    match decode (hexBytes h) with
    | .ok d => render d
    | .error e => "bad " ++ e
  | "encode" :: r =>
    match parseRender r with
    | some d => bytesHex (encode d)
    | none => "bad-op"
  | "acct" :: r => acct r
  | ["f6demo"] => f6demo
  | ["f6demo3"] => f6demo3
  | _ => "bad-op"

/-- the line protocol: the state is the selected variant of the loop model -/
def statsStep (fix6 : Bool) (toks : List String) : Bool × String :=
  match toks with
  | ["variant", v] => (v != "0", "ok")
  | "f6" :: r => (fix6, f6 fix6 false r)
  | "f6d" :: r => (fix6, f6 fix6 true r)
  | _ => (fix6, statsCmd toks)

end Driver
