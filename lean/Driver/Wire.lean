import RootSim.Model.Wire
import Driver.Util
namespace Driver
open RootSim.Wire

/-- `layout offDest offMSeq offPl ctrlSz` → ok?; `cls offDest offMSeq offPl ctrlSz size` → kind -/
def wirecmd : List String → String
  | ["layout", a, b, c, d] =>
    let L : Layout := ⟨nat! a, nat! b, nat! c, nat! d⟩
    s!"layout ok={if decide L.ok then 1 else 0} anti={L.antiSize} ev0={L.eventSize 0}"
  | ["cls", a, b, c, d, sz] =>
    let L : Layout := ⟨nat! a, nat! b, nat! c, nat! d⟩
    match classify L (nat! sz) with
    | .control => "control" | .anti => "anti" | .event => "event"
  | _ => "bad-op"
end Driver
