import RootSim.Model.TimeWarpG
/-!
# The global Time Warp machine with the straggler rule of the CODE (speculation on DOOMED entries)

`Model/TimeWarpG.lean` undoes, on `exec ℓ e`, the maximal suffix of LP `ℓ`'s history whose entries are after `e`
in the CONTENT order `Event.before` (`TW.splitUndo`). The code compares FLAG WORDS
(`src/lp/msg.h: msg_is_before / msg_is_before_extended`): the first tie-break criterion between two messages
with equal time stamps is the ANTI bit (`(a->raw_flags & MSG_FLAG_ANTI) > (b->raw_flags & MSG_FLAG_ANTI)`).
A processed entry `x` whose sender has already cancelled it carries the ANTI bit (`send_anti_messages`:
`fetch_add(&msg->flags, MSG_FLAG_ANTI)`; `handle_remote_anti_msg`: `msg->raw_flags |= MSG_FLAG_ANTI`): `x` is
DOOMED — its anti-message exists and will roll the LP back to `x` when it is dequeued. For an incoming
message `e` (no ANTI bit) with `e.t = x.t`, `msg_is_before(e, x)` is FALSE whatever the contents: both the
straggler test of `process_msg` (`msg_is_before(msg, array_peek(p_msgs))`) and the backward scan of
`match_straggler_msg` stop at `x`, even when `e` is before `x` by content. The code then undoes a SHORTER
suffix than `TWG.exec` and processes `e` ON TOP of `x`.

This file is the machine of `Model/TimeWarpG.lean` (same state type `TWGState`, same `annihilate` and
`antiRollback`) with that straggler rule: with `T = K ++ U` the content-level split of the history after
`LP_INIT` (`K = T.take (TWG.keepLen e T)`, `U = TWG.undoG e T`), `exec ℓ e` may use `K ++ V` / `W` instead,
for ANY split `U = V ++ W` such that `V` is empty or its LAST entry `x` is doomed (`x.msg ∈ s.antis`: an
anti-message with the content and creation step of `x` exists) and `x.ev.t = e.t` (`StopOk`). This is an
over-approximation of the code (the code stops at the FIRST such entry met by the backward scan, i.e. the
last one of the history; an entry is flagged only if the anti-message of that very message exists, the
machine identifies messages of equal content created by the same invocation).
-/
namespace RootSim
namespace TWD
open RootSim.Spec RootSim.TW RootSim.TWG

variable {σ : Type}

/-- the entry `x` is DOOMED in `s`: the anti-message of its message (content + creation step) exists and has
not met it yet. In the code: `MSG_FLAG_ANTI` is set in the flag word of the processed message. -/
def Doomed (s : TWGState) (x : TEntry) : Prop := x.msg ∈ s.antis

instance (s : TWGState) (x : TEntry) : Decidable (Doomed s x) := by unfold Doomed; infer_instance

/-- where the backward scan of `match_straggler_msg` may stop EARLY: `V` is the additional part of the
history that is kept although all its entries are after `e` by content. Either nothing (`V = []`, the
content rule), or the scan stopped at a doomed entry with the time stamp of `e` (the last entry of `V`). -/
def StopOk (s : TWGState) (e : Event) (V : List TEntry) : Prop :=
  ∀ x, V.getLast? = some x → Doomed s x ∧ x.ev.t = e.t

/-- Boolean form of `StopOk` -/
def stopOk? (s : TWGState) (e : Event) (V : List TEntry) : Bool :=
  match V.getLast? with
  | none => true
  | some x => decide (x.msg ∈ s.antis) && decide (x.ev.t = e.t)

/-- `exec ℓ m` on a state whose LP `ℓ` has the history `h :: (Kp ++ W)`: `Kp` is kept, `W` is undone
(cf. `TWG.execResult`, which is the case `Kp = T.take (keepLen m.ev T)`, `W = undoG m.ev T`) -/
def execResult (M : SimModel σ) (s : TWGState) (ℓ : Nat) (m : TMsg) (h : TEntry) (Kp W : List TEntry) :
    TWGState :=
  { past    := upd s.past ℓ (h :: Kp ++ [{ ev := m.ev, cr := m.cr, pr := s.now }])
    pending := s.pending.erase m ++ W.map TEntry.msg ++
                 (M.handler ℓ (lpState M ℓ (evs (h :: Kp))) m.ev).2.map
                   (fun o => { ev := o, cr := s.now })
    antis   := s.antis ++ toutsFrom M ℓ (lpState M ℓ (evs (h :: Kp))) W
    now     := s.now + 1 }

inductive Step (M : SimModel σ) : TWGState → TWGState → Prop
  /-- the forward path of `process_msg` with the straggler rule of the code: `K ++ V` is kept, `W` undone -/
  | exec (s : TWGState) (ℓ : Nat) (m : TMsg) (h : TEntry) (T V W : List TEntry)
      (hmem : m ∈ s.pending) (hdest : m.ev.dest = ℓ) (hℓ : ℓ < M.nLps) (htype : m.ev.type < LP_INIT)
      (hpast : s.past ℓ = h :: T) (hsplit : undoG m.ev T = V ++ W) (hstop : StopOk s m.ev V) :
      Step M s (execResult M s ℓ m h (T.take (keepLen m.ev T) ++ V) W)
  | annihilate (s : TWGState) (m : TMsg) (hp : m ∈ s.pending) (ha : m ∈ s.antis) :
      Step M s (annihilateResult s m)
  | antiRollback (s : TWGState) (ℓ : Nat) (o : TEntry) (K U : List TEntry)
      (ha : o.msg ∈ s.antis) (hpast : s.past ℓ = K ++ o :: U) (hK : K ≠ []) :
      Step M s (antiRollbackResult M s ℓ o K U)

inductive Reachable (M : SimModel σ) : TWGState → Prop
  | init : Reachable M (TWG.init M)
  | step {s s' : TWGState} : Reachable M s → Step M s s' → Reachable M s'

/-! ### Executable step functions -/

/-- `exec ℓ m` keeping `k` MORE entries than the content rule (`k = 0`: the step of `TWG.exec?`) -/
def exec? (M : SimModel σ) (s : TWGState) (ℓ : Nat) (m : TMsg) (k : Nat) : Option TWGState :=
  if m ∈ s.pending ∧ m.ev.dest = ℓ ∧ ℓ < M.nLps ∧ m.ev.type < LP_INIT then
    match s.past ℓ with
    | [] => none
    | h :: T =>
      if stopOk? s m.ev ((undoG m.ev T).take k) then
        some (execResult M s ℓ m h (T.take (keepLen m.ev T) ++ (undoG m.ev T).take k)
          ((undoG m.ev T).drop k))
      else none
  else none

/-- the actions, as data; the split point (`extra`: how many entries beyond the content rule are kept) is part
of the `exec` action -/
inductive Action where
  | exec (ℓ : Nat) (e : Event) (cr : Nat) (extra : Nat)
  | annihilate (e : Event) (cr : Nat)
  | antiRollback (ℓ i : Nat)
deriving Repr, DecidableEq

def step? (M : SimModel σ) (s : TWGState) : Action → Option TWGState
  | .exec ℓ e c k => exec? M s ℓ { ev := e, cr := c } k
  | .annihilate e c => annihilate? s { ev := e, cr := c }
  | .antiRollback ℓ i => antiRollback? M s ℓ i

def run? (M : SimModel σ) : TWGState → List Action → Option TWGState
  | s, [] => some s
  | s, a :: as => match step? M s a with
    | none => none
    | some s' => run? M s' as

/-- a TWG action is the TWD action with no extra entry kept -/
def ofTWG : TWG.Action → Action
  | .exec ℓ e c => .exec ℓ e c 0
  | .annihilate e c => .annihilate e c
  | .antiRollback ℓ i => .antiRollback ℓ i

/-! ### What is below a lower bound: the UNTAINTED prefix of a history

An entry is TAINTED if it is doomed or stands after a doomed entry of its LP: it is going to be undone when the
anti-message arrives. -/

/-- the untainted prefix of LP `ℓ`'s history: `LP_INIT`, then the entries before the first doomed one -/
def cleanPast (s : TWGState) (ℓ : Nat) : List TEntry :=
  match s.past ℓ with
  | [] => []
  | h :: T => h :: T.takeWhile (fun u => !decide (u.msg ∈ s.antis))

/-- the tainted rest: from the first doomed entry on -/
def taintedPast (s : TWGState) (ℓ : Nat) : List TEntry :=
  (s.past ℓ).tail.dropWhile (fun u => !decide (u.msg ∈ s.antis))

/-- contents of the untainted prefixes -/
def cleanOf (s : TWGState) : Nat → List Event := fun ℓ => evs (cleanPast s ℓ)

/-! ### A model on which the code's rule differs from the content rule

LP 0: `LP_INIT` schedules for LP 0 a type-3 event `y` at time 1 and a type-2 event `z` at time 2. `z` sends
`x = ⟨1,5,1,[]⟩` to LP 1 only if LP 0 has NOT processed `y` yet (count 1), i.e. only in a speculative execution
that will be undone. LP 1: `LP_INIT` schedules for LP 1 itself `e = ⟨1,5,2,[]⟩` — same time stamp as `x`, BEFORE
`x` by content (larger type). The LP state counts the events processed so far. Sequentially: LP 0 processes
`LP_INIT`, `y`, `z` (nothing sent), LP 1 processes `LP_INIT`, `e`. -/
def doom : SimModel Nat where
  nLps := 2
  init := fun _ => 0
  handler := fun ℓ s e =>
    (s + 1,
     if e.type = LP_INIT then
       (if ℓ = 0 then [{ dest := 0, t := e.t + 1, type := 3, payload := [] },
                       { dest := 0, t := e.t + 2, type := 2, payload := [] }]
        else [{ dest := 1, t := e.t + 5, type := 2, payload := [] }])
     else if ℓ = 0 ∧ e.type = 2 ∧ s = 1 then [{ dest := 1, t := e.t + 3, type := 1, payload := [] }]
     else [])
  canEnd := fun _ _ => false

end TWD
end RootSim
