/-
Model of the rollbackable buddy allocator of ROOT-Sim/core:
`src/mm/buddy/buddy.{h,c}`, `src/mm/buddy/multi.{h,c}`, `src/mm/buddy/ckpt.{h,c}`
(non-`ROOTSIM_INCREMENTAL` code only) and the `dyn_array` macros of `src/datatypes/array.h`
they use.

Parametric in `T = B_TOTAL_EXP` and `B = B_BLOCK_EXP` (real values 16 and 6).

Representation choices (what is abstracted, and how it is tied back to the code):

* The implicit binary tree stored in `uint8_t longest[]` is an inductive tree `BT`.
  `BT.flatten` reproduces the C array *exactly* (heap order: children of `i` are `2i+1`, `2i+2`),
  including the stale "full" values that stay below an allocated or a free node, and the unused
  last char.  The correspondence run compares `flatten` with the real array after every operation.
  `flatten` is injective on well-formed trees (`BT.flatten_injective`, Proofs/AllocFlat.lean), so a
  checkpoint that stores the array (C) and one that stores the tree (model) carry the same information.
* `uint8_t`/`uint_fast32_t` arithmetic is modelled on `Nat` (no wrap).  The proofs show that no
  subtraction underflows in reachable states; widths are not modelled (`T ≤ 31` in any real build).
* Addresses: an arena (one `struct buddy_state`, obtained from the system `malloc`) is identified by
  a unique `id`; the list `MM.arenas` is kept in ascending address order as `mm_state.buddies` is.
  Where the system `malloc` places a new arena is an environment input: the index `ins` at which
  `rs_malloc` inserts it.  A model pointer is `(arena id, offset into base_mem)`.
* Functions return `Option`; `none` always means "the C code has undefined behaviour here" (invalid
  pointer, scan running below index 0 of `logs`, descent reaching a node that cannot satisfy the
  request); C-level failure (`NULL`, `errno`) is an ordinary result (`Ret`).
-/
namespace RootSim.Alloc

/-- Build parameters.  `perArena = offsetof(struct buddy_checkpoint, base_mem)`,
`base = offsetof(struct mm_checkpoint, chkps) + sizeof(struct buddy_state *)`; the harness prints the
real values.  `junk id off` is the indeterminate content of a freshly `malloc`ed arena (every theorem
quantifies over it). -/
structure Cfg where
  T : Nat
  B : Nat
  perArena : Nat
  base : Nat
  junk : Nat → Nat → Nat := fun _ _ => 0
  /-- which `rs_calloc` is modelled: `false` = the pinned code (`tot = nmemb * size` in `size_t`, no
  overflow check); `true` = the code after `repo_patches/rs_calloc_overflow.diff`
  (`__builtin_mul_overflow` → `NULL` + `ENOMEM`).  The harness detects the variant of the tree under
  test by behaviour and passes it on the `cfg` line. -/
  callocChecked : Bool := false

/-- The code needs `1 ≤ B_BLOCK_EXP ≤ B_TOTAL_EXP`: with `B = 0` a free leaf would have
`longest = 0`, the encoding of "allocated". -/
def Cfg.ok (c : Cfg) : Prop := 0 < c.B ∧ c.B ≤ c.T

/-! ## `buddy.h`: request size → order -/

/-- `next_exp_of_2(i) = sizeof(i) * CHAR_BIT - intrinsics_clz(i)`: the bit length of `i`.
`clz(0)` is undefined in C; it is reached only for `B_BLOCK_EXP = 0` (excluded by `Cfg.ok`). -/
def bitLen (i : Nat) : Nat := if i = 0 then 0 else Nat.log2 i + 1

/-- `buddy_allocation_block_compute(req_size) = next_exp_of_2(max(req_size, 1U << B_BLOCK_EXP) - 1)` -/
def blockExp (B req : Nat) : Nat := bitLen (max req (2 ^ B) - 1)

/-! ## `buddy.c`: one buddy system -/

/-- The allocation tree.  A node of *level* `k` manages `2^k` bytes; the root has level `T`,
leaves level `B`.  `free`: the whole node is free (`longest[i] = k`); `alloc`: the node is one live
block (`longest[i] = 0`); `split`: partially used. -/
inductive BT where
  | free
  | alloc
  | split (l r : BT)
deriving DecidableEq, Repr, Inhabited

namespace BT

/-- the value of `longest[i]` for a node of level `k` -/
def longest : Nat → BT → Nat
  | k, free => k
  | _, alloc => 0
  | k, split l r => max (longest (k - 1) l) (longest (k - 1) r)

/-- The `2^d` array entries at depth `d` below a node of level `k`, left to right.  Below a `free` or
`alloc` node the array keeps the full value of each level (only completely free nodes are ever
allocated, and `buddy_free`/`buddy_malloc` never touch the descendants). -/
def row : Nat → BT → Nat → List Nat
  | k, t, 0 => [t.longest k]
  | k, split l r, d + 1 => row (k - 1) l d ++ row (k - 1) r d
  | k, _, d + 1 => List.replicate (2 ^ (d + 1)) (k - (d + 1))

/-- the whole `longest[1 << (T - B + 1)]` array; the last char is unused and keeps the value
`buddy_init` gives it (`B - 1`) -/
def flatten (T B : Nat) (t : BT) : List Nat :=
  (List.range (T - B + 1)).flatMap (t.row T) ++ [B - 1]

/-- result of allocating a block `n` levels below a free node: left spine -/
def carve : Nat → BT
  | 0 => alloc
  | n + 1 => split (carve n) free

/-- The descent loop of `buddy_malloc` for a request of order `e`, at a node of level `e + n`
(`while(node_size > req_blks_exp)`: go to the left child, `+1` if its `longest` is `< req`), followed
by `longest[i] = 0`, the offset computation and the upward `max` recomputation.
Returns the new subtree and the offset of the block relative to the node.
`none`: the descent reached (or passed through) a node that cannot satisfy the request — the code
does not check this and would hand out overlapping memory (C12 (8): this never happens). -/
def descendN (e : Nat) : Nat → BT → Option (BT × Nat)
  | 0, free => some (alloc, 0)
  | 0, _ => none
  | n + 1, free => (descendN e n free).map fun (l, o) => (split l free, o)
  | _ + 1, alloc => none
  | n + 1, split l r =>
    if l.longest (e + n) < e then
      (descendN e n r).map fun (r', o) => (split l r', 2 ^ (e + n) + o)
    else
      (descendN e n l).map fun (l', o) => (split l' r, o)

/-- `buddy_malloc(self, req_blks_exp)`; `none` = `NULL` (`longest[0] < req_blks_exp`) -/
def bmalloc (T e : Nat) (t : BT) : Option (BT × Nat) :=
  if t.longest T < e then none else t.descendN e (T - e)

/-- the coalescing step of the upward loop of `buddy_free`: parent of level `k` from its children -/
def mk (k : Nat) (l r : BT) : BT :=
  if l.longest (k - 1) = k - 1 ∧ r.longest (k - 1) = k - 1 then free else split l r

/-- `buddy_free(self, ptr)` with `o = ptr - base_mem`: from the leaf of `o` walk up to the first
node with `longest = 0` (the allocated ancestor), mark it free, coalesce upwards.
Returns the new tree and the order of the freed block (the C function returns `1 << order`).
`none`: `o` lies in free space (the C loop would run to an unrelated node or past the root). -/
def bfree : Nat → Nat → BT → Option (BT × Nat)
  | k, _, alloc => some (free, k)
  | _, _, free => none
  | k, o, split l r =>
    if o < 2 ^ (k - 1) then (bfree (k - 1) o l).map fun (l', j) => (mk k l' r, j)
    else (bfree (k - 1) (o - 2 ^ (k - 1)) r).map fun (r', j) => (mk k l r', j)

/-- the first loop of `buddy_best_effort_realloc`: order of the allocated block containing `o` -/
def orderAt : Nat → Nat → BT → Option Nat
  | k, _, alloc => some k
  | _, _, free => none
  | k, o, split l r =>
    if o < 2 ^ (k - 1) then orderAt (k - 1) o l else orderAt (k - 1) (o - 2 ^ (k - 1)) r

/-- the live blocks `(offset, order)` below a node of level `k` starting at offset `o`, left to right -/
def blocks : Nat → Nat → BT → List (Nat × Nat)
  | _, _, free => []
  | k, o, alloc => [(o, k)]
  | k, o, split l r => blocks (k - 1) o l ++ blocks (k - 1) (o + 2 ^ (k - 1)) r

/-- total size of the live blocks -/
def liveBytes (k : Nat) (t : BT) : Nat := ((t.blocks k 0).map fun b => 2 ^ b.2).sum

/-- `buddy_tree_visit(longest, on_visit)` of `ckpt.c`: the regions `(offset, len)` passed to
`on_visit`, in order.  A node with `longest = 0` is visited as ONE region (also a split node whose
descendants are all allocated), a node with `longest = level` is skipped, otherwise both children
are visited left to right. -/
def visit : Nat → Nat → BT → List (Nat × Nat)
  | k, o, split l r =>
    if (split l r).longest k = 0 then [(o, 2 ^ k)]
    else if (split l r).longest k = k then []
    else visit (k - 1) o l ++ visit (k - 1) (o + 2 ^ (k - 1)) r
  | k, o, t => if t.longest k = 0 then [(o, 2 ^ k)] else []

/-- well-formedness at level `k`: every node has level `≥ B`, no split node has two free children -/
def WF (B : Nat) : Nat → BT → Prop
  | k, free => B ≤ k
  | k, alloc => B ≤ k
  | 0, split _ _ => False
  | k + 1, split l r => WF B k l ∧ WF B k r ∧ ¬(l = free ∧ r = free)

end BT

/-! ## memory -/

/-- `memcpy(mem + o, bs, |bs|)` -/
def writeAt (mem : List Nat) (o : Nat) (bs : List Nat) : List Nat :=
  mem.take o ++ bs ++ mem.drop (o + bs.length)

/-- the `len` bytes at `mem + o` -/
def readAt (mem : List Nat) (o len : Nat) : List Nat := (mem.drop o).take len

/-- insertion at index `i` (`array_add_at`); indices beyond the end append -/
def insertAt {α : Type} (l : List α) (i : Nat) (a : α) : List α := l.take i ++ a :: l.drop i

/-! ## `multi.c`: several buddy systems, checkpoints -/

/-- model pointer: arena identity + offset into its `base_mem` -/
structure Ptr where
  aid : Nat
  off : Nat
deriving DecidableEq, Repr, Inhabited

/-- one `struct buddy_state` (non-incremental: the `dirty` bitmap is unused) -/
structure Arena where
  id : Nat
  tree : BT
  mem : List Nat
deriving Repr, Inhabited

/-- `mm_alloc(sizeof(struct buddy_state))` + `buddy_init` -/
def Arena.fresh (c : Cfg) (id : Nat) : Arena := ⟨id, .free, (List.range (2 ^ c.T)).map (c.junk id)⟩

/-- one `struct buddy_checkpoint` record: `orig`, copy of `longest[]` (as the tree it encodes), the
bytes of the visited regions -/
structure BCkpt where
  orig : Nat
  tree : BT
  bytes : List Nat
deriving Repr, Inhabited

/-- `struct mm_checkpoint`: `ckpt_size` and the records, implicitly terminated by `orig = NULL` -/
structure Ckpt where
  size : Nat
  recs : List BCkpt
deriving Repr, Inhabited

/-- `struct mm_state`; `nextId` is the supply of fresh arena identities (addresses never reused while
the LP lives because arenas are only released in `model_allocator_lp_fini`) -/
structure MM where
  arenas : List Arena
  logs : List (Nat × Ckpt)
  full : Nat
  nextId : Nat
deriving Repr, Inhabited

/-- `model_allocator_lp_init` -/
def MM.init (c : Cfg) : MM := ⟨[], [], c.base, 0⟩

/-- result of an allocation call -/
inductive Ret where
  | ptr (p : Ptr)
  | null            -- NULL, errno untouched
  | enomem          -- NULL, errno = ENOMEM
  | einval          -- NULL, errno = EINVAL
  | ok              -- void / success without pointer
  | ref (r : Nat)   -- `array_count_t` returned by restore / fossil
deriving DecidableEq, Repr, Inhabited

/-- `buddy_find_by_address` on a valid pointer: the arena with that identity -/
def findArena (as : List Arena) (id : Nat) : Option Arena := as.find? fun a => a.id == id

/-- update the arena with identity `id` in place -/
def modArena (id : Nat) (f : Arena → Arena) (as : List Arena) : List Arena :=
  as.map fun a => if a.id = id then f a else a

/-- the loop `i = array_count(buddies); while(i--) { ret = buddy_malloc(buddies[i], e); if(ret) return ret; }`
of `rs_malloc`: the LAST arena is tried first -/
def mallocIn (T e : Nat) : List Arena → Option (List Arena × Ptr)
  | [] => none
  | a :: rest =>
    match mallocIn T e rest with
    | some (rest', p) => some (a :: rest', p)
    | none =>
      match a.tree.bmalloc T e with
      | some (t', o) => some ({ a with tree := t' } :: rest, ⟨a.id, o⟩)
      | none => none

/-- `rs_malloc(req_size)`; `ins` = index at which a newly created arena is inserted into the
address-sorted array (chosen by the system allocator) -/
def rsMalloc (c : Cfg) (s : MM) (n ins : Nat) : MM × Ret :=
  if n = 0 then (s, .null) else
  let e := blockExp c.B n
  if c.T < e then (s, .enomem) else
  let full1 := s.full + 2 ^ e
  match mallocIn c.T e s.arenas with
  | some (as', p) => ({ s with arenas := as', full := full1 }, .ptr p)
  | none =>
    let a := Arena.fresh c s.nextId
    match a.tree.bmalloc c.T e with
    | some (t', o) =>
      ({ s with arenas := insertAt s.arenas ins { a with tree := t' }, full := full1 + c.perArena,
                nextId := s.nextId + 1 }, .ptr ⟨a.id, o⟩)
    | none =>
      ({ s with arenas := insertAt s.arenas ins a, full := full1 + c.perArena,
                nextId := s.nextId + 1 }, .null)

/-- stores into `base_mem` of arena `aid` at offset `o` -/
def MM.poke (s : MM) (aid o : Nat) (bs : List Nat) : MM :=
  { s with arenas := modArena aid (fun x => { x with mem := writeAt x.mem o bs }) s.arenas }

/-- loads from `base_mem` of arena `aid` -/
def MM.peek (s : MM) (aid o len : Nat) : List Nat :=
  match findArena s.arenas aid with
  | some a => readAt a.mem o len
  | none => []

/-- `rs_calloc(nmemb, size)`.  Patched variant (`c.callocChecked`): if `nmemb * size` does not fit in
`size_t`, `errno = ENOMEM; return NULL` before anything else.  Otherwise (and always in the pinned
variant) the product is computed in `size_t`, i.e. mod `2^64`. -/
def rsCalloc (c : Cfg) (s : MM) (nmemb size ins : Nat) : MM × Ret :=
  if c.callocChecked = true ∧ 2 ^ 64 ≤ nmemb * size then (s, .enomem) else
  let tot := (nmemb * size) % 2 ^ 64
  match rsMalloc c s tot ins with
  | (s1, .ptr p) => (s1.poke p.aid p.off (List.replicate tot 0), .ptr p)
  | r => r

/-- `rs_free(ptr)`; `none` = undefined behaviour (pointer into no arena / into free space) -/
def rsFree (c : Cfg) (s : MM) : Option Ptr → Option MM
  | none => some s
  | some p =>
    match findArena s.arenas p.aid with
    | none => none
    | some a =>
      if 2 ^ c.T ≤ p.off then none else
      match a.tree.bfree c.T p.off with
      | none => none
      | some (t', j) =>
        some { s with arenas := modArena p.aid (fun x => { x with tree := t' }) s.arenas,
                      full := s.full - 2 ^ j }

/-- `rs_realloc(ptr, req_size)` -/
def rsRealloc (c : Cfg) (s : MM) (ptr : Option Ptr) (n ins : Nat) : Option (MM × Ret) :=
  if n = 0 then some (s, if ptr.isNone then .einval else .null) else
  match ptr with
  | none => some (rsMalloc c s n ins)
  | some p =>
    match findArena s.arenas p.aid with
    | none => none
    | some a =>
      if 2 ^ c.T ≤ p.off then none else
      match a.tree.orderAt c.T p.off with
      | none => none
      | some j =>
        if j = blockExp c.B n then some (s, .ptr p)      -- handled, variation = 0
        else
          match rsMalloc c s n ins with
          | (s1, .ptr q) =>
            let s2 := s1.poke q.aid q.off (s1.peek p.aid p.off (min n (2 ^ j)))
            (rsFree c s2 (some p)).map fun s3 => (s3, .ptr q)
          | r => some r

/-- `checkpoint_full_take`: the bytes copied after `longest[]` -/
def BT.saved (T : Nat) (t : BT) (mem : List Nat) : List Nat :=
  (t.visit T 0).flatMap fun r => readAt mem r.1 r.2

/-- the checkpoint `model_allocator_checkpoint_take` builds: arenas from the last index down to 0 -/
def mkCkpt (c : Cfg) (s : MM) : Ckpt :=
  ⟨s.full, s.arenas.reverse.map fun a => ⟨a.id, a.tree, a.tree.saved c.T a.mem⟩⟩

/-- number of bytes `model_allocator_checkpoint_take` writes into the `mm_alloc(full_ckpt_size)` buffer:
`ckpt_size`, every record (`perArena` header bytes + block bytes), the terminating `orig = NULL` -/
def Ckpt.written (c : Cfg) (k : Ckpt) : Nat :=
  c.base + (k.recs.map fun r => c.perArena + r.bytes.length).sum

/-- `model_allocator_checkpoint_take(self, ref_i)` -/
def ckptTake (c : Cfg) (s : MM) (ref : Nat) : MM :=
  { s with logs := s.logs ++ [(ref, mkCkpt c s)] }

/-- the copy-back loop of `checkpoint_full_restore`: consecutive chunks of `bytes` go to the regions -/
def restoreMem (mem : List Nat) : List (Nat × Nat) → List Nat → List Nat
  | [], _ => mem
  | r :: rs, bytes => restoreMem (writeAt mem r.1 (bytes.take r.2)) rs (bytes.drop r.2)

/-- `checkpoint_full_restore` when `ckp->orig == self` -/
def Arena.restore (T : Nat) (a : Arena) (r : BCkpt) : Arena :=
  { a with tree := r.tree, mem := restoreMem a.mem (r.tree.visit T 0) r.bytes }

/-- `buddy_init` on an existing arena (memory untouched) -/
def Arena.reinit (a : Arena) : Arena := { a with tree := .free }

/-- The arena loop of `model_allocator_checkpoint_restore`.  First argument: the arenas in the order
they are processed (last index first); second: the remaining checkpoint records.
Returns the processed arenas (same order) and the number of re-initialised ones. -/
def restoreArenas (T : Nat) : List Arena → List BCkpt → List Arena × Nat
  | [], _ => ([], 0)
  | a :: rest, [] =>                                   -- terminator `orig = NULL` matches nothing
    let (as, n) := restoreArenas T rest []
    (a.reinit :: as, n + 1)
  | a :: rest, r :: recs =>
    if r.orig = a.id then
      let (as, n) := restoreArenas T rest recs
      (a.restore T r :: as, n)
    else
      let (as, n) := restoreArenas T rest (r :: recs)
      (a.reinit :: as, n + 1)

/-- `i = count - 1; while(logs[i].ref_i > tgt) i--;` — the prefix `logs[0..i]`.
`[]` = the scan ran below index 0 (no bounds check in C: undefined behaviour). -/
def keepUpTo {α : Type} (tgt : Nat) : List (Nat × α) → List (Nat × α)
  | [] => []
  | l :: rest =>
    match keepUpTo tgt rest with
    | [] => if l.1 ≤ tgt then [l] else []
    | k :: ks => l :: k :: ks

/-- `model_allocator_checkpoint_restore(self, ref_i)`; returns the `ref_i` of the chosen log -/
def ckptRestore (c : Cfg) (s : MM) (ref : Nat) : Option (MM × Nat) :=
  let kept := keepUpTo ref s.logs
  match kept.getLast? with
  | none => none
  | some (r, k) =>
    let (as, n) := restoreArenas c.T s.arenas.reverse k.recs
    some ({ s with arenas := as.reverse, full := k.size + n * c.perArena, logs := kept }, r)

/-- `model_allocator_fossil_lp_collect(self, tgt_ref_i)`; returns the `ref_i` of the kept checkpoint -/
def fossil (s : MM) (tgt : Nat) : Option (MM × Nat) :=
  let kept := keepUpTo tgt s.logs
  match kept.getLast? with
  | none => none
  | some (r, _) =>
    some ({ s with logs := (s.logs.drop (kept.length - 1)).map fun l => (l.1 - r, l.2) }, r)

/-! ## the API as a transition system -/

/-- live blocks `(arena id, offset, order)` in address order -/
def MM.live (c : Cfg) (s : MM) : List (Nat × Nat × Nat) :=
  s.arenas.flatMap fun a => (a.tree.blocks c.T 0).map fun b => (a.id, b.1, b.2)

/-- order of the live block that starts exactly at `p` -/
def MM.blockAt (c : Cfg) (s : MM) (p : Ptr) : Option Nat :=
  match findArena s.arenas p.aid with
  | none => none
  | some a => ((a.tree.blocks c.T 0).find? fun b => b.1 == p.off).map (·.2)

/-- content of a live block -/
def MM.bytes (s : MM) (b : Nat × Nat × Nat) : List Nat := s.peek b.1 b.2.1 (2 ^ b.2.2)

inductive Op where
  | malloc (n ins : Nat)
  | calloc (nmemb size ins : Nat)
  | realloc (p : Option Ptr) (n ins : Nat)
  | free (p : Option Ptr)
  /-- the simulation model stores `bs` at `p + i`, inside the live block `p` -/
  | write (p : Ptr) (i : Nat) (bs : List Nat)
  | take (ref : Nat)
  | restore (ref : Nat)
  | fossil (tgt : Nat)
deriving Repr

/-- a pointer argument is legal: `NULL` or the start of a live block -/
def MM.legal (c : Cfg) (s : MM) : Option Ptr → Bool
  | none => true
  | some p => (s.blockAt c p).isSome

/-- One API call under the API contract.  `none` = contract violated / undefined behaviour:
sizes are `size_t` values; pointer arguments are `NULL` or live; stores stay inside a live block;
`ref_i` passed to `take` exceeds every logged `ref_i`; the scans of restore / fossil find a log. -/
def step (c : Cfg) (s : MM) : Op → Option (MM × Ret)
  | .malloc n ins => if n < 2 ^ 64 then some (rsMalloc c s n ins) else none
  | .calloc nm sz ins => if nm < 2 ^ 64 ∧ sz < 2 ^ 64 then some (rsCalloc c s nm sz ins) else none
  | .realloc p n ins => if n < 2 ^ 64 ∧ s.legal c p then rsRealloc c s p n ins else none
  | .free p => if s.legal c p then (rsFree c s p).map (·, .ok) else none
  | .write p i bs =>
    match s.blockAt c p with
    | some k => if i + bs.length ≤ 2 ^ k then some (s.poke p.aid (p.off + i) bs, .ok) else none
    | none => none
  | .take ref => if s.logs.all (fun l => l.1 < ref) then some (ckptTake c s ref, .ok) else none
  | .restore ref => (ckptRestore c s ref).map fun (s', r) => (s', .ref r)
  | .fossil tgt => (fossil s tgt).map fun (s', r) => (s', .ref r)

/-- a whole history -/
def run (c : Cfg) : MM → List Op → Option MM
  | s, [] => some s
  | s, op :: ops => match step c s op with
    | some (s', _) => run c s' ops
    | none => none

end RootSim.Alloc
