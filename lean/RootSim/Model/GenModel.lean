import RootSim.Model.Sim
/-!
GenModel — the Lean twin of `harness/genmodel.h` (keep the two in sync, bit for bit).

A hash-driven simulation model used for end-to-end correspondence: the real runtime executes the
C version, the Lean executors (sequential reference, optimistic re-execution) execute this one, and
every dispatched event content and every LP-state digest must agree.

Time stamps are in quarters (`tq`), so the time key of `Model/Msg.lean` is `tq` itself (order
isomorphic to the double `tq/4`).
-/
namespace RootSim.GenModel
open RootSim

structure Params where
  seed : UInt64
  nLps : Nat
  nTypes : Nat
  maxFan : Nat
  thrBase : Nat
  thrSpread : Nat
  useRng : Bool
  memOps : Bool
  t0Events : Bool
  skew : Nat := 0
  /-- V2-only mode (`GM.fwd_tok`): an ordinary event of type ≥ 1 is also forwarded, unchanged and with zero delay, to the next LP
  of the ring while the LP's counter is not a multiple of 4 — incomparable with its cause (`Spec.V2` holds, `Spec.V2s` does not) -/
  fwdTok : Bool := false
deriving Repr

/-- the `t0` field of the `model` line: bit 0 = `t0Events`, bit 1 = `fwdTok` (harness/hrun.c) -/
def Params.ofFields (seed lps types fan thr spread rng mem t0 skew : Nat) : Params :=
  { seed := UInt64.ofNat seed, nLps := lps, nTypes := types, maxFan := fan, thrBase := thr, thrSpread := spread,
    useRng := rng != 0, memOps := mem != 0, t0Events := t0 % 2 != 0, skew := skew, fwdTok := t0 / 2 % 2 != 0 }

def mix (z0 : UInt64) : UInt64 :=
  let z := z0 + 0x9e3779b97f4a7c15
  let z := (z ^^^ (z >>> 30)) * 0xbf58476d1ce4e5b9
  let z := (z ^^^ (z >>> 27)) * 0x94d049bb133111eb
  z ^^^ (z >>> 31)

def fnvOff : UInt64 := 0xcbf29ce484222325
def fnvPrime : UInt64 := 0x100000001b3

def fnvByte (h : UInt64) (b : UInt64) : UInt64 := (h ^^^ b) * fnvPrime

def fnvBytesL (h : UInt64) (bs : List Nat) : UInt64 :=
  bs.foldl (fun h b => fnvByte h (UInt64.ofNat b)) h

def fnvByteArray (h : UInt64) (bs : ByteArray) : UInt64 :=
  bs.foldl (fun h b => fnvByte h b.toUInt64) h

def fnvU64 (h : UInt64) (v : UInt64) : UInt64 :=
  (List.range 8).foldl (fun h i => fnvByte h ((v >>> (UInt64.ofNat (8 * i))) &&& 0xff)) h

def fnvU32 (h : UInt64) (v : UInt64) : UInt64 :=
  (List.range 4).foldl (fun h i => fnvByte h ((v >>> (UInt64.ofNat (8 * i))) &&& 0xff)) h

def delaysQ : List Nat := [0, 1, 2, 4, 4, 8, 14]
def sizes : List Nat := [0, 0, 4, 16, 32, 33, 100, 200]
def bufSz : List Nat := [8, 64, 65, 200, 1000, 5000, 33000]

def threshold (P : Params) (lp : Nat) : Nat :=
  -- `thrSpread ≥ 1000` encodes two values: every `thrSpread / 1000`-th LP satisfies its predicate already at `LP_INIT`
  -- (threshold 0), the others use the spread `thrSpread % 1000`
  let zmod := P.thrSpread / 1000
  let spread := P.thrSpread % 1000
  if zmod ≠ 0 ∧ lp % zmod = 0 then 0 else
  P.thrBase + (if spread = 0 then 0
    else (mix (P.seed ^^^ (0xabcd + UInt64.ofNat lp))).toNat % spread)

/-- xoshiro256** step = the `random_u64` macro of `lib/random/xoroshiro.h` -/
structure Rng where
  s0 : UInt64
  s1 : UInt64
  s2 : UInt64
  s3 : UInt64
deriving Repr, BEq

def rotl (x : UInt64) (k : UInt64) : UInt64 := (x <<< k) ||| (x >>> (64 - k))

def Rng.next (r : Rng) : UInt64 × Rng :=
  let res := rotl (r.s1 * 5) 7 * 9
  let t := r.s1 <<< 17
  let s2 := r.s2 ^^^ r.s0
  let s3 := r.s3 ^^^ r.s1
  let s1 := r.s1 ^^^ s2
  let s0 := r.s0 ^^^ s3
  let s2 := s2 ^^^ t
  let s3 := rotl s3 45
  (res, ⟨s0, s1, s2, s3⟩)

/-- everything the model keeps in rollbackable memory (+ the library RNG state, which lives there too) -/
structure GState where
  inited : Bool := false
  cnt : UInt64 := 0
  acc : UInt64 := 0
  bufs : List (Option ByteArray) := [none, none, none, none]
  rng : Rng := ⟨0, 0, 0, 0⟩

def digest (s : GState) : UInt64 :=
  let h := fnvU64 (fnvU64 fnvOff s.cnt) s.acc
  let h := s.bufs.foldl (fun h b => match b with
    | none => fnvU32 h 0
    | some ba => fnvByteArray (fnvU32 h (UInt64.ofNat ba.size)) ba) h
  fnvU64 (fnvU64 (fnvU64 (fnvU64 h s.rng.s0) s.rng.s1) s.rng.s2) s.rng.s3

def payloadDigest (pl : List Nat) : UInt64 := fnvBytesL fnvOff pl

/-- `gm_fill(b, from, to, fb)` appended to a prefix -/
def fillFrom (pre : ByteArray) (from_ to fb : Nat) : ByteArray :=
  (List.range (to - from_)).foldl (fun (acc : ByteArray) k =>
    acc.push (UInt8.ofNat ((fb + (from_ + k) * 7) % 256))) pre

def setSlot (bufs : List (Option ByteArray)) (s : Nat) (v : Option ByteArray) : List (Option ByteArray) :=
  bufs.set s v

/-- `gm_memop` -/
def memop (bufs : List (Option ByteArray)) (a : UInt64) : List (Option ByteArray) :=
  let s := (a % 4).toNat
  let op := ((a >>> 2) % 4).toNat
  let pick := bufSz.getD (((a >>> 4) % 7).toNat) 8
  let fb := ((a >>> 8) &&& 0xff).toNat
  let cur := (bufs.getD s none)
  match op with
  | 0 => bufs
  | 1 => match cur with
    | some _ => setSlot bufs s none
    | none => setSlot bufs s (some (fillFrom ByteArray.empty 0 pick fb))
  | 2 => match cur with
    | some b =>
      if pick > b.size then setSlot bufs s (some (fillFrom b b.size pick fb))
      else setSlot bufs s (some (b.extract 0 pick))
    | none => setSlot bufs s (some (fillFrom ByteArray.empty 0 pick fb))
  | _ => match cur with
    | some b =>
      let i := ((a >>> 16).toNat) % b.size
      let x : UInt8 := (((a >>> 40) &&& 0xff) ||| 1).toUInt8
      setSlot bufs s (some (b.set! i (b.get! i ^^^ x)))
    | none => bufs

/-- `gm_send`'s payload -/
def mkPayload (size : Nat) (acc : UInt64) (carry : Bool) : List Nat :=
  let pb := (acc % 3).toNat
  let base := if carry ∧ size ≥ 8 then
    (List.range 8).map (fun i => ((acc >>> (UInt64.ofNat (8 * i))) &&& 0xff).toNat)
      ++ List.replicate (size - 8) pb
  else List.replicate size pb
  -- payloads longer than the 32-byte inline buffer often share their first 32 bytes and differ in the tail
  if size > 32 then base.set (size - 1) ((acc >>> 8) &&& 0x3).toNat else base

def mkEvent (dest tq type size : Nat) (acc : UInt64) (carry : Bool) : Event :=
  { dest := dest, t := tq, type := type, payload := mkPayload size acc carry }

def bit (x : UInt64) (k : Nat) : Bool := ((x >>> UInt64.ofNat k) &&& 1) == 1

/-- LP_INIT branch of `gm_process` (the RNG state is seeded by the runtime before) -/
def onInit (P : Params) (me : Nat) (s : GState) : GState × List Event :=
  let acc := mix (P.seed ^^^ UInt64.ofNat me)
  let s' : GState := { s with inited := true, cnt := 0, acc := acc, bufs := [none, none, none, none] }
  let h := mix (P.seed + 0x1111 * UInt64.ofNat me)
  let n0 := 1 + (h % 2).toNat
  let outs := (List.range n0).map (fun j =>
    let hj := mix (h + UInt64.ofNat j + 1)
    let dest := if j = 0 then me else ((hj >>> 32).toNat % P.nLps)
    let dq := if P.t0Events then delaysQ.getD (((hj >>> 8) % 7).toNat) 0
              else delaysQ.getD (1 + ((hj >>> 8) % 6).toNat) 1
    let ty := if j = 0 then P.nTypes - 1 else ((hj >>> 16).toNat % P.nTypes)
    let sz := sizes.getD (((hj >>> 24) % 8).toNat) 0
    mkEvent dest dq ty sz acc (bit hj 40))
  (s', outs)

/-- the ordinary-event branch of `gm_process` -/
def onEvent (P : Params) (me : Nat) (s : GState) (e : Event) : GState × List Event :=
  if s.cnt.toNat ≥ threshold P me then (s, []) else
  let tq := UInt64.ofNat e.t
  let ty := UInt64.ofNat e.type
  let size := UInt64.ofNat e.payload.length
  let h := mix (s.acc ^^^ mix ((tq * fnvPrime) ^^^ ty ^^^ (size <<< 32)))
  let h := fnvBytesL h e.payload
  let acc := h
  let cnt := s.cnt + 1
  let (acc, rng) := if P.useRng ∧ (h &&& 1) == 1 then
      let (r, rng') := s.rng.next
      (acc ^^^ r, rng')
    else (acc, s.rng)
  let bufs := if P.memOps then memop s.bufs (acc >>> 1) else s.bufs
  let s' : GState := { s with cnt := cnt, acc := acc, bufs := bufs, rng := rng }
  let a := acc
  let hh := mix (P.seed ^^^ (ty * 0x9e3779b1))
  let tick : List Event :=
    if e.type = P.nTypes - 1 then
      let dq := delaysQ.getD (1 + ((hh >>> 8) % 6).toNat) 1 * (1 + (me % 3) * P.skew)
      [mkEvent me (e.t + dq) e.type (sizes.getD (((hh >>> 24) % 8).toNat) 0) a (bit hh 40)]
    else []
  if e.type = 0 then (s', tick) else
  let extras := (List.range (P.maxFan - 1)).filterMap (fun j0 =>
    let j := j0 + 1
    if bit a (8 + 2 * j) then none else
    let hj := mix (hh + UInt64.ofNat j)
    let dest := match ((hj + (a >>> 30)) % 4).toNat with
      | 0 => me
      | 1 => (me + 1) % P.nLps
      | 2 => (a >>> 20).toNat % P.nLps
      | _ => (hj >>> 32).toNat % P.nLps
    let dq := delaysQ.getD ((((hj >>> 8) + (a >>> 34)) % 7).toNat) 0
    let ty' := (hj >>> 16).toNat % e.type
    some (mkEvent dest (e.t + dq) ty' (sizes.getD (((hj >>> 24) % 8).toNat) 0) a (bit hj 40)))
  -- V2-only mode: the event itself goes on to the next LP, unchanged, at the same time stamp (type ≥ 1 here)
  let fwd : List Event :=
    if P.fwdTok ∧ e.type ≠ P.nTypes - 1 ∧ (cnt &&& 3) != 0 then
      [{ dest := (me + 1) % P.nLps, t := e.t, type := e.type, payload := e.payload }]
    else []
  (s', tick ++ extras ++ fwd)

def handler (P : Params) (me : Nat) (s : GState) (e : Event) : GState × List Event :=
  if e.type = LP_INIT then onInit P me s
  else if e.type = LP_FINI then (s, [])
  else onEvent P me s e

def canEnd (P : Params) (me : Nat) (s : GState) : Bool := s.cnt.toNat ≥ threshold P me

/-- the GenModel instance as a `SimModel`; `rng0 lp` is the seeded generator state of LP `lp`
(computed by the runtime's `random_lib_lp_init`, an input here) -/
def simModel (P : Params) (rng0 : Nat → Rng) : SimModel GState :=
  { nLps := P.nLps
    init := fun lp => { rng := rng0 lp }
    handler := handler P
    canEnd := canEnd P }

end RootSim.GenModel
