/-!
# Control skeleton of the worker threads around termination and shutdown (C08)

Mirrors, for `N` threads on ONE node in the `no_mpi.c` build (control messages are delivered
synchronously to the sending thread, the MPI collectives are identities, `mpi_node_barrier` is a no-op):

* `parallel_thread_run` (worker loop: `termination_cant_end()` at the loop head, 64 × `process_msg`,
  `gvt_phase_run`, `termination_on_gvt`), `worker_thread_fini`,
* `gvt_phase_run`, `gvt_thread_phase_run`, `gvt_node_phase_run` (`src/gvt/gvt.c`) with all shared
  counters (`c_a c_b c_c c_d total_msg_received gvt_nodes`),
* `gvt_msg_drain` (flush loop, two barriers, two forced rounds),
* `termination_on_gvt` reduced to "this thread votes now" (a schedule choice; what makes a thread vote
  is property C07), `RootsimStop`.

Abstractions (stated in the trusted base of the check):
* one step = one call of `gvt_phase_run` (resp. one loop-head test, one barrier arrival, one barrier
  exit): the guards inside one call are stable, so finer interleavings add no behaviours relevant
  here; `memory_order` annotations are not modelled (sequential consistency);
* `sync_thread_barrier` is a blocking `N`-barrier (its own correctness is C17): a thread leaves
  its `k`-th barrier when every thread has arrived at its `k`-th barrier;
* message processing is invisible, except for `zq`: "a message with time stamp 0 is still queued"
  — then a GVT computation returns `0.0`, which the callers cannot tell from "not finished" (F10);
* the timer of thread 0 is a schedule choice (`timer`), in the forced rounds of the drain
  `gvt_timer = 0` makes it true.

`Variant` selects the pinned code or the proposed repairs:
* `closeFix` — `repo_patches/f1_gvt_drain_close.diff`: after leaving the worker loop a thread keeps
  taking part in GVT rounds until thread 0 (the only initiator) has finished its own round, has seen
  `gvt_nodes == 0` (no round open anywhere) and has announced that no further round will start
  (`gvt_closed`); only then the threads go to the barrier.
* `zeroFix` — `repo_patches/f10_gvt_zero_sentinel.diff`: "round not finished" is reported as a negative
  value, so a GVT of exactly `0.0` is a value like any other.
-/
namespace RootSim.Shutdown

/-- `enum thread_phase` -/
inductive TPh where
  | idle | A | B | C | D
deriving DecidableEq, Repr

/-- `enum node_phase` -/
inductive NPh where
  | reduxFirst | sentReduce | sentReduceWait | sentWait | reduxSecond
  | minReduce | minReduceWait | minWait | done
deriving DecidableEq, Repr

/-- where a worker thread is in `parallel_thread_run` / `worker_thread_fini` / `gvt_msg_drain`.
Barriers: 0, 1 = the two of `gvt_msg_drain`; 2, 3 = the two of `worker_thread_fini`. -/
inductive Pc where
  | head                 -- about to evaluate `termination_cant_end()`
  | body                 -- in the loop body, before its `gvt_phase_run` call
  | flush                -- `while(thread_phase != idle) gvt_phase_run();`
  | barArrive (k : Nat)  -- about to enter `sync_thread_barrier`
  | barWait (k : Nat)    -- spinning inside `sync_thread_barrier`
  | forced (i : Nat)     -- `gvt_timer = 0; while(!gvt_phase_run()) …`, `i`-th of the two rounds
  | lpfini               -- `lp_fini()`: LP_FINI for each LP of the thread
  | done
deriving DecidableEq, Repr

structure Th where
  pc    : Pc := .head
  tph   : TPh := .idle
  nph   : NPh := .reduxFirst
  /-- number of barriers entered so far -/
  nb    : Nat := 0
  /-- number of times `lp_fini()` ran -/
  fini  : Nat := 0
  /-- has cast its termination vote -/
  voted : Bool := false
deriving DecidableEq, Repr

structure St where
  ths        : List Th
  ca         : Nat := 0
  cb         : Nat := 0
  cc         : Nat := 0
  cd         : Nat := 0
  /-- `total_msg_received` -/
  tmr        : Int := 0
  gvtNodes   : Int := 0
  nodesToEnd : Int := 1
  thrToEnd   : Nat
  /-- a message with time stamp 0 is still queued somewhere -/
  zq         : Bool := false
  /-- `gvt_closed` (only with `closeFix`) -/
  closed     : Bool := false
deriving DecidableEq, Repr

structure Variant where
  closeFix : Bool := false
  zeroFix  : Bool := false
deriving DecidableEq, Repr

def pinned : Variant := {}
def fixed : Variant := { closeFix := true, zeroFix := true }

def St.init (n : Nat) (zq : Bool := false) : St :=
  { ths := List.replicate n {}, thrToEnd := n, zq := zq }

def St.n (s : St) : Nat := s.ths.length

/-- 2^32: the counters are `_Atomic rid_t` (= `unsigned`), arithmetic wraps -/
def W32 : Nat := 4294967296
def inc32 (x : Nat) : Nat := (x + 1) % W32
def dec32 (x k : Nat) : Nat := (x + W32 - k % W32) % W32

/-- `gvt_thread_phase_run()` for thread state `t`: new shared state, new thread state, return value -/
def threadPhase (s : St) (t : Th) : St × Th × Bool :=
  match t.tph with
  | .A => if s.ca ≠ 0 then (s, t, false) else ({ s with cb := inc32 s.cb }, { t with tph := .B }, false)
  | .B => if s.cb ≠ s.n then (s, t, false) else ({ s with ca := inc32 s.ca }, { t with tph := .C }, false)
  | .C => if s.ca ≠ s.n then (s, t, false) else ({ s with cb := dec32 s.cb 1 }, { t with tph := .D }, false)
  | .D => if s.cb ≠ 0 then (s, t, false) else ({ s with ca := dec32 s.ca 1 }, { t with tph := .idle }, true)
  | .idle => (s, t, false)   -- `__builtin_unreachable()`: never called with an idle thread phase

def NPh.next : NPh → NPh
  | .reduxFirst => .sentReduce
  | .reduxSecond => .minReduce
  | x => x

/-- `gvt_node_phase_run()` (single node: sum-scatter yields 0 remote messages, min-reduce is the identity) -/
def nodePhase (s : St) (t : Th) : St × Th × Bool :=
  match t.nph with
  | .reduxFirst | .reduxSecond =>
    let (s1, t1, r) := threadPhase s t
    if r then (s1, { t1 with tph := .A, nph := t1.nph.next }, false) else (s1, t1, false)
  | .sentReduce =>
    if s.ca ≠ 0 then (s, t, false)
    else
      let s1 := { s with tmr := s.tmr + 1, cc := inc32 s.cc }
      if s.cc ≠ s.n - 1 then (s1, { t with nph := .sentWait }, false)
      else (s1, { t with nph := .sentReduceWait }, false)
  | .sentReduceWait => ({ s with tmr := s.tmr - (s.n : Int) }, { t with nph := .sentWait }, false)
  | .sentWait => if s.tmr ≠ 0 then (s, t, false) else (s, { t with nph := .reduxSecond }, false)
  | .minReduce =>
    let s1 := { s with cd := inc32 s.cd }
    if s.cd ≠ 0 then (s1, { t with nph := .minWait }, false)
    else (s1, { t with nph := .minReduceWait }, false)
  | .minReduceWait =>
    if s.cd ≠ s.n then (s, t, false) else ({ s with cc := dec32 s.cc s.n }, { t with nph := .done }, true)
  | .minWait => if s.cc ≠ 0 then (s, t, false) else (s, { t with nph := .done }, true)
  | .done =>
    let s1 := { s with cd := dec32 s.cd 1 }
    -- `if(fetch_sub(&c_d, 1) == 1) mpi_control_msg_send_to(MSG_CTRL_GVT_DONE, 0)` → `gvt_nodes--`
    ((if s.cd = 1 then { s1 with gvtNodes := s1.gvtNodes - 1 } else s1),
      { t with nph := .reduxFirst, tph := .idle }, false)

/-- `gvt_phase_run()` by thread `i` (state `t`); `timer` = "the GVT period has elapsed" (used by thread 0
only). Returns shared state, thread state and whether the caller sees a *finished* computation:
pinned code: the returned `simtime_t` is non-zero; with `zeroFix`: it is non-negative. -/
def gvtPhaseRun (v : Variant) (s : St) (i : Nat) (t : Th) (timer : Bool) : St × Th × Bool :=
  if t.tph ≠ .idle then
    let (s1, t1, r) := nodePhase s t
    (s1, t1, r && (v.zeroFix || !s.zq))
  else
    -- `if(c_b) gvt_start_processing();`
    let t1 := if s.cb ≠ 0 then { t with tph := .A } else t
    -- thread 0 (of node 0): start a new computation when the timer allows and none is open
    if i = 0 ∧ timer = true ∧ s.gvtNodes = 0 then
      ({ s with gvtNodes := s.gvtNodes + 1 }, { t1 with tph := .A }, false)
    else (s, t1, false)

/-- the barrier that follows barrier `k` / the code after it -/
def afterBarrier : Nat → Pc
  | 0 => .barArrive 1
  | 1 => .forced 0
  | 2 => .lpfini
  | _ => .done

def setTh (s : St) (i : Nat) (t : Th) : St := { s with ths := s.ths.set i t }

/-- thread `i` (state `t`) executes its next step; `timer`, `vote` are the schedule's choices -/
def runTh (v : Variant) (s : St) (i : Nat) (t : Th) (timer vote : Bool) : St :=
  match t.pc with
  | .head =>
    setTh s i { t with pc := if s.nodesToEnd > 0 then .body else .flush }
  | .body =>
    let (s1, t1, got) := gvtPhaseRun v s i t timer
    -- `if(current_gvt != 0.0) termination_on_gvt(current_gvt)` — the thread votes or not
    if got && vote && !t1.voted then
      let s2 := { s1 with thrToEnd := dec32 s1.thrToEnd 1 }
      let s3 := if s1.thrToEnd = 1 then { s2 with nodesToEnd := s2.nodesToEnd - 1 } else s2
      setTh s3 i { t1 with pc := .head, voted := true }
    else setTh s1 i { t1 with pc := .head }
  | .flush =>
    if v.closeFix then
      if i = 0 then
        -- initiator: finish the own round, wait until no round is open, then close
        if t.tph ≠ .idle then
          let (s1, t1, _) := gvtPhaseRun v s i t false
          setTh s1 i t1
        else if s.gvtNodes ≠ 0 then s
        else setTh { s with closed := true } i { t with pc := .barArrive 0 }
      else
        if t.tph ≠ .idle ∨ s.closed = false then
          let (s1, t1, _) := gvtPhaseRun v s i t false
          setTh s1 i t1
        else setTh s i { t with pc := .barArrive 0 }
    else
      if t.tph ≠ .idle then
        let (s1, t1, _) := gvtPhaseRun v s i t timer
        setTh s1 i t1
      else setTh s i { t with pc := .barArrive 0 }
  | .barArrive k => setTh s i { t with pc := .barWait k, nb := t.nb + 1 }
  | .barWait k =>
    if s.ths.all (fun u => decide (t.nb ≤ u.nb)) then setTh s i { t with pc := afterBarrier k } else s
  | .forced k =>
    -- `gvt_timer = 0` satisfies the timer condition
    let (s1, t1, got) := gvtPhaseRun v s i t true
    setTh s1 i (if got then { t1 with pc := if k = 0 then .forced 1 else .barArrive 2 } else t1)
  | .lpfini => setTh s i { t with pc := .barArrive 3, fini := t.fini + 1 }
  | .done => s

inductive Act where
  /-- thread `i` runs until its next scheduling point -/
  | run (i : Nat) (timer vote : Bool)
  /-- `RootsimStop()` called from an event handler of thread `i` (which is in the loop body) -/
  | stop (i : Nat)
  /-- the last message with time stamp 0 gets processed (by some thread in the loop body) -/
  | zero
deriving DecidableEq, Repr

/-- One step. Total: an action that is not enabled (unknown thread, guard false) leaves the state unchanged (a *spin*). -/
def step (v : Variant) (s : St) : Act → St
  | .run i timer vote =>
    match s.ths[i]? with
    | some t => runTh v s i t timer vote
    | none => s
  | .stop i =>
    match s.ths[i]? with
    | some t => if t.pc = .body then { s with nodesToEnd := s.nodesToEnd - 2 } else s
    | none => s
  | .zero => if s.ths.any (fun t => t.pc == .body) then { s with zq := false } else s

def run (v : Variant) (s : St) : List Act → St
  | [] => s
  | a :: as => run v (step v s a) as

/-- the run has returned on every thread -/
def final (s : St) : Bool := s.ths.all (fun t => t.pc == .done)

/-- the trigger of C08: termination has been decided -/
def triggered (s : St) : Bool := decide (s.nodesToEnd ≤ 0)

/-- `LP_FINI` has been delivered exactly once to the LPs of every thread -/
def finiOnce (s : St) : Bool := s.ths.all (fun t => t.fini == 1)

/-- every action of every thread (and of the environment) is a spin: nothing can ever change again -/
def stuck (v : Variant) (s : St) : Bool :=
  ((List.range s.n).all fun i =>
    (step v s (.stop i) == s) &&
    [true, false].all fun tm => [true, false].all fun vo => step v s (.run i tm vo) == s) &&
  (step v s .zero == s)

end RootSim.Shutdown
