/-!
# Model of the message-counting core of the NODE level of the GVT algorithm
(`src/gvt/gvt.c` `gvt_node_phase_run`, `src/gvt/gvt.h` stamping functions; property C04)

Any number `K = nodes.length` of nodes, `N` threads per node, arbitrary interleaving of atomic steps.
The two thread-level reductions (`gvt_thread_phase_run`, proved in `Props/C04.lean`) are abstracted:
the end of the first one is the atomic step `flip` of a thread (`gvt_phase ^= !node_phase`), and the
guard `c_a == 0` of `node_sent_reduce` is "every thread of my node has left `node_phase_redux_first`"
(`c_a` is decremented in the same call that flips).

Representation choices (values are the same as in C, shapes differ):
* a vector of per-destination counters (`remote_msg_seq[c][·] - last_seq[c][·]`, `total_sent[·]`) is a
  bag of destinations: the counter of `d` is `l.count d`, `++counter[d]` is `d :: l`, adding vectors
  is `++`, zeroing is `[]`. Only the difference `remote_msg_seq - last_seq` is kept (`unrep`).
* `uint32_t`/`int32_t` wrap-around is NOT modelled (`Nat`/`Int`).
* `report` (the `fetch_add`s on `total_sent[i]`, `total_msg_received`, `c_c` of one thread) is ONE atomic
  step; in C they are separate relaxed RMWs ordered before the `acq_rel` RMW on `c_c`.
* the reduce-scatter: the last reporter of node `j` deposits a snapshot `contrib j` of `total_sent`;
  `mpi_reduce_sum_scatter_done` holds at a node once every node has deposited, and yields
  `Σ_j contrib_j[k]` at node `k`.
* `polled` is a ghost field (never read by a guard).
-/
namespace RootSim.GvtNode

/-- a pair indexed by the colour bit (`x[2]` arrays of gvt.h) -/
structure Two (α : Type) where
  f : α
  t : α
deriving DecidableEq, Repr

def Two.get {α} (p : Two α) (b : Bool) : α := if b then p.t else p.f
def Two.set {α} (p : Two α) (b : Bool) (x : α) : Two α :=
  if b then { p with t := x } else { p with f := x }

/-- `enum node_phase` up to `node_phase_redux_second` -/
inductive Stage where
  | redux1 | reduce | reduceWait | wait | redux2
deriving DecidableEq, Repr

/-- has executed the `node_sent_reduce` body -/
def Stage.reported : Stage → Bool
  | .redux1 | .reduce => false
  | _ => true

structure Thr where
  /-- `nid` -/
  node   : Nat
  /-- `rid` -/
  rid    : Nat
  /-- `gvt_phase` -/
  colour : Bool
  /-- `node_phase` -/
  stage  : Stage := .redux1
  /-- `remote_msg_seq[c][·] - last_seq[c][·]` as a bag of destinations -/
  unrep  : Two (List Nat) := ⟨[], []⟩
  /-- `remote_msg_received[c]` -/
  recv   : Two Nat := ⟨0, 0⟩
deriving DecidableEq, Repr

structure Node where
  /-- `total_sent[·]` as a bag of destinations -/
  totalSent  : List Nat := []
  /-- `total_msg_received` -/
  totalRecv  : Int := 0
  /-- `c_c` -/
  cc         : Nat := 0
  /-- send buffer handed to `mpi_reduce_sum_scatter` -/
  contrib    : Option (List Nat) := none
  /-- `remote_msg_to_receive` once the collective is done -/
  toReceive  : Option Nat := none
  /-- the `fetch_sub` of `node_sent_reduce_wait` has happened -/
  subtracted : Bool := false
  /-- ghost: old-colour messages received here and already added by `node_sent_wait` -/
  polled     : Nat := 0
deriving DecidableEq, Repr

/-- a remote message in flight: colour stamped by `gvt_remote_msg_send`, destination node, time stamp -/
structure Msg where
  colour : Bool
  dest   : Nat
  ts     : Nat
deriving DecidableEq, Repr

structure St where
  /-- `global_config.n_threads` -/
  N      : Nat
  thr    : List Thr
  nodes  : List Node
  flight : List Msg := []
deriving DecidableEq, Repr

inductive Action where
  | send (t d ts : Nat)
  | deliver (i t : Nat)
  | flip (t : Nat)
  | report (t : Nat)
  | collective (t : Nat)
  | poll (t : Nat)
deriving DecidableEq, Repr

/-- `gvt_remote_msg_send` / `gvt_remote_anti_msg_send` + the MPI send: thread `t`, any stage, stamps its
current colour, counts in `remote_msg_seq[gvt_phase][d]` -/
def send (s : St) (t d ts : Nat) : Option St :=
  match s.thr[t]? with
  | none => none
  | some th =>
    if d < s.nodes.length then
      let th' := { th with unrep := th.unrep.set th.colour (d :: th.unrep.get th.colour) }
      some { s with thr := s.thr.set t th', flight := s.flight ++ [⟨th.colour, d, ts⟩] }
    else none

/-- arrival of in-flight message `i` at thread `t` of the destination node:
`gvt_remote_msg_receive`: `++remote_msg_received[colour of the message]` -/
def deliver (s : St) (i t : Nat) : Option St :=
  match s.flight[i]?, s.thr[t]? with
  | some m, some th =>
    if th.node = m.dest then
      let th' := { th with recv := th.recv.set m.colour (th.recv.get m.colour + 1) }
      some { s with thr := s.thr.set t th', flight := s.flight.eraseIdx i }
    else none
  | _, _ => none

/-- end of the first thread-level reduction: `gvt_phase ^= !node_phase; ++node_phase` -/
def flip (s : St) (t : Nat) : Option St :=
  match s.thr[t]? with
  | none => none
  | some th =>
    if th.stage = .redux1 then
      some { s with thr := s.thr.set t { th with colour := !th.colour, stage := .reduce } }
    else none

/-- `c_a == 0` seen from node `k`: no thread of `k` is still inside the first reduction -/
def caZero (s : St) (k : Nat) : Bool :=
  s.thr.all fun th => !(th.node = k && th.stage = .redux1)

/-- `case node_sent_reduce` -/
def report (s : St) (t : Nat) : Option St :=
  match s.thr[t]? with
  | none => none
  | some th =>
    match s.nodes[th.node]? with
    | none => none
    | some nd =>
      if th.stage = .reduce ∧ caZero s th.node then
        let ts' := nd.totalSent ++ th.unrep.get (!th.colour)
        let last := nd.cc = s.N - 1
        let nd' := { nd with totalSent := ts', totalRecv := nd.totalRecv + 1, cc := nd.cc + 1,
                             contrib := if last then some ts' else nd.contrib }
        let th' := { th with unrep := th.unrep.set (!th.colour) [],
                             stage := if last then .reduceWait else .wait }
        some { s with thr := s.thr.set t th', nodes := s.nodes.set th.node nd' }
      else none

/-- `mpi_reduce_sum_scatter_done`: every node has deposited its buffer -/
def allContrib (s : St) : Bool := s.nodes.all fun nd => nd.contrib.isSome

/-- `Σ_{a ∈ l} f a` -/
def sumBy {α} (f : α → Nat) : List α → Nat
  | [] => 0
  | a :: l => f a + sumBy f l

/-- result of the reduce-scatter for node `k` -/
def scatter (s : St) (k : Nat) : Nat :=
  sumBy (fun nd => (nd.contrib.getD []).count k) s.nodes

/-- `case node_sent_reduce_wait` -/
def collective (s : St) (t : Nat) : Option St :=
  match s.thr[t]? with
  | none => none
  | some th =>
    match s.nodes[th.node]? with
    | none => none
    | some nd =>
      if th.stage = .reduceWait ∧ allContrib s then
        let r := scatter s th.node
        let nd' := { nd with toReceive := some r, subtracted := true,
                             totalRecv := nd.totalRecv - ((r : Int) + s.N) }
        some { s with thr := s.thr.set t { th with stage := .wait }, nodes := s.nodes.set th.node nd' }
      else none

/-- `memset(total_sent + rid * q, 0, q * sizeof(*total_sent))` with `q = n_nodes / n_threads + 1` -/
def cleanup (K N rid : Nat) (l : List Nat) : List Nat :=
  let q := K / N + 1
  l.filter fun d => !(decide (rid * q ≤ d) && decide (d < rid * q + q))

/-- `case node_sent_wait`: `r = fetch_add(&total_msg_received, remote_msg_received[!gvt_phase])`,
reset of the thread counter; if `r == 0` the thread clears its slice of `total_sent` and proceeds -/
def poll (s : St) (t : Nat) : Option St :=
  match s.thr[t]? with
  | none => none
  | some th =>
    match s.nodes[th.node]? with
    | none => none
    | some nd =>
      if th.stage = .wait then
        let r := nd.totalRecv
        let x := th.recv.get (!th.colour)
        let pass := r = 0
        let nd' := { nd with totalRecv := r + (x : Int), polled := nd.polled + x,
                             totalSent := if pass then cleanup s.nodes.length s.N th.rid nd.totalSent
                                          else nd.totalSent }
        let th' := { th with recv := th.recv.set (!th.colour) 0,
                             stage := if pass then .redux2 else .wait }
        some { s with thr := s.thr.set t th', nodes := s.nodes.set th.node nd' }
      else none

/-- one atomic step of the system -/
def step (s : St) : Action → Option St
  | .send t d ts => send s t d ts
  | .deliver i t => deliver s i t
  | .flip t => flip s t
  | .report t => report s t
  | .collective t => collective s t
  | .poll t => poll s t

/-- run a schedule; `none` as soon as one action is not enabled -/
def run (s : St) : List Action → Option St
  | [] => some s
  | a :: as => match step s a with
    | none => none
    | some s' => run s' as

/-- `K` nodes × `N` threads, every thread with colour `c`, nothing in flight, all counters zero -/
def init (K N : Nat) (c : Bool) : St :=
  { N := N
    thr := (List.range (K * N)).map fun i => { node := i / N, rid := i % N, colour := c }
    nodes := List.replicate K {} }

end RootSim.GvtNode
