import RootSim.Model.TimeWarp
/-!
# The global Time Warp machine with a GHOST CREATION ORDER (identity-respecting cancellation)

`Model/TimeWarp.lean` identifies messages by CONTENT: an anti-message may meet any message of equal content.
Under the strict contract `Spec.V2s` this over-approximation is harmless (`Props/C01Glue.lean`). Under the
runtime's real contract `Spec.V2` it is NOT: an event may schedule an incomparable simultaneous event, a
chain of such events can produce a DESCENDANT of a message that has the content of the message itself, and
the content-level machine may cancel the descendant instead of the message, which leaves a self-justifying
cycle of processed events (`Props/C01GlueV2.lean: tw_V2_counterexample`). The code never does this: it
matches an anti-message with its message by pointer (local, `MSG_FLAG_ANTI` on the shared `struct lp_msg`)
or by `(m_id, m_seq)` (remote; `handle_remote_anti_msg`, `check_early_anti_messages` of `src/lp/process.c`).

This file is the same transition system, instrumented with real time:

* a global step counter `now` (incremented by every `exec`);
* every message carries `cr`, the step of the handler invocation that created it (`LP_INIT`: step 0);
* every processed entry carries `cr` of its message and `pr`, the step at which it was processed;
* the anti-message for a message carries the message's content AND its `cr`; `annihilate` / `antiRollback`
  need an anti-message that is EQUAL to the message, tag included.

Two messages with equal content created by the SAME invocation remain interchangeable (coarser than the
code's pointers / ids, finer than content): every behaviour of the code is a behaviour of this machine, and
every behaviour of this machine is one of the content-level machine (`Proofs/TimeWarpG.lean: proj_reachable`).
Erasing the tags gives the state of `Model/TimeWarp.lean` (`TWG.proj`).
-/
namespace RootSim

/-- a message: content + the step at which it was created -/
structure TMsg where
  ev : Event
  cr : Nat
deriving Repr, DecidableEq

/-- a processed entry: content + creation step of its message + the step at which it was processed -/
structure TEntry where
  ev : Event
  cr : Nat
  pr : Nat
deriving Repr, DecidableEq

/-- the message an entry was made from (what is re-queued when the entry is undone) -/
def TEntry.msg (u : TEntry) : TMsg := { ev := u.ev, cr := u.cr }

structure TWGState where
  past    : Nat → List TEntry
  pending : List TMsg
  antis   : List TMsg
  /-- the next step number -/
  now     : Nat

namespace TWG
open RootSim.Spec RootSim.TW

variable {σ : Type}

/-- the contents of a list of entries -/
def evs (l : List TEntry) : List Event := l.map TEntry.ev

/-- the messages scheduled by LP `ℓ` while processing the entries `l` from state `s`, each tagged with the
step of the invocation that scheduled it -/
def toutsFrom (M : SimModel σ) (ℓ : Nat) : σ → List TEntry → List TMsg
  | _, [] => []
  | s, u :: l =>
    (M.handler ℓ s u.ev).2.map (fun o => { ev := o, cr := u.pr }) ++
      toutsFrom M ℓ (M.handler ℓ s u.ev).1 l

def touts (M : SimModel σ) (ℓ : Nat) (l : List TEntry) : List TMsg := toutsFrom M ℓ (M.init ℓ) l

def toutsAll (M : SimModel σ) (D : Nat → List TEntry) : List TMsg :=
  (List.range M.nLps).flatMap (fun ℓ => touts M ℓ (D ℓ))

/-- the `LP_INIT` entry: created and processed at step 0 -/
def initEntry (ℓ : Nat) : TEntry := { ev := initEv ℓ, cr := 0, pr := 0 }

def initPast (M : SimModel σ) : Nat → List TEntry := fun ℓ => if ℓ < M.nLps then [initEntry ℓ] else []

def init (M : SimModel σ) : TWGState :=
  { past := initPast M, pending := toutsAll M (initPast M), antis := [], now := 1 }

/-- number of entries `match_straggler_msg` keeps (`TW.splitUndo` on the contents) -/
def keepLen (e : Event) (T : List TEntry) : Nat := (splitUndo e (evs T)).1.length

def keepG (e : Event) (h : TEntry) (T : List TEntry) : List TEntry := h :: T.take (keepLen e T)

def undoG (e : Event) (T : List TEntry) : List TEntry := T.drop (keepLen e T)

/-- `exec ℓ m` on a state whose LP `ℓ` has the history `h :: T` (cf. `TW.execResult`): the new entry is
processed at step `now`, what it schedules is created at step `now`; the undone entries are re-queued with
their creation steps, the anti-messages carry the steps of the undone invocations -/
def execResult (M : SimModel σ) (s : TWGState) (ℓ : Nat) (m : TMsg) (h : TEntry) (T : List TEntry) :
    TWGState :=
  { past    := upd s.past ℓ (keepG m.ev h T ++ [{ ev := m.ev, cr := m.cr, pr := s.now }])
    pending := s.pending.erase m ++ (undoG m.ev T).map TEntry.msg ++
                 (M.handler ℓ (lpState M ℓ (evs (keepG m.ev h T))) m.ev).2.map
                   (fun o => { ev := o, cr := s.now })
    antis   := s.antis ++ toutsFrom M ℓ (lpState M ℓ (evs (keepG m.ev h T))) (undoG m.ev T)
    now     := s.now + 1 }

def annihilateResult (s : TWGState) (m : TMsg) : TWGState :=
  { s with pending := s.pending.erase m, antis := s.antis.erase m }

/-- `antiRollback ℓ o` on a state whose LP `ℓ` has the history `K ++ o :: U` (cf. `TW.antiRollbackResult`) -/
def antiRollbackResult (M : SimModel σ) (s : TWGState) (ℓ : Nat) (o : TEntry) (K U : List TEntry) :
    TWGState :=
  { s with
    past    := upd s.past ℓ K
    pending := s.pending ++ U.map TEntry.msg
    antis   := s.antis.erase o.msg ++ toutsFrom M ℓ (lpState M ℓ (evs K)) (o :: U) }

inductive Step (M : SimModel σ) : TWGState → TWGState → Prop
  | exec (s : TWGState) (ℓ : Nat) (m : TMsg) (h : TEntry) (T : List TEntry)
      (hmem : m ∈ s.pending) (hdest : m.ev.dest = ℓ) (hℓ : ℓ < M.nLps) (htype : m.ev.type < LP_INIT)
      (hpast : s.past ℓ = h :: T) :
      Step M s (execResult M s ℓ m h T)
  | annihilate (s : TWGState) (m : TMsg) (hp : m ∈ s.pending) (ha : m ∈ s.antis) :
      Step M s (annihilateResult s m)
  /-- the anti-message of the processed entry `o` itself (same content, same creation step) -/
  | antiRollback (s : TWGState) (ℓ : Nat) (o : TEntry) (K U : List TEntry)
      (ha : o.msg ∈ s.antis) (hpast : s.past ℓ = K ++ o :: U) (hK : K ≠ []) :
      Step M s (antiRollbackResult M s ℓ o K U)

inductive Reachable (M : SimModel σ) : TWGState → Prop
  | init : Reachable M (init M)
  | step {s s' : TWGState} : Reachable M s → Step M s s' → Reachable M s'

/-- erase the ghost fields: the state of the content-level machine -/
def proj (s : TWGState) : TWState :=
  { past := fun ℓ => evs (s.past ℓ), pending := s.pending.map TMsg.ev, antis := s.antis.map TMsg.ev }

/-! ### Executable step functions -/

def exec? (M : SimModel σ) (s : TWGState) (ℓ : Nat) (m : TMsg) : Option TWGState :=
  if m ∈ s.pending ∧ m.ev.dest = ℓ ∧ ℓ < M.nLps ∧ m.ev.type < LP_INIT then
    match s.past ℓ with
    | [] => none
    | h :: T => some (execResult M s ℓ m h T)
  else none

def annihilate? (s : TWGState) (m : TMsg) : Option TWGState :=
  if m ∈ s.pending ∧ m ∈ s.antis then some (annihilateResult s m) else none

def antiRollback? (M : SimModel σ) (s : TWGState) (ℓ i : Nat) : Option TWGState :=
  match (s.past ℓ)[i]? with
  | none => none
  | some o =>
    if 0 < i ∧ o.msg ∈ s.antis then
      some (antiRollbackResult M s ℓ o ((s.past ℓ).take i) ((s.past ℓ).drop (i + 1)))
    else none

/-- the actions, as data (a message is named by content and creation step) -/
inductive Action where
  | exec (ℓ : Nat) (e : Event) (cr : Nat)
  | annihilate (e : Event) (cr : Nat)
  | antiRollback (ℓ i : Nat)
deriving Repr, DecidableEq

def step? (M : SimModel σ) (s : TWGState) : Action → Option TWGState
  | .exec ℓ e c => exec? M s ℓ { ev := e, cr := c }
  | .annihilate e c => annihilate? s { ev := e, cr := c }
  | .antiRollback ℓ i => antiRollback? M s ℓ i

def run? (M : SimModel σ) : TWGState → List Action → Option TWGState
  | s, [] => some s
  | s, a :: as => match step? M s a with
    | none => none
    | some s' => run? M s' as

/-- a lower bound of the time stamps of everything pending and of all anti-messages -/
def lowerBound (s : TWGState) (g : Nat) : Bool :=
  s.pending.all (fun x => decide (g ≤ x.ev.t)) && s.antis.all (fun x => decide (g ≤ x.ev.t))

end TWG
end RootSim
