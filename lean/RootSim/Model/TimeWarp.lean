import RootSim.Model.Spec
/-!
# An abstract, content-level, GLOBAL Time Warp machine (the glue "E" of C01 / C02 / C03 / C09)

`Model/Spec.lean` states what must be known about the optimistic runtime at a GVT value (`Spec.Hist`);
`Props/PrefixUnique.lean` proves that every global history that satisfies `Spec.Hist` agrees, below
the GVT, with every sequential run. This file supplies the missing transition system: the states the
optimistic runtime can reach, at the level of event CONTENTS (no pointers, no flags, no queues, no
threads, no MPI): what every LP has processed and not undone, which positive messages exist and are
not processed (queued, buffered, in flight), and which anti-messages exist and have not met their
message yet. `Props/C01Glue.lean` proves that every reachable state satisfies `Spec.Hist`.

The three actions mirror `process_msg` of `src/lp/process.c`:

* `exec ℓ e` — the forward path of `process_msg` (flags without `MSG_FLAG_ANTI`): straggler test,
  `handle_straggler_msg` = `match_straggler_msg` + `do_rollback` (`send_anti_messages`: every event
  scheduled by an undone invocation gets an anti-message — remote `mpi_remote_anti_msg_send`, local
  `MSG_FLAG_ANTI` on the shared message —, every undone message whose flags do not carry
  `MSG_FLAG_ANTI` is re-inserted in the queue; `model_allocator_checkpoint_restore` +
  `silent_execution` re-establish the LP state after the kept messages, which at content level is
  `Spec.lpState M ℓ K`), then `common_msg_process` and `array_push(p_msgs, msg)`.
* `annihilate o` — a positive message and its anti-message meet before the message is processed:
  `handle_anti_msg` with `last_flags == MSG_FLAG_ANTI` (local message flagged before it was
  extracted), a remote anti-message found in the queue … , and `check_early_anti_messages` (the
  anti-message arrived first).
* `antiRollback ℓ o` — `handle_anti_msg` with `last_flags == MSG_FLAG_ANTI | MSG_FLAG_PROCESSED`
  (`match_anti_msg` + `do_rollback`) and `handle_remote_anti_msg`: the cancelled message has been
  processed; it and everything after it is undone, it is freed (NOT re-queued), the later ones are
  re-queued, anti-messages go out for everything the undone invocations scheduled.

Deliberate abstractions (all on the safe side: the machine has MORE behaviours than the code):
messages are identified by content (the code identifies them by pointer / `(m_id, m_seq)`), so an
anti-message may meet ANY message of equal content; the scheduler may pick ANY pending message (the
code picks the queue minimum of a thread); there is no GVT, fossil collection or termination (the
history is kept whole; `g` enters the theorems only as a lower bound of what is pending). The
`LP_INIT` entry of a history is never undone (in the code `match_straggler_msg` returns 0 only when
the whole array has been scanned; under strict causality no message is before `LP_INIT`).
-/
namespace RootSim

/-- content-level global state of the optimistic runtime -/
structure TWState where
  /-- per LP: the `LP_INIT` event (`Spec.initEv ℓ`) first, then the processed, not-undone events in
  processing order (the non-"sent" entries of `p_msgs`) -/
  past    : Nat → List Event
  /-- bag of positive messages that exist and are not processed (queued, buffered, in flight) -/
  pending : List Event
  /-- bag of anti-messages that exist and have not met their message yet -/
  antis   : List Event

namespace TW
open RootSim.Spec

variable {σ : Type}

/-- the per-LP table after `process_lp_init` -/
def initPast (M : SimModel σ) : Nat → List Event := fun ℓ => if ℓ < M.nLps then [initEv ℓ] else []

/-- initial state: every LP has processed its `LP_INIT` event (`process_lp_init`), what these
invocations scheduled is pending, there are no anti-messages -/
def init (M : SimModel σ) : TWState :=
  { past := initPast M, pending := outsAll M (initPast M), antis := [] }

/-- `match_straggler_msg` on the processed entries after `LP_INIT`: split `l` into (kept, undone) where
`undone` is the maximal SUFFIX of `l` all of whose entries are after the straggler `e`
(`msg_is_before(s_msg, msg)`); the backward scan stops at the first entry that is not after `e`. -/
def splitUndo (e : Event) : List Event → List Event × List Event
  | [] => ([], [])
  | x :: l =>
    if (splitUndo e l).1.isEmpty && Event.before e x then ([], x :: (splitUndo e l).2)
    else (x :: (splitUndo e l).1, (splitUndo e l).2)

/-- the kept part of the history `h :: T` of an LP that receives `e` -/
def keepOf (e h : Event) (T : List Event) : List Event := h :: (splitUndo e T).1

/-- the undone part -/
def undoOf (e : Event) (T : List Event) : List Event := (splitUndo e T).2

/-- `exec ℓ e` on a state whose LP `ℓ` has the history `h :: T` -/
def execResult (M : SimModel σ) (s : TWState) (ℓ : Nat) (e h : Event) (T : List Event) : TWState :=
  { past    := upd s.past ℓ (keepOf e h T ++ [e])
    pending := s.pending.erase e ++ undoOf e T ++ (M.handler ℓ (lpState M ℓ (keepOf e h T)) e).2
    antis   := s.antis ++ outsFrom M ℓ (lpState M ℓ (keepOf e h T)) (undoOf e T) }

/-- `annihilate o` -/
def annihilateResult (s : TWState) (o : Event) : TWState :=
  { s with pending := s.pending.erase o, antis := s.antis.erase o }

/-- `antiRollback ℓ o` on a state whose LP `ℓ` has the history `K ++ o :: U` -/
def antiRollbackResult (M : SimModel σ) (s : TWState) (ℓ : Nat) (o : Event) (K U : List Event) : TWState :=
  { past    := upd s.past ℓ K
    pending := s.pending ++ U
    antis   := s.antis.erase o ++ outsFrom M ℓ (lpState M ℓ K) (o :: U) }

/-- one action of the optimistic runtime -/
inductive Step (M : SimModel σ) : TWState → TWState → Prop
  /-- LP `ℓ` extracts the pending message `e` and processes it, after rolling back if it is a straggler -/
  | exec (s : TWState) (ℓ : Nat) (e h : Event) (T : List Event)
      (hmem : e ∈ s.pending) (hdest : e.dest = ℓ) (hℓ : ℓ < M.nLps) (htype : e.type < LP_INIT)
      (hpast : s.past ℓ = h :: T) :
      Step M s (execResult M s ℓ e h T)
  /-- a message is cancelled before being processed -/
  | annihilate (s : TWState) (o : Event) (hp : o ∈ s.pending) (ha : o ∈ s.antis) :
      Step M s (annihilateResult s o)
  /-- an anti-message meets a processed message (any occurrence of equal content, not the `LP_INIT` head) -/
  | antiRollback (s : TWState) (ℓ : Nat) (o : Event) (K U : List Event)
      (ha : o ∈ s.antis) (hpast : s.past ℓ = K ++ o :: U) (hK : K ≠ []) :
      Step M s (antiRollbackResult M s ℓ o K U)

/-- the states the optimistic runtime can reach (every scheduling, every interleaving) -/
inductive Reachable (M : SimModel σ) : TWState → Prop
  | init : Reachable M (init M)
  | step {s s' : TWState} : Reachable M s → Step M s s' → Reachable M s'

/-! ### Executable step functions (for the driver and the non-vacuity examples) -/

/-- `exec ℓ e`; `none` when the action is not enabled -/
def exec? (M : SimModel σ) (s : TWState) (ℓ : Nat) (e : Event) : Option TWState :=
  if e ∈ s.pending ∧ e.dest = ℓ ∧ ℓ < M.nLps ∧ e.type < LP_INIT then
    match s.past ℓ with
    | [] => none
    | h :: T => some (execResult M s ℓ e h T)
  else none

/-- `annihilate o` -/
def annihilate? (s : TWState) (o : Event) : Option TWState :=
  if o ∈ s.pending ∧ o ∈ s.antis then some (annihilateResult s o) else none

/-- `antiRollback ℓ` of the entry at position `i ≥ 1` of LP `ℓ`'s history (the occurrence is chosen by
position; its content must be the content of an existing anti-message) -/
def antiRollback? (M : SimModel σ) (s : TWState) (ℓ i : Nat) : Option TWState :=
  match (s.past ℓ)[i]? with
  | none => none
  | some o =>
    if 0 < i ∧ o ∈ s.antis then
      some (antiRollbackResult M s ℓ o ((s.past ℓ).take i) ((s.past ℓ).drop (i + 1)))
    else none

/-- the actions, as data -/
inductive Action where
  | exec (ℓ : Nat) (e : Event)
  | annihilate (o : Event)
  | antiRollback (ℓ i : Nat)
deriving Repr, DecidableEq

def step? (M : SimModel σ) (s : TWState) : Action → Option TWState
  | .exec ℓ e => exec? M s ℓ e
  | .annihilate o => annihilate? s o
  | .antiRollback ℓ i => antiRollback? M s ℓ i

/-- replay a trace of actions; `none` as soon as one is not enabled -/
def run? (M : SimModel σ) : TWState → List Action → Option TWState
  | s, [] => some s
  | s, a :: as => match step? M s a with
    | none => none
    | some s' => run? M s' as

/-- a lower bound `g` of the time stamps of everything pending and of all anti-messages
(what a GVT value is for this machine) -/
def lowerBound (s : TWState) (g : Nat) : Bool :=
  s.pending.all (fun x => decide (g ≤ x.t)) && s.antis.all (fun x => decide (g ≤ x.t))

end TW
end RootSim
