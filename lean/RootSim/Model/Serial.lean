import RootSim.Model.SeqSpec
import RootSim.Model.Heap
/-!
Model of the serial runtime `src/serial/serial.c`, step by step, on the verbatim heap of `Model/Heap.lean`
with the comparator `msg_is_before` (`isBefore`).

* `serialInit`  — `serial_simulation_init`: for each LP in order: pack an `LP_INIT` message at `t = 0.0`,
  `heap_insert` it, dispatch THAT message (`common_msg_process(lp, msg)`), then `heap_extract` the ROOT and
  free it.  The root is the `LP_INIT` message only if nothing scheduled so far is before it.
* `serialMain`  — `serial_simulation_run`: while the queue is not empty: dispatch `heap_min(queue)`;
  termination bookkeeping (`termination_t < 0 && committed(...)`, `--to_terminate`, `break` at 0); timer
  oracle (`break` iff `dest_t >= termination_time`); then `heap_extract` the ROOT and free it.  The root is
  the dispatched message only if the handler scheduled nothing that is before it (contract V2).
* `ScheduleNewEvent_serial` — `scheduleAll`: `msg_allocator_pack`, `raw_flags = 0`, `heap_insert`
  (the `NDEBUG` build: no "message in the PAST" abort).
* `serial_simulation_fini` — `LP_FINI` for every LP.

Every allocated message gets a fresh ordinal in `mSeq` (a field the order ignores and the serial runtime never
reads): it plays the role of the pointer identity.  If `heap_extract` returns a message other than the one
just dispatched the run ends with `Outcome.wrongExtract` (in C: the wrong message is freed and the dispatched
one stays queued and is dispatched again) — an explicit error outcome.

`global_config.termination_time` as used by serial.c (i.e. after `init.c` replaced `0` by `SIMTIME_MAX`)
is given by its key `termT`; `timer k` is the wall-clock test of iteration `k`.
-/
namespace RootSim
open RootSim.Heap

/-- `msg_allocator_pack(dest, t, type, payload, size); msg->raw_flags = 0;` with allocation ordinal `k` -/
def packMsg (e : Event) (k : Nat) : Msg := { e.toMsg with mSeq := k }

structure SerialSt (σ : Type) where
  /-- `queue` -/
  queue       : Array Msg
  /-- `lps[i].state_pointer` (the model state behind it) -/
  states      : List σ
  /-- `lps[i].termination_t >= 0` -/
  ended       : List Bool
  /-- `to_terminate` -/
  toTerminate : Nat
  /-- number of messages allocated so far -/
  nextSeq     : Nat
  /-- dispatcher invocations so far, latest first -/
  traceRev    : List Event

/-- the `ScheduleNewEvent_serial` calls of one handler invocation, in call order -/
def scheduleAll (q : Array Msg) (k : Nat) : List Event → Array Msg × Nat
  | [] => (q, k)
  | o :: os => scheduleAll (heapInsert isBefore q (packMsg o k)).1 (k + 1) os

/-- one iteration of the `for` loop of `serial_simulation_init` -/
def serialInitLp {σ : Type} (M : SimModel σ) (S : SerialSt σ) (lp : Nat) : Except Outcome (SerialSt σ) :=
  let msg := packMsg (initEvent lp) S.nextSeq
  let q0 := (heapInsert isBefore S.queue msg).1
  -- common_msg_process(lp, msg): state_pointer is NULL, i.e. the LP's initial state
  let r := M.handler lp (M.init lp) msg.toEvent
  let sch := scheduleAll q0 (S.nextSeq + 1) r.2
  -- msg_allocator_free(heap_extract(queue, msg_is_before))
  match heapExtract isBefore sch.1 with
  | none => .error .emptyExtract
  | some (x, q2) =>
    if x.mSeq = msg.mSeq then
      .ok { S with queue := q2, states := S.states.set lp r.1, nextSeq := sch.2,
                   traceRev := msg.toEvent :: S.traceRev }
    else .error (.wrongExtract msg.mSeq x.mSeq)

def serialInitLoop {σ : Type} (M : SimModel σ) : List Nat → SerialSt σ → Except (SerialSt σ × Outcome) (SerialSt σ)
  | [], S => .ok S
  | lp :: rest, S =>
    match serialInitLp M S lp with
    | .ok S' => serialInitLoop M rest S'
    | .error o => .error (S, o)

/-- state at the entry of `serial_simulation_init`'s loop -/
def serialSt0 {σ : Type} (M : SimModel σ) : SerialSt σ :=
  { queue := #[], states := (List.range M.nLps).map M.init, ended := List.replicate M.nLps false,
    toTerminate := M.nLps, nextSeq := 0, traceRev := [] }

/-- `serial_simulation_run`: `fuel` bounds the number of iterations of the executable model, `k` is the
iteration number (index into the timer oracle) -/
def serialMain {σ : Type} (M : SimModel σ) (termT : Nat) (timer : Nat → Bool) :
    Nat → Nat → SerialSt σ → SerialSt σ × Outcome
  | 0, _, S => (S, .outOfFuel)
  | fuel + 1, k, S =>
    -- while(!heap_is_empty(queue)) { msg = heap_min(queue);
    match heapMin S.queue with
    | none => (S, .finished)
    | some msg =>
      -- lp = &lps[msg->dest]
      match S.states[msg.dest]?, S.ended[msg.dest]? with
      | some s, some b =>
        -- common_msg_process(lp, msg)
        let e := msg.toEvent
        let r := M.handler msg.dest s e
        let sch := scheduleAll S.queue S.nextSeq r.2
        let states1 := S.states.set msg.dest r.1
        -- if(lp->termination_t < 0 && committed(msg->dest, lp->state_pointer))
        let newly := !b && M.canEnd msg.dest r.1
        let ended1 := if newly then S.ended.set msg.dest true else S.ended
        let left1 := if newly then S.toTerminate - 1 else S.toTerminate
        let S1 : SerialSt σ :=
          { queue := sch.1, states := states1, ended := ended1, toTerminate := left1, nextSeq := sch.2,
            traceRev := e :: S.traceRev }
        -- if(!--to_terminate) break;
        if newly && left1 == 0 then (S1, .finished)
        -- if(gvt_period <= timer_value(last_vt)) { if(msg->dest_t >= termination_time) break; ... }
        else if timer k && decide (termT ≤ msg.destT) then (S1, .finished)
        else
          -- msg_allocator_free(heap_extract(queue, msg_is_before));
          match heapExtract isBefore sch.1 with
          | none => (S1, .emptyExtract)
          | some (x, q2) =>
            if x.mSeq = msg.mSeq then serialMain M termT timer fuel (k + 1) { S1 with queue := q2 }
            else (S1, .wrongExtract msg.mSeq x.mSeq)
      | _, _ => (S, .badDest msg.dest)

/-- `serial_simulation()`: init, run, fini.  Returns every dispatcher invocation and the final LP states. -/
def serialRun {σ : Type} (M : SimModel σ) (termT : Nat) (timer : Nat → Bool) (fuel : Nat) : RunResult σ :=
  match serialInitLoop M (List.range M.nLps) (serialSt0 M) with
  | .error (S, o) => { trace := S.traceRev.reverse, states := S.states, outcome := o }
  | .ok S0 =>
    match serialMain M termT timer fuel 0 S0 with
    | (S, .finished) =>
      { trace := S.traceRev.reverse ++ finiTrace M, states := finiStates M S.states, outcome := .finished }
    | (S, o) => { trace := S.traceRev.reverse, states := S.states, outcome := o }

end RootSim
