/-
Model of the topology library `src/lib/topology/topology.c` (public API in `src/ROOT-Sim.h`).

Conventions
* `lp_id_t` values are natural numbers `< 2^64`; `uint32_t`/`unsigned` arithmetic is written out with
  `% U32`, `uint64_t` arithmetic with `% U64`, exactly where the C code wraps.
* A *fixed-direction* neighbour computation returns `Option Nat`: `none` is `INVALID_DIRECTION`
  (`UINT64_MAX`), `some r` the region id `r`.  `enc` maps back to the `lp_id_t` value, which is what
  `IsNeighbor` compares with `== to`.
* `GetReceiver` returns a `Recv`: `.invalid` (`INVALID_DIRECTION`), `.region r`, or `.undef`.  `.undef`
  is *not* a value of the C code: it marks the inputs on which this model does not define the behaviour
  (the list of random draws handed to the model ran out, a drawn index lies outside the direction array
  (out-of-bounds access in C), the adjacency array is indexed out of bounds, or the direction array
  contains `DIRECTION_RANDOM` (unbounded recursion in C)).  No theorem is true "because of" `.undef`:
  the theorems that promise a region state hypotheses under which `.undef` is impossible.
* Randomness is an explicit input `rin : List Nat` (the random source is property C18's business):
  - hexagon/square/torus: the values returned by the successive `RandomRange(i, n-1)` calls of the
    Fisher-Yates pass in `get_random_neighbor` (`n-1` values);
  - bidring: one value, non-zero iff `Random() < 0.5`;
  - star: one value, the result of `RandomRange(1, regions-1)` converted to `lp_id_t`;
  - mesh: the successive values of `(lp_id_t)((double)regions * Random())` of the retry loop;
  - graph: one value per loop iteration of `get_neighbor_graph`, non-zero iff `rand < cumulative`
    held in that iteration (abstract Boolean outcome per comparison; link probabilities themselves
    are therefore not part of the model, every theorem holds for every outcome sequence).
* The file-scope arrays `directions_hexagon` / `directions_square_torus`, which the original
  `get_random_neighbor` permutes in place, are explicit state (`Arrays`).
* Three defects of the pinned tree have a proposed fix each (`repo_patches/topology-*.diff`).  Both
  versions are modelled: `countDirectionsOrig` / `countDirections`, and `getReceiverV starFix shufFix`
  with `getReceiverOrig = getReceiverV false false`, `getReceiver = getReceiverV true true`.
-/
namespace RootSim.Topo

/-- 2^32 (literal, so that `omega`/`decide` see a numeral) -/
scoped notation "U32" => (4294967296 : Nat)
/-- 2^64 -/
scoped notation "U64" => (18446744073709551616 : Nat)
/-- `INVALID_DIRECTION` = `UINT64_MAX` -/
scoped notation "INVALID" => (18446744073709551615 : Nat)

/-- `enum topology_geometry` (values 1..8 in `ROOT-Sim.h`) -/
inductive Geom where
  | hexagon | square | torus | ring | bidring | star | fcmesh | graph
deriving DecidableEq, Repr

/-- the enum value → geometry; everything else is the `default:` branch of `vInitializeTopology` -/
def Geom.ofNat? : Nat → Option Geom
  | 1 => some .hexagon | 2 => some .square | 3 => some .torus | 4 => some .ring
  | 5 => some .bidring | 6 => some .star | 7 => some .fcmesh | 8 => some .graph
  | _ => none

def Geom.toNat : Geom → Nat
  | .hexagon => 1 | .square => 2 | .torus => 3 | .ring => 4
  | .bidring => 5 | .star => 6 | .fcmesh => 7 | .graph => 8

/-! `enum topology_direction` -/
scoped notation "dE" => (0 : Nat)
scoped notation "dW" => (1 : Nat)
scoped notation "dN" => (2 : Nat)
scoped notation "dS" => (3 : Nat)
scoped notation "dNE" => (4 : Nat)
scoped notation "dSW" => (5 : Nat)
scoped notation "dNW" => (6 : Nat)
scoped notation "dSE" => (7 : Nat)
scoped notation "dRANDOM" => (8 : Nat)

/-- result of `GetReceiver` (see the header comment for `.undef`) -/
inductive Recv where
  | invalid
  | region (r : Nat)
  | undef
deriving DecidableEq, Repr

def Recv.ofOption : Option Nat → Recv
  | none => .invalid
  | some r => .region r

/-- the `lp_id_t` value of a fixed-direction result -/
def enc : Option Nat → Nat
  | none => INVALID
  | some r => r

/-- `struct topology`; `adj` = the adjacency lists (neighbour ids in list order), graph only -/
structure Topo where
  geom : Geom
  regions : Nat
  width : Nat
  height : Nat
  adj : List (List Nat)
deriving DecidableEq, Repr

/-- contents of the file-scope arrays `directions_hexagon`, `directions_square_torus` -/
structure Arrays where
  hex : List Nat
  sq : List Nat
deriving DecidableEq, Repr

/-- the static initialisers of the two arrays -/
abbrev hexDirs : List Nat := [dE, dW, dNE, dNW, dSE, dSW]
abbrev sqDirs : List Nat := [dE, dW, dN, dS]
def Arrays.init : Arrays := ⟨hexDirs, sqDirs⟩

/-- `vInitializeTopology(geometry, argc, ...)`: `args` are the variadic `unsigned` arguments
(`argc = args.length`); grids take `height` FIRST, then `width`; `regions = width * height` is
computed in `unsigned`.  `none` = the function returns `NULL`. -/
def initTopology (g : Nat) (args : List Nat) : Option Topo :=
  match Geom.ofNat? g with
  | none => none
  | some geom =>
    if geom = .hexagon ∨ geom = .square ∨ geom = .torus then
      match args with
      | [a, b] =>
        let height := a % U32
        let width := b % U32
        let regions := (width * height) % U32
        if regions = 0 then none
        else some { geom, regions, width, height, adj := [] }
      | _ => none
    else
      match args with
      | [a] =>
        let regions := a % U32
        if regions = 0 then none
        else some { geom, regions, width := 0, height := 0,
                    adj := if geom = .graph then List.replicate regions [] else [] }
      | _ => none

/-- `y = from / width; x = from - y * width;` with `from : uint64_t`, `x, y, width : uint32_t` -/
def coords (w src : Nat) : Nat × Nat :=
  let y := (src / w) % U32
  (((src + U64 - (y * w) % U32) % U64) % U32, y)

/-- `(x < width && y < height) ? y * width + x : INVALID_DIRECTION` (the product/sum is `uint32_t`) -/
def cell (w h x y : Nat) : Option Nat :=
  if x < w ∧ y < h then some ((y * w + x) % U32) else none

/-- `(y & 1U) - 1` as `unsigned` -/
def oddm1 (y : Nat) : Nat := (y % 2 + U32 - 1) % U32

/-- `get_neighbor_hexagon` for a direction other than `DIRECTION_RANDOM`
(the `switch`: six directions, `default: return INVALID_DIRECTION`) -/
def hexFixed (w h src d : Nat) : Option Nat :=
  let (x, y) := coords w src
  if d = dNW then cell w h ((x + oddm1 y) % U32) ((y + U32 - 1) % U32)
  else if d = dNE then cell w h ((x + y % 2) % U32) ((y + U32 - 1) % U32)
  else if d = dSW then cell w h ((x + oddm1 y) % U32) ((y + 1) % U32)
  else if d = dSE then cell w h ((x + y % 2) % U32) ((y + 1) % U32)
  else if d = dE then cell w h ((x + 1) % U32) y
  else if d = dW then cell w h ((x + U32 - 1) % U32) y
  else none

/-- `get_neighbor_square` for a direction other than `DIRECTION_RANDOM` -/
def sqFixed (w h src d : Nat) : Option Nat :=
  let (x, y) := coords w src
  if d = dN then cell w h x ((y + U32 - 1) % U32)
  else if d = dS then cell w h x ((y + 1) % U32)
  else if d = dE then cell w h ((x + 1) % U32) y
  else if d = dW then cell w h ((x + U32 - 1) % U32) y
  else none

/-- `get_neighbor_torus` for a direction other than `DIRECTION_RANDOM`
(`y += height - 1; y %= height;` … all in `uint32_t`; the result is not range-checked by the code) -/
def torFixed (w h src d : Nat) : Option Nat :=
  let (x, y) := coords w src
  if d = dN then some ((((y + (h + U32 - 1) % U32) % U32) % h * w + x) % U32)
  else if d = dS then some ((((y + 1) % U32) % h * w + x) % U32)
  else if d = dE then some ((y * w + ((x + 1) % U32) % w) % U32)
  else if d = dW then some ((y * w + ((x + (w + U32 - 1) % U32) % U32) % w) % U32)
  else none

/-- `t = a[j]; a[j] = a[i]; a[i] = t;` — `none` if an index is out of bounds -/
def swapAt (a : List Nat) (i j : Nat) : Option (List Nat) :=
  match a[i]?, a[j]? with
  | some ai, some aj => some ((a.set j ai).set i aj)
  | _, _ => none

/-- the loop `for(i = …; i < n - 1; i++) { j = RandomRange(i, n-1); swap }` of `get_random_neighbor`
with `k` iterations to go; consumes one draw per iteration -/
def shuffleLoop (a : List Nat) (i : Nat) : Nat → List Nat → Option (List Nat)
  | 0, _ => some a
  | _ + 1, [] => none
  | k + 1, j :: js =>
    match swapAt a i j with
    | none => none
    | some a' => shuffleLoop a' (i + 1) k js

/-- `if(n_directions > 1) for(i = 0; i < n_directions - 1; i++) …` -/
def shuffle (a : List Nat) (js : List Nat) : Option (List Nat) :=
  if a.length > 1 then shuffleLoop a 0 (a.length - 1) js else some a

/-- second loop of `get_random_neighbor`: first direction of the (shuffled) array whose receiver is not
`INVALID_DIRECTION`; `INVALID_DIRECTION` if there is none (the `assert` is compiled out) -/
def firstValid (fixed : Nat → Option Nat) : List Nat → Recv
  | [] => .invalid
  | d :: ds =>
    if d = dRANDOM then .undef
    else match fixed d with
      | some r => .region r
      | none => firstValid fixed ds

/-- `get_random_neighbor` as it is in the pinned tree: shuffles the file-scope array `arr` in place.
Returns the receiver and the new contents of the array. -/
def getRandomNeighborOrig (fixed : Nat → Option Nat) (arr js : List Nat) : Recv × List Nat :=
  match shuffle arr js with
  | none => (.undef, arr)
  | some arr' => (firstValid fixed arr', arr')

/-- `get_random_neighbor` after `repo_patches/topology-shuffle-local.diff`: the shuffle works on a
local copy of the (now `const`) array, whose contents are always the static initialiser `dirs`. -/
def getRandomNeighbor (fixed : Nat → Option Nat) (dirs js : List Nat) : Recv :=
  (getRandomNeighborOrig fixed dirs js).1

/-- dispatch of the `DIRECTION_RANDOM` case of the three grid functions -/
def gridRandom (shufFix : Bool) (fixed : Nat → Option Nat) (dirs arr js : List Nat) : Recv × List Nat :=
  if shufFix then (getRandomNeighbor fixed dirs js, arr) else getRandomNeighborOrig fixed arr js

/-- retry loop of `get_neighbor_mesh`: `do ret = regions * Random(); while(ret == from);` -/
def meshLoop (src : Nat) : List Nat → Recv
  | [] => .undef
  | c :: cs => if c = src then meshLoop src cs else .region c

/-- `get_neighbor_mesh` -/
def getNeighborMesh (regions src d : Nat) (rin : List Nat) : Recv :=
  if d ≠ dRANDOM then .invalid
  else if regions = 1 then .invalid
  else meshLoop src rin

/-- `get_neighbor_bidring` (`from + 1` and `from + regions - 1` are `uint64_t`) -/
def getNeighborBidring (regions src d : Nat) (rin : List Nat) : Recv :=
  let d' : Option Nat :=
    if d = dRANDOM then
      match rin with
      | [] => none
      | b :: _ => some (if b ≠ 0 then dE else dW)
    else some d
  match d' with
  | none => .undef
  | some d' =>
    if d' = dE then .region (((src + 1) % U64) % regions)
    else if d' = dW then .region (((src + regions + U64 - 1) % U64) % regions)
    else .invalid

/-- the fixed directions of `get_neighbor_bidring` as used by `IsNeighbor` -/
def bidFixed (regions src d : Nat) : Option Nat :=
  if d = dE then some (((src + 1) % U64) % regions)
  else if d = dW then some (((src + regions + U64 - 1) % U64) % regions)
  else none

/-- `get_neighbor_ring` -/
def ringFixed (regions src d : Nat) : Option Nat :=
  if d = dE ∨ d = dRANDOM then some (((src + 1) % U64) % regions) else none

/-- `get_neighbor_star`; `starFix` = with `repo_patches/topology-star-single.diff`
(`if(topology->regions == 1) return INVALID_DIRECTION;` before the draw) -/
def getNeighborStar (starFix : Bool) (regions src d : Nat) (rin : List Nat) : Recv :=
  if d ≠ dRANDOM then .invalid
  else if src = 0 then
    if starFix ∧ regions = 1 then .invalid
    else match rin with
      | [] => .undef
      | k :: _ => .region k
  else .region 0

/-- the `do … while(rand < cumulative && adj_node != NULL)` walk of `get_neighbor_graph` over the
adjacency list; `bs` = outcome of `rand < cumulative` per iteration; `adj_neighbor` is `unsigned` -/
def graphWalk : List Nat → List Nat → Recv
  | [], _ => .undef
  | _ :: _, [] => .undef
  | n :: rest, b :: bs =>
    if b ≠ 0 ∧ rest ≠ [] then graphWalk rest bs else .region (n % U32)

/-- `get_neighbor_graph` -/
def getNeighborGraph (adj : List (List Nat)) (src d : Nat) (rin : List Nat) : Recv :=
  if d ≠ dRANDOM then .invalid
  else match adj[src]? with
    | none => .undef
    | some l => if l.length = 0 then .invalid else graphWalk l rin

/-- `GetReceiver`, including the `from >= regions` guard and the per-geometry `switch`.
`st` = contents of the file-scope direction arrays before the call; the second component is
their contents after the call. -/
def getReceiverV (starFix shufFix : Bool) (T : Topo) (st : Arrays) (src d : Nat) (rin : List Nat) :
    Recv × Arrays :=
  if src ≥ T.regions then (.invalid, st)
  else match T.geom with
    | .hexagon =>
      if d = dRANDOM then
        let (r, a) := gridRandom shufFix (hexFixed T.width T.height src) hexDirs st.hex rin
        (r, { st with hex := a })
      else (.ofOption (hexFixed T.width T.height src d), st)
    | .square =>
      if d = dRANDOM then
        let (r, a) := gridRandom shufFix (sqFixed T.width T.height src) sqDirs st.sq rin
        (r, { st with sq := a })
      else (.ofOption (sqFixed T.width T.height src d), st)
    | .torus =>
      if d = dRANDOM then
        let (r, a) := gridRandom shufFix (torFixed T.width T.height src) sqDirs st.sq rin
        (r, { st with sq := a })
      else (.ofOption (torFixed T.width T.height src d), st)
    | .fcmesh => (getNeighborMesh T.regions src d rin, st)
    | .bidring => (getNeighborBidring T.regions src d rin, st)
    | .ring => (.ofOption (ringFixed T.regions src d), st)
    | .star => (getNeighborStar starFix T.regions src d rin, st)
    | .graph => (getNeighborGraph T.adj src d rin, st)

/-- the pinned tree -/
abbrev getReceiverOrig := getReceiverV false false
/-- the tree with `topology-star-single.diff` and `topology-shuffle-local.diff` applied -/
abbrev getReceiver := getReceiverV true true

/-- `uint64_t n; n -= k;` -/
def sub64 (n k : Nat) : Nat := (n + U64 - k % U64) % U64

/-- `CountDirections` of the pinned tree (closed formulas for hexagon and square).
`neighbors` is `lp_id_t`, `x`, `y`, `height - 1`, `width - 1`, `3 - 2 * (y & 1U)` are `uint32_t`. -/
def countDirectionsOrig (T : Topo) (src : Nat) : Nat :=
  match T.geom with
  | .fcmesh => sub64 T.regions 1
  | .hexagon =>
    let (x, y) := coords T.width src
    let n := 6
    let n := if y = 0 ∨ y = (T.height + U32 - 1) % U32 then sub64 n (if x = 0 then 1 else 2) else n
    let n := if x = 0 then sub64 n ((3 + U32 - 2 * (y % 2)) % U32) else n
    let n := if x = (T.width + U32 - 1) % U32 then sub64 n ((3 + U32 - 2 * (1 - y % 2)) % U32) else n
    n
  | .torus => 4
  | .square =>
    let (x, y) := coords T.width src
    let n := 4
    let n := if x = 0 ∨ x = (T.width + U32 - 1) % U32 then sub64 n 1 else n
    let n := if y = 0 ∨ y = (T.height + U32 - 1) % U32 then sub64 n 1 else n
    n
  | .bidring => 2
  | .star => if src = 0 then sub64 T.regions 1 else 1
  | .ring => 1
  | .graph => (T.adj[src]?.getD []).length -- `list_size(adjacency[from])`; out of bounds (UB) for from >= regions

/-- `CountDirections` after `repo_patches/topology-count-directions.diff`: hexagon and square count
the direction codes whose receiver is not `INVALID_DIRECTION` (same loops as `IsNeighbor`). -/
def countDirections (T : Topo) (src : Nat) : Nat :=
  match T.geom with
  | .hexagon => (List.range dRANDOM).countP (fun d => (hexFixed T.width T.height src d).isSome)
  | .square => (List.range dNE).countP (fun d => (sqFixed T.width T.height src d).isSome)
  | _ => countDirectionsOrig T src

/-- `IsNeighbor`; `to` is any `lp_id_t` value (the comparison is `get_neighbor_x(from, …, i) == to`, so
`to = INVALID_DIRECTION` "matches" an invalid direction — the code does that).  The loops run over the
direction codes `i < DIRECTION_RANDOM` (hexagon) resp. `i < DIRECTION_NE` (torus, square) and call the
per-geometry function directly, i.e. WITHOUT the `from < regions` guard of `GetReceiver`.
Graph: `adjacency[from]` with `from >= regions` is an out-of-bounds read in C (`assert` in debug
builds); the model answers `false` there and no theorem uses that case. -/
def isNeighbor (T : Topo) (src to : Nat) : Bool :=
  match T.geom with
  | .hexagon => (List.range dRANDOM).any (fun i => enc (hexFixed T.width T.height src i) == to)
  | .torus => (List.range dNE).any (fun i => enc (torFixed T.width T.height src i) == to)
  | .square => (List.range dNE).any (fun i => enc (sqFixed T.width T.height src i) == to)
  | .bidring => enc (bidFixed T.regions src dE) == to || enc (bidFixed T.regions src dW) == to
  | .ring => enc (ringFixed T.regions src dE) == to
  | .star => (src == 0 && to != 0 && decide (to < T.regions)) ||
             (src != 0 && to == 0 && decide (src < T.regions))
  | .fcmesh => decide (src < T.regions) && decide (to < T.regions)
  | .graph => (T.adj[src]?.getD []).contains to

/-- `AddTopologyLink(topology, from, to, probability)`; `probOk` = `0 <= probability <= 1`.
Returns the new topology and the Boolean result; `none` = `adjacency[from]` out of bounds (UB in an
NDEBUG build, `assert` otherwise).  `to >= regions` is NOT rejected by an NDEBUG build. -/
def addLink (T : Topo) (src to : Nat) (probOk : Bool) : Option (Topo × Bool) :=
  if T.geom ≠ .graph then some (T, false)
  else if !probOk then some (T, false)
  else match T.adj[src]? with
    | none => none
    | some l => some ({ T with adj := T.adj.set src (if to ∈ l then l else l ++ [to]) }, true)

/-- a sequence of `AddTopologyLink(topology, from, to, p)` calls with `0 <= p <= 1` -/
def addLinks (T : Topo) : List (Nat × Nat) → Option Topo
  | [] => some T
  | (s, t) :: ops =>
    match addLink T s t true with
    | none => none
    | some (T', _) => addLinks T' ops

/-- the fixed directions of a geometry (contents of the direction arrays; E / E,W for the rings) -/
def fixedDirs : Geom → List Nat
  | .hexagon => hexDirs
  | .square => sqDirs
  | .torus => sqDirs
  | .ring => [dE]
  | .bidring => [dE, dW]
  | _ => []

/-- receiver for a fixed direction of the geometries that have fixed directions -/
def recvFixed (T : Topo) (src d : Nat) : Option Nat :=
  match T.geom with
  | .hexagon => hexFixed T.width T.height src d
  | .square => sqFixed T.width T.height src d
  | .torus => torFixed T.width T.height src d
  | .ring => if d = dE then ringFixed T.regions src d else none
  | .bidring => bidFixed T.regions src d
  | _ => none

/-- `#{d fixed direction | GetReceiver(from, d) != INVALID_DIRECTION}` -/
def validDirs (T : Topo) (src : Nat) : Nat :=
  (fixedDirs T.geom).countP (fun d => (recvFixed T src d).isSome)

/-- what `vInitializeTopology` establishes when `width * height` does not overflow `unsigned`
(grids), plus, for graphs, what `AddTopologyLink` preserves when called within its contract
(`to < regions`) -/
def Topo.WFgeo (T : Topo) : Prop :=
  match T.geom with
  | .hexagon | .square | .torus => 1 ≤ T.width ∧ 1 ≤ T.height ∧ T.regions = T.width * T.height
  | .graph => T.adj.length = T.regions ∧ ∀ l ∈ T.adj, ∀ t ∈ l, t < T.regions
  | _ => True

def Topo.WF (T : Topo) : Prop := 1 ≤ T.regions ∧ T.regions < U32 ∧ T.WFgeo

instance (T : Topo) : Decidable T.WFgeo := by unfold Topo.WFgeo; split <;> infer_instance
instance (T : Topo) : Decidable T.WF := by unfold Topo.WF; infer_instance

/-- the direction arrays hold permutations of their static initialisers: an invariant of every state
reachable through the API (`C19.arrays_ok_preserved`) -/
def Arrays.OK (st : Arrays) : Prop := st.hex.Perm hexDirs ∧ st.sq.Perm sqDirs

/-- adjacency list of region `s` (`[]` outside the array; the theorems only use `s < regions`) -/
def Topo.nbrs (T : Topo) (s : Nat) : List Nat := T.adj[s]?.getD []

/-- contract of the random inputs for a `DIRECTION_RANDOM` query (property C18 supplies it):
enough draws, every `RandomRange(i, n-1)` below `n`, the star draw in `[1, regions-1]`
(resp. `RandomRange(1, 0) = 1` for the unpatched single-region star), every mesh candidate below
`regions` and one of them different from `from`, one comparison outcome per adjacency entry. -/
def RinOK (starFix : Bool) (T : Topo) (src : Nat) (rin : List Nat) : Prop :=
  match T.geom with
  | .hexagon => 5 ≤ rin.length ∧ ∀ j ∈ rin.take 5, j < 6
  | .square | .torus => 3 ≤ rin.length ∧ ∀ j ∈ rin.take 3, j < 4
  | .bidring => rin ≠ []
  | .ring => True
  | .star => src = 0 →
      if T.regions = 1 then starFix = true ∨ rin.head? = some 1
      else ∃ k, rin.head? = some k ∧ 1 ≤ k ∧ k < T.regions
  | .fcmesh => (∀ c ∈ rin, c < T.regions) ∧ (T.regions = 1 ∨ ∃ c ∈ rin, c ≠ src)
  | .graph => (T.adj[src]?.getD []).length ≤ rin.length

end RootSim.Topo
