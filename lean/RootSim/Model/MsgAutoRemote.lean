import RootSim.Model.MsgAuto
/-!
# The per-message automaton of REMOTE cancellation (C06)

A message whose destination LP lives on another rank exists in up to three buffers:

* `S` — the sender's buffer (`ScheduleNewEvent` → `mpi_remote_msg_send`), referenced by the sender's
  `p_msgs` with the "remote" tag; released by the sender's fossil collection / `process_lp_fini`, or —
  after a cancel (`mpi_remote_anti_msg_send` + `msg_allocator_free_at_gvt`) — by `msg_allocator_on_gvt`
  / `msg_allocator_fini`;
* `R` — the receiver's copy, allocated by `mpi_remote_msg_handle`; `raw_flags = id` (low two bits
  cleared by `gvt_remote_msg_receive`), then used exactly like a local message's flag word;
* `A` — the anti copy, allocated by `mpi_remote_msg_handle` when the (header-only) anti-message arrives;
  `raw_flags = id | MSG_FLAG_ANTI`.

`id ≥ 4` is a multiple of 4, so the flag word is `id + low` with `low < 4` in all reachable states; the
model keeps `low` (real `uint32_t` arithmetic on it) and the comparisons of the code become:
`prev & ANTI` = `low % 2`, `prev > 3` and `prev != 0` = true, `R.raw_flags == A.raw_flags` = `rLow = aLow`
(both carry the same id and `m_seq`; that NO OTHER message carries them is `Props/C06.lean: id_unique`).

Receiver-thread actions (`process_msg`, `handle_remote_anti_msg`, `check_early_anti_messages`):
`popR`/`flagR`/`forwardR`/`unprocessR`/`requeueR` as in the local automaton; `popA`, `flagA` (the
`fetch_add` on the anti copy, then the search of `p_msgs`: found → set ANTI on `R`, roll back (`rbA`),
free both; not found → `early_antis`); `earlyFree` (a later `R` matches the early anti: both freed).
Transport: `recvPos`, `recvAnti` (`mpi_remote_msg_handle` on ANY thread of the destination rank),
`drainPos`, `drainAnti` (`mpi_remote_msg_drain` at shutdown discards in-flight messages).

Environment hypotheses (provided by the GVT protocol, C04): `scommit` = GVT passed the send time — the
sender never cancels any more and the MPI transfer out of `S` has completed; `commit` = GVT passed
`dest_t` — nothing in flight / queued / in hand, no rollback across it any more.
-/
namespace RootSim.MsgAuto

/-- what the destination LP's thread is doing with `R` / `A` -/
inductive XPc | idle | handR | procR | earlyM | handA | rbA | freeRA
deriving DecidableEq, Repr

structure RState where
  sLife : Life := .fresh
  sref : Bool := false
  sAtGvt : Bool := false
  posFlight : Bool := false
  antiFlight : Bool := false
  rLife : Life := .fresh
  rLow : Nat := 0
  rq : Nat := 0
  rHist : Bool := false
  rpend : Bool := false
  aLife : Life := .fresh
  aLow : Nat := 0
  aq : Nat := 0
  aEarly : Bool := false
  pc : XPc := .idle
  scommitted : Bool := false
  committed : Bool := false
  down : Bool := false
  err : Bool := false
  -- ghost
  cancelled : Bool := false
  /-- the receiver has handled the anti copy (`flagA`) -/
  obs : Bool := false
  fwdAfterObs : Bool := false
  /-- `R` was in the receiver's history when the anti copy was handled -/
  hitHist : Bool := false
  unpAfterObs : Nat := 0
  /-- `R` was received / dropped by `mpi_remote_msg_drain` -/
  rDrained : Bool := false
deriving BEq, ReflBEq, LawfulBEq, Repr

inductive RAct
  | alloc | sendRemote | recvPos | recvAnti | drainPos | drainAnti
  | popR | flagR | forwardR | unprocessR | requeueR | earlyFree
  | popA | flagA | freeRA
  | antiRemote | scommit | commit | sFossilFree | sGvtFree | sFiniEntry | sFiniFree
  | fossilFreeR | shutdown | finiEntryR | queueFiniR | queueFiniA
deriving DecidableEq, Repr

def RAct.all : List RAct :=
  [.alloc, .sendRemote, .recvPos, .recvAnti, .drainPos, .drainAnti, .popR, .flagR, .forwardR, .unprocessR,
   .requeueR, .earlyFree, .popA, .flagA, .freeRA, .antiRemote, .scommit, .commit, .sFossilFree, .sGvtFree,
   .sFiniEntry, .sFiniFree, .fossilFreeR, .shutdown, .finiEntryR, .queueFiniR, .queueFiniA]

def RAct.isEnv : RAct → Bool
  | .alloc | .sendRemote | .antiRemote | .scommit | .commit | .shutdown | .unprocessR => true
  | _ => false

def lifeRelease (l : Life) : Life := if l = .live then .freed else .dfreed

def relS (s : RState) : RState := { s with sLife := lifeRelease s.sLife }
def relR (s : RState) : RState := { s with rLife := lifeRelease s.rLife }
def relA (s : RState) : RState := { s with aLife := lifeRelease s.aLife }
def touchS (s : RState) : RState := if s.sLife = .live then s else { s with err := true }
def touchR (s : RState) : RState := if s.rLife = .live then s else { s with err := true }
def touchA (s : RState) : RState := if s.aLife = .live then s else { s with err := true }

def rstep (s : RState) : RAct → Option RState
  | .alloc => if s.sLife = .fresh then some { s with sLife := .packed } else none
  | .sendRemote =>
    -- `mpi_remote_msg_send`: stamp id/seq, `MPI_Isend`, push the tagged pointer
    if s.sLife = .packed then some { s with sLife := .live, posFlight := true, sref := true } else none
  | .recvPos =>
    if s.posFlight ∧ ¬ s.down then
      some { s with posFlight := false, rLife := .live, rLow := 0, rq := s.rq + 1,
                    err := s.err || (s.rLife != .fresh) }
    else none
  | .recvAnti =>
    if s.antiFlight ∧ ¬ s.down then
      some { s with antiFlight := false, aLife := .live, aLow := ANTI, aq := s.aq + 1,
                    err := s.err || (s.aLife != .fresh) }
    else none
  | .drainPos => if s.posFlight ∧ s.down then some { s with posFlight := false, rDrained := true } else none
  | .drainAnti => if s.antiFlight ∧ s.down then some { s with antiFlight := false } else none
  | .popR =>
    if 0 < s.rq ∧ s.pc = .idle ∧ ¬ s.down then some { (touchR s) with rq := s.rq - 1, pc := .handR } else none
  | .flagR =>
    if s.pc = .handR then
      let prev := s.rLow
      let s1 := { (touchR s) with rLow := addFlags s.rLow PROCESSED }
      if prev % 2 = 1 then some { s1 with err := true, pc := .idle }  -- a queued positive copy never carries ANTI
      else if s.aEarly ∧ s.aLow = s1.rLow then
        -- `flags && lp->p.early_antis && check_early_anti_messages(...)`: matched
        some { s1 with pc := .earlyM }
      else some { s1 with pc := .procR, err := s1.err || (prev != 0) }
    else none
  | .earlyFree =>
    if s.pc = .earlyM then some { (relA (relR (touchA s))) with aEarly := false, pc := .idle } else none
  | .forwardR =>
    if s.pc = .procR then
      some { (touchR s) with pc := .idle, rHist := true, err := (touchR s).err || s.rHist,
                             fwdAfterObs := s.fwdAfterObs || s.obs }
    else none
  | .unprocessR =>
    if s.rHist ∧ ¬ s.committed ∧ ¬ s.down ∧ (s.pc = .idle ∨ s.pc = .rbA) then
      let prev := s.rLow
      some { (touchR s) with rLow := addFlags s.rLow (W32 - PROCESSED), rHist := false,
                             rpend := prev % 2 = 0,
                             pc := if s.pc = .rbA then .freeRA else s.pc,
                             unpAfterObs := if s.obs then sat2 s.unpAfterObs else s.unpAfterObs }
    else none
  | .requeueR => if s.rpend then some { (touchR s) with rpend := false, rq := s.rq + 1 } else none
  | .popA =>
    if 0 < s.aq ∧ s.pc = .idle ∧ ¬ s.down then some { (touchA s) with aq := s.aq - 1, pc := .handA } else none
  | .flagA =>
    if s.pc = .handA then
      let prev := s.aLow
      -- `fetch_add(PROCESSED)`, then `handle_remote_anti_msg`: `a_msg->raw_flags -= MSG_FLAG_ANTI`
      let a1 := addFlags (addFlags s.aLow PROCESSED) (W32 - ANTI)
      let s1 := { (touchA s) with aLow := a1, obs := true }
      if prev % 2 = 0 then some { s1 with err := true, pc := .idle }
      else if s.rHist ∧ s.rLife = .live ∧ s.rLow = a1 then
        -- found in `p_msgs`: `msg->raw_flags |= MSG_FLAG_ANTI; do_rollback(lp, i)`
        some { s1 with rLow := s.rLow ||| ANTI, pc := .rbA, hitHist := true }
      else
        -- "Sadly this is an early remote anti-message"
        some { s1 with aEarly := true, pc := .idle }
    else none
  | .freeRA => if s.pc = .freeRA then some { (relA (relR s)) with pc := .idle } else none
  | .antiRemote =>
    -- `mpi_remote_anti_msg_send(msg); msg_allocator_free_at_gvt(msg)`
    if s.sref ∧ ¬ s.scommitted ∧ ¬ s.down then
      some { (touchS s) with antiFlight := true, sref := false, sAtGvt := true, cancelled := true }
    else none
  | .scommit =>
    if s.sLife = .live ∧ ¬ s.posFlight ∧ ¬ s.antiFlight ∧ ¬ s.scommitted ∧ ¬ s.down then
      some { s with scommitted := true }
    else none
  | .commit =>
    if s.sLife ≠ .fresh ∧ s.sLife ≠ .packed ∧ ¬ s.posFlight ∧ ¬ s.antiFlight ∧ s.rq = 0 ∧ s.aq = 0 ∧
        s.pc = .idle ∧ ¬ s.rpend ∧ ¬ s.committed ∧ ¬ s.down then
      some { s with committed := true, scommitted := true }
    else none
  | .sFossilFree => if s.sref ∧ s.scommitted ∧ ¬ s.down then some { (relS s) with sref := false } else none
  | .sGvtFree => if s.sAtGvt ∧ s.committed ∧ ¬ s.down then some { (relS s) with sAtGvt := false } else none
  -- shutdown: `gvt_msg_drain` (which empties the MPI queues) precedes `lp_fini` / `msg_allocator_fini`
  | .sFiniEntry => if s.sref ∧ s.down ∧ ¬ s.posFlight ∧ ¬ s.antiFlight then some { (relS s) with sref := false } else none
  | .sFiniFree => if s.sAtGvt ∧ s.down ∧ ¬ s.posFlight ∧ ¬ s.antiFlight then some { (relS s) with sAtGvt := false } else none
  | .fossilFreeR =>
    if s.rHist ∧ s.committed ∧ s.pc = .idle ∧ ¬ s.down then some { (relR s) with rHist := false } else none
  | .shutdown =>
    if (s.sLife = .live ∨ s.sLife = .freed) ∧ s.pc = .idle ∧ ¬ s.rpend ∧ ¬ s.down then some { s with down := true }
    else none
  | .finiEntryR =>
    if s.down ∧ s.rHist then
      let s1 := { (touchR s) with rHist := false }
      some (if s.rLow % 2 = 0 then relR s1 else s1)
    else none
  | .queueFiniR => if s.down ∧ 0 < s.rq ∧ ¬ s.rHist then some { (relR s) with rq := s.rq - 1 } else none
  | .queueFiniA => if s.down ∧ 0 < s.aq then some { (relA s) with aq := s.aq - 1 } else none

def rrun (s : RState) : List RAct → Option RState
  | [] => some s
  | a :: as => match rstep s a with
    | some s' => rrun s' as
    | none => none

def RState.init : RState := {}

def rsuccs (s : RState) : List RState := RAct.all.filterMap (rstep s)

def XPc.code : XPc → Nat
  | .idle => 0 | .handR => 1 | .procR => 2 | .earlyM => 3 | .handA => 4 | .rbA => 5 | .freeRA => 6

def RState.code (s : RState) : Nat :=
  pack [s.sLife.code, b2n s.sref, b2n s.sAtGvt, b2n s.posFlight, b2n s.antiFlight, s.rLife.code, s.rLow, s.rq,
        b2n s.rHist, b2n s.rpend, s.aLife.code, s.aLow, s.aq, b2n s.aEarly, s.pc.code, b2n s.scommitted,
        b2n s.committed, b2n s.down, b2n s.err, b2n s.cancelled, b2n s.obs, b2n s.fwdAfterObs, b2n s.hitHist,
        s.unpAfterObs, b2n s.rDrained]

def XPc.ofCode : Nat → XPc
  | 0 => .idle | 1 => .handR | 2 => .procR | 3 => .earlyM | 4 => .handA | 5 => .rbA | _ => .freeRA

def RState.decode (n : Nat) : RState :=
  { sLife := .ofCode (dig n 24), sref := dig n 23 == 1, sAtGvt := dig n 22 == 1, posFlight := dig n 21 == 1,
    antiFlight := dig n 20 == 1, rLife := .ofCode (dig n 19), rLow := dig n 18, rq := dig n 17,
    rHist := dig n 16 == 1, rpend := dig n 15 == 1, aLife := .ofCode (dig n 14), aLow := dig n 13, aq := dig n 12,
    aEarly := dig n 11 == 1, pc := .ofCode (dig n 10), scommitted := dig n 9 == 1, committed := dig n 8 == 1,
    down := dig n 7 == 1, err := dig n 6 == 1, cancelled := dig n 5 == 1, obs := dig n 4 == 1,
    fwdAfterObs := dig n 3 == 1, hitHist := dig n 2 == 1, unpAfterObs := dig n 1, rDrained := dig n 0 == 1 }

/-! ## Id stamping (`gvt/gvt.h`) -/

@[reducible] def MAX_THREADS_EXP : Nat := 12

/-- `raw_flags` written by `gvt_remote_msg_send`: `(nid << (MAX_THREADS_EXP + 2)) | ((rid + 1) << 2) | phase` -/
def stampFlags (nid rid phase : Nat) : Nat :=
  ((nid <<< (MAX_THREADS_EXP + 2)) ||| ((rid + 1) <<< 2) ||| phase) % W32

/-- `m_seq` written by `gvt_remote_msg_send` when the (32-bit) counter holds `ctr`: `(ctr << 1) | phase` -/
def stampSeq (ctr phase : Nat) : Nat := (((ctr % W32) <<< 1) % W32) ||| phase

/-- the id the receiver matches on: `raw_flags & ~3` (`gvt_remote_msg_receive`) -/
def recvId (raw : Nat) : Nat := raw - raw % 4

/-- one sending thread's GVT counters `remote_msg_seq[phase][dest]` as unbounded naturals
(the C variable holds the value modulo `2^32`) -/
structure SendCtr where
  seq : Nat → Nat → Nat      -- phase → dest → number of sends (messages and anti-messages) so far

/-- operations of a sending thread that touch the counter of `(phase, dest)` -/
inductive SendOp
  | msg (phase dest : Nat)    -- `gvt_remote_msg_send`: uses the counter value, then increments
  | anti (phase dest : Nat)   -- `gvt_remote_anti_msg_send`: increments only

def SendCtr.bump (c : SendCtr) (ph d : Nat) : SendCtr :=
  { seq := fun p x => if p = ph ∧ x = d then c.seq p x + 1 else c.seq p x }

/-- run a thread's send operations; the log records for every positive message
`(dest, phase, counter value used)` -/
def sendLog (c : SendCtr) : List SendOp → List (Nat × Nat × Nat)
  | [] => []
  | .msg ph d :: ops => (d, ph, c.seq ph d) :: sendLog (c.bump ph d) ops
  | .anti ph d :: ops => sendLog (c.bump ph d) ops

end RootSim.MsgAuto
