import RootSim.Model.Msg
/-!
The interface between the runtime models and a *simulation model* (the user's `ProcessEvent` /
`CanEnd` callbacks), shared by the serial executor (C10), the reference executor, and the
optimistic LP-local machine (C01/C03/C05/C13).

A handler is a deterministic function of (LP id, LP state, event) — contract V1 of DESIGN §2.8 —
returning the new state and the events it schedules, in the order of the `ScheduleNewEvent` calls.
-/
namespace RootSim

/-- What a handler sees of an event / what `ScheduleNewEvent` is given.
`t` is the time key (see `Model/Msg.lean`), `payload` has exactly `event_size` bytes. -/
structure Event where
  dest    : Nat
  t       : Nat
  type    : Nat
  payload : List Nat
deriving Repr, DecidableEq

def LP_INIT : Nat := 65534
def LP_FINI : Nat := 65535

/-- a simulation model over LP-state type `σ` -/
structure SimModel (σ : Type) where
  nLps    : Nat
  /-- state of an LP before its `LP_INIT` event -/
  init    : Nat → σ
  /-- `ProcessEvent(me, now, type, content, size, state)` -/
  handler : Nat → σ → Event → σ × List Event
  /-- `CanEnd(me, state)` -/
  canEnd  : Nat → σ → Bool

/-- the message the runtime builds for an event (`msg_allocator_pack`, flags cleared) -/
def Event.toMsg (e : Event) : Msg :=
  { dest := e.dest, destT := e.t, rawFlags := 0, mType := e.type,
    plSize := e.payload.length, pl := e.payload }

def Msg.toEvent (m : Msg) : Event :=
  { dest := m.dest, t := m.destT, type := m.mType, payload := m.body }

/-- event order = message order of the packed messages -/
def Event.before (a b : Event) : Bool := isBefore a.toMsg b.toMsg

/-- Contract V2: every scheduled event is not before the event that schedules it;
V4: destinations exist; V3: model event types are below `LP_INIT`. -/
def SimModel.validStep {σ : Type} (M : SimModel σ) (lp : Nat) (s : σ) (e : Event) : Prop :=
  ∀ o ∈ (M.handler lp s e).2, Event.before o e = false ∧ o.dest < M.nLps ∧ o.type < LP_INIT

end RootSim
