import RootSim.Model.LP
/-!
L2, complete: ALL dispatch branches of `process_msg` (`src/lp/process.c`) for ONE LP, written against the
definitions of `Model/LP.lean` (`LPState`, `Entry`, `rollback`, `matchStraggler`, `matchAnti`, `scanBack`;
`stepFwd` is `forward` with the local/remote tagging of the outputs, see `Proofs/LPFull.lean: stepFwd_eq_forward`).

State: `LPState σ` (history `p_msgs`, checkpoint log, LP memory, `bound`, `fossil_epoch`) + `earlyAntis`
(`lp->p.early_antis`, newest first like the C list).

Inputs of a step (everything the C code reads that is not LP-local):
* `m`     the dequeued message (an ordinal), `f` the flag word that `fetch_add(PROCESSED)` returned for it;
* `ev`    content of a message ordinal (what the handler sees);
* `look`  the `struct lp_msg` of any message ordinal as the code sees it at this moment: `rawFlags` is the current
          flag / id word (snapshot taken right after the `fetch_add`, so `(look m).rawFlags = f + 2`), `mSeq` is `m_seq`;
* `remote dest` = `lid_to_nid(dest) != nid`; `alloc k` = the ordinal the message allocator hands out for the `k`-th
          `ScheduleNewEvent` of this step.

Output: the new state + the list of abstract actions in the order in which the C code performs them
(`VERIF_TRACE` points + the flag writes / frees between them). `none` = the C code would leave defined behaviour
(a backward scan running off the beginning of an array, see the individual definitions).

The flag words of OTHER messages (what the `fetch_add`s of `send_anti_messages` return, whether an un-processed
message is re-inserted into the queue) belong to the per-message automaton (C06); here only the LP-local decisions.
-/
namespace RootSim.LPFull
open RootSim RootSim.LP

/-- the LP as `process_msg` sees it: `struct lp_ctx` restricted to `p` + `mm_state` -/
structure St (σ : Type) where
  lp : LPState σ
  /-- `lp->p.early_antis`: remote anti-messages that arrived before their event, newest first -/
  earlyAntis : List Nat := []

/-- what the C code does, in program order -/
inductive Action where
  /-- `send_anti_messages`: `fetch_add(&msg->flags, -MSG_FLAG_PROCESSED)` on a past entry being undone; the message is
  re-inserted into the queue iff the returned word has no ANTI bit. `cancelled = true`: the entry is the very message being
  annihilated by this step (its ANTI bit is known to be set: never re-queued) -/
  | unproc (m : Nat) (cancelled : Bool)
  /-- `send_anti_messages`: `fetch_add(&msg->flags, MSG_FLAG_ANTI)` on a local sent entry (`VK_ANTI_LOCAL`) -/
  | antiLocal (m : Nat)
  /-- `send_anti_messages`: `mpi_remote_anti_msg_send` for a remote sent entry (`VK_ANTI_REMOTE`) ... -/
  | antiRemote (m : Nat)
  /-- ... followed by `msg_allocator_free_at_gvt` of the sender's copy -/
  | freeAtGvt (m : Nat)
  /-- `do_rollback`: `model_allocator_checkpoint_restore(past_i)` returned `ref` (`VK_ROLLBACK`) -/
  | rollback (pastI ref : Nat)
  /-- `silent_execution`: re-dispatch of the past entry at index `idx` (`VK_SILENT`) -/
  | silent (idx m : Nat)
  /-- end of `do_rollback` (`VK_ROLLBACK_DONE`) -/
  | rollbackDone (pastI : Nat)
  /-- `termination_on_lp_rollback(lp, t)` -/
  | termRollback (t : Nat)
  /-- `handle_remote_anti_msg`: `msg->raw_flags |= MSG_FLAG_ANTI` on the matched processed event -/
  | markAnti (x : Nat)
  /-- `handle_anti_msg`: `VK_ANTI_DISCARD` (local anti-message, flag word `f`) -/
  | antiDiscard (m f : Nat)
  /-- `handle_remote_anti_msg`: no processed event matches: the anti-message is pushed on `early_antis` (`VK_EARLY_ANTI`);
  its flag word stays `f + 1` -/
  | earlyPark (m : Nat)
  /-- `check_early_anti_messages`: the remote event `m` is annihilated by the waiting anti-message `a` (`VK_EARLY_MATCH`) -/
  | earlyMatch (m a : Nat)
  /-- `ScheduleNewEvent` to a local LP: message ordinal `o`, content `e` (`VK_SEND_LOCAL`) -/
  | send (o : Nat) (e : Event)
  /-- `ScheduleNewEvent` to an LP of another rank (`VK_SEND_REMOTE`) -/
  | rsend (o : Nat) (e : Event)
  /-- `array_push(p_msgs, msg)` after `common_msg_process`: the past entry lands at index `idx` (`VK_FORWARD`) -/
  | forward (m idx : Nat)
  /-- `msg_allocator_free` -/
  | free (m : Nat)
deriving Repr, DecidableEq

/-- `lp->p.bound = unlikely(array_is_empty(lp->p.p_msgs)) ? -1.0 : lp->p.bound;` (process.c:393) -/
def fixBound {σ : Type} (lp : LPState σ) : LPState σ :=
  { lp with bound := if lp.hist.isEmpty then none else lp.bound }

/-- `send_anti_messages` (process.c:171-206) on the entries `hist[past_i..]`, in array order: every sent entry is
cancelled, every past entry un-processed. -/
def undoActions (cancelled : Option Nat) : List Entry → List Action
  | [] => []
  | .past m :: es => .unproc m (cancelled == some m) :: undoActions cancelled es
  | .sent m :: es => .antiLocal m :: undoActions cancelled es
  | .rsent m :: es => .antiRemote m :: .freeAtGvt m :: undoActions cancelled es

/-- The inner `while(is_msg_sent(msg))` of `send_anti_messages` advances `i` without looking at the array bound: if the
undone segment ended with a sent entry it would read beyond `p_msgs`. -/
def endsWithSent (es : List Entry) : Bool :=
  match es.getLast? with
  | some e => e.isSent
  | none => false

/-- `do_rollback(lp, past_i)` (process.c:213-223): `send_anti_messages`, `model_allocator_checkpoint_restore`,
`silent_execution`. `none`: the checkpoint-log search would underflow, or `send_anti_messages` would read beyond the array. -/
def doRollback {σ : Type} (handler : σ → Event → σ × List Event) (ev : Nat → Event) (lp : LPState σ) (pastI : Nat)
    (cancelled : Option Nat) : Option (LPState σ × List Action) :=
  match rollback handler ev lp pastI with
  | none => none
  | some o =>
    if endsWithSent o.undone then none
    else some (o.lp, undoActions cancelled o.undone ++ [.rollback pastI o.ref]
                 ++ o.silent.map (fun im => Action.silent im.1 im.2) ++ [.rollbackDone pastI])

/-- the comparison of `handle_remote_anti_msg`'s first loop (process.c:286):
`!is_msg_sent(msg) && msg->raw_flags == m_id && msg->m_seq == m_seq` -/
def remoteHit (look : Nat → Msg) (mId seq : Nat) (e : Entry) : Bool :=
  e.isPast && (look e.msg).rawFlags == mId && (look e.msg).mSeq == seq

/-- first loop of `handle_remote_anti_msg` (process.c:275-286): backward search from the END of the history for the processed
event with this (id word, m_seq); index + 1 of the hit, 0 = `i` reached 0: early anti-message -/
def findRemote (look : Nat → Msg) (hist : List Entry) (mId seq : Nat) : Nat :=
  scanBack (remoteHit look mId seq) hist.reverse

/-- second loop of `handle_remote_anti_msg` (process.c:288-294) = second loop of `match_anti_msg` (process.c:256-261):
from index `i` downwards to the nearest past entry; the rollback target is the index after it (0 if there is none) -/
def groupStart (hist : List Entry) (i : Nat) : Nat :=
  scanBack Entry.isPast (hist.take i).reverse

/-- the comparison of `check_early_anti_messages` (process.c:315) -/
def earlyHit (look : Nat → Msg) (mId seq : Nat) (a : Nat) : Bool :=
  (look a).rawFlags == mId && (look a).mSeq == seq

/-- the list walk of `check_early_anti_messages` (process.c:312-324): the FIRST entry (from the head = newest) satisfying `p`
is unlinked (`*prev_p = a_msg->next`), all others stay in place -/
def unlinkFirst (p : Nat → Bool) : List Nat → Option (Nat × List Nat)
  | [] => none
  | a :: as =>
    if p a then some (a, as)
    else match unlinkFirst p as with
      | some (x, r) => some (x, a :: r)
      | none => none

/-- result of the part of `process_msg` that precedes `common_msg_process` -/
structure PreOut (σ : Type) where
  st   : St σ
  acts : List Action
  /-- `true`: forward execution of the message follows (no `return` was taken) -/
  cont : Bool

/-- `process_msg` from the `fetch_add` (process.c:389) up to the straggler handling (process.c:401), i.e. all four
dispatch branches:
* `f` odd (`flags & MSG_FLAG_ANTI`) → `handle_anti_msg` (process.c:334-348), then the `bound` fix-up (process.c:393):
  * `f > 3` → `handle_remote_anti_msg` (process.c:269-301): `m_id = f + 2 - 1`; matched → ANTI bit on the event, rollback to
    the start of its group, `termination_on_lp_rollback(event time)`, free event, free anti-message; not matched → parked;
  * `f = 3` → `match_anti_msg`, rollback, `termination_on_lp_rollback`, discard, free;
  * `f = 1` → discard, free;
* `f` even, `f ≠ 0`, list not empty, `check_early_anti_messages` hits (process.c:397) → unlink, free both, `return`
  (NO `bound` fix-up on this path);
* otherwise the straggler test (process.c:400) and `handle_straggler_msg`; forward execution follows. -/
def stepPre {σ : Type} (handler : σ → Event → σ × List Event) (ev : Nat → Event) (look : Nat → Msg)
    (s : St σ) (m f : Nat) : Option (PreOut σ) :=
  if f % 2 = 1 then
    if f > 3 then
      let mId := f + 1
      let seq := (look m).mSeq
      let k := findRemote look s.lp.hist mId seq
      if k = 0 then
        some { st := { lp := fixBound s.lp, earlyAntis := m :: s.earlyAntis }, acts := [.earlyPark m], cont := false }
      else
        match s.lp.hist[k - 1]? with
        | none => none
        | some x =>
          match doRollback handler ev s.lp (groupStart s.lp.hist (k - 1)) (some x.msg) with
          | none => none
          | some (lp', acts) =>
            some { st := { s with lp := fixBound lp' }
                   acts := .markAnti x.msg :: acts ++ [.termRollback (ev x.msg).t, .free x.msg, .free m]
                   cont := false }
    else if f = 3 then
      -- `match_anti_msg` has no bounds check: `none` = the message is not in the history
      match matchAnti s.lp.hist m with
      | none => none
      | some pastI =>
        match doRollback handler ev s.lp pastI (some m) with
        | none => none
        | some (lp', acts) =>
          some { st := { s with lp := fixBound lp' }
                 acts := acts ++ [.termRollback (ev m).t, .antiDiscard m f, .free m]
                 cont := false }
    else
      some { st := { s with lp := fixBound s.lp }, acts := [.antiDiscard m f, .free m], cont := false }
  else
    match (if f ≠ 0 then unlinkFirst (earlyHit look (f + 2) (look m).mSeq) s.earlyAntis else none) with
    | some (a, rest) =>
      some { st := { s with earlyAntis := rest }, acts := [.earlyMatch m a, .free m, .free a], cont := false }
    | none =>
      let me : Msg := { look m with rawFlags := f + 2 }
      if isStraggler look s.lp me then
        match doRollback handler ev s.lp (matchStraggler look s.lp.hist me) none with
        | none => none
        | some (lp', acts) =>
          some { st := { s with lp := lp' }, acts := acts ++ [.termRollback me.destT], cont := true }
      else some { st := s, acts := [], cont := true }

/-- the history entries pushed by the `ScheduleNewEvent` calls of one handler run (process.c:62-72): tag 2 for a
destination on another rank, tag 1 otherwise; `k` = number of outputs already handled -/
def outEntries (remote : Nat → Bool) (alloc : Nat → Nat) : Nat → List Event → List Entry
  | _, [] => []
  | k, e :: es => (if remote e.dest then Entry.rsent (alloc k) else Entry.sent (alloc k)) :: outEntries remote alloc (k + 1) es

def outActions (remote : Nat → Bool) (alloc : Nat → Nat) : Nat → List Event → List Action
  | _, [] => []
  | k, e :: es => (if remote e.dest then Action.rsend (alloc k) e else Action.send (alloc k) e) :: outActions remote alloc (k + 1) es

/-- forward execution (process.c:407-410): `common_msg_process` (the handler runs, every `ScheduleNewEvent` pushes a sent
entry), `bound = msg->dest_t`, `array_push(p_msgs, msg)`. With no remote destination this is `LP.forward`. -/
def stepFwd {σ : Type} (handler : σ → Event → σ × List Event) (remote : Nat → Bool) (alloc : Nat → Nat)
    (s : St σ) (m : Nat) (e : Event) : St σ × List Action :=
  let r := handler s.lp.st e
  let hist' := s.lp.hist ++ outEntries remote alloc 0 r.2 ++ [Entry.past m]
  ({ s with lp := { s.lp with st := r.1, hist := hist', bound := some e.t } },
   outActions remote alloc 0 r.2 ++ [.forward m (hist'.length - 1)])

/-- **`process_msg`** after the dequeue and the optional fossil collection (those are `LP.fossil`): one complete step of one LP. -/
def step {σ : Type} (handler : σ → Event → σ × List Event) (ev : Nat → Event) (look : Nat → Msg)
    (remote : Nat → Bool) (alloc : Nat → Nat) (s : St σ) (m f : Nat) : Option (St σ × List Action) :=
  match stepPre handler ev look s m f with
  | none => none
  | some p =>
    if p.cont then
      let r := stepFwd handler remote alloc p.st m (ev m)
      some (r.1, p.acts ++ r.2)
    else some (p.st, p.acts)

/-! projections of an action trace used by the property statements -/

/-- the messages released (`msg_allocator_free`), in order -/
def frees (acts : List Action) : List Nat :=
  acts.filterMap (fun a => match a with | .free m => some m | _ => none)

/-- the un-processed messages with their `cancelled` mark, in order -/
def unprocs (acts : List Action) : List (Nat × Bool) :=
  acts.filterMap (fun a => match a with | .unproc m c => some (m, c) | _ => none)

/-- the cancelled sent entries (local → `sent`, remote → `rsent`), in order -/
def antis (acts : List Action) : List Entry :=
  acts.filterMap (fun a => match a with | .antiLocal m => some (Entry.sent m) | .antiRemote m => some (Entry.rsent m) | _ => none)

end RootSim.LPFull
