/-!
# The per-message automaton of local cancellation (C06)

One LOCAL message (sender LP and receiver LP on the same rank, possibly on different threads) is
touched by the following code (`src/lp/process.c` unless noted), each line being ONE atomic action on
the message (sequentially consistent interleaving; `memory_order_relaxed` is not modelled):

| action        | code                                                                                   |
|---------------|----------------------------------------------------------------------------------------|
| `alloc`       | `msg_allocator_pack` in `ScheduleNewEvent`                                             |
| `sendLocal`   | `atomic_store(&msg->flags, 0); msg_queue_insert(msg); array_push(p_msgs, mark_sent)`  |
| `pop`         | `msg_queue_extract()` returns the message (receiver thread)                            |
| `flagProcess` | `flags = atomic_fetch_add(&msg->flags, MSG_FLAG_PROCESSED)` in `process_msg` + branch  |
| `forward`     | `common_msg_process; array_push(p_msgs, msg)` (the event is dispatched forward)        |
| `antiLocal`   | sender rollback, `send_anti_messages`: `f = fetch_add(&msg->flags, MSG_FLAG_ANTI)`     |
| `antiInsert`  | … `if(f & MSG_FLAG_PROCESSED) msg_queue_insert(msg)` (the re-inserted "anti copy")     |
| `unprocess`   | receiver rollback, `send_anti_messages`: `f = fetch_add(&msg->flags, -PROCESSED)`      |
| `requeue`     | … `if(!(f & MSG_FLAG_ANTI)) msg_queue_insert(msg)`                                     |
| `antiFree`    | `handle_anti_msg`: `msg_allocator_free(msg)`                                           |
| `commit`      | ENVIRONMENT: GVT passes `dest_t` (C04): from now on neither side rolls back across it  |
| `fossilFree`  | `fossil_lp_collect` (`gvt/fossil.c`): `msg_allocator_free` of a past received entry    |
| `senderDrop`  | the sender's history entry disappears (sender fossil / `process_lp_fini`: skipped)     |
| `shutdown`    | ENVIRONMENT: all threads passed the last barrier: no processing/rollback any more      |
| `finiEntry`   | `process_lp_fini`: `if(!(flags & MSG_FLAG_ANTI)) msg_allocator_free(msg)`              |
| `queueFini`   | `msg_queue_fini` (`datatypes/msg_queue.c`): frees a message still queued (after `lp_fini`) |

WHEN the sender cancels and WHEN the receiver rolls back / fossil collects / shuts down is completely
nondeterministic (every action whose guard holds may fire), which over-approximates every cascade of
rollbacks. Guards only express *sequential* facts (a thread executes one thing at a time: the receiver
cannot pop a copy while it is between `flagProcess` and `forward` of this message) and the two
environment hypotheses named above (`commit`, `shutdown`).

The flag word is modelled with its real arithmetic (`uint32_t`, wrap-around), NOT as two booleans.
-/
namespace RootSim.MsgAuto

@[reducible] def W32 : Nat := 4294967296
@[reducible] def ANTI : Nat := 1
@[reducible] def PROCESSED : Nat := 2

/-- allocation state of the buffer -/
inductive Life | fresh | packed | live | freed | dfreed
deriving DecidableEq, Repr

/-- what the receiver thread is doing with this message right now -/
inductive RPc
  | idle      -- nothing
  | hand      -- popped from the queue, `fetch_add(PROCESSED)` not yet executed
  | proc      -- `fetch_add` returned clean flags: straggler handling + forward processing in progress
  | antiRb    -- `fetch_add` returned ANTI|PROCESSED: rolling back to before the message (`match_anti_msg`)
  | antiFree  -- about to `msg_allocator_free` in `handle_anti_msg`
deriving DecidableEq, Repr

/-- who released the buffer -/
inductive FreedBy | none | anti | fossil | fini | qfini
deriving DecidableEq, Repr

structure LState where
  life      : Life := .fresh
  /-- value of the `flags` word -/
  flags     : Nat := 0
  /-- copies in the receiver's buffer + heap -/
  qc        : Nat := 0
  /-- the sender's `p_msgs` holds a (tagged) pointer that a sender rollback would still use -/
  sref      : Bool := false
  /-- sender is between its `fetch_add(ANTI)` (PROCESSED seen) and the `msg_queue_insert` -/
  spend     : Bool := false
  rpc       : RPc := .idle
  /-- receiver is between its `fetch_add(-PROCESSED)` (ANTI clear) and the `msg_queue_insert` -/
  rpend     : Bool := false
  /-- the receiver's `p_msgs` holds the message (it is "processed") -/
  inHist    : Bool := false
  committed : Bool := false
  down      : Bool := false
  /-- the C code would have executed undefined/unintended behaviour on this message: use after free,
  `match_anti_msg` running off the array, the remote-anti path taken for a local message, a message
  processed while already marked processed -/
  err       : Bool := false
  -- ghost history
  /-- the sender has executed its `fetch_add(ANTI)` -/
  cancelled : Bool := false
  /-- … and saw PROCESSED set -/
  cproc     : Bool := false
  /-- the receiver has seen ANTI in a `fetch_add` result -/
  obs       : Bool := false
  /-- a forward dispatch happened after the receiver had seen ANTI -/
  fwdAfterObs : Bool := false
  /-- forward dispatches after the cancel (saturating at 2) -/
  fwdAfterAnti : Nat := 0
  /-- `unprocess` actions after the cancel (saturating at 2) -/
  unpAfter  : Nat := 0
  freedBy   : FreedBy := .none
deriving BEq, ReflBEq, LawfulBEq, Repr

inductive LAct
  | alloc | sendLocal | pop | flagProcess | forward | antiLocal | antiInsert | unprocess | requeue
  | antiFree | commit | fossilFree | senderDrop | shutdown | finiEntry | queueFini
deriving DecidableEq, Repr

def LAct.all : List LAct :=
  [.alloc, .sendLocal, .pop, .flagProcess, .forward, .antiLocal, .antiInsert, .unprocess, .requeue,
   .antiFree, .commit, .fossilFree, .senderDrop, .shutdown, .finiEntry, .queueFini]

/-- environment actions (the rest is executed by the runtime as soon as the owning thread proceeds) -/
def LAct.isEnv : LAct → Bool
  | .antiLocal | .unprocess | .commit | .senderDrop | .shutdown | .alloc | .sendLocal => true
  | _ => false

def sat2 (n : Nat) : Nat := if n < 2 then n + 1 else 2

/-- `msg_allocator_free(msg)` -/
def release (s : LState) (by_ : FreedBy) : LState :=
  if s.life = .live then { s with life := .freed, freedBy := by_ } else { s with life := .dfreed }

/-- any access to the message's memory: undefined behaviour unless the buffer is live -/
def touch (s : LState) : LState := if s.life = .live then s else { s with err := true }

/-- `atomic_fetch_add` on the `uint32_t` flag word -/
def addFlags (f d : Nat) : Nat := (f + d) % W32

/-- The transition function; `none` = the action is not enabled in `s`. -/
def lstep (s : LState) : LAct → Option LState
  | .alloc => if s.life = .fresh then some { s with life := .packed } else none
  | .sendLocal =>
    if s.life = .packed then some { s with life := .live, flags := 0, qc := s.qc + 1, sref := true } else none
  | .pop =>
    if 0 < s.qc ∧ s.rpc = .idle ∧ ¬ s.down then some { (touch s) with qc := s.qc - 1, rpc := .hand } else none
  | .flagProcess =>
    if s.rpc = .hand then
      let prev := s.flags
      let s1 := { (touch s) with flags := addFlags s.flags PROCESSED }
      if prev % 2 = 1 then
        -- `handle_anti_msg(lp, msg, prev)`
        let s2 := { s1 with obs := true }
        if prev = ANTI + PROCESSED then
          -- `match_anti_msg` searches `p_msgs` for the message: it must be there
          some (if s.inHist then { s2 with rpc := .antiRb } else { s2 with rpc := .antiFree, err := true })
        else if prev = ANTI then some { s2 with rpc := .antiFree }
        else some { s2 with rpc := .antiFree, err := true }   -- `prev > 3`: `handle_remote_anti_msg`
      else
        -- normal processing; a local message must arrive with clean flags
        some { s1 with rpc := .proc, err := s1.err || (prev != 0) }
    else none
  | .forward =>
    if s.rpc = .proc then
      some { (touch s) with rpc := .idle, inHist := true, err := (touch s).err || s.inHist,
                            fwdAfterObs := s.fwdAfterObs || s.obs,
                            fwdAfterAnti := if s.cancelled then sat2 s.fwdAfterAnti else s.fwdAfterAnti }
    else none
  | .antiLocal =>
    if s.sref ∧ ¬ s.committed ∧ ¬ s.down then
      let prev := s.flags
      some { (touch s) with flags := addFlags s.flags ANTI, sref := false, cancelled := true,
                            cproc := prev / 2 % 2 = 1, spend := prev / 2 % 2 = 1,
                            err := (touch s).err || s.cancelled }
    else none
  | .antiInsert => if s.spend then some { (touch s) with spend := false, qc := s.qc + 1 } else none
  | .unprocess =>
    if s.inHist ∧ ¬ s.committed ∧ ¬ s.down ∧ (s.rpc = .idle ∨ s.rpc = .antiRb) then
      let prev := s.flags
      some { (touch s) with flags := addFlags s.flags (W32 - PROCESSED), inHist := false,
                            rpend := prev % 2 = 0,
                            rpc := if s.rpc = .antiRb then .antiFree else s.rpc,
                            unpAfter := if s.cancelled then sat2 s.unpAfter else s.unpAfter }
    else none
  | .requeue => if s.rpend then some { (touch s) with rpend := false, qc := s.qc + 1 } else none
  | .antiFree => if s.rpc = .antiFree then some { (release s .anti) with rpc := .idle } else none
  | .commit =>
    if s.life = .live ∧ s.qc = 0 ∧ s.rpc = .idle ∧ ¬ s.spend ∧ ¬ s.rpend ∧ ¬ s.committed ∧ ¬ s.down then
      some { s with committed := true }
    else none
  | .fossilFree =>
    if s.inHist ∧ s.committed ∧ s.rpc = .idle ∧ ¬ s.down then some { (release s .fossil) with inHist := false }
    else none
  | .senderDrop => if s.sref then some { s with sref := false } else none
  | .shutdown =>
    if (s.life = .live ∨ s.life = .freed) ∧ s.rpc = .idle ∧ ¬ s.spend ∧ ¬ s.rpend ∧ ¬ s.down then
      some { s with down := true }
    else none
  | .finiEntry =>
    if s.down ∧ s.inHist then
      let s1 := { (touch s) with inHist := false }
      some (if s.flags % 2 = 0 then release s1 .fini else s1)
    else none
  | .queueFini =>
    -- `worker_thread_fini`: `lp_fini()` (all `process_lp_fini` of the thread) runs BEFORE `msg_queue_fini()`
    -- on the same (receiver) thread, so the history entry is gone when the queue is finalised
    if s.down ∧ 0 < s.qc ∧ ¬ s.inHist then some { (release s .qfini) with qc := s.qc - 1 } else none

/-- run a sequence of actions; `none` as soon as one is not enabled -/
def lrun (s : LState) : List LAct → Option LState
  | [] => some s
  | a :: as => match lstep s a with
    | some s' => lrun s' as
    | none => none

def LState.init : LState := {}

/-- successors of a state -/
def succs (s : LState) : List LState := LAct.all.filterMap (lstep s)

/-- breadth-first closure with fuel, de-duplicating by an integer `code` of the states (fast in the
kernel; states are rebuilt from their code by `decode` so that the kernel works on fully evaluated
records). Used only to *produce* the candidate invariant: the theorems check that the produced set is
closed under the step function, they do not trust this function nor the injectivity of `code`. -/
def bfsBy {σ : Type} (code : σ → Nat) (decode : Nat → σ) (succs : σ → List σ) :
    Nat → List Nat → List Nat → List Nat
  | 0, codes, _ => codes
  | fuel+1, codes, frontier =>
    let r := (frontier.flatMap (fun c => (succs (decode c)).map code)).foldl
      (fun (acc : List Nat × List Nat) c => if acc.1.contains c then acc else (c :: acc.1, c :: acc.2))
      (codes, [])
    if r.2.isEmpty then codes else bfsBy code decode succs fuel r.1 r.2

/-- `l` is closed under `succs` (membership test: equal code AND equal state) -/
def closedBy {σ : Type} [BEq σ] (code : σ → Nat) (succs : σ → List σ) (l : List σ) : Bool :=
  let lc := l.map (fun r => (code r, r))
  l.all (fun s => (succs s).all (fun s' => let c := code s'; lc.any (fun p => p.1 == c && p.2 == s')))

theorem closedBy_spec {σ : Type} [BEq σ] [LawfulBEq σ] {code : σ → Nat} {succs : σ → List σ} {l : List σ}
    (h : closedBy code succs l = true) {s s' : σ} (hs : s ∈ l) (hs' : s' ∈ succs s) : s' ∈ l := by
  unfold closedBy at h
  simp only [List.all_eq_true, List.any_eq_true, List.mem_map, Bool.and_eq_true, beq_iff_eq] at h
  obtain ⟨p, ⟨r, hr, hp⟩, _, h2⟩ := h s hs s' hs'
  subst hp
  simp only at h2
  rw [← h2]; exact hr

def b2n (b : Bool) : Nat := if b then 1 else 0
def Life.code : Life → Nat | .fresh => 0 | .packed => 1 | .live => 2 | .freed => 3 | .dfreed => 4
def RPc.code : RPc → Nat | .idle => 0 | .hand => 1 | .proc => 2 | .antiRb => 3 | .antiFree => 4
def FreedBy.code : FreedBy → Nat | .none => 0 | .anti => 1 | .fossil => 2 | .fini => 3 | .qfini => 4
/-- mixed-radix packing of a list of small numbers (base 8) -/
def pack (l : List Nat) : Nat := l.foldl (fun acc x => acc * 8 + x) 0

def Life.ofCode : Nat → Life | 0 => .fresh | 1 => .packed | 2 => .live | 3 => .freed | _ => .dfreed
def RPc.ofCode : Nat → RPc | 0 => .idle | 1 => .hand | 2 => .proc | 3 => .antiRb | _ => .antiFree
def FreedBy.ofCode : Nat → FreedBy | 0 => .none | 1 => .anti | 2 => .fossil | 3 => .fini | _ => .qfini
/-- digit `i` (from the right) of a packed number -/
def dig (n i : Nat) : Nat := n / 8 ^ i % 8

def LState.code (s : LState) : Nat :=
  pack [s.life.code, s.flags, s.qc, b2n s.sref, b2n s.spend, s.rpc.code, b2n s.rpend, b2n s.inHist,
        b2n s.committed, b2n s.down, b2n s.err, b2n s.cancelled, b2n s.cproc, b2n s.obs, b2n s.fwdAfterObs,
        s.fwdAfterAnti, s.unpAfter, s.freedBy.code]

def LState.decode (n : Nat) : LState :=
  { life := .ofCode (dig n 17), flags := dig n 16, qc := dig n 15, sref := dig n 14 == 1, spend := dig n 13 == 1,
    rpc := .ofCode (dig n 12), rpend := dig n 11 == 1, inHist := dig n 10 == 1, committed := dig n 9 == 1,
    down := dig n 8 == 1, err := dig n 7 == 1, cancelled := dig n 6 == 1, cproc := dig n 5 == 1,
    obs := dig n 4 == 1, fwdAfterObs := dig n 3 == 1, fwdAfterAnti := dig n 2, unpAfter := dig n 1,
    freedBy := .ofCode (dig n 0) }

end RootSim.MsgAuto
