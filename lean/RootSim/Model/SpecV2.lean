import RootSim.Model.Spec
/-!
# The runtime's REAL model contract V2 (non-strict causality) and two V2-only example models

`Spec.V2s` (`Model/Spec.lean`) demands that every scheduled event is STRICTLY after its cause in the event
order. The runtime only demands `SimModel.validStep` (debug builds abort iff `msg_is_before(new, current)`):
an event may schedule a simultaneous event that is INCOMPARABLE with it (same time, type, size, payload —
only the destination differs, and the destination is not part of the order).
-/
namespace RootSim.Spec
open RootSim

variable {σ : Type}

/-- Contract V2 (+ V3, V4), globally: no scheduled event is before its cause, it goes to an existing LP
and has a model event type. This is `SimModel.validStep` in every state. -/
def V2 (M : SimModel σ) : Prop :=
  ∀ (ℓ : Nat) (s : σ) (c : Event), ∀ o ∈ (M.handler ℓ s c).2,
    Event.before o c = false ∧ o.dest < M.nLps ∧ o.type < LP_INIT

theorem V2_iff_validStep (M : SimModel σ) : V2 M ↔ ∀ ℓ s c, M.validStep ℓ s c := Iff.rfl

/-- Boolean form of `V2` for one invocation -/
def v2Check (M : SimModel σ) (ℓ : Nat) (s : σ) (c : Event) : Bool :=
  (M.handler ℓ s c).2.all (fun o => !Event.before o c && decide (o.dest < M.nLps) && decide (o.type < LP_INIT))

/-- A 3-LP token ring with ZERO-DELAY IDENTICAL forwards (V2, not V2s). The LP state counts the events
processed so far (`LP_INIT` included). `LP_INIT` of LP 0 schedules, for LP 0 itself, a "tick" (type 2, time 1)
and a token (type 1, time 2). A token is forwarded UNCHANGED (same time, type, payload) to the next LP of
the ring as long as the receiving LP has processed fewer than 3 events. Sequentially: LP 0 processes
`LP_INIT`, the tick, the token (count 2 → forwarded), LP 1 and LP 2 forward it, LP 0 sees it again with
count 3 and stops it. Optimistically LP 0 may process the token BEFORE the tick: then the token goes round
the ring twice, and the tick is a straggler that undoes three identical simultaneous events. -/
def ring : SimModel Nat where
  nLps := 3
  init := fun _ => 0
  handler := fun ℓ s e =>
    (s + 1,
     if e.type = LP_INIT then
       (if ℓ = 0 then [{ dest := 0, t := e.t + 1, type := 2, payload := [] },
                       { dest := 0, t := e.t + 2, type := 1, payload := [7] }] else [])
     else if e.type = 1 ∧ s < 3 then [{ dest := (ℓ + 1) % 3, t := e.t, type := 1, payload := e.payload }]
     else [])
  canEnd := fun _ _ => false

/-- The model of the counter-example (`Props/C01GlueV2.lean`). The LP state counts the events processed so
far. `LP_INIT` of LP 2 (time 0) schedules for LP 2 a type-3 event `y` at time 1 and a type-2 event `x` at
time 2.
`x` sends the token `c = ⟨1,5,1,[]⟩` (three time units later) to LP 1 only if LP 2 has NOT processed `y` yet (count 1), i.e. only in a
speculative execution that will be undone. LP 0 and LP 1 forward a token, unchanged and with zero delay,
to each other, each at most once (only as their first model event). Every sequential run: LP 2 processes
`LP_INIT`, `y`, `x` (count 2: nothing sent); LP 0 and LP 1 never receive anything. -/
def trap : SimModel Nat where
  nLps := 3
  init := fun _ => 0
  handler := fun ℓ s e =>
    (s + 1,
     if ℓ = 2 ∧ e.type = LP_INIT then
       [{ dest := 2, t := e.t + 1, type := 3, payload := [] },
        { dest := 2, t := e.t + 2, type := 2, payload := [] }]
     else if ℓ = 2 ∧ e.type = 2 ∧ s = 1 then [{ dest := 1, t := e.t + 3, type := 1, payload := [] }]
     else if ℓ < 2 ∧ e.type = 1 ∧ s = 1 then
       [{ dest := 1 - ℓ, t := e.t, type := 1, payload := e.payload }]
     else [])
  canEnd := fun _ _ => false

end RootSim.Spec
