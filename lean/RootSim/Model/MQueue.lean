/-!
# Model of the inter-thread message buffer (`src/datatypes/msg_queue.c`)

One destination thread ("the consumer") owns a public lock-free buffer `queues[rid].list` — a
Treiber-style LIFO list linked through `lp_msg.next` — and a private heap `mqp`.

```c
void msg_queue_insert(struct lp_msg *msg) {                       // any thread ("producer")
    msg->next = atomic_load(list_p);                              //   insLoad
    while(!atomic_compare_exchange_weak(list_p, &msg->next, msg)) //   insCas (may fail, also spuriously;
        spin_pause(); }                                           //           on failure msg->next := *list_p)
static void msg_queue_insert_queued(void) {                       // the consumer
    struct lp_msg *m = atomic_exchange(&queues[rid].list, NULL);  //   swap
    while(m != NULL) { heap_insert(mqp, ..., m); m = m->next; } } //   walk (one element per step)
struct lp_msg *msg_queue_extract(void) { msg_queue_insert_queued(); return heap_count ? heap_extract : NULL; }
simtime_t msg_queue_time_peek(void)    { msg_queue_insert_queued(); return heap_count ? heap_min.t : SIMTIME_MAX; }
```

Interleaving transition system, one step per shared-memory access, sequentially consistent (the
release/acquire annotations are NOT modelled). The private heap is abstracted to the multiset `priv`
(extraction removes *some* element of minimal time stamp — the heap itself is another work package).
Every insertion gets a fresh message id (a message re-inserted after an extraction is a new id: its
old `next` value is dead). Time stamps are keys as in `Model/Msg.lean`.

`lst`, `det`, `comp`, `snap` are ghost fields (never read by the executable steps' guards or results
except where noted): the abstract content of the shared list, of the detached list still to be walked,
the inserts completed so far, and — for the peek theorem — the messages that were completed and not yet
extracted when the consumer's current operation executed its `swap`.
-/
namespace RootSim.MQueue

/-- key of `SIMTIME_MAX` (`DBL_MAX`) -/
@[reducible] def SIMTIME_MAX : Nat := 0x7fefffffffffffff

/-- a producer thread inside `msg_queue_insert` -/
inductive PPc
  | idle
  | loaded (m : Nat)   -- `msg->next` holds a value read from the list head; next access: the CAS
deriving DecidableEq, Repr

/-- the consumer thread inside `msg_queue_insert_queued` -/
inductive CPc
  | idle
  | walk (cur : Option Nat)  -- after the exchange: `m = cur`
  | ready                    -- the walk is finished; next: the private heap operation (extract / peek)
deriving DecidableEq, Repr

structure St where
  /-- number of message ids handed out -/
  nmsgs : Nat := 0
  /-- `msg->dest_t` (key) -/
  t     : Nat → Nat := fun _ => 0
  /-- `msg->next` -/
  next  : Nat → Option Nat := fun _ => none
  /-- `queues[rid].list` -/
  head  : Option Nat := none
  prod  : List PPc := []
  cons  : CPc := .idle
  /-- content of the private heap `mqp` -/
  priv  : List Nat := []
  /-- messages returned by `msg_queue_extract` (most recent first) -/
  out   : List Nat := []
  -- ghost
  lst   : List Nat := []
  det   : List Nat := []
  comp  : List Nat := []
  snap  : List Nat := []

def setNext (s : St) (m : Nat) (v : Option Nat) : St :=
  { s with next := fun j => if j = m then v else s.next j }

/-- producer `p` starts `msg_queue_insert` of a new message with time stamp `ts`:
`msg->next = atomic_load(list_p)` -/
def insLoad (s : St) (p : Nat) (ts : Nat) : Option St :=
  match s.prod[p]? with
  | some .idle =>
    let m := s.nmsgs
    some { s with nmsgs := m + 1,
                  t := fun j => if j = m then ts else s.t j,
                  next := fun j => if j = m then s.head else s.next j,
                  prod := s.prod.set p (.loaded m) }
  | _ => none

/-- producer `p` executes `atomic_compare_exchange_weak(list_p, &msg->next, msg)`.
`spurious = true`: the weak CAS fails although the values are equal. -/
def insCas (s : St) (p : Nat) (spurious : Bool) : Option St :=
  match s.prod[p]? with
  | some (.loaded m) =>
    if !spurious && s.head == s.next m then
      some { s with head := some m, prod := s.prod.set p .idle, lst := m :: s.lst, comp := m :: s.comp }
    else
      -- failure: the current value of the list head is written into `msg->next`
      some (setNext s m s.head)
  | _ => none

/-- consumer: `m = atomic_exchange(&queues[rid].list, NULL)` -/
def swap (s : St) : Option St :=
  match s.cons with
  | .idle => some { s with cons := .walk s.head, head := none, det := s.lst, lst := [],
                           snap := s.lst ++ s.priv }
  | _ => none

/-- consumer: one iteration of `while(m != NULL) { heap_insert(mqp, m); m = m->next; }`
(or the loop exit when `m == NULL`) -/
def walk (s : St) : Option St :=
  match s.cons with
  | .walk (some m) => some { s with priv := m :: s.priv, cons := .walk (s.next m), det := s.det.tail }
  | .walk none => some { s with cons := .ready }
  | _ => none

/-- is `m` an element of minimal time stamp of the private heap? -/
def isMin (s : St) (m : Nat) : Bool := s.priv.contains m && s.priv.all (fun j => s.t m ≤ s.t j)

/-- consumer: the tail of `msg_queue_extract`: `heap_count ? heap_extract(mqp).m : NULL`.
`choice` resolves which of the minimal elements the real heap returns. -/
def extract (s : St) (choice : Option Nat) : Option St :=
  match s.cons, choice with
  | .ready, some m => if isMin s m then some { s with cons := .idle, priv := s.priv.erase m, out := m :: s.out } else none
  | .ready, none => if s.priv.isEmpty then some { s with cons := .idle } else none
  | _, _ => none

/-- minimum time stamp in the private heap, `SIMTIME_MAX` if empty (`heap_min(mqp).t`) -/
def minT (s : St) : Nat := s.priv.foldl (fun acc j => min acc (s.t j)) SIMTIME_MAX

/-- consumer: the tail of `msg_queue_time_peek`; the state only records that the operation is over -/
def peek (s : St) : Option (St × Nat) :=
  match s.cons with
  | .ready => some ({ s with cons := .idle }, minT s)
  | _ => none

/-- the actions of the transition system -/
inductive Act
  | insLoad (p : Nat) (ts : Nat)
  | insCas (p : Nat) (spurious : Bool)
  | swap
  | walk
  | extract (choice : Option Nat)
  | peek
deriving Repr

def step (s : St) : Act → Option St
  | .insLoad p ts => insLoad s p ts
  | .insCas p sp => insCas s p sp
  | .swap => swap s
  | .walk => walk s
  | .extract c => extract s c
  | .peek => (peek s).map (·.1)

def exec (s : St) : List Act → Option St
  | [] => some s
  | a :: as => match step s a with
    | some s' => exec s' as
    | none => none

/-- `n` producers, everything empty -/
def init (n : Nat) : St := { prod := List.replicate n .idle }

/-- messages currently owned by a producer inside `msg_queue_insert` -/
def pending (s : St) : List Nat :=
  s.prod.filterMap (fun pc => match pc with | .loaded m => some m | .idle => none)

end RootSim.MQueue
