import RootSim.Model.Rand
/-
Model of the rejection branch (`ia >= 6`) of `Gamma(unsigned ia)`, `src/lib/random/random.c`,
in both code versions (finding F14):

```c
	double x, y, s;
	double am = ia - 1;
	do {
		double v1, v2;
		do {
			v1 = Random();
			v2 = 2.0 * Random() - 1.0;
		} while(v1 * v1 + v2 * v2 > 1.0);                    // pinned tree   (fixed = false)
		} while(v1 == 0.0 || v1 * v1 + v2 * v2 > 1.0);       // repaired tree (fixed = true)
		y = v2 / v1;
		s = sqrt(2.0 * am + 1.0) * y;
		x = s + am;
	} while(x < 0.0 || Random() > (1.0 + y * y) * exp(am * log(x / am) - s));
	return x;
```

`*`, `+`, `-`, `/`, `>`, `<`, `==` are the concrete binary64 operations of `Model/Float.lean`
(round to nearest even; IEEE special cases); `sqrt`, `exp`, `log` are fields of `Libm`.  The
expressions are evaluated in `double` without contraction (no fused multiply-add): that is what
gcc emits for x86-64 (checked bit-exactly by the correspondence run).  Both loops take fuel;
their termination is NOT claimed anywhere.
-/
namespace RootSim.Rand
open RootSim.Float

/-- The facts about `sqrt` and `exp` that the theorems on the rejection branch ASSUME:

* `sqrt_ge_one`: for a finite `x ≥ 1`, `sqrt x` is finite and `1 ≤ sqrt x ≤ x` (a correctly
  rounded, hence monotone, `sqrt` satisfies it: `1` and `x` are doubles);
* `exp_not_neg`: `exp` never returns a negative number or `-inf` (used by the counter-example on
  the pinned code only: there the value compared with `Random()` is `+inf * exp(..)`). -/
structure LibmLaws2 (L : Libm) : Prop where
  sqrt_ge_one : ∀ (m s : Nat), 2 ^ s ≤ m →
    ∃ (a t : Nat), L.sqrt (.fin (m : Int) s) = .fin (a : Int) t ∧ 2 ^ t ≤ a ∧ a * 2 ^ s ≤ m * 2 ^ t
  exp_not_neg : ∀ v, (L.exp v).isNegF = false

/-- `double am = ia - 1;` (`unsigned` subtraction, no wrap for `ia ≥ 1`; exact conversion) -/
def gammaAm (ia : Nat) : FVal := FVal.ofInt ((ia - 1 : Nat) : Int)

/-- `2.0 * am + 1.0` -/
def gammaSqArg (am : FVal) : FVal := FVal.add (FVal.mul FVal.two am) FVal.one

/-- `v2 = 2.0 * Random() - 1.0` for a given value of `Random()` -/
def gammaV2 (r : FVal) : FVal := FVal.sub (FVal.mul FVal.two r) FVal.one

/-- the condition of the inner `do … while`: `[v1 == 0.0 ||] v1 * v1 + v2 * v2 > 1.0` -/
def gammaInnerCond (fixed : Bool) (v1 v2 : FVal) : Bool :=
  (fixed && v1.isZero) || FVal.gt (FVal.add (FVal.mul v1 v1) (FVal.mul v2 v2)) FVal.one

/-- The inner loop with at most `fuel` passes. Result: the accepted `(v1, v2)` (`none`: still
looping), the number `k` of passes made (two calls of `Random()` each), the generator. -/
def gammaInner (bitsFn : BitsFn) (fixed : Bool) : Nat → Rng → Except UB ((Option (FVal × FVal) × Nat) × Rng)
  | 0, g => .ok ((none, 0), g)
  | fuel + 1, g => do
    let (v1, g1) ← random bitsFn g
    let (r, g2) ← random bitsFn g1
    let v2 := gammaV2 r
    if gammaInnerCond fixed v1 v2 then do
      let ((o, k), g') ← gammaInner bitsFn fixed fuel g2
      pure ((o, k + 1), g')
    else pure ((some (v1, v2), 1), g2)

/-- `y = v2 / v1` -/
def gammaY (v1 v2 : FVal) : FVal := FVal.div v2 v1

/-- the right operand of `Random() > …`: `(1.0 + y * y) * exp(am * log(x / am) - s)` -/
def gammaRhs (L : Libm) (am y s x : FVal) : FVal :=
  FVal.mul (FVal.add FVal.one (FVal.mul y y))
    (L.exp (FVal.sub (FVal.mul am (L.log (FVal.div x am))) s))

/-- how one pass of the outer loop ends -/
inductive GammaOut where
  | stuck            -- the inner loop did not exit within its fuel
  | again            -- the outer condition holds: next pass
  | ret (x : FVal)   -- `return x`
deriving Repr, DecidableEq

/-- One pass of the outer loop, with two ghost fields: the number of calls of `Random()` made and
whether `v2 / v1` was evaluated with `v1 == 0.0` (a division by zero: `±inf`, or NaN for `0 / 0`). -/
structure GammaStep where
  out : GammaOut
  draws : Nat
  divZero : Bool
deriving Repr, DecidableEq

/-- One pass of the outer `do … while`. `||` short-circuits: the third `Random()` is not called
when `x < 0.0`. -/
def gammaBigIter (bitsFn : BitsFn) (L : Libm) (fixed : Bool) (am : FVal) (fi : Nat) (g : Rng) :
    Except UB (GammaStep × Rng) := do
  let ((o, k), g1) ← gammaInner bitsFn fixed fi g
  match o with
  | none => pure (⟨.stuck, 2 * k, false⟩, g1)
  | some (v1, v2) =>
    let y := gammaY v1 v2
    let s := FVal.mul (L.sqrt (gammaSqArg am)) y
    let x := FVal.add s am
    if FVal.lt x FVal.zero then pure (⟨.again, 2 * k, v1.isZero⟩, g1)
    else do
      let (r, g2) ← random bitsFn g1
      if FVal.gt r (gammaRhs L am y s x) then pure (⟨.again, 2 * k + 1, v1.isZero⟩, g2)
      else pure (⟨.ret x, 2 * k + 1, v1.isZero⟩, g2)

/-- Result of the whole function: the returned value (`none`: a loop ran out of fuel), and the
ghost fields accumulated over the passes. -/
structure GammaRes where
  value : Option FVal
  draws : Nat
  divZero : Bool
deriving Repr, DecidableEq

/-- the outer loop with at most `fo` passes, each inner loop with at most `fi` passes -/
def gammaBigLoop (bitsFn : BitsFn) (L : Libm) (fixed : Bool) (am : FVal) (fi : Nat) :
    Nat → Rng → Except UB (GammaRes × Rng)
  | 0, g => .ok (⟨none, 0, false⟩, g)
  | fo + 1, g => do
    let (st, g1) ← gammaBigIter bitsFn L fixed am fi g
    match st.out with
    | .ret x => pure (⟨some x, st.draws, st.divZero⟩, g1)
    | .stuck => pure (⟨none, st.draws, st.divZero⟩, g1)
    | .again => do
      let (r, g2) ← gammaBigLoop bitsFn L fixed am fi fo g1
      pure (⟨r.value, st.draws + r.draws, st.divZero || r.divZero⟩, g2)

/-- `Gamma(ia)` for `ia ≥ 6` -/
def gammaBig (bitsFn : BitsFn) (L : Libm) (fixed : Bool) (ia fi fo : Nat) (g : Rng) :
    Except UB (GammaRes × Rng) :=
  gammaBigLoop bitsFn L fixed (gammaAm ia) fi fo g

/-- **`Gamma(ia)`, the whole function**: the direct method (`gammaSmall`) for `ia < 6`, the
rejection method otherwise. -/
def gamma (bitsFn : BitsFn) (L : Libm) (fixed : Bool) (ia fi fo : Nat) (g : Rng) :
    Except UB (GammaRes × Rng) :=
  match gammaSmall bitsFn L ia g with
  | some (.ok (v, g')) => .ok (⟨some v, ia, false⟩, g')
  | some (.error e) => .error e
  | none => gammaBig bitsFn L fixed ia fi fo g

end RootSim.Rand
