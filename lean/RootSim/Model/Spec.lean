import RootSim.Model.Sim
/-!
# The sequential reference executor (textbook discrete-event simulation) and the
"global history at a GVT" interface of the optimistic runtime

This file is *specification*, not a model of C code: it defines

* the textbook sequential executor as a RELATION (`Step`, `Reachable`): keep a bag of pending
  events, repeatedly remove SOME pending event that is minimal for the event order
  `Event.before` (`msg_is_before` of `src/lp/msg.h`, see `Model/Msg.lean`), run the handler of its
  destination LP, remember it in the per-LP dispatch sequence, add the scheduled events to the bag;
* an executable instance of it (`seqStep`, `seqRunN`: always take the first minimal pending event);
* what the other layers of the framework establish about the optimistic (Time Warp) runtime at a
  GVT value `g` (`Hist`: hypotheses H1–H3 of work package D) and the causality contracts of the
  simulation model (`V2sBelow`, `TimeMono`, `V2s`).

The theorems relating the two are in `Props/PrefixUnique.lean`.
-/
namespace RootSim.Spec
open RootSim

variable {σ : Type}

/-- the `LP_INIT` event the runtime dispatches to LP `ℓ` before anything else (`lp_init`) -/
def initEv (ℓ : Nat) : Event := { dest := ℓ, t := 0, type := LP_INIT, payload := [] }

/-- point-wise update of a per-LP table -/
def upd {α : Type} (f : Nat → α) (i : Nat) (v : α) : Nat → α := fun j => if j = i then v else f j

/-! ### Folding the handler of one LP over a sequence of events -/

/-- state of LP `ℓ` after processing the events `l` (in order) from state `s` -/
def stFrom (M : SimModel σ) (ℓ : Nat) : σ → List Event → σ
  | s, [] => s
  | s, e :: l => stFrom M ℓ (M.handler ℓ s e).1 l

/-- the events scheduled by LP `ℓ` while processing the events `l` (in order) from state `s`,
in the order of the `ScheduleNewEvent` calls -/
def outsFrom (M : SimModel σ) (ℓ : Nat) : σ → List Event → List Event
  | _, [] => []
  | s, e :: l => (M.handler ℓ s e).2 ++ outsFrom M ℓ (M.handler ℓ s e).1 l

/-- state of LP `ℓ` after processing `l` from its pre-`LP_INIT` state -/
def lpState (M : SimModel σ) (ℓ : Nat) (l : List Event) : σ := stFrom M ℓ (M.init ℓ) l

/-- everything LP `ℓ` sends while processing `l` from its pre-`LP_INIT` state -/
def outs (M : SimModel σ) (ℓ : Nat) (l : List Event) : List Event := outsFrom M ℓ (M.init ℓ) l

/-- everything all LPs send when LP `ℓ` processes `D ℓ` -/
def outsAll (M : SimModel σ) (D : Nat → List Event) : List Event :=
  (List.range M.nLps).flatMap (fun ℓ => outs M ℓ (D ℓ))

/-- "strictly below the GVT `g`" -/
def below (g : Nat) (e : Event) : Bool := decide (e.t < g)

/-! ### The sequential executor as a relation -/

structure SeqState (σ : Type) where
  /-- scheduled, not yet dispatched events (a bag; kept as a list) -/
  pending : List Event
  /-- current state of every LP -/
  st      : Nat → σ
  /-- the events dispatched to every LP so far, in dispatch order (`LP_INIT` first) -/
  disp    : Nat → List Event

/-- run the handler of `e.dest` on `e` -/
def dispatch (M : SimModel σ) (s : SeqState σ) (e : Event) : SeqState σ :=
  let r := M.handler e.dest (s.st e.dest) e
  { pending := s.pending ++ r.2
    st      := upd s.st e.dest r.1
    disp    := upd s.disp e.dest (s.disp e.dest ++ [e]) }

/-- nothing dispatched yet -/
def start (M : SimModel σ) : SeqState σ := { pending := [], st := M.init, disp := fun _ => [] }

/-- initial state: `LP_INIT` dispatched to every LP, in LP order -/
def init (M : SimModel σ) : SeqState σ :=
  (List.range M.nLps).foldl (fun s ℓ => dispatch M s (initEv ℓ)) (start M)

/-- `e` is minimal in `l` for the event order: no element of `l` is before it -/
def Minimal (e : Event) (l : List Event) : Prop := ∀ e' ∈ l, Event.before e' e = false

instance (e : Event) (l : List Event) : Decidable (Minimal e l) := by unfold Minimal; infer_instance

/-- one step: dispatch SOME minimal pending event -/
inductive Step (M : SimModel σ) : SeqState σ → SeqState σ → Prop
  | mk (s : SeqState σ) (e : Event) (hmem : e ∈ s.pending) (hmin : Minimal e s.pending) :
      Step M s (dispatch M { s with pending := s.pending.erase e } e)

/-- the states of all sequential runs (all choices among simultaneous/incomparable events) -/
inductive Reachable (M : SimModel σ) : SeqState σ → Prop
  | init : Reachable M (init M)
  | step {s s' : SeqState σ} : Reachable M s → Step M s s' → Reachable M s'

/-! ### An executable instance -/

/-- the first minimal element -/
def pickMin (l : List Event) : Option Event :=
  l.find? (fun e => l.all (fun e' => !Event.before e' e))

def seqStep (M : SimModel σ) (s : SeqState σ) : Option (SeqState σ) :=
  match pickMin s.pending with
  | none => none
  | some e => some (dispatch M { s with pending := s.pending.erase e } e)

/-- at most `n` steps from `s` (stops when nothing is pending) -/
def seqRunFrom (M : SimModel σ) : Nat → SeqState σ → SeqState σ
  | 0, s => s
  | n + 1, s => match seqStep M s with
    | none => s
    | some s' => seqRunFrom M n s'

/-- the executable sequential run: at most `n` events after the `LP_INIT`s -/
def seqRunN (M : SimModel σ) (n : Nat) : SeqState σ := seqRunFrom M n (init M)

/-! ### What is known about the optimistic runtime at a GVT (hypotheses H1–H3) -/

/-- `G ℓ` = the events LP `ℓ` has processed and not undone, committed part first, when the GVT is `g`.
H2 (the LP state is the fold of the handler over `G ℓ` and what the LP has sent are exactly the
outputs of those invocations) is built into `lpState`/`outs`/`outsAll`. -/
structure Hist (M : SimModel σ) (G : Nat → List Event) (g : Nat) : Prop where
  /-- H1: the history starts with the `LP_INIT` event -/
  head   : ∀ ℓ, ℓ < M.nLps → (G ℓ).head? = some (initEv ℓ)
  /-- H1: the rest are model events for this LP -/
  dest   : ∀ ℓ, ℓ < M.nLps → ∀ e ∈ (G ℓ).tail, e.dest = ℓ ∧ e.type < LP_INIT
  /-- H1: processed in an order compatible with the event order -/
  sorted : ∀ ℓ, ℓ < M.nLps → (G ℓ).tail.Pairwise (fun a b => Event.before b a = false)
  /-- H3: below `g` everything sent has arrived and been processed, and nothing else -/
  arrived : ∀ ℓ, ℓ < M.nLps → ∀ e : Event, e.t < g →
    (G ℓ).tail.count e = ((outsAll M G).filter (fun o => decide (o.dest = ℓ))).count e

/-- V2s along a history, below `g`: every handler invocation of the history on an event below `g`
schedules only events strictly after their cause, for existing LPs. -/
def V2sBelow (M : SimModel σ) (G : Nat → List Event) (g : Nat) : Prop :=
  ∀ ℓ, ℓ < M.nLps → ∀ (P : List Event) (c : Event) (S : List Event), G ℓ = P ++ c :: S → c.t < g →
    ∀ o ∈ (M.handler ℓ (lpState M ℓ P) c).2, Event.before c o = true ∧ o.dest < M.nLps

/-- no handler invocation (in any state) schedules an event with a smaller time stamp than its cause
(weaker than contract V2) -/
def TimeMono (M : SimModel σ) : Prop :=
  ∀ (ℓ : Nat) (s : σ) (c : Event), ∀ o ∈ (M.handler ℓ s c).2, c.t ≤ o.t

/-- strict causality, globally: every scheduled event is strictly after its cause in the event order,
goes to an existing LP and has a model event type -/
def V2s (M : SimModel σ) : Prop :=
  ∀ (ℓ : Nat) (s : σ) (c : Event), ∀ o ∈ (M.handler ℓ s c).2,
    Event.before c o = true ∧ o.dest < M.nLps ∧ o.type < LP_INIT

/-! ### Executable checkers for the hypotheses (used by the non-vacuity examples) -/

/-- Boolean form of `Hist.arrived` for LP `ℓ`: only the events that occur on either side matter -/
def arrivedCheck (M : SimModel σ) (G : Nat → List Event) (g ℓ : Nat) : Bool :=
  let a := (G ℓ).tail
  let b := (outsAll M G).filter (fun o => decide (o.dest = ℓ))
  (a ++ b).all (fun e => !below g e || decide (a.count e = b.count e))

/-- Boolean form of `Hist` -/
def histCheck (M : SimModel σ) (G : Nat → List Event) (g : Nat) : Bool :=
  (List.range M.nLps).all (fun ℓ =>
    decide ((G ℓ).head? = some (initEv ℓ)) &&
    (G ℓ).tail.all (fun e => decide (e.dest = ℓ) && decide (e.type < LP_INIT)) &&
    decide ((G ℓ).tail.Pairwise (fun a b => Event.before b a = false)) &&
    arrivedCheck M G g ℓ)

/-! ### Example models (used by the non-vacuity examples of `Props/PrefixUnique.lean`) -/

/-- 2-LP ping-pong: every event below time 6 is answered with an event for the other LP one time
unit later, carrying the sender's event counter. Both LPs start a ball at `LP_INIT`. -/
def pingPong : SimModel Nat where
  nLps := 2
  init := fun _ => 0
  handler := fun ℓ s e =>
    (s + 1, if e.t < 6 then [{ dest := 1 - ℓ, t := e.t + 1, type := 1, payload := [s] }] else [])
  canEnd := fun _ _ => false

/-- fan-in: LPs 0 and 1 play ping-pong (type 2) and, below time 3, both also notify LP 2 with
IDENTICAL events (type 1, empty payload, same time stamp); LP 2 only counts. -/
def fanIn : SimModel Nat where
  nLps := 3
  init := fun _ => 0
  handler := fun ℓ s e =>
    (s + 1,
     if ℓ < 2 ∧ e.t < 3 then
       [{ dest := 2, t := e.t + 1, type := 1, payload := [] },
        { dest := 1 - ℓ, t := e.t + 1, type := 2, payload := [s] }]
     else [])
  canEnd := fun _ _ => false

/-- a model that satisfies contract V2 but NOT V2s: a type-1 event makes the other LP receive a
simultaneous event of identical content (incomparable with its cause) -/
def echo : SimModel Nat where
  nLps := 2
  init := fun _ => 0
  handler := fun ℓ s e =>
    (s + 1, if e.type = 1 then [{ dest := 1 - ℓ, t := e.t, type := 1, payload := e.payload }] else [])
  canEnd := fun _ _ => false

example : (seqRunN pingPong 5).disp 0 =
    [initEv 0, { dest := 0, t := 1, type := 1, payload := [0] },
     { dest := 0, t := 2, type := 1, payload := [1] }] ∧
    (seqRunN pingPong 5).pending =
      [{ dest := 0, t := 3, type := 1, payload := [2] },
       { dest := 0, t := 4, type := 1, payload := [3] }] ∧
    (seqRunN pingPong 5).st 1 = 4 := by decide

end RootSim.Spec
