/-!
# Model of `sync_thread_barrier` (`src/core/sync.c`)

```c
bool sync_thread_barrier(void) {
    static __thread unsigned phase;  static atomic_uint cs[2];
    atomic_uint *c = cs + (phase & 1U);
    if(phase & 2U) { l = fetch_add(c, -1) == 1;  do { r = load(c); } while(r); }
    else           { l = !fetch_add(c, 1);       do { r = load(c); } while(r != n_threads); }
    phase = (phase + 1) & 3U;  return l; }
```

Interleaving transition system, one step per shared-memory access, sequentially consistent
(the `memory_order_*` annotations are NOT modelled):

* `enter i`  — thread `i` executes its `atomic_fetch_add` (and computes `l`);
* `spinStep i` — thread `i` executes one `atomic_load` of its spin loop; if the loop guard lets it
  through it does `phase++` and returns `l` (`exit`), otherwise nothing changes (it spins).

The thread-local `phase` is `uses % 4` where `uses` counts the completed calls of the thread, so
counter index = `uses % 2` (`phase & 1`) and the direction is *down* iff `uses % 4 ≥ 2` (`phase & 2`).
The counters are C `unsigned` (32 bit): `fetch_add(c, -1)` is addition of `2^32 - 1` modulo `2^32`.
`flags` is ghost state: the leader result the thread obtained in each use it has entered so far.
-/
namespace RootSim.Barrier

/-- `UINT_MAX + 1` -/
@[reducible] def W : Nat := 4294967296

/-- one participating thread -/
structure Th where
  /-- number of completed calls; `phase = uses % 4` -/
  uses  : Nat
  /-- `false`: outside the barrier (next access is the `fetch_add` of use `uses`);
      `true`: inside the spin loop of use `uses` -/
  spin  : Bool
  /-- the local variable `l` of the call in progress -/
  l     : Bool
  /-- ghost: leader flags obtained in uses `0, 1, …` (one entry per executed `fetch_add`) -/
  flags : List Bool
deriving Repr, DecidableEq

structure St where
  /-- `global_config.n_threads` as read by the spin loop -/
  n   : Nat
  ths : List Th
  /-- `cs[0]`, `cs[1]` -/
  c0  : Nat
  c1  : Nat
deriving Repr, DecidableEq

/-- `!(phase & 2)`: use `k` counts upwards -/
def up (k : Nat) : Bool := k % 4 < 2

/-- `cs[phase & 1]` -/
def ctr (s : St) (k : Nat) : Nat := if k % 2 = 0 then s.c0 else s.c1

def setCtr (s : St) (k : Nat) (v : Nat) : St :=
  if k % 2 = 0 then { s with c0 := v } else { s with c1 := v }

/-- `atomic_fetch_add` on an `atomic_uint`: new value (wraps modulo `2^32`) -/
def fetchAdd (c d : Nat) : Nat := (c + d) % W

/-- value stored by the `fetch_add` of use `k` when the counter held `old` -/
def newCtr (k old : Nat) : Nat := if up k then fetchAdd old 1 else fetchAdd old (W - 1)

/-- `l` computed from the value returned by the `fetch_add` of use `k` -/
def leadOf (k old : Nat) : Bool := if up k then old == 0 else old == 1

/-- thread `i` performs the `atomic_fetch_add` of its current use -/
def enter (s : St) (i : Nat) : Option St :=
  match s.ths[i]? with
  | some t =>
    if t.spin then none else
      let old := ctr s t.uses
      let l := leadOf t.uses old
      some { (setCtr s t.uses (newCtr t.uses old)) with
             ths := s.ths.set i { t with spin := true, l := l, flags := t.flags ++ [l] } }
  | none => none

/-- the loop guard evaluated on the value `r` just loaded: leave the loop? -/
def exitOk (s : St) (t : Th) : Bool :=
  if up t.uses then ctr s t.uses == s.n else ctr s t.uses == 0

/-- thread `i` loads the counter, sees the exit condition, does `phase++` and returns `l` -/
def exit (s : St) (i : Nat) : Option St :=
  match s.ths[i]? with
  | some t =>
    if t.spin && exitOk s t then
      some { s with ths := s.ths.set i { t with uses := t.uses + 1, spin := false } }
    else none
  | none => none

/-- One scheduled step of thread `i` (what happens between two yield points of the real code):
the `fetch_add` if the thread is outside, otherwise one iteration of the spin loop
(leaving when the guard allows, a stutter step otherwise). `none`: no such thread. -/
def step (s : St) (i : Nat) : Option St :=
  match s.ths[i]? with
  | some t =>
    if t.spin then (if exitOk s t then exit s i else some s) else enter s i
  | none => none

/-- all threads outside, no use yet, both counters zero (static initialisation) -/
def init (N : Nat) : St :=
  { n := N, ths := List.replicate N { uses := 0, spin := false, l := false, flags := [] }, c0 := 0, c1 := 0 }

/-- has the thread executed the `fetch_add` of use `m`? -/
def entered (m : Nat) (t : Th) : Bool := (t.uses == m && t.spin) || t.uses > m

/-- number of threads that have entered use `m` -/
def cnt (s : St) (m : Nat) : Nat := s.ths.countP (entered m)

/-- has the thread returned from use `m`? -/
def passed (m : Nat) (t : Th) : Bool := t.uses > m

/-- ghost: was the thread told "leader" in use `k`? -/
def ledIn (k : Nat) (t : Th) : Bool := t.flags[k]? == some true

/-- number of threads that were handed `true` in use `k` (so far) -/
def leadCnt (s : St) (k : Nat) : Nat := s.ths.countP (ledIn k)

end RootSim.Barrier
