/-!
# Model of the thread level of the GVT reduction (`src/gvt/gvt.c`, property C04)

`gvt_thread_phase_run` (phases A, B, C, D with the shared counters `c_a`, `c_b`),
`gvt_start_processing`, `gvt_on_msg_extraction`, and the abstract view of the per-thread message
queue that `msg_queue_time_peek` / `msg_queue_extract` / `msg_queue_insert` give
(`src/datatypes/msg_queue.c`): `pending` is everything that has been inserted for the thread and
not yet extracted (public buffer + private heap; `msg_queue_time_peek` first moves the buffer into
the heap, so it sees all of it — that the concrete queue implements this is property C15).

`N` worker threads (`N = ths.length`, any `N`). Every step performs at most one access to shared
memory, steps of different threads interleave arbitrarily; the C11 `memory_order` annotations
are NOT modelled (sequentially consistent interleaving of the individual atomic accesses).
The message steps (`extract`, `emit`, `finish`) may happen at any time on any thread regardless of
its phase — an over-approximation of the worker loop, which interleaves 64 `process_msg` calls with
one `gvt_phase_run` call. The only coupling kept is the one the code really has: `gvt_phase_run` is
never called from inside `process_msg`, so a thread *starts* a round only between two messages
(`cur = none`).

Time stamps are keys (`Model/Msg.lean`): `Nat`, `SIMTIME_MAX ↦ INF`.
Ghost fields (`rd`, `wr`, `last`, `log`) do not influence the non-ghost fields.
-/
namespace RootSim.Gvt

/-- key of `SIMTIME_MAX` -/
def INF : Nat := 0x7FEFFFFFFFFFFFFF
/-- 2^32: `c_a`, `c_b` are `_Atomic rid_t` (= `unsigned`) -/
def W32 : Nat := 4294967296

/-- `enum thread_phase` -/
inductive Phase where
  | idle | A | B | C | D
deriving DecidableEq, Repr

/-- per-thread state -/
structure Th where
  /-- `thread_phase` -/
  phase   : Phase := .idle
  /-- `gvt_accumulator` -/
  acc     : Nat := 0
  /-- time stamps of the messages queued for this thread (buffer + heap) -/
  pending : List Nat := []
  /-- time stamp of the message being processed (extracted, accumulator already lowered) -/
  cur     : Option Nat := none
  /-- `reducing_p[rid]` -/
  r       : Nat := 0
  /-- ghost: number of completed rounds (phase-D steps) -/
  rd      : Nat := 0
  /-- ghost: number of phase-C steps (writes of `reducing_p[rid]`) -/
  wr      : Nat := 0
deriving DecidableEq, Repr

structure St where
  ths  : List Th
  /-- `c_a` -/
  ca   : Nat := 0
  /-- `c_b` -/
  cb   : Nat := 0
  /-- ghost: the value most recently read by a thread leaving phase D -/
  last : Nat := 0
  /-- ghost: every `(round, value)` read so far, newest first -/
  log  : List (Nat × Nat) := []
deriving DecidableEq, Repr

def St.init (n : Nat) : St := { ths := List.replicate n {} }

/-- fold of C's `min` macro over a non-empty array: `gvt_node_reduce` (and the heap minimum) -/
def minL : List Nat → Nat
  | [] => INF
  | x :: xs => xs.foldl min x

/-- `msg_queue_time_peek()`: lowest queued time stamp, `SIMTIME_MAX` if nothing is queued -/
def peek (p : List Nat) : Nat := minL p

/-- `gvt_node_reduce()` over the `reducing_p` slots of all threads: the value a thread reads when
it leaves phase D (thread-level view) -/
def gmin (s : St) : Nat := minL (s.ths.map (·.r))

inductive Act where
  /-- `gvt_start_processing()`: `idle → A`, `gvt_accumulator = SIMTIME_MAX`. In `gvt_phase_run` an
      idle thread does this when it sees `c_b ≠ 0`; thread 0 also when the timer fires. -/
  | start (i : Nat)
  | phaseA (i : Nat)
  | phaseB (i : Nat)
  | phaseC (i : Nat)
  | phaseD (i : Nat)
  /-- `msg_queue_extract` + `gvt_on_msg_extraction`: take the `k`-th queued message -/
  | extract (i k : Nat)
  /-- `msg_queue_insert` by thread `i` into the queue of thread `u` of a message with time stamp `x`
      (new event, re-queued event after a rollback, or anti-message) -/
  | emit (i u x : Nat)
  /-- `process_msg` returns -/
  | finish (i : Nat)
deriving DecidableEq, Repr

/-- One atomic step; `none` = the action is not enabled (guard false / thread does not exist). -/
def step (s : St) : Act → Option St
  | .start i =>
    match s.ths[i]? with
    | none => none
    | some t =>
      if t.phase = .idle ∧ t.cur = none ∧ (i = 0 ∨ s.cb ≠ 0) then
        some { s with ths := s.ths.set i { t with phase := .A, acc := INF } }
      else none
  | .phaseA i =>
    match s.ths[i]? with
    | none => none
    | some t =>
      if t.phase = .A ∧ s.ca = 0 then          -- if(atomic_load(&c_a)) break;
        some { s with
          ths := s.ths.set i { t with acc := min t.acc (peek t.pending), phase := .B }
          cb := (s.cb + 1) % W32 }
      else none
  | .phaseB i =>
    match s.ths[i]? with
    | none => none
    | some t =>
      if t.phase = .B ∧ s.cb = s.ths.length then   -- if(c_b != n_threads) break;
        some { s with ths := s.ths.set i { t with phase := .C }, ca := (s.ca + 1) % W32 }
      else none
  | .phaseC i =>
    match s.ths[i]? with
    | none => none
    | some t =>
      if t.phase = .C ∧ s.ca = s.ths.length then   -- if(c_a != n_threads) break;
        some { s with
          ths := s.ths.set i { t with r := min t.acc (peek t.pending), phase := .D, wr := t.wr + 1 }
          cb := (s.cb + W32 - 1) % W32 }
      else none
  | .phaseD i =>
    match s.ths[i]? with
    | none => none
    | some t =>
      if t.phase = .D ∧ s.cb = 0 then              -- if(atomic_load(&c_b)) break;
        some { s with
          ths := s.ths.set i { t with phase := .idle, rd := t.rd + 1 }
          ca := (s.ca + W32 - 1) % W32
          last := gmin s
          log := (t.rd, gmin s) :: s.log }
      else none
  | .extract i k =>
    match s.ths[i]? with
    | none => none
    | some t =>
      match t.cur, t.pending[k]? with
      | none, some e =>
        some { s with
          ths := s.ths.set i { t with pending := t.pending.eraseIdx k, acc := min t.acc e, cur := some e } }
      | _, _ => none
  | .emit i u x =>
    match s.ths[i]?, s.ths[u]? with
    | some t, some tu =>
      match t.cur with
      | some c =>
        if c ≤ x then some { s with ths := s.ths.set u { tu with pending := x :: tu.pending } }
        else none
      | none => none
    | _, _ => none
  | .finish i =>
    match s.ths[i]? with
    | none => none
    | some t =>
      match t.cur with
      | some _ => some { s with ths := s.ths.set i { t with cur := none } }
      | none => none

/-- run a schedule, `none` at the first action that is not enabled -/
def run (s : St) : List Act → Option St
  | [] => some s
  | a :: as => match step s a with
    | none => none
    | some s' => run s' as

/-- states reachable from the initial state of `n` threads whose queues hold `q` -/
inductive Reach (s0 : St) : St → Prop where
  | init : Reach s0 s0
  | step {s s' : St} {a : Act} : Reach s0 s → step s a = some s' → Reach s0 s'

end RootSim.Gvt
