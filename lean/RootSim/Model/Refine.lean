import RootSim.Model.LPFull
import RootSim.Model.TimeWarp
/-!
# The abstraction function from ONE concrete LP (`Model/LPFull.lean`) to the abstract Time Warp machine (`Model/TimeWarp.lean`)

Executable definitions only (they are what `Driver/Run.lean`'s `twshadow` code computes by hand: `Sys.twPastOk`, `Sys.twAct`):

* `absPast`   — the abstract history of the LP: committed ordinals (`base`, released by fossil collection) followed by the
                current past entries of `p_msgs`, as event CONTENTS;
* `sends`, `sentEvents`, `requeued`, `cancelled` — what an action trace of `LPFull.step` does to the abstract bags;
* `Kind`, `kindOf` — which abstract action (if any) a `process_msg` call is: decided by the flag word and the two searches
                (`handle_remote_anti_msg`'s first loop, `check_early_anti_messages`) exactly as `LPFull.stepPre` decides them.

The simulation theorems are in `Props/C01Refine.lean`, their lemmas in `Proofs/Refine.lean`.
-/
namespace RootSim.Refine
open RootSim RootSim.LP RootSim.LPFull

variable {σ : Type}

/-- abstract history of the LP: contents of the committed messages followed by the contents of the processed, not undone ones -/
def absPast (ev : Nat → Event) (base : List Nat) (s : St σ) : List Event := (base ++ pastMsgs s.lp.hist).map ev

/-- the `ScheduleNewEvent` calls of an action trace: (ordinal handed out by the allocator, content), local and remote, in order -/
def sends (acts : List Action) : List (Nat × Event) :=
  acts.filterMap (fun a => match a with | .send o e => some (o, e) | .rsend o e => some (o, e) | _ => none)

/-- the contents the step sends (what the abstract machine adds to `pending`) -/
def sentEvents (acts : List Action) : List Event := (sends acts).map (·.2)

/-- contents of the messages the step un-processes WITHOUT the `cancelled` mark, i.e. the ones that go back to the queue -/
def requeued (ev : Nat → Event) (acts : List Action) : List Event :=
  ((unprocs acts).filter (fun x => !x.2)).map (fun x => ev x.1)

/-- contents of the messages for which the step emits an anti-message (local flag or remote anti-message) -/
def cancelled (ev : Nat → Event) (acts : List Action) : List Event := (antis acts).map (fun x => ev x.msg)

/-- which abstract action a `process_msg` call is -/
inductive Kind where
  /-- ordinary message: `TW.exec` -/
  | exec
  /-- anti-message meets a message that is not processed (`f = 1`, early match): `TW.annihilate` -/
  | annihilate
  /-- anti-message for the processed message `x` (`f = 3`: `x = m`; remote: the entry found by (id, seq)): `TW.antiRollback` -/
  | antiRollback (x : Nat)
  /-- a remote anti-message that arrived before its event is parked: no abstract action (the anti-message stays in the bag) -/
  | park
deriving Repr, DecidableEq

/-- the dispatch of `LPFull.stepPre`, as a classification -/
def kindOf (look : Nat → Msg) (s : St σ) (m f : Nat) : Kind :=
  if f % 2 = 1 then
    if f > 3 then
      let k := findRemote look s.lp.hist (f + 1) (look m).mSeq
      if k = 0 then .park
      else match s.lp.hist[k - 1]? with
        | some x => .antiRollback x.msg
        | none => .park
    else if f = 3 then .antiRollback m
    else .annihilate
  else
    match (if f ≠ 0 then unlinkFirst (earlyHit look (f + 2) (look m).mSeq) s.earlyAntis else none) with
    | some _ => .annihilate
    | none => .exec

/-- the content the abstract action removes from `pending` -/
def Kind.takesPending (ev : Nat → Event) (m : Nat) : Kind → Option Event
  | .exec => some (ev m)
  | .annihilate => some (ev m)
  | _ => none

/-- the content the abstract action removes from `antis` -/
def Kind.takesAnti (ev : Nat → Event) (m : Nat) : Kind → Option Event
  | .annihilate => some (ev m)
  | .antiRollback x => some (ev x)
  | _ => none

/-- remove one occurrence, if asked to -/
def eraseO (l : List Event) : Option Event → List Event
  | none => l
  | some e => l.erase e

end RootSim.Refine
