/-!
Wire format of `src/distributed/mpi.c`: the receiver tells control messages, anti-messages and events apart
ONLY by the size of the incoming MPI message (`mpi_remote_msg_handle`):

    if (size <= msg_remote_anti_size()) { if (size == sizeof(enum msg_ctrl_code)) control else anti } else event

The sizes are functions of the layout of `struct lp_msg` (offsets measured from the real headers by the harness on every run).
-/
namespace RootSim.Wire

/-- the layout facts the harness prints (`offsetof`/`sizeof` from the real `lp/msg.h`, `distributed/control_msg.h`) -/
structure Layout where
  offDest : Nat       -- offsetof(struct lp_msg, dest)  = msg_preamble_size()
  offMSeq : Nat       -- offsetof(struct lp_msg, m_seq)
  offPl   : Nat       -- offsetof(struct lp_msg, pl)
  ctrlSz  : Nat       -- sizeof(enum msg_ctrl_code)
deriving Repr, DecidableEq

/-- `msg_remote_anti_size()` -/
def Layout.antiSize (L : Layout) : Nat := L.offMSeq - L.offDest + 4
/-- `msg_remote_size(msg)` for a payload of `pl` bytes -/
def Layout.eventSize (L : Layout) (pl : Nat) : Nat := L.offPl - L.offDest + pl

inductive Kind | control | anti | event
deriving Repr, DecidableEq

/-- the classification performed by `mpi_remote_msg_handle` -/
def classify (L : Layout) (size : Nat) : Kind :=
  if size ≤ L.antiSize then (if size = L.ctrlSz then .control else .anti) else .event

/-- what makes the size-based demultiplexing sound: fields are laid out in the order dest < m_seq < pl with at least the
4-byte `m_seq` and one more field between, and a control code is smaller than an anti-message -/
def Layout.ok (L : Layout) : Prop :=
  L.offDest < L.offMSeq ∧ L.offMSeq + 4 < L.offPl ∧ L.ctrlSz < L.antiSize

instance (L : Layout) : Decidable L.ok := by unfold Layout.ok; infer_instance

end RootSim.Wire
