/-
Model of LP placement and routing of ROOT-Sim/core:

* `src/lp/lp.h`  : the macros `lid_to_nid`, `lid_to_rid`
* `src/lp/lp.c`  : the macro `partition_start`, `lp_global_init` (node range + thread clamp),
                   the range computation of `lp_init`
* users          : `msg_queue_insert` (routes with `lid_to_rid`), `ScheduleNewEvent` (`lid_to_nid`),
                   `parallel_simulation` (starts `global_config.n_threads` workers *after* the clamp)

Two models are given.

1. The **Nat model** (`lidToNid`, `lidToRid`, `partStart`, `nodeFirst`, `threadFirst`, …): unbounded
   arithmetic, the two `while` loops of `partition_start` as structural / well-founded recursion with
   NO fuel.  The up-loop `while(part_fnc(_g) < part_id) ++_g;` does not terminate for an arbitrary
   `part_fnc`; the definition therefore takes the *proof* that the loop condition becomes false
   somewhere above every index (`CanExit`) — that is the exact termination condition of the C loop over
   unbounded integers.  Division by `part_cnt`, `global_config.lps`, `n_lps_node` is guarded by
   positivity proofs; the `…?` wrappers perform the checks at run time and return the explicit error
   `Err.divByZero` (no `x / 0 = 0` totalisation reaches a theorem).

2. The **fixed-width model** (`…U64`): every operation typed as clang's AST shows for the macro
   expansions in `lp.c` (`clang-14 -Xclang -ast-dump` of wrappers around the real macros):
   * `lid_to_nid(g)` = `(int)((uint64)g * (uint64)(int)n_nodes / lps)`; inside `partition_start` it
     is compared with `(int)(nid + 1)` as **signed 32 bit**;
   * `lid_to_rid(g)` = `(unsigned)((g - lid_node_first) * (uint64)(unsigned)n_threads / n_lps_node)`;
     compared with `(unsigned)(rid + 1)` as **unsigned 32 bit**;
   * `_g` is `lp_id_t` = `uint64_t`: `(uint64)part_id * tot / (uint64)part_cnt + start`, `--_g`,
     `++_g` wrap modulo 2^64.
   The up-loop over `uint64_t` lives in a finite cyclic state space: it scans `g, …, 2^64-1, 0, …,
   g-1` and, if the condition is true everywhere, loops forever: `Err.nonterm`.
-/
namespace RootSim.Place

/-- explicit error results of the placement code -/
inductive Err where
  /-- a division by `part_cnt`, `global_config.lps`, `n_lps_node` or `n_threads` that is zero (SIGFPE) -/
  | divByZero
  /-- `lp_global_init` clamped `n_threads` to 0: `parallel_simulation` starts no worker on this rank -/
  | noThreads
  /-- the `while(part_fnc(_g) < part_id) ++_g;` loop never exits (all 2^64 indexes scanned) -/
  | nonterm
deriving Repr, DecidableEq

def Err.str : Err → String
  | .divByZero => "err:divByZero"
  | .noThreads => "err:noThreads"
  | .nonterm => "err:nonterm"

/-! ## Nat model -/

/-- `lid_to_nid(lp_id)` = `lp_id * n_nodes / global_config.lps` (lp.h) -/
def lidToNid (lps n lp : Nat) : Nat := lp * n / lps

/-- `lid_to_rid(lp_id)` = `(lp_id - lid_node_first) * global_config.n_threads / n_lps_node` (lp.h) -/
def lidToRid (first m t lp : Nat) : Nat := (lp - first) * t / m

/-- first loop of `partition_start`: `while(_g > start_i && COND(_g)) --_g;`
(`c g` is the typed comparison `part_fnc(_g) >= part_id`) -/
def loopDownB (c : Nat → Bool) (start : Nat) : Nat → Nat
  | 0 => 0
  | g + 1 => if start < g + 1 && c (g + 1) then loopDownB c start g else g + 1

/-- exact termination condition of the second loop of `partition_start` over unbounded integers:
above every index there is one where `part_fnc(_g) < part_id` is false -/
def CanExit (fnc : Nat → Nat) (p : Nat) : Prop := ∀ g, ∃ b, g ≤ b ∧ p ≤ fnc b

theorem exists_least {P : Nat → Prop} (h : ∃ b, P b) : ∃ b, P b ∧ ∀ c, P c → b ≤ c := by
  obtain ⟨b, hb⟩ := h
  induction b using Nat.strongRecOn with
  | _ b ih =>
    by_cases hx : ∃ c, c < b ∧ P c
    · obtain ⟨c, hc, hp⟩ := hx
      exact ih c hc hp
    · refine ⟨b, hb, fun c hc => ?_⟩
      apply Nat.le_of_not_lt
      intro hlt
      exact hx ⟨c, hlt, hc⟩

open Classical in
/-- termination measure of `loopUp` (proof-only): distance from `g` to the first exit index -/
noncomputable def exitDist (fnc : Nat → Nat) (p g : Nat) : Nat :=
  if h : ∃ b, g ≤ b ∧ p ≤ fnc b then (exists_least h).choose - g else 0

theorem exit_next {fnc : Nat → Nat} {p g : Nat} (h : ∃ b, g ≤ b ∧ p ≤ fnc b) (hlt : fnc g < p) :
    ∃ b, g + 1 ≤ b ∧ p ≤ fnc b := by
  obtain ⟨b, hb, hp⟩ := h
  refine ⟨b, ?_, hp⟩
  have : b ≠ g := by intro e; subst e; omega
  omega

theorem exitDist_dec (fnc : Nat → Nat) (p g : Nat) (h : ∃ b, g ≤ b ∧ p ≤ fnc b) (hlt : fnc g < p) :
    exitDist fnc p (g + 1) < exitDist fnc p g := by
  have h' := exit_next h hlt
  unfold exitDist
  rw [dif_pos h, dif_pos h']
  have s := (exists_least h).choose_spec
  have s' := (exists_least h').choose_spec
  generalize (exists_least h).choose = b at s
  generalize (exists_least h').choose = b' at s'
  have hne : b ≠ g := by intro e; subst e; omega
  have := s'.2 b ⟨by omega, s.1.2⟩
  omega

/-- second loop of `partition_start`: `while(part_fnc(_g) < part_id) ++_g;` — well-founded
recursion, no fuel; `h` is the reason why the C loop terminates from `g`. -/
def loopUp (fnc : Nat → Nat) (p g : Nat) (h : ∃ b, g ≤ b ∧ p ≤ fnc b) : Nat :=
  if hlt : fnc g < p then loopUp fnc p (g + 1) (exit_next h hlt) else g
termination_by exitDist fnc p g
decreasing_by exact exitDist_dec fnc p g h hlt

/-- The macro `partition_start(part_id, part_cnt, part_fnc, start_i, tot_i)` of lp.c:
```
lp_id_t _g = part_id * tot_i / part_cnt + start_i;
while(_g > start_i && part_fnc(_g) >= part_id) --_g;
while(part_fnc(_g) < part_id) ++_g;
_g
```
`hc` guards the division, `hx` is the termination condition of the second loop. -/
def partStart (partId partCnt : Nat) (fnc : Nat → Nat) (start tot : Nat)
    (_hc : 0 < partCnt) (hx : CanExit fnc partId) : Nat :=
  let g0 := partId * tot / partCnt + start
  let g1 := loopDownB (fun g => decide (partId ≤ fnc g)) start g0
  loopUp fnc partId g1 (hx g1)

theorem lidToRid_canExit {m t : Nat} (first : Nat) (hm : 0 < m) (ht : 0 < t) (p : Nat) :
    CanExit (lidToRid first m t) p := by
  intro g
  refine ⟨g + first + p * m, by omega, ?_⟩
  unfold lidToRid
  rw [Nat.le_div_iff_mul_le hm]
  calc p * m ≤ g + first + p * m - first := by omega
    _ ≤ (g + first + p * m - first) * t := Nat.le_mul_of_pos_right _ ht

theorem lidToNid_canExit {lps n : Nat} (hl : 0 < lps) (hn : 0 < n) (p : Nat) :
    CanExit (lidToNid lps n) p := by
  intro g
  refine ⟨g + p * lps, by omega, ?_⟩
  unfold lidToNid
  rw [Nat.le_div_iff_mul_le hl]
  calc p * lps ≤ g + p * lps := by omega
    _ ≤ (g + p * lps) * n := Nat.le_mul_of_pos_right _ hn

/-- `partition_start(k, n_nodes, lid_to_nid, 0, global_config.lps)`; `lp_global_init` uses it with
`k = nid` (→ `lid_node_first`) and `k = nid + 1`. -/
def nodeFirst (lps n : Nat) (hl : 0 < lps) (hn : 0 < n) (k : Nat) : Nat :=
  partStart k n (lidToNid lps n) 0 lps hn (lidToNid_canExit hl hn k)

/-- `n_lps_node = partition_start(nid + 1, …) - lid_node_first` -/
def nLpsNode (lps n : Nat) (hl : 0 < lps) (hn : 0 < n) (k : Nat) : Nat :=
  nodeFirst lps n hl hn (k + 1) - nodeFirst lps n hl hn k

/-- the clamp of `lp_global_init`: `if(n_lps_node < n_threads) n_threads = n_lps_node;` -/
def clampThreads (t m : Nat) : Nat := if m < t then m else t

/-- `partition_start(r, global_config.n_threads, lid_to_rid, lid_node_first, n_lps_node)`; `lp_init`
uses it with `r = rid` (→ `lid_thread_first`) and `r = rid + 1` (→ `lid_thread_end`). -/
def threadFirst (first m t : Nat) (hm : 0 < m) (ht : 0 < t) (r : Nat) : Nat :=
  partStart r t (lidToRid first m t) first m ht (lidToRid_canExit first hm ht r)

/-- `lid_thread_end` -/
def threadEnd (first m t : Nat) (hm : 0 < m) (ht : 0 < t) (r : Nat) : Nat :=
  threadFirst first m t hm ht (r + 1)

/-- the per-rank globals written by `lp_global_init`:
`lid_node_first`, `n_lps_node`, `global_config.n_threads` (after the clamp) -/
structure NodeCfg where
  first : Nat
  m : Nat
  t : Nat
deriving Repr, DecidableEq

/-- `lp_global_init()` on rank `k` of `n` with `lps` LPs and `t` requested threads.
`RootsimInit` rejects `lps = 0` and MPI gives `n ≥ 1`; otherwise SIGFPE. -/
def lpGlobalInit? (lps n t k : Nat) : Except Err NodeCfg :=
  if h : 0 < lps ∧ 0 < n then
    let m := nLpsNode lps n h.1 h.2 k
    .ok { first := nodeFirst lps n h.1 h.2 k, m := m, t := clampThreads t m }
  else .error .divByZero

/-- range computation of `lp_init()` on thread `r`: `(lid_thread_first, lid_thread_end)`.
`rid * n_lps_node / n_threads` divides by `n_threads`, `lid_to_rid` divides by `n_lps_node`. -/
def lpInit? (c : NodeCfg) (r : Nat) : Except Err (Nat × Nat) :=
  if h : 0 < c.m ∧ 0 < c.t then
    .ok (threadFirst c.first c.m c.t h.1 h.2 r, threadEnd c.first c.m c.t h.1 h.2 r)
  else .error .divByZero

/-- `lid_to_nid` as used by `ScheduleNewEvent` -/
def lidToNid? (lps n lp : Nat) : Except Err Nat :=
  if 0 < lps then .ok (lidToNid lps n lp) else .error .divByZero

/-- `lid_to_rid` as used by `msg_queue_insert` on a rank with globals `c` -/
def lidToRid? (c : NodeCfg) (lp : Nat) : Except Err Nat :=
  if 0 < c.m then .ok (lidToRid c.first c.m c.t lp) else .error .divByZero

/-- What rank `k` does in `parallel_simulation`: `lp_global_init`, then one worker per
`global_config.n_threads` (clamped), each running `lp_init` (and later `lp_fini`) over its range.
Result: the list, indexed by `rid`, of the ranges `[lid_thread_first, lid_thread_end)`.
With `n_lps_node = 0` the clamp gives 0 threads: `thrs[0]`, no `thread_start`, the rank never reaches
`mpi_node_barrier` — `Err.noThreads` (finding F9). -/
def nodeWorkers? (lps n t k : Nat) : Except Err (List (Nat × Nat)) :=
  match lpGlobalInit? lps n t k with
  | .error e => .error e
  | .ok c =>
    if h : 0 < c.m ∧ 0 < c.t then
      .ok ((List.range c.t).map fun r =>
        (threadFirst c.first c.m c.t h.1 h.2 r, threadEnd c.first c.m c.t h.1 h.2 r))
    else if c.t = 0 then .error .noThreads
    else .error .divByZero

/-- `(k, r)` owns `lp`: rank `k` starts a worker `r` whose `lp_init` / `lp_fini` loops (and hence
`process_msg`, which only sees queue `r` of rank `k`) range over an interval containing `lp`. -/
def Owner (lps n t k r lp : Nat) : Prop :=
  ∃ ws, nodeWorkers? lps n t k = .ok ws ∧ ∃ rg, ws[r]? = some rg ∧ rg.1 ≤ lp ∧ lp < rg.2

/-- what the runtime computes to deliver an event to `lp`: `lid_to_nid` in `ScheduleNewEvent`, then
`lid_to_rid` in `msg_queue_insert` on the destination rank (with that rank's globals). -/
def route (lps n t lp : Nat) : Except Err (Nat × Nat) :=
  match lidToNid? lps n lp with
  | .error e => .error e
  | .ok k =>
    match lpGlobalInit? lps n t k with
    | .error e => .error e
    | .ok c =>
      match lidToRid? c lp with
      | .error e => .error e
      | .ok r => .ok (k, r)

/-! ## Fixed-width model -/

/-- value of a `uint64_t` expression -/
def wrap64 (x : Nat) : Nat := x % 2 ^ 64
/-- value of an `unsigned` expression -/
def wrap32 (x : Nat) : Nat := x % 2 ^ 32

/-- `(uint64_t)(int)x` for the 32-bit pattern `x`: sign extension -/
def sext32 (x : Nat) : Nat :=
  let y := x % 2 ^ 32
  if y < 2 ^ 31 then y else y + (2 ^ 64 - 2 ^ 32)

/-- `(int)x` for a `uint64_t` (gcc/clang: reduce modulo 2^32 into the signed range) -/
def toI32 (x : Nat) : Int :=
  let y : Nat := x % 2 ^ 32
  if y < 2 ^ 31 then Int.ofNat y else Int.ofNat y - 2 ^ 32

/-- `lid_to_nid(lp)` typed: `(nid_t)((lp) * (uint64_t)n_nodes / global_config.lps)`;
`n` is the 32-bit pattern of the `int n_nodes`. Caller guards `lps ≠ 0`. -/
def lidToNidU64 (lps n lp : Nat) : Int :=
  toI32 (wrap64 (wrap64 lp * sext32 n) / wrap64 lps)

/-- `lid_to_rid(lp)` typed:
`(rid_t)(((lp) - lid_node_first) * (uint64_t)global_config.n_threads / n_lps_node)`.
Caller guards `m ≠ 0`. -/
def lidToRidU64 (first m t lp : Nat) : Nat :=
  wrap32 (wrap64 (wrap64 (wrap64 lp + 2 ^ 64 - wrap64 first) * wrap32 t) / wrap64 m)

/-- scan `g, g+1, …, lim-1` while `c` holds: first index where it fails, `none` if `lim` is reached -/
def scanUp (c : Nat → Bool) (lim g : Nat) : Option Nat :=
  if g < lim then (if c g then scanUp c lim (g + 1) else some g) else none
termination_by lim - g

/-- second loop of `partition_start` over `uint64_t`: `while(COND(_g)) ++_g;` with wrap-around.
Scans `g … 2^64-1`, then `0 … g-1`; if `COND` holds on all 2^64 values the C loop never exits. -/
def loopUpU64 (c : Nat → Bool) (g : Nat) : Except Err Nat :=
  match scanUp c (2 ^ 64) g with
  | some r => .ok r
  | none =>
    match scanUp c g 0 with
    | some r => .ok r
    | none => .error .nonterm

/-- `partition_start` typed. `p` is the value of `(part_id)` in its own type (compared with
`part_fnc(_g)` in that type: both `int` for nodes, both `unsigned` for threads), `pid64`/`cnt64` are
`(uint64_t)(part_id)` / `(uint64_t)(part_cnt)` as converted for the initial guess. -/
def partStartU64 (p : Int) (pid64 cnt64 : Nat) (fnc : Nat → Int) (start tot : Nat) : Except Err Nat :=
  if cnt64 = 0 then .error .divByZero
  else
    let g0 := wrap64 (wrap64 (pid64 * wrap64 tot) / cnt64 + wrap64 start)
    let g1 := loopDownB (fun g => decide (p ≤ fnc g)) (wrap64 start) g0
    loopUpU64 (fun g => decide (fnc g < p)) g1

/-- `partition_start(k, n_nodes, lid_to_nid, 0, global_config.lps)` typed; `k`, `n` are the 32-bit
patterns of the `int`s `nid` / `nid + 1` and `n_nodes`. -/
def nodeFirstU64 (lps n k : Nat) : Except Err Nat :=
  if wrap64 lps = 0 then .error .divByZero
  else partStartU64 (toI32 k) (sext32 k) (sext32 n) (lidToNidU64 lps n) 0 lps

/-- `lp_global_init` typed (the `unsigned` assignment `n_threads = n_lps_node` truncates) -/
def lpGlobalInitU64 (lps n t k : Nat) : Except Err NodeCfg :=
  match nodeFirstU64 lps n k with
  | .error e => .error e
  | .ok first =>
    match nodeFirstU64 lps n (k + 1) with
    | .error e => .error e
    | .ok e =>
      let m := wrap64 (e + 2 ^ 64 - first)
      .ok { first := first, m := m, t := if m < wrap32 t then wrap32 m else wrap32 t }

/-- `partition_start(r, global_config.n_threads, lid_to_rid, lid_node_first, n_lps_node)` typed;
`r` is the value of the `unsigned` `rid` / `rid + 1`. -/
def threadFirstU64 (first m t r : Nat) : Except Err Nat :=
  if wrap32 t = 0 ∨ wrap64 m = 0 then .error .divByZero
  else partStartU64 (Int.ofNat (wrap32 r)) (wrap32 r) (wrap32 t)
    (fun g => Int.ofNat (lidToRidU64 first m t g)) first m

/-- range computation of `lp_init` typed -/
def lpInitU64 (c : NodeCfg) (r : Nat) : Except Err (Nat × Nat) :=
  match threadFirstU64 c.first c.m c.t r with
  | .error e => .error e
  | .ok a =>
    match threadFirstU64 c.first c.m c.t (r + 1) with
    | .error e => .error e
    | .ok b => .ok (a, b)

def lidToNidU64? (lps n lp : Nat) : Except Err Int :=
  if wrap64 lps = 0 then .error .divByZero else .ok (lidToNidU64 lps n lp)

def lidToRidU64? (c : NodeCfg) (lp : Nat) : Except Err Nat :=
  if wrap64 c.m = 0 then .error .divByZero else .ok (lidToRidU64 c.first c.m c.t lp)

end RootSim.Place
