/-
How many times does each thread call `stats_on_gvt`?

Model of the part of the runtime that decides it, for a single node (`n_nodes = 1`, `no_mpi.c`):
* the worker loop of `parallel_thread_run` (`src/parallel/parallel.c`): loop test
  `termination_cant_end()`, a batch of 64 `process_msg()`, one `gvt_phase_run()` call whose non-negative
  result is handed to `termination_on_gvt` and `stats_on_gvt`;
* `gvt_phase_run`, `gvt_node_phase_run`, `gvt_thread_phase_run` (`src/gvt/gvt.c`) with their shared
  counters `c_a c_b c_c c_d`, `gvt_nodes`, `total_msg_received`, and the timer test of thread 0;
* `termination_on_gvt` / `RootsimStop` (`src/gvt/termination.c`) as far as `thr_to_end` and
  `nodes_to_end` are concerned;
* the flush loop at the head of `gvt_msg_drain`, which completes a pending round and, on the pinned tree,
  *discards* its value (finding F6); on the repaired tree (`Cfg.fix6 = true`) it hands the value to
  `stats_on_gvt` like the worker loop does.

Everything else (event processing, the GVT value itself, the two extra drain rounds, which never reach
`stats_on_gvt`) is abstracted: a thread "votes" when it receives its `voteAt`-th value, and calls
`RootsimStop()` from an event handler in its `stopBatch`-th batch.

One `act` is one atomic block of one thread; blocks are small enough that every interleaving of
blocks is an execution of the real program (each block contains at most one access to a shared
variable that another thread may be waiting on, or is a sequence that the other threads do not
interrupt in the chosen schedule). A `grant` is the coarser unit between two `VERIF_YIELD` points
(`VP_WORKER_LOOP`, `VP_GVT_PHASE`), which the harness can replay on the real code.
-/
namespace RootSim.StatsLoop

/-- where a thread is in `parallel_thread_run` / `gvt_msg_drain` -/
inductive Pc where
  | loopTop    -- about to evaluate `termination_cant_end()`
  | batch      -- test passed, at `VERIF_YIELD(VP_WORKER_LOOP)`: about to run 64 × `process_msg()`
  | gvtCall    -- at `VERIF_YIELD(VP_GVT_PHASE)` of the call in the worker loop
  | flushTop   -- in `gvt_msg_drain`: about to test `thread_phase != thread_phase_idle`
  | flushCall  -- at `VERIF_YIELD(VP_GVT_PHASE)` of a call in the flush loop (value discarded / recorded: `Cfg.fix6`)
  | barrier    -- reached `sync_thread_barrier()` in `gvt_msg_drain`
deriving DecidableEq, Repr

structure Th where
  pc : Pc := .loopTop
  tphase : Nat := 0      -- `enum thread_phase`: 0 idle, 1 A, 2 B, 3 C, 4 D
  nphase : Nat := 0      -- `enum node_phase`: 0 redux_first .. 8 done
  records : Nat := 0     -- calls of `stats_on_gvt`: values returned inside the worker loop (+ flush loop if `fix6`)
  batches : Nat := 0
  discarded : Nat := 0   -- values returned to the flush loop and dropped (always 0 if `fix6`)
deriving DecidableEq, Repr

structure Sh where
  cA : Nat := 0
  cB : Nat := 0
  cC : Nat := 0
  cD : Nat := 0
  gvtNodes : Nat := 0
  totalRecv : Int := 0       -- `total_msg_received`
  nodesToEnd : Int := 1      -- `nodes_to_end` (n_nodes = 1)
  thrToEnd : Nat             -- `thr_to_end`
  timer : Nat := 1           -- `gvt_timer = timer_new()` in `gvt_global_init`
  clock : Nat := 1           -- the harness clock: one tick per `timer_new()` call
  /-- ghost (never read by a transition): GVT rounds started by thread 0 (`gvt_nodes` raised) -/
  started : Nat := 0
  /-- ghost (never read by a transition): GVT rounds every thread has been through
  (`gvt_nodes` lowered by the last thread leaving `node_done`) -/
  completed : Nat := 0
deriving DecidableEq, Repr

structure Cfg where
  n : Nat                    -- `global_config.n_threads`
  period : Nat               -- `global_config.gvt_period`
  stopBatch : Nat → Nat      -- thread `i` calls `RootsimStop()` in its `stopBatch i`-th batch (0: never)
  voteAt : Nat → Nat         -- `termination_on_gvt` of thread `i` votes at its `voteAt i`-th value (0: never)
  /-- The variant of `gvt_msg_drain`. `false` = the pinned tree: the flush loop drops the value returned by
  `gvt_phase_run()`. `true` = the repaired tree (`repo_patches/f6_flush_round_record.diff`):
  `if(flushed_gvt >= 0.0) stats_on_gvt(flushed_gvt);` - only `stats_on_gvt`, not `termination_on_gvt`. -/
  fix6 : Bool := false

structure St where
  sh : Sh
  ths : List Th
deriving DecidableEq, Repr

def init (cfg : Cfg) : St := { sh := { thrToEnd := cfg.n }, ths := List.replicate cfg.n {} }

/-- `gvt_thread_phase_run` -/
def threadPhaseRun (cfg : Cfg) (sh : Sh) (th : Th) : Bool × Sh × Th :=
  match th.tphase with
  | 1 => if sh.cA ≠ 0 then (false, sh, th)
         else (false, { sh with cB := sh.cB + 1 }, { th with tphase := 2 })
  | 2 => if sh.cB ≠ cfg.n then (false, sh, th)
         else (false, { sh with cA := sh.cA + 1 }, { th with tphase := 3 })
  | 3 => if sh.cA ≠ cfg.n then (false, sh, th)
         else (false, { sh with cB := sh.cB - 1 }, { th with tphase := 4 })
  | 4 => if sh.cB ≠ 0 then (false, sh, th)
         else (true, { sh with cA := sh.cA - 1 }, { th with tphase := 0 })
  | _ => (false, sh, th)

/-- `gvt_node_phase_run` with `n_nodes = 1` and the `no_mpi.c` collectives (complete at once, no
remote messages: `remote_msg_to_receive = 0`, `remote_msg_received[] = 0`) -/
def nodePhaseRun (cfg : Cfg) (sh : Sh) (th : Th) : Bool × Sh × Th :=
  match th.nphase with
  | 0 | 4 =>
    match threadPhaseRun cfg sh th with
    | (false, sh', th') => (false, sh', th')
    | (true, sh', th') => (false, sh', { th' with tphase := 1, nphase := th.nphase + 1 })
  | 1 =>
    if sh.cA ≠ 0 then (false, sh, th)
    else
      let sh' := { sh with totalRecv := sh.totalRecv + 1, cC := sh.cC + 1 }
      if sh.cC ≠ cfg.n - 1 then (false, sh', { th with nphase := 3 })
      else (false, sh', { th with nphase := 2 })
  | 2 => (false, { sh with totalRecv := sh.totalRecv - (cfg.n : Int) }, { th with nphase := 3 })
  | 3 => if sh.totalRecv ≠ 0 then (false, sh, th) else (false, sh, { th with nphase := 4 })
  | 5 =>
    if sh.cD ≠ 0 then (false, { sh with cD := sh.cD + 1 }, { th with nphase := 7 })
    else (false, { sh with cD := sh.cD + 1 }, { th with nphase := 6 })
  | 6 =>
    if sh.cD ≠ cfg.n then (false, sh, th)
    else (true, { sh with cC := sh.cC - cfg.n }, { th with nphase := 8 })
  | 7 => if sh.cC ≠ 0 then (false, sh, th) else (true, sh, { th with nphase := 8 })
  | 8 =>
    (false, { sh with cD := sh.cD - 1, gvtNodes := if sh.cD = 1 then sh.gvtNodes - 1 else sh.gvtNodes,
                      completed := if sh.cD = 1 then sh.completed + 1 else sh.completed },
     { th with nphase := 0, tphase := 0 })
  | _ => (false, sh, th)

/-- `gvt_phase_run` on thread `i`; the Boolean is "a GVT value (`>= 0`) was returned" -/
def gvtPhaseRun (cfg : Cfg) (i : Nat) (sh : Sh) (th : Th) : Bool × Sh × Th :=
  if th.tphase ≠ 0 then nodePhaseRun cfg sh th
  else
    let th1 := if sh.cB ≠ 0 then { th with tphase := 1 } else th
    if i = 0 then
      let t := sh.clock + 1
      let sh1 := { sh with clock := t }
      if cfg.period < t - sh.timer ∧ sh.gvtNodes = 0 then
        (false, { sh1 with timer := t, gvtNodes := sh.gvtNodes + 1, started := sh.started + 1 }, { th1 with tphase := 1 })
      else (false, sh1, th1)
    else (false, sh, th1)

/-- one atomic block of thread `i` -/
def act (cfg : Cfg) (st : St) (i : Nat) : St :=
  match st.ths[i]? with
  | none => st
  | some th =>
    match th.pc with
    | .loopTop =>
      { st with ths := st.ths.set i { th with pc := if st.sh.nodesToEnd > 0 then .batch else .flushTop } }
    | .batch =>
      let b := th.batches + 1
      -- RootsimStop(): n_nodes + 1 termination control messages
      let sh' := if cfg.stopBatch i = b then { st.sh with nodesToEnd := st.sh.nodesToEnd - 2 } else st.sh
      { sh := sh', ths := st.ths.set i { th with batches := b, pc := .gvtCall } }
    | .gvtCall =>
      match gvtPhaseRun cfg i st.sh th with
      | (false, sh', th') => { sh := sh', ths := st.ths.set i { th' with pc := .loopTop } }
      | (true, sh', th') =>
        -- termination_on_gvt, then stats_on_gvt
        let k := th'.records + 1
        let sh'' := if cfg.voteAt i = k then
            { sh' with thrToEnd := sh'.thrToEnd - 1,
                       nodesToEnd := if sh'.thrToEnd = 1 then sh'.nodesToEnd - 1 else sh'.nodesToEnd }
          else sh'
        { sh := sh'', ths := st.ths.set i { th' with records := k, pc := .loopTop } }
    | .flushTop =>
      { st with ths := st.ths.set i { th with pc := if th.tphase ≠ 0 then .flushCall else .barrier } }
    | .flushCall =>
      match gvtPhaseRun cfg i st.sh th with
      | (v, sh', th') =>
        { sh := sh', ths := st.ths.set i { th' with discarded := th'.discarded + (if v && !cfg.fix6 then 1 else 0),
                                                     records := th'.records + (if v && cfg.fix6 then 1 else 0),
                                                     pc := .flushTop } }
    | .barrier => st

/-- run thread `i` on until it stands at a yield point (`batch`, `gvtCall`, `flushCall`) or the barrier -/
def pcOf (st : St) (i : Nat) : Option Pc := (st.ths[i]?).map (fun th => th.pc)

def settle (cfg : Cfg) (st : St) (i : Nat) : St :=
  match pcOf st i with
  | some Pc.loopTop =>
    let s2 := act cfg st i
    match pcOf s2 i with
    | some Pc.flushTop => act cfg s2 i
    | _ => s2
  | some Pc.flushTop => act cfg st i
  | _ => st

/-- thread `i` proceeds from the yield point it stands at to its next one -/
def grant (cfg : Cfg) (st : St) (i : Nat) : St := settle cfg (act cfg st i) i

def runFine (cfg : Cfg) (st : St) (sched : List Nat) : St := sched.foldl (act cfg) st
def runHook (cfg : Cfg) (st : St) (sched : List Nat) : St := sched.foldl (grant cfg) st

/-- every thread reaches its first `VERIF_YIELD(VP_WORKER_LOOP)` (or the barrier) on its own -/
def initHook (cfg : Cfg) : St := (List.range cfg.n).foldl (settle cfg) (init cfg)

/-- all threads have left the worker loop and the flush loop of `gvt_msg_drain` and stand at its barrier,
which then releases them: `parallel_thread_run` returns on every thread -/
def allDone (st : St) : Bool := st.ths.all (fun th => th.pc == .barrier)

/-- **The execution returns**: under the fine-grained schedule `sched` every thread gets through the flush
loop of `gvt_msg_drain` to the barrier. Executions that end in the shutdown deadlock F1 (an idle thread
waits in the barrier for a thread that spins in a round the idle one never joins) do not satisfy it. -/
def Returns (cfg : Cfg) (sched : List Nat) : Prop := allDone (runFine cfg (init cfg) sched) = true

/-- the same at yield-point granularity (the schedules the harness replays on the real threads) -/
def ReturnsHook (cfg : Cfg) (sched : List Nat) : Prop := allDone (runHook cfg (initHook cfg) sched) = true

instance (cfg : Cfg) (sched : List Nat) : Decidable (Returns cfg sched) := by unfold Returns; infer_instance
instance (cfg : Cfg) (sched : List Nat) : Decidable (ReturnsHook cfg sched) := by unfold ReturnsHook; infer_instance
def recordCounts (st : St) : List Nat := st.ths.map (·.records)
def sameCount (st : St) : Bool :=
  match st.ths with
  | [] => true
  | th :: rest => rest.all (fun t => t.records == th.records)

end RootSim.StatsLoop
