/-
Model of the statistics output of `src/log/stats.c`:

* the binary layout written by `stats_file_final_write` / `stats_files_receive`
  (documented in the doc comment of `stats_file_final_write`, read back by
  `src/log/parse/rootsim_stats.py`) as a codec `encode` / `decode`;
* the per-thread accounting: `stats_take` (called from `lp/common.h`, `lp/process.c`) and the
  flush `stats_on_gvt`, as a step machine over one thread's accumulator `stats_cur`.

Bytes are natural numbers `< 256`; doubles (the GVT column) are their IEEE-754 bit pattern.
-/
namespace RootSim.Stats

/-! ## Constants of the layout (compared with `sizeof`/`offsetof` of the real headers by the harness) -/

/-- `STATS_COUNT`: number of per-thread metrics (`enum stats_thread_type`) -/
def statsCount : Nat := 12
/-- `STATS_GLOBAL_COUNT`: number of life-cycle time stamps (`enum stats_global_type`) -/
def globalCount : Nat := 6
/-- `uint16_t endian_check = 61455U` -/
def magic : Nat := 61455
/-- `sizeof(struct stats_node)` : `simtime_t gvt; uint64_t rss;` -/
def nodeRecSize : Nat := 16
/-- `sizeof(struct stats_global)` : threads_count, lps_count, max_rss, timestamps[6] -/
def globSize : Nat := 24 + 8 * globalCount
/-- `sizeof(struct stats_thread)` -/
def threadRecSize : Nat := 8 * statsCount

/-- indices of `enum stats_thread_type` -/
def iProcessed : Nat := 0
def iProcTime : Nat := 1
def iRollback : Nat := 2
def iRecovTime : Nat := 3
def iUndone : Nat := 4
def iCkpt : Nat := 5
def iCkptTime : Nat := 6
def iCkptSize : Nat := 7
def iSilent : Nat := 8
def iSilentTime : Nat := 9
def iAnti : Nat := 10
def iRealTime : Nat := 11

/-- `stats_names[]` as ASCII -/
def statsNames : List String :=
  ["processed messages", "processed messages time", "rollbacks", "recovery time", "rolled back messages",
   "checkpoints", "checkpoints time", "checkpoints size", "silent messages", "silent messages time",
   "anti messages", "gvt real time"]

abbrev Bytes := List Nat

/-- `stats_names[]` as bytes (ASCII), in the order of `enum stats_thread_type` -/
def statsNameBytes : List Bytes :=
  [
    [112, 114, 111, 99, 101, 115, 115, 101, 100, 32, 109, 101, 115, 115, 97, 103, 101, 115],  -- processed messages
    [112, 114, 111, 99, 101, 115, 115, 101, 100, 32, 109, 101, 115, 115, 97, 103, 101, 115, 32, 116, 105, 109, 101],  -- processed messages time
    [114, 111, 108, 108, 98, 97, 99, 107, 115],  -- rollbacks
    [114, 101, 99, 111, 118, 101, 114, 121, 32, 116, 105, 109, 101],  -- recovery time
    [114, 111, 108, 108, 101, 100, 32, 98, 97, 99, 107, 32, 109, 101, 115, 115, 97, 103, 101, 115],  -- rolled back messages
    [99, 104, 101, 99, 107, 112, 111, 105, 110, 116, 115],  -- checkpoints
    [99, 104, 101, 99, 107, 112, 111, 105, 110, 116, 115, 32, 116, 105, 109, 101],  -- checkpoints time
    [99, 104, 101, 99, 107, 112, 111, 105, 110, 116, 115, 32, 115, 105, 122, 101],  -- checkpoints size
    [115, 105, 108, 101, 110, 116, 32, 109, 101, 115, 115, 97, 103, 101, 115],  -- silent messages
    [115, 105, 108, 101, 110, 116, 32, 109, 101, 115, 115, 97, 103, 101, 115, 32, 116, 105, 109, 101],  -- silent messages time
    [97, 110, 116, 105, 32, 109, 101, 115, 115, 97, 103, 101, 115],  -- anti messages
    [103, 118, 116, 32, 114, 101, 97, 108, 32, 116, 105, 109, 101]  -- gvt real time
  ]

/-! ## Data of a statistics file -/

/-- `struct stats_node`: one node-wide entry per GVT -/
structure NodeRec where
  gvt : Nat   -- bit pattern of the `simtime_t`
  rss : Nat
deriving Repr, DecidableEq

/-- what one node contributes: `struct stats_global` + its temporary files -/
structure NodeStats where
  lps     : Nat                      -- `lps_count`
  maxRss  : Nat                      -- `max_rss`
  ts      : List Nat                 -- `timestamps[STATS_GLOBAL_COUNT]`
  recs    : List NodeRec             -- content of `stats_node_tmp`
  threads : List (List (List Nat))   -- content of `stats_tmps[i]`: records of `s_cnt` values; `threads_count` is the length
deriving Repr, DecidableEq

structure StatsData where
  be    : Bool                       -- endianness of the writing machine
  names : List Bytes                 -- the metric names (Pascal strings)
  nodes : List NodeStats
deriving Repr, DecidableEq

/-! ## Encoder -/

/-- `w` little-endian bytes of `v` (what `fwrite` of a `w`-byte integer gives on a little-endian host) -/
def leBytes : Nat → Nat → Bytes
  | 0, _ => []
  | w+1, v => (v % 256) :: leBytes w (v / 256)

def leVal : Bytes → Nat
  | [] => 0
  | b :: bs => b + 256 * leVal bs

/-- a `w`-byte integer field in the endianness of the writer -/
def encInt (be : Bool) (w v : Nat) : Bytes := if be then (leBytes w v).reverse else leBytes w v

/-- Pascal string: `l = strnlen(name, UCHAR_MAX)`, then `l` bytes -/
def encName (n : Bytes) : Bytes := let l := min n.length 255; l :: n.take l

def encNodeRec (be : Bool) (r : NodeRec) : Bytes := encInt be 8 r.gvt ++ encInt be 8 r.rss

/-- one `struct stats_thread` -/
def encRec (be : Bool) (vals : List Nat) : Bytes := vals.flatMap (encInt be 8)

/-- `file_memory_load(stats_tmps[i], &buf_size)`, then `buf_size` (int64) and the buffer -/
def encThread (be : Bool) (recs : List (List Nat)) : Bytes :=
  let body := recs.flatMap (encRec be)
  encInt be 8 body.length ++ body

/-- `struct stats_global`, the node temporary file, then every thread temporary file
(`stats_file_final_write` for the master, `stats_files_receive` for the others: same bytes) -/
def encNode (be : Bool) (n : NodeStats) : Bytes :=
  let body := n.recs.flatMap (encNodeRec be)
  encInt be 8 n.threads.length ++ encInt be 8 n.lps ++ encInt be 8 n.maxRss ++ n.ts.flatMap (encInt be 8) ++
  (encInt be 8 body.length ++ body) ++ n.threads.flatMap (encThread be)

/-- `stats_file_final_write` followed by `stats_files_receive` -/
def encode (d : StatsData) : Bytes :=
  encInt d.be 2 magic ++ encInt d.be 8 d.names.length ++ d.names.flatMap encName ++
  encInt d.be 8 d.nodes.length ++ d.nodes.flatMap (encNode d.be)

/-! ## Decoder (the documented layout; as strict as the shipped parser, plus divisibility checks) -/

abbrev Dec (α : Type) := Bytes → Except String (α × Bytes)

def decInt (be : Bool) (w : Nat) : Dec Nat := fun bs =>
  if (bs.take w).length < w then .error "truncated"
  else .ok (leVal (if be then (bs.take w).reverse else bs.take w), bs.drop w)

/-- an `int64` count/size field: negative values are rejected -/
def decCount (be : Bool) : Dec Nat := fun bs =>
  match decInt be 8 bs with
  | .error e => .error e
  | .ok (v, r) => if v < 2^63 then .ok (v, r) else .error "negative-count"

def decList {α : Type} (d : Dec α) : Nat → Dec (List α)
  | 0, bs => .ok ([], bs)
  | n+1, bs =>
    match d bs with
    | .error e => .error e
    | .ok (x, r) =>
      match decList d n r with
      | .error e => .error e
      | .ok (xs, r') => .ok (x :: xs, r')

def decName : Dec Bytes := fun bs =>
  match bs with
  | [] => .error "truncated"
  | l :: r => if (r.take l).length < l then .error "truncated" else .ok (r.take l, r.drop l)

def decNodeRec (be : Bool) : Dec NodeRec := fun bs =>
  match decInt be 8 bs with
  | .error e => .error e
  | .ok (g, r) =>
    match decInt be 8 r with
    | .error e => .error e
    | .ok (m, r') => .ok (⟨g, m⟩, r')

def decThread (be : Bool) (sCnt : Nat) : Dec (List (List Nat)) := fun bs =>
  match decCount be bs with
  | .error e => .error e
  | .ok (tsiz, r) =>
    if tsiz % (8 * sCnt) ≠ 0 then .error "thread-size"
    else decList (decList (decInt be 8) sCnt) (tsiz / (8 * sCnt)) r

def decNode (be : Bool) (sCnt : Nat) : Dec NodeStats := fun bs =>
  match decInt be 8 bs with
  | .error e => .error e
  | .ok (tc, r) =>
  match decInt be 8 r with
  | .error e => .error e
  | .ok (lps, r) =>
  match decInt be 8 r with
  | .error e => .error e
  | .ok (mr, r) =>
  match decList (decInt be 8) globalCount r with
  | .error e => .error e
  | .ok (ts, r) =>
  match decCount be r with
  | .error e => .error e
  | .ok (nsiz, r) =>
  if nsiz % nodeRecSize ≠ 0 then .error "node-size" else
  match decList (decNodeRec be) (nsiz / nodeRecSize) r with
  | .error e => .error e
  | .ok (recs, r) =>
  match decList (decThread be sCnt) tc r with
  | .error e => .error e
  | .ok (ths, r) => .ok (⟨lps, mr, ts, recs, ths⟩, r)

def decBody (be : Bool) : Dec StatsData := fun bs =>
  match decCount be bs with
  | .error e => .error e
  | .ok (sCnt, r) =>
  if sCnt = 0 then .error "no-metrics" else
  match decList decName sCnt r with
  | .error e => .error e
  | .ok (names, r) =>
  match decCount be r with
  | .error e => .error e
  | .ok (nCnt, r) =>
  match decList (decNode be sCnt) nCnt r with
  | .error e => .error e
  | .ok (nodes, r) => .ok (⟨be, names, nodes⟩, r)

/-- the whole file; the magic number read byte-wise selects the endianness (as the parser does) -/
def decode (bs : Bytes) : Except String StatsData :=
  match bs with
  | b0 :: b1 :: r =>
    if b0 = 15 ∧ b1 = 240 then
      match decBody false r with
      | .error e => .error e
      | .ok (d, rest) => if rest = [] then .ok d else .error "garbage"
    else if b0 = 240 ∧ b1 = 15 then
      match decBody true r with
      | .error e => .error e
      | .ok (d, rest) => if rest = [] then .ok d else .error "garbage"
    else .error "magic"
  | _ => .error "truncated"

def decode? (bs : Bytes) : Option StatsData := (decode bs).toOption

/-! ## Well-formedness: counts match list lengths, values fit their field widths -/

def NodeStats.WF (sCnt : Nat) (n : NodeStats) : Prop :=
  n.threads.length < 2^64 ∧ n.lps < 2^64 ∧ n.maxRss < 2^64 ∧
  n.ts.length = globalCount ∧ (∀ t ∈ n.ts, t < 2^64) ∧
  n.recs.length * nodeRecSize < 2^63 ∧ (∀ r ∈ n.recs, r.gvt < 2^64 ∧ r.rss < 2^64) ∧
  (∀ th ∈ n.threads, th.length * (8 * sCnt) < 2^63 ∧ ∀ rc ∈ th, rc.length = sCnt ∧ ∀ v ∈ rc, v < 2^64)

instance (sCnt : Nat) (n : NodeStats) : Decidable (n.WF sCnt) := by unfold NodeStats.WF; infer_instance

def StatsData.WF (d : StatsData) : Prop :=
  0 < d.names.length ∧ d.names.length < 2^63 ∧ (∀ n ∈ d.names, n.length ≤ 255) ∧
  d.nodes.length < 2^63 ∧ ∀ n ∈ d.nodes, n.WF d.names.length

instance (d : StatsData) : Decidable d.WF := by unfold StatsData.WF; infer_instance

/-! ## Per-thread accounting -/

/-- `struct stats_thread` with named slots (order of `enum stats_thread_type`) -/
structure Counters where
  processed  : Nat := 0
  procTime   : Nat := 0
  rollbacks  : Nat := 0
  recovTime  : Nat := 0
  undone     : Nat := 0
  ckpts      : Nat := 0
  ckptTime   : Nat := 0
  ckptSize   : Nat := 0
  silent     : Nat := 0
  silentTime : Nat := 0
  antis      : Nat := 0
  realTime   : Nat := 0
deriving Repr, DecidableEq

/-- the array `s[STATS_COUNT]` as written to the file -/
def Counters.toList (c : Counters) : List Nat :=
  [c.processed, c.procTime, c.rollbacks, c.recovTime, c.undone, c.ckpts, c.ckptTime, c.ckptSize,
   c.silent, c.silentTime, c.antis, c.realTime]

/-- `stats_take`: `stats_cur.s[this_stat] += c` on a `uint64_t` -/
def take64 (x c : Nat) : Nat := (x + c) % 2^64

/-- What can happen on one thread, as far as `stats_cur` is concerned. Time samples (`dt`, `size`) are inputs. -/
inductive Step where
  /-- `common_msg_process`: one event executed forward and pushed on `p_msgs` -/
  | forward (dt : Nat)
  /-- `send_anti_messages`: one anti-message generated -/
  | anti
  /-- `do_rollback`: `k` processed entries popped off `p_msgs` (`k` × `stats_take(STATS_MSG_ROLLBACK, 1)`),
      then `STATS_RECOVERY_TIME`, `STATS_ROLLBACK` -/
  | rollback (k dt : Nat)
  /-- `silent_execution` of `j ≥ 1` events -/
  | silent (j dt : Nat)
  /-- `checkpoint_take` -/
  | ckpt (size dt : Nat)
  /-- `fossil_lp_collect` dropping `f` processed entries of `p_msgs` (no statistics) -/
  | fossil (f : Nat)
  /-- `stats_on_gvt(g)`; `now = timer_value(sim_start_ts)`, `rss = mem_stat_rss_current_get()` -/
  | gvt (g now rss : Nat)
deriving Repr, DecidableEq

/-- One thread: the accumulator, how many processed entries its LPs' `p_msgs` hold, its temporary
file, and (thread 0 only) the node temporary file. -/
structure TState where
  cur     : Counters := {}
  hist    : Nat := 0
  out     : List Counters := []
  nodeOut : List NodeRec := []
deriving Repr, DecidableEq

/-- One step. `none`: the step is impossible in `process.c`/`fossil.c` (more entries removed from
the histories than they hold). -/
def step (rid0 : Bool) (s : TState) : Step → Option TState
  | .forward dt =>
    some { s with cur := { s.cur with procTime := take64 s.cur.procTime dt, processed := take64 s.cur.processed 1 },
                  hist := s.hist + 1 }
  | .anti => some { s with cur := { s.cur with antis := take64 s.cur.antis 1 } }
  | .rollback k dt =>
    if k ≤ s.hist then
      some { s with cur := { s.cur with undone := take64 s.cur.undone k, recovTime := take64 s.cur.recovTime dt,
                                        rollbacks := take64 s.cur.rollbacks 1 },
                    hist := s.hist - k }
    else none
  | .silent j dt =>
    some { s with cur := { s.cur with silent := take64 s.cur.silent j, silentTime := take64 s.cur.silentTime dt } }
  | .ckpt size dt =>
    some { s with cur := { s.cur with ckptSize := take64 s.cur.ckptSize size, ckpts := take64 s.cur.ckpts 1,
                                      ckptTime := take64 s.cur.ckptTime dt } }
  | .fossil f => if f ≤ s.hist then some { s with hist := s.hist - f } else none
  | .gvt g now rss =>
    -- stats_cur.s[STATS_REAL_TIME_GVT] = timer_value(..); write; memset 0; thread 0 also writes the node entry
    some { s with cur := {}, out := s.out ++ [{ s.cur with realTime := now % 2^64 }],
                  nodeOut := if rid0 then s.nodeOut ++ [⟨g, rss⟩] else s.nodeOut }

def run (rid0 : Bool) : TState → List Step → Option TState
  | s, [] => some s
  | s, a :: as =>
    match step rid0 s a with
    | none => none
    | some s' => run rid0 s' as

/-! ### Specification side: what "exactly the events since the previous record" means -/

/-- the contribution of one step to each counter (unbounded) -/
def Step.delta : Step → Counters
  | .forward dt => { processed := 1, procTime := dt }
  | .anti => { antis := 1 }
  | .rollback k dt => { rollbacks := 1, undone := k, recovTime := dt }
  | .silent j dt => { silent := j, silentTime := dt }
  | .ckpt size dt => { ckpts := 1, ckptSize := size, ckptTime := dt }
  | .fossil _ => {}
  | .gvt _ _ _ => {}

def Counters.add (a b : Counters) : Counters :=
  ⟨a.processed + b.processed, a.procTime + b.procTime, a.rollbacks + b.rollbacks, a.recovTime + b.recovTime,
   a.undone + b.undone, a.ckpts + b.ckpts, a.ckptTime + b.ckptTime, a.ckptSize + b.ckptSize,
   a.silent + b.silent, a.silentTime + b.silentTime, a.antis + b.antis, a.realTime + b.realTime⟩

/-- every slot reduced modulo 2^64 -/
def Counters.wrap (a : Counters) : Counters :=
  ⟨a.processed % 2^64, a.procTime % 2^64, a.rollbacks % 2^64, a.recovTime % 2^64, a.undone % 2^64,
   a.ckpts % 2^64, a.ckptTime % 2^64, a.ckptSize % 2^64, a.silent % 2^64, a.silentTime % 2^64,
   a.antis % 2^64, a.realTime % 2^64⟩

/-- all slots fit a `uint64_t` -/
def Counters.Fits (a : Counters) : Prop :=
  a.processed < 2^64 ∧ a.procTime < 2^64 ∧ a.rollbacks < 2^64 ∧ a.recovTime < 2^64 ∧ a.undone < 2^64 ∧
  a.ckpts < 2^64 ∧ a.ckptTime < 2^64 ∧ a.ckptSize < 2^64 ∧ a.silent < 2^64 ∧ a.silentTime < 2^64 ∧
  a.antis < 2^64 ∧ a.realTime < 2^64

instance (a : Counters) : Decidable a.Fits := by unfold Counters.Fits; infer_instance

/-- what happened in a list of steps: exact (unbounded) sums of the contributions -/
def tally : List Step → Counters
  | [] => {}
  | a :: as => a.delta.add (tally as)

/-- a closed period: the steps since the previous flush, and the arguments of the flush that closed it -/
structure Period where
  steps : List Step
  g : Nat
  now : Nat
  rss : Nat
deriving Repr, DecidableEq

/-- split a run at the `gvt` steps: the closed periods, and the steps after the last flush -/
def periods : List Step → List Period × List Step
  | [] => ([], [])
  | .gvt g now rss :: as => (⟨[], g, now, rss⟩ :: (periods as).1, (periods as).2)
  | a :: as =>
    match periods as with
    | ([], t) => ([], a :: t)
    | (p :: ps, t) => ({ p with steps := a :: p.steps } :: ps, t)

/-- the record the specification expects for a closed period -/
def Period.record (p : Period) : Counters := { (tally p.steps).wrap with realTime := p.now % 2^64 }

/-- the list of steps a period stands for (including the flush that closed it) -/
def Period.flat (p : Period) : List Step := p.steps ++ [.gvt p.g p.now p.rss]

/-- the GVT values handed to `stats_on_gvt`, in order -/
def gvtInputs : List Step → List Nat
  | [] => []
  | .gvt g _ _ :: as => g :: gvtInputs as
  | _ :: as => gvtInputs as

def fwdTotal (l : List Step) : Nat := (tally l).processed
def undTotal (l : List Step) : Nat := (tally l).undone

/-- the file one node writes from the final states of its threads (`stats_file_final_write`) -/
def assemble (lps maxRss : Nat) (ts : List Nat) (ths : List TState) : NodeStats :=
  { lps := lps, maxRss := maxRss, ts := ts,
    recs := (ths.head?.map (·.nodeOut)).getD [],
    threads := ths.map (fun s => s.out.map Counters.toList) }

end RootSim.Stats
