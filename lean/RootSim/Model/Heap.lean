/-!
Model of the binary heap of `src/datatypes/heap.h` (macros `heap_insert`, `heap_insert_n`,
`heap_extract`, `heap_min`) on top of the dynamic array of `src/datatypes/array.h`.

The array algorithms are transcribed *verbatim* (sift-up with a hole, sift-down with `last`), so that the
layout of the model array equals the layout of the C array after every operation (this is what the
correspondence harness `harness/hc10.c` compares).

Not modelled: the capacity management of `array.h` (`array_reserve`: `mm_realloc` doubling; it never
changes `items[0..count)`), and the 32-bit width of `array_count_t` (heaps are assumed to hold fewer
than 2^31 elements so that `i * 2U + 1U` cannot wrap).

The comparator is *call-site indexed*: `cmp n a b` is the answer of the `n`-th comparator call site of
one operation.  Every call of one `heap_insert` / `heap_extract` gets a distinct index (sift-up: the
current position `i`; sift-down: `2*i` for the sibling comparison and `2*i+1` for the comparison with
`last`, `i` strictly increasing).  An ordinary comparator `lt` is the constant family `fun _ => lt`;
a comparator whose answers change between calls (the tie-break of `q_elem_is_before` reads the
anti-flag, which another thread may set at any time) is an arbitrary family.
-/
namespace RootSim.Heap

/-- a comparator `cmp_f(a, b)` ("a is before b") with a call-site index -/
abbrev Cmp (α : Type) := Nat → α → α → Bool

/-- an ordinary comparator: the same function at every call site -/
@[reducible] def constCmp {α : Type} (lt : α → α → Bool) : Cmp α := fun _ => lt

variable {α : Type}

/-- the `while(i && cmp_f(elem, items[(i - 1U) / 2U])) { items[i] = items[(i-1)/2]; i = (i-1)/2; }
items[i] = elem; i;` loop of `heap_insert`: `x` is the element being inserted, `i` the hole.
Returns the array and the final position (the value of the macro). -/
def siftUp (cmp : Cmp α) (x : α) (a : Array α) (i : Nat) (hi : i < a.size) : Array α × Nat :=
  if h0 : i = 0 then (a.set i x, i)
  else
    if cmp i x (a[(i - 1) / 2]'(by omega)) then
      siftUp cmp x (a.set i (a[(i - 1) / 2]'(by omega))) ((i - 1) / 2)
        (by rw [Array.size_set]; omega)
    else (a.set i x, i)
termination_by i
decreasing_by omega

/-- `heap_insert(self, cmp_f, elem)`: `array_reserve(self,1); i = count++;` then the sift-up loop.
The new slot `items[count]` is never read before it is written, so pushing `elem` there is faithful. -/
def heapInsertI (cmp : Cmp α) (a : Array α) (x : α) : Array α × Nat :=
  siftUp cmp x (a.push x) a.size (by simp)

/-- `heap_insert_n(self, cmp_f, ins, n)`: `j = n; while(j--) insert ins[j]` — last element first. -/
def heapInsertNI (cmp : Cmp α) (a : Array α) (ins : List α) : Array α :=
  ins.foldr (fun x acc => (heapInsertI cmp acc x).1) a

/-- `i += i + 1 < cnt && cmp_f(items[i + 1U], items[i]);` — the child that is compared with `last` -/
def pickChild (cmp : Cmp α) (a : Array α) (i : Nat) (h : i < a.size) : Nat :=
  if h1 : i + 1 < a.size then (if cmp (2 * i) a[i + 1] a[i] then i + 1 else i) else i

theorem pickChild_lt (cmp : Cmp α) (a : Array α) (i : Nat) (h : i < a.size) :
    pickChild cmp a i h < a.size := by
  unfold pickChild; split
  · split <;> omega
  · omega

theorem pickChild_ge (cmp : Cmp α) (a : Array α) (i : Nat) (h : i < a.size) :
    i ≤ pickChild cmp a i h ∧ pickChild cmp a i h ≤ i + 1 := by
  unfold pickChild; split
  · split <;> omega
  · omega

/-- the `while(i < cnt) { i += …; if(!cmp_f(items[i], last)) break; items[j] = items[i]; j = i;
i = i * 2U + 1U; } items[j] = last;` loop of `heap_extract`; `a` is the array *after* `array_pop`
(so `a.size = cnt`), `j` the hole, `i` the loop variable.  When `cnt = 0` the final store goes to
`items[0]`, a slot beyond `count`: no effect on the heap (`setIfInBounds`). -/
def siftDown (cmp : Cmp α) (last : α) (a : Array α) (j i : Nat) (hji : j < i) : Array α :=
  if h : i < a.size then
    have hc := pickChild_lt cmp a i h
    have hg := pickChild_ge cmp a i h
    if cmp (2 * i + 1) a[pickChild cmp a i h] last then
      siftDown cmp last (a.set j a[pickChild cmp a i h] (by omega)) (pickChild cmp a i h)
        (2 * pickChild cmp a i h + 1) (by omega)
    else a.set j last (by omega)
  else a.setIfInBounds j last
termination_by a.size - i
decreasing_by rw [Array.size_set]; omega

/-- `heap_extract(self, cmp_f)`: `ret = items[0]; last = array_pop(self); cnt = count; i = 1; j = 0;`
sift-down; returns `ret`.  On an empty heap the C code reads `items[0]` of an empty array and
decrements `count` below zero: undefined — `none`. -/
def heapExtractI (cmp : Cmp α) (a : Array α) : Option (α × Array α) :=
  if h : 0 < a.size then
    some (a[0], siftDown cmp (a[a.size - 1]) a.pop 0 1 (by omega))
  else none

/-- `heap_min(self)` = `items[0]`; only meaningful when `count > 0` (callers check). -/
def heapMin (a : Array α) : Option α := a[0]?

/-- the operations with an ordinary comparator, as the C code instantiates them -/
def heapInsert (lt : α → α → Bool) (a : Array α) (x : α) : Array α × Nat := heapInsertI (constCmp lt) a x
def heapInsertN (lt : α → α → Bool) (a : Array α) (ins : List α) : Array α := heapInsertNI (constCmp lt) a ins
def heapExtract (lt : α → α → Bool) (a : Array α) : Option (α × Array α) := heapExtractI (constCmp lt) a

end RootSim.Heap
