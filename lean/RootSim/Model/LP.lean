import RootSim.Model.Sim
/-!
L2: the LP-local rollback machine of `src/lp/process.c` + `src/gvt/fossil.c` + the checkpoint log
of `src/mm/buddy/multi.c`, over an abstract LP state `σ` (the rollbackable memory, RNG included)
and an abstract snapshot (a checkpoint is the state itself: allocator-level exactness is C05/Alloc).

Messages are referred to by ordinals; `look : Nat → Msg` gives the *current* content + flag word of
a message (the anti bit of a message in the history can be set concurrently by its sender, and the
C code reads it in its comparisons, so the comparisons here read it too).
-/
namespace RootSim.LP
open RootSim

/-- an entry of `p_msgs`: tagged pointer -/
inductive Entry where
  | sent  (m : Nat)   -- tag 1: message sent to a local LP
  | rsent (m : Nat)   -- tag 2: message sent to a remote LP
  | past  (m : Nat)   -- tag 0: message processed by this LP
deriving Repr, DecidableEq

def Entry.isPast : Entry → Bool
  | .past _ => true
  | _ => false

def Entry.isSent (e : Entry) : Bool := !e.isPast

def Entry.msg : Entry → Nat
  | .sent m => m
  | .rsent m => m
  | .past m => m

def Entry.tag : Entry → Nat
  | .sent _ => 1
  | .rsent _ => 2
  | .past _ => 0

structure LPState (σ : Type) where
  hist  : List Entry := []
  /-- `mm_state.logs`: (ref_i, checkpoint), oldest first -/
  logs  : List (Nat × σ) := []
  st    : σ
  /-- `p.bound`; `none` models -1.0 (empty history) -/
  bound : Option Nat := none
  /-- `fossil_epoch` -/
  epoch : Nat := 0

/-- scan a *reversed* prefix for the first (i.e. highest-index) entry satisfying `p`;
returns its index + 1, or 0 when there is none -/
def scanBack {α : Type} (p : α → Bool) : List α → Nat
  | [] => 0
  | x :: xs => if p x then xs.length + 1 else scanBack p xs

/-- `match_straggler_msg`: index of the first entry to undo. Never looks at the last entry. -/
def matchStraggler (look : Nat → Msg) (hist : List Entry) (s : Msg) : Nat :=
  scanBack (fun e => e.isPast && !(isBefore s (look e.msg))) hist.dropLast.reverse

/-- highest index holding the past entry of message `m` (the C loop has no bounds check: `none` = it
would run off the beginning of the array) -/
def findPast (hist : List Entry) (m : Nat) : Option Nat :=
  let k := scanBack (fun e => e == .past m) hist.reverse
  if k = 0 then none else some (k - 1)

/-- `match_anti_msg` -/
def matchAnti (hist : List Entry) (m : Nat) : Option Nat :=
  match findPast hist m with
  | none => none
  | some i => some (scanBack Entry.isPast (hist.take i).reverse)

/-- `model_allocator_checkpoint_restore`'s log search: index of the newest log with `ref ≤ target` -/
def findLog (logs : List (Nat × σ)) (target : Nat) : Option Nat :=
  let k := scanBack (fun (x : Nat × σ) => decide (x.1 ≤ target)) logs.reverse
  if k = 0 then none else some (k - 1)

/-- the past messages of a history segment, in order -/
def pastMsgs (h : List Entry) : List Nat :=
  h.filterMap (fun e => match e with | .past m => some m | _ => none)

/-- coasting forward (`silent_execution`): re-dispatch past entries, outputs discarded -/
def silentExec (handler : σ → Event → σ × List Event) (ev : Nat → Event) (s : σ) (ms : List Nat) : σ :=
  ms.foldl (fun s m => (handler s (ev m)).1) s

/-- What a rollback to `pastI` does to the LP (the flag updates on the undone messages are the
business of the per-message automaton; here: which entries are undone, which checkpoint is restored,
which entries are re-executed silently). `none`: the log search would underflow. -/
structure RollbackOut (σ : Type) where
  lp      : LPState σ
  undone  : List Entry       -- hist[pastI..], in order
  ref     : Nat              -- `ref_i` of the restored checkpoint
  silent  : List (Nat × Nat) -- (index, message) of the silently re-executed entries

def rollback (handler : σ → Event → σ × List Event) (ev : Nat → Event)
    (lp : LPState σ) (pastI : Nat) : Option (RollbackOut σ) :=
  match findLog lp.logs pastI with
  | none => none
  | some li =>
    match lp.logs[li]? with
    | none => none
    | some (ref, snap) =>
      let kept := lp.hist.take pastI
      let seg := (kept.drop ref)
      let idxs := (List.range seg.length).filterMap (fun k =>
        match (seg[k]? : Option Entry) with
        | some (Entry.past m) => some (ref + k, m)
        | _ => none)
      let st := silentExec handler ev snap (pastMsgs seg)
      some { lp := { lp with hist := kept, logs := lp.logs.take (li + 1), st := st }
             undone := lp.hist.drop pastI, ref := ref, silent := idxs }

/-- forward execution of message `m` (content `e`): the handler runs, its outputs become `sent`
entries (ordinals `outs`, assigned by the allocator: an input), then the message's own past entry -/
def forward (handler : σ → Event → σ × List Event) (lp : LPState σ) (m : Nat) (e : Event)
    (outs : List Nat) : LPState σ × List Event :=
  let (s', evs) := handler lp.st e
  ({ lp with st := s', hist := lp.hist ++ outs.map Entry.sent ++ [.past m], bound := some e.t }, evs)

/-- the straggler test of `process_msg`:
`lp->p.bound >= msg->dest_t && msg_is_before(msg, array_peek(lp->p.p_msgs))` -/
def isStraggler (look : Nat → Msg) (lp : LPState σ) (me : Msg) : Bool :=
  match lp.bound, lp.hist.getLast? with
  | some b, some last => decide (b ≥ me.destT) && isBefore me (look last.msg)
  | _, _ => false

/-- `process_msg` for an ordinary (non-anti) message `m` with content/flags `me`: straggler handling,
then forward execution. `none`: the checkpoint-log search would underflow. -/
def processPlain (handler : σ → Event → σ × List Event) (ev : Nat → Event) (look : Nat → Msg)
    (lp : LPState σ) (m : Nat) (me : Msg) (outs : List Nat) : Option (LPState σ × List Event) :=
  if isStraggler look lp me then
    match rollback handler ev lp (matchStraggler look lp.hist me) with
    | some o => some (forward handler o.lp m (ev m) outs)
    | none => none
  else some (forward handler lp m (ev m) outs)

/-- `model_allocator_checkpoint_take(ref_i = count(p_msgs))` -/
def checkpoint (lp : LPState σ) : LPState σ :=
  { lp with logs := lp.logs ++ [(lp.hist.length, lp.st)] }

/-- result of `fossil_lp_collect` -/
structure FossilOut (σ : Type) where
  lp      : LPState σ
  dropped : List Entry   -- hist[0..n)
  n       : Nat

/-- `fossil_lp_collect` at GVT `gvt` (time key). `none`: nothing collectable (early `return`,
epoch NOT updated — as in the code). -/
def fossil (t : Nat → Nat) (lp : LPState σ) (gvt : Nat) (epochNow : Nat) : Option (FossilOut σ) :=
  let k := scanBack (fun e => e.isPast && decide (t e.msg < gvt)) lp.hist.reverse
  if k = 0 then none else
  -- k - 1 = index of the last past entry below gvt; target ref = (k - 1) + 1
  match findLog lp.logs k with
  | none => none
  | some li =>
    match lp.logs[li]? with
    | none => none
    | some (r, _) =>
      some { lp := { lp with hist := lp.hist.drop r
                             logs := (lp.logs.drop li).map (fun l => (l.1 - r, l.2))
                             epoch := epochNow }
             dropped := lp.hist.take r, n := r }

end RootSim.LP
