/-
A small, executable model of IEEE-754 binary64 values and of the few floating-point
operations that occur in `src/lib/random/random.c` (`Random() * n`, `1 - Random()`,
`x *= ...`, `floor`, `(int)`, `(unsigned)`, and `+`, `/`, `<`, `== 0.0` of the rejection branch of
`Gamma`), core Lean only.

A finite double is a dyadic rational; it is represented *unnormalised* as `m / 2^s`
(`m : Int`, `s : Nat`).  All the values that occur in the modelled code have a
non-positive binary exponent on their last bit or are small integers, so this
representation (no negative `s`) is enough and keeps all arithmetic in `Nat`/`Int`.
Signed zeros are not distinguished (`-0.0` and `+0.0` are both `fin 0 s`); no modelled
operation depends on the sign of a zero.

Rounding is round-to-nearest, ties-to-even, to 53 significant bits, with gradual
underflow (grid never finer than 2^-1074) and overflow to infinity: the default
rounding-direction attribute, which the runtime never changes.
-/
namespace RootSim.Float

/-- number of significant bits of `m` (0 for 0) -/
def bitlen (m : Nat) : Nat := if m = 0 then 0 else Nat.log2 m + 1

/-- Values of type `double`. `fin m s` is the real number `m / 2^s`. -/
inductive FVal where
  | fin (m : Int) (s : Nat)
  | inf (neg : Bool)
  | nan
deriving Repr, DecidableEq

/-- Number of low bits of the numerator `m` (at scale `s`) that binary64 cannot keep:
53 significant bits, and nothing below 2^-1074. -/
def dropBits (m s : Nat) : Nat := max (bitlen m - 53) (s - 1074)

/-- Round the non-negative dyadic `m / 2^s` to binary64 precision, to nearest, ties to even.
The result is again a numerator at the SAME scale `s` (low bits cleared). -/
def rneNat (m s : Nat) : Nat :=
  let k := dropBits m s
  if k = 0 then m else
    let q := m / 2 ^ k
    let r := m % 2 ^ k
    let h := 2 ^ (k - 1)
    if r > h ∨ (r = h ∧ q % 2 = 1) then (q + 1) * 2 ^ k else q * 2 ^ k

/-- Rounding of an exact finite result `m / 2^s` to a `double` (overflow gives ±inf). -/
def roundFin (m : Int) (s : Nat) : FVal :=
  let a := rneNat m.natAbs s
  if a ≥ 2 ^ (1024 + s) then .inf (decide (m < 0))
  else .fin (if m < 0 then -(a : Int) else (a : Int)) s

namespace FVal

def ofInt (i : Int) : FVal := .fin i 0
def one : FVal := .fin 1 0
def two : FVal := .fin 2 0
def zero : FVal := .fin 0 0

def isNegF : FVal → Bool
  | .fin m _ => decide (m < 0)
  | .inf n => n
  | .nan => false

/-- unary minus (exact) -/
def neg : FVal → FVal
  | .fin m s => .fin (-m) s
  | .inf n => .inf (!n)
  | .nan => .nan

/-- `a * b` -/
def mul : FVal → FVal → FVal
  | .fin a s, .fin b t => roundFin (a * b) (s + t)
  | .nan, _ => .nan
  | _, .nan => .nan
  | .inf n, .fin b _ => if b = 0 then .nan else .inf (n != decide (b < 0))
  | .fin a _, .inf n => if a = 0 then .nan else .inf (n != decide (a < 0))
  | .inf n, .inf k => .inf (n != k)

/-- `a - b` -/
def sub : FVal → FVal → FVal
  | .fin a s, .fin b t => roundFin (a * 2 ^ t - b * 2 ^ s) (s + t)
  | .nan, _ => .nan
  | _, .nan => .nan
  | .inf n, .fin _ _ => .inf n
  | .fin _ _, .inf n => .inf (!n)
  | .inf n, .inf k => if n = k then .nan else .inf n

/-- `a + b` (`inf + -inf` is NaN) -/
def add : FVal → FVal → FVal
  | .fin a s, .fin b t => roundFin (a * 2 ^ t + b * 2 ^ s) (s + t)
  | .nan, _ => .nan
  | _, .nan => .nan
  | .inf n, .fin _ _ => .inf n
  | .fin _ _, .inf n => .inf n
  | .inf n, .inf k => if n = k then .inf n else .nan

/-- Correctly rounded quotient of two finite values, divisor non-zero: `(a / 2^s) / (b / 2^t)`.
With `N = |a| 2^t`, `D = |b| 2^s` the exact quotient is `N / D`; `p` is chosen so that
`q = ⌊N 2^p / D⌋` has at least 55 significant bits, a sticky bit (`N 2^p mod D ≠ 0`) is appended
below `q`, and `2 q + sticky` at scale `p + 1` is rounded by `roundFin` (at least two bits are
dropped, so the sticky bit decides ties exactly as the infinitely precise quotient would). -/
def divFin (a : Int) (s : Nat) (b : Int) (t : Nat) : FVal :=
  let n := a.natAbs * 2 ^ t
  let d := b.natAbs * 2 ^ s
  let p := (bitlen d + 55) - bitlen n
  let q := n * 2 ^ p / d
  let st := if n * 2 ^ p % d = 0 then 0 else 1
  let m : Int := ((2 * q + st : Nat) : Int)
  roundFin (if decide (a < 0) != decide (b < 0) then -m else m) (p + 1)

/-- `a / b` with the IEEE special cases: `x / 0 = ±inf` for finite `x ≠ 0` (and for `x = ±inf`),
`0 / 0 = NaN`, `inf / inf = NaN`, `x / inf = 0`.  Signed zeros are not distinguished: a zero
divisor is taken to be `+0.0`, which is what `Random()` returns (`return 0.0;`), the only zero
divisor that can occur in the modelled code. -/
def div : FVal → FVal → FVal
  | .nan, _ => .nan
  | _, .nan => .nan
  | .fin a s, .fin b t =>
    if b = 0 then (if a = 0 then .nan else .inf (decide (a < 0))) else divFin a s b t
  | .inf n, .fin b _ => .inf (n != decide (b < 0))
  | .fin _ s, .inf _ => .fin 0 s
  | .inf _, .inf _ => .nan

/-- `floor` (exact) -/
def floor : FVal → FVal
  | .fin m s => .fin (m / 2 ^ s) 0
  | v => v

/-- `a > b` on doubles (false if either is NaN) -/
def gt : FVal → FVal → Bool
  | .fin a s, .fin b t => decide (a * 2 ^ t > b * 2 ^ s)
  | .nan, _ => false
  | _, .nan => false
  | .inf n, .inf k => !n && k
  | .inf n, .fin _ _ => !n
  | .fin _ _, .inf k => k

/-- `a < b` on doubles (false if either is NaN) -/
def lt (a b : FVal) : Bool := gt b a

/-- `a == 0.0` (false for NaN and infinities) -/
def isZero : FVal → Bool
  | .fin m _ => decide (m = 0)
  | _ => false

/-- `a ≤ b` as real numbers, for finite values -/
def leFin (a : Int) (s : Nat) (b : Int) (t : Nat) : Prop := a * 2 ^ t ≤ b * 2 ^ s

/-- finite and `≥ 0` -/
def FinNonneg : FVal → Prop
  | .fin m _ => 0 ≤ m
  | _ => False

instance : DecidablePred FinNonneg := fun v => by
  cases v <;> unfold FinNonneg <;> infer_instance

end FVal

/-- Undefined behaviour of the C abstract machine met by the modelled code. -/
inductive UB where
  | shiftWidth     -- shift count ≥ width of the promoted left operand (C11 6.5.7p3)
  | intOverflow    -- signed integer overflow (6.5p5)
  | divZero        -- `%` by zero, or `INT_MIN % -1` (6.5.5p5,6)
  | floatToInt     -- float → integer conversion out of range (6.3.1.4p1)
  | xxteaLen       -- `assert(n > 1)` of xxtea.c violated
deriving Repr, DecidableEq

/-- decidable equality of results (written without tactics so that it evaluates) -/
instance instDecEqExceptUB {α : Type} [DecidableEq α] : DecidableEq (Except UB α)
  | .ok a, .ok b => if h : a = b then isTrue (congrArg _ h) else isFalse (fun h' => h (Except.ok.inj h'))
  | .error a, .error b => if h : a = b then isTrue (congrArg _ h) else isFalse (fun h' => h (Except.error.inj h'))
  | .ok _, .error _ => isFalse (fun h => nomatch h)
  | .error _, .ok _ => isFalse (fun h => nomatch h)

/-- `(int)d`: truncation toward zero; undefined if the truncated value is not an `int`. -/
def toInt32 : FVal → Except UB Int
  | .fin m s =>
    let t := Int.tdiv m (2 ^ s)
    if -2147483648 ≤ t ∧ t ≤ 2147483647 then .ok t else .error .floatToInt
  | _ => .error .floatToInt

/-- `(unsigned)d` -/
def toUInt32 : FVal → Except UB Nat
  | .fin m s =>
    let t := Int.tdiv m (2 ^ s)
    if 0 ≤ t ∧ t ≤ 4294967295 then .ok t.toNat else .error .floatToInt
  | _ => .error .floatToInt

/-- The value denoted by a binary64 bit pattern. -/
def decodeDouble (bits : Nat) : FVal :=
  let sign : Nat := (bits / 2 ^ 63) % 2
  let e : Nat := (bits / 2 ^ 52) % 2 ^ 11
  let f : Nat := bits % 2 ^ 52
  let sg : Int := if sign = 1 then -1 else 1
  if e = 2047 then (if f = 0 then .inf (decide (sign = 1)) else .nan)
  else if e = 0 then (if f = 0 then .fin 0 0 else .fin (sg * (f : Int)) 1074)   -- ±0.0 ; subnormal
  else if e ≥ 1075 then .fin (sg * (((2 ^ 52 + f) * 2 ^ (e - 1075) : Nat) : Int)) 0
  else .fin (sg * ((2 ^ 52 + f : Nat) : Int)) (1075 - e)

/-- The bit pattern of a value (exact when the value is representable, which holds for every
result of `roundFin`); used by the driver to print results. `-0.0` is never produced. -/
def encodeDouble : FVal → Nat
  | .nan => 0x7ff8000000000000
  | .inf n => (if n then 2 ^ 63 else 0) + 0x7ff0000000000000
  | .fin m s =>
    let a := m.natAbs
    if a = 0 then 0 else
    let sb := if m < 0 then 2 ^ 63 else 0
    let l := bitlen a
    if l + 1022 > s then
      -- normal: biased exponent l + 1022 - s, 53-bit significand
      let sig := if l ≤ 53 then a * 2 ^ (53 - l) else a / 2 ^ (l - 53)
      sb + (l + 1022 - s) * 2 ^ 52 + (sig - 2 ^ 52)
    else
      -- subnormal: multiple of 2^-1074
      sb + (if s ≤ 1074 then a * 2 ^ (1074 - s) else a / 2 ^ (s - 1074))

end RootSim.Float
