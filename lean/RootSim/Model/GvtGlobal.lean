/-!
# Abstract node-granularity model of ONE round of the asynchronous GVT algorithm
(`src/gvt/gvt.c` `gvt_phase_run` / `gvt_node_phase_run`, `src/gvt/gvt.h` colour stamping; property C04,
composition of the thread level, the node-level counting and the final `MPI_Iallreduce(MIN)`)

`K = nodes.length` nodes (any `K`), arbitrary interleaving of atomic steps, any number of messages.
A node is what the two lower layers leave of it:

* `pend`  : time stamps of everything queued or buffered at the node (all thread queues, MPI receive side);
* `cur`   : time stamp of the event being processed (`process_msg` in progress), if any;
* `acc`   : `gvt_accumulator` (`none` = `SIMTIME_MAX`). It is lowered by EVERY extraction
            (`gvt_on_msg_extraction`, unconditionally, as in C), reset to `SIMTIME_MAX` ONLY by
            `gvt_start_processing` (step `join`) and — this is essential, see `needs_accumulator_across_flip` in
            `Props/C04Global.lean` — NOT at the colour flip, so that it covers both thread-level reductions;
* `colour`: `gvt_phase`;
* `stage` : `idle` (before `gvt_start_processing`), `joined` (`node_phase_redux_first` running),
            `flipped` (`gvt_phase ^= 1` done; `node_sent_reduce … node_sent_wait`: counting),
            `passed` (`node_phase_redux_second` running), `reported m` (`mpi_reduce_min(reducing_p)` called with `m`).

In flight: `flight : List Msg`, a message carries the colour stamped by `gvt_remote_msg_send` /
`gvt_remote_anti_msg_send`, its destination node and its time stamp. There are NO ghost fields.

Time stamps are `Nat` keys; a *value* of the reduction is `Option Nat` with `none = SIMTIME_MAX` (an empty node
reports `SIMTIME_MAX`), see `omin`, `lmin`.

## Facts imported from the two lower layers as step guards / step values

1. `join` requires `cur = none`: `gvt_start_processing` is called from `gvt_phase_run`, never from inside
   `process_msg` (the coupling `start needs cur = none` of `Model/Gvt.lean`; `Props/C04.lean` shows it is essential
   at the thread level, `needs_join_between_events` below shows it at this level).
2. `pass k` (leaving `node_sent_wait`) has the guard established by `C04.Node.old_colour_drained`
   (`Props/C04Node.lean`): every node has flipped its colour, and no message of the old colour addressed to `k`
   is in flight (received-but-unpolled messages of that theorem are already in `pend k` here).
3. `report k` yields `m = min(acc, min pend, cur)` evaluated atomically: this is what `C04.read_value`,
   `C04.cut_safe`, `C04.reported_safe` (`Props/C04.lean`) prove about the value of the second thread-level
   reduction (`reducing_p[rid] = min(gvt_accumulator, msg_queue_time_peek())` reduced over the threads is a
   lower bound of everything queued / being processed on the node and of everything extracted since the
   accumulators were reset, from the moment all threads left phase A). The node level is collapsed to that instant.
4. `emitLocal` / `emitRemote` require `cur = some c` and `c ≤ x`: everything a node creates while processing the
   event `c` — forward sends, events re-queued by a rollback, anti-messages — has a time stamp `≥ c`
   (C01/C05 side: a straggler `c` undoes only events `≥ c`, whose outputs are `≥` them).
5. `gvt s` is the `MPI_Iallreduce(MIN)` over the reported values (`mpi_reduce_min`), assumed exact.

Not modelled: thread granularity inside a node (lower layers), 32-bit counters (C04Node), memory orders.
-/
namespace RootSim.GvtGlobal

/-! ## values with `none = SIMTIME_MAX` -/

/-- C `min` on values, `none = SIMTIME_MAX` is the neutral element -/
def omin : Option Nat → Option Nat → Option Nat
  | none, b => b
  | some a, none => some a
  | some a, some b => some (min a b)

/-- `msg_queue_time_peek` over everything queued at the node: lowest time stamp, `SIMTIME_MAX` if empty -/
def lmin : List Nat → Option Nat
  | [] => none
  | x :: l => omin (some x) (lmin l)

/-- stage of a node inside the round; `reported m`: the node handed `m` to the min all-reduce -/
inductive Stage where
  | idle | joined | flipped | passed
  | reported (m : Option Nat)
deriving DecidableEq, Repr

/-- the colour has been flipped (`node_phase > node_phase_redux_first`) -/
def Stage.hasFlipped : Stage → Bool
  | .idle | .joined => false
  | _ => true

/-- the node left `node_sent_wait` -/
def Stage.hasPassed : Stage → Bool
  | .passed | .reported _ => true
  | _ => false

def Stage.isReported : Stage → Bool
  | .reported _ => true
  | _ => false

/-- the value handed to the all-reduce (`SIMTIME_MAX` placeholder before) -/
def Stage.value : Stage → Option Nat
  | .reported m => m
  | _ => none

structure Node where
  /-- time stamps of everything queued or buffered at the node -/
  pend   : List Nat := []
  /-- event being processed -/
  cur    : Option Nat := none
  /-- `gvt_accumulator`, `none = SIMTIME_MAX` -/
  acc    : Option Nat := none
  /-- `gvt_phase` -/
  colour : Bool := false
  stage  : Stage := .idle
deriving DecidableEq, Repr

/-- a remote message in flight: colour stamped at the sender, destination node, time stamp -/
structure Msg where
  colour : Bool
  dest   : Nat
  ts     : Nat
deriving DecidableEq, Repr

structure St where
  nodes  : List Node
  flight : List Msg := []
deriving DecidableEq, Repr

/-- replace node `k` and the in-flight list -/
def upd (s : St) (k : Nat) (nd : Node) (fl : List Msg) : St := ⟨s.nodes.set k nd, fl⟩

/-- what the node would report now: `min(gvt_accumulator, msg_queue_time_peek(), current event)`;
after the report, the reported value -/
def floor (nd : Node) : Option Nat :=
  match nd.stage with
  | .reported m => m
  | _ => omin nd.acc (omin (lmin nd.pend) nd.cur)

/-! ## steps -/

/-- `msg_queue_extract` + `gvt_on_msg_extraction(e)`: start processing a queued event -/
def beginProcess (s : St) (k e : Nat) : Option St :=
  match s.nodes[k]? with
  | none => none
  | some nd =>
    if e ∈ nd.pend ∧ nd.cur = none then
      some (upd s k { nd with pend := nd.pend.erase e, cur := some e, acc := omin nd.acc (some e) } s.flight)
    else none

/-- while processing `c`: a message / re-queued event with time stamp `x ≥ c` for an LP of the same node -/
def emitLocal (s : St) (k x : Nat) : Option St :=
  match s.nodes[k]? with
  | none => none
  | some nd =>
    match nd.cur with
    | none => none
    | some c => if c ≤ x then some (upd s k { nd with pend := x :: nd.pend } s.flight) else none

/-- while processing `c`: a message / anti-message with time stamp `x ≥ c` for node `d`, stamped with the
sender's current colour (`gvt_remote_msg_send`, `gvt_remote_anti_msg_send`) -/
def emitRemote (s : St) (k d x : Nat) : Option St :=
  match s.nodes[k]? with
  | none => none
  | some nd =>
    match nd.cur with
    | none => none
    | some c =>
      if c ≤ x ∧ d < s.nodes.length then some (upd s k nd (s.flight ++ [⟨nd.colour, d, x⟩])) else none

/-- `process_msg` returns -/
def endProcess (s : St) (k : Nat) : Option St :=
  match s.nodes[k]? with
  | none => none
  | some nd =>
    match nd.cur with
    | none => none
    | some _ => some (upd s k { nd with cur := none } s.flight)

/-- in-flight message `i` arrives at its destination (`mpi_remote_msg_handle` → `msg_queue_insert`) -/
def deliver (s : St) (i : Nat) : Option St :=
  match s.flight[i]? with
  | none => none
  | some m =>
    match s.nodes[m.dest]? with
    | none => none
    | some nd => some (upd s m.dest { nd with pend := m.ts :: nd.pend } (s.flight.eraseIdx i))

/-- `gvt_start_processing`: `gvt_accumulator = SIMTIME_MAX`, first reduction starts; only between two events -/
def join (s : St) (k : Nat) : Option St :=
  match s.nodes[k]? with
  | none => none
  | some nd =>
    if nd.stage = .idle ∧ nd.cur = none then some (upd s k { nd with stage := .joined, acc := none } s.flight)
    else none

/-- end of the first reduction: `gvt_phase ^= !node_phase; ++node_phase` (the accumulator is NOT touched) -/
def flip (s : St) (k : Nat) : Option St :=
  match s.nodes[k]? with
  | none => none
  | some nd =>
    if nd.stage = .joined then some (upd s k { nd with stage := .flipped, colour := !nd.colour } s.flight)
    else none

/-- the guard of `pass k` (from `C04.Node.old_colour_drained`): every node has flipped and no message of the
old colour (`!colour k`, as `k` has flipped) addressed to `k` is in flight -/
def passGuard (s : St) (k : Nat) (nd : Node) : Prop :=
  (∀ n ∈ s.nodes, n.stage.hasFlipped = true) ∧ ∀ m ∈ s.flight, m.dest = k → m.colour = nd.colour

instance (s : St) (k : Nat) (nd : Node) : Decidable (passGuard s k nd) := by
  unfold passGuard; exact inferInstance

/-- leaving `node_sent_wait` (`total_msg_received` read as 0): second reduction starts -/
def pass (s : St) (k : Nat) : Option St :=
  match s.nodes[k]? with
  | none => none
  | some nd =>
    if nd.stage = .flipped ∧ passGuard s k nd then some (upd s k { nd with stage := .passed } s.flight)
    else none

/-- end of the second reduction: `mpi_reduce_min` is called with `min(acc, min pend, cur)` -/
def report (s : St) (k : Nat) : Option St :=
  match s.nodes[k]? with
  | none => none
  | some nd =>
    if nd.stage = .passed then some (upd s k { nd with stage := .reported (floor nd) } s.flight)
    else none

inductive Action where
  | beginProcess (k e : Nat)
  | emitLocal (k x : Nat)
  | emitRemote (k d x : Nat)
  | endProcess (k : Nat)
  | deliver (i : Nat)
  | join (k : Nat)
  | flip (k : Nat)
  | pass (k : Nat)
  | report (k : Nat)
deriving DecidableEq, Repr

/-- process / emit / deliver: the steps of the simulation proper (no GVT stage changes) -/
def Action.isWork : Action → Bool
  | .join _ | .flip _ | .pass _ | .report _ => false
  | _ => true

/-- one atomic step of the system -/
def step (s : St) : Action → Option St
  | .beginProcess k e => beginProcess s k e
  | .emitLocal k x => emitLocal s k x
  | .emitRemote k d x => emitRemote s k d x
  | .endProcess k => endProcess s k
  | .deliver i => deliver s i
  | .join k => join s k
  | .flip k => flip s k
  | .pass k => pass s k
  | .report k => report s k

/-- run a schedule; `none` as soon as one action is not enabled -/
def run (s : St) : List Action → Option St
  | [] => some s
  | a :: as => match step s a with
    | none => none
    | some s' => run s' as

/-- the step relation (same transitions as `step`, see `Proofs/GvtGlobal.lean` `step_iff`) -/
inductive Step (s : St) : St → Prop where
  | beginProcess (k e : Nat) (nd : Node) (hk : s.nodes[k]? = some nd) (he : e ∈ nd.pend) (hc : nd.cur = none) :
      Step s (upd s k { nd with pend := nd.pend.erase e, cur := some e, acc := omin nd.acc (some e) } s.flight)
  | emitLocal (k x c : Nat) (nd : Node) (hk : s.nodes[k]? = some nd) (hc : nd.cur = some c) (hx : c ≤ x) :
      Step s (upd s k { nd with pend := x :: nd.pend } s.flight)
  | emitRemote (k d x c : Nat) (nd : Node) (hk : s.nodes[k]? = some nd) (hc : nd.cur = some c) (hx : c ≤ x)
      (hd : d < s.nodes.length) :
      Step s (upd s k nd (s.flight ++ [⟨nd.colour, d, x⟩]))
  | endProcess (k c : Nat) (nd : Node) (hk : s.nodes[k]? = some nd) (hc : nd.cur = some c) :
      Step s (upd s k { nd with cur := none } s.flight)
  | deliver (i : Nat) (m : Msg) (nd : Node) (hi : s.flight[i]? = some m) (hk : s.nodes[m.dest]? = some nd) :
      Step s (upd s m.dest { nd with pend := m.ts :: nd.pend } (s.flight.eraseIdx i))
  | join (k : Nat) (nd : Node) (hk : s.nodes[k]? = some nd) (hs : nd.stage = .idle) (hc : nd.cur = none) :
      Step s (upd s k { nd with stage := .joined, acc := none } s.flight)
  | flip (k : Nat) (nd : Node) (hk : s.nodes[k]? = some nd) (hs : nd.stage = .joined) :
      Step s (upd s k { nd with stage := .flipped, colour := !nd.colour } s.flight)
  | pass (k : Nat) (nd : Node) (hk : s.nodes[k]? = some nd) (hs : nd.stage = .flipped) (hg : passGuard s k nd) :
      Step s (upd s k { nd with stage := .passed } s.flight)
  | report (k : Nat) (nd : Node) (hk : s.nodes[k]? = some nd) (hs : nd.stage = .passed) :
      Step s (upd s k { nd with stage := .reported (floor nd) } s.flight)

/-- reachability by `Step` -/
inductive Reach (s0 : St) : St → Prop where
  | refl : Reach s0 s0
  | step {s s' : St} : Reach s0 s → Step s s' → Reach s0 s'

/-! ## the round -/

/-- start of a round whose old colour is `old`: every node idle with colour `old`; every message in flight has
colour `old` (what the previous round leaves, see `round_end_is_round_start`) and a valid destination.
Nothing is assumed about `pend`, `cur` (events may be in progress) and `acc` (stale). -/
def RoundStart (old : Bool) (s : St) : Prop :=
  (∀ nd ∈ s.nodes, nd.stage = .idle ∧ nd.colour = old) ∧
  ∀ m ∈ s.flight, m.colour = old ∧ m.dest < s.nodes.length

instance (old : Bool) (s : St) : Decidable (RoundStart old s) := by
  unfold RoundStart; exact inferInstance

/-- every node has handed its value to the all-reduce -/
def AllReported (s : St) : Prop := ∀ nd ∈ s.nodes, nd.stage.isReported = true

instance (s : St) : Decidable (AllReported s) := by
  unfold AllReported; exact inferInstance

/-- `min` over a list of values -/
def ominL : List (Option Nat) → Option Nat
  | [] => none
  | a :: l => omin a (ominL l)

/-- result of `MPI_Iallreduce(MIN)` over the reported values; the GVT of the round once `AllReported` -/
def gvt (s : St) : Option Nat := ominL (s.nodes.map (·.stage.value))

/-- the hint's `G`: min over the nodes of what they reported / would report now -/
def G (s : St) : Option Nat := ominL (s.nodes.map floor)

/-- `v ≤ x` for a value `v` (`SIMTIME_MAX` is above every time stamp) -/
def OLe (v : Option Nat) (x : Nat) : Prop := ∃ y, v = some y ∧ y ≤ x

/-- `g ≤ v` for a value `v` (everything is below `SIMTIME_MAX`) -/
def Le (g : Nat) (v : Option Nat) : Prop := ∀ y, v = some y → g ≤ y

instance (v : Option Nat) (x : Nat) : Decidable (OLe v x) :=
  match v with
  | none => isFalse (by rintro ⟨y, h, _⟩; cases h)
  | some y => if h : y ≤ x then isTrue ⟨y, rfl, h⟩ else isFalse (by rintro ⟨z, hz, hle⟩; cases hz; exact h hle)

/-- the value `v` is a lower bound of every time stamp present in `s`: every `pend`, every `cur`, and EVERY
message in flight -/
def LowerBound (v : Option Nat) (s : St) : Prop :=
  (∀ nd ∈ s.nodes, (∀ x ∈ nd.pend, OLe v x) ∧ ∀ c, nd.cur = some c → OLe v c) ∧
  ∀ m ∈ s.flight, OLe v m.ts

instance (v : Option Nat) (s : St) : Decidable (LowerBound v s) := by
  unfold LowerBound
  have : ∀ nd : Node, Decidable (∀ c, nd.cur = some c → OLe v c) := fun nd =>
    match h : nd.cur with
    | none => isTrue (by intro c hc; cases hc)
    | some c => if hc : OLe v c then isTrue (by intro c' h'; cases h'; exact hc)
                else isFalse (fun hh => hc (hh c rfl))
  exact inferInstance

/-- the state the next round starts from: same queues / messages / colours, all stages `idle` -/
def nextRound (s : St) : St := { s with nodes := s.nodes.map fun nd => { nd with stage := .idle } }

/-! ## the two mutants used by the counter-examples -/

/-- `pass` WITHOUT the counting guard (a node starts its second reduction as soon as it has flipped) -/
def passUnguarded (s : St) (k : Nat) : Option St :=
  match s.nodes[k]? with
  | none => none
  | some nd => if nd.stage = .flipped then some (upd s k { nd with stage := .passed } s.flight) else none

/-- `flip` that ALSO resets the accumulator (as if each reduction started with `gvt_start_processing`) -/
def flipReset (s : St) (k : Nat) : Option St :=
  match s.nodes[k]? with
  | none => none
  | some nd =>
    if nd.stage = .joined then
      some (upd s k { nd with stage := .flipped, colour := !nd.colour, acc := none } s.flight)
    else none

/-- `join` WITHOUT the guard `cur = none` (round joined in the middle of an event) -/
def joinBusy (s : St) (k : Nat) : Option St :=
  match s.nodes[k]? with
  | none => none
  | some nd => if nd.stage = .idle then some (upd s k { nd with stage := .joined, acc := none } s.flight) else none

inductive Variant where
  | real | noCounting | resetAtFlip | joinBusy
deriving DecidableEq, Repr

def stepV (v : Variant) (s : St) (a : Action) : Option St :=
  match v, a with
  | .noCounting, .pass k => passUnguarded s k
  | .resetAtFlip, .flip k => flipReset s k
  | .joinBusy, .join k => joinBusy s k
  | _, a => step s a

def runV (v : Variant) (s : St) : List Action → Option St
  | [] => some s
  | a :: as => match stepV v s a with
    | none => none
    | some s' => runV v s' as

end RootSim.GvtGlobal
