import RootSim.Model.Sim
/-!
The reference semantics of a sequential discrete-event simulation: the *textbook event list*.

* `SeqSpec` part: a **relation**.  A configuration is (LP states, sticky per-LP "can end" flags, multiset of
  pending events).  A `Step` dispatches SOME `before`-minimal pending event to its destination LP, replaces
  the LP state and adds the scheduled events.  `MainRun` is any sequence of such steps that stops exactly
  according to the stop rule of the runtime (all LPs have signalled `CanEnd` after one of their own
  events, or the periodic timer fired at an event with `t ≥ termination_time`, or nothing is pending);
  `IsSpecRun` frames it with `LP_INIT` for every LP (in LP order) and `LP_FINI` for every LP.
  Nothing here mentions a heap or any data structure.
* `refRun`: an executable instance that keeps the pending events in a sorted list (stable insertion by
  `Event.before`) — independent of the heap code of `Model/Heap.lean` / `Model/Serial.lean`.

The wall-clock test `gvt_period <= timer_value(last_vt)` of `serial_simulation_run` is a nondeterministic
oracle: `timer k` says whether it fired in the `k`-th iteration of the main loop.
-/
namespace RootSim

/-- the `LP_INIT` event of LP `lp`: `msg_allocator_pack(i, 0.0, LP_INIT, NULL, 0)` -/
def initEvent (lp : Nat) : Event := { dest := lp, t := 0, type := LP_INIT, payload := [] }
/-- the `LP_FINI` call of LP `lp`: `dispatcher(i, 0, LP_FINI, NULL, 0, state)` -/
def finiEvent (lp : Nat) : Event := { dest := lp, t := 0, type := LP_FINI, payload := [] }

/-- how a run of an executable model ended -/
inductive Outcome where
  /-- the main loop ended by its own rule and `LP_FINI` was delivered to every LP -/
  | finished
  /-- the step budget (`fuel`) of the executable model ran out: the result is a prefix of a run -/
  | outOfFuel
  /-- contract V2/V3 violated: `heap_extract` removed (and the runtime freed) a message other than the one
  just dispatched; ordinals (`mSeq`) of the dispatched and of the extracted message.  The real runtime
  continues with a corrupted queue (the dispatched event is dispatched again later). -/
  | wrongExtract (dispatched extracted : Nat)
  /-- contract V4 violated: `lps[msg->dest]` is out of bounds -/
  | badDest (lp : Nat)
  /-- `heap_extract` on an empty queue (cannot happen: the dispatched message is still queued) -/
  | emptyExtract
deriving Repr, DecidableEq

/-- result of an executable run: every dispatcher invocation `(lp, t, type, payload)` in order, the final
LP states, and how the run ended -/
structure RunResult (σ : Type) where
  trace   : List Event
  states  : List σ
  outcome : Outcome

/-! ## The specification (relation) -/

/-- configuration of the event-list executor -/
structure Cfg (σ : Type) where
  /-- LP states -/
  st    : List σ
  /-- sticky flags: `CanEnd` held after some event processed by that LP -/
  ended : List Bool
  /-- pending events (a multiset: only used up to permutation) -/
  pend  : List Event

/-- `e` is pending and no pending event is before it -/
def Event.minIn (e : Event) (p : List Event) : Prop := e ∈ p ∧ ∀ x ∈ p, Event.before x e = false

/-- One step of the textbook executor: dispatch some minimal pending event. -/
def Step {σ : Type} (M : SimModel σ) (c : Cfg σ) (e : Event) (c' : Cfg σ) : Prop :=
  ∃ s b, e.minIn c.pend ∧ c.st[e.dest]? = some s ∧ c.ended[e.dest]? = some b ∧
    c'.st = c.st.set e.dest (M.handler e.dest s e).1 ∧
    c'.ended = c.ended.set e.dest (b || M.canEnd e.dest (M.handler e.dest s e).1) ∧
    c'.pend.Perm (c.pend.erase e ++ (M.handler e.dest s e).2)

/-- a sequence of steps with the list of dispatched events -/
inductive Steps {σ : Type} (M : SimModel σ) : Cfg σ → List Event → Cfg σ → Prop
  | nil (c : Cfg σ) : Steps M c [] c
  | cons {c c' c'' : Cfg σ} {e : Event} {tr : List Event} :
      Step M c e c' → Steps M c' tr c'' → Steps M c (e :: tr) c''

/-- `LP_INIT` of LP `lp` (its state before is `M.init lp`): nothing is pending for it, it is delivered directly -/
def initStep {σ : Type} (M : SimModel σ) (c : Cfg σ) (lp : Nat) : Cfg σ :=
  let r := M.handler lp (M.init lp) (initEvent lp)
  { st := c.st.set lp r.1, ended := c.ended, pend := c.pend ++ r.2 }

def initCfg0 {σ : Type} (M : SimModel σ) : Cfg σ :=
  { st := (List.range M.nLps).map M.init, ended := List.replicate M.nLps false, pend := [] }

/-- configuration after `LP_INIT` has been delivered to every LP, in LP order -/
def initCfg {σ : Type} (M : SimModel σ) : Cfg σ := (List.range M.nLps).foldl (initStep M) (initCfg0 M)
def initTrace {σ : Type} (M : SimModel σ) : List Event := (List.range M.nLps).map initEvent

/-- `LP_FINI` for every LP in LP order (events scheduled by the handler during `LP_FINI` are never
dispatched: `serial_simulation_fini` frees the queue) -/
def finiStatesFrom {σ : Type} (M : SimModel σ) : Nat → List σ → List σ
  | _, [] => []
  | lp, s :: rest => (M.handler lp s (finiEvent lp)).1 :: finiStatesFrom M (lp + 1) rest
def finiStates {σ : Type} (M : SimModel σ) (st : List σ) : List σ := finiStatesFrom M 0 st
def finiTrace {σ : Type} (M : SimModel σ) : List Event := (List.range M.nLps).map finiEvent

/-- every LP has signalled `CanEnd` -/
def Cfg.allEnded {σ : Type} (c : Cfg σ) : Bool := c.ended.all id

/-- the stop rule, evaluated after the `k`-th dispatch of the main loop (event `e`, new configuration `c'`) -/
def stopNow {σ : Type} (termT : Nat) (timer : Nat → Bool) (k : Nat) (c' : Cfg σ) (e : Event) : Bool :=
  c'.allEnded || (timer k && decide (termT ≤ e.t))

/-- The main phase: `MainRun k c tr c' fin` — starting with iteration number `k` in configuration `c`
the events `tr` are dispatched, ending in `c'`; `fin = true` iff the run has stopped by the rule
(`fin = false`: an unfinished prefix). -/
inductive MainRun {σ : Type} (M : SimModel σ) (termT : Nat) (timer : Nat → Bool) :
    Nat → Cfg σ → List Event → Cfg σ → Bool → Prop
  | cut (k : Nat) (c : Cfg σ) : MainRun M termT timer k c [] c false
  | empty (k : Nat) (c : Cfg σ) : c.pend = [] → MainRun M termT timer k c [] c true
  | stop {k : Nat} {c c' : Cfg σ} {e : Event} : Step M c e c' → stopNow termT timer k c' e = true →
      MainRun M termT timer k c [e] c' true
  | step {k : Nat} {c c' c'' : Cfg σ} {e : Event} {tr : List Event} {fin : Bool} :
      Step M c e c' → stopNow termT timer k c' e = false →
      MainRun M termT timer (k + 1) c' tr c'' fin → MainRun M termT timer k c (e :: tr) c'' fin

/-- `r` is (a prefix of) a run of the reference semantics -/
def IsSpecRun {σ : Type} (M : SimModel σ) (termT : Nat) (timer : Nat → Bool) (r : RunResult σ) : Prop :=
  ∃ (main : List Event) (c : Cfg σ),
    (r.outcome = .finished ∧ MainRun M termT timer 0 (initCfg M) main c true ∧
      r.trace = initTrace M ++ main ++ finiTrace M ∧ r.states = finiStates M c.st) ∨
    (r.outcome = .outOfFuel ∧ MainRun M termT timer 0 (initCfg M) main c false ∧
      r.trace = initTrace M ++ main ∧ r.states = c.st)

/-- configurations the reference semantics can reach (pending events up to permutation) -/
inductive Reachable {σ : Type} (M : SimModel σ) : Cfg σ → Prop
  | init {c : Cfg σ} : c.st = (initCfg M).st → c.ended = (initCfg M).ended → c.pend.Perm (initCfg M).pend →
      Reachable M c
  | step {c c' : Cfg σ} {e : Event} : Reachable M c → Step M c e c' → Reachable M c'

/-- **valid model**: every handler call the reference semantics can make satisfies the contract
(`validStep`: V2 scheduled events are not before the scheduling event, V3 types `< LP_INIT`, V4 destinations exist) -/
structure SimModel.Valid {σ : Type} (M : SimModel σ) : Prop where
  init : ∀ lp, lp < M.nLps → M.validStep lp (M.init lp) (initEvent lp)
  step : ∀ c, Reachable M c → ∀ e s, e.minIn c.pend → c.st[e.dest]? = some s → M.validStep e.dest s e

/-! ## An executable instance: sorted event list -/

/-- stable insertion into a list sorted by `Event.before` (after all events that are not after it) -/
def insertSorted (e : Event) : List Event → List Event
  | [] => [e]
  | x :: xs => if Event.before e x then e :: x :: xs else x :: insertSorted e xs

def insertAllSorted (es : List Event) (l : List Event) : List Event := es.foldl (fun l e => insertSorted e l) l

structure RefSt (σ : Type) where
  st       : List σ
  ended    : List Bool
  pend     : List Event
  traceRev : List Event

def refInit {σ : Type} (M : SimModel σ) : RefSt σ :=
  (List.range M.nLps).foldl
    (fun (S : RefSt σ) lp =>
      let r := M.handler lp (M.init lp) (initEvent lp)
      { S with st := S.st.set lp r.1, pend := insertAllSorted r.2 S.pend, traceRev := initEvent lp :: S.traceRev })
    { st := (List.range M.nLps).map M.init, ended := List.replicate M.nLps false, pend := [], traceRev := [] }

def refMain {σ : Type} (M : SimModel σ) (termT : Nat) (timer : Nat → Bool) :
    Nat → Nat → RefSt σ → RefSt σ × Outcome
  | 0, _, S => (S, .outOfFuel)
  | fuel + 1, k, S =>
    match S.pend with
    | [] => (S, .finished)
    | e :: rest =>
      match S.st[e.dest]?, S.ended[e.dest]? with
      | some s, some b =>
        let r := M.handler e.dest s e
        let S' : RefSt σ :=
          { st := S.st.set e.dest r.1, ended := S.ended.set e.dest (b || M.canEnd e.dest r.1),
            pend := insertAllSorted r.2 rest, traceRev := e :: S.traceRev }
        if S'.ended.all id || (timer k && decide (termT ≤ e.t)) then (S', .finished)
        else refMain M termT timer fuel (k + 1) S'
      | _, _ => (S, .badDest e.dest)

/-- the reference executor: model, termination time (key), timer oracle, step budget -/
def refRun {σ : Type} (M : SimModel σ) (termT : Nat) (timer : Nat → Bool) (fuel : Nat) : RunResult σ :=
  match refMain M termT timer fuel 0 (refInit M) with
  | (S, .finished) =>
    { trace := S.traceRev.reverse ++ finiTrace M, states := finiStates M S.st, outcome := .finished }
  | (S, o) => { trace := S.traceRev.reverse, states := S.st, outcome := o }

end RootSim
