/-!
# Model of `src/gvt/termination.c` (termination detection, property C07)

Hand-written, executable, total. One definition per C function, same branches, same order of
the read-modify-write operations. Two *variants* of the code are modelled by the same
definitions, selected by `fix : Bool`:

* `fix = false` — the pinned tree: "predicate not (yet) true" is the sentinel `0.0`
  (`lp->termination_t = term * msg_time`, test `if(lp->termination_t)`),
* `fix = true`  — the tree after `repo_patches/f2_termination_sentinel.diff`: the sentinel is `-1.0`
  (`lp->termination_t = term ? msg_time : -1.0`, test `if(lp->termination_t >= 0)`).

Time stamps are *keys* (see `Model/Msg.lean`): the IEEE-754 bit pattern of a non-negative finite
double read as a natural number; `0.0 ↦ 0`, `SIMTIME_MAX = DBL_MAX ↦ 0x7FEFFFFFFFFFFFFF`. On that domain the
order of the doubles is the order of the keys. The field `termination_t` additionally takes the
value `-1.0` in the patched variant; it is modelled as an `Int` with `-1.0 ↦ -1` (order preserved).
The three multiplications of the pinned code (`term * SIMTIME_MAX`, `term * msg_time`,
`keep * old_t`) have a `bool` (0 or 1) as first factor and a finite non-negative second factor, so
they are exactly "second factor or `0.0`".

Integer widths: `lps_to_end` is `uint64_t` (arithmetic mod 2^64 is kept), `thr_to_end` is
`_Atomic rid_t` = `unsigned` (mod 2^32 kept), `nodes_to_end` is `_Atomic nid_t` = `int`
(modelled as an unbounded `Int`: it is only ever decremented by small amounts and compared `> 0`).
C11 `memory_order` annotations are not modelled: every atomic access is one sequentially
consistent step.
-/
namespace RootSim.Term

/-- key of `SIMTIME_MAX` (= `DBL_MAX`) -/
def SIMTIME_MAX : Nat := 0x7FEFFFFFFFFFFFFF
/-- 2^64 -/
def W64 : Nat := 18446744073709551616
/-- 2^32 -/
def W32 : Nat := 4294967296

/-- the value meaning "termination predicate not true": `0.0` (pinned) or `-1.0` (patched) -/
def unsetV (fix : Bool) : Int := if fix then -1 else 0

/-- the test at the top of `termination_on_msg_process`:
`if(lp->termination_t)` (pinned) / `if(lp->termination_t >= 0)` (patched) -/
def isSet (fix : Bool) (x : Int) : Bool := if fix then decide (0 ≤ x) else decide (x ≠ 0)

/-- The thread-local part of the module: `static __thread uint64_t lps_to_end`,
`static __thread simtime_t max_t`, and the `termination_t` fields of the LPs bound to this
thread (in the order of `lp_init`'s loop; index = `lp - &lps[lid_thread_first]`). -/
structure Thread where
  termT    : List Int
  lpsToEnd : Nat
  maxT     : Nat
deriving Repr, DecidableEq

/-- Thread state at program start (zero-initialised statics, no LP yet). -/
def Thread.init : Thread := { termT := [], lpsToEnd := 0, maxT := 0 }

/-- `termination_lp_init(lp)` for the next LP of the thread; `term` is what
`global_config.committed(lp - lps, lp->state_pointer)` returned. -/
def lpInit (fix : Bool) (th : Thread) (term : Bool) : Thread :=
  { th with
    lpsToEnd := (th.lpsToEnd + (if term then 0 else 1)) % W64   -- lps_to_end += !term
    termT := th.termT ++ [if term then (SIMTIME_MAX : Int) else unsetV fix] }  -- term * SIMTIME_MAX

/-- `termination_on_msg_process(lp, msg_time)`; `term` is what `committed()` returns *if it is
called* (it is called only when the early return is not taken). `none` = LP index out of range
(undefined behaviour in C). -/
def onMsgProcess (fix : Bool) (th : Thread) (i : Nat) (t : Nat) (term : Bool) : Option Thread :=
  match th.termT[i]? with
  | none => none
  | some old =>
    if isSet fix old then some th            -- if(lp->termination_t) return;
    else some
      { maxT := if term then max t th.maxT else th.maxT          -- max_t = term ? max(msg_time, max_t) : max_t
        termT := th.termT.set i (if term then (t : Int) else unsetV fix)  -- term * msg_time
        lpsToEnd := (th.lpsToEnd + W64 - (if term then 1 else 0)) % W64 } -- lps_to_end -= term

/-- `termination_on_lp_rollback(lp, msg_time)` -/
def onRollback (fix : Bool) (th : Thread) (i : Nat) (s : Nat) : Option Thread :=
  match th.termT[i]? with
  | none => none
  | some old =>
    let keep : Bool := decide (old < (s : Int)) || decide (old = (SIMTIME_MAX : Int))
    some { th with
      termT := th.termT.set i (if keep then old else unsetV fix)       -- keep * old_t
      lpsToEnd := (th.lpsToEnd + (if keep then 0 else 1)) % W64 }      -- lps_to_end += !keep

/-- the condition under which `termination_on_gvt` returns early (no vote) -/
def noVote (th : Thread) (g ttime : Nat) : Bool :=
  (decide (th.lpsToEnd ≠ 0) || decide (th.maxT ≥ g)) && decide (g < ttime)

/-- Node-wide state: the threads, `thr_to_end`, `nodes_to_end`, and
`global_config.termination_time` (key). -/
structure Node where
  thrs       : List Thread
  thrToEnd   : Nat
  nodesToEnd : Int
  ttime      : Nat
deriving Repr, DecidableEq

/-- `termination_global_init()` for `nThreads` threads, `nNodes` nodes -/
def Node.init (nThreads nNodes ttime : Nat) : Node :=
  { thrs := List.replicate nThreads Thread.init, thrToEnd := nThreads % W32,
    nodesToEnd := nNodes, ttime := ttime }

/-- `termination_on_ctrl_msg()` : one MSG_CTRL_TERMINATION handled by this node -/
def onCtrlMsg (n : Node) : Node := { n with nodesToEnd := n.nodesToEnd - 1 }

/-- `termination_on_gvt(current_gvt)` on thread `ti`. Returns the new node state and whether
the thread voted. With `no_mpi.c` (and for the sending node in general) the broadcast of
MSG_CTRL_TERMINATION by the last voter is handled synchronously by `control_msg_process`,
i.e. `termination_on_ctrl_msg()`. -/
def onGvt (n : Node) (ti : Nat) (g : Nat) : Option (Node × Bool) :=
  match n.thrs[ti]? with
  | none => none
  | some th =>
    if noVote th g n.ttime then some (n, false)
    else
      let th' := { th with maxT := SIMTIME_MAX }               -- max_t = SIMTIME_MAX
      let t := n.thrToEnd                                       -- t = fetch_sub(&thr_to_end, 1)
      let n1 := { n with thrs := n.thrs.set ti th', thrToEnd := (t + W32 - 1) % W32 }
      some (if t = 1 then onCtrlMsg n1 else n1, true)

/-- `RootsimStop()` in a parallel run on a node that knows `nNodes` nodes:
`n_nodes + 1` broadcasts, each handled locally once. -/
def rootsimStop (n : Node) (nNodes : Nat) : Node :=
  { n with nodesToEnd := n.nodesToEnd - ((nNodes : Int) + 1) }

/-- `termination_cant_end()` -/
def cantEnd (n : Node) : Bool := decide (n.nodesToEnd > 0)

/-! ### Operation sequences (what the harness generates and the driver replays) -/

inductive Op where
  /-- `termination_lp_init` of the next LP of thread `th` -/
  | lpInit (th : Nat) (term : Bool)
  /-- `termination_on_msg_process(lp, t)` on thread `th`, thread-local LP index `lp`;
      `term` = value of the predicate on the state reached by this event -/
  | proc (th lp t : Nat) (term : Bool)
  /-- `termination_on_lp_rollback(lp, s)`; the rollback keeps the first `k` history entries
      of the LP (`k` is used by the specification ledger only) -/
  | rb (th lp s k : Nat)
  /-- `termination_on_gvt(g)` on thread `th` -/
  | gvt (th g : Nat)
  /-- `RootsimStop()` -/
  | stop
  /-- a MSG_CTRL_TERMINATION broadcast by another node arrives -/
  | ctrl
deriving Repr, DecidableEq

def updThread (n : Node) (ti : Nat) (f : Thread → Option Thread) : Option Node :=
  match n.thrs[ti]? with
  | none => none
  | some th => match f th with
    | none => none
    | some th' => some { n with thrs := n.thrs.set ti th' }

/-- one operation on the code state; the `Bool` says whether a vote was cast -/
def step (fix : Bool) (nNodes : Nat) (n : Node) : Op → Option (Node × Bool)
  | .lpInit ti term => (updThread n ti (fun th => some (lpInit fix th term))).map (·, false)
  | .proc ti i t term => (updThread n ti (fun th => onMsgProcess fix th i t term)).map (·, false)
  | .rb ti i s _ => (updThread n ti (fun th => onRollback fix th i s)).map (·, false)
  | .gvt ti g => onGvt n ti g
  | .stop => some (rootsimStop n nNodes, false)
  | .ctrl => some (onCtrlMsg n, false)

/-- run a list of operations, `none` on the first ill-formed one -/
def run (fix : Bool) (nNodes : Nat) (n : Node) : List Op → Option Node
  | [] => some n
  | o :: os => match step fix nNodes n o with
    | none => none
    | some (n', _) => run fix nNodes n' os

end RootSim.Term
