/-
Model of `struct lp_msg` and of the event order of `src/lp/msg.h`
(`msg_is_before`, `msg_is_before_extended`) and of `q_elem_is_before`
(`src/datatypes/msg_queue.c`).

Time stamps are modelled by their *key*: the IEEE-754 bit pattern of a
non-negative, finite, non-NaN, non-`-0.0` double read as a natural number.
On that domain (the API contract, DESIGN §2.8 V3) the numeric order of the
doubles and the order of the keys coincide, and the runtime only ever
compares time stamps of messages (never does arithmetic on them) in the
code modelled here.
-/
namespace RootSim

/-- The whole `struct lp_msg`, including the fields that must NOT influence the order. -/
structure Msg where
  next     : Nat := 0        -- `next` pointer (an address)
  dest     : Nat := 0
  destT    : Nat             -- key of `dest_t`
  rawFlags : Nat             -- `raw_flags` / `flags` (bit 0 = MSG_FLAG_ANTI, bit 1 = PROCESSED, rest: id)
  send     : Nat := 0
  sendT    : Nat := 0
  mSeq     : Nat := 0
  mType    : Nat
  plSize   : Nat
  pl       : List Nat        -- bytes of `pl` followed by `extra_pl` (may be longer than plSize)
deriving Repr, DecidableEq

/-- `memcmp(x, y, n) > 0` for two byte strings of the same length `n`:
the first differing byte is larger in `x`. -/
def memcmpGt : List Nat → List Nat → Bool
  | x :: xs, y :: ys => if x = y then memcmpGt xs ys else decide (x > y)
  | _, _ => false

/-- the anti flag as compared by the code: `raw_flags & MSG_FLAG_ANTI` -/
def Msg.anti (m : Msg) : Nat := m.rawFlags % 2

/-- the payload bytes that `memcmp(a->pl, b->pl, a->pl_size)` reads -/
def Msg.body (m : Msg) : List Nat := m.pl.take m.plSize

/-- `msg_is_before_extended(a, b)` -/
def isBeforeExt (a b : Msg) : Bool :=
  if a.anti ≠ b.anti then decide (a.anti > b.anti)
  else if a.mType ≠ b.mType then decide (a.mType > b.mType)
  else if a.plSize ≠ b.plSize then decide (a.plSize < b.plSize)
  else memcmpGt a.body b.body

/-- `msg_is_before(a, b)` -/
def isBefore (a b : Msg) : Bool :=
  decide (a.destT < b.destT) || (decide (a.destT = b.destT) && isBeforeExt a b)

/-- `struct q_elem` of the per-thread queue: cached time stamp + message -/
structure QElem where
  t : Nat
  m : Msg

/-- `q_elem_is_before(ma, mb)` -/
def qElemBefore (x y : QElem) : Bool :=
  decide (x.t < y.t) || (decide (x.t = y.t) && isBeforeExt x.m y.m)

/-- What the order is *allowed* to depend on. -/
def Msg.content (m : Msg) : Nat × Nat × Nat × Nat × List Nat :=
  (m.destT, m.anti, m.mType, m.plSize, m.body)

/-- Well-formed: the buffer really holds `pl_size` bytes. -/
def Msg.WF (m : Msg) : Prop := m.plSize ≤ m.pl.length

instance (m : Msg) : Decidable m.WF := by unfold Msg.WF; infer_instance

end RootSim
