import RootSim.Model.Float
/-
Model of the rollbackable random number library, `src/lib/random/random.c`,
`src/lib/random/xoroshiro.h`, `src/lib/random/xxtea.c` (and the use of
`intrinsics_clz` of `src/core/intrinsics.h` in `Random()`).

`uint64_t` / `uint32_t` values are natural numbers `< 2^64` / `< 2^32`; every C operation that
wraps is followed by an explicit `% 2^64` / `% 2^32`.  Operations whose behaviour is undefined
in C return `.error`, they are NOT totalised.
-/
namespace RootSim.Rand
open RootSim.Float

/-! ## xoshiro256** (`xoroshiro.h`) -/

/-- `rotl(x, k)` macro on `uint64_t`, used with `k = 7` and `k = 45` only:
`((x) << (k)) | ((x) >> (64 - (k)))` -/
def rotl (x k : Nat) : Nat := ((x <<< k) % 2 ^ 64) ||| (x >>> (64 - k))

/-- `struct rng_ctx`: `state[0..3]` -/
structure Rng where
  s0 : Nat
  s1 : Nat
  s2 : Nat
  s3 : Nat
deriving Repr, DecidableEq

def Rng.WF (g : Rng) : Prop := g.s0 < 2 ^ 64 ∧ g.s1 < 2 ^ 64 ∧ g.s2 < 2 ^ 64 ∧ g.s3 < 2 ^ 64

instance (g : Rng) : Decidable g.WF := by unfold Rng.WF; infer_instance

/-- `random_u64(rng_s)` macro: result and new state, statement by statement. -/
def xoshiroNext (g : Rng) : Nat × Rng :=
  let res := (rotl ((g.s1 * 5) % 2 ^ 64) 7 * 9) % 2 ^ 64   -- rotl(s[1] * 5, 7) * 9
  let t := (g.s1 <<< 17) % 2 ^ 64                           -- s[1] << 17
  let s2 := g.s2 ^^^ g.s0                                   -- s[2] ^= s[0]
  let s3 := g.s3 ^^^ g.s1                                   -- s[3] ^= s[1]
  let s1 := g.s1 ^^^ s2                                     -- s[1] ^= s[2]
  let s0 := g.s0 ^^^ s3                                     -- s[0] ^= s[3]
  let s2 := s2 ^^^ t                                        -- s[2] ^= t
  let s3 := rotl s3 45                                      -- s[3] = rotl(s[3], 45)
  (res, ⟨s0, s1, s2, s3⟩)

/-- `k` raw draws: the state after `k` calls of `random_u64` -/
def advance : Nat → Rng → Rng
  | 0, g => g
  | k + 1, g => advance k (xoshiroNext g).2

/-- rotate right (used only to craft states, not part of the C code) -/
def rotr (x k : Nat) : Nat := (x >>> k) ||| ((x <<< (64 - k)) % 2 ^ 64)

/-- The value of `state[1]` for which the next raw output is `u` (the output function
`s1 ↦ rotl(s1 * 5, 7) * 9` is a bijection of `uint64_t`); this is what the harness uses. -/
def craftS1 (u : Nat) : Nat :=
  (0xCCCCCCCCCCCCCCCD * rotr ((0x8E38E38E38E38E39 * u) % 2 ^ 64) 7) % 2 ^ 64

/-! ## XXTEA (`xxtea.c`) -/

def xxteaDelta : Nat := 0x9e3779b9

/-- `xxtea_mx(y, z, sum, p, e, key)`; `key` has 4 words, the index `(p & 3) ^ e` is `< 4`
because `e < 4`. -/
def xxteaMx (y z sum p e : Nat) (key : List Nat) : Nat :=
  ((((z >>> 5) ^^^ ((y <<< 2) % 2 ^ 32)) + ((y >>> 3) ^^^ ((z <<< 4) % 2 ^ 32))) % 2 ^ 32) ^^^
  (((sum ^^^ y) + (key.getD ((p &&& 3) ^^^ e) 0 ^^^ z)) % 2 ^ 32)

/-- the `for(p = 0; p < n - 1; p++) z = v[p] += xxtea_mx(v[p + 1], z, sum, p, e, key);` loop;
first argument = number of iterations left. Indices are in range by the loop bounds
(`List.getD`'s default is never used when `p + cnt < v.length`). -/
def encInner (key : List Nat) (sum e : Nat) : Nat → Nat → List Nat → Nat → List Nat × Nat
  | 0, _, v, z => (v, z)
  | cnt + 1, p, v, z =>
    let nv := (v.getD p 0 + xxteaMx (v.getD (p + 1) 0) z sum p e key) % 2 ^ 32
    encInner key sum e cnt (p + 1) (v.set p nv) nv

/-- one iteration of the `do … while(--rounds)` body of `xxtea_encode` -/
def encRound (key : List Nat) (sum : Nat) (v : List Nat) (z : Nat) : List Nat × Nat :=
  let n := v.length
  let e := (sum >>> 2) &&& 3
  let vz := encInner key sum e (n - 1) 0 v z
  let nv := (vz.1.getD (n - 1) 0 + xxteaMx (vz.1.getD 0 0) vz.2 sum (n - 1) e key) % 2 ^ 32
  (vz.1.set (n - 1) nv, nv)

def encRounds (key : List Nat) : Nat → Nat → List Nat → Nat → List Nat
  | 0, _, v, _ => v
  | r + 1, sum, v, z =>
    let vz := encRound key sum v z
    encRounds key r ((sum + xxteaDelta) % 2 ^ 32) vz.1 vz.2

/-- `xxtea_encode(v, n, key)` for `n = v.length > 1` (`rounds = 8 + 50 / n ≥ 8`, so the
do-while body runs exactly `rounds` times) -/
def xxteaEncodeCore (v key : List Nat) : List Nat :=
  let n := v.length
  encRounds key (8 + 50 / n) xxteaDelta v (v.getD (n - 1) 0)

/-- the `for(p = n - 1; p > 0; p--) y = v[p] -= xxtea_mx(y, v[p - 1], sum, p, e, key);` loop;
`uint32_t` subtraction `a - m` is `(a + (2^32 - m)) % 2^32` (`m < 2^32`). -/
def decInner (key : List Nat) (sum e : Nat) : Nat → Nat → List Nat → Nat → List Nat × Nat
  | 0, _, v, y => (v, y)
  | cnt + 1, p, v, y =>
    let nv := (v.getD p 0 + (2 ^ 32 - xxteaMx y (v.getD (p - 1) 0) sum p e key)) % 2 ^ 32
    decInner key sum e cnt (p - 1) (v.set p nv) nv

def decRound (key : List Nat) (sum : Nat) (v : List Nat) (y : Nat) : List Nat × Nat :=
  let n := v.length
  let e := (sum >>> 2) &&& 3
  let vy := decInner key sum e (n - 1) (n - 1) v y
  let nv := (vy.1.getD 0 0 + (2 ^ 32 - xxteaMx vy.2 (vy.1.getD (n - 1) 0) sum 0 e key)) % 2 ^ 32
  (vy.1.set 0 nv, nv)

def decRounds (key : List Nat) : Nat → Nat → List Nat → Nat → List Nat
  | 0, _, v, _ => v
  | r + 1, sum, v, y =>
    let vy := decRound key sum v y
    decRounds key r ((sum + (2 ^ 32 - xxteaDelta)) % 2 ^ 32) vy.1 vy.2

/-- `xxtea_decode(v, n, key)` for `n = v.length > 1` -/
def xxteaDecodeCore (v key : List Nat) : List Nat :=
  let n := v.length
  let rounds := 8 + 50 / n
  decRounds key rounds ((rounds * xxteaDelta) % 2 ^ 32) v (v.getD 0 0)

/-- `xxtea_encode` with its contract `assert(n > 1)` (`n = 0` would divide by zero and read
`v[-1]`) -/
def xxteaEncode (v key : List Nat) : Except UB (List Nat) :=
  if v.length > 1 then .ok (xxteaEncodeCore v key) else .error .xxteaLen

def xxteaDecode (v key : List Nat) : Except UB (List Nat) :=
  if v.length > 1 then .ok (xxteaDecodeCore v key) else .error .xxteaLen

/-- `xxtea_seeding_key` of random.c -/
def seedingKey : List Nat := [0xd0a8f58a, 0x33359424, 0x09baa55b, 0x80e1bdb0]

/-- the 8 little-endian `uint32_t` words that `(uint32_t *)rng_ctx->state` points to after
`state = {lp_id, seed, lp_id, seed}` -/
def seedWords (lp seed : Nat) : List Nat :=
  [lp % 2 ^ 32, lp / 2 ^ 32, seed % 2 ^ 32, seed / 2 ^ 32,
   lp % 2 ^ 32, lp / 2 ^ 32, seed % 2 ^ 32, seed / 2 ^ 32]

/-- reassemble 8 words into `state[0..3]` -/
def wordsToRng (w : List Nat) : Rng :=
  ⟨w.getD 0 0 + w.getD 1 0 * 2 ^ 32, w.getD 2 0 + w.getD 3 0 * 2 ^ 32,
   w.getD 4 0 + w.getD 5 0 * 2 ^ 32, w.getD 6 0 + w.getD 7 0 * 2 ^ 32⟩

/-- `random_lib_lp_init(lp_id, rng_ctx)` with `global_config.prng_seed = seed`:
a function of `(lp, seed)` and of nothing else. -/
def seedState (lp seed : Nat) : Rng :=
  wordsToRng (xxteaEncodeCore (seedWords lp seed) seedingKey)

/-! ## `Random()` -/

/-- `intrinsics_clz(x)` for a non-zero `uint64_t` (`__builtin_clzl`) -/
def clz64 (u : Nat) : Nat := 63 - Nat.log2 u

/-- Body of `Random()` after `u_val = RandomU64()`, pinned tree. Returns the bit pattern that is
`memcpy`'d into the `double`. `u_val <<= lzs` with `lzs = 64` is undefined behaviour. -/
def randomBits (u : Nat) : Except UB Nat :=
  if u = 0 then .ok 0                         -- return 0.0
  else
    let lzs := clz64 u + 1                    -- unsigned lzs = intrinsics_clz(u_val) + 1
    if lzs ≥ 64 then .error .shiftWidth       -- u_val <<= lzs
    else
      let u1 := (u <<< lzs) % 2 ^ 64
      let u2 := u1 >>> 12                     -- u_val >>= 12
      let exp := 1023 - lzs                   -- uint64_t exp = 1023 - lzs
      .ok (u2 ||| (exp <<< 52))               -- u_val |= exp << 52

/-- `Random()` after `repo_patches/random_shift_ub.diff`:
`u_val = u_val << (lzs - 1) << 1;` (both counts `< 64`). Never undefined. -/
def randomBitsFixed (u : Nat) : Except UB Nat :=
  if u = 0 then .ok 0
  else
    let lzs := clz64 u + 1
    let u1 := ((((u <<< (lzs - 1)) % 2 ^ 64) <<< 1) % 2 ^ 64)
    let u2 := u1 >>> 12
    let exp := 1023 - lzs
    .ok (u2 ||| (exp <<< 52))

/-! ## API functions: `Rng → Except UB (α × Rng)`

Every function takes ONE generator (the calling LP's, `current_lp->rng_ctx`) and returns the
new value of that generator; no other generator is an input or an output.  `bitsFn` is
`randomBits` (pinned tree) or `randomBitsFixed` (patched tree). -/

abbrev BitsFn := Nat → Except UB Nat

/-- `RandomU64()` -/
def randomU64 (g : Rng) : Nat × Rng := xoshiroNext g

/-- `Random()`, as a bit pattern -/
def randomB (bitsFn : BitsFn) (g : Rng) : Except UB (Nat × Rng) :=
  let ug := randomU64 g
  match bitsFn ug.1 with
  | .ok b => .ok (b, ug.2)
  | .error e => .error e

/-- `Random()`, as a value -/
def random (bitsFn : BitsFn) (g : Rng) : Except UB (FVal × Rng) :=
  match randomB bitsFn g with
  | .ok (b, g') => .ok (decodeDouble b, g')
  | .error e => .error e

def intMin : Int := -2147483648
def intMax : Int := 2147483647

/-- result of an `int` operation: undefined on overflow -/
def ckInt (i : Int) : Except UB Int := if intMin ≤ i ∧ i ≤ intMax then .ok i else .error .intOverflow

/-- `(int)floor(r * (max - min + 1)) + min` for a given value `r` of `Random()` -/
def rangeOf (r : FVal) (min max : Int) : Except UB Int := do
  let d ← ckInt (max - min)
  let n ← ckInt (d + 1)
  let i ← toInt32 (FVal.mul r (FVal.ofInt n)).floor
  ckInt (i + min)

/-- `RandomRange(min, max)` -/
def randomRange (bitsFn : BitsFn) (min max : Int) (g : Rng) : Except UB (Int × Rng) := do
  let (r, g') ← random bitsFn g
  let v ← rangeOf r min max
  pure (v, g')

/-- two's complement `a | b` on `int` -/
def intOr (a b : Int) : Int :=
  let w : Nat := (a % 2 ^ 32).toNat ||| (b % 2 ^ 32).toNat
  if w < 2 ^ 31 then (w : Int) else (w : Int) - 2 ^ 32

/-- `a % b` on `int`: truncated division, the result has the sign of `a` -/
def intMod (a b : Int) : Except UB Int :=
  if b = 0 then .error .divZero
  else if a = intMin ∧ b = -1 then .error .divZero
  else .ok (Int.tmod a b)

/-- `((a | b) % (max - min + 1)) + min` -/
def nonUniformOf (a b min max : Int) : Except UB Int := do
  let d ← ckInt (max - min)
  let n ← ckInt (d + 1)
  let r ← intMod (intOr a b) n
  ckInt (r + min)

/-- `((a | b) % (max - min + 1)) + min` after
`repo_patches/random_range_nonuniform_negative.diff` (`if(r < 0) r += n;`) -/
def nonUniformOfFixed (a b min max : Int) : Except UB Int := do
  let d ← ckInt (max - min)
  let n ← ckInt (d + 1)
  let r ← intMod (intOr a b) n
  let r' ← if r < 0 then ckInt (r + n) else pure r
  ckInt (r' + min)

/-- `RandomRangeNonUniform(x, min, max)`. `comb` is `nonUniformOf` (pinned tree) or
`nonUniformOfFixed` (patched tree). The two calls in
`RandomRange(0, x) | RandomRange(min, max)` are indeterminately sequenced in C;
`leftFirst = true` is the order gcc produces on x86-64 (observed by the correspondence run);
the range theorem is proved for both orders. -/
def randomRangeNonUniform (bitsFn : BitsFn) (comb : Int → Int → Int → Int → Except UB Int)
    (leftFirst : Bool) (x min max : Int) (g : Rng) : Except UB (Int × Rng) :=
  if leftFirst then do
    let (a, g1) ← randomRange bitsFn 0 x g
    let (b, g2) ← randomRange bitsFn min max g1
    let v ← comb a b min max
    pure (v, g2)
  else do
    let (b, g1) ← randomRange bitsFn min max g
    let (a, g2) ← randomRange bitsFn 0 x g1
    let v ← comb a b min max
    pure (v, g2)

/-- The C library functions used by random.c, as parameters. -/
structure Libm where
  log : FVal → FVal
  pow : FVal → FVal → FVal
  sqrt : FVal → FVal
  exp : FVal → FVal

/-- The facts about the C library that the theorems ASSUME (they are not verified; a libm with a
monotone, sign-correct `log` and `pow` that is exact at `log(1)` satisfies them):

* `log_unit`: for a double `2^-k ≤ x ≤ 1`, `log x` is finite and `-k ≤ log x ≤ 0`
  (`ln 2^-k = -k ln 2 ≥ -k`);
* `pow_unit_neg`: for `0 < x < 1` and finite `y < 0`, `pow(x, y)` is `+inf` (overflow) or finite `≥ 1`;
* `pow_zero_neg`: `pow(+0, y) = +inf` for finite `y < 0` (C11 F.10.4.4). -/
structure LibmLaws (L : Libm) : Prop where
  log_unit : ∀ (m s k : Nat), m ≤ 2 ^ s → 2 ^ s ≤ m * 2 ^ k →
    ∃ (a : Int) (t : Nat), L.log (.fin (m : Int) s) = .fin a t ∧ a ≤ 0 ∧ -((k : Int) * 2 ^ t) ≤ a
  pow_unit_neg : ∀ (m s : Nat) (e : Int) (t : Nat), 0 < m → m < 2 ^ s → e < 0 →
    L.pow (.fin (m : Int) s) (.fin e t) = .inf false ∨
    ∃ (a u : Nat), L.pow (.fin (m : Int) s) (.fin e t) = .fin (a : Int) u ∧ 2 ^ u ≤ a
  pow_zero_neg : ∀ (s : Nat) (e : Int) (t : Nat), e < 0 → L.pow (.fin 0 s) (.fin e t) = .inf false

/-- `1 - Random()` for a given value of `Random()` -/
def oneMinus (r : FVal) : FVal := FVal.sub FVal.one r

/-- `Poisson()`: `-log(1 - Random())` -/
def poisson (bitsFn : BitsFn) (L : Libm) (g : Rng) : Except UB (FVal × Rng) := do
  let (r, g') ← random bitsFn g
  pure (FVal.neg (L.log (oneMinus r)), g')

/-- `Expent(mean)` macro of ROOT-Sim.h: `(mean) * Poisson()` -/
def expent (bitsFn : BitsFn) (L : Libm) (mean : FVal) (g : Rng) : Except UB (FVal × Rng) := do
  let (p, g') ← poisson bitsFn L g
  pure (FVal.mul mean p, g')

/-- the `while(ia--) x *= 1 - Random();` loop of `Gamma` -/
def gammaLoop (bitsFn : BitsFn) : Nat → FVal → Rng → Except UB (FVal × Rng)
  | 0, x, g => .ok (x, g)
  | ia + 1, x, g => do
    let (r, g') ← random bitsFn g
    gammaLoop bitsFn ia (FVal.mul x (oneMinus r)) g'

/-- `Gamma(ia)` for `ia < 6` (direct method); `none` for `ia ≥ 6`: the rejection method is
modelled in `Model/RandGamma.lean` (`gammaBig`, and `gamma` for the whole function). -/
def gammaSmall (bitsFn : BitsFn) (L : Libm) (ia : Nat) (g : Rng) : Option (Except UB (FVal × Rng)) :=
  if ia < 6 then
    some (do
      let (x, g') ← gammaLoop bitsFn ia FVal.one g
      pure (FVal.neg (L.log x), g'))
  else none

/-- One iteration of the `do … while` loop of `Zipf(skew, limit)`.
`ex` is the value of the C expression `-1. / skew - 1.`.  `accept r2 x` is the negation of the
second loop condition `Random() * x * (t - 1.) * b > t * (b - 1.)` as a function of the second
draw and of `x` — an ARBITRARY oracle: the range theorem holds for every such function.
`||` short-circuits: the second `Random()` is not called when `x > limit`.
Result `none` = the loop continues. -/
def zipfIter (bitsFn : BitsFn) (L : Libm) (ex : FVal) (accept : FVal → FVal → Bool) (limit : Nat)
    (g : Rng) : Except UB (Option Nat × Rng) := do
  let (r1, g1) ← random bitsFn g
  let x := (L.pow r1 ex).floor
  if FVal.gt x (FVal.ofInt limit) then pure (none, g1)
  else
    let (r2, g2) ← random bitsFn g1
    if accept r2 x then
      let k ← toUInt32 x                     -- return (unsigned)x
      pure (some k, g2)
    else pure (none, g2)

/-- `Zipf` with at most `fuel` loop iterations (`none`: still looping). -/
def zipf (bitsFn : BitsFn) (L : Libm) (ex : FVal) (accept : FVal → FVal → Bool) (limit : Nat) :
    Nat → Rng → Except UB (Option Nat × Rng)
  | 0, g => .ok (none, g)
  | fuel + 1, g => do
    let (o, g') ← zipfIter bitsFn L ex accept limit g
    match o with
    | some k => pure (some k, g')
    | none => zipf bitsFn L ex accept limit fuel g'

/-! ## Several LPs: each call touches only the caller's generator -/

/-- the generators of all LPs (`lps[i].rng_ctx`) -/
abbrev World := Nat → Rng

/-- Run an API function as LP `i` (`current_lp = &lps[i]`): only entry `i` is replaced. -/
def callAs {α : Type} (f : Rng → Except UB (α × Rng)) (i : Nat) (w : World) :
    Except UB (α × World) :=
  match f (w i) with
  | .ok (a, g') => .ok (a, fun j => if j = i then g' else w j)
  | .error e => .error e

end RootSim.Rand
