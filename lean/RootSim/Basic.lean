def hello := "world"
