import RootSim.Props.C01Glue
/-!
# C01 / C07 at protocol level: the state at the point the predicate first became true

The literal sentence of C01 — "each LP's state at the point the predicate first became true is bit-identical to the
state produced by executing the same model one event at a time" — and the protocol-level half of C07 — "the predicate
held on a committed state" — as corollaries of the glue theorems: below a lower bound `g` of everything pending, the
optimistic history of an LP and the dispatch sequence of ANY sequential run that has passed `g` are the same list, so
every function of a prefix of that list (the LP state after `n` events, whether the predicate holds there, the first
`n` at which it holds) has the same value on both sides.
-/
namespace RootSim.C01Term
open RootSim RootSim.Spec RootSim.TW RootSim.C01Glue

variable {σ : Type} {M : SimModel σ} {s : TWState} {g : Nat}

/-- the number of events after which the termination predicate of LP `ℓ` first holds along the sequence `l`
(`none`: it never holds on a prefix of `l`) -/
def firstTrue (M : SimModel σ) (ℓ : Nat) (l : List Event) : Option Nat :=
  (List.range (l.length + 1)).find? (fun n => M.canEnd ℓ (lpState M ℓ (l.take n)))

/-- the state of LP `ℓ` after every prefix of its committed history equals the state of every sequential run after the
same number of events -/
theorem tw_prefix_states_exact (V : V2s M) (hr : TW.Reachable M s)
    (hp : ∀ x ∈ s.pending, g ≤ x.t) (ha : ∀ x ∈ s.antis, g ≤ x.t)
    {q : SeqState σ} (hq : Spec.Reachable M q) (hl : ∀ x ∈ q.pending, g ≤ x.t)
    {ℓ : Nat} (hℓ : ℓ < M.nLps) (n : Nat) :
    lpState M ℓ (((s.past ℓ).filter (below g)).take n) = lpState M ℓ (((q.disp ℓ).filter (below g)).take n) := by
  rw [(tw_equals_sequential V hr hp ha hq hl hℓ).1]

/-- **C01, literally.** Below `g` the point at which the predicate of LP `ℓ` first becomes true is the same in the
optimistic history and in every sequential run that has passed `g`, and the LP state at that point is the same. -/
theorem tw_first_true_point_exact (V : V2s M) (hr : TW.Reachable M s)
    (hp : ∀ x ∈ s.pending, g ≤ x.t) (ha : ∀ x ∈ s.antis, g ≤ x.t)
    {q : SeqState σ} (hq : Spec.Reachable M q) (hl : ∀ x ∈ q.pending, g ≤ x.t)
    {ℓ : Nat} (hℓ : ℓ < M.nLps) :
    firstTrue M ℓ ((s.past ℓ).filter (below g)) = firstTrue M ℓ ((q.disp ℓ).filter (below g)) ∧
    ∀ n, firstTrue M ℓ ((s.past ℓ).filter (below g)) = some n →
      lpState M ℓ (((s.past ℓ).filter (below g)).take n) = lpState M ℓ (((q.disp ℓ).filter (below g)).take n) ∧
      M.canEnd ℓ (lpState M ℓ (((q.disp ℓ).filter (below g)).take n)) = true := by
  have e := (tw_equals_sequential V hr hp ha hq hl hℓ).1
  refine ⟨by rw [e], fun n hn => ⟨by rw [e], ?_⟩⟩
  rw [e]
  have := List.find?_some hn
  simpa using this

/-- **C07 at protocol level.** If the predicate of LP `ℓ` holds on the state after some prefix of its committed history
(what a termination vote at `g` certifies, `C07.no_premature`), it holds on the state every sequential run has after the
same number of events: a vote never rests on a state the sequential execution does not reach. -/
theorem tw_committed_predicate_is_sequential (V : V2s M) (hr : TW.Reachable M s)
    (hp : ∀ x ∈ s.pending, g ≤ x.t) (ha : ∀ x ∈ s.antis, g ≤ x.t)
    {q : SeqState σ} (hq : Spec.Reachable M q) (hl : ∀ x ∈ q.pending, g ≤ x.t)
    {ℓ : Nat} (hℓ : ℓ < M.nLps) (n : Nat)
    (hc : M.canEnd ℓ (lpState M ℓ (((s.past ℓ).filter (below g)).take n)) = true) :
    M.canEnd ℓ (lpState M ℓ (((q.disp ℓ).filter (below g)).take n)) = true := by
  rw [← tw_prefix_states_exact V hr hp ha hq hl hℓ n]; exact hc

/-- at quiescence the statement holds for the whole histories and the final state of the sequential executor -/
theorem tw_quiescent_first_true_exact (V : V2s M) (hr : TW.Reachable M s) (hp : s.pending = []) (ha : s.antis = [])
    {q : SeqState σ} (hq : Spec.Reachable M q) (hqp : q.pending = []) {ℓ : Nat} (hℓ : ℓ < M.nLps) :
    firstTrue M ℓ (s.past ℓ) = firstTrue M ℓ (q.disp ℓ) := by
  rw [(tw_quiescent_final V hr hp ha hq hqp hℓ).1]

/-! ## non-vacuity: ping-pong with the predicate "at least 3 events processed" -/

/-- ping-pong whose LPs are done after three events -/
def ppDone : SimModel Nat := { pingPong with canEnd := fun _ st => decide (3 ≤ st) }

example : firstTrue ppDone 0 ((seqRunN ppDone 12).disp 0) = some 3 := by decide

end RootSim.C01Term
