import RootSim.Proofs.LPSorted
/-!
# C01 part (A), continued: the per-LP history stays sorted by the event order

This is hypothesis H1 of the prefix-uniqueness theorem. For every history, every straggler, every
handler: after `process_msg` (straggler test with the lazily maintained `bound`, rollback to the index
computed by `match_straggler_msg`, forward execution) the processed messages are sorted again.
The comparisons are the ones the code performs, on the flag words current at that moment (`look`).
-/
namespace RootSim.C01
open RootSim RootSim.LP

theorem history_stays_sorted {σ : Type} (h : σ → Event → σ × List Event) (ev : Nat → Event)
    (look : Nat → Msg) (lp : LPState σ) (m : Nat) (outs : List Nat) (hI : SInv look lp)
    (hwf : (look m).WF) (ht : (look m).destT = (ev m).t)
    {lp' : LPState σ} {evs : List Event}
    (hp : processPlain h ev look lp m (look m) outs = some (lp', evs)) : SInv look lp' :=
  processPlain_sorted h ev look lp m outs hI hwf ht hp

/-- non-vacuity: a concrete history with a straggler -/
def exLook : Nat → Msg := fun m => { destT := 10 * m, rawFlags := 0, mType := 1, plSize := 0, pl := [] }
def exLp : LPState Nat := { hist := [.past 0, .sent 9, .past 2, .past 4], logs := [(1, 0)], st := 0, bound := some 40 }
example : SInv exLook exLp :=
  ⟨by unfold Sorted; decide, by intro m hm; refine ⟨40, rfl, ?_⟩; simp [exLp, pastMsgs] at hm; rcases hm with h | h | h <;> subst h <;> decide,
   by intro e he; simp [exLp] at he; subst he; rfl,
   by intro m _; unfold Msg.WF exLook; simp⟩
example : isStraggler exLook exLp (exLook 3) = true := by decide

end RootSim.C01
