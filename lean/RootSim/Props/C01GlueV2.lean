import RootSim.Proofs.TimeWarpGProj
import RootSim.Proofs.TimeWarpV2
import RootSim.Props.C01Glue
/-!
# Time Warp equals the sequential execution under the runtime's REAL model contract V2 (non-strict causality)

`Props/C01Glue.lean` proves the end-to-end theorems of the abstract global Time Warp machine under
`Spec.V2s` (every scheduled event is STRICTLY after its cause). The runtime only demands `Spec.V2`
(`SimModel.validStep`: no scheduled event is BEFORE its cause): an event may schedule a simultaneous event of
identical content for another LP (zero-delay unchanged forward). This file settles that case.

**Result 1 (refutation).** For the CONTENT-LEVEL machine of `Model/TimeWarp.lean` the statements are FALSE
under V2 (`tw_V2_counterexample`, `*_contentLevel_refuted`): that machine lets an anti-message meet ANY
message of equal content; under V2 a DESCENDANT of a message can have the content of the message; cancelling
the descendant instead of the message leaves a cycle of processed events that justify each other. The
invariant (I1, I2) and `Spec.Hist` still hold there (`contentLevel_invariant_V2`, `contentLevel_hist_V2`):
the failure is exactly the insufficiency of `Hist` shown by `PrefixUnique.v2_only_counterexample`, now
REACHED by a machine. It is an artefact of the abstraction, not of the code: `src/lp/process.c` matches an
anti-message with its message by pointer or by `(m_id, m_seq)`.

**Result 2 (theorems).** For the machine instrumented with a ghost creation order (`Model/TimeWarpG.lean`:
messages carry the step of the invocation that created them, an anti-message meets only a message with the
same content AND creation step — still coarser than the code's identities) ALL the theorems of
`Props/C01Glue.lean` hold under V2 alone, with the same conclusions, for every model, every number of LPs,
every reachable state, every lower bound `g`: `reachable_hist_V2`, `tw_prefix_of_sequential_V2`,
`tw_equals_sequential_V2`, `tw_committed_prefix_of_sequential_V2`, `tw_sequential_run_exists_V2`,
`tw_quiescent_*_V2`, `tw_schedule_independent_V2`, `tw_committed_monotone_V2`. NO progress / finiteness
hypothesis on the model is needed: the theorems speak about states with a lower bound `g` of everything
pending, whose histories are finite; a model with an infinite zero-delay cascade (`Spec.echo`) simply never
reaches a lower bound beyond the cascade — neither optimistically nor sequentially.
The instrumented machine is a restriction of the content-level one (`twg_refines_contentLevel`), and under
V2s the two satisfy the same theorems.

The ingredient that `Hist` lacks is `Spec.Progress` (`Proofs/SpecV2.lean`), obtained from the ghost order
(`reachable_progress_V2`): every processed entry was created before it was processed, and the entries of an
LP stand in processing order — so "was sent by" is well founded on the not-undone entries.
-/
namespace RootSim.C01GlueV2
open RootSim RootSim.Spec RootSim.TWG

variable {σ : Type} {M : SimModel σ} {s s' : TWGState} {g g' : Nat}

/-! ### The instrumented machine under V2 -/

/-- **The invariant under V2.** (I1) well-formed sorted histories; (I2) `pending + processed = sent + anti`
for every TAGGED message (content + creation step); (G) the ghost order: processed entries were created
before they were processed, the entries of an LP stand in processing order, everything pending was created
in the past, everything processed was processed in the past. -/
theorem reachable_invariant_V2 (V : V2 M) (hr : TWG.Reachable M s) :
    (∀ ℓ, ℓ < M.nLps → (histOf s ℓ).head? = some (initEv ℓ) ∧
      (∀ e ∈ (histOf s ℓ).tail, e.dest = ℓ ∧ e.type < LP_INIT) ∧
      (histOf s ℓ).tail.Pairwise (fun a b => Event.before b a = false)) ∧
    (∀ ℓ, M.nLps ≤ ℓ → s.past ℓ = []) ∧
    (∀ x ∈ s.pending ++ s.antis, x.ev.dest < M.nLps ∧ x.ev.type < LP_INIT) ∧
    (∀ x : TMsg,
      s.pending.count x +
          ((List.range M.nLps).flatMap (fun ℓ => (s.past ℓ).tail.map TEntry.msg)).count x =
        (toutsAll M s.past).count x + s.antis.count x) ∧
    (∀ ℓ, ∀ u ∈ (s.past ℓ).tail, u.cr < u.pr) ∧
    (∀ ℓ, (s.past ℓ).Pairwise (fun a b => a.pr < b.pr)) ∧
    (∀ x ∈ s.pending, x.cr < s.now) ∧ (∀ ℓ, ∀ u ∈ s.past ℓ, u.pr < s.now) := by
  have I := reachable_ginv V hr
  have J := I.toInv
  refine ⟨fun ℓ hℓ => ⟨J.head ℓ hℓ, J.dest ℓ hℓ, J.sorted ℓ hℓ⟩, I.out, ?_, I.cnt, I.crLt, I.prInc,
    I.pendCr, I.prLt⟩
  intro x hx
  rcases List.mem_append.mp hx with h | h
  · exact I.pendOk x h
  · exact I.antiOk x h

/-- **Glue (E) under V2, first half**: H1–H3 at every lower bound `g` of what is pending. -/
theorem reachable_hist_V2 (V : V2 M) (hr : TWG.Reachable M s)
    (hp : ∀ x ∈ s.pending, g ≤ x.ev.t) (ha : ∀ x ∈ s.antis, g ≤ x.ev.t) :
    Spec.Hist M (histOf s) g :=
  (reachable_ginv V hr).hist hp ha

/-- **Glue (E) under V2, second half** — what `Hist` cannot give: a sequential run that has followed the
histories so far can always continue along them (some minimal not-yet-dispatched event is pending). -/
theorem reachable_progress_V2 (V : V2 M) (hr : TWG.Reachable M s)
    (hp : ∀ x ∈ s.pending, g ≤ x.ev.t) (ha : ∀ x ∈ s.antis, g ≤ x.ev.t) :
    Spec.Progress M (histOf s) g :=
  (reachable_ginv V hr).progress V hp ha

/-- below `g`, what ANY sequential run has dispatched to an LP is a prefix of what the optimistic LP
has processed and not undone -/
theorem tw_prefix_of_sequential_V2 (V : V2 M) (hr : TWG.Reachable M s)
    (hp : ∀ x ∈ s.pending, g ≤ x.ev.t) (ha : ∀ x ∈ s.antis, g ≤ x.ev.t)
    {q : SeqState σ} (hq : Spec.Reachable M q) {ℓ : Nat} (hℓ : ℓ < M.nLps) :
    (q.disp ℓ).filter (below g) <+: (histOf s ℓ).filter (below g) :=
  (prefix_unique2 (reachable_hist_V2 V hr hp ha) V (reachable_progress_V2 V hr hp ha) hq hℓ).1

/-- **`tw_equals_sequential` under V2.** Once the sequential run has nothing below `g` pending, the two
sequences below `g` are EQUAL, and so are the LP states they produce. -/
theorem tw_equals_sequential_V2 (V : V2 M) (hr : TWG.Reachable M s)
    (hp : ∀ x ∈ s.pending, g ≤ x.ev.t) (ha : ∀ x ∈ s.antis, g ≤ x.ev.t)
    {q : SeqState σ} (hq : Spec.Reachable M q) (hl : ∀ x ∈ q.pending, g ≤ x.t)
    {ℓ : Nat} (hℓ : ℓ < M.nLps) :
    (q.disp ℓ).filter (below g) = (histOf s ℓ).filter (below g) ∧
    lpState M ℓ ((q.disp ℓ).filter (below g)) = lpState M ℓ ((histOf s ℓ).filter (below g)) :=
  (prefix_unique2 (reachable_hist_V2 V hr hp ha) V (reachable_progress_V2 V hr hp ha) hq hℓ).2 hl

/-- the committed part of an optimistic history is a prefix of the history itself and of the dispatch
sequence of every sequential run that has passed `g` -/
theorem tw_committed_prefix_of_sequential_V2 (V : V2 M) (hr : TWG.Reachable M s)
    (hp : ∀ x ∈ s.pending, g ≤ x.ev.t) (ha : ∀ x ∈ s.antis, g ≤ x.ev.t)
    {q : SeqState σ} (hq : Spec.Reachable M q) (hl : ∀ x ∈ q.pending, g ≤ x.t)
    {ℓ : Nat} (hℓ : ℓ < M.nLps) :
    (histOf s ℓ).filter (below g) <+: histOf s ℓ ∧ (histOf s ℓ).filter (below g) <+: q.disp ℓ :=
  ⟨PrefixUnique.hist_below_prefix (reachable_hist_V2 V hr hp ha) hℓ g,
   committed_prefix_seq2 (reachable_hist_V2 V hr hp ha) V (reachable_progress_V2 V hr hp ha) hq hl hℓ⟩

/-- the equality case is never vacuous: some sequential run does execute everything below `g` -/
theorem tw_sequential_run_exists_V2 (V : V2 M) (hr : TWG.Reachable M s)
    (hp : ∀ x ∈ s.pending, g ≤ x.ev.t) (ha : ∀ x ∈ s.antis, g ≤ x.ev.t) :
    ∃ q, Spec.Reachable M q ∧ ∀ x ∈ q.pending, g ≤ x.t := by
  obtain ⟨q, hq, _, hl⟩ :=
    exists_run_to2 (reachable_hist_V2 V hr hp ha) V (reachable_progress_V2 V hr hp ha)
  exact ⟨q, hq, hl⟩

/-- **C01 "whatever the interleaving" under V2**: in a reachable state with nothing pending and no
anti-message the statement holds for EVERY `g` … -/
theorem tw_quiescent_equals_sequential_V2 (V : V2 M) (hr : TWG.Reachable M s)
    (hp : s.pending = []) (ha : s.antis = []) (g : Nat)
    {q : SeqState σ} (hq : Spec.Reachable M q) {ℓ : Nat} (hℓ : ℓ < M.nLps) :
    (q.disp ℓ).filter (below g) <+: (histOf s ℓ).filter (below g) ∧
    ((∀ x ∈ q.pending, g ≤ x.t) →
      (q.disp ℓ).filter (below g) = (histOf s ℓ).filter (below g) ∧
      lpState M ℓ ((q.disp ℓ).filter (below g)) = lpState M ℓ ((histOf s ℓ).filter (below g))) :=
  prefix_unique2 (reachable_hist_V2 V hr (by rw [hp]; simp) (by rw [ha]; simp)) V
    (reachable_progress_V2 V hr (by rw [hp]; simp) (by rw [ha]; simp)) hq hℓ

/-- **`tw_quiescent_final` under V2.** Every FINISHED sequential run (nothing pending at all) has
dispatched exactly the optimistic histories and ended in exactly the LP states that are the folds of the
handler over them. -/
theorem tw_quiescent_final_V2 (V : V2 M) (hr : TWG.Reachable M s)
    (hp : s.pending = []) (ha : s.antis = [])
    {q : SeqState σ} (hq : Spec.Reachable M q) (hqp : q.pending = []) {ℓ : Nat} (hℓ : ℓ < M.nLps) :
    q.disp ℓ = histOf s ℓ ∧ q.st ℓ = lpState M ℓ (histOf s ℓ) := by
  obtain ⟨g, hg⟩ := TW.exists_time_bound (q.disp ℓ ++ histOf s ℓ)
  have h := ((tw_quiescent_equals_sequential_V2 V hr hp ha g hq hℓ).2 (by rw [hqp]; simp)).1
  rw [TW.filter_below_self (fun x hx => hg x (List.mem_append_left _ hx)),
    TW.filter_below_self (fun x hx => hg x (List.mem_append_right _ hx))] at h
  exact ⟨h, by rw [PrefixUnique.seq_state_exact hq ℓ, h]⟩

/-- a quiescent optimistic state IS a final state of some run of the sequential executor
(so `tw_quiescent_final_V2` is not vacuous) -/
theorem tw_quiescent_is_sequential_V2 (V : V2 M) (hr : TWG.Reachable M s)
    (hp : s.pending = []) (ha : s.antis = []) :
    ∃ q, Spec.Reachable M q ∧ q.pending = [] ∧
      ∀ ℓ, ℓ < M.nLps → q.disp ℓ = histOf s ℓ ∧ q.st ℓ = lpState M ℓ (histOf s ℓ) := by
  obtain ⟨q, hq, hqp, hd⟩ := (reachable_ginv V hr).quiescent_sequential V hp ha
  exact ⟨q, hq, hqp, fun ℓ hℓ => ⟨hd ℓ hℓ, by rw [PrefixUnique.seq_state_exact hq ℓ, hd ℓ hℓ]⟩⟩

/-- **`tw_schedule_independent` under V2 (C09 at protocol level).** Two reachable states (different
schedules, rollback patterns, annihilation orders …) with the same lower bound `g` have, LP by LP, the same
history below `g` and the same committed LP state. -/
theorem tw_schedule_independent_V2 (V : V2 M) (hr : TWG.Reachable M s) (hr' : TWG.Reachable M s')
    (hp : ∀ x ∈ s.pending, g ≤ x.ev.t) (ha : ∀ x ∈ s.antis, g ≤ x.ev.t)
    (hp' : ∀ x ∈ s'.pending, g ≤ x.ev.t) (ha' : ∀ x ∈ s'.antis, g ≤ x.ev.t)
    {ℓ : Nat} (hℓ : ℓ < M.nLps) :
    (histOf s ℓ).filter (below g) = (histOf s' ℓ).filter (below g) ∧
    lpState M ℓ ((histOf s ℓ).filter (below g)) = lpState M ℓ ((histOf s' ℓ).filter (below g)) :=
  history_unique2 (reachable_hist_V2 V hr hp ha) (reachable_progress_V2 V hr hp ha)
    (reachable_hist_V2 V hr' hp' ha') (reachable_progress_V2 V hr' hp' ha') V hℓ

/-- **C03 at protocol level under V2.** What is committed at a lower bound `g'` in one reachable state is a
prefix of what is committed at any larger lower bound `g` in any other reachable state. -/
theorem tw_committed_monotone_V2 (V : V2 M) (hr : TWG.Reachable M s) (hr' : TWG.Reachable M s')
    (hgg : g' ≤ g)
    (hp : ∀ x ∈ s.pending, g' ≤ x.ev.t) (ha : ∀ x ∈ s.antis, g' ≤ x.ev.t)
    (hp' : ∀ x ∈ s'.pending, g ≤ x.ev.t) (ha' : ∀ x ∈ s'.antis, g ≤ x.ev.t)
    {ℓ : Nat} (hℓ : ℓ < M.nLps) :
    (histOf s ℓ).filter (below g') <+: (histOf s' ℓ).filter (below g) :=
  committed_prefix2 hgg (reachable_hist_V2 V hr hp ha) (reachable_progress_V2 V hr hp ha)
    (reachable_hist_V2 V hr' hp' ha') (reachable_progress_V2 V hr' hp' ha') V hℓ

/-- the executable step functions perform exactly the steps of the relation the theorems are about -/
theorem step_function_exact_V2 {s₁ s₂ : TWGState} :
    TWG.Step M s₁ s₂ ↔ ∃ a, TWG.step? M s₁ a = some s₂ :=
  ⟨step?_complete, fun ⟨_, h⟩ => step?_sound h⟩

/-- the strict contract implies the non-strict one: the theorems above also cover every V2s model -/
theorem V2_of_V2s (V : V2s M) : V2 M := V.toV2

/-! ### The pure core under V2: `Hist` + `Progress` -/

/-- **Prefix uniqueness under V2** (`PrefixUnique.prefix_unique` with the strict-causality hypothesis
replaced by V2 + `Spec.Progress`): for every history with H1–H3 along which a sequential run can always
continue, every sequential run, every LP. -/
theorem prefix_unique_V2 {G : Nat → List Event} (H : Hist M G g) (V : V2 M) (W : Progress M G g)
    {q : SeqState σ} (hq : Spec.Reachable M q) {ℓ : Nat} (hℓ : ℓ < M.nLps) :
    (q.disp ℓ).filter (below g) <+: (G ℓ).filter (below g) ∧
    ((∀ x ∈ q.pending, g ≤ x.t) →
      (q.disp ℓ).filter (below g) = (G ℓ).filter (below g) ∧
      lpState M ℓ ((q.disp ℓ).filter (below g)) = lpState M ℓ ((G ℓ).filter (below g))) :=
  prefix_unique2 H V W hq hℓ

/-- under strict causality `Progress` is automatic (so `prefix_unique_V2` subsumes `prefix_unique`) -/
theorem progress_of_strict {G : Nat → List Event} (H : Hist M G g) (V : V2sBelow M G g)
    (T : TimeMono M) : Progress M G g :=
  progress_of_V2s H V T

/-- `Progress` is exactly what the self-justifying history of `PrefixUnique.v2_only_counterexample` lacks -/
theorem echoG_not_progress : ¬ Progress echo PrefixUnique.echoG 10 := by
  intro W
  obtain ⟨V, _, H, hr, hp, hne⟩ := PrefixUnique.v2_only_counterexample
  exact hne ((prefix_unique2 H V W hr (ℓ := 0) (by decide)).2 (by rw [hp]; simp)).1

/-! ### Relation with the content-level machine of `Model/TimeWarp.lean` -/

/-- **Refinement.** Erasing the ghost fields maps every reachable state of the instrumented machine onto a
reachable state of the content-level machine: same histories, same bags of pending messages and
anti-messages (as multisets). Every behaviour of the instrumented machine is a content-level behaviour. -/
theorem twg_refines_contentLevel (hr : TWG.Reachable M s) :
    ∃ t, TW.Reachable M t ∧ t.past = histOf s ∧
      t.pending.Perm (s.pending.map TMsg.ev) ∧ t.antis.Perm (s.antis.map TMsg.ev) :=
  proj_reachable hr

/-- the invariant (I1, I2) of the CONTENT-LEVEL machine needs only V2
(`C01Glue.reachable_invariant` with `V2s` replaced by `V2`) … -/
theorem contentLevel_invariant_V2 {t : TWState} (V : V2 M) (hr : TW.Reachable M t) :
    (∀ ℓ, ℓ < M.nLps → (t.past ℓ).head? = some (initEv ℓ) ∧
      (∀ e ∈ (t.past ℓ).tail, e.dest = ℓ ∧ e.type < LP_INIT) ∧
      (t.past ℓ).tail.Pairwise (fun a b => Event.before b a = false)) ∧
    (∀ ℓ, M.nLps ≤ ℓ → t.past ℓ = []) ∧
    (∀ x ∈ t.pending ++ t.antis, x.dest < M.nLps ∧ x.type < LP_INIT) ∧
    (∀ x : Event,
      t.pending.count x + ((List.range M.nLps).flatMap (fun ℓ => (t.past ℓ).tail)).count x =
        (outsAll M t.past).count x + t.antis.count x) := by
  have I := TW.reachable_inv_V2 V hr
  refine ⟨fun ℓ hℓ => ⟨I.head ℓ hℓ, I.dest ℓ hℓ, I.sorted ℓ hℓ⟩, I.out, ?_, I.cnt⟩
  intro x hx
  rcases List.mem_append.mp hx with h | h
  · exact I.pendOk x h
  · exact I.antiOk x h

/-- … and so does `Spec.Hist` (`C01Glue.reachable_hist` with `V2s` replaced by `V2`). Under V2 this is
NOT enough (next section). -/
theorem contentLevel_hist_V2 {t : TWState} (V : V2 M) (hr : TW.Reachable M t)
    (hp : ∀ x ∈ t.pending, g ≤ x.t) (ha : ∀ x ∈ t.antis, g ≤ x.t) : Spec.Hist M t.past g :=
  (TW.reachable_inv_V2 V hr).hist hp ha

/-! ### The content-level machine is REFUTED under V2 -/

/-- `C01Glue.tw_equals_sequential` with `V2s` replaced by `V2` -/
def tw_equals_sequential_contentLevel_V2Statement : Prop :=
  ∀ (σ : Type) (M : SimModel σ) (t : TWState) (g : Nat), V2 M → TW.Reachable M t →
    (∀ x ∈ t.pending, g ≤ x.t) → (∀ x ∈ t.antis, g ≤ x.t) →
    ∀ q : SeqState σ, Spec.Reachable M q → (∀ x ∈ q.pending, g ≤ x.t) → ∀ ℓ, ℓ < M.nLps →
      (q.disp ℓ).filter (below g) = (t.past ℓ).filter (below g) ∧
      lpState M ℓ ((q.disp ℓ).filter (below g)) = lpState M ℓ ((t.past ℓ).filter (below g))

/-- `C01Glue.tw_quiescent_final` with `V2s` replaced by `V2` -/
def tw_quiescent_final_contentLevel_V2Statement : Prop :=
  ∀ (σ : Type) (M : SimModel σ) (t : TWState), V2 M → TW.Reachable M t →
    t.pending = [] → t.antis = [] →
    ∀ q : SeqState σ, Spec.Reachable M q → q.pending = [] → ∀ ℓ, ℓ < M.nLps →
      q.disp ℓ = t.past ℓ ∧ q.st ℓ = lpState M ℓ (t.past ℓ)

/-- `C01Glue.tw_schedule_independent` with `V2s` replaced by `V2` -/
def tw_schedule_independent_contentLevel_V2Statement : Prop :=
  ∀ (σ : Type) (M : SimModel σ) (t t' : TWState) (g : Nat), V2 M → TW.Reachable M t →
    TW.Reachable M t' →
    (∀ x ∈ t.pending, g ≤ x.t) → (∀ x ∈ t.antis, g ≤ x.t) →
    (∀ x ∈ t'.pending, g ≤ x.t) → (∀ x ∈ t'.antis, g ≤ x.t) → ∀ ℓ, ℓ < M.nLps →
      (t.past ℓ).filter (below g) = (t'.past ℓ).filter (below g) ∧
      lpState M ℓ ((t.past ℓ).filter (below g)) = lpState M ℓ ((t'.past ℓ).filter (below g))

/-- `trap` satisfies the runtime's contract in every state (and is not strictly causal: LP 0 and LP 1
forward a token unchanged, with zero delay) -/
theorem trap_V2 : V2 trap := by
  intro ℓ s c o ho
  simp only [trap] at ho
  split at ho
  · simp only [List.mem_cons, List.mem_nil_iff, or_false] at ho
    rcases ho with rfl | rfl
    · exact ⟨Event.not_before_of_t_lt (by simp), by simp [trap], by simp [LP_INIT]⟩
    · exact ⟨Event.not_before_of_t_lt (by simp), by simp [trap], by simp [LP_INIT]⟩
  · split at ho
    · simp only [List.mem_singleton] at ho
      subst ho
      exact ⟨Event.not_before_of_t_lt (by simp), by simp [trap], by simp [LP_INIT]⟩
    · split at ho
      · rename_i h1
        simp only [List.mem_singleton] at ho
        subst ho
        refine ⟨Event.not_before_same rfl h1.2.1.symm rfl, ?_, by simp [LP_INIT]⟩
        show 1 - ℓ < 3
        omega
      · simp at ho

theorem trap_not_V2s : ¬ V2s trap := by
  intro V
  have := (V 0 1 ⟨0, 5, 1, []⟩ ⟨1, 5, 1, []⟩ (by decide)).1
  revert this
  decide

/-- LP 2's two model events -/
def trapY : Event := ⟨2, 1, 3, []⟩
def trapX : Event := ⟨2, 2, 2, []⟩

/-- what every state of every sequential run of `trap` looks like: LP 0 and LP 1 never receive anything -/
def TrapSeq (q : SeqState Nat) : Prop :=
  q.disp 0 = [initEv 0] ∧ q.disp 1 = [initEv 1] ∧
  ((q.pending = [trapY, trapX] ∧ q.st 2 = 1) ∨ (q.pending = [trapX] ∧ q.st 2 = 2) ∨ q.pending = [])

theorem trap_sequential {q : SeqState Nat} (hr : Spec.Reachable trap q) : TrapSeq q := by
  induction hr with
  | init => exact ⟨by decide, by decide, Or.inl ⟨by decide, by decide⟩⟩
  | @step q _ _ hs ih =>
    obtain ⟨h0, h1, hc⟩ := ih
    cases hs with
    | mk e hmem hmin =>
      rcases hc with ⟨hp, hst⟩ | ⟨hp, hst⟩ | hp
      · rw [hp] at hmem hmin
        have he : e = trapY := by
          rcases List.mem_cons.mp hmem with rfl | h
          · rfl
          · rcases List.mem_cons.mp h with rfl | h
            · exact absurd (hmin trapY (by simp)) (by decide)
            · simp at h
        subst he
        refine ⟨?_, ?_, Or.inr (Or.inl ⟨?_, ?_⟩)⟩
        · show upd q.disp 2 (q.disp 2 ++ [trapY]) 0 = _
          rw [upd_other _ _ (by decide)]; exact h0
        · show upd q.disp 2 (q.disp 2 ++ [trapY]) 1 = _
          rw [upd_other _ _ (by decide)]; exact h1
        · show q.pending.erase trapY ++ (trap.handler 2 (q.st 2) trapY).2 = [trapX]
          rw [hp, hst]; decide
        · show upd q.st 2 (trap.handler 2 (q.st 2) trapY).1 2 = 2
          rw [upd_same, hst]; rfl
      · rw [hp] at hmem
        have he : e = trapX := by simpa using hmem
        subst he
        refine ⟨?_, ?_, Or.inr (Or.inr ?_)⟩
        · show upd q.disp 2 (q.disp 2 ++ [trapX]) 0 = _
          rw [upd_other _ _ (by decide)]; exact h0
        · show upd q.disp 2 (q.disp 2 ++ [trapX]) 1 = _
          rw [upd_other _ _ (by decide)]; exact h1
        · show q.pending.erase trapX ++ (trap.handler 2 (q.st 2) trapX).2 = []
          rw [hp, hst]; decide
      · rw [hp] at hmem; simp at hmem

/-- the trace of the content-level machine: LP 2 speculatively processes `x` (time 2) before `y` (time 1)
and sends the token `c = ⟨1,5,1,[]⟩` to LP 1; LP 1 forwards it to LP 0 (`⟨0,5,1,[]⟩`), LP 0 forwards it back:
`c' = ⟨1,5,1,[]⟩`, a DESCENDANT of `c` with the content of `c`, is pending. The straggler `y` undoes `x` and
produces the anti-message of `c` — which ANNIHILATES `c'`. LP 2 re-executes `x` (nothing sent). -/
def trapActs : List TW.Action :=
  [ .exec 2 trapX, .exec 1 ⟨1, 5, 1, []⟩, .exec 0 ⟨0, 5, 1, []⟩,
    .exec 2 trapY,                       -- the straggler
    .annihilate ⟨1, 5, 1, []⟩,           -- the anti-message of `c` meets the descendant `c'`
    .exec 2 trapX ]

/-- the straggler step: `c'` is pending, the anti-message of `c` exists, `c` itself is PROCESSED at LP 1 -/
example : (TW.run? trap (TW.init trap) (trapActs.take 4)).map (C01Glue.obs 3) =
    some ([[initEv 0, ⟨0, 5, 1, []⟩], [initEv 1, ⟨1, 5, 1, []⟩], [initEv 2, trapY]],
          [⟨1, 5, 1, []⟩, trapX], [⟨1, 5, 1, []⟩]) := by decide

/-- the end state: quiescent, LP 0 and LP 1 have processed events that only the other one sends -/
example : (TW.run? trap (TW.init trap) trapActs).map (C01Glue.obs 3) =
    some ([[initEv 0, ⟨0, 5, 1, []⟩], [initEv 1, ⟨1, 5, 1, []⟩], [initEv 2, trapY, trapX]], [], []) := by
  decide

/-- **Counter-example.** `trap` satisfies V2; the content-level machine reaches a state with nothing pending
and no anti-message that satisfies H1–H3 at every `g`, in which LP 0 and LP 1 have each processed a model
event; in EVERY state of EVERY sequential run LP 0 and LP 1 have processed nothing but `LP_INIT`. -/
theorem tw_V2_counterexample :
    V2 trap ∧ ∃ t, TW.Reachable trap t ∧ t.pending = [] ∧ t.antis = [] ∧
      t.past 0 = [initEv 0, ⟨0, 5, 1, []⟩] ∧ t.past 1 = [initEv 1, ⟨1, 5, 1, []⟩] ∧
      (∀ g, Hist trap t.past g) ∧
      ∀ q, Spec.Reachable trap q → q.disp 0 = [initEv 0] ∧ q.disp 1 = [initEv 1] := by
  refine ⟨trap_V2, ?_⟩
  have h : ∃ t, TW.run? trap (TW.init trap) trapActs = some t := by
    rw [← Option.isSome_iff_exists]; decide
  obtain ⟨t, ht⟩ := h
  have ho : C01Glue.obs 3 t =
      ([[initEv 0, ⟨0, 5, 1, []⟩], [initEv 1, ⟨1, 5, 1, []⟩], [initEv 2, trapY, trapX]], [], []) := by
    have : (TW.run? trap (TW.init trap) trapActs).map (C01Glue.obs 3) =
        some ([[initEv 0, ⟨0, 5, 1, []⟩], [initEv 1, ⟨1, 5, 1, []⟩], [initEv 2, trapY, trapX]], [], []) :=
      by decide
    rw [ht] at this
    exact Option.some.inj this
  simp only [C01Glue.obs, Prod.mk.injEq] at ho
  obtain ⟨hpast, hpend, hanti⟩ := ho
  have hp0 : t.past 0 = [initEv 0, ⟨0, 5, 1, []⟩] := by
    have := congrArg (fun l => l[0]?) hpast
    simpa using this
  have hp1 : t.past 1 = [initEv 1, ⟨1, 5, 1, []⟩] := by
    have := congrArg (fun l => l[1]?) hpast
    simpa using this
  have hr : TW.Reachable trap t := C01Glue.run_reachable ht
  refine ⟨t, hr, hpend, hanti, hp0, hp1, ?_, ?_⟩
  · intro g
    exact contentLevel_hist_V2 trap_V2 hr (by rw [hpend]; simp) (by rw [hanti]; simp)
  · intro q hq
    exact ⟨(trap_sequential hq).1, (trap_sequential hq).2.1⟩

/-- the SAME scenario on the instrumented machine: after the straggler the anti-message carries the creation
step 1 of `c`, the pending descendant `c'` was created at step 3 — they cannot meet … -/
def trapActsG : List TWG.Action :=
  [ .exec 2 trapX 0, .exec 1 ⟨1, 5, 1, []⟩ 1, .exec 0 ⟨0, 5, 1, []⟩ 2,
    .exec 2 trapY 0,                     -- the straggler
    .antiRollback 1 1,                   -- the anti-message of `c` rolls back LP 1, where `c` was processed
    .antiRollback 0 1,                   -- the anti-message of LP 1's forward rolls back LP 0
    .annihilate ⟨1, 5, 1, []⟩ 3,         -- the anti-message of `c'` meets `c'`
    .exec 2 trapX 0 ]

example : (TWG.run? trap (TWG.init trap) (trapActsG.take 4)).map (fun s => (s.pending, s.antis)) =
    some ([⟨⟨1, 5, 1, []⟩, 3⟩, ⟨trapX, 0⟩], [⟨⟨1, 5, 1, []⟩, 1⟩]) := by decide

example : ((TWG.run? trap (TWG.init trap) (trapActsG.take 4)).bind
      (fun s => TWG.step? trap s (.annihilate ⟨1, 5, 1, []⟩ 3))).isNone = true ∧
    ((TWG.run? trap (TWG.init trap) (trapActsG.take 4)).bind
      (fun s => TWG.step? trap s (.annihilate ⟨1, 5, 1, []⟩ 1))).isNone = true := by decide

/-- … and the cancellation cascade ends in the state of the sequential run -/
example : (TWG.run? trap (TWG.init trap) trapActsG).map
      (fun s => ((List.range 3).map (histOf s), s.pending, s.antis)) =
    some ([[initEv 0], [initEv 1], [initEv 2, trapY, trapX]], [], []) := by decide

/-- the finished sequential run used below -/
theorem trap_seq_finished : Spec.Reachable trap (seqRunN trap 2) ∧ (seqRunN trap 2).pending = [] :=
  ⟨seqRunN_reachable trap 2, by decide⟩

theorem tw_quiescent_final_contentLevel_refuted : ¬ tw_quiescent_final_contentLevel_V2Statement := by
  intro S
  obtain ⟨V, t, hr, hp, ha, _, h1, _, hseq⟩ := tw_V2_counterexample
  have := (S Nat trap t V hr hp ha _ trap_seq_finished.1 trap_seq_finished.2 1 (by decide)).1
  rw [h1, (hseq _ trap_seq_finished.1).2] at this
  revert this; decide

theorem tw_equals_sequential_contentLevel_refuted : ¬ tw_equals_sequential_contentLevel_V2Statement := by
  intro S
  obtain ⟨V, t, hr, hp, ha, _, h1, _, hseq⟩ := tw_V2_counterexample
  have := (S Nat trap t 10 V hr (by rw [hp]; simp) (by rw [ha]; simp) _ trap_seq_finished.1
    (by rw [trap_seq_finished.2]; simp) 1 (by decide)).1
  rw [h1, (hseq _ trap_seq_finished.1).2] at this
  revert this; decide

/-- the honest schedule: `y`, then `x` -/
def trapGoodActs : List TW.Action := [ .exec 2 trapY, .exec 2 trapX ]

theorem tw_schedule_independent_contentLevel_refuted :
    ¬ tw_schedule_independent_contentLevel_V2Statement := by
  intro S
  obtain ⟨V, t, hr, hp, ha, _, h1, _, _⟩ := tw_V2_counterexample
  have h : ∃ t', TW.run? trap (TW.init trap) trapGoodActs = some t' := by
    rw [← Option.isSome_iff_exists]; decide
  obtain ⟨t', ht'⟩ := h
  have ho : C01Glue.obs 3 t' = ([[initEv 0], [initEv 1], [initEv 2, trapY, trapX]], [], []) := by
    have : (TW.run? trap (TW.init trap) trapGoodActs).map (C01Glue.obs 3) =
        some ([[initEv 0], [initEv 1], [initEv 2, trapY, trapX]], [], []) := by decide
    rw [ht'] at this
    exact Option.some.inj this
  simp only [C01Glue.obs, Prod.mk.injEq] at ho
  obtain ⟨hpast, hpend, hanti⟩ := ho
  have hp1 : t'.past 1 = [initEv 1] := by
    have := congrArg (fun l => l[1]?) hpast
    simpa using this
  have := (S Nat trap t t' 10 V hr (C01Glue.run_reachable ht') (by rw [hp]; simp) (by rw [ha]; simp)
    (by rw [hpend]; simp) (by rw [hanti]; simp) 1 (by decide)).1
  rw [h1, hp1] at this
  revert this; decide

/-! ### Non-vacuity: a V2-only model on the instrumented machine -/

/-- a replayed trace of actions from the initial state ends in a reachable state -/
theorem run_reachable {as : List TWG.Action} (h : TWG.run? M (TWG.init M) as = some s) :
    TWG.Reachable M s :=
  run?_reachable as TWG.Reachable.init h

/-- the token ring satisfies the runtime's contract in every state … -/
theorem ring_V2 : V2 ring := by
  intro ℓ s c o ho
  simp only [ring] at ho
  split at ho
  · split at ho
    · simp only [List.mem_cons, List.mem_nil_iff, or_false] at ho
      rcases ho with rfl | rfl
      · exact ⟨Event.not_before_of_t_lt (by simp), by simp [ring], by simp [LP_INIT]⟩
      · exact ⟨Event.not_before_of_t_lt (by simp), by simp [ring], by simp [LP_INIT]⟩
    · simp at ho
  · split at ho
    · rename_i h1
      simp only [List.mem_singleton] at ho
      subst ho
      refine ⟨Event.not_before_same rfl h1.1.symm rfl, ?_, by simp [LP_INIT]⟩
      show (ℓ + 1) % 3 < 3
      omega
    · simp at ho

/-- … but NOT the strict one: a token is forwarded unchanged with zero delay -/
theorem ring_not_V2s : ¬ V2s ring := by
  intro V
  have := (V 0 1 ⟨0, 2, 1, [7]⟩ ⟨1, 2, 1, [7]⟩ (by decide)).1
  revert this
  decide

/-- `echo` (the V2-only model with an infinite zero-delay cascade) is covered too: no hypothesis excludes it -/
theorem echo_V2 : V2 echo := PrefixUnique.v2_only_counterexample.1

def tok (d : Nat) : Event := ⟨d, 2, 1, [7]⟩
def tick : Event := ⟨0, 1, 2, []⟩

/-- LP 0 processes the token BEFORE the tick; the token goes round the ring twice (seven zero-delay
identical events). The tick arrives as a STRAGGLER: three identical simultaneous entries of LP 0 are undone
and re-queued, two anti-messages go out. LP 0 then processes the re-queued DESCENDANT (created at step 6)
before its own ancestor (created at step 0) — legal, they are incomparable. The anti-messages roll back
LP 1 and LP 2 (each time at the FIRST of two identical entries; the second is re-queued and then annihilated
by its own anti-message), the anti-messages of the two descendants reach LP 0: one finds its message queued,
the other finds it processed (ANTI-ROLLBACK of the entry processed at step 9). Finally the original token
goes round once. -/
def ringActs : List TWG.Action :=
  [ .exec 0 (tok 0) 0, .exec 1 (tok 1) 1, .exec 2 (tok 2) 2,
    .exec 0 (tok 0) 3, .exec 1 (tok 1) 4, .exec 2 (tok 2) 5,
    .exec 0 (tok 0) 6,
    .exec 0 tick 0,            -- the straggler
    .exec 0 (tok 0) 6,         -- the descendant first
    .antiRollback 1 1, .annihilate (tok 1) 4,
    .antiRollback 2 1, .annihilate (tok 2) 5,
    .annihilate (tok 0) 3, .antiRollback 0 2, .annihilate (tok 1) 9,
    .exec 0 (tok 0) 0, .exec 1 (tok 1) 10, .exec 2 (tok 2) 11, .exec 0 (tok 0) 12 ]

/-- what a replay computes, observed on the existing LPs -/
def obs (n : Nat) (s : TWGState) : List (List TEntry) × List TMsg × List TMsg :=
  ((List.range n).map s.past, s.pending, s.antis)

/-- after the straggler: LP 0 is back to `[LP_INIT, tick]`, three copies of the token are pending (created at
steps 0, 3, 6), the anti-messages carry the steps 1 and 4 of the undone invocations -/
example : (TWG.run? ring (TWG.init ring) (ringActs.take 8)).map
      (fun s => (histOf s 0, s.pending, s.antis)) =
    some ([initEv 0, tick], [⟨tok 0, 0⟩, ⟨tok 0, 3⟩, ⟨tok 0, 6⟩], [⟨tok 1, 1⟩, ⟨tok 1, 4⟩]) := by decide

/-- after the cascade of cancellations only the original token is left -/
example : (TWG.run? ring (TWG.init ring) (ringActs.take 16)).map
      (fun s => ((List.range 3).map (histOf s), s.pending, s.antis)) =
    some ([[initEv 0, tick], [initEv 1], [initEv 2]], [⟨tok 0, 0⟩], []) := by decide

/-- the whole trace is enabled and ends in a quiescent state whose histories are those of the executable
sequential run -/
example : (TWG.run? ring (TWG.init ring) ringActs).map
      (fun s => ((List.range 3).map (histOf s), s.pending, s.antis)) =
    some ((List.range 3).map (seqRunN ring 6).disp, [], []) ∧ (seqRunN ring 6).pending = [] := by decide

/-- the hypotheses of the `tw_quiescent_*_V2` theorems are satisfiable on a V2-only model -/
theorem ring_nonvacuous : ∃ s, TWG.Reachable ring s ∧ s.pending = [] ∧ s.antis = [] ∧
    histOf s 0 = [initEv 0, tick, tok 0, tok 0] := by
  have h : ∃ s, TWG.run? ring (TWG.init ring) ringActs = some s := by
    rw [← Option.isSome_iff_exists]; decide
  obtain ⟨s, hs⟩ := h
  have ho : (fun s => (histOf s 0, s.pending, s.antis)) s = ([initEv 0, tick, tok 0, tok 0], [], []) := by
    have : (TWG.run? ring (TWG.init ring) ringActs).map (fun s => (histOf s 0, s.pending, s.antis)) =
        some ([initEv 0, tick, tok 0, tok 0], [], []) := by decide
    rw [hs] at this
    exact Option.some.inj this
  simp only [Prod.mk.injEq] at ho
  exact ⟨s, run_reachable hs, ho.2.1, ho.2.2, ho.1⟩

/-- a non-quiescent state with the non-trivial lower bound `g = 2` (the state after the straggler): the
hypotheses of `tw_equals_sequential_V2` / `tw_schedule_independent_V2` are satisfiable -/
theorem ring_nonvacuous_bound : ∃ s, TWG.Reachable ring s ∧
    (∀ x ∈ s.pending, 2 ≤ x.ev.t) ∧ (∀ x ∈ s.antis, 2 ≤ x.ev.t) ∧ s.pending ≠ [] ∧ s.antis ≠ [] ∧
    (histOf s 0).filter (below 2) = [initEv 0, tick] := by
  have h : ∃ s, TWG.run? ring (TWG.init ring) (ringActs.take 8) = some s := by
    rw [← Option.isSome_iff_exists]; decide
  obtain ⟨s, hs⟩ := h
  have ho : (fun s => (histOf s 0, s.pending, s.antis)) s =
      ([initEv 0, tick], [⟨tok 0, 0⟩, ⟨tok 0, 3⟩, ⟨tok 0, 6⟩], [⟨tok 1, 1⟩, ⟨tok 1, 4⟩]) := by
    have : (TWG.run? ring (TWG.init ring) (ringActs.take 8)).map
        (fun s => (histOf s 0, s.pending, s.antis)) =
        some ([initEv 0, tick], [⟨tok 0, 0⟩, ⟨tok 0, 3⟩, ⟨tok 0, 6⟩], [⟨tok 1, 1⟩, ⟨tok 1, 4⟩]) := by
      decide
    rw [hs] at this
    exact Option.some.inj this
  simp only [Prod.mk.injEq] at ho
  obtain ⟨h0, hpend, hanti⟩ := ho
  refine ⟨s, run_reachable hs, ?_, ?_, ?_, ?_, ?_⟩
  · rw [hpend]; decide
  · rw [hanti]; decide
  · rw [hpend]; simp
  · rw [hanti]; simp
  · rw [h0]; decide

/-- the theorems compose on the concrete state: every finished sequential run of the ring has dispatched to
LP 0 exactly `LP_INIT`, the tick and two copies of the token -/
example {q : SeqState Nat} (hq : Spec.Reachable ring q) (hqp : q.pending = []) :
    q.disp 0 = [initEv 0, tick, tok 0, tok 0] := by
  obtain ⟨s, hr, hp, ha, h0⟩ := ring_nonvacuous
  rw [← h0]
  exact (tw_quiescent_final_V2 ring_V2 hr hp ha hq hqp (by decide)).1

/-- on the SAME model the content-level machine would also be allowed to let the anti-message created for
the copy of step 3 annihilate the original token of step 0 (equal content) — here harmless, in `trap` fatal;
the instrumented machine refuses: that anti-message is not equal to the original token -/
example : ((TWG.run? ring (TWG.init ring) (ringActs.take 13)).bind
      (fun s => TWG.step? ring s (.annihilate (tok 0) 0))).isNone = true := by decide

end RootSim.C01GlueV2
