import RootSim.Proofs.MsgAuto
import RootSim.Proofs.MsgAutoRemote
import RootSim.Proofs.MsgId
/-!
# C06 — cancellation is exactly-once (the per-message automata)

"Every event that was scheduled by an execution later undone is removed from the system exactly once,
wherever it is at that moment (still in a buffer, queued, already processed, or not yet arrived from
another rank), and an event scheduled by an execution that stays valid is delivered exactly once and
never removed. No message buffer is released while still reachable, and none is released twice."

The theorems are about EVERY finite sequence of actions of the automata of `Model/MsgAuto.lean` (local
message) and `Model/MsgAutoRemote.lean` (remote message) — the environment (when the sender cancels,
when the receiver rolls back, fossil collects, shuts down) is completely nondeterministic. They are
proved by exhaustive case analysis of the finite reachable state space (70 / 168 states, kernel
evaluation, no `native_decide`), lifted to action sequences of arbitrary length by induction.
Sequentially consistent interleaving of the atomic actions; `memory_order_relaxed` is not modelled.
The lifting from "one message" to the whole kernel is the integrator's trace-inclusion check
(`driver msgauto`).

## Interleaving classes of a cancel (`antiLocal`) with the receiver, all covered by the proofs
* message still queued / in the receiver's hand, flags 0: cancel sets flags 1, nothing is inserted; the
  receiver's `fetch_add(PROCESSED)` returns 1 → freed without being processed (`anti_discard`).
* message processed (flags 2, in the history): cancel returns 2 → the sender re-inserts the SAME buffer as
  "anti copy" (flags 3); its extraction returns 3 (flags become **5** for a moment) → `match_anti_msg`,
  rollback (the message's own `unprocess` returns 5 → flags 3, ANTI set → not re-queued) → freed.
* cancel between the receiver's `fetch_add(PROCESSED)` (returned 0) and the push into the history: the
  cancel returns 2, the anti copy is inserted, the message is dispatched forward ONCE after the cancel
  and then undone exactly once (previous case).
* receiver rollback first (`unprocess` returns 2 → flags 0, re-queued), then cancel (returns 0 → flags 1,
  nothing inserted): the re-queued copy is extracted with previous flags 1 → freed without processing.
* cancel (returns 2, insertion pending or done) and then an independent receiver rollback: `unprocess`
  returns 3 → flags 1, ANTI set → NOT re-queued; the anti copy is extracted with previous flags 1 → freed
  without a second rollback.
-/
namespace RootSim.C06
open RootSim.MsgAuto

/-! ## Local messages -/

/-- states reachable by some finite action sequence from the not-yet-allocated message -/
def Reach (s : LState) : Prop := ∃ acts : List LAct, lrun LState.init acts = some s

theorem reach_good {s : LState} (h : Reach s) : Good s := by
  obtain ⟨acts, h⟩ := h
  exact R_good (R_run acts R_init h)

/-- the invariant is inductive: closed under every action (this is what is lifted over sequences) -/
theorem invariant_inductive {s s' : LState} {a : LAct} (hs : s ∈ R) (h : lstep s a = some s') : s' ∈ R :=
  R_step hs h

/-- never two queue copies of a message at once -/
theorem never_two_queue_copies {s : LState} (h : Reach s) : s.qc ≤ 1 := (reach_good h).1.2.1

/-- never released twice -/
theorem never_freed_twice {s : LState} (h : Reach s) : s.life ≠ .dfreed := (reach_good h).1.2.2.1

/-- no action ever touches a released buffer, `match_anti_msg` always finds its message, the remote
branch is never taken for a local message, a message is never processed twice in a row -/
theorem no_use_after_free {s : LState} (h : Reach s) : s.err = false := (reach_good h).1.1

/-- a released buffer is not queued, not in the receiver's history, not in the receiver's hands, not
about to be inserted, and a sender entry still pointing to it can no longer touch it -/
theorem never_freed_while_reachable {s : LState} (h : Reach s) (hf : s.life = .freed) :
    s.qc = 0 ∧ s.inHist = false ∧ s.rpc = .idle ∧ s.spend = false ∧ s.rpend = false ∧
      (s.sref = true → s.committed = true ∨ s.down = true) := (reach_good h).1.2.2.2.1 hf

/-- no leak: a live message is always held by somebody -/
theorem never_orphaned {s : LState} (h : Reach s) (hl : s.life = .live) :
    0 < s.qc ∨ s.inHist = true ∨ s.rpc ≠ .idle ∨ s.spend = true ∨ s.rpend = true :=
  (reach_good h).1.2.2.2.2.1 hl

/-- the flag word only takes the values 0,1,2,3 and — transiently, between the extraction of the anti
copy and the rollback's `fetch_add(-PROCESSED)` — 5. -/
theorem flags_range {s : LState} (h : Reach s) :
    s.flags = 0 ∨ s.flags = 1 ∨ s.flags = 2 ∨ s.flags = 3 ∨ (s.flags = 5 ∧ s.rpc = .antiRb) :=
  (reach_good h).2.1.1

/-- ANTI bit = "the sender has cancelled" -/
theorem anti_bit_iff_cancelled {s : LState} (h : Reach s) : s.flags % 2 = 1 ↔ s.cancelled = true :=
  (reach_good h).2.1.2.1

/-- PROCESSED bit = "in the receiver's history" whenever the receiver is not in the middle of the message -/
theorem processed_bit_iff_in_history {s : LState} (h : Reach s) (hp : s.rpc = .idle ∨ s.rpc = .hand)
    (hl : s.life = .live) (hd : s.down = false) : s.flags / 2 % 2 = 1 ↔ s.inHist = true :=
  (reach_good h).2.1.2.2 hp hl hd

/-- **The claim "flags ∈ {0,1,2,3}" is FALSE**: processing the anti copy of a processed message adds
PROCESSED to ANTI|PROCESSED. (Harmless: bit 2 is never read and the next action subtracts it again.) -/
theorem flags_five_reachable :
    ∃ s, Reach s ∧ s.flags = 5 :=
  ⟨_, ⟨[.alloc, .sendLocal, .pop, .flagProcess, .forward, .antiLocal, .antiInsert, .pop, .flagProcess], rfl⟩, rfl⟩

/-- after the receiver has seen ANTI in a `fetch_add` result the message is never dispatched forward -/
theorem no_forward_after_observed {s : LState} (h : Reach s) :
    s.fwdAfterObs = false ∧ (s.obs = true → s.rpc ≠ .proc) :=
  ⟨(reach_good h).2.2.1.1, (reach_good h).2.2.1.2.1⟩

/-- at most ONE forward dispatch happens after the sender's cancel (the dispatch whose flag update
preceded the cancel), and the sender cancels at most once -/
theorem at_most_one_forward_after_cancel {s : LState} (h : Reach s) :
    s.fwdAfterAnti ≤ 1 ∧ (s.cancelled = true → s.sref = false) :=
  ⟨(reach_good h).2.2.1.2.2.1, (reach_good h).2.2.1.2.2.2.2.2⟩

/-- the receiver is rolled back for a cancelled message at most once, only if the cancel saw PROCESSED;
and when the message is released through the anti path: EXACTLY once iff the cancel saw PROCESSED -/
theorem rolled_back_exactly_once {s : LState} (h : Reach s) :
    s.unpAfter ≤ (if s.cproc then 1 else 0) ∧
    (s.freedBy = .anti → s.cancelled = true ∧ s.unpAfter = (if s.cproc then 1 else 0)) :=
  ⟨(reach_good h).2.2.1.2.2.2.1, (reach_good h).2.2.1.2.2.2.2.1⟩

/-- a message that is never cancelled is released only by fossil collection (and then it is committed:
GVT has passed it while it was in the history) or at shutdown -/
theorem uncancelled_released_only_by_fossil_or_shutdown {s : LState} (h : Reach s) (hf : s.life = .freed)
    (hc : s.cancelled = false) :
    (s.freedBy = .fossil ∧ s.committed = true) ∨ s.freedBy = .fini ∨ s.freedBy = .qfini := by
  have hd := (reach_good h).2.2.2
  rcases hd.1 hf hc with h1 | h1 | h1
  · exact Or.inl ⟨h1, hd.2 h1⟩
  · exact Or.inr (Or.inl h1)
  · exact Or.inr (Or.inr h1)

/-- every action taken from a cancelled state strictly decreases `rank`: all paths from "cancelled" are finite -/
theorem cancelled_paths_terminate {s s' : LState} {a : LAct} (h : Reach s) (hc : s.cancelled = true)
    (hs : lstep s a = some s') : rank s' < rank s := by
  obtain ⟨acts, hr⟩ := h
  have := R_prog (R_run acts R_init hr)
  simp only [Prog, Bool.and_eq_true, Bool.or_eq_true, Bool.not_eq_true', List.all_eq_true] at this
  rcases this.1.1 with h1 | h1
  · rw [hc] at h1; exact absurd h1 (by decide)
  · have := h1 a (LAct.mem_all a)
    rw [hs] at this
    simpa using this

/-- a state in which no action is enabled is a released message (with `never_freed_twice`: released
exactly once). Together with `cancelled_paths_terminate`: every maximal path from "cancelled" ends in
"freed exactly once". -/
theorem terminal_is_freed {s : LState} (h : Reach s) (hterm : ∀ a, lstep s a = none) : s.life = .freed := by
  obtain ⟨acts, hr⟩ := h
  have := R_prog (R_run acts R_init hr)
  simp only [Prog, Bool.and_eq_true, Bool.or_eq_true, Bool.not_eq_true'] at this
  rcases this.1.2 with h1 | h1
  · have : succs s = [] := by
      unfold succs
      rw [List.filterMap_eq_nil_iff]
      intro a _; exact hterm a
    rw [this] at h1; simp at h1
  · simpa using h1

/-- progress does not depend on the environment: a cancelled, not yet released message always has a
runtime action enabled (pop, flag update, forward, pending insert, undo during `match_anti_msg`
rollback, free, or the shutdown frees) -/
theorem cancelled_runtime_action_enabled {s : LState} (h : Reach s) (hc : s.cancelled = true)
    (hl : s.life = .live) : ∃ a s', isSys s a = true ∧ lstep s a = some s' := by
  obtain ⟨acts, hr⟩ := h
  have := R_prog (R_run acts R_init hr)
  simp only [Prog, Bool.and_eq_true, Bool.or_eq_true, Bool.not_eq_true'] at this
  rcases this.2 with h1 | h1
  · simp [hc, hl] at h1
  · rw [List.any_eq_true] at h1
    obtain ⟨a, _, ha⟩ := h1
    simp only [Bool.and_eq_true, Option.isSome_iff_exists] at ha
    obtain ⟨h1, s', h2⟩ := ha
    exact ⟨a, s', h1, h2⟩

/-! ## Remote messages -/

def ReachR (s : RState) : Prop := ∃ acts : List RAct, rrun RState.init acts = some s

theorem reachR_good {s : RState} (h : ReachR s) : GoodR s := by
  obtain ⟨acts, h⟩ := h
  exact RR_good (RR_run acts RR_init h)

theorem remote_invariant_inductive {s s' : RState} {a : RAct} (hs : s ∈ RR) (h : rstep s a = some s') :
    s' ∈ RR := RR_step hs h

/-- none of the three buffers (sender's `S`, receiver's copy `R`, anti copy `A`) is released twice, no
released buffer is touched, at most one queue copy of each, the flag arithmetic stays below the id -/
theorem remote_memory_safe {s : RState} (h : ReachR s) :
    s.err = false ∧ s.sLife ≠ .dfreed ∧ s.rLife ≠ .dfreed ∧ s.aLife ≠ .dfreed ∧ s.rq ≤ 1 ∧ s.aq ≤ 1 ∧
    s.rLow < 4 ∧ s.aLow < 3 := (reachR_good h).1

/-- released buffers are unreachable (for `S`: also no MPI transfer still reads it, given the two GVT
hypotheses `scommit`/`commit` and the drain before shutdown) -/
theorem remote_never_freed_while_reachable {s : RState} (h : ReachR s) :
    (s.rLife = .freed → s.rq = 0 ∧ s.rHist = false ∧ onR s.pc = false ∧ s.rpend = false) ∧
    (s.aLife = .freed → s.aq = 0 ∧ s.aEarly = false ∧ onA s.pc = false) ∧
    (s.sLife = .freed → s.sref = false ∧ s.sAtGvt = false ∧ s.posFlight = false ∧ s.antiFlight = false) :=
  (reachR_good h).2.1

theorem remote_never_orphaned {s : RState} (h : ReachR s) :
    (s.rLife = .live → 0 < s.rq ∨ s.rHist = true ∨ onR s.pc = true ∨ s.rpend = true) ∧
    (s.aLife = .live → 0 < s.aq ∨ s.aEarly = true ∨ onA s.pc = true) ∧
    (s.sLife = .live → s.sref = true ∨ s.sAtGvt = true) ∧
    (s.pc = .rbA → s.rHist = true) := (reachR_good h).2.2.1

/-- once the receiver has handled the anti copy the message is never dispatched forward; it is undone
after that exactly when it was found processed (then once), and an early anti only ever waits for an
unprocessed copy -/
theorem remote_exactly_once {s : RState} (h : ReachR s) :
    s.fwdAfterObs = false ∧ (s.obs = true → s.pc ≠ .procR) ∧
    s.unpAfterObs ≤ (if s.hitHist then 1 else 0) ∧
    (s.hitHist = true → s.aLife = .freed → s.unpAfterObs = 1) ∧
    (s.aEarly = true → s.rHist = false ∧ s.pc ≠ .procR) ∧
    (s.aLife ≠ .fresh → s.cancelled = true) ∧ (s.antiFlight = true → s.cancelled = true) :=
  (reachR_good h).2.2.2

/-- runtime actions strictly decrease `rrank`. (Unlike the local case the ENVIRONMENT can prolong a path:
while the anti-message is in flight the receiver may process, roll back and re-process the message any
number of times.) -/
theorem remote_runtime_actions_terminate {s s' : RState} {a : RAct} (h : ReachR s)
    (hsys : risSys s a = true) (hs : rstep s a = some s') : rrank s' < rrank s := by
  obtain ⟨acts, hr⟩ := h
  have := RR_prog (RR_run acts RR_init hr)
  simp only [ProgR, Bool.and_eq_true, List.all_eq_true] at this
  have := this.1.1 a (RAct.mem_all a)
  rw [hs] at this
  simpa [hsys] using this

/-- terminal states: everything released — except that an anti copy parked in `early_antis` is never
released when the run shuts down first -/
theorem remote_terminal {s : RState} (h : ReachR s) (hterm : ∀ a, rstep s a = none) :
    s.sLife = .freed ∧ (s.rLife = .freed ∨ s.rLife = .fresh) ∧
    (s.aLife = .freed ∨ s.aLife = .fresh ∨ (s.aLife = .live ∧ s.aEarly = true ∧ s.down = true)) := by
  obtain ⟨acts, hr⟩ := h
  have := RR_prog (RR_run acts RR_init hr)
  simp only [ProgR, Bool.and_eq_true, Bool.or_eq_true, Bool.not_eq_true'] at this
  rcases this.1.2 with h1 | h1
  · have : rsuccs s = [] := by
      unfold rsuccs
      rw [List.filterMap_eq_nil_iff]
      intro a _; exact hterm a
    rw [this] at h1; simp at h1
  · simp only [beq_iff_eq] at h1
    obtain ⟨⟨a, b⟩, c⟩ := h1
    refine ⟨a, b, ?_⟩
    rcases c with (c | c) | ⟨⟨c1, c2⟩, c3⟩
    · exact Or.inl c
    · exact Or.inr (Or.inl c)
    · exact Or.inr (Or.inr ⟨c1, c2, c3⟩)

/-- OBSERVATION (memory leak, not a violation of C06's wording): `process_lp_fini` never releases
`lp->p.early_antis`. If the run ends while an early anti-message still waits for its message (which is
then dropped by `mpi_remote_msg_drain` or freed by `msg_queue_fini`), the anti copy is leaked. -/
theorem early_anti_leak_at_shutdown :
    ∃ s, ReachR s ∧ (∀ a, rstep s a = none) ∧ s.aLife = .live ∧ s.aEarly = true := by
  refine ⟨_, ⟨[.alloc, .sendRemote, .antiRemote, .recvAnti, .popA, .flagA, .shutdown, .drainPos, .sFiniFree], rfl⟩,
    ?_, rfl, rfl⟩
  intro a; cases a <;> rfl

/-! ## Identifiers: matching by `(raw_flags & ~3, m_seq)` is matching by identity -/

/-- what the receiver compares: the id left in `raw_flags` and `m_seq` -/
def key (nid rid : Nat) (e : Nat × Nat × Nat) : Nat × Nat :=
  (recvId (stampFlags nid rid e.2.1), stampSeq e.2.2 e.2.1)

/-- Two messages (send-log entries `(dest, phase, counter)` of threads `(n1,r1)`, `(n2,r2)`) whose keys are
equal at a receiver were sent by the SAME thread in the same GVT phase with counters congruent modulo
`2^31`. Hence different threads never collide; the same thread: see `id_unique_same_thread`. -/
theorem id_unique (n1 r1 n2 r2 : Nat) (hn1 : n1 < 65536) (hr1 : r1 + 1 < 4096) (hn2 : n2 < 65536)
    (hr2 : r2 + 1 < 4096) (e1 e2 : Nat × Nat × Nat) (hp1 : e1.2.1 < 2) (hp2 : e2.2.1 < 2)
    (hk : key n1 r1 e1 = key n2 r2 e2) :
    (n1 = n2 ∧ r1 = r2) ∧ e1.2.1 = e2.2.1 ∧ e1.2.2 % 2147483648 = e2.2.2 % 2147483648 := by
  simp only [key, Prod.mk.injEq] at hk
  exact ⟨stamp_inj n1 r1 _ n2 r2 _ hn1 hr1 hp1 hn2 hr2 hp2 hk.1, stampSeq_inj _ _ _ _ hp1 hp2 hk.2⟩

/-- same thread, two different sends to the same rank, provided the 31-bit counter has not wrapped between
them (fewer than `2^31` sends of that thread to that rank in that GVT phase in between — the
hypothesis of C06) ⇒ different keys -/
theorem id_unique_same_thread (nid rid : Nat) (c : SendCtr) (ops : List SendOp) (i j : Nat) (hij : i < j)
    (hj : j < (sendLog c ops).length) (hdest : (sendLog c ops)[i].1 = (sendLog c ops)[j].1)
    (hp : (sendLog c ops)[j].2.1 < 2) (hp' : (sendLog c ops)[i].2.1 < 2)
    (hwrap : (sendLog c ops)[j].2.2 < (sendLog c ops)[i].2.2 + 2147483648) :
    key nid rid (sendLog c ops)[i] ≠ key nid rid (sendLog c ops)[j] := by
  intro hk
  simp only [key, Prod.mk.injEq] at hk
  have hs := stampSeq_inj _ _ _ _ hp' hp hk.2
  have hinc := List.pairwise_iff_getElem.mp (sendLog_increasing c ops) i j (by omega) hj hij hdest hs.1
  omega

/-- CORNER CASE: with exactly `MAX_THREADS = 4096` threads per rank the thread field `(rid+1) << 2`
overflows into the rank field: thread 4095 of rank 0 and thread 4095 of rank 1 stamp the same id. -/
theorem id_collision_at_max_threads :
    recvId (stampFlags 0 4095 0) = recvId (stampFlags 1 4095 0) := by decide

/-! ## Non-vacuity -/

/-- a full cancel of a processed message: released exactly once, by the anti path, after one rollback -/
example : (lrun LState.init [.alloc, .sendLocal, .pop, .flagProcess, .forward, .antiLocal, .antiInsert, .pop,
    .flagProcess, .unprocess, .antiFree]).map (fun s => (s.life, s.flags, s.qc, s.unpAfter, s.freedBy))
    = some (.freed, 3, 0, 1, .anti) := by decide
/-- the window: receiver rollback re-queues, then the sender cancels: freed without processing -/
example : (lrun LState.init [.alloc, .sendLocal, .pop, .flagProcess, .forward, .unprocess, .requeue, .antiLocal,
    .pop, .flagProcess, .antiFree]).map (fun s => (s.life, s.flags, s.qc, s.unpAfter, s.fwdAfterAnti))
    = some (.freed, 3, 0, 0, 0) := by decide
/-- a valid message: delivered once, released by fossil collection after the commit -/
example : (lrun LState.init [.alloc, .sendLocal, .pop, .flagProcess, .forward, .commit, .fossilFree]).map
    (fun s => (s.life, s.flags, s.cancelled, s.freedBy)) = some (.freed, 2, false, .fossil) := by decide
/-- remote, early anti: the anti overtakes the message; both copies released, message never processed -/
example : (rrun RState.init [.alloc, .sendRemote, .antiRemote, .recvAnti, .popA, .flagA, .recvPos, .popR, .flagR,
    .earlyFree, .commit, .sGvtFree]).map (fun s => (s.sLife, s.rLife, s.aLife, s.rHist, s.fwdAfterObs))
    = some (.freed, .freed, .freed, false, false) := by decide
/-- remote, late anti: message processed, then undone once and released -/
example : (rrun RState.init [.alloc, .sendRemote, .recvPos, .popR, .flagR, .forwardR, .antiRemote, .recvAnti,
    .popA, .flagA, .unprocessR, .freeRA]).map (fun s => (s.rLife, s.aLife, s.rLow, s.unpAfterObs, s.hitHist))
    = some (.freed, .freed, 1, 1, true) := by decide
example : key 3 7 (5, 1, 100) = (3 * 16384 + 8 * 4, 201) := by decide

end RootSim.C06
