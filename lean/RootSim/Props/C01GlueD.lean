import RootSim.Proofs.TimeWarpDProgress
import RootSim.Props.C01GlueV2
/-!
# Time Warp with the straggler rule of the CODE (speculation on doomed entries) equals the sequential execution

`Props/C01GlueV2.lean` proves the end-to-end theorems for the abstract global Time Warp machine of
`Model/TimeWarpG.lean`, whose `exec` cuts a history by the CONTENT order. The code compares flag words
(`src/lp/msg.h: msg_is_before_extended`, first criterion: the ANTI bit): a processed entry that its sender has
already cancelled ("doomed") stops the backward scan of `match_straggler_msg` (and the straggler test of
`process_msg`) for every incoming message with the SAME time stamp, so the code may process a message ON TOP of a
doomed entry that is after it by content (`C01Refine.cmpOk_is_needed`, `Driver/Run.lean: Sys.gapAt`). That step
is not a step of the machine of `Model/TimeWarpG.lean`; it is a step of the machine of `Model/TimeWarpD.lean`
(`TWD`), which contains every TWG step (`twg_step_is_twd_step`).

**Result.** The relaxed machine is CORRECT. For every model satisfying the runtime's real contract `Spec.V2`,
every TWD-reachable state, every lower bound `g` of what is pending, every LP: `tw_prefix_of_sequential_D`,
`tw_equals_sequential_D`, `tw_committed_prefix_of_sequential_D`, `tw_sequential_run_exists_D`,
`tw_quiescent_equals_sequential_D`, `tw_quiescent_final_D`, `tw_quiescent_is_sequential_D`,
`tw_schedule_independent_D`, `tw_committed_monotone_D` have EXACTLY the conclusions of their `_V2` counterparts
(about `histOf s`, the whole histories).

**What changes.** The whole history of an LP is no longer sorted by the event order (an entry processed on top
of a doomed entry may be before it), so `Spec.Hist M (histOf s) g` — the literal conclusion of
`reachable_hist_V2` — is FALSE for this machine (`reachable_hist_D_literal_refuted`, kernel-checked on the
replayed scenario). It holds, together with `Spec.Progress`, for the UNTAINTED prefixes `TWD.cleanOf s` (the
entries before the first doomed entry of each LP: `reachable_hist_D`, `reachable_progress_D`), and below every
lower bound `g` the untainted prefix and the whole history coincide (`below_bound_untainted`): a doomed entry's
anti-message is in `antis`, so its time stamp is `≥ g`, and every history is sorted by TIME STAMP
(`reachable_invariant_D`), so everything after a doomed entry is `≥ g` too.

The invariant (`Proofs/TimeWarpD.lean`): the split-independent part of `TWG.GInv` (well-formedness, tagged
counting I2, ghost creation order) holds for ANY cut; "doomed" is a STABLE property of an entry (processing
steps are unique, the creation step of an anti-message is the step of an undone invocation, hence for the tag of
an anti-message `pending + processed = antis`: every doomed entry has its own anti-message); every history is
sorted by time stamp; every prefix of a history without doomed entries is sorted by the event order.
-/
namespace RootSim.C01GlueD
open RootSim RootSim.Spec RootSim.TWG RootSim.TWD

variable {σ : Type} {M : SimModel σ} {s s' : TWGState} {g g' : Nat}

/-! ### The relaxed machine contains the machine of `Model/TimeWarpG.lean` -/

/-- every step of the content-rule machine is a step of the machine with the code's rule (`V = []`) -/
theorem twg_step_is_twd_step {s₁ s₂ : TWGState} (h : TWG.Step M s₁ s₂) : TWD.Step M s₁ s₂ :=
  TWD.twg_step_is_twd_step h

theorem twg_reachable_is_twd_reachable (h : TWG.Reachable M s) : TWD.Reachable M s :=
  TWD.twg_reachable_is_twd_reachable h

/-- a TWG action is the TWD action that keeps no extra entry -/
theorem twg_action_is_twd_action (s : TWGState) (a : TWG.Action) :
    TWD.step? M s (TWD.ofTWG a) = TWG.step? M s a :=
  TWD.step?_ofTWG s a

/-- the executable step function performs exactly the steps of the relation the theorems are about (the split
point is part of the `exec` action) -/
theorem step_function_exact_D {s₁ s₂ : TWGState} :
    TWD.Step M s₁ s₂ ↔ ∃ a, TWD.step? M s₁ a = some s₂ :=
  ⟨TWD.step?_complete, fun ⟨_, h⟩ => TWD.step?_sound h⟩

/-! ### The invariant -/

/-- **The invariant under V2.** (I1') well-formed histories, sorted by TIME STAMP, every prefix without doomed
entries sorted by the event order; (I2) `pending + processed = sent + anti` for every tagged message, whatever
the cuts; (G) the ghost order; (D) processing steps are unique across LPs and no entry of any history was
processed at the creation step of an anti-message (so a doomed entry stays doomed until it is undone). -/
theorem reachable_invariant_D (V : V2 M) (hr : TWD.Reachable M s) :
    (∀ ℓ, ℓ < M.nLps → (histOf s ℓ).head? = some (initEv ℓ) ∧
      (∀ e ∈ (histOf s ℓ).tail, e.dest = ℓ ∧ e.type < LP_INIT) ∧
      (histOf s ℓ).Pairwise (fun a b => a.t ≤ b.t)) ∧
    (∀ ℓ n, (∀ u ∈ (s.past ℓ).tail.take n, ¬ Doomed s u) →
      (evs ((s.past ℓ).tail.take n)).Pairwise (fun a b => Event.before b a = false)) ∧
    (∀ ℓ, M.nLps ≤ ℓ → s.past ℓ = []) ∧
    (∀ x ∈ s.pending ++ s.antis, x.ev.dest < M.nLps ∧ x.ev.type < LP_INIT) ∧
    (∀ x : TMsg,
      s.pending.count x +
          ((List.range M.nLps).flatMap (fun ℓ => (s.past ℓ).tail.map TEntry.msg)).count x =
        (toutsAll M s.past).count x + s.antis.count x) ∧
    (∀ ℓ, ∀ u ∈ (s.past ℓ).tail, u.cr < u.pr) ∧
    (∀ ℓ, (s.past ℓ).Pairwise (fun a b => a.pr < b.pr)) ∧
    (∀ x ∈ s.pending, x.cr < s.now) ∧ (∀ ℓ, ∀ u ∈ s.past ℓ, u.pr < s.now) ∧
    (∀ ℓ ℓ', ∀ u ∈ s.past ℓ, ∀ u' ∈ s.past ℓ', 0 < u.pr → u.pr = u'.pr → ℓ = ℓ') ∧
    (∀ a ∈ s.antis, ∀ ℓ, ∀ u ∈ s.past ℓ, u.pr ≠ a.cr) := by
  have I := reachable_dinv V hr
  refine ⟨fun ℓ hℓ => ⟨?_, ?_, I.hist_tsorted hℓ⟩, I.s.csorted, I.b.out, ?_, I.b.cnt, I.b.crLt, I.b.prInc,
    I.b.pendCr, I.b.prLt, I.b.prUniq, I.b.antiFresh⟩
  · show (evs (s.past ℓ)).head? = _
    unfold evs
    rw [List.head?_map, I.b.head ℓ hℓ]; rfl
  · intro e he
    change e ∈ (evs (s.past ℓ)).tail at he
    rw [← evs_tail] at he
    obtain ⟨u, hu, rfl⟩ := mem_evs.mp he
    exact I.b.dest ℓ hℓ u hu
  · intro x hx
    rcases List.mem_append.mp hx with h | h
    · exact I.b.pendOk x h
    · exact I.b.antiOk x h

/-- **Below a lower bound nothing is tainted**: every entry from the first doomed entry of an LP on has a time
stamp `≥ g` … -/
theorem tainted_above_bound (V : V2 M) (hr : TWD.Reachable M s) (ha : ∀ x ∈ s.antis, g ≤ x.ev.t) (ℓ : Nat) :
    s.past ℓ = cleanPast s ℓ ++ taintedPast s ℓ ∧ ∀ u ∈ taintedPast s ℓ, g ≤ u.ev.t :=
  ⟨past_split s ℓ, (reachable_dinv V hr).tainted_ge ha ℓ⟩

/-- … so below `g` the untainted prefix IS the history -/
theorem below_bound_untainted (V : V2 M) (hr : TWD.Reachable M s) (ha : ∀ x ∈ s.antis, g ≤ x.ev.t) (ℓ : Nat) :
    (cleanOf s ℓ).filter (below g) = (histOf s ℓ).filter (below g) :=
  (reachable_dinv V hr).clean_filter ha ℓ

/-- without anti-messages nothing is tainted -/
theorem untainted_of_no_antis (ha : s.antis = []) : cleanOf s = histOf s := cleanOf_eq_histOf ha

/-! ### Glue (E): `Hist` and `Progress` for the untainted prefixes -/

/-- the literal conclusion of `C01GlueV2.reachable_hist_V2` (about the WHOLE histories) — FALSE for this machine,
see `reachable_hist_D_literal_refuted` -/
def reachable_hist_D_literalStatement : Prop :=
  ∀ (σ : Type) (M : SimModel σ) (s : TWGState) (g : Nat), V2 M → TWD.Reachable M s →
    (∀ x ∈ s.pending, g ≤ x.ev.t) → (∀ x ∈ s.antis, g ≤ x.ev.t) → Spec.Hist M (histOf s) g

/-- **Glue (E), first half**: H1–H3 at every lower bound `g` of what is pending, for the untainted prefixes of
the histories (which are the histories below `g`: `below_bound_untainted`). -/
theorem reachable_hist_D (V : V2 M) (hr : TWD.Reachable M s)
    (hp : ∀ x ∈ s.pending, g ≤ x.ev.t) (ha : ∀ x ∈ s.antis, g ≤ x.ev.t) :
    Spec.Hist M (cleanOf s) g :=
  (reachable_dinv V hr).hist V hp ha

/-- **Glue (E), second half**: a sequential run that has followed the untainted prefixes so far can always
continue along them. -/
theorem reachable_progress_D (V : V2 M) (hr : TWD.Reachable M s)
    (hp : ∀ x ∈ s.pending, g ≤ x.ev.t) (ha : ∀ x ∈ s.antis, g ≤ x.ev.t) :
    Spec.Progress M (cleanOf s) g :=
  (reachable_dinv V hr).progress V hp ha

/-- `Progress` holds literally for the WHOLE histories too (exactly the conclusion of `C01GlueV2.reachable_progress_V2`); without
`Hist` of the whole histories it is of no use, the theorems below go through `cleanOf s`. -/
theorem reachable_progress_D_literal (V : V2 M) (hr : TWD.Reachable M s)
    (hp : ∀ x ∈ s.pending, g ≤ x.ev.t) (ha : ∀ x ∈ s.antis, g ≤ x.ev.t) :
    Spec.Progress M (histOf s) g :=
  (reachable_dinv V hr).progress_full V hp ha

/-! ### The end-to-end theorems (conclusions exactly as in `Props/C01GlueV2.lean`) -/

/-- below `g`, what ANY sequential run has dispatched to an LP is a prefix of what the optimistic LP
has processed and not undone -/
theorem tw_prefix_of_sequential_D (V : V2 M) (hr : TWD.Reachable M s)
    (hp : ∀ x ∈ s.pending, g ≤ x.ev.t) (ha : ∀ x ∈ s.antis, g ≤ x.ev.t)
    {q : SeqState σ} (hq : Spec.Reachable M q) {ℓ : Nat} (hℓ : ℓ < M.nLps) :
    (q.disp ℓ).filter (below g) <+: (histOf s ℓ).filter (below g) := by
  rw [← below_bound_untainted V hr ha ℓ]
  exact (prefix_unique2 (reachable_hist_D V hr hp ha) V (reachable_progress_D V hr hp ha) hq hℓ).1

/-- **`tw_equals_sequential` for the machine with the code's straggler rule.** Once the sequential run has
nothing below `g` pending, the two sequences below `g` are EQUAL, and so are the LP states they produce. -/
theorem tw_equals_sequential_D (V : V2 M) (hr : TWD.Reachable M s)
    (hp : ∀ x ∈ s.pending, g ≤ x.ev.t) (ha : ∀ x ∈ s.antis, g ≤ x.ev.t)
    {q : SeqState σ} (hq : Spec.Reachable M q) (hl : ∀ x ∈ q.pending, g ≤ x.t)
    {ℓ : Nat} (hℓ : ℓ < M.nLps) :
    (q.disp ℓ).filter (below g) = (histOf s ℓ).filter (below g) ∧
    lpState M ℓ ((q.disp ℓ).filter (below g)) = lpState M ℓ ((histOf s ℓ).filter (below g)) := by
  rw [← below_bound_untainted V hr ha ℓ]
  exact (prefix_unique2 (reachable_hist_D V hr hp ha) V (reachable_progress_D V hr hp ha) hq hℓ).2 hl

/-- the committed part of an optimistic history is a prefix of the history itself and of the dispatch
sequence of every sequential run that has passed `g` -/
theorem tw_committed_prefix_of_sequential_D (V : V2 M) (hr : TWD.Reachable M s)
    (hp : ∀ x ∈ s.pending, g ≤ x.ev.t) (ha : ∀ x ∈ s.antis, g ≤ x.ev.t)
    {q : SeqState σ} (hq : Spec.Reachable M q) (hl : ∀ x ∈ q.pending, g ≤ x.t)
    {ℓ : Nat} (hℓ : ℓ < M.nLps) :
    (histOf s ℓ).filter (below g) <+: histOf s ℓ ∧ (histOf s ℓ).filter (below g) <+: q.disp ℓ := by
  refine ⟨tsorted_filter_prefix_self _ ((reachable_dinv V hr).hist_tsorted hℓ), ?_⟩
  rw [← below_bound_untainted V hr ha ℓ]
  exact committed_prefix_seq2 (reachable_hist_D V hr hp ha) V (reachable_progress_D V hr hp ha) hq hl hℓ

/-- the equality case is never vacuous: some sequential run does execute everything below `g` -/
theorem tw_sequential_run_exists_D (V : V2 M) (hr : TWD.Reachable M s)
    (hp : ∀ x ∈ s.pending, g ≤ x.ev.t) (ha : ∀ x ∈ s.antis, g ≤ x.ev.t) :
    ∃ q, Spec.Reachable M q ∧ ∀ x ∈ q.pending, g ≤ x.t := by
  obtain ⟨q, hq, _, hl⟩ :=
    exists_run_to2 (reachable_hist_D V hr hp ha) V (reachable_progress_D V hr hp ha)
  exact ⟨q, hq, hl⟩

/-- in a reachable state with nothing pending and no anti-message the statement holds for EVERY `g` … -/
theorem tw_quiescent_equals_sequential_D (V : V2 M) (hr : TWD.Reachable M s)
    (hp : s.pending = []) (ha : s.antis = []) (g : Nat)
    {q : SeqState σ} (hq : Spec.Reachable M q) {ℓ : Nat} (hℓ : ℓ < M.nLps) :
    (q.disp ℓ).filter (below g) <+: (histOf s ℓ).filter (below g) ∧
    ((∀ x ∈ q.pending, g ≤ x.t) →
      (q.disp ℓ).filter (below g) = (histOf s ℓ).filter (below g) ∧
      lpState M ℓ ((q.disp ℓ).filter (below g)) = lpState M ℓ ((histOf s ℓ).filter (below g))) :=
  ⟨tw_prefix_of_sequential_D V hr (by rw [hp]; simp) (by rw [ha]; simp) hq hℓ,
   fun hl => tw_equals_sequential_D V hr (by rw [hp]; simp) (by rw [ha]; simp) hq hl hℓ⟩

/-- **`tw_quiescent_final` for the machine with the code's straggler rule.** Every FINISHED sequential run has
dispatched exactly the optimistic histories and ended in exactly the LP states that are the folds of the
handler over them. -/
theorem tw_quiescent_final_D (V : V2 M) (hr : TWD.Reachable M s)
    (hp : s.pending = []) (ha : s.antis = [])
    {q : SeqState σ} (hq : Spec.Reachable M q) (hqp : q.pending = []) {ℓ : Nat} (hℓ : ℓ < M.nLps) :
    q.disp ℓ = histOf s ℓ ∧ q.st ℓ = lpState M ℓ (histOf s ℓ) := by
  obtain ⟨g, hg⟩ := TW.exists_time_bound (q.disp ℓ ++ histOf s ℓ)
  have h := ((tw_quiescent_equals_sequential_D V hr hp ha g hq hℓ).2 (by rw [hqp]; simp)).1
  rw [TW.filter_below_self (fun x hx => hg x (List.mem_append_left _ hx)),
    TW.filter_below_self (fun x hx => hg x (List.mem_append_right _ hx))] at h
  exact ⟨h, by rw [PrefixUnique.seq_state_exact hq ℓ, h]⟩

/-- a quiescent optimistic state IS a final state of some run of the sequential executor -/
theorem tw_quiescent_is_sequential_D (V : V2 M) (hr : TWD.Reachable M s)
    (hp : s.pending = []) (ha : s.antis = []) :
    ∃ q, Spec.Reachable M q ∧ q.pending = [] ∧
      ∀ ℓ, ℓ < M.nLps → q.disp ℓ = histOf s ℓ ∧ q.st ℓ = lpState M ℓ (histOf s ℓ) := by
  obtain ⟨q, hq, hqp, hd⟩ := (reachable_dinv V hr).quiescent_sequential V hp ha
  exact ⟨q, hq, hqp, fun ℓ hℓ => ⟨hd ℓ hℓ, by rw [PrefixUnique.seq_state_exact hq ℓ, hd ℓ hℓ]⟩⟩

/-- **`tw_schedule_independent` (C09 at protocol level) for the machine with the code's straggler rule.** -/
theorem tw_schedule_independent_D (V : V2 M) (hr : TWD.Reachable M s) (hr' : TWD.Reachable M s')
    (hp : ∀ x ∈ s.pending, g ≤ x.ev.t) (ha : ∀ x ∈ s.antis, g ≤ x.ev.t)
    (hp' : ∀ x ∈ s'.pending, g ≤ x.ev.t) (ha' : ∀ x ∈ s'.antis, g ≤ x.ev.t)
    {ℓ : Nat} (hℓ : ℓ < M.nLps) :
    (histOf s ℓ).filter (below g) = (histOf s' ℓ).filter (below g) ∧
    lpState M ℓ ((histOf s ℓ).filter (below g)) = lpState M ℓ ((histOf s' ℓ).filter (below g)) := by
  rw [← below_bound_untainted V hr ha ℓ, ← below_bound_untainted V hr' ha' ℓ]
  exact history_unique2 (reachable_hist_D V hr hp ha) (reachable_progress_D V hr hp ha)
    (reachable_hist_D V hr' hp' ha') (reachable_progress_D V hr' hp' ha') V hℓ

/-- **`tw_committed_monotone` (C03 at protocol level) for the machine with the code's straggler rule.** -/
theorem tw_committed_monotone_D (V : V2 M) (hr : TWD.Reachable M s) (hr' : TWD.Reachable M s')
    (hgg : g' ≤ g)
    (hp : ∀ x ∈ s.pending, g' ≤ x.ev.t) (ha : ∀ x ∈ s.antis, g' ≤ x.ev.t)
    (hp' : ∀ x ∈ s'.pending, g ≤ x.ev.t) (ha' : ∀ x ∈ s'.antis, g ≤ x.ev.t)
    {ℓ : Nat} (hℓ : ℓ < M.nLps) :
    (histOf s ℓ).filter (below g') <+: (histOf s' ℓ).filter (below g) := by
  rw [← below_bound_untainted V hr ha ℓ, ← below_bound_untainted V hr' ha' ℓ]
  exact committed_prefix2 hgg (reachable_hist_D V hr hp ha) (reachable_progress_D V hr hp ha)
    (reachable_hist_D V hr' hp' ha') (reachable_progress_D V hr' hp' ha') V hℓ

/-- a state reached by the content-rule machine and a state reached with the code's rule agree below every
common lower bound (so the two machines commit the same things) -/
theorem twd_agrees_with_twg (V : V2 M) (hr : TWG.Reachable M s) (hr' : TWD.Reachable M s')
    (hp : ∀ x ∈ s.pending, g ≤ x.ev.t) (ha : ∀ x ∈ s.antis, g ≤ x.ev.t)
    (hp' : ∀ x ∈ s'.pending, g ≤ x.ev.t) (ha' : ∀ x ∈ s'.antis, g ≤ x.ev.t)
    {ℓ : Nat} (hℓ : ℓ < M.nLps) :
    (histOf s ℓ).filter (below g) = (histOf s' ℓ).filter (below g) :=
  (tw_schedule_independent_D V (twg_reachable_is_twd_reachable hr) hr' hp ha hp' ha' hℓ).1

/-! ### Non-vacuity: the scenario of `C01Refine.cmpOk_is_needed`, replayed from the initial state -/

theorem run_reachable {as : List TWD.Action} (h : TWD.run? M (TWG.init M) as = some s) :
    TWD.Reachable M s :=
  TWD.run?_reachable as TWD.Reachable.init h

/-- `doom` satisfies the runtime's contract in every state -/
theorem doom_V2 : V2 doom := by
  intro ℓ s c o ho
  simp only [doom] at ho
  split at ho
  · split at ho
    · simp only [List.mem_cons, List.mem_nil_iff, or_false] at ho
      rcases ho with rfl | rfl
      · exact ⟨Event.not_before_of_t_lt (by simp), by simp [doom], by simp [LP_INIT]⟩
      · exact ⟨Event.not_before_of_t_lt (by simp), by simp [doom], by simp [LP_INIT]⟩
    · simp only [List.mem_singleton] at ho
      subst ho
      exact ⟨Event.not_before_of_t_lt (by simp), by simp [doom], by simp [LP_INIT]⟩
  · split at ho
    · simp only [List.mem_singleton] at ho
      subst ho
      exact ⟨Event.not_before_of_t_lt (by simp), by simp [doom], by simp [LP_INIT]⟩
    · simp at ho

/-- LP 0's two model events, the speculative message `x` and the message `e` with the same time stamp that is
BEFORE `x` by content (larger type) -/
def dY : Event := ⟨0, 1, 3, []⟩
def dZ : Event := ⟨0, 2, 2, []⟩
def dX : Event := ⟨1, 5, 1, []⟩
def dE : Event := ⟨1, 5, 2, []⟩

example : Event.before dE dX = true ∧ dE.t = dX.t := by decide

/-- LP 0 speculatively processes `z` before `y` and sends `x` (created at step 1) to LP 1, which processes it.
The straggler `y` undoes `z`: the anti-message of `x` exists, `x` is DOOMED in LP 1's history. LP 1 now extracts
`e`: the code's straggler test reads the ANTI bit of `x`, `msg_is_before(e, x)` is false, `e` is processed ON TOP
of `x` (`extra = 1`). The anti-message of `x` arrives: `x` and `e` are undone, `e` is re-queued. LP 0 re-executes
`z` (nothing sent), LP 1 re-executes `e`. -/
def doomActs : List TWD.Action :=
  [ .exec 0 dZ 0 0, .exec 1 dX 1 0,
    .exec 0 dY 0 0,          -- the straggler: `x` becomes doomed
    .exec 1 dE 0 1,          -- `e` on top of the doomed `x`: one entry MORE than the content rule is kept
    .antiRollback 1 1,       -- the anti-message of `x`: `x` and `e` undone, `e` re-queued
    .exec 0 dZ 0 0, .exec 1 dE 0 0 ]

/-- what a replay computes: the histories, the untainted prefixes, what is pending, the anti-messages -/
def obs (n : Nat) (s : TWGState) : List (List Event) × List (List Event) × List TMsg × List TMsg :=
  ((List.range n).map (histOf s), (List.range n).map (cleanOf s), s.pending, s.antis)

/-- after the straggler: `x` is processed at LP 1 and its anti-message exists — `x` is doomed (tainted) -/
example : (TWD.run? doom (TWG.init doom) (doomActs.take 3)).map (obs 2) =
    some ([[initEv 0, dY], [initEv 1, dX]], [[initEv 0, dY], [initEv 1]],
          [⟨dE, 0⟩, ⟨dZ, 0⟩], [⟨dX, 1⟩]) := by decide

/-- the content rule (`extra = 0`, the step of `TWG.exec?`) undoes `x` … -/
example : ((TWD.run? doom (TWG.init doom) (doomActs.take 3)).bind
      (fun s => TWD.step? doom s (.exec 1 dE 0 0))).map (fun s => histOf s 1) = some [initEv 1, dE] ∧
    ((TWD.run? doom (TWG.init doom) (doomActs.take 3)).bind
      (fun s => TWG.step? doom s (.exec 1 dE 0))).map (fun s => histOf s 1) = some [initEv 1, dE] := by
  decide

/-- … the code's rule keeps it: `e` is processed on top of the doomed `x`. The whole history of LP 1 is NOT
sorted by the event order; its untainted prefix is, and below the lower bound `g = 2` they coincide. -/
example : (TWD.run? doom (TWG.init doom) (doomActs.take 4)).map (obs 2) =
    some ([[initEv 0, dY], [initEv 1, dX, dE]], [[initEv 0, dY], [initEv 1]],
          [⟨dZ, 0⟩], [⟨dX, 1⟩]) := by decide

/-- keeping an entry is allowed ONLY on a doomed entry with the same time stamp: before the straggler `x` is not
doomed, and `extra = 1` is refused -/
example : ((TWD.run? doom (TWG.init doom) (doomActs.take 2)).bind
      (fun s => TWD.step? doom s (.exec 1 dE 0 1))).isNone = true := by decide

/-- the anti-rollback undoes `x` and `e` and re-queues `e` -/
example : (TWD.run? doom (TWG.init doom) (doomActs.take 5)).map (obs 2) =
    some ([[initEv 0, dY], [initEv 1]], [[initEv 0, dY], [initEv 1]], [⟨dZ, 0⟩, ⟨dE, 0⟩], []) := by decide

/-- the whole trace is enabled and ends in a quiescent state whose histories are those of the executable
sequential run -/
example : (TWD.run? doom (TWG.init doom) doomActs).map
      (fun s => ((List.range 2).map (histOf s), s.pending, s.antis)) =
    some ((List.range 2).map (seqRunN doom 3).disp, [], []) ∧ (seqRunN doom 3).pending = [] := by decide

/-- the state in which `e` stands on top of the doomed `x`: reachable, lower bound `2`, something pending, an
anti-message, LP 1's history `[LP_INIT, x, e]` -/
theorem doom_speculating : ∃ s, TWD.Reachable doom s ∧
    (∀ x ∈ s.pending, 2 ≤ x.ev.t) ∧ (∀ x ∈ s.antis, 2 ≤ x.ev.t) ∧ s.pending ≠ [] ∧ s.antis ≠ [] ∧
    histOf s 1 = [initEv 1, dX, dE] ∧ cleanOf s 1 = [initEv 1] ∧
    (histOf s 0).filter (below 2) = [initEv 0, dY] := by
  have h : ∃ s, TWD.run? doom (TWG.init doom) (doomActs.take 4) = some s := by
    rw [← Option.isSome_iff_exists]; decide
  obtain ⟨s, hs⟩ := h
  have ho : obs 2 s = ([[initEv 0, dY], [initEv 1, dX, dE]], [[initEv 0, dY], [initEv 1]],
      [⟨dZ, 0⟩], [⟨dX, 1⟩]) := by
    have : (TWD.run? doom (TWG.init doom) (doomActs.take 4)).map (obs 2) =
        some ([[initEv 0, dY], [initEv 1, dX, dE]], [[initEv 0, dY], [initEv 1]],
          [⟨dZ, 0⟩], [⟨dX, 1⟩]) := by decide
    rw [hs] at this
    exact Option.some.inj this
  simp only [obs, Prod.mk.injEq] at ho
  obtain ⟨hh, hc, hpend, hanti⟩ := ho
  have h0 : histOf s 0 = [initEv 0, dY] := by
    have := congrArg (fun l => l[0]?) hh
    simpa using this
  have h1 : histOf s 1 = [initEv 1, dX, dE] := by
    have := congrArg (fun l => l[1]?) hh
    simpa using this
  have c1 : cleanOf s 1 = [initEv 1] := by
    have := congrArg (fun l => l[1]?) hc
    simpa using this
  refine ⟨s, run_reachable hs, ?_, ?_, ?_, ?_, h1, c1, ?_⟩
  · rw [hpend]; decide
  · rw [hanti]; decide
  · rw [hpend]; simp
  · rw [hanti]; simp
  · rw [h0]; decide

/-- **`Spec.Hist` of the WHOLE histories is refuted for the machine with the code's rule**: in the state of
`doom_speculating` LP 1's history `[LP_INIT, x, e]` is not sorted by the event order (whatever `g`). -/
theorem reachable_hist_D_literal_refuted : ¬ reachable_hist_D_literalStatement := by
  intro S
  obtain ⟨s, hr, hp, ha, _, _, h1, _, _⟩ := doom_speculating
  have H := S Nat doom s 2 doom_V2 hr hp ha
  have := H.sorted 1 (by decide)
  rw [h1] at this
  revert this
  decide

/-- that state is NOT reachable by the content-rule machine of `Model/TimeWarpG.lean`: the relaxed machine has
strictly more behaviours -/
theorem twd_reaches_more_than_twg : ∃ s, TWD.Reachable doom s ∧ ¬ TWG.Reachable doom s := by
  obtain ⟨s, hr, hp, ha, _, _, h1, _, _⟩ := doom_speculating
  refine ⟨s, hr, fun hg => ?_⟩
  have := (C01GlueV2.reachable_hist_V2 doom_V2 hg hp ha).sorted 1 (by decide)
  rw [h1] at this
  revert this
  decide

/-- the theorems apply to that state (non-trivial lower bound, non-empty tainted part): whatever a sequential
run of `doom` that has passed time 2 has dispatched to LP 0 below time 2 is `LP_INIT`, `y` -/
example {q : SeqState Nat} (hq : Spec.Reachable doom q) (hl : ∀ x ∈ q.pending, 2 ≤ x.t) :
    (q.disp 0).filter (below 2) = [initEv 0, dY] := by
  obtain ⟨s, hr, hp, ha, _, _, _, _, h0⟩ := doom_speculating
  rw [← h0]
  exact (tw_equals_sequential_D doom_V2 hr hp ha hq hl (by decide)).1

/-- the hypotheses of the `tw_quiescent_*_D` theorems are satisfiable by a run that speculated on a doomed
entry -/
theorem doom_nonvacuous : ∃ s, TWD.Reachable doom s ∧ s.pending = [] ∧ s.antis = [] ∧
    histOf s 1 = [initEv 1, dE] := by
  have h : ∃ s, TWD.run? doom (TWG.init doom) doomActs = some s := by
    rw [← Option.isSome_iff_exists]; decide
  obtain ⟨s, hs⟩ := h
  have ho : (fun s => (histOf s 1, s.pending, s.antis)) s = ([initEv 1, dE], [], []) := by
    have : (TWD.run? doom (TWG.init doom) doomActs).map (fun s => (histOf s 1, s.pending, s.antis)) =
        some ([initEv 1, dE], [], []) := by decide
    rw [hs] at this
    exact Option.some.inj this
  simp only [Prod.mk.injEq] at ho
  exact ⟨s, run_reachable hs, ho.2.1, ho.2.2, ho.1⟩

/-- every finished sequential run of `doom` has dispatched to LP 1 exactly `LP_INIT` and `e` -/
example {q : SeqState Nat} (hq : Spec.Reachable doom q) (hqp : q.pending = []) :
    q.disp 1 = [initEv 1, dE] := by
  obtain ⟨s, hr, hp, ha, h1⟩ := doom_nonvacuous
  rw [← h1]
  exact (tw_quiescent_final_D doom_V2 hr hp ha hq hqp (by decide)).1

/-- the V2-only token ring of `Props/C01GlueV2.lean` replays unchanged (every TWG action is a TWD action) -/
example : (TWD.run? ring (TWG.init ring) (C01GlueV2.ringActs.map TWD.ofTWG)).map
      (fun s => ((List.range 3).map (histOf s), s.pending, s.antis)) =
    some ((List.range 3).map (seqRunN ring 6).disp, [], []) := by decide

end RootSim.C01GlueD
