import RootSim.Props.C18
import RootSim.Proofs.FloatRat
/-!
# C18, the range of `Random()` read as rational numbers

Same facts as `RootSim.C18.random_value` / `randomStatement_fixed`, with the dyadic pair
`fin m s` read as the rational `m / 2^s` (`dyQ`).  Only this file and `Proofs/FloatRat.lean`
import Mathlib.
-/
namespace RootSim.C18
open RootSim RootSim.Rand RootSim.Float

/-- pinned tree, every raw output `u ≥ 2`: `2^-63 ≤ Random() ≤ 1 - 2^-53` -/
theorem random_value_rat (u : Nat) (h2 : 2 ≤ u) (h64 : u < 2 ^ 64) :
    ∃ b m s, randomBits u = .ok b ∧ decodeDouble b = .fin m s ∧
      (1 : ℚ) / 2 ^ 63 ≤ dyQ m s ∧ dyQ m s ≤ (2 ^ 53 - 1) / 2 ^ 53 := by
  obtain ⟨b, hb, hd, l1, l2, _⟩ := random_value u h2 h64
  refine ⟨b, _, _, hb, hd, ?_, ?_⟩
  · have := (leFin_iff_rat _ _ _ _).1 l1
    simpa [dyQ] using this
  · have := (leFin_iff_rat _ _ _ _).1 l2
    have e : dyQ (2 ^ 53 - 1) 53 = (2 ^ 53 - 1) / 2 ^ 53 := by unfold dyQ; norm_num
    rw [e] at this
    exact this

/-- patched tree, EVERY raw output: `Random()` is defined and `0 ≤ Random() < 1` -/
theorem randomFixed_unit_interval_rat (u : Nat) (h64 : u < 2 ^ 64) :
    ∃ b m s, randomBitsFixed u = .ok b ∧ decodeDouble b = .fin m s ∧ 0 ≤ dyQ m s ∧ dyQ m s < 1 := by
  obtain ⟨b, hb, m, s, hd, h0, h1⟩ := randomStatement_fixed u h64
  refine ⟨b, m, s, hb, hd, ?_, ?_⟩
  · unfold dyQ
    have : (0 : ℚ) ≤ (m : ℚ) := by exact_mod_cast h0
    positivity
  · unfold dyQ
    rw [div_lt_one (by positivity)]
    exact_mod_cast h1

end RootSim.C18
