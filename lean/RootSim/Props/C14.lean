import RootSim.Proofs.Place
/-!
# C14 — LP placement and routing

"For any number of LPs, ranks and threads, each LP identifier is initialised, processed and finalised
by exactly one thread of exactly one rank, and the rank and thread computed when routing an event to
an LP are that owner. Ownership ranges are contiguous, cover all identifiers, and leave no thread of a
rank without work when that rank hosts at least as many LPs as it has threads."

All theorems quantify over EVERY `lps ≥ 1`, `n ≥ 1` (ranks), `t ≥ 1` (threads): no bound, LPs not
divisible by ranks/threads, fewer LPs than threads, one LP included. The definitions are those of
`Model/Place.lean` (no fuel: `partStart` is the macro `partition_start` with its two loops).

* Arithmetic (`node_*`, `thread_*`, `partStart_*`): hold for every triple, empty ranges included.
* The run-level statement `placement` ("initialised, processed and finalised by exactly one thread of
  exactly one rank; routing computes that owner") carries `n ≤ lps`: with fewer LPs than ranks a rank
  hosts no LP, `lp_global_init` clamps its `n_threads` to 0, `parallel_simulation` starts no worker
  there (`f9_rank_without_lps`, `f9_counterexample`) and the other ranks wait for it at
  `mpi_node_barrier` forever (finding F9, reproduced on the real code: 1 LP, `mpiexec -n 2`).
* `u64_faithful_*`: under `lps * n < 2^64`, `n < 2^31`, `t < 2^32`, `first + m < 2^64`,
  `m * t < 2^64` the fixed-width model (the C types) equals the `Nat` model; `u64_wrap_*` show that
  without the bound ownership does break (documents the domain).
-/
namespace RootSim.C14
open RootSim.Place

/-! ## `partition_start` -/

/-- **`partition_start` terminates** (it is a total function: the only thing needed is that the second
loop can exit, `CanExit`, and `part_cnt ≠ 0`) **and returns the least index `g ≥ start_i` with
`part_fnc(g) ≥ part_id`**, for every `part_fnc` that is monotone non-decreasing on `[start_i, ∞)` —
independently of the initial guess `part_id * tot_i / part_cnt + start_i`. -/
theorem partStart_spec (partId partCnt : Nat) (fnc : Nat → Nat) (start tot : Nat) (hc : 0 < partCnt)
    (hx : CanExit fnc partId) (hmono : ∀ a b, start ≤ a → a ≤ b → fnc a ≤ fnc b) :
    start ≤ partStart partId partCnt fnc start tot hc hx ∧
    partId ≤ fnc (partStart partId partCnt fnc start tot hc hx) ∧
    ∀ g, start ≤ g → partId ≤ fnc g → partStart partId partCnt fnc start tot hc hx ≤ g :=
  partStart_spec' partId partCnt fnc start tot hc hx hmono

/-- without monotonicity the macro still returns a *local* boundary: an index `≥ start_i` with
`part_fnc ≥ part_id` that is `start_i` or whose predecessor has `part_fnc < part_id`. -/
theorem partStart_boundary (partId partCnt : Nat) (fnc : Nat → Nat) (start tot : Nat) (hc : 0 < partCnt)
    (hx : CanExit fnc partId) :
    start ≤ partStart partId partCnt fnc start tot hc hx ∧
    partId ≤ fnc (partStart partId partCnt fnc start tot hc hx) ∧
    (partStart partId partCnt fnc start tot hc hx = start ∨
      fnc (partStart partId partCnt fnc start tot hc hx - 1) < partId) :=
  partStart_local partId partCnt fnc start tot hc hx

/-- for `part_id = part_cnt` the result is `start_i + tot_i`, provided `part_fnc(start_i + tot_i) ≥
part_cnt` and `part_fnc < part_cnt` on the index space `[start_i, start_i + tot_i)`. -/
theorem partStart_last (partCnt : Nat) (fnc : Nat → Nat) (start tot : Nat) (hc : 0 < partCnt)
    (hx : CanExit fnc partCnt) (hmono : ∀ a b, start ≤ a → a ≤ b → fnc a ≤ fnc b)
    (hend : partCnt ≤ fnc (start + tot)) (hin : ∀ g, start ≤ g → g < start + tot → fnc g < partCnt) :
    partStart partCnt partCnt fnc start tot hc hx = start + tot := by
  obtain ⟨h1, h2, h3⟩ := partStart_spec' partCnt partCnt fnc start tot hc hx hmono
  have := h3 (start + tot) (by omega) hend
  apply Nat.le_antisymm this
  apply Nat.le_of_not_lt
  intro hlt
  have := hin _ h1 hlt
  omega

/-! ## node (rank) ranges: `lp_global_init` -/


theorem node_first_zero (lps n : Nat) (hl : 0 < lps) (hn : 0 < n) : nodeFirst lps n hl hn 0 = 0 := by
  rw [nodeFirst_eq]; exact threadFirst_zero 0 lps n hl hn

theorem node_first_last (lps n : Nat) (hl : 0 < lps) (hn : 0 < n) : nodeFirst lps n hl hn n = lps := by
  rw [nodeFirst_eq, threadFirst_last]; omega

theorem node_first_mono (lps n : Nat) (hl : 0 < lps) (hn : 0 < n) (k k' : Nat) (h : k ≤ k') : nodeFirst lps n hl hn k ≤ nodeFirst lps n hl hn k' := by
  rw [nodeFirst_eq, nodeFirst_eq]; exact threadFirst_mono 0 lps n hl hn k k' h

/-- contiguous: rank `k` hosts exactly `[nodeFirst k, nodeFirst (k+1))`, `n_lps_node` LPs -/
theorem node_contiguous (lps n : Nat) (hl : 0 < lps) (hn : 0 < n) (k : Nat) :
    nodeFirst lps n hl hn k + nLpsNode lps n hl hn k = nodeFirst lps n hl hn (k + 1) :=
  nodeFirst_add_nLpsNode lps n hl hn k

/-- **routing = ownership** for ranks: `lid_to_nid(lp) = k` iff `lp` is in the range of rank `k` -/
theorem node_route_iff (lps n : Nat) (hl : 0 < lps) (hn : 0 < n) (k lp : Nat) :
    lidToNid lps n lp = k ↔ nodeFirst lps n hl hn k ≤ lp ∧ lp < nodeFirst lps n hl hn (k + 1) := by
  rw [nodeFirst_eq, nodeFirst_eq, lidToNid_eq]
  exact route_iff 0 lps n hl hn k lp (Nat.zero_le _)

/-- every LP id below `lps` is routed to an existing rank -/
theorem node_route_lt (lps n : Nat) (hn : 0 < n) (lp : Nat) (h : lp < lps) : lidToNid lps n lp < n := lidToNid_lt lps n lp hn h

/-- the ranges cover `[0, lps)` and are disjoint: exactly one rank owns `lp` -/
theorem node_owner_unique (lps n : Nat) (hl : 0 < lps) (hn : 0 < n) (lp : Nat) (h : lp < lps) :
    ∃ k, (k < n ∧ nodeFirst lps n hl hn k ≤ lp ∧ lp < nodeFirst lps n hl hn (k + 1)) ∧
      ∀ k', (k' < n ∧ nodeFirst lps n hl hn k' ≤ lp ∧ lp < nodeFirst lps n hl hn (k' + 1)) → k' = k := by
  refine ⟨lidToNid lps n lp, ⟨node_route_lt lps n hn lp h, (node_route_iff lps n hl hn _ lp).1 rfl⟩, ?_⟩
  rintro k' ⟨_, h'⟩
  exact ((node_route_iff lps n hl hn k' lp).2 h').symm

/-- with at least as many LPs as ranks no rank is empty -/
theorem node_nonempty (lps n : Nat) (hl : 0 < lps) (hn : 0 < n) (hnl : n ≤ lps) (k : Nat) : 0 < nLpsNode lps n hl hn k :=
  nLpsNode_pos lps n hl hn hnl k


/-! ## thread ranges inside a rank: `lp_init`, after the clamp of `lp_global_init`

`first = lid_node_first`, `m = n_lps_node > 0`, `t` = requested threads, `clampThreads t m = min t m`
= `global_config.n_threads` as seen by `lp_init` and `lid_to_rid`. -/


theorem clamp_pos (m t : Nat) (hm : 0 < m) (ht : 0 < t) : 0 < clampThreads t m := by unfold clampThreads; split <;> omega
theorem clamp_le_m (m t : Nat) : clampThreads t m ≤ m := by unfold clampThreads; split <;> omega
theorem clamp_le_t (m t : Nat) : clampThreads t m ≤ t := by unfold clampThreads; split <;> omega
/-- "…when that rank hosts at least as many LPs as it has threads": then nothing is clamped -/
theorem clamp_eq_of_le (m t : Nat) (h : t ≤ m) : clampThreads t m = t := by unfold clampThreads; split <;> omega

theorem thread_first_zero (first m t : Nat) (hm : 0 < m) (ht : 0 < t) :
    threadFirst first m (clampThreads t m) hm (clamp_pos m t hm ht) 0 = first :=
  threadFirst_zero first m _ hm _

theorem thread_first_last (first m t : Nat) (hm : 0 < m) (ht : 0 < t) :
    threadFirst first m (clampThreads t m) hm (clamp_pos m t hm ht) (clampThreads t m) = first + m :=
  threadFirst_last first m _ hm _

theorem thread_first_mono (first m t : Nat) (hm : 0 < m) (ht : 0 < t) (r r' : Nat) (h : r ≤ r') :
    threadFirst first m (clampThreads t m) hm (clamp_pos m t hm ht) r ≤
    threadFirst first m (clampThreads t m) hm (clamp_pos m t hm ht) r' :=
  threadFirst_mono first m _ hm _ r r' h

/-- **routing = ownership** for threads: `lid_to_rid(lp) = r` iff `lp ∈ [lid_thread_first, lid_thread_end)`
of thread `r` (for LPs hosted on this rank or beyond: `first ≤ lp`) -/
theorem thread_route_iff (first m t : Nat) (hm : 0 < m) (ht : 0 < t) (r lp : Nat) (hlp : first ≤ lp) :
    lidToRid first m (clampThreads t m) lp = r ↔
      threadFirst first m (clampThreads t m) hm (clamp_pos m t hm ht) r ≤ lp ∧
      lp < threadEnd first m (clampThreads t m) hm (clamp_pos m t hm ht) r :=
  route_iff first m _ hm _ r lp hlp

theorem thread_route_lt (first m t : Nat) (hm : 0 < m) (ht : 0 < t) (lp : Nat) (h : lp < first + m) :
    lidToRid first m (clampThreads t m) lp < clampThreads t m :=
  lidToRid_lt first m _ lp hm (clamp_pos m t hm ht) h

theorem thread_owner_unique (first m t : Nat) (hm : 0 < m) (ht : 0 < t) (lp : Nat) (h1 : first ≤ lp) (h2 : lp < first + m) :
    ∃ r, (r < clampThreads t m ∧
        threadFirst first m (clampThreads t m) hm (clamp_pos m t hm ht) r ≤ lp ∧
        lp < threadEnd first m (clampThreads t m) hm (clamp_pos m t hm ht) r) ∧
      ∀ r', (r' < clampThreads t m ∧
        threadFirst first m (clampThreads t m) hm (clamp_pos m t hm ht) r' ≤ lp ∧
        lp < threadEnd first m (clampThreads t m) hm (clamp_pos m t hm ht) r') → r' = r := by
  refine ⟨lidToRid first m (clampThreads t m) lp, ⟨thread_route_lt first m t hm ht lp h2,
    (thread_route_iff first m t hm ht _ lp h1).1 rfl⟩, ?_⟩
  rintro r' ⟨_, h'⟩
  exact ((thread_route_iff first m t hm ht r' lp h1).2 h').symm

/-- **no idle thread**: after the clamp every started thread owns at least one LP … -/
theorem no_idle_thread (first m t : Nat) (hm : 0 < m) (ht : 0 < t) (r : Nat) (_hr : r < clampThreads t m) :
    threadFirst first m (clampThreads t m) hm (clamp_pos m t hm ht) r <
    threadEnd first m (clampThreads t m) hm (clamp_pos m t hm ht) r :=
  threadFirst_strict first m _ hm _ (clamp_le_m m t) r

/-- … in particular all `t` requested threads when the rank hosts at least `t` LPs. -/
theorem no_idle_thread_of_enough (first m t : Nat) (hm : 0 < m) (ht : 0 < t) (htm : t ≤ m) (r : Nat) (_hr : r < t) :
    threadFirst first m t hm ht r < threadEnd first m t hm ht r :=
  threadFirst_strict first m t hm ht htm r


/-! ## the combined statement -/

/-- every rank starts `min t n_lps_node ≥ 1` workers, each with a non-empty range, when `n ≤ lps` -/
theorem all_ranks_work (lps n t : Nat) (hl : 0 < lps) (hn : 0 < n) (ht : 0 < t) (hnl : n ≤ lps)
    (k : Nat) :
    ∃ ws, nodeWorkers? lps n t k = .ok ws ∧
      ws.length = clampThreads t (nLpsNode lps n hl hn k) ∧ 0 < ws.length ∧
      ∀ rg, rg ∈ ws → rg.1 < rg.2 := by
  have hm := nLpsNode_pos lps n hl hn hnl k
  have hc := clamp_pos _ t hm ht
  unfold nodeWorkers? lpGlobalInit?
  simp only [dif_pos (And.intro hl hn), dif_pos (And.intro hm hc)]
  refine ⟨_, rfl, by simp, by simpa using hc, ?_⟩
  intro rg hrg
  simp only [List.mem_map, List.mem_range] at hrg
  obtain ⟨r, hr, rfl⟩ := hrg
  exact no_idle_thread _ _ t hm ht r hr

/-- **C14, combined**: for every `lp < lps` (with `1 ≤ n ≤ lps`, `t ≥ 1`) there is exactly one
(rank, thread) owner among all ranks `< n` and all their workers, and routing computes it. -/
theorem placement (lps n t : Nat) (hn : 0 < n) (ht : 0 < t) (hnl : n ≤ lps) (lp : Nat) (hlp : lp < lps) :
    ∃ k r, k < n ∧ route lps n t lp = .ok (k, r) ∧ Owner lps n t k r lp ∧
      ∀ k' r', Owner lps n t k' r' lp → k' = k ∧ r' = r := by
  have hl : 0 < lps := by omega
  -- unfolding of `Owner`
  have hown : ∀ k r, Owner lps n t k r lp ↔
      (r < clampThreads t (nLpsNode lps n hl hn k) ∧
       threadFirst (nodeFirst lps n hl hn k) (nLpsNode lps n hl hn k) (clampThreads t (nLpsNode lps n hl hn k))
          (nLpsNode_pos lps n hl hn hnl k) (clamp_pos _ t (nLpsNode_pos lps n hl hn hnl k) ht) r ≤ lp ∧
       lp < threadEnd (nodeFirst lps n hl hn k) (nLpsNode lps n hl hn k) (clampThreads t (nLpsNode lps n hl hn k))
          (nLpsNode_pos lps n hl hn hnl k) (clamp_pos _ t (nLpsNode_pos lps n hl hn hnl k) ht) r) := by
    intro k r
    have hm := nLpsNode_pos lps n hl hn hnl k
    have hc := clamp_pos _ t hm ht
    unfold Owner nodeWorkers? lpGlobalInit?
    simp only [dif_pos (And.intro hl hn), dif_pos (And.intro hm hc)]
    constructor
    · rintro ⟨ws, hws, rg, hrg, h1, h2⟩
      injection hws with hws
      subst hws
      simp only [List.getElem?_map, Option.map_eq_some_iff] at hrg
      obtain ⟨a, ha, rfl⟩ := hrg
      by_cases hr : r < clampThreads t (nLpsNode lps n hl hn k)
      · rw [List.getElem?_range hr] at ha
        injection ha with ha
        subst ha
        exact ⟨hr, h1, h2⟩
      · rw [List.getElem?_eq_none (by simpa using hr)] at ha
        cases ha
    · rintro ⟨hr, h1, h2⟩
      refine ⟨_, rfl, (_, _), ?_, h1, h2⟩
      rw [List.getElem?_map, List.getElem?_range hr]
      rfl
  -- the owner
  let k := lidToNid lps n lp
  have hk : k < n := node_route_lt lps n hn lp hlp
  have hkr := (node_route_iff lps n hl hn k lp).1 rfl
  have hm := nLpsNode_pos lps n hl hn hnl k
  have hcont := node_contiguous lps n hl hn k
  let r := lidToRid (nodeFirst lps n hl hn k) (nLpsNode lps n hl hn k) (clampThreads t (nLpsNode lps n hl hn k)) lp
  refine ⟨k, r, hk, ?_, ?_, ?_⟩
  · unfold route lidToNid? lidToRid? lpGlobalInit?
    simp only [if_pos hl, dif_pos (And.intro hl hn)]
    rw [if_pos hm]
  · rw [hown]
    exact ⟨thread_route_lt _ _ t hm ht lp (by omega), (thread_route_iff _ _ t hm ht r lp hkr.1).1 rfl⟩
  · intro k' r' ho
    rw [hown] at ho
    obtain ⟨hr', h1, h2⟩ := ho
    have hm' := nLpsNode_pos lps n hl hn hnl k'
    have hcont' := node_contiguous lps n hl hn k'
    -- thread ranges of rank k' lie inside the node range of rank k'
    have hlo := threadFirst_ge (nodeFirst lps n hl hn k') _ _ hm' (clamp_pos _ t hm' ht) r'
    have hhi := threadFirst_le_end (nodeFirst lps n hl hn k') _ _ hm' (clamp_pos _ t hm' ht) (r' + 1) (by omega)
    unfold threadEnd at h2
    have hk' : k' = k :=
      ((node_route_iff lps n hl hn k' lp).2 ⟨by omega, by omega⟩).symm
    subst hk'
    refine ⟨rfl, ?_⟩
    exact ((thread_route_iff _ _ t hm ht r' lp hkr.1).2 ⟨h1, h2⟩).symm

/-! ## F9: fewer LPs than ranks -/

/-- **F9**: with fewer LPs than ranks some rank computes `n_lps_node = 0`, clamps `n_threads` to 0 and
starts no worker thread: it never calls `lp_init`, never reaches `mpi_node_barrier`; the other ranks
block there forever. (The arithmetic theorems above still hold: its range is empty.) -/
theorem f9_rank_without_lps (lps n t : Nat) (hl : 0 < lps) (hlt : lps < n) :
    ∃ k, k < n ∧ nodeWorkers? lps n t k = .error .noThreads := by
  have hn : 0 < n := by omega
  obtain ⟨k, hk, hz⟩ := exists_empty_rank lps n hl hn hlt
  refine ⟨k, hk, ?_⟩
  unfold nodeWorkers? lpGlobalInit?
  simp only [dif_pos (And.intro hl hn), hz]
  simp [clampThreads]

/-- …and if a thread did run `lp_init` there, `rid * n_lps_node / n_threads` divides by zero -/
theorem f9_div_by_zero (first r : Nat) : lpInit? ⟨first, 0, 0⟩ r = .error .divByZero := by
  simp [lpInit?]

/-- minimal instance: 1 LP on 2 ranks (the case reproduced with `mpiexec -n 2`) -/
theorem f9_counterexample : ∃ k, k < 2 ∧ nodeWorkers? 1 2 1 k = .error .noThreads :=
  f9_rank_without_lps 1 2 1 (by decide) (by decide)

/-! ## the fixed-width model (the C types) -/

/-- `lid_to_nid` in C = the `Nat` one, for every `lp ≤ lps` -/
theorem u64_faithful_nid (lps n lp : Nat) (hl : 0 < lps) (hn : 0 < n) (h31 : n < 2 ^ 31)
    (hov : lps * n < 2 ^ 64) (hlp : lp ≤ lps) :
    lidToNidU64 lps n lp = Int.ofNat (lidToNid lps n lp) :=
  lidToNidU64_eq lps n lp hl hn h31 hov hlp

/-- `partition_start(k, n_nodes, lid_to_nid, 0, lps)` in C = the `Nat` one (`k = nid`, `nid + 1`) -/
theorem u64_faithful_node (lps n k : Nat) (hl : 0 < lps) (hn : 0 < n) (h31 : n < 2 ^ 31)
    (hov : lps * n < 2 ^ 64) (hk : k ≤ n) :
    nodeFirstU64 lps n k = .ok (nodeFirst lps n hl hn k) :=
  nodeFirstU64_eq lps n k hl hn h31 hov hk

/-- `lp_global_init` in C = the `Nat` one -/
theorem u64_faithful_global_init (lps n t k : Nat) (hl : 0 < lps) (hn : 0 < n) (h31 : n < 2 ^ 31)
    (hov : lps * n < 2 ^ 64) (h32 : t < 2 ^ 32) (hk : k < n) :
    lpGlobalInitU64 lps n t k = lpGlobalInit? lps n t k :=
  lpGlobalInitU64_eq lps n t k hl hn h31 hov h32 hk

/-- `lid_to_rid` in C = the `Nat` one for LPs of the rank -/
theorem u64_faithful_rid (first m t lp : Nat) (hm : 0 < m) (ht : 0 < t) (h32 : t < 2 ^ 32)
    (hfm : first + m < 2 ^ 64) (hov : m * t < 2 ^ 64) (h1 : first ≤ lp) (h2 : lp ≤ first + m) :
    lidToRidU64 first m t lp = lidToRid first m t lp :=
  lidToRidU64_eq first m t lp hm ht h32 hfm hov h1 h2

/-- `partition_start(r, n_threads, lid_to_rid, lid_node_first, n_lps_node)` in C = the `Nat` one -/
theorem u64_faithful_thread (first m t r : Nat) (hm : 0 < m) (ht : 0 < t) (h32 : t < 2 ^ 32)
    (hfm : first + m < 2 ^ 64) (hov : m * t < 2 ^ 64) (hr : r ≤ t) :
    threadFirstU64 first m t r = .ok (threadFirst first m t hm ht r) :=
  threadFirstU64_eq first m t r hm ht h32 hfm hov hr

/-! ### outside the bound: `lps = 2^63`, 4 ranks (`lps * n = 2^65`) -/

/-- `4 * lp` wraps: LP `2^62` is routed to rank 0 (unbounded arithmetic: rank 2) … -/
theorem u64_wrap_route :
    lidToNidU64 (2 ^ 63) 4 (2 ^ 62) = 0 ∧ lidToNid (2 ^ 63) 4 (2 ^ 62) = 2 := by
  constructor <;> decide

/-- … but rank 0 owns `[0, 2^61)` only: **routing ≠ ownership** without the no-overflow hypothesis … -/
theorem u64_wrap_owner : nodeFirstU64 (2 ^ 63) 4 0 = .ok 0 ∧ nodeFirstU64 (2 ^ 63) 4 1 = .ok (2 ^ 61) := by
  constructor
  · unfold nodeFirstU64 partStartU64
    have : loopDownB (fun g => decide (toI32 0 ≤ lidToNidU64 (2 ^ 63) 4 g)) (wrap64 0)
        (wrap64 (wrap64 (sext32 0 * wrap64 (2 ^ 63)) / sext32 4 + wrap64 0)) = 0 := by
      have : wrap64 (wrap64 (sext32 0 * wrap64 (2 ^ 63)) / sext32 4 + wrap64 0) = 0 := by decide
      rw [this]; rfl
    simp only [this]
    rw [if_neg (by decide), if_neg (by decide)]
    unfold loopUpU64
    rw [scanUp_eq_some _ (2 ^ 64) 0 0 0 rfl (by decide) (fun x h1 h2 => by omega) (by decide)]
  · unfold nodeFirstU64 partStartU64
    have hg0 : wrap64 (wrap64 (sext32 1 * wrap64 (2 ^ 63)) / sext32 4 + wrap64 0) = (2 ^ 61 - 1) + 1 := by decide
    have hd : loopDownB (fun g => decide (toI32 1 ≤ lidToNidU64 (2 ^ 63) 4 g)) (wrap64 0)
        (wrap64 (wrap64 (sext32 1 * wrap64 (2 ^ 63)) / sext32 4 + wrap64 0)) = 2 ^ 61 - 1 := by
      rw [hg0, loopDownB, if_pos (by decide)]
      have : (2 : Nat) ^ 61 - 1 = (2 ^ 61 - 2) + 1 := by decide
      rw [this, loopDownB, if_neg (by decide)]
    simp only [hd]
    rw [if_neg (by decide), if_neg (by decide)]
    unfold loopUpU64
    rw [scanUp_eq_some _ (2 ^ 64) 1 (2 ^ 61 - 1) (2 ^ 61) (by decide) (by decide) ?_ (by decide)]
    intro x h1 h2
    have : x = 2 ^ 61 - 1 := by omega
    subst this
    decide

/-- … and rank 1 never leaves `lp_global_init`: `partition_start(2, 4, lid_to_nid, 0, 2^63)` loops
forever, because `(4 * g mod 2^64) / 2^63 < 2` for every `uint64_t g`. -/
theorem u64_wrap_nonterm : nodeFirstU64 (2 ^ 63) 4 2 = .error .nonterm := by
  unfold nodeFirstU64 partStartU64
  rw [if_neg (by decide), if_neg (by decide)]
  simp only []
  apply loopUpU64_nonterm
  · have h := (loopDownB_spec (fun g => decide (toI32 2 ≤ lidToNidU64 (2 ^ 63) 4 g)) (wrap64 0)
      (wrap64 (wrap64 (sext32 2 * wrap64 (2 ^ 63)) / sext32 4 + wrap64 0)) (by decide)).2.1
    have : wrap64 (wrap64 (sext32 2 * wrap64 (2 ^ 63)) / sext32 4 + wrap64 0) ≤ 2 ^ 64 := by decide
    omega
  · intro x hx
    simp only [decide_eq_true_eq]
    have e1 : sext32 4 = 4 := by decide
    have e2 : toI32 2 = 2 := by decide
    have e3 : wrap64 (2 ^ 63) = 2 ^ 63 := by decide
    unfold lidToNidU64
    rw [e1, e2, e3]
    unfold wrap64
    have hq : x % 2 ^ 64 * 4 % 2 ^ 64 / 2 ^ 63 < 2 := by omega
    rw [toI32_small _ (by omega)]
    exact Int.ofNat_lt.2 hq

/-! ## non-vacuity: concrete, non-trivial instances -/

/-- 10 LPs on 3 ranks: ranges `[0,4) [4,7) [7,10)` — not divisible, uneven -/
example : nodeFirst 10 3 (by decide) (by decide) 1 = 4 ∧ nodeFirst 10 3 (by decide) (by decide) 2 = 7 := by
  have a := node_route_iff 10 3 (by decide) (by decide) 0 3
  have b := node_route_iff 10 3 (by decide) (by decide) 1 4
  have c := node_route_iff 10 3 (by decide) (by decide) 1 6
  have d := node_route_iff 10 3 (by decide) (by decide) 2 7
  have a' := a.1 (by decide); have b' := b.1 (by decide); have c' := c.1 (by decide); have d' := d.1 (by decide)
  simp only [Nat.reduceAdd] at a' b' c' d'
  omega

/-- the hypotheses of `placement` are satisfiable with LPs not divisible by ranks or threads, and its
conclusion is not trivial: LP 6 of 10 on 3 ranks × 2 threads is routed to (rank 1, thread 1). -/
example : route 10 3 2 6 = .ok (1, 1) := by
  have hf : nodeFirst 10 3 (by decide) (by decide) 1 = 4 ∧ nodeFirst 10 3 (by decide) (by decide) 2 = 7 := by
    have b := (node_route_iff 10 3 (by decide) (by decide) 0 3).1 (by decide)
    have c := (node_route_iff 10 3 (by decide) (by decide) 1 4).1 (by decide)
    have d := (node_route_iff 10 3 (by decide) (by decide) 1 6).1 (by decide)
    have e := (node_route_iff 10 3 (by decide) (by decide) 2 7).1 (by decide)
    simp only [Nat.reduceAdd] at b c d e
    omega
  simp [route, lidToNid?, lpGlobalInit?, lidToRid?, lidToNid, nLpsNode, hf.1, hf.2, clampThreads, lidToRid]
example : (0 < 3 ∧ 0 < 2 ∧ 3 ≤ 10 ∧ 6 < 10) := by decide
/-- fewer LPs than threads (1 LP, 1 rank, 8 threads): clamp to one worker -/
example : clampThreads 8 1 = 1 := by decide
/-- the no-overflow hypotheses of `u64_faithful_*` hold for 2^40 LPs, 1000 ranks, 64 threads -/
example : (2 : Nat) ^ 40 * 1000 < 2 ^ 64 ∧ 1000 < 2 ^ 31 ∧ 64 < 2 ^ 32 := by decide

end RootSim.C14
