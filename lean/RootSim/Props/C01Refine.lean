import RootSim.Proofs.Refine
import RootSim.Props.C06LP
/-!
# C01 glue, LP level: the concrete LP step function REFINES the abstract Time Warp machine

CONCRETE: `LPFull.step` (`Model/LPFull.lean`) — all dispatch branches of `process_msg` (src/lp/process.c) for ONE LP, over message
ordinals, tagged history entries, a checkpoint log, flag words; the function the re-execution driver runs on every real trace.
ABSTRACT: `TW.Step` / `TW.step?` (`Model/TimeWarp.lean`) — the global content-level machine whose reachable states are proved to
agree with the sequential execution (`Props/C01Glue.lean`).

Abstraction of one LP: `Refine.absPast ev base s = (base ++ pastMsgs s.lp.hist).map ev` (committed ordinals ++ current past
entries, as contents). The simulation is proved for EVERY simulation model `M` (handler `M.handler ℓ`, initial LP state `M.init ℓ`),
every history, every checkpoint placement, every allocator choice, under

* the state invariants `C06LP.WF` (`LInv` + `SInv`) and `Refine.OInv` (the sent entries in front of a processed entry carry the
  contents of the handler's outputs there) — both preserved by every step (`step_preserves_rinv`);
* two hypotheses on the ENVIRONMENT of an `exec` step, stated as named predicates:
  `Refine.CmpOk` (what `msg_is_before` returns on the flag-word snapshot is the content order; `Refine.cmpOk_of_content`: true when
  the snapshot shows the recorded contents and no ANTI bit on the history's processed messages) and
  `Refine.CommitSafe` (the dequeued message is not before the last committed message — GVT safety, C04 — and not before the LP's
  first entry `LP_INIT`: the abstract machine never undoes the head of a history).

With these, `Driver/Run.lean`'s run-time `twPastOk` check is a theorem for the LP model (`lp_step_refines_tw`).
-/
namespace RootSim.C01Refine
open RootSim RootSim.LP RootSim.LPFull RootSim.Spec RootSim.Refine

variable {σ : Type} (M : SimModel σ) (ℓ : Nat) {ev : Nat → Event} {base : List Nat}

/-- the state-side hypotheses of the simulation -/
structure RInv (ev : Nat → Event) (look : Nat → Msg) (base : List Nat) (s : St σ) : Prop where
  wf : WF (M.handler ℓ) ev look (M.init ℓ) base s
  oinv : OInv (M.handler ℓ) ev (M.init ℓ) base s.lp

/-- **(0) the invariants are preserved by EVERY branch of `process_msg`.** `hm` as in `C06LP.step_preserves_wf`; `hal`: the
message table records, for every ordinal the allocator hands out during this step, the content sent with it. -/
theorem step_preserves_rinv {look : Nat → Msg} {remote : Nat → Bool} {alloc : Nat → Nat} {s s' : St σ} {m f : Nat}
    {acts : List Action} (hR : RInv M ℓ ev look base s)
    (hm : f % 2 = 0 → (look m).WF ∧ (look m).destT = (ev m).t ∧ (look m).rawFlags = f + 2)
    (hal : ∀ oe ∈ sends acts, ev oe.1 = oe.2)
    (hs : step (M.handler ℓ) ev look remote alloc s m f = some (s', acts)) : RInv M ℓ ev look base s' :=
  ⟨C06LP.step_preserves_wf hR.wf hm hs, step_oinv hR.wf.linv hR.wf.sinv hR.oinv hs hal⟩

/-- when `kindOf … = .exec`: exactly when the flag word is even (no ANTI bit) and no parked anti-message matches -/
theorem kindOf_exec_iff {look : Nat → Msg} {s : St σ} {m f : Nat} :
    kindOf look s m f = .exec ↔
      f % 2 = 0 ∧ (f = 0 ∨ ∀ c ∈ s.earlyAntis, keyAt look c ≠ (f + 2, (look m).mSeq)) := by
  constructor
  · intro hk
    by_cases hodd : f % 2 = 1
    · simp only [kindOf, hodd, if_true] at hk
      repeat' split at hk
      all_goals cases hk
    · refine ⟨by omega, ?_⟩
      by_cases h0 : f = 0
      · exact Or.inl h0
      · right
        simp only [kindOf, hodd, if_false, ne_eq, h0, not_false_eq_true, if_true] at hk
        split at hk
        · cases hk
        · rename_i hu
          intro c hc
          exact (earlyHit_false_iff _ _ _ _).mp ((unlinkFirst_none _ _).mp hu c hc)
  · rintro ⟨hf, hno⟩
    exact kindOf_exec_of hf hno

/-- **(1) An ordinary message: the concrete step is the abstract `exec`.** With `e = ev m` and `absPast s = hd :: T`:
the new abstract history is `keepOf e hd T ++ [e]` (= `(TW.execResult M tw ℓ e hd T).past ℓ`); the messages the step un-processes
are — in the SAME ORDER, none with the `cancelled` mark, so all re-queued — exactly `undoOf e T`; the messages that get a local or
remote anti-message are, in the SAME ORDER, exactly the outputs of the undone invocations `outsFrom … (undoOf e T)` (what
`execResult` adds to `antis`); the contents sent by the forward part are, in order, the handler's outputs in the state after the
kept history; and the new LP state is the fold over the new abstract history. -/
theorem plain_step_refines_exec {look : Nat → Msg} {remote : Nat → Bool} {alloc : Nat → Nat} {s s' : St σ} {m f : Nat}
    {acts : List Action} (hR : RInv M ℓ ev look base s) (hk : kindOf look s m f = .exec)
    (hcmp : CmpOk look ev s.lp.hist m f) (hsafe : CommitSafe ev base s.lp.hist m)
    (hs : step (M.handler ℓ) ev look remote alloc s m f = some (s', acts)) :
    ∃ hd T, absPast ev base s = hd :: T ∧
      absPast ev base s' = TW.keepOf (ev m) hd T ++ [ev m] ∧
      (unprocs acts).map (fun x => ev x.1) = TW.undoOf (ev m) T ∧ (∀ x ∈ unprocs acts, x.2 = false) ∧
      requeued ev acts = TW.undoOf (ev m) T ∧
      cancelled ev acts = outsFrom M ℓ (lpState M ℓ (TW.keepOf (ev m) hd T)) (TW.undoOf (ev m) T) ∧
      sentEvents acts = (M.handler ℓ (lpState M ℓ (TW.keepOf (ev m) hd T)) (ev m)).2 ∧
      s'.lp.st = lpState M ℓ (absPast ev base s') := by
  obtain ⟨k, hkc, hA, hh, _, hu, ha, hsd⟩ := plain_core hR.wf.linv hR.wf.sinv hk hs
  obtain ⟨hd, T, hP, hkeep, hundo⟩ := exec_split (base := base) hR.wf.sinv hcmp hsafe hkc
  have hst : replay (M.handler ℓ) ev (M.init ℓ) (base ++ pastMsgs (s.lp.hist.take k)) =
      lpState M ℓ (TW.keepOf (ev m) hd T) := by rw [replay_eq_lpState, hkeep]
  refine ⟨hd, T, hP, ?_, ?_, ?_, ?_, ?_, ?_, ?_⟩
  · unfold absPast
    rw [hh]
    simp only [pastMsgs_append, pastMsgs_outEntries, List.append_nil]
    rw [← List.append_assoc, List.map_append, hkeep]; rfl
  · rw [hu, List.map_map, ← hundo]; rfl
  · intro x hx
    rw [hu] at hx
    obtain ⟨y, _, rfl⟩ := List.mem_map.mp hx
    rfl
  · unfold requeued
    rw [hu, ← hundo]
    simp [List.filter_map, Function.comp_def, filter_const_true]
  · unfold cancelled
    rw [ha, ← hundo, ← hst, ← outsOf_eq_outsFrom]
    exact undone_outs hR.oinv hR.wf.sinv _ _ (List.take_append_drop k s.lp.hist).symm hA
  · unfold sentEvents
    rw [hsd, hst, List.map_snd_zip]
    simp
  · rw [(step_linv hR.wf.linv hs).st_ok, replay_eq_lpState]; rfl

/-- **(2) An anti-message for a processed message `x`: the concrete step is the abstract `antiRollback`.** `kindOf … = .antiRollback x`
covers the local anti-message with flag word 3 (`x = m`, `match_anti_msg`) and the remote anti-message whose event is found by
(id word, m_seq) (`handle_remote_anti_msg`). With `o = ev x`: `absPast s = K ++ o :: U`, `absPast s' = K`, the re-queued messages are
exactly `U` (same order; the target itself is un-processed with the `cancelled` mark and NOT re-queued), the cancelled messages are,
in the same order, `outsFrom … (o :: U)`, nothing is sent — exactly `TW.antiRollbackResult`. `K ≠ []` (the abstract action must not
remove the `LP_INIT` head) as soon as something is committed or `x` is not the first processed entry. -/
theorem anti_step_refines_antiRollback {look : Nat → Msg} {remote : Nat → Bool} {alloc : Nat → Nat} {s s' : St σ} {m f x : Nat}
    {acts : List Action} (hR : RInv M ℓ ev look base s) (hk : kindOf look s m f = .antiRollback x)
    (hs : step (M.handler ℓ) ev look remote alloc s m f = some (s', acts)) :
    ∃ K U, absPast ev base s = K ++ ev x :: U ∧ absPast ev base s' = K ∧
      (∃ us : List Nat, unprocs acts = (x, true) :: us.map (fun y => (y, false)) ∧ us.map ev = U) ∧
      requeued ev acts = U ∧
      cancelled ev acts = outsFrom M ℓ (lpState M ℓ K) (ev x :: U) ∧
      sentEvents acts = [] ∧
      s'.lp.st = lpState M ℓ K ∧
      (base ≠ [] ∨ (pastMsgs s.lp.hist).head? ≠ some x → K ≠ []) := by
  obtain ⟨A, G, B, hh, hG, hA, h1, _, hu, ha, hsd⟩ := anti_core hR.wf.linv hs hk
  have hpm : pastMsgs s.lp.hist = pastMsgs A ++ x :: pastMsgs B := by
    rw [hh, pastMsgs_append, pastMsgs_append, pastMsgs_of_not_past G hG, List.append_nil]; rfl
  refine ⟨(base ++ pastMsgs A).map ev, (pastMsgs B).map ev, ?_, ?_, ⟨pastMsgs B, hu, rfl⟩, ?_, ?_, ?_, ?_, ?_⟩
  · unfold absPast; rw [hpm]; simp
  · unfold absPast; rw [h1]
  · unfold requeued
    rw [hu]
    simp [List.filter_map, Function.comp_def, filter_const_true]
  · unfold cancelled
    rw [ha, ← replay_eq_lpState]
    have hfil : (G ++ Entry.past x :: B).filter Entry.isSent = G ++ B.filter Entry.isSent := by
      rw [List.filter_append, filter_isSent_of_not_past G hG]
      simp [Entry.isSent, Entry.isPast]
    have hpr : pastMsgs (G ++ Entry.past x :: B) = x :: pastMsgs B := by
      rw [pastMsgs_append, pastMsgs_of_not_past G hG]; rfl
    have := undone_outs hR.oinv hR.wf.sinv A (G ++ Entry.past x :: B) (by rw [hh, List.append_assoc]) hA
    rw [sentEvs, hfil, hpr, outsOf_eq_outsFrom] at this
    exact this
  · unfold sentEvents; rw [hsd]; rfl
  · rw [(step_linv hR.wf.linv hs).st_ok, h1, replay_eq_lpState]
  · intro hne hK
    have hK' : base ++ pastMsgs A = [] := by simpa using hK
    obtain ⟨hb, hpa⟩ := List.append_eq_nil_iff.mp hK'
    rcases hne with hne | hne
    · exact hne hb
    · apply hne; rw [hpm, hpa]; rfl

/-- **(3) The steps that discard: `f = 1` (anti-message of a message not processed yet), an early match
(`check_early_anti_messages`), and a remote anti-message that is parked.** The abstract history is unchanged; nothing is
un-processed, cancelled or sent: the abstract `annihilate` touches only the bags, parking is no abstract action at all. -/
theorem discard_steps_refine_annihilate {look : Nat → Msg} {remote : Nat → Bool} {alloc : Nat → Nat} {s s' : St σ} {m f : Nat}
    {acts : List Action} (hk : kindOf look s m f = .annihilate ∨ kindOf look s m f = .park)
    (hs : step (M.handler ℓ) ev look remote alloc s m f = some (s', acts)) :
    absPast ev base s' = absPast ev base s ∧ unprocs acts = [] ∧ antis acts = [] ∧
    requeued ev acts = [] ∧ cancelled ev acts = [] ∧ sentEvents acts = [] := by
  obtain ⟨h1, h2, h3, h4⟩ := discard_core hs hk
  refine ⟨by unfold absPast; rw [h1], h2, h3, ?_, ?_, ?_⟩
  · unfold requeued; rw [h2]; rfl
  · unfold cancelled; rw [h3]; rfl
  · unfold sentEvents; rw [h4]; rfl

/-! ### (4) the packaged simulation statement -/

/-- what the bags of the global abstract state must contain for the abstract action to be enabled ("the bags contain what the
concrete step consumes"), and — for `antiRollback` — that the target is not the head of the abstract history -/
def Enabled (M : SimModel σ) (ℓ : Nat) (ev : Nat → Event) (base : List Nat) (s : St σ) (tw : TWState) (m : Nat) : Kind → Prop
  | .exec => ev m ∈ tw.pending ∧ (ev m).dest = ℓ ∧ ℓ < M.nLps ∧ (ev m).type < LP_INIT
  | .annihilate => ev m ∈ tw.pending ∧ ev m ∈ tw.antis
  | .antiRollback x => ev x ∈ tw.antis ∧ (base ≠ [] ∨ (pastMsgs s.lp.hist).head? ≠ some x)
  | .park => True

/-- the abstract action of a kind -/
def Abstracts (ℓ : Nat) (ev : Nat → Event) (m : Nat) (P : List Event) : Kind → TW.Action → Prop
  | .exec, a => a = .exec ℓ (ev m)
  | .annihilate, a => a = .annihilate (ev m)
  | .antiRollback x, a => ∃ i, a = .antiRollback ℓ i ∧ P[i]? = some (ev x)
  | .park, _ => False

/-- **(4) One concrete step of LP `ℓ` is ONE action of the global abstract machine (or none, when an anti-message is parked).**
For every global abstract state `tw` whose component `ℓ` is the abstraction of the concrete LP and whose bags contain what the step
consumes: there is an abstract action `a` of the kind given by the dispatch with `TW.step? M tw a = some tw'` (for `.park`:
`tw' = tw`), and in `tw'`: the history of `ℓ` is the abstraction of the new concrete LP (this is `Sys.twPastOk` of
`Driver/Run.lean`), the other histories are untouched, `pending` = the old bag minus the consumed message plus exactly the contents
the step re-queues and sends, `antis` = the old bag minus the consumed anti-message plus exactly the contents the step cancels —
as LIST equalities (`++` in the order re-queued, then sent). -/
theorem lp_step_refines_tw {look : Nat → Msg} {remote : Nat → Bool} {alloc : Nat → Nat} {s s' : St σ} {m f : Nat}
    {acts : List Action} {tw : TWState} (hR : RInv M ℓ ev look base s)
    (hpast : tw.past ℓ = absPast ev base s)
    (hen : Enabled M ℓ ev base s tw m (kindOf look s m f))
    (henv : kindOf look s m f = .exec → CmpOk look ev s.lp.hist m f ∧ CommitSafe ev base s.lp.hist m)
    (hs : step (M.handler ℓ) ev look remote alloc s m f = some (s', acts)) :
    ∃ tw', ((kindOf look s m f = .park ∧ tw' = tw) ∨
            ∃ a, Abstracts ℓ ev m (tw.past ℓ) (kindOf look s m f) a ∧ TW.step? M tw a = some tw') ∧
      tw'.past ℓ = absPast ev base s' ∧
      (∀ j, j ≠ ℓ → tw'.past j = tw.past j) ∧
      tw'.pending = eraseO tw.pending ((kindOf look s m f).takesPending ev m) ++ requeued ev acts ++ sentEvents acts ∧
      tw'.antis = eraseO tw.antis ((kindOf look s m f).takesAnti ev m) ++ cancelled ev acts := by
  cases hk : kindOf look s m f with
  | exec =>
    rw [hk] at hen
    obtain ⟨hcmp, hsafe⟩ := henv hk
    obtain ⟨hd, T, hP, h1, _, _, h4, h5, h6, _⟩ := plain_step_refines_exec M ℓ hR hk hcmp hsafe hs
    refine ⟨TW.execResult M tw ℓ (ev m) hd T, Or.inr ⟨.exec ℓ (ev m), rfl, ?_⟩, ?_, ?_, ?_, ?_⟩
    · simp only [TW.step?, TW.exec?, hpast, hP]
      exact if_pos hen
    · simp [TW.execResult, upd, h1]
    · intro j hj; simp [TW.execResult, upd, hj]
    · simp [TW.execResult, Kind.takesPending, eraseO, h4, h6]
    · simp [TW.execResult, Kind.takesAnti, eraseO, h5]
  | annihilate =>
    rw [hk] at hen
    obtain ⟨h1, _, _, h4, h5, h6⟩ := discard_steps_refine_annihilate M ℓ (ev := ev) (base := base) (Or.inl hk) hs
    refine ⟨TW.annihilateResult tw (ev m), Or.inr ⟨.annihilate (ev m), rfl, ?_⟩, ?_, ?_, ?_, ?_⟩
    · simp only [TW.step?, TW.annihilate?]
      exact if_pos hen
    · simp [TW.annihilateResult, hpast, h1]
    · intro j _; rfl
    · simp [TW.annihilateResult, Kind.takesPending, eraseO, h4, h6]
    · simp [TW.annihilateResult, Kind.takesAnti, eraseO, h5]
  | antiRollback x =>
    rw [hk] at hen
    obtain ⟨K, U, hP, h1, _, h4, h5, h6, _, hne⟩ := anti_step_refines_antiRollback M ℓ hR hk hs
    have hKne := hne hen.2
    have hget : (tw.past ℓ)[K.length]? = some (ev x) := by rw [hpast, hP]; simp
    have hpos : 0 < K.length := List.length_pos_iff.mpr hKne
    refine ⟨TW.antiRollbackResult M tw ℓ (ev x) K U, Or.inr ⟨.antiRollback ℓ K.length, ⟨K.length, rfl, hget⟩, ?_⟩, ?_, ?_, ?_, ?_⟩
    · simp only [TW.step?, TW.antiRollback?, hget, hpos, hen.1, and_self, if_true]
      rw [hpast, hP]; simp
    · simp [TW.antiRollbackResult, upd, h1]
    · intro j hj; simp [TW.antiRollbackResult, upd, hj]
    · simp [TW.antiRollbackResult, Kind.takesPending, eraseO, h4, h6]
    · simp [TW.antiRollbackResult, Kind.takesAnti, eraseO, h5]
  | park =>
    obtain ⟨h1, _, _, h4, h5, h6⟩ := discard_steps_refine_annihilate M ℓ (ev := ev) (base := base) (Or.inr hk) hs
    refine ⟨tw, Or.inl ⟨rfl, rfl⟩, by rw [hpast, h1], fun _ _ => rfl, ?_, ?_⟩
    · simp [Kind.takesPending, eraseO, h4, h6]
    · simp [Kind.takesAnti, eraseO, h5]

/-- (4') … hence a concrete step taken in a state whose abstraction is REACHABLE leads to a state whose abstraction is reachable:
all theorems of `Props/C01Glue.lean` (agreement with the sequential execution below every lower bound of what is pending) apply
to it -/
theorem lp_step_keeps_reachable {look : Nat → Msg} {remote : Nat → Bool} {alloc : Nat → Nat} {s s' : St σ} {m f : Nat}
    {acts : List Action} {tw : TWState} (hreach : TW.Reachable M tw) (hR : RInv M ℓ ev look base s)
    (hpast : tw.past ℓ = absPast ev base s)
    (hen : Enabled M ℓ ev base s tw m (kindOf look s m f))
    (henv : kindOf look s m f = .exec → CmpOk look ev s.lp.hist m f ∧ CommitSafe ev base s.lp.hist m)
    (hs : step (M.handler ℓ) ev look remote alloc s m f = some (s', acts)) :
    ∃ tw', TW.Reachable M tw' ∧ tw'.past ℓ = absPast ev base s' ∧ (∀ j, j ≠ ℓ → tw'.past j = tw.past j) := by
  obtain ⟨tw', hstep, h1, h2, _⟩ := lp_step_refines_tw M ℓ hR hpast hen henv hs
  refine ⟨tw', ?_, h1, h2⟩
  rcases hstep with ⟨_, rfl⟩ | ⟨a, _, ha⟩
  · exact hreach
  · exact TW.Reachable.step hreach (TW.step?_sound ha)

/-! ### (5) checkpoints and fossil collection are invisible to the abstraction (stutter steps) -/

/-- a checkpoint changes neither the history nor the LP state: same abstraction, same invariants -/
theorem checkpoint_refines_stutter {look : Nat → Msg} {s : St σ} (hR : RInv M ℓ ev look base s) :
    absPast ev base { s with lp := checkpoint s.lp } = absPast ev base s ∧
    RInv M ℓ ev look base { s with lp := checkpoint s.lp } :=
  ⟨rfl, ⟨checkpoint_inv hR.wf.linv, ⟨hR.wf.sinv.sorted, hR.wf.sinv.bound_ok, hR.wf.sinv.last_past, hR.wf.sinv.wf⟩⟩, hR.oinv⟩

/-- fossil collection moves a prefix of the history to the committed part: the abstraction is unchanged, and the output invariant
continues to hold on top of the larger committed base when the kept checkpoint sits at a group boundary (checkpoints are taken
between two `process_msg` calls, i.e. right after a processed entry) -/
theorem fossil_refines_stutter {s : St σ} {t : Nat → Nat} {gvt ep : Nat} {o : FossilOut σ}
    (hL : LInv (M.handler ℓ) ev (M.init ℓ) base s.lp) (ho : fossil t s.lp gvt ep = some o) :
    absPast ev (base ++ pastMsgs o.dropped) { s with lp := o.lp } = absPast ev base s ∧
    LInv (M.handler ℓ) ev (M.init ℓ) (base ++ pastMsgs o.dropped) o.lp ∧
    (OInv (M.handler ℓ) ev (M.init ℓ) base s.lp → EndsPast o.dropped →
      OInv (M.handler ℓ) ev (M.init ℓ) (base ++ pastMsgs o.dropped) o.lp) := by
  obtain ⟨hh, _, _, _, hL'⟩ := fossil_inv hL t gvt ep ho
  refine ⟨?_, hL', ?_⟩
  · unfold absPast
    rw [hh, pastMsgs_append, List.append_assoc]
  · intro hO hE
    unfold OInv at hO ⊢
    rw [hh] at hO
    have := ((sentsOk_append _ _ hE _ _).mp hO).2
    rw [ite_self, ← replay_append] at this
    exact this

/-! ## Non-vacuity: the 10-entry history of `Props/C06LP.lean` (`C06LP.exS`), a straggler step and an anti step

Same state, handler, remote predicate and flag words as in `Props/C06LP.lean`. The message table is refined so that the sent entries
carry the handler's outputs (`OInv`): message 1 plays the role of the first entry (type 0: schedules nothing), 101 … 106 are the
outputs of 2, 3, 4, and 200, 201 the ordinals the allocator hands out in the straggler step. -/

open C06LP in
/-- contents: as `C06LP.exEv` on the processed messages; the sent ordinals carry the outputs of `C06LP.exH` -/
def exEv2 : Nat → Event := fun m =>
  if m = 1 then { dest := 0, t := 10, type := 0, payload := [] }
  else if m = 101 then { dest := 1, t := 25, type := 2, payload := [] }
  else if m = 102 then { dest := 7, t := 26, type := 2, payload := [] }
  else if m = 103 then { dest := 1, t := 35, type := 2, payload := [] }
  else if m = 104 then { dest := 7, t := 36, type := 2, payload := [] }
  else if m = 105 then { dest := 1, t := 45, type := 2, payload := [] }
  else if m = 106 then { dest := 7, t := 46, type := 2, payload := [] }
  else if m = 200 then { dest := 1, t := 40, type := 2, payload := [] }
  else if m = 201 then { dest := 7, t := 41, type := 2, payload := [] }
  else exEv m

/-- the snapshot of `C06LP.exLook` with the type field of the refined table -/
def exLook2 : Nat → Msg := fun m => { C06LP.exLook m with mType := (exEv2 m).type }

/-- the simulation model: every LP runs `C06LP.exH` from the empty state -/
def exM : SimModel (List Nat) := { nLps := 8, init := fun _ => [], handler := fun _ => C06LP.exH, canEnd := fun _ _ => false }

/-- a global abstract state whose LP 0 is the abstraction of `C06LP.exS`: the straggler 35 and an unrelated message are pending,
an anti-message for the content of message 2 exists -/
def exTw : TWState :=
  { past := fun j => if j = 0 then absPast exEv2 [] C06LP.exS else []
    pending := [exEv2 5, exEv2 35]
    antis := [exEv2 2] }

/-- the state satisfies the invariants of the simulation -/
theorem exS_rinv : RInv exM 0 exEv2 exLook2 [] C06LP.exS :=
  ⟨⟨⟨by decide, by decide, by decide⟩,
    ⟨by unfold Sorted; decide, by
       intro m hm; refine ⟨40, rfl, ?_⟩
       have : m = 1 ∨ m = 2 ∨ m = 3 ∨ m = 4 := by simpa [C06LP.exS, pastMsgs] using hm
       rcases this with h | h | h | h <;> subst h <;> decide,
     by intro e he; simp [C06LP.exS] at he; subst he; rfl,
     by intro m _; unfold Msg.WF exLook2 C06LP.exLook; simp⟩⟩,
   ⟨rfl, rfl, rfl, rfl, trivial⟩⟩

example : exTw.past 0 = absPast exEv2 [] C06LP.exS := rfl

/-! ### the straggler 35 (time 35, flag word 0) -/

example : kindOf exLook2 C06LP.exS 35 0 = .exec := by decide

/-- `CmpOk` through its sufficient condition: the snapshot shows the recorded contents, no ANTI bit in the history -/
theorem ex_cmpOk : CmpOk exLook2 exEv2 C06LP.exS.lp.hist 35 0 := by
  refine cmpOk_of_content rfl (by decide) ?_
  intro x hx
  have : x = 1 ∨ x = 2 ∨ x = 3 ∨ x = 4 := by simpa [C06LP.exS, pastMsgs] using hx
  rcases this with h | h | h | h <;> subst h <;> decide

theorem ex_commitSafe : CommitSafe exEv2 [] C06LP.exS.lp.hist 35 :=
  ⟨by decide, by intro b hb; simp at hb, by intro _ p hp; cases hp; decide⟩

example : Enabled exM 0 exEv2 [] C06LP.exS exTw 35 .exec := by unfold Enabled; decide

/-- the allocator hypothesis of `step_preserves_rinv` -/
example : ∀ oe ∈ sends ((step C06LP.exH exEv2 exLook2 C06LP.exRemote (fun k => 200 + k) C06LP.exS 35 0).map (·.2)).get!,
    exEv2 oe.1 = oe.2 := by decide

/-- what a concrete result looks like through the abstraction, given the bags before the step and what the action consumes -/
def absView (ev : Nat → Event) (tw : TWState) (cp ca : Option Event) (r : Option (St (List Nat) × List Action)) :=
  r.map (fun x => (absPast ev [] x.1, eraseO tw.pending cp ++ requeued ev x.2 ++ sentEvents x.2,
                   eraseO tw.antis ca ++ cancelled ev x.2))

def twView (t : Option TWState) := t.map (fun t => (t.past 0, t.pending, t.antis))

/-- **the straggler step and `TW.exec?` agree**: message 4 is undone and re-queued, its outputs 105, 106 get anti-messages, 35 is
processed after 3 and schedules two events -/
example : absView exEv2 exTw (some (exEv2 35)) none
      (step C06LP.exH exEv2 exLook2 C06LP.exRemote (fun k => 200 + k) C06LP.exS 35 0) =
    twView (TW.exec? exM exTw 0 (exEv2 35)) := by decide

example : twView (TW.exec? exM exTw 0 (exEv2 35)) =
    some ([exEv2 1, exEv2 2, exEv2 3, exEv2 35],
          [exEv2 5, exEv2 4, exEv2 200, exEv2 201],
          [exEv2 2, exEv2 105, exEv2 106]) := by decide

/-- the hypotheses of `lp_step_refines_tw` are jointly satisfiable: the theorem applied to the straggler step -/
example : (step C06LP.exH exEv2 exLook2 C06LP.exRemote (fun k => 200 + k) C06LP.exS 35 0).isSome = true ∧
    ∀ s' acts, step C06LP.exH exEv2 exLook2 C06LP.exRemote (fun k => 200 + k) C06LP.exS 35 0 = some (s', acts) →
      ∃ tw', TW.step? exM exTw (.exec 0 (exEv2 35)) = some tw' ∧ tw'.past 0 = absPast exEv2 [] s' ∧
        tw'.pending = exTw.pending.erase (exEv2 35) ++ requeued exEv2 acts ++ sentEvents acts ∧
        tw'.antis = exTw.antis ++ cancelled exEv2 acts := by
  refine ⟨by decide, ?_⟩
  intro s' acts hs
  have hk : kindOf exLook2 C06LP.exS 35 0 = .exec := by decide
  obtain ⟨tw', hstep, h1, _, h3, h4⟩ := lp_step_refines_tw exM 0 (tw := exTw) exS_rinv rfl
    (by rw [hk]; unfold Enabled; decide) (fun _ => ⟨ex_cmpOk, ex_commitSafe⟩) hs
  rw [hk] at hstep h3 h4
  rcases hstep with ⟨h0, _⟩ | ⟨a, ha, hst⟩
  · cases h0
  · cases ha
    exact ⟨tw', hst, h1, h3, h4⟩

/-! ### the local anti-message of message 2 (flag word 3) -/

example : kindOf exLook2 C06LP.exS 2 3 = .antiRollback 2 := by decide
example : Enabled exM 0 exEv2 [] C06LP.exS exTw 2 (.antiRollback 2) := by unfold Enabled; decide

/-- **the anti step and `TW.antiRollback?` (position 1 of the abstract history) agree**: 2, 3, 4 are undone, 3 and 4 re-queued,
2 is not; 101 … 106 get anti-messages; the anti-message for 2 is consumed -/
example : absView exEv2 exTw none (some (exEv2 2))
      (step C06LP.exH exEv2 exLook2 C06LP.exRemote (fun k => 200 + k) C06LP.exS 2 3) =
    twView (TW.antiRollback? exM exTw 0 1) := by decide

example : twView (TW.antiRollback? exM exTw 0 1) =
    some ([exEv2 1],
          [exEv2 5, exEv2 35, exEv2 3, exEv2 4],
          [exEv2 101, exEv2 102, exEv2 103, exEv2 104, exEv2 105, exEv2 106]) := by decide

/-- the remote anti-message 50 (flag word 41) for the processed remote event 3 is an `antiRollback` of 3 -/
example : kindOf exLook2 C06LP.exS 50 41 = .antiRollback 3 := by decide
/-- … 91, whose event has not arrived, is parked; the remote event 70 meets its parked anti-message; `f = 1` annihilates -/
example : kindOf exLook2 C06LP.exS 91 91 = .park ∧ kindOf exLook2 C06LP.exS 70 80 = .annihilate ∧
    kindOf exLook2 C06LP.exS 90 1 = .annihilate := by decide

/-! ## `CmpOk` cannot be dropped: an ANTI bit already set on a processed message changes the straggler test

`msg_is_before` reads the ANTI bit of the messages in the history (`src/lp/msg.h`), and the sender of a local message sets that bit
concurrently (`send_anti_messages`: `fetch_add(&msg->flags, MSG_FLAG_ANTI)`), before the receiver dequeues the flagged message.
In between, a message with the SAME time stamp that is before the flagged one by content is NOT recognised as a straggler: the
concrete LP processes it after the flagged message, the abstract `exec` undoes the flagged message first. (Harmless for the final
result — the pending anti-message rolls both back — but the step is not an `exec` of the content-rule machines
`Model/TimeWarp.lean` / `Model/TimeWarpG.lean`. It IS an `exec` of the machine with the code's straggler rule, `Model/TimeWarpD.lean`,
for which the end-to-end theorems are proved in `Props/C01GlueD.lean`; `Driver/Run.lean`'s shadow steps that machine with the split
point the code used.) -/

def cxEv : Nat → Event := fun m =>
  if m = 9 then { dest := 0, t := 20, type := 2, payload := [] } else { dest := 0, t := 10 * m, type := 1, payload := [] }
/-- message 2 (time 20, type 1) is processed and already flagged ANTI by its sender (flag word 3) -/
def cxLook : Nat → Msg := fun m =>
  { destT := (cxEv m).t, rawFlags := if m = 2 then 3 else 2, mType := (cxEv m).type, plSize := 0, pl := [] }
def cxS : St (List Nat) := { lp := { hist := [.past 1, .past 2], logs := [(0, [])], st := [10, 20], bound := some 20 } }
def cxM : SimModel (List Nat) := { nLps := 1, init := fun _ => [], handler := fun _ => C05LP.exH, canEnd := fun _ _ => false }
def cxTw : TWState :=
  { past := fun j => if j = 0 then absPast cxEv [] cxS else [], pending := [cxEv 9], antis := [cxEv 2] }

theorem cx_rinv : RInv cxM 0 cxEv cxLook [] cxS :=
  ⟨⟨⟨by decide, by decide, by decide⟩,
    ⟨by unfold Sorted; decide, by
       intro m hm; refine ⟨20, rfl, ?_⟩
       have : m = 1 ∨ m = 2 := by simpa [cxS, pastMsgs] using hm
       rcases this with h | h <;> subst h <;> decide,
     by intro e he; simp [cxS] at he; subst he; rfl,
     by intro m _; unfold Msg.WF cxLook; simp⟩⟩,
   ⟨rfl, rfl, trivial⟩⟩

/-- message 9 (time 20, type 2: before message 2 by content) is dequeued: every hypothesis of `lp_step_refines_tw` except `CmpOk`
holds, and the concrete step keeps message 2 (`[1, 2, 9]`) where the abstract `exec` undoes it (`[1, 9]`) -/
theorem cmpOk_is_needed :
    kindOf cxLook cxS 9 0 = .exec ∧ CommitSafe cxEv [] cxS.lp.hist 9 ∧
    (cxEv 9 ∈ cxTw.pending ∧ (cxEv 9).dest = 0 ∧ 0 < cxM.nLps ∧ (cxEv 9).type < LP_INIT) ∧
    ¬ CmpOk cxLook cxEv cxS.lp.hist 9 0 ∧
    (step C05LP.exH cxEv cxLook (fun _ => false) (fun k => 100 + k) cxS 9 0).map (fun r => absPast cxEv [] r.1) =
      some [cxEv 1, cxEv 2, cxEv 9] ∧
    (TW.exec? cxM cxTw 0 (cxEv 9)).map (fun t => t.past 0) = some [cxEv 1, cxEv 9] := by
  refine ⟨by decide, ⟨by decide, by intro b hb; simp at hb, by intro _ p hp; cases hp; decide⟩, by decide, ?_, by decide,
    by decide⟩
  intro hc
  have := hc 2 (by decide)
  revert this
  decide

end RootSim.C01Refine
