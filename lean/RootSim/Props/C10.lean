import RootSim.Proofs.Serial
import RootSim.Proofs.Ref
/-!
# C10 — the serial runtime implements the reference semantics

Model: `serialRun` (`Model/Serial.lean`, `src/serial/serial.c` step by step on the verbatim heap of
`Model/Heap.lean`), reference semantics `IsSpecRun` / `Step` / `MainRun` and the sorted-list executor `refRun`
(`Model/SeqSpec.lean`).  Hypothesis everywhere: `M.Valid` — every handler call the reference semantics can
reach satisfies the contract `validStep` (V2, V3, V4).

* `serial_refines_spec`  — for every valid model, every termination time, every timer oracle, every step
  budget: `serialRun` is a run of the reference semantics (in particular never ends in an error outcome).
* `root_stable`          — `heap_min` stays the root while the handler inserts, and `heap_extract` returns
  exactly the dispatched message (V2 + C16).
* `specRun_sorted`, `specRun_exactly_once` — what being a run of the reference semantics implies.
* `ref_refines_spec`     — the same for the independent sorted-list executor.
* `spec_deterministic`   — any two runs of the reference semantics agree, for every LP, on the sequence of
  events dispatched at that LP (one is a prefix of the other) and on the LP state when these are equal;
  the global sequences of contents `(t, type, payload)` are prefix-comparable too.
* `serial_eq_ref`        — hence `serialRun` and `refRun` agree per LP and on the global content sequence.

**The destination LP is not part of the content the event order compares**, so two equal-content events for
different LPs may be dispatched in either order: the global sequences of `(lp, t, type, payload)` of `serialRun`
and `refRun` are in general NOT equal (`serial_ref_global_order_differs`), and because the stop rule
("all LPs have signalled `CanEnd`") is evaluated after each dispatch, two runs may even stop at different
points within a group of equal-content events.  Per LP nothing differs, which is what `spec_deterministic`
states.
-/
namespace RootSim.C10
open RootSim RootSim.Heap RootSim.C15.Heap

variable {σ : Type} {M : SimModel σ}

/-- a model whose handler meets the contract on *every* input is valid -/
theorem valid_of_forall (h : ∀ lp s e, M.validStep lp s e) : M.Valid :=
  ⟨fun lp _ => h lp _ _, fun _ _ e s _ _ => h e.dest s e⟩

/-! ## The serial runtime is a run of the reference semantics -/

/-- **C10, refinement.**  For every valid model, `serialRun` — `LP_INIT` for every LP in LP order, then
repeatedly dispatch `heap_min` / bookkeeping / `heap_extract`, then `LP_FINI` for every LP — is a run of the
textbook event-list semantics: each dispatched event is `before`-minimal among the pending ones, the pending
multiset evolves by removing the dispatched event and adding what the handler scheduled, and the run stops
exactly by the stop rule (all LPs ended / timer fired at `t ≥ termination_time` / nothing pending).
The outcome is `finished` or `outOfFuel`, never `wrongExtract`/`badDest`/`emptyExtract`. -/
theorem serial_refines_spec (hv : M.Valid) (termT : Nat) (timer : Nat → Bool) (fuel : Nat) :
    IsSpecRun M termT timer (serialRun M termT timer fuel) :=
  serialRun_isSpecRun hv termT timer fuel

theorem serial_no_error (hv : M.Valid) (termT : Nat) (timer : Nat → Bool) (fuel : Nat) :
    (serialRun M termT timer fuel).outcome = .finished ∨ (serialRun M termT timer fuel).outcome = .outOfFuel := by
  obtain ⟨_, _, h | h⟩ := serial_refines_spec hv termT timer fuel
  · exact .inl h.1
  · exact .inr h.1

/-- **`heap_min` stays the root while the handler inserts** and `heap_extract` then removes exactly the
dispatched message: for a queue that is a heap of packed messages with root `msg`, after
`ScheduleNewEvent_serial` of any events that are not before `msg` (contract V2; C16 makes "not before" a
property of contents), `heap_extract` returns `msg` itself. -/
theorem root_stable {q : Array Msg} {msg : Msg} (k : Nat) (outs : List Event)
    (hh : IsHeap isBefore q) (hp : AllP Msg.Packed q) (h : heapMin q = some msg)
    (hv2 : ∀ o ∈ outs, Event.before o msg.toEvent = false) :
    heapMin (scheduleAll q k outs).1 = some msg ∧
    ∃ q2, heapExtract isBefore (scheduleAll q k outs).1 = some (msg, q2) ∧ IsHeap isBefore q2 ∧
      (pendOf q2).Perm ((pendOf q).erase msg.toEvent ++ outs) := by
  obtain ⟨q2, h1, h2, _, h4⟩ := dispatch_extract k outs hh hp h hv2
  exact ⟨extract_eq_root _ _ _ _ h1, q2, h1, h2, h4⟩

/-! ## What every run of the reference semantics satisfies -/

/-- the main part of a run (between the `LP_INIT`s and the `LP_FINI`s) -/
theorem specRun_main {termT : Nat} {timer : Nat → Bool} {r : RunResult σ} (h : IsSpecRun M termT timer r) :
    ∃ main c fin, MainRun M termT timer 0 (initCfg M) main c fin ∧
      r.trace = initTrace M ++ main ++ (if fin then finiTrace M else []) ∧
      r.states = (if fin then finiStates M c.st else c.st) ∧
      (r.outcome = if fin then .finished else .outOfFuel) := by
  obtain ⟨main, c, h | h⟩ := h
  · exact ⟨main, c, true, h.2.1, by simp [h.2.2.1], by simp [h.2.2.2], by simp [h.1]⟩
  · exact ⟨main, c, false, h.2.1, by simp [h.2.2.1], by simp [h.2.2.2], by simp [h.1]⟩

/-- **timestamp order with the content tie-break**: no dispatched event is before an earlier dispatched one -/
theorem specRun_sorted (hv : M.Valid) {termT : Nat} {timer : Nat → Bool} {k : Nat} {c : Cfg σ} {main : List Event}
    {fin : Bool} (h : MainRun M termT timer k (initCfg M) main c fin) :
    main.Pairwise (fun a b => Event.before b a = false) :=
  (steps_sorted h.steps (hv.goodFrom (.init rfl rfl (.refl _)))).1

/-- **exactly once**: the events scheduled at init plus the events scheduled by the dispatched events are, as
a multiset, the dispatched events plus the events still pending at the stop point -/
theorem specRun_exactly_once {termT : Nat} {timer : Nat → Bool} {k : Nat} {c : Cfg σ} {main : List Event}
    {fin : Bool} (h : MainRun M termT timer k (initCfg M) main c fin) :
    ((initCfg M).pend ++ (replay M (initCfg M).st main).2).Perm (main ++ c.pend) ∧
    c.st = (replay M (initCfg M).st main).1 :=
  ⟨(steps_accounting h.steps).2, (steps_accounting h.steps).1⟩

/-! ## The independent executor -/

/-- the sorted-list executor `refRun` is a run of the reference semantics as well -/
theorem ref_refines_spec (hv : M.Valid) (termT : Nat) (timer : Nat → Bool) (fuel : Nat) :
    IsSpecRun M termT timer (refRun M termT timer fuel) :=
  refRun_isSpecRun hv termT timer fuel

/-! ## Determinism of the reference semantics -/

/-- **C10, determinism.**  Any two runs of the reference semantics of a valid model (any choices among minimal
events, any lengths): for every LP the sequences of events dispatched at that LP are prefix-comparable —
the `n`-th event an LP processes is the same in every run that gets that far — and when they are equal the LP
states are equal; moreover the global sequences of dispatched contents are prefix-comparable. -/
theorem spec_deterministic (hv : M.Valid) {A B : List Event} {cA cB : Cfg σ}
    (hA : Steps M (initCfg M) A cA) (hB : Steps M (initCfg M) B cB) :
    (∀ lp, Comparable (perLp lp A) (perLp lp B) ∧ (perLp lp A = perLp lp B → cA.st[lp]? = cB.st[lp]?)) ∧
    Comparable (A.map Event.content) (B.map Event.content) := by
  have hg : GoodFrom M (initCfg M) := hv.goodFrom (.init rfl rfl (.refl _))
  refine ⟨fun lp => ⟨steps_confluent _ A B _ cA cB (Nat.le_refl _) hg hA hB lp, ?_⟩,
    steps_confluent_content _ A B _ cA cB (Nat.le_refl _) hg hA hB⟩
  intro heq
  cases hs : (initCfg M).st[lp]? with
  | none =>
    have hlen := List.getElem?_eq_none_iff.1 hs
    rw [List.getElem?_eq_none (by rw [steps_length hA]; exact hlen),
      List.getElem?_eq_none (by rw [steps_length hB]; exact hlen)]
  | some s => rw [steps_state hA lp s hs, steps_state hB lp s hs, heq]

/-- the state of an LP is the fold of the handler over the events it has processed -/
theorem spec_state (_hv : M.Valid) {A : List Event} {cA : Cfg σ} (hA : Steps M (initCfg M) A cA) (lp : Nat) (s : σ)
    (hs : (initCfg M).st[lp]? = some s) : cA.st[lp]? = some (runLp M lp s (perLp lp A)) :=
  steps_state hA lp s hs

/-- determinism for complete results: two (prefixes of) runs, with any timer oracles and termination times -/
theorem specRuns_deterministic (hv : M.Valid) {t1 t2 : Nat} {tm1 tm2 : Nat → Bool} {r1 r2 : RunResult σ}
    (h1 : IsSpecRun M t1 tm1 r1) (h2 : IsSpecRun M t2 tm2 r2) :
    ∃ (m1 m2 : List Event) (c1 c2 : Cfg σ) (f1 f2 : Bool),
      r1.trace = initTrace M ++ m1 ++ (if f1 then finiTrace M else []) ∧
      r2.trace = initTrace M ++ m2 ++ (if f2 then finiTrace M else []) ∧
      r1.states = (if f1 then finiStates M c1.st else c1.st) ∧
      r2.states = (if f2 then finiStates M c2.st else c2.st) ∧
      (∀ lp, Comparable (perLp lp m1) (perLp lp m2) ∧ (perLp lp m1 = perLp lp m2 → c1.st[lp]? = c2.st[lp]?)) ∧
      Comparable (m1.map Event.content) (m2.map Event.content) := by
  obtain ⟨m1, c1, f1, hm1, e1, s1, _⟩ := specRun_main h1
  obtain ⟨m2, c2, f2, hm2, e2, s2, _⟩ := specRun_main h2
  obtain ⟨d1, d2⟩ := spec_deterministic hv hm1.steps hm2.steps
  exact ⟨m1, m2, c1, c2, f1, f2, e1, e2, s1, s2, d1, d2⟩

/-- **C10, equality with the independent executor.**  For every valid model the dispatch sequences of the
serial runtime and of the sorted-list executor (any budgets, even different timer oracles) are
`init ++ main ++ fini` with: per LP, `main` of one is a prefix of `main` of the other (same events in the
same order at every LP) with equal LP states when equal; and the global sequences of contents
`(t, type, payload)` agree on the common length. -/
theorem serial_eq_ref (hv : M.Valid) (termT : Nat) (timer timer' : Nat → Bool) (fuel fuel' : Nat) :
    ∃ (mS mR : List Event) (cS cR : Cfg σ) (fS fR : Bool),
      (serialRun M termT timer fuel).trace = initTrace M ++ mS ++ (if fS then finiTrace M else []) ∧
      (refRun M termT timer' fuel').trace = initTrace M ++ mR ++ (if fR then finiTrace M else []) ∧
      (serialRun M termT timer fuel).states = (if fS then finiStates M cS.st else cS.st) ∧
      (refRun M termT timer' fuel').states = (if fR then finiStates M cR.st else cR.st) ∧
      (∀ lp, Comparable (perLp lp mS) (perLp lp mR) ∧ (perLp lp mS = perLp lp mR → cS.st[lp]? = cR.st[lp]?)) ∧
      Comparable (mS.map Event.content) (mR.map Event.content) :=
  specRuns_deterministic hv (serial_refines_spec hv termT timer fuel) (ref_refines_spec hv termT timer' fuel')

/-- **exact equality for models without cross-LP ties.**  If no two distinct events are ever simultaneously
minimal (`UniqueMin`; e.g. every single-LP model, `uniqueMin_of_single_lp`), complete runs of the serial
runtime and of the sorted-list executor with the same timer oracle dispatch literally the same sequence
`(lp, t, type, payload)` and end in the same LP states. -/
theorem serial_eq_ref_exact (hv : M.Valid) (hu : UniqueMin M) (termT : Nat) (timer : Nat → Bool) (fuel fuel' : Nat)
    (h1 : (serialRun M termT timer fuel).outcome = .finished)
    (h2 : (refRun M termT timer fuel').outcome = .finished) :
    (serialRun M termT timer fuel).trace = (refRun M termT timer fuel').trace ∧
    (serialRun M termT timer fuel).states = (refRun M termT timer fuel').states := by
  obtain ⟨mS, cS, hS | hS⟩ := serial_refines_spec hv termT timer fuel
  · obtain ⟨mR, cR, hR | hR⟩ := ref_refines_spec hv termT timer fuel'
    · obtain ⟨e1, e2⟩ := mainRun_unique hu hS.2.1 hR.2.1 (Cfg.Equiv.refl _) (.init rfl rfl (.refl _))
      exact ⟨by rw [hS.2.2.1, hR.2.2.1, e1], by rw [hS.2.2.2, hR.2.2.2, e2]⟩
    · rw [hR.1] at h2; exact absurd h2 (by simp)
  · rw [hS.1] at h1; exact absurd h1 (by simp)

/-- The statement "the dispatch sequences `(lp, t, type, payload)` of the serial runtime and of the textbook
executor are equal" for ALL valid models — as literally worded in the property — is FALSE: see
`serial_eq_ref_globalStatement_false` below.  What holds in general is `serial_eq_ref`; what holds for models
without cross-LP ties is `serial_eq_ref_exact`. -/
def serial_eq_ref_globalStatement : Prop :=
  ∀ (M : SimModel Nat), M.Valid → ∀ (termT : Nat) (timer : Nat → Bool) (fuel : Nat),
    (serialRun M termT timer fuel).trace = (refRun M termT timer fuel).trace

/-! ## Non-vacuity and self-test: a 2-LP ping-pong model with ties, zero-delay events and events at init -/
section Examples

/-- LP state = number of processed events.  `LP_INIT` schedules three equal-content events (two of them for
different LPs: a cross-LP tie); a type-1 event bounces to the other LP one tick later and schedules a
zero-delay event (same `t`, lower priority type 0) to itself. -/
def pingPong : SimModel Nat where
  nLps := 2
  init := fun _ => 0
  handler := fun me s e =>
    if e.type = LP_INIT then
      (0, [⟨1 - me % 2, e.t + 1, 1, [7]⟩, ⟨0, e.t + 1, 1, [7]⟩, ⟨1, e.t + 1, 1, [7]⟩])
    else if e.type = LP_FINI then (s + 1000, [])
    else if e.type = 1 then
      (s + 1, if s < 4 then [⟨1 - me % 2, e.t + 1, 1, e.payload⟩, ⟨me % 2, e.t, 0, [1, 2, 3]⟩] else [])
    else (s + 1, [])
  canEnd := fun _ s => s ≥ 6

theorem pingPong_valid : pingPong.Valid := by
  apply valid_of_forall
  intro lp s e o ho
  simp only [pingPong] at ho
  split at ho
  · simp only [List.mem_cons, List.not_mem_nil, or_false] at ho
    rcases ho with rfl | rfl | rfl <;>
      refine ⟨?_, by simp [pingPong]; try omega, by simp [LP_INIT]⟩ <;>
      simp [Event.before, isBefore, Event.toMsg] <;> omega
  · split at ho
    · simp at ho
    · split at ho
      · rename_i h1
        split at ho
        · simp only [List.mem_cons, List.not_mem_nil, or_false] at ho
          rcases ho with rfl | rfl
          · refine ⟨?_, by simp [pingPong]; omega, by simp [LP_INIT]⟩
            simp [Event.before, isBefore, Event.toMsg]
            exact decide_eq_false (by omega)
          · refine ⟨?_, by simp [pingPong]; omega, by simp [LP_INIT]⟩
            simp [Event.before, isBefore, isBeforeExt, Event.toMsg, Msg.anti, h1]
        · simp at ho
      · simp at ho

def noTimer : Nat → Bool := fun _ => false
def everyOther : Nat → Bool := fun k => k % 2 == 1

/-- both executors run to completion; 2 `LP_INIT` + 12 events + 2 `LP_FINI` -/
example : (serialRun pingPong 1000 noTimer 100).outcome = .finished ∧
    (serialRun pingPong 1000 noTimer 100).trace.length = 16 ∧
    (refRun pingPong 1000 noTimer 100).trace.length = 16 ∧
    (serialRun pingPong 1000 noTimer 100).states = [1006, 1006] ∧
    (refRun pingPong 1000 noTimer 100).states = [1006, 1006] := by decide +kernel

/-- per LP the two executors dispatch the same events in the same order … -/
example : ∀ lp < 2, perLp lp (serialRun pingPong 1000 noTimer 100).trace = perLp lp (refRun pingPong 1000 noTimer 100).trace := by
  decide +kernel

/-- … and the same global sequence of contents … -/
example : (serialRun pingPong 1000 noTimer 100).trace.map Event.content =
    (refRun pingPong 1000 noTimer 100).trace.map Event.content := by decide +kernel

/-- … **but not the same global sequence of `(lp, t, type, payload)`**: the heap and the stable sorted list
order equal-content events for different LPs differently (the destination is not part of the tie-break). -/
theorem serial_ref_global_order_differs :
    pingPong.Valid ∧ (serialRun pingPong 1000 noTimer 100).trace ≠ (refRun pingPong 1000 noTimer 100).trace :=
  ⟨pingPong_valid, by decide +kernel⟩

theorem serial_eq_ref_globalStatement_false : ¬ serial_eq_ref_globalStatement :=
  fun h => serial_ref_global_order_differs.2 (h pingPong pingPong_valid 1000 noTimer 100)

/-- timer oracle and termination time: the run stops at the first timer tick at or after `t = 2` -/
example : (serialRun pingPong 2 everyOther 100).outcome = .finished ∧
    (serialRun pingPong 2 everyOther 100).trace.length = (refRun pingPong 2 everyOther 100).trace.length := by
  decide +kernel

/-- out of fuel = a prefix -/
example : (serialRun pingPong 1000 noTimer 5).outcome = .outOfFuel ∧
    (serialRun pingPong 1000 noTimer 5).trace.length = 7 := by decide +kernel

/-- a model violating V2 (a zero-delay event that is BEFORE the event scheduling it: same time, higher type):
the serial runtime extracts (and frees) the wrong message — explicit error outcome, not a silent default -/
def badModel : SimModel Nat where
  nLps := 1
  init := fun _ => 0
  handler := fun _ s e =>
    if e.type = LP_INIT then (0, [⟨0, 1, 1, []⟩])
    else if e.type = 1 ∧ s = 0 then (1, [⟨0, e.t, 2, []⟩])
    else (s + 1, [])
  canEnd := fun _ _ => false

example : (serialRun badModel 1000 noTimer 10).outcome = .wrongExtract 1 2 := by decide +kernel

/-- a single-LP model (ties and zero-delay events included) satisfies `UniqueMin`: `serial_eq_ref_exact` applies -/
def soloModel : SimModel Nat where
  nLps := 1
  init := fun _ => 0
  handler := fun _ s e =>
    if e.type = LP_INIT then (0, [⟨0, e.t + 1, 1, [7]⟩, ⟨0, e.t + 1, 1, [7]⟩, ⟨0, e.t + 1, 2, []⟩])
    else if e.type = 2 ∧ s < 9 then (s + 1, [⟨0, e.t, 1, [s]⟩, ⟨0, e.t + 2, 2, []⟩])
    else (s + 1, [])
  canEnd := fun _ s => s ≥ 12

theorem soloModel_valid : soloModel.Valid := by
  apply valid_of_forall
  intro lp s e o ho
  simp only [soloModel] at ho
  split at ho
  · simp only [List.mem_cons, List.not_mem_nil, or_false] at ho
    rcases ho with rfl | rfl | rfl <;>
      refine ⟨?_, by simp [soloModel], by simp [LP_INIT]⟩ <;>
      simp [Event.before, isBefore, Event.toMsg] <;> exact decide_eq_false (by omega)
  · split at ho
    · rename_i h2
      simp only [List.mem_cons, List.not_mem_nil, or_false] at ho
      rcases ho with rfl | rfl
      · refine ⟨?_, by simp [soloModel], by simp [LP_INIT]⟩
        simp [Event.before, isBefore, isBeforeExt, Event.toMsg, Msg.anti, h2.1]
      · refine ⟨?_, by simp [soloModel], by simp [LP_INIT]⟩
        simp [Event.before, isBefore, Event.toMsg]; exact decide_eq_false (by omega)
    · simp at ho

example : UniqueMin soloModel := uniqueMin_of_single_lp soloModel_valid rfl
example : (serialRun soloModel 1000 noTimer 100).outcome = .finished ∧
    (refRun soloModel 1000 noTimer 100).outcome = .finished ∧
    (serialRun soloModel 1000 noTimer 100).trace.length = 13 := by decide +kernel

end Examples

end RootSim.C10
