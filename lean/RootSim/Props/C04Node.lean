import RootSim.Proofs.GvtNodeClean2
/-!
# C04, node level: the message-counting core of `gvt_node_phase_run` (any K nodes, any N threads)

Model: `RootSim/Model/GvtNode.lean`. `old` is the colour every thread has when the round starts.
`Reach old s`: `s` is reachable by some interleaving from some state satisfying `RoundStart old`
(all threads in `node_phase_redux_first` with colour `old`, node counters clear, `N > 0` threads on every node,
old-colour messages possibly already in flight / received but consistently counted).
Assumed (see the model header): no 32-bit wrap-around; `report` atomic; the reduce-scatter delivers
`Σ_j total_sent_j[k]` to node `k` once every node has contributed.
-/
namespace RootSim.C04.Node
open RootSim.GvtNode

/-- reachable inside the round whose old colour is `old` -/
def Reach (old : Bool) (s : St) : Prop := ∃ s0 as, RoundStart old s0 ∧ run s0 as = some s

theorem reach_inv {old : Bool} {s : St} (h : Reach old s) : Inv old s := by
  obtain ⟨s0, as, h0, hr⟩ := h
  exact inv_run old as s0 s (inv_of_roundStart old s0 h0) hr

/-- counting invariant, receive side: `total_msg_received` = (threads of `k` that executed
`node_sent_reduce`) + (old-colour messages received at `k` and already polled)
− (`remote_msg_to_receive + n_threads` once subtracted) -/
theorem counting_received (old : Bool) (s : St) (hr : Reach old s) (k : Nat) (nd : Node)
    (hk : s.nodes[k]? = some nd) :
    nd.cc = nReported s k ∧
    nd.totalRecv = (nReported s k : Int) + nd.polled
      - (if nd.subtracted then ((nd.toReceive.getD 0 : Nat) : Int) + s.N else 0) ∧
    (nd.subtracted = true → nd.toReceive = some (scatter s k) ∧ scatter s k = reportedTo s k) := by
  have I := (reach_inv hr).node k nd hk
  refine ⟨I.cc_eq, by rw [← I.cc_eq]; exact I.recv_eq, fun h => ?_⟩
  exact ⟨(I.sub h).2, scatter_eq_reportedTo s (I.sub h).1 k⟩

/-- counting invariant, send side: (old-colour sends to `k` already added to some `total_sent`, as
deposited in the collective) + (not yet reported) = (polled at `k`) + (received at `k`, not yet polled)
+ (in flight to `k`) -/
theorem counting_sent (old : Bool) (s : St) (hr : Reach old s) (k : Nat) (nd : Node)
    (hk : s.nodes[k]? = some nd) :
    reportedTo s k + unreportedTo old s k = nd.polled + unpolledAt old s k + flightTo old s k :=
  ((reach_inv hr).node k nd hk).balance

/-- `no_premature_pass`: as long as the `fetch_sub` of `node_sent_reduce_wait` has not been executed at
node `k` (`subtracted = false`), a thread of `k` in `node_sent_wait` reads a value `≥ 1`, so `poll`
leaves it in `node_sent_wait`. -/
theorem no_premature_pass (old : Bool) (s s' : St) (hr : Reach old s) (t : Nat) (th : Thr) (nd : Node)
    (ht : s.thr[t]? = some th) (hnd : s.nodes[th.node]? = some nd) (hsub : nd.subtracted = false)
    (hp : poll s t = some s') :
    1 ≤ nd.totalRecv ∧ ∃ th', s'.thr[t]? = some th' ∧ th'.stage = .wait := by
  obtain ⟨th0, nd0, th', h1, h2, h3, h4, _, _, h7⟩ := poll_spec s s' t hp
  rw [ht] at h1; cases h1
  rw [hnd] at h2; cases h2
  have := recv_pos_of_not_subtracted old s (reach_inv hr) t th nd ht hnd (by simp [h3, Stage.reported]) hsub
  exact ⟨this, th', h4, h7.2 (by omega)⟩

/-- `old_colour_drained`: if `poll` lets thread `t` (of node `k`) pass — it read `0` and moved to
`node_phase_redux_second` — then the collective had been consumed at `k`, every thread of every node
has reported (hence flipped: it no longer stamps the old colour), no old-colour message to `k` is in
flight or waiting to be polled, and this stays so in every continuation of the run. -/
theorem old_colour_drained (old : Bool) (s s' : St) (hr : Reach old s) (t : Nat) (th' : Thr)
    (hp : poll s t = some s') (ht' : s'.thr[t]? = some th') (hpass : th'.stage = .redux2) :
    (∀ th ∈ s'.thr, th.stage ≠ .redux1 ∧ th.colour = !old) ∧
    flightTo old s' th'.node = 0 ∧ unpolledAt old s th'.node = 0 ∧ unreportedTo old s th'.node = 0 ∧
    (∀ nd, s.nodes[th'.node]? = some nd → nd.subtracted = true) ∧
    ∀ as s'', run s' as = some s'' →
      flightTo old s'' th'.node = 0 ∧ ∀ th ∈ s''.thr, th.stage ≠ .redux1 ∧ th.colour = !old := by
  obtain ⟨th, nd, th1, h1, h2, h3, h4, h5, h6, _⟩ := poll_spec s s' t hp
  rw [ht'] at h4; cases h4
  have hinv := reach_inv hr
  obtain ⟨d1, d2, d3, d4, d5⟩ := drained_of_zero old s hinv t th nd h1 h2 (by simp [h3, Stage.reported])
    (h6.1 hpass)
  have hq : Quiet old s th.node := ⟨allFlipped_of_reported old s hinv d2, d5⟩
  have hq' : Quiet old s' th.node := quiet_step old s s' _ (.poll t) hq hp
  rw [h5]
  refine ⟨hq'.1, hq'.2, d4, d3, ?_, ?_⟩
  · intro nd1 hnd1; rw [h2] at hnd1; cases hnd1; exact d1
  · intro as s'' hrun
    have := quiet_run old _ as s' s'' hq' hrun
    exact ⟨this.2, this.1⟩

/-- `counters_reset`: once every thread of node `k` has passed `node_sent_wait` (and executed its
`memset` slice), `total_msg_received` is `0` and `total_sent[·]` is all zero again, i.e. the two counters
that the next round accumulates into are back to their initial values. (`c_c` is reset later, in
`node_min_reduce_wait`, outside this model; `remote_msg_to_receive` is overwritten by the next collective.) -/
theorem counters_reset (old : Bool) (s : St) (hr : Reach old s) (k : Nat) (nd : Node)
    (hk : s.nodes[k]? = some nd) (hall : ∀ th ∈ s.thr, th.node = k → th.stage = .redux2) :
    nd.totalRecv = 0 ∧ nd.totalSent = [] := by
  obtain ⟨s0, as, h0, hrun⟩ := hr
  exact reset_of_full old s (full_run old as s0 s (full_of_roundStart old s0 h0) hrun) k nd hk hall

/-- a thread that passed keeps seeing `total_msg_received == 0` on its node for the rest of the round -/
theorem passed_zero (old : Bool) (s : St) (hr : Reach old s) (t : Nat) (th : Thr) (nd : Node)
    (ht : s.thr[t]? = some th) (hst : th.stage = .redux2) (hnd : s.nodes[th.node]? = some nd) :
    nd.totalRecv = 0 := by
  obtain ⟨s0, as, h0, hrun⟩ := hr
  exact (full_run old as s0 s (full_of_roundStart old s0 h0) hrun).passed t th nd ht hst hnd

/-! ## Non-vacuity: 2 nodes × 2 threads (threads 0,1 on node 0; 2,3 on node 1), one old-colour message
from thread 0 to node 1 that is still in flight when both collectives complete. -/

def exPre : List Action :=
  [.send 0 1 5, .flip 0, .flip 1, .flip 2, .flip 3, .report 0, .report 1, .report 2, .report 3]
def exMid : List Action := [.collective 1, .collective 3, .poll 2, .deliver 0 3, .poll 3]
def exFin : List Action := [.poll 2, .poll 3, .poll 0, .poll 1]

/-- what we look at: stages, in-flight list, `total_msg_received`, `remote_msg_to_receive`, `total_sent` -/
structure View where
  stages : List Stage
  flight : List Msg
  totalRecv : List Int
  toReceive : List (Option Nat)
  totalSent : List (List Nat)
deriving DecidableEq

def view (s : St) : View :=
  ⟨s.thr.map (·.stage), s.flight, s.nodes.map (·.totalRecv), s.nodes.map (·.toReceive),
   s.nodes.map (·.totalSent)⟩

theorem roundStart_init22 : RoundStart false (init 2 2 false) :=
  ⟨by decide, by decide, by decide, by decide, by decide, by decide, by decide⟩

/-- all reported, nothing consumed yet: every `total_msg_received` is 2 (≥ 1), the message is in flight -/
example : (run (init 2 2 false) exPre).map view =
    some ⟨[.wait, .reduceWait, .wait, .reduceWait], [⟨false, 1, 5⟩], [2, 2], [none, none], [[1], []]⟩ := by
  decide

/-- both collectives done, message still in flight: node 1 reads −1, thread 2 polls and does NOT pass -/
example : (run (init 2 2 false) (exPre ++ [.collective 1, .collective 3, .poll 2])).map view =
    some ⟨[.wait, .wait, .wait, .wait], [⟨false, 1, 5⟩], [0, -1], [some 0, some 1], [[1], []]⟩ := by
  decide

/-- the whole round: after the delivery and its poll the counter reaches 0, everybody passes,
`total_sent` and `total_msg_received` are back to their initial values -/
example : (run (init 2 2 false) (exPre ++ exMid ++ exFin)).map view =
    some ⟨[.redux2, .redux2, .redux2, .redux2], [], [0, 0], [some 0, some 1], [[], []]⟩ := by
  decide

/-- the hypotheses of `old_colour_drained` are satisfiable (thread 2 passes after `exPre ++ exMid`) -/
example : ∃ s s' th', Reach false s ∧ poll s 2 = some s' ∧ s'.thr[2]? = some th' ∧ th'.stage = .redux2 := by
  have h : (((run (init 2 2 false) (exPre ++ exMid)).bind (poll · 2)).bind (·.thr[2]?)).map (·.stage)
      = some .redux2 := by decide
  simp only [Option.map_eq_some_iff, Option.bind_eq_some_iff] at h
  obtain ⟨th', ⟨s', ⟨s, hs, hp⟩, ht⟩, hst⟩ := h
  exact ⟨s, s', th', ⟨_, _, roundStart_init22, hs⟩, hp, ht, hst⟩

/-- the hypotheses of `no_premature_pass` are satisfiable (thread 0 polls right after `exPre`) -/
example : ∃ s s' th nd, Reach false s ∧ s.thr[0]? = some th ∧ s.nodes[th.node]? = some nd ∧
    nd.subtracted = false ∧ poll s 0 = some s' := by
  have h : ((run (init 2 2 false) exPre).bind fun s => s.thr[0]?.bind fun th => s.nodes[th.node]?.bind fun nd =>
      (poll s 0).map fun _ => nd.subtracted) = some false := by decide
  simp only [Option.map_eq_some_iff, Option.bind_eq_some_iff] at h
  obtain ⟨s, hs, th, ht, nd, hnd, s', hp, hsub⟩ := h
  exact ⟨s, s', th, nd, ⟨_, _, roundStart_init22, hs⟩, ht, hnd, hsub, hp⟩

end RootSim.C04.Node

namespace RootSim.C04.Node
open RootSim.GvtNode

/-- the hypotheses of `counters_reset` are satisfiable (node 0 at the end of the example round; its
`total_sent` was `[1]` before the threads passed) -/
example : ∃ s nd, Reach false s ∧ s.nodes[0]? = some nd ∧ ∀ th ∈ s.thr, th.node = 0 → th.stage = .redux2 := by
  have h : ((run (init 2 2 false) (exPre ++ exMid ++ exFin)).bind fun s => s.nodes[0]?.map fun _ =>
      decide (∀ th ∈ s.thr, th.node = 0 → th.stage = .redux2)) = some true := by decide
  simp only [Option.map_eq_some_iff, Option.bind_eq_some_iff] at h
  obtain ⟨s, hs, nd, hnd, hall⟩ := h
  exact ⟨s, nd, ⟨_, _, roundStart_init22, hs⟩, hnd, of_decide_eq_true hall⟩

end RootSim.C04.Node
