import RootSim.Proofs.GvtGlobalInv
/-!
# C04, global level: with several nodes, the reported GVT is a lower bound of everything queued, being processed
or IN FLIGHT between nodes — now and for the rest of the round

Model: `RootSim/Model/GvtGlobal.lean` (one round, `K` nodes, any interleaving, any number of messages, no ghost state).
The facts of the lower layers enter ONLY as step guards / step values (see the model header):
`pass` ⇐ `C04.Node.old_colour_drained`; `report` value ⇐ `C04.read_value` / `C04.cut_safe`; `join` between two events;
emitted time stamps `≥` the event being processed; exact min all-reduce.

`Reach s0 s`: `s` is reachable from `s0` by `Step`s (`step_iff`: the same transitions as the executable `step`).
`RoundStart old s0`: all nodes idle with colour `old`, all in-flight messages stamped `old` (this is what the previous
round leaves: `round_end_is_round_start`), valid destinations; `pend`, `cur`, `acc` arbitrary.
`LowerBound v s`: the value `v` (`none = SIMTIME_MAX`) is `≤` every element of every `pend k`, every `cur k` and the
time stamp of EVERY in-flight message of `s`. All theorems hold for every `K` (for `K = 0` trivially).
-/
namespace RootSim.C04.Global
open RootSim.GvtGlobal

/-- **`gvt_safe`**: in every reachable state in which all nodes have reported, `gvt s` (the min all-reduce of the
reported values) is a lower bound of every queued / buffered time stamp, every event being processed and every
message in flight, of either colour. -/
theorem gvt_safe (old : Bool) (s0 s : St) (h0 : RoundStart old s0) (hr : Reach s0 s) (hall : AllReported s) :
    LowerBound (gvt s) s :=
  lowerBound_of_allge fun g hg => allge_of_allReported (rinv_reach h0 hr) hall g hg

/-- **`gvt_stable`**: … and this remains true in every state reachable from there (by ANY steps; once all nodes have
reported only process / emit / deliver steps are enabled, and the value of the round no longer changes): nothing
below `gvt s` ever appears again in this round. -/
theorem gvt_stable (old : Bool) (s0 s s' : St) (h0 : RoundStart old s0) (hr : Reach s0 s) (hall : AllReported s)
    (hr' : Reach s s') :
    AllReported s' ∧ gvt s' = gvt s ∧ LowerBound (gvt s) s' := by
  have hst := stages_reach hall hr'
  have hall' : AllReported s' := (allReported_iff _).2 (by rw [hst]; exact (allReported_iff _).1 hall)
  have hg := gvt_eq_of_stages hst
  refine ⟨hall', hg, ?_⟩
  rw [← hg]
  exact gvt_safe old s0 s' h0 (reach_trans hr hr') hall'

/-- `gvt_stable` for an executable schedule of process / emit / deliver actions -/
theorem gvt_stable_run (old : Bool) (s0 s s' : St) (h0 : RoundStart old s0) (hr : Reach s0 s)
    (hall : AllReported s) (as : List Action) (_hw : ∀ a ∈ as, a.isWork = true) (hrun : run s as = some s') :
    LowerBound (gvt s) s' :=
  (gvt_stable old s0 s s' h0 hr hall (reach_run as s s' .refl hrun)).2.2

/-- … in particular no event below the GVT is ever extracted again -/
theorem no_extract_below (old : Bool) (s0 s s' s'' : St) (h0 : RoundStart old s0) (hr : Reach s0 s)
    (hall : AllReported s) (hr' : Reach s s') (k e : Nat) (hb : beginProcess s' k e = some s'') :
    OLe (gvt s) e := by
  have h := (gvt_stable old s0 s s'' h0 hr hall (.step hr' (Step_of_step (a := .beginProcess k e) hb))).2.2
  simp only [beginProcess] at hb
  split at hb
  · cases hb
  · rename_i nd hk
    split at hb
    · cases hb
      have hlt : k < s'.nodes.length := by
        rcases Nat.lt_or_ge k s'.nodes.length with h | h
        · exact h
        · rw [List.getElem?_eq_none h] at hk; cases hk
      exact (h.1 _ (by simp only [upd]; exact List.mem_set hlt _)).2 e rfl
    · cases hb

/-- **`gvt_monotone`**: if every `pend` / `cur` / in-flight time stamp of the round's initial state is `≥ g0` (what
the previous round established for its GVT `g0`), then every value reported in this round, hence `gvt s`, is `≥ g0`. -/
theorem gvt_monotone (old : Bool) (s0 s : St) (h0 : RoundStart old s0) (hr : Reach s0 s) (g0 : Nat)
    (hg0 : LowerBound (some g0) s0) : Le g0 (gvt s) := by
  have hm := mono_reach (mono_init h0 hg0) hr
  apply (le_ominL g0 _).2
  intro v hv
  obtain ⟨nd, hnd, rfl⟩ := List.mem_map.1 hv
  obtain ⟨k, hk⟩ := (mem_nodes_iff s nd).1 hnd
  exact (hm.2 k nd hk).2

/-- the end of a round is the start of the next one: when all nodes have reported, every node and every message in
flight carries the new colour (so `RoundStart (!old)` holds once the stages are reset), and the hypothesis of
`gvt_monotone` holds for the next round with `g0 = gvt s` (if finite). -/
theorem round_end_is_round_start (old : Bool) (s0 s : St) (h0 : RoundStart old s0) (hr : Reach s0 s)
    (hall : AllReported s) :
    RoundStart (!old) (nextRound s) ∧ LowerBound (gvt s) (nextRound s) := by
  have h := rinv_reach h0 hr
  refine ⟨⟨?_, ?_⟩, ?_⟩
  · intro nd hnd
    simp only [nextRound, List.mem_map] at hnd
    obtain ⟨nd1, hnd1, rfl⟩ := hnd
    obtain ⟨k, hk⟩ := (mem_nodes_iff s nd1).1 hnd1
    refine ⟨rfl, ?_⟩
    have hc := h.col k nd1 hk
    have := allReported_get hall hk
    revert hc this; cases nd1.stage <;> simp [Stage.isReported, Stage.hasFlipped]
  · intro m hm
    simp only [nextRound] at hm ⊢
    refine ⟨?_, by simpa using h.destOk m hm⟩
    cases hc : m.colour <;> cases old <;> simp
    all_goals
      obtain ⟨nd, hd, hnp⟩ := h.oldFlight m hm hc
      have := allReported_get hall hd
      revert hnp this; cases nd.stage <;> simp [Stage.hasPassed, Stage.isReported]
  · have hs := gvt_safe old s0 s h0 hr hall
    refine ⟨?_, hs.2⟩
    intro nd hnd
    simp only [nextRound, List.mem_map] at hnd
    obtain ⟨nd1, hnd1, rfl⟩ := hnd
    exact hs.1 nd1 hnd1

/-- when all nodes have reported, the hint's `G = min_k floor k` IS the GVT -/
theorem gvt_eq_G (s : St) (hall : AllReported s) : gvt s = G s := by
  unfold gvt G
  congr 1
  apply List.map_congr_left
  intro nd hnd
  have := hall nd hnd
  unfold floor
  revert this; cases nd.stage <;> simp [Stage.isReported, Stage.value]

/-! ## the guards are exactly what is needed (kernel-checked counter-examples on the executable step functions) -/

/-- two nodes, old colour `false`; node 0 has the event 5 queued, node 1 the event 10 -/
def cex0 : St := { nodes := [{ pend := [5] }, { pend := [10] }] }

/-- node 0 processes 5 and sends 7 to node 1 (old colour) before joining; both join and flip; node 1 leaves
`node_sent_wait` although the old-colour message addressed to it is still in flight -/
def cexCounting : List Action :=
  [.beginProcess 0 5, .emitRemote 0 1 7, .endProcess 0, .join 0, .join 1, .flip 0, .flip 1, .pass 0, .pass 1,
   .report 0, .report 1]

/-- **`needs_counting`**: WITHOUT the guard of `pass` (variant `noCounting`) a state with all nodes reported is
reachable in which a message in flight (7) is below the GVT (10): `gvt_safe` fails. With the guard, `pass 1` is not
enabled at that point (`run` of the prefix up to it yields `none`). -/
theorem needs_counting :
    RoundStart false cex0 ∧
    ∃ s, runV .noCounting cex0 cexCounting = some s ∧ AllReported s ∧ gvt s = some 10 ∧
      (∃ m ∈ s.flight, m.ts = 7 ∧ ¬ OLe (gvt s) m.ts) ∧ ¬ LowerBound (gvt s) s ∧
      (run cex0 (cexCounting.take 8)).isSome = true ∧ run cex0 (cexCounting.take 9) = none := by
  refine ⟨by decide, _, rfl, ?_⟩
  decide

/-- both join; node 0 extracts 5 (`acc = 5`), flips WITH a reset of the accumulator while 5 is being processed,
sends 7 to node 1 stamped with the new colour (not counted in this round), finishes 5; everybody passes and reports -/
def cexReset : List Action :=
  [.join 0, .join 1, .beginProcess 0 5, .flip 0, .emitRemote 0 1 7, .endProcess 0, .flip 1, .pass 0, .pass 1,
   .report 0, .report 1]

/-- **`needs_accumulator_across_flip`**: if `acc` were reset at the flip (variant `resetAtFlip`), a new-colour message
sent between the flip and the pass of its sender (7) ends below the GVT (10). In the real model the same schedule
yields the GVT 5. -/
theorem needs_accumulator_across_flip :
    RoundStart false cex0 ∧
    (∃ s, runV .resetAtFlip cex0 cexReset = some s ∧ AllReported s ∧ gvt s = some 10 ∧
      (∃ m ∈ s.flight, m.ts = 7 ∧ m.colour = true ∧ ¬ OLe (gvt s) m.ts) ∧ ¬ LowerBound (gvt s) s) ∧
    ∃ s, run cex0 cexReset = some s ∧ AllReported s ∧ gvt s = some 5 ∧ LowerBound (gvt s) s := by
  refine ⟨by decide, ⟨_, rfl, ?_⟩, ⟨_, rfl, ?_⟩⟩ <;> decide

/-- node 0 joins (accumulator reset) in the middle of the event 5, flips, sends 7 (new colour), finishes 5 -/
def cexJoin : List Action :=
  [.beginProcess 0 5, .join 0, .join 1, .flip 0, .emitRemote 0 1 7, .endProcess 0, .flip 1, .pass 0, .pass 1,
   .report 0, .report 1]

/-- **`needs_join_between_events`**: if a node could join the round while an event is being processed (variant
`joinBusy`: `gvt_start_processing` without `cur = none`), the same failure appears; with the guard `join 0` is not
enabled at that point. -/
theorem needs_join_between_events :
    RoundStart false cex0 ∧
    (∃ s, runV .joinBusy cex0 cexJoin = some s ∧ AllReported s ∧ gvt s = some 10 ∧
      (∃ m ∈ s.flight, m.ts = 7 ∧ ¬ OLe (gvt s) m.ts) ∧ ¬ LowerBound (gvt s) s) ∧
    run cex0 (cexJoin.take 2) = none := by
  refine ⟨by decide, ⟨_, rfl, ?_⟩, ?_⟩ <;> decide

/-! ## Non-vacuity -/

/-- a run of the executable model gives `Reach` -/
theorem reach_of_run {s0 s : St} {as : List Action} (h : run s0 as = some s) : Reach s0 s :=
  reach_run as s0 s .refl h

/-- 2 nodes: node 0 has 3 and 9 queued, node 1 has 7 and 20 -/
def ex2 : St := { nodes := [{ pend := [3, 9] }, { pend := [7, 20] }] }

/-- node 0 processes 3 and sends 6 (old colour) before the round; joins, flips, processes 9 and sends 12 (new colour);
node 1 flips; node 0 passes; the old-colour 6 is delivered, only then node 1 may pass; reports -/
def sched2 : List Action :=
  [.beginProcess 0 3, .emitRemote 0 1 6, .endProcess 0, .join 0, .join 1, .flip 0, .beginProcess 0 9,
   .emitRemote 0 1 12, .flip 1, .pass 0, .deliver 0, .pass 1, .endProcess 0, .report 0, .report 1]

/-- after 8 actions messages of both colours are in flight; `pass 1` is refused while the old-colour one is
(`run` of `… pass 0, pass 1` is `none`) -/
example : (run ex2 (sched2.take 8)).map (·.flight) = some [⟨false, 1, 6⟩, ⟨true, 1, 12⟩] ∧
    run ex2 (sched2.take 10 ++ [.pass 1]) = none := by decide

/-- the round completes: reports 9 and 6, GVT 6: strictly between the smallest (3) and largest (20) time stamps
pending at the start; the new-colour message 12 is still in flight and is `≥ 6` -/
example : RoundStart false ex2 ∧ ∃ s, run ex2 sched2 = some s ∧ AllReported s ∧
    s.nodes.map (·.stage) = [.reported (some 9), .reported (some 6)] ∧ gvt s = some 6 ∧
    s.flight = [⟨true, 1, 12⟩] ∧ s.nodes.map (·.pend) = [[], [6, 7, 20]] ∧ LowerBound (gvt s) s := by
  refine ⟨by decide, _, rfl, ?_⟩
  decide

/-- the hypotheses of `gvt_safe` / `gvt_stable` / `gvt_monotone` (with `g0 = 3`) are satisfiable, and the
continuation `deliver 12; process 6` of `gvt_stable` is non-trivial -/
example : ∃ s0 s s', RoundStart false s0 ∧ Reach s0 s ∧ AllReported s ∧ LowerBound (some 3) s0 ∧
    run s [.deliver 0, .beginProcess 1 6, .emitRemote 1 0 6, .endProcess 1] = some s' ∧ s'.flight ≠ [] := by
  have h : ((run ex2 sched2).bind fun s =>
      (run s [.deliver 0, .beginProcess 1 6, .emitRemote 1 0 6, .endProcess 1]).map fun s' =>
        (decide (AllReported s), decide (s'.flight ≠ []))) = some (true, true) := by decide
  simp only [Option.map_eq_some_iff, Option.bind_eq_some_iff] at h
  obtain ⟨s, hs, s', hs', hd⟩ := h
  simp only [Prod.mk.injEq, decide_eq_true_eq] at hd
  exact ⟨ex2, s, s', by decide, reach_of_run hs, hd.1, by decide, hs', hd.2⟩

/-- 3 nodes -/
def ex3 : St := { nodes := [{ pend := [4, 30] }, { pend := [8] }, { pend := [15, 40], cur := some 11 }] }

/-- node 2 (in the middle of event 11 when the round starts) sends 13 to node 0 (old colour); node 0 processes 4 and
sends 5 to node 1 (old colour); node 0 joins and flips, processes 30 and sends 33 to node 2 (new colour); the others
join and flip; the two old-colour messages gate `pass 0` and `pass 1`; node 1 extracts 5 after its report -/
def sched3 : List Action :=
  [.emitRemote 2 0 13, .beginProcess 0 4, .emitRemote 0 1 5, .endProcess 0, .join 0, .flip 0, .beginProcess 0 30,
   .emitRemote 0 2 33, .endProcess 2, .join 1, .join 2, .flip 1, .flip 2, .pass 2, .deliver 1, .pass 1, .report 1,
   .beginProcess 1 5, .deliver 0, .pass 0, .report 2, .report 0]

example : (run ex3 (sched3.take 8)).map (·.flight) = some [⟨false, 0, 13⟩, ⟨false, 1, 5⟩, ⟨true, 2, 33⟩] ∧
    run ex3 (sched3.take 13 ++ [.pass 0]) = none ∧ run ex3 (sched3.take 13 ++ [.pass 1]) = none := by decide

/-- reports 5 (node 1), 15 (node 2), 13 (node 0); GVT 5, strictly between 4 and 40; the new-colour 33 still in flight -/
example : RoundStart false ex3 ∧ ∃ s, run ex3 sched3 = some s ∧ AllReported s ∧
    s.nodes.map (·.stage) = [.reported (some 13), .reported (some 5), .reported (some 15)] ∧ gvt s = some 5 ∧
    s.flight = [⟨true, 2, 33⟩] ∧ s.nodes.map (·.cur) = [some 30, some 5, none] ∧ LowerBound (gvt s) s ∧
    RoundStart true (nextRound s) := by
  refine ⟨by decide, _, rfl, ?_⟩
  decide

end RootSim.C04.Global
