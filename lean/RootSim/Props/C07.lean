import RootSim.Proofs.Termination
/-!
# C07 — no premature termination

"A run that is not stopped by RootsimStop returns only when, for every LP, the termination
predicate held on a state that is committed (its timestamp is below the final GVT), or the GVT has
reached the configured termination time."

Model: `Model/Termination.lean` (`termination.c` verbatim, pinned variant `fix = false` and the
variant patched by `repo_patches/f2_termination_sentinel.diff`, `fix = true`); specification ledger
and environment assumptions (`EnvOk`): `Proofs/Termination.lean`. The environment assumptions are the
facts C04 provides (rollbacks never reach below the last GVT handed to the thread, GVT values do not
decrease) plus: a rollback for a straggler/anti-message with time stamp `s` undoes only entries with
time stamp `≥ s` (entries with time stamp `= s` may or may not be undone), time stamps are finite,
LPs are created before the first GVT.

* `no_premature`            — full theorem for the patched code (every time stamp, including 0).
* `f2_counterexample`       — the full statement is FALSE for the pinned code (finding F2).
* `no_premature_partial`    — the pinned code under the excluding hypothesis "every time stamp handed
                              to the module is > 0".
* `returns_sound`(`_partial`) — node level: `termination_cant_end()` becomes false only if every
                              LP's predicate held on a committed state, or a GVT reached the
                              termination time, or `RootsimStop`/a remote node intervened.
-/
namespace RootSim.C07
open RootSim.Term

/-- The full statement for a code variant: whenever `termination_on_gvt(g)` casts a vote, every LP
of the voting thread has its predicate true on a not-undone state with time stamp below `g`, or
`g` has reached the termination time. (`pos = false`: time stamps are unrestricted.) -/
def NoPrematureStatement (fix : Bool) : Prop :=
  ∀ (nNodes N ttime : Nat) (s s' : Sys) (ti g : Nat), N < W32 →
    Reach fix false nNodes N ttime s → EnvOk false s (.gvt ti g) →
    sstep fix nNodes s (.gvt ti g) = some (s', true) →
    ∀ tl ∈ s.led[ti]?, (∀ l ∈ tl, HeldBelow l g) ∨ s.node.ttime ≤ g

/-- common proof for both variants -/
theorem no_premature_gen (fix pos : Bool) (hfp : fix = true ∨ pos = true)
    (nNodes N ttime : Nat) (s s' : Sys) (ti g : Nat) (hN : N < W32)
    (hr : Reach fix pos nNodes N ttime s) (henv : EnvOk pos s (.gvt ti g))
    (hs : sstep fix nNodes s (.gvt ti g) = some (s', true)) :
    ∀ tl ∈ s.led[ti]?, (∀ l ∈ tl, HeldBelow l g) ∨ s.node.ttime ≤ g := by
  intro tl htl
  have hinv := reach_sinv fix pos nNodes N ttime hfp hN s hr
  unfold sstep at hs
  split at hs
  · rename_i n' v L' hstep _
    simp only [Option.some.injEq, Prod.mk.injEq] at hs
    obtain ⟨_, rfl⟩ := hs
    simp only [step, onGvt] at hstep
    split at hstep
    · cases hstep
    · rename_i th hth
      by_cases hnv : noVote th g s.node.ttime = true
      · simp [hnv] at hstep
      · have hnv' : noVote th g s.node.ttime = false := by simpa using hnv
        exact vote_sound fix th tl g s.node.ttime (hinv.tinv ti th tl hth (Option.mem_def.mp htl)) henv.1 hnv'
  · cases hs

/-- **C07, thread level, patched code: no premature vote — for all runs, all time stamps.** -/
theorem no_premature : NoPrematureStatement true :=
  fun nNodes N ttime s s' ti g hN hr henv hs =>
    no_premature_gen true false (Or.inl rfl) nNodes N ttime s s' ti g hN hr henv hs

/-- **C07, thread level, pinned code, partial**: the same conclusion for runs in which every time
stamp handed to `termination_on_msg_process` / `termination_on_lp_rollback` is strictly positive
(`Reach false true`: `pos = true`). What is missing is exactly finding F2. -/
theorem no_premature_partial (nNodes N ttime : Nat) (s s' : Sys) (ti g : Nat) (hN : N < W32)
    (hr : Reach false true nNodes N ttime s) (henv : EnvOk true s (.gvt ti g))
    (hs : sstep false nNodes s (.gvt ti g) = some (s', true)) :
    ∀ tl ∈ s.led[ti]?, (∀ l ∈ tl, HeldBelow l g) ∨ s.node.ttime ≤ g :=
  no_premature_gen false true (Or.inr rfl) nNodes N ttime s s' ti g hN hr henv hs

/-! ### Finding F2: the pinned code votes prematurely -/

/-- 1 thread, 2 LPs, neither predicate true at start; LP0 processes an event at time stamp 0 and one
at time stamp 1 (key of 1.0), predicate true on both states; LP1 never satisfies its predicate. -/
def f2Ops : List Op :=
  [.lpInit 0 false, .lpInit 0 false, .proc 0 0 0 true, .proc 0 0 0x3FF0000000000000 true]

/-- the GVT value 2.0 -/
def f2Gvt : Nat := 0x4000000000000000

/-- On the pinned code the run `f2Ops` ends with `lps_to_end = 0` although LP1's predicate never held;
the thread votes at GVT 2.0 and, being the only thread, ends the simulation. -/
theorem f2_witness :
    ∃ s s', runChk false false 1 (Sys.init 1 1 SIMTIME_MAX) f2Ops = some s ∧
      EnvOk false s (.gvt 0 f2Gvt) ∧
      sstep false 1 s (.gvt 0 f2Gvt) = some (s', true) ∧
      cantEnd s'.node = false ∧
      s.led[0]? = some [⟨false, [(0, true), (0x3FF0000000000000, true)]⟩, ⟨false, []⟩] ∧
      ¬ HeldBelow ⟨false, []⟩ f2Gvt := by
  refine ⟨_, _, rfl, by decide, rfl, by decide, by decide, by decide⟩

/-- **The full statement is false for the pinned `termination.c`.** -/
theorem f2_counterexample : ¬ NoPrematureStatement false := by
  intro h
  obtain ⟨s, s', hrun, henv, hstep, _, hled, hnot⟩ := f2_witness
  have hr := reach_runChk false false 1 1 SIMTIME_MAX f2Ops _ s Reach.init hrun
  have := h 1 1 SIMTIME_MAX s s' 0 f2Gvt (by decide) hr henv hstep _ (Option.mem_def.mpr hled)
  rcases this with h1 | h1
  · exact hnot (h1 _ (by simp))
  · have hrt : s.node.ttime = SIMTIME_MAX := by
      have := hrun; simp only [f2Ops] at this
      injection this with this; rw [← this]; rfl
    rw [hrt] at h1; revert h1; decide

/-- The same operations on the patched code: no vote (the count is exact). -/
theorem f2_fixed :
    ∃ s s', runChk true false 1 (Sys.init 1 1 SIMTIME_MAX) f2Ops = some s ∧
      sstep true 1 s (.gvt 0 f2Gvt) = some (s', false) := ⟨_, _, rfl, rfl⟩

/-- state of the pinned code after the over-count run -/
def ocNode : Node :=
  { thrs := [{ termT := [0x3FF0000000000000], lpsToEnd := 1, maxT := 0x3FF0000000000000 }],
    thrToEnd := 1, nodesToEnd := 1, ttime := SIMTIME_MAX }

/-- The symmetric over-count (pinned code): a rollback with time stamp 0 of an LP whose predicate is
not true increments `lps_to_end` although the LP is already counted (`lps_to_end = 1` with no LP
left at the sentinel); afterwards the thread never votes below the termination time although its
only LP's predicate holds — a liveness defect (C08). -/
theorem f2_overcount_witness :
    run false 1 (Node.init 1 1 SIMTIME_MAX)
        [.lpInit 0 false, .proc 0 0 0 false, .rb 0 0 0 0, .proc 0 0 0x3FF0000000000000 true] = some ocNode ∧
      ∀ g, g < ocNode.ttime → onGvt ocNode 0 g = some (ocNode, false) := by
  refine ⟨by decide, ?_⟩
  intro g hg
  simp only [ocNode] at hg
  simp [onGvt, ocNode, noVote, hg]

/-! ### Finding F8 (both variants): a rollback whose time stamp *equals* the terminating event's
resets `termination_t` even when that event is kept, and nothing re-evaluates the predicate. -/

/-- code state after the F8 run -/
def f8Node (fix : Bool) : Node :=
  { thrs := [{ termT := [unsetV fix], lpsToEnd := 1, maxT := 5 }],
    thrToEnd := 1, nodesToEnd := 1, ttime := SIMTIME_MAX }

/-- LP processes `e0` at 5 (predicate becomes true), `e1` at 5; an anti-message for `e1` arrives:
rollback with `msg_time = 5` keeping `e0` (`k = 1`). The predicate holds on the kept state after
`e0` (ledger: `(5, true)` not undone), but the thread does not vote at any GVT below the termination
time until the LP happens to process another event. Safe for C07, a liveness problem for C08. -/
theorem f8_witness (fix : Bool) :
    ∃ s, runChk fix false 1 (Sys.init 1 1 SIMTIME_MAX)
        [.lpInit 0 false, .proc 0 0 5 true, .proc 0 0 5 false, .rb 0 0 5 1] = some s ∧
      s.node = f8Node fix ∧ s.led = [[⟨false, [(5, true)]⟩]] ∧
      ∀ g, g < (f8Node fix).ttime → onGvt (f8Node fix) 0 g = some (f8Node fix, false) := by
  cases fix
  · refine ⟨_, rfl, rfl, rfl, ?_⟩
    intro g hg
    simp only [f8Node] at hg
    simp [onGvt, f8Node, noVote, hg]
  · refine ⟨_, rfl, rfl, rfl, ?_⟩
    intro g hg
    simp only [f8Node] at hg
    simp [onGvt, f8Node, noVote, hg]

/-! ### Node level -/

/-- common proof -/
theorem returns_sound_gen (fix pos : Bool) (hfp : fix = true ∨ pos = true) (nNodes N ttime : Nat)
    (hN : N < W32) (hn : 1 ≤ nNodes) (s : Sys) (hr : Reach fix pos nNodes N ttime s)
    (hend : cantEnd s.node = false) :
    s.ext = true ∨ s.ttHit = true ∨
      (nNodes = 1 ∧ ∀ (ti : Nat) (tl : TL), s.led[ti]? = some tl →
        ∃ gv lg, s.voteG[ti]? = some (some gv) ∧ s.lastG[ti]? = some lg ∧ gv ≤ lg ∧
          ∀ l ∈ tl, HeldBelow l gv) := by
  have hinv := reach_sinv fix pos nNodes N ttime hfp hN s hr
  cases hext : s.ext
  · cases htt : s.ttHit
    · right; right
      simp only [cantEnd, decide_eq_false_iff_not] at hend
      rcases hinv.nte htt hext with h | ⟨h, hall⟩
      · omega
      · refine ⟨by omega, ?_⟩
        intro ti tl htl
        have hti : ti < s.led.length := (List.getElem?_eq_some_iff.mp htl).1
        have hti4 : ti < s.voteG.length := by rw [hinv.l4, ← hinv.l2]; exact hti
        have hti3 : ti < s.lastG.length := by rw [hinv.l3, ← hinv.l2]; exact hti
        have hsome := List.countP_eq_length.mp (by rw [← hinv.l4] at hall; exact hall) s.voteG[ti]
          (List.getElem_mem hti4)
        cases hv : s.voteG[ti] with
        | none => rw [hv] at hsome; cases hsome
        | some gv =>
          have h1 : s.voteG[ti]? = some (some gv) := by rw [List.getElem?_eq_getElem hti4, hv]
          have h2 : s.lastG[ti]? = some s.lastG[ti] := List.getElem?_eq_getElem hti3
          have := hinv.held htt ti tl gv _ htl h1 h2
          exact ⟨gv, _, h1, h2, this.1, this.2⟩
    · right; left; rfl
  · left; rfl

/-- **C07, node level, patched code.** When `termination_cant_end()` is false, then `RootsimStop`
was called / another node's termination message arrived, or some thread was handed a GVT that had
reached the termination time, or (single node) every thread has voted at a GVT `gv ≤` its latest
GVT and every one of its LPs has its predicate true on a not-undone state with time stamp below
`gv` — a committed state, since later rollbacks never reach below the latest GVT. -/
theorem returns_sound (nNodes N ttime : Nat) (hN : N < W32) (hn : 1 ≤ nNodes) (s : Sys)
    (hr : Reach true false nNodes N ttime s) (hend : cantEnd s.node = false) :
    s.ext = true ∨ s.ttHit = true ∨
      (nNodes = 1 ∧ ∀ (ti : Nat) (tl : TL), s.led[ti]? = some tl →
        ∃ gv lg, s.voteG[ti]? = some (some gv) ∧ s.lastG[ti]? = some lg ∧ gv ≤ lg ∧
          ∀ l ∈ tl, HeldBelow l gv) :=
  returns_sound_gen true false (Or.inl rfl) nNodes N ttime hN hn s hr hend

/-- the same for the pinned code under the positive-time-stamp hypothesis -/
theorem returns_sound_partial (nNodes N ttime : Nat) (hN : N < W32) (hn : 1 ≤ nNodes) (s : Sys)
    (hr : Reach false true nNodes N ttime s) (hend : cantEnd s.node = false) :
    s.ext = true ∨ s.ttHit = true ∨
      (nNodes = 1 ∧ ∀ (ti : Nat) (tl : TL), s.led[ti]? = some tl →
        ∃ gv lg, s.voteG[ti]? = some (some gv) ∧ s.lastG[ti]? = some lg ∧ gv ≤ lg ∧
          ∀ l ∈ tl, HeldBelow l gv) :=
  returns_sound_gen false true (Or.inr rfl) nNodes N ttime hN hn s hr hend

/-- the counter of not-yet-terminated LPs is exact on the patched code (the invariant behind it all) -/
theorem count_exact (nNodes N ttime : Nat) (hN : N < W32) (s : Sys)
    (hr : Reach true false nNodes N ttime s) :
    ∀ th ∈ s.node.thrs, th.lpsToEnd = th.termT.countP (fun x => decide (x < 0)) := by
  intro th hth
  have hinv := reach_sinv true false nNodes N ttime (Or.inl rfl) hN s hr
  obtain ⟨i, hi, rfl⟩ := List.getElem_of_mem hth
  have hi2 : i < s.led.length := by rw [hinv.l2, ← hinv.l1]; exact hi
  have := (hinv.tinv i _ _ (List.getElem?_eq_getElem hi) (List.getElem?_eq_getElem hi2)).cnt
  rw [this]
  congr 1
  funext x
  by_cases hx : x < 0 <;> simp [isSet, hx] <;> omega

/-! ### Non-vacuity: a run with rollbacks, a tie, an event at time stamp 0, two threads, that ends
with legitimate votes — the hypotheses of the theorems are satisfiable and the conclusion is the
interesting disjunct. -/

def exOps : List Op :=
  [.lpInit 0 false, .lpInit 1 true, .lpInit 1 false,
   .proc 0 0 0 true,            -- predicate first true at an event with time stamp 0
   .proc 1 1 7 true, .proc 1 1 9 false,
   .rb 1 1 7 0,                 -- straggler at 7 undoes both (tie with the terminating event)
   .gvt 0 3, .gvt 1 3,          -- thread 0 votes, thread 1 does not
   .proc 1 1 4 false, .proc 1 1 8 true,
   .gvt 0 9]

example : ∃ s s', runChk true false 1 (Sys.init 2 1 SIMTIME_MAX) exOps = some s ∧
    EnvOk false s (.gvt 1 9) ∧ sstep true 1 s (.gvt 1 9) = some (s', true) ∧
    cantEnd s.node = true ∧ cantEnd s'.node = false ∧ s'.ext = false ∧ s'.ttHit = false :=
  ⟨_, _, rfl, by decide, rfl, by decide, by decide, rfl, rfl⟩

/-- the pinned code on a run with positive time stamps: hypotheses of the partial theorem hold -/
example : ∃ s s', runChk false true 1 (Sys.init 1 1 SIMTIME_MAX)
      [.lpInit 0 false, .proc 0 0 7 true, .rb 0 0 7 0, .proc 0 0 6 true] = some s ∧
    EnvOk true s (.gvt 0 9) ∧ sstep false 1 s (.gvt 0 9) = some (s', true) :=
  ⟨_, _, rfl, by decide, rfl⟩

end RootSim.C07
