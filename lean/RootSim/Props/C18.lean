import RootSim.Proofs.RandApi
import RootSim.Proofs.Xxtea
import RootSim.Proofs.Xoshiro
/-!
# C18 — numerical library contracts hold for every generator state
(and the RNG facts needed by C09: the stream of an LP is a function of seed and LP id only)

Quantifiers: every raw generator output `u < 2^64` (no sampling), every generator state, every
argument in the stated domain.  `randomBits` is `Random()` of the pinned tree, `randomBitsFixed`
the one of the tree with `repo_patches/random_shift_ub.diff`; the derived functions are proved
for every bits function `f` with `GoodBits f` (both are), "defined" needs `Total f` (only the
patched one is: finding F3).  Floating point: `Random() * n`, `1 - Random()`, `x * y` are computed
by a concrete round-to-nearest-even (`rneNat`), `floor`/casts are exact; `log`/`pow` are
parameters constrained by `LibmLaws` only.
-/
namespace RootSim.C18
open RootSim RootSim.Rand RootSim.Float

/-! ## `Random()` -/

/-- raw output 0 gives `0.0` -/
theorem random_zero : randomBits 0 = .ok 0 ∧ randomBitsFixed 0 = .ok 0 ∧ decodeDouble 0 = .fin 0 0 :=
  ⟨rfl, rfl, decode_zero⟩

/-- **Bit pattern of `Random()` for every raw output `u ≥ 2`** (pinned tree): defined, sign 0,
biased exponent `1023 - (clz u + 1) ∈ [960, 1022]`, mantissa = the 52 bits below the leading one. -/
theorem random_bits (u : Nat) (h2 : 2 ≤ u) (h64 : u < 2 ^ 64) :
    ∃ b, randomBits u = .ok b ∧
      b / 2 ^ 63 % 2 = 0 ∧
      b / 2 ^ 52 % 2 ^ 11 = 1023 - (clz64 u + 1) ∧
      960 ≤ 1023 - (clz64 u + 1) ∧ 1023 - (clz64 u + 1) ≤ 1022 ∧
      b % 2 ^ 52 = mantOf u ∧ mantOf u < 2 ^ 52 := by
  have h0 : u ≠ 0 := by omega
  have hL := log2_lt_64 h0 h64
  have hL1 := log2_pos h2
  have hm := mantOf_lt h0
  obtain ⟨f1, f2, f3⟩ := fields (959 + Nat.log2 u) (mantOf u) (by omega) hm
  have e : 1023 - (clz64 u + 1) = 959 + Nat.log2 u := by unfold clz64; omega
  refine ⟨_, randomBits_eq h2 h64, f1, ?_, ?_, ?_, f3, hm⟩
  · rw [e]; exact f2
  · omega
  · omega

/-- **Value of `Random()` for `u ≥ 2`**: `(2^52 + mantissa) / 2^(116 - log2 u)`, which lies in
`[2^-63, 1 - 2^-53] ⊂ [0, 1)`. -/
theorem random_value (u : Nat) (h2 : 2 ≤ u) (h64 : u < 2 ^ 64) :
    ∃ b, randomBits u = .ok b ∧
      decodeDouble b = .fin ((2 ^ 52 + mantOf u : Nat) : Int) (116 - Nat.log2 u) ∧
      FVal.leFin 1 63 ((2 ^ 52 + mantOf u : Nat) : Int) (116 - Nat.log2 u) ∧
      FVal.leFin ((2 ^ 52 + mantOf u : Nat) : Int) (116 - Nat.log2 u) (2 ^ 53 - 1) 53 ∧
      InUnitHalfOpen (decodeDouble b) := by
  have h0 : u ≠ 0 := by omega
  have hL := log2_lt_64 h0 h64
  have hL1 := log2_pos h2
  have hm := mantOf_lt h0
  have hd := (randVal_of_pattern h0 h64).1
  have hs : 2 ^ 53 ≤ 2 ^ (116 - Nat.log2 u) := Nat.pow_le_pow_right (by omega) (by omega)
  refine ⟨_, randomBits_eq h2 h64, hd, ?_, ?_, ?_⟩
  · -- 2^-63 ≤ m / 2^s  ⇔  2^s ≤ m * 2^63
    unfold FVal.leFin
    have : 2 ^ (116 - Nat.log2 u) ≤ 2 ^ 52 * 2 ^ 63 := by
      rw [← Nat.pow_add]; exact Nat.pow_le_pow_right (by omega) (by omega)
    have h : 2 ^ (116 - Nat.log2 u) ≤ (2 ^ 52 + mantOf u) * 2 ^ 63 :=
      Nat.le_trans this (Nat.mul_le_mul_right _ (by omega))
    have : ((2 ^ (116 - Nat.log2 u) : Nat) : Int) ≤ (((2 ^ 52 + mantOf u) * 2 ^ 63 : Nat) : Int) :=
      Int.ofNat_le.mpr h
    simpa using this
  · -- m / 2^s ≤ (2^53 - 1) / 2^53  ⇔  m * 2^53 ≤ (2^53 - 1) * 2^s
    unfold FVal.leFin
    have h : (2 ^ 52 + mantOf u) * 2 ^ 53 ≤ (2 ^ 53 - 1) * 2 ^ (116 - Nat.log2 u) :=
      Nat.mul_le_mul (by omega) hs
    have : (((2 ^ 52 + mantOf u) * 2 ^ 53 : Nat) : Int) ≤ (((2 ^ 53 - 1) * 2 ^ (116 - Nat.log2 u) : Nat) : Int) :=
      Int.ofNat_le.mpr h
    simpa using this
  · rw [hd]
    refine ⟨_, _, rfl, by omega, ?_⟩
    have : 2 ^ 52 + mantOf u < 2 ^ (116 - Nat.log2 u) := by omega
    exact_mod_cast this

/-- **Monotone** in `u` among outputs with the same leading-one position. -/
theorem random_monotone (u u' : Nat) (h2 : 2 ≤ u) (huu : u ≤ u') (h64 : u' < 2 ^ 64)
    (hl : Nat.log2 u = Nat.log2 u') :
    ∃ b b', randomBits u = .ok b ∧ randomBits u' = .ok b' ∧ b ≤ b' := by
  refine ⟨_, _, randomBits_eq h2 (by omega), randomBits_eq (by omega) h64, ?_⟩
  rw [hl]
  apply Nat.add_le_add_left
  unfold mantOf
  simp only
  rw [hl]
  split
  · exact Nat.mul_le_mul_right _ (by omega)
  · exact Nat.div_le_div_right (by omega)

/-- **F3: `Random()` is undefined for raw output 1** (`u_val <<= 64` on a 64-bit type). -/
theorem random_ub_witness : randomBits 1 = .error .shiftWidth := rfl

/-- F3 at the level of generator states: a well-formed state on which `Random()` is undefined.
(Every raw output is produced by some state: `state[1] = craftS1 u`.) -/
theorem random_ub_state_counterexample :
    (⟨0, craftS1 1, 0, 0⟩ : Rng).WF ∧ random randomBits ⟨0, craftS1 1, 0, 0⟩ = .error .shiftWidth := by
  constructor
  · decide
  · rfl

/-- **Every raw output `u < 2^64` is produced by some generator state** (2^192 of them): the
quantifier "for all raw outputs" is about reachable behaviour. -/
theorem every_raw_output_reachable (u s0 s2 s3 : Nat) (hu : u < 2 ^ 64) :
    (randomU64 ⟨s0, craftS1 u, s2, s3⟩).1 = u :=
  craft_output u s0 s2 s3 hu

/-- F3 for every state whose `state[1]` is `craftS1 1 = 0x7d6c16c16c16c16c` -/
theorem random_ub_states (s0 s2 s3 : Nat) : random randomBits ⟨s0, craftS1 1, s2, s3⟩ = .error .shiftWidth :=
  random_err (by rw [craft_output 1 s0 s2 s3 (by decide)]; rfl)

/-- The full statement of the property for `Random()`, for a given tree. -/
def RandomStatement (f : BitsFn) : Prop :=
  ∀ u, u < 2 ^ 64 → ∃ b, f u = .ok b ∧ InUnitHalfOpen (decodeDouble b)

/-- pinned tree: everything except the one raw output 1 -/
theorem random_partial (u : Nat) (h64 : u < 2 ^ 64) (h1 : u ≠ 1) :
    ∃ b, randomBits u = .ok b ∧ InUnitHalfOpen (decodeDouble b) := by
  by_cases h0 : u = 0
  · subst h0; exact ⟨0, rfl, by rw [decode_zero]; exact ⟨0, 0, rfl, by omega, by decide⟩⟩
  · exact ⟨_, randomBits_eq (by omega) h64, inUnit_of_randVal (randVal_of_pattern h0 h64).2⟩

/-- the property is FALSE on the pinned tree … -/
theorem randomStatement_pinned_counterexample : ¬ RandomStatement randomBits := by
  intro h
  obtain ⟨b, hb, _⟩ := h 1 (by decide)
  rw [random_ub_witness] at hb
  cases hb

/-- **… and TRUE after the patch: full theorem for all `u`.** For `u ≥ 1`: exponent field
`959 + log2 u ∈ [959, 1022]`, mantissa as before; `u = 1` gives `2^-64`. -/
theorem randomFixed_bits (u : Nat) (h1 : 1 ≤ u) (h64 : u < 2 ^ 64) :
    ∃ b, randomBitsFixed u = .ok b ∧
      b / 2 ^ 63 % 2 = 0 ∧
      b / 2 ^ 52 % 2 ^ 11 = 1023 - (clz64 u + 1) ∧
      959 ≤ 1023 - (clz64 u + 1) ∧ 1023 - (clz64 u + 1) ≤ 1022 ∧
      b % 2 ^ 52 = mantOf u ∧
      decodeDouble b = .fin ((2 ^ 52 + mantOf u : Nat) : Int) (116 - Nat.log2 u) := by
  have h0 : u ≠ 0 := by omega
  have hL := log2_lt_64 h0 h64
  have hm := mantOf_lt h0
  obtain ⟨f1, f2, f3⟩ := fields (959 + Nat.log2 u) (mantOf u) (by omega) hm
  have e : 1023 - (clz64 u + 1) = 959 + Nat.log2 u := by unfold clz64; omega
  refine ⟨_, randomBitsFixed_eq h1 h64, f1, ?_, ?_, ?_, f3, (randVal_of_pattern h0 h64).1⟩
  · rw [e]; exact f2
  · omega
  · omega

theorem randomStatement_fixed : RandomStatement randomBitsFixed := by
  intro u h64
  obtain ⟨b, hb⟩ := total_fixed u h64
  exact ⟨b, hb, inUnit_of_randVal (goodBits_fixed u b h64 hb)⟩

/-- the patch changes the result for no raw output other than 1, where it yields `2^-64` -/
theorem randomFixed_agrees (u : Nat) (h64 : u < 2 ^ 64) (h1 : u ≠ 1) : randomBitsFixed u = randomBits u := by
  by_cases h0 : u = 0
  · subst h0; rfl
  · rw [randomBitsFixed_eq (by omega) h64, randomBits_eq (by omega) h64]

theorem randomFixed_one : randomBitsFixed 1 = .ok (959 * 2 ^ 52) ∧ decodeDouble (959 * 2 ^ 52) = .fin (2 ^ 52) 116 := by
  constructor
  · rfl
  · decide

/-! ## Each call advances only the caller's generator, by a fixed number of raw draws -/

/-- API functions have the type `Rng → Except UB (α × Rng)`; run as LP `i` they leave every other
LP's generator untouched, use no other generator, and return the caller's new generator. -/
theorem call_touches_only_caller {α : Type} (f : Rng → Except UB (α × Rng)) (i : Nat) (w : World)
    (a : α) (w' : World) (h : callAs f i w = .ok (a, w')) :
    (∀ j, j ≠ i → w' j = w j) ∧ f (w i) = .ok (a, w' i) :=
  ⟨callAs_other f i w a w' h, callAs_self f i w a w' h⟩

theorem call_depends_only_on_caller {α : Type} (f : Rng → Except UB (α × Rng)) (i : Nat) (w1 w2 : World)
    (h : w1 i = w2 i) : (callAs f i w1).map Prod.fst = (callAs f i w2).map Prod.fst :=
  callAs_congr f i w1 w2 h

/-- `RandomU64` and `Random`: exactly one raw draw -/
theorem random_draws (f : BitsFn) (hf : GoodBits f) (g : Rng) :
    (randomU64 g).2 = advance 1 g ∧
    ((∃ r, random f g = .ok (r, advance 1 g) ∧ InUnitHalfOpen r) ∨ (∃ e, random f g = .error e)) := by
  refine ⟨rfl, ?_⟩
  rcases random_cases f hf g with ⟨r, h, hr⟩ | h
  · exact .inl ⟨r, h, inUnit_of_randVal hr⟩
  · exact .inr h

/-! ## `RandomRange` -/

/-- **`RandomRange(min, max) ∈ [min, max]`, one raw draw**, for `min ≤ max` and
`max - min + 1 ≤ INT_MAX` (the `int` expression `max - min + 1` must not overflow). Exact: the
rounding of `Random() * (max - min + 1)` is computed, not assumed. Either that, or `Random()`
itself was undefined (possible on the pinned tree only). -/
theorem randomRange_in_range (f : BitsFn) (hf : GoodBits f) (min max : Int) (hp : RangePre min max) (g : Rng) :
    (∃ v, randomRange f min max g = .ok (v, advance 1 g) ∧ min ≤ v ∧ v ≤ max) ∨
    (∃ e, randomRange f min max g = .error e) :=
  randomRange_cases f hf min max hp g

/-- patched tree: always defined -/
theorem randomRange_fixed (min max : Int) (hp : RangePre min max) (g : Rng) :
    ∃ v, randomRange randomBitsFixed min max g = .ok (v, advance 1 g) ∧ min ≤ v ∧ v ≤ max := by
  rcases randomRange_cases _ goodBits_fixed min max hp g with h | ⟨e, he⟩
  · exact h
  · exfalso
    obtain ⟨r, hr, _⟩ := random_total _ goodBits_fixed total_fixed g
    simp [randomRange, bind, Except.bind, hr] at he
    obtain ⟨v, hv, _⟩ := rangeOf_spec r (by assumption) min max hp.lo hp.hi hp.le hp.span
    simp [hv, pure, Except.pure] at he

/-! ## `RandomRangeNonUniform` -/

/-- **In range, two raw draws, either evaluation order**, for `0 ≤ x < INT_MAX`, `0 ≤ min ≤ max`,
`max - min + 1 ≤ INT_MAX` (pinned tree; the domain the test-suite exercises). -/
theorem randomRangeNonUniform_in_range (f : BitsFn) (hf : GoodBits f) (leftFirst : Bool) (x min max : Int)
    (hx : RangePre 0 x) (hp : RangePre min max) (h0 : 0 ≤ min) (g : Rng) :
    (∃ v, randomRangeNonUniform f nonUniformOf leftFirst x min max g = .ok (v, advance 2 g) ∧ min ≤ v ∧ v ≤ max) ∨
    (∃ e, randomRangeNonUniform f nonUniformOf leftFirst x min max g = .error e) :=
  randomRangeNonUniform_cases f hf _ leftFirst x min max hx hp (combOk_pinned x min max hx hp h0) g

/-- **F11: for a negative `min` the pinned `RandomRangeNonUniform` leaves its range**
(`%` of a negative `int` is negative): `x = 0, min = -5, max = -1`, second raw output `2^63`
(`Random() = 0.5`): `b = -3`, `(0 | -3) % 5 = -3`, result `-8 < min`. -/
theorem randomRangeNonUniform_negative_counterexample :
    randomRangeNonUniform randomBits nonUniformOf true 0 (-5) (-1) ⟨0, craftS1 5, craftS1 5 ^^^ craftS1 (2 ^ 63), 0⟩
      = .ok (-8, advance 2 ⟨0, craftS1 5, craftS1 5 ^^^ craftS1 (2 ^ 63), 0⟩) ∧
    RangePre 0 0 ∧ RangePre (-5) (-1) ∧ ¬ ((-5 : Int) ≤ -8) := by
  refine ⟨by decide +kernel, ⟨by decide, by decide, by decide, by decide⟩, ⟨by decide, by decide, by decide, by decide⟩, by decide⟩

/-- after `repo_patches/random_range_nonuniform_negative.diff`: in range for every `min ≤ max` -/
theorem randomRangeNonUniformFixed_in_range (f : BitsFn) (hf : GoodBits f) (leftFirst : Bool) (x min max : Int)
    (hx : RangePre 0 x) (hp : RangePre min max) (g : Rng) :
    (∃ v, randomRangeNonUniform f nonUniformOfFixed leftFirst x min max g = .ok (v, advance 2 g) ∧ min ≤ v ∧ v ≤ max) ∨
    (∃ e, randomRangeNonUniform f nonUniformOfFixed leftFirst x min max g = .error e) :=
  randomRangeNonUniform_cases f hf _ leftFirst x min max hx hp (combOk_fixed x min max hp) g

/-- on non-negative draws the patch changes nothing -/
theorem nonUniformOfFixed_agrees (a b min max : Int) (ha : 0 ≤ a) (ha' : a ≤ intMax) (hb : 0 ≤ b)
    (hb' : b ≤ intMax) (hp : RangePre min max) : nonUniformOfFixed a b min max = nonUniformOf a b min max := by
  obtain ⟨lo, hi, le, span⟩ := hp
  obtain ⟨o1, _⟩ := intOr_nonneg ha ha' hb hb'
  unfold intMin intMax at *
  have h1 : ckInt (max - min) = .ok (max - min) := ckInt_ok (by unfold intMin; omega) (by unfold intMax; omega)
  have h2 : ckInt (max - min + 1) = .ok (max - min + 1) := ckInt_ok (by unfold intMin; omega) (by unfold intMax; omega)
  have h3 := intMod_pos (intOr a b) (max - min + 1) (by omega)
  have t1 := Int.tmod_nonneg (max - min + 1) o1
  have hneg : ¬ (intOr a b).tmod (max - min + 1) < 0 := by omega
  simp only [nonUniformOfFixed, nonUniformOf, bind, Except.bind, h1, h2, h3, hneg, if_false, pure, Except.pure]

/-! ## `Poisson` / `Expent`, `Gamma(ia < 6)` — relative to `LibmLaws` -/

/-- the operand of `log` in `Poisson`: `1 - Random() ∈ [2^-53, 1]`, exactly -/
theorem oneMinus_random_range (r : FVal) (hr : RandVal r) :
    ∃ m s : Nat, oneMinus r = .fin (m : Int) s ∧ m ≤ 2 ^ s ∧ 2 ^ s ≤ m * 2 ^ 53 := by
  obtain ⟨m, s, h, _, h1, h2⟩ := oneMinus_unit r hr
  exact ⟨m, s, h, h1, h2⟩

/-- **`Poisson()` is finite and in `[0, 53]`, one raw draw** -/
theorem poisson_nonneg_finite (f : BitsFn) (hf : GoodBits f) (L : Libm) (hL : LibmLaws L) (g : Rng) :
    (∃ v, poisson f L g = .ok (v, advance 1 g) ∧ FinBetween0 53 v ∧ FVal.FinNonneg v) ∨
    (∃ e, poisson f L g = .error e) := by
  rcases poisson_cases f hf L hL g with ⟨v, h, hv⟩ | h
  · refine .inl ⟨v, h, hv, ?_⟩
    obtain ⟨a, t, rfl, a1, _⟩ := hv
    exact a1
  · exact .inr h

/-- **`Expent(mean)` is finite and non-negative** for `0 ≤ mean ≤ 2^1000` -/
theorem expent_nonneg_finite (f : BitsFn) (hf : GoodBits f) (L : Libm) (hL : LibmLaws L) (mm sm : Nat)
    (hmean : mm ≤ 2 ^ 1000 * 2 ^ sm) (g : Rng) :
    (∃ v, expent f L (.fin (mm : Int) sm) g = .ok (v, advance 1 g) ∧ FVal.FinNonneg v) ∨
    (∃ e, expent f L (.fin (mm : Int) sm) g = .error e) := by
  rcases poisson_cases f hf L hL g with ⟨p, h, hp⟩ | ⟨e, h⟩
  · exact .inl ⟨_, by simp [expent, bind, Except.bind, h, pure, Except.pure], mul_finNonneg mm sm hmean p hp⟩
  · exact .inr ⟨e, by simp [expent, bind, Except.bind, h]⟩

/-- **`Gamma(ia)`, `ia < 6`, is finite and in `[0, 53 ia]`, `ia` raw draws** -/
theorem gamma_small_nonneg_finite (f : BitsFn) (hf : GoodBits f) (L : Libm) (hL : LibmLaws L) (ia : Nat)
    (hia : ia < 6) (g : Rng) :
    (∃ v, gammaSmall f L ia g = some (.ok (v, advance ia g)) ∧ FinBetween0 (53 * ia) v ∧ FVal.FinNonneg v) ∨
    (∃ e, gammaSmall f L ia g = some (.error e)) := by
  rcases gammaSmall_cases f hf L hL ia hia g with ⟨v, h, hv⟩ | h
  · refine .inl ⟨v, h, hv, ?_⟩
    obtain ⟨a, t, rfl, a1, _⟩ := hv
    exact a1
  · exact .inr h

/-- Statement for `Gamma` in terms of `gammaSmall` alone (which is `none` for `ia ≥ 6`): only
`gamma_small_nonneg_finite` (`…_partial`) is proved of it.  The rejection branch (`ia ≥ 6`) is
modelled in `Model/RandGamma.lean`; the full clause for every order is
`GammaStatementFull` in `Props/C18Gamma.lean`: proved for the repaired code
(`gamma_statement_fixed`), refuted for the pinned code (finding F14). -/
def GammaStatement : Prop :=
  ∀ (f : BitsFn) (L : Libm) (ia : Nat) (g : Rng), GoodBits f → Total f → LibmLaws L →
    ∃ r, gammaSmall f L ia g = some r ∧ ∀ v g', r = .ok (v, g') → FVal.FinNonneg v

theorem gamma_partial (f : BitsFn) (hf : GoodBits f) (L : Libm) (hL : LibmLaws L) (ia : Nat) (hia : ia < 6)
    (g : Rng) : ∃ r, gammaSmall f L ia g = some r ∧ ∀ v g', r = .ok (v, g') → FVal.FinNonneg v := by
  rcases gamma_small_nonneg_finite f hf L hL ia hia g with ⟨v, h, _, hv⟩ | ⟨e, h⟩
  · refine ⟨_, h, ?_⟩
    intro v' g' heq
    injection heq with heq
    injection heq with h1 _
    subst h1; exact hv
  · exact ⟨_, h, by intro v g' heq; cases heq⟩

/-! ## `Zipf` -/

/-- **`Zipf ∈ [1, limit]` whenever it returns** (any number of loop iterations, any acceptance
test), never an out-of-range `(unsigned)` conversion; `ex = -1/skew - 1` finite negative;
at most two raw draws per iteration. Termination of the loop is NOT claimed. -/
theorem zipf_in_range (f : BitsFn) (hf : GoodBits f) (L : Libm) (hL : LibmLaws L) (e : Int) (t : Nat)
    (he : e < 0) (accept : FVal → FVal → Bool) (limit : Nat) (hlim : limit < 2 ^ 32) (fuel : Nat) (g : Rng) :
    (∃ o d, zipf f L (.fin e t) accept limit fuel g = .ok (o, advance d g) ∧ d ≤ 2 * fuel ∧
        ∀ k, o = some k → 1 ≤ k ∧ k ≤ limit) ∨
    (∃ err, zipf f L (.fin e t) accept limit fuel g = .error err) :=
  zipf_cases f hf L hL e t he accept limit hlim fuel g

/-! ## XXTEA and seeding (C09 fragment) -/

/-- **`xxtea_decode(xxtea_encode(v)) = v`** for every block of `n ≥ 2` 32-bit words, every key -/
theorem xxtea_roundtrip (v key : List Nat) (hv : Words v) (w : List Nat) (h : xxteaEncode v key = .ok w) :
    xxteaDecode w key = .ok v := by
  unfold xxteaEncode at h
  split at h
  · rename_i hn
    injection h with h
    subst h
    unfold xxteaDecode
    rw [length_xxteaEncodeCore v key (by omega), if_pos hn, xxteaDecodeCore_encodeCore v key (by omega) hv]
  · cases h

/-- the contract `n > 1` is modelled, not totalised -/
theorem xxtea_contract (v key : List Nat) (h : v.length ≤ 1) : xxteaEncode v key = .error .xxteaLen := by
  unfold xxteaEncode; rw [if_neg (by omega)]

/-- **C09 fragment: the initial generator state of an LP is a function of (LP id, seed) only**
(`seedState` has no other argument; the harness checks `random_lib_lp_init` against it while
varying thread/rank/config and the previous contents of the context), and so is the whole stream. -/
theorem seed_function_of_lp_and_seed (lp seed : Nat) (k : Nat) :
    ∀ lp' seed', lp' = lp → seed' = seed → advance k (seedState lp' seed') = advance k (seedState lp seed) := by
  intro lp' seed' h1 h2; rw [h1, h2]

/-- `xxtea_decode` of the all-zero block with the seeding key is not of the seeded form
`(a, b, c, d, a, b, c, d)` -/
theorem decode_zero_not_seeded :
    (xxteaDecodeCore [0, 0, 0, 0, 0, 0, 0, 0] seedingKey).getD 0 0 ≠
    (xxteaDecodeCore [0, 0, 0, 0, 0, 0, 0, 0] seedingKey).getD 4 0 := by
  decide

/-- **No (LP id, seed) pair seeds the all-zero xoshiro state** (its fixed point, on which the
rejection loops of `Normal`, `Gamma`, `Zipf` would spin forever). -/
theorem seed_never_fixed_point (lp seed : Nat) (hl : lp < 2 ^ 64) (hs : seed < 2 ^ 64) :
    xxteaEncodeCore (seedWords lp seed) seedingKey ≠ [0, 0, 0, 0, 0, 0, 0, 0] := by
  intro h
  have hrt := xxteaDecodeCore_encodeCore (seedWords lp seed) seedingKey (by simp [seedWords])
    (seedWords_words lp seed hl hs)
  rw [h] at hrt
  apply decode_zero_not_seeded
  rw [hrt]
  simp [seedWords]

/-- the same, on the generator state that `random_lib_lp_init` produces -/
theorem seedState_ne_zero (lp seed : Nat) (hl : lp < 2 ^ 64) (hs : seed < 2 ^ 64) :
    seedState lp seed ≠ ⟨0, 0, 0, 0⟩ := by
  intro h
  apply seed_never_fixed_point lp seed hl hs
  have hlen := length_xxteaEncodeCore (seedWords lp seed) seedingKey (by simp [seedWords])
  have h8 : (seedWords lp seed).length = 8 := by simp [seedWords]
  rw [h8] at hlen
  unfold seedState at h
  generalize xxteaEncodeCore (seedWords lp seed) seedingKey = w at h hlen
  match w, hlen with
  | [a, b, c, d, e, f, g, i], _ =>
    simp only [wordsToRng, List.getD_cons_zero, List.getD_cons_succ, Rng.mk.injEq] at h
    obtain ⟨h1, h2, h3, h4⟩ := h
    have : a = 0 ∧ b = 0 ∧ c = 0 ∧ d = 0 ∧ e = 0 ∧ f = 0 ∧ g = 0 ∧ i = 0 := by omega
    obtain ⟨rfl, rfl, rfl, rfl, rfl, rfl, rfl, rfl⟩ := this
    rfl

/-! ## Non-vacuity: the hypotheses are satisfiable by concrete, non-trivial objects -/

example : GoodBits randomBits ∧ GoodBits randomBitsFixed ∧ Total randomBitsFixed :=
  ⟨goodBits_pinned, goodBits_fixed, total_fixed⟩
example : RangePre (-5) 7 ∧ RangePre 0 2147483646 ∧ RangePre (-2147483648) (-2) :=
  ⟨⟨by decide, by decide, by decide, by decide⟩, ⟨by decide, by decide, by decide, by decide⟩,
   ⟨by decide, by decide, by decide, by decide⟩⟩
example : randomBits 3 = .ok 0x3c08000000000000 := rfl
example : randomBits (2 ^ 64 - 1) = .ok 0x3fefffffffffffff := rfl
example : Nat.log2 6 = Nat.log2 7 ∧ (2 : Nat) ≤ 6 := by decide
example : (seedState 0 0).WF ∧ seedState 0 0 ≠ ⟨0, 0, 0, 0⟩ := by decide
example : Words (seedWords 5 (2 ^ 64 - 1)) := seedWords_words _ _ (by decide) (by decide)

/-- a (crude but lawful) libm: `log x = ⌊log2 x⌋`, `pow x y = 1` on `(0,1)` and `+inf` at 0 -/
def toyLibm : Libm where
  log := fun v => match v with
    | .fin m s => if m ≤ 0 then .inf true else .fin ((bitlen m.toNat : Int) - 1 - s) 0
    | v => v
  pow := fun x _ => match x with
    | .fin m _ => if m = 0 then .inf false else .fin 1 0
    | v => v
  -- `sqrt x = 2^⌊⌊log2 x⌋ / 2⌋` for `x ≥ 1`, `exp x = 1` (used by the rejection branch of `Gamma`
  -- only: `Props/C18Gamma.lean` proves that they satisfy `LibmLaws2`)
  sqrt := fun v => match v with
    | .fin m s => if m ≤ 0 then .fin 0 0 else .fin ((2 : Int) ^ ((bitlen m.toNat - 1 - s) / 2)) 0
    | v => v
  exp := fun v => match v with
    | .nan => .nan
    | _ => .fin 1 0

theorem toyLibm_laws : LibmLaws toyLibm where
  log_unit := by
    intro m s k h1 h2
    have hm0 : m ≠ 0 := by
      intro h; subst h
      have := Nat.two_pow_pos s
      omega
    have hb := pow_bitlen_le hm0
    have hlt := bitlen_lt m
    have hbs : bitlen m - 1 ≤ s := (Nat.pow_le_pow_iff_right (by omega)).1 (Nat.le_trans hb h1)
    have hsk : s < bitlen m + k := by
      have : 2 ^ s < 2 ^ (bitlen m + k) := by
        rw [Nat.pow_add]
        exact Nat.lt_of_le_of_lt h2 (Nat.mul_lt_mul_of_pos_right hlt (Nat.two_pow_pos _))
      exact (Nat.pow_lt_pow_iff_right (by omega)).1 this
    have hpos : ¬ ((m : Int) ≤ 0) := by omega
    have hb1 : 1 ≤ bitlen m := by
      unfold bitlen; simp [hm0]
    refine ⟨(bitlen m : Int) - 1 - s, 0, ?_, by omega, ?_⟩
    · simp [toyLibm, hm0]
    · omega
  pow_unit_neg := by
    intro m s e t hm _ _
    right
    have : ¬ (m = 0) := by omega
    exact ⟨1, 0, by simp [toyLibm, this], by simp⟩
  pow_zero_neg := by
    intro s e t _
    simp [toyLibm]

end RootSim.C18
