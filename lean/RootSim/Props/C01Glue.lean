import RootSim.Proofs.TimeWarp
import RootSim.Props.PrefixUnique
/-!
# The glue (E) of C01 / C02 / C03 / C09: every reachable state of the abstract global Time Warp machine
satisfies the hypotheses of prefix uniqueness

`Model/TimeWarp.lean` defines the content-level global transition system of the optimistic runtime
(`TW.Step`: `exec` with straggler rollback and anti-messages, `annihilate`, `antiRollback`; every
scheduling and interleaving, `TW.Reachable`). Here:

* `reachable_invariant` — (I1) well-formed sorted histories and (I2) the counting invariant
  `pending + processed = sent + anti` hold in every reachable state;
* `reachable_hist` — hence, for every lower bound `g` of the time stamps of all pending messages and
  anti-messages (what a GVT value is), the histories satisfy `Spec.Hist` at `g`;
* `tw_prefix_of_sequential`, `tw_equals_sequential`, `tw_committed_prefix_of_sequential` — composition
  with `PrefixUnique.prefix_unique_V2s`: below `g` every reachable Time Warp state agrees with every run
  of the sequential reference relation;
* `tw_quiescent_equals_sequential`, `tw_quiescent_final`, `tw_quiescent_is_sequential` — C01 "whatever
  the interleaving": a state with nothing pending is a final state of the sequential executor, and the
  same as every other final state;
* `tw_schedule_independent`, `tw_committed_monotone` — C09 / C03 at protocol level.

Model contract: `Spec.V2s M` (strict causality, existing destinations, model event types), as in
`Props/PrefixUnique.lean` (the V2-only case is open there and therefore here).
All statements hold for every model, every number of LPs, every reachable state (every number of steps,
every choice of actions), every `g`.
-/
namespace RootSim.C01Glue
open RootSim RootSim.Spec RootSim.TW

variable {σ : Type} {M : SimModel σ} {s s' : TWState} {g g' : Nat}

/-- **The invariant of Time Warp.** In every reachable state: (I1) every existing LP's history starts
with its `LP_INIT` event, continues with model events for this LP, in an order compatible with the event
order; (I2) for every event content `x`: (pending copies) + (processed, not undone copies) =
(copies sent by the not-undone handler invocations) + (outstanding anti-messages). -/
theorem reachable_invariant (V : V2s M) (hr : TW.Reachable M s) :
    (∀ ℓ, ℓ < M.nLps → (s.past ℓ).head? = some (initEv ℓ) ∧
      (∀ e ∈ (s.past ℓ).tail, e.dest = ℓ ∧ e.type < LP_INIT) ∧
      (s.past ℓ).tail.Pairwise (fun a b => Event.before b a = false)) ∧
    (∀ ℓ, M.nLps ≤ ℓ → s.past ℓ = []) ∧
    (∀ x ∈ s.pending ++ s.antis, x.dest < M.nLps ∧ x.type < LP_INIT) ∧
    (∀ x : Event,
      s.pending.count x + ((List.range M.nLps).flatMap (fun ℓ => (s.past ℓ).tail)).count x =
        (outsAll M s.past).count x + s.antis.count x) := by
  have I := reachable_inv V hr
  refine ⟨fun ℓ hℓ => ⟨I.head ℓ hℓ, I.dest ℓ hℓ, I.sorted ℓ hℓ⟩, I.out, ?_, I.cnt⟩
  intro x hx
  rcases List.mem_append.mp hx with h | h
  · exact I.pendOk x h
  · exact I.antiOk x h

/-- **Glue (E).** Every reachable state of the optimistic machine, with every lower bound `g` of what is
still pending (messages and anti-messages), satisfies the hypotheses H1–H3 of prefix uniqueness. -/
theorem reachable_hist (V : V2s M) (hr : TW.Reachable M s)
    (hp : ∀ x ∈ s.pending, g ≤ x.t) (ha : ∀ x ∈ s.antis, g ≤ x.t) : Spec.Hist M s.past g :=
  (reachable_inv V hr).hist hp ha

/-- below `g`, what ANY sequential run has dispatched to an LP is a prefix of what the optimistic LP
has processed and not undone -/
theorem tw_prefix_of_sequential (V : V2s M) (hr : TW.Reachable M s)
    (hp : ∀ x ∈ s.pending, g ≤ x.t) (ha : ∀ x ∈ s.antis, g ≤ x.t)
    {q : SeqState σ} (hq : Spec.Reachable M q) {ℓ : Nat} (hℓ : ℓ < M.nLps) :
    (q.disp ℓ).filter (below g) <+: (s.past ℓ).filter (below g) :=
  (PrefixUnique.prefix_unique_V2s (reachable_hist V hr hp ha) V hq hℓ).1

/-- once the sequential run has nothing below `g` pending, the two sequences below `g` are EQUAL, and so
are the LP states they produce (`lpState` = fold of the handler) -/
theorem tw_equals_sequential (V : V2s M) (hr : TW.Reachable M s)
    (hp : ∀ x ∈ s.pending, g ≤ x.t) (ha : ∀ x ∈ s.antis, g ≤ x.t)
    {q : SeqState σ} (hq : Spec.Reachable M q) (hl : ∀ x ∈ q.pending, g ≤ x.t)
    {ℓ : Nat} (hℓ : ℓ < M.nLps) :
    (q.disp ℓ).filter (below g) = (s.past ℓ).filter (below g) ∧
    lpState M ℓ ((q.disp ℓ).filter (below g)) = lpState M ℓ ((s.past ℓ).filter (below g)) :=
  (PrefixUnique.prefix_unique_V2s (reachable_hist V hr hp ha) V hq hℓ).2 hl

/-- the committed part of an optimistic history is a prefix of the history itself (it is the state the LP
is, or can be rolled back to) and of the dispatch sequence of every sequential run that has passed `g` -/
theorem tw_committed_prefix_of_sequential (V : V2s M) (hr : TW.Reachable M s)
    (hp : ∀ x ∈ s.pending, g ≤ x.t) (ha : ∀ x ∈ s.antis, g ≤ x.t)
    {q : SeqState σ} (hq : Spec.Reachable M q) (hl : ∀ x ∈ q.pending, g ≤ x.t)
    {ℓ : Nat} (hℓ : ℓ < M.nLps) :
    (s.past ℓ).filter (below g) <+: s.past ℓ ∧ (s.past ℓ).filter (below g) <+: q.disp ℓ :=
  ⟨PrefixUnique.hist_below_prefix (reachable_hist V hr hp ha) hℓ g,
   PrefixUnique.committed_prefix_seq (reachable_hist V hr hp ha) (V.below _ _) V.timeMono hq hl hℓ⟩

/-- the equality case is never vacuous: some sequential run does execute everything below `g` -/
theorem tw_sequential_run_exists (V : V2s M) (hr : TW.Reachable M s)
    (hp : ∀ x ∈ s.pending, g ≤ x.t) (ha : ∀ x ∈ s.antis, g ≤ x.t) :
    ∃ q, Spec.Reachable M q ∧ ∀ x ∈ q.pending, g ≤ x.t :=
  PrefixUnique.exists_sequential_run (reachable_hist V hr hp ha) (V.below _ _) V.timeMono

/-- **C01, "whatever the interleaving".** In a reachable state with nothing pending and no anti-message
the statement holds for EVERY `g`: … -/
theorem tw_quiescent_equals_sequential (V : V2s M) (hr : TW.Reachable M s)
    (hp : s.pending = []) (ha : s.antis = []) (g : Nat)
    {q : SeqState σ} (hq : Spec.Reachable M q) {ℓ : Nat} (hℓ : ℓ < M.nLps) :
    (q.disp ℓ).filter (below g) <+: (s.past ℓ).filter (below g) ∧
    ((∀ x ∈ q.pending, g ≤ x.t) →
      (q.disp ℓ).filter (below g) = (s.past ℓ).filter (below g) ∧
      lpState M ℓ ((q.disp ℓ).filter (below g)) = lpState M ℓ ((s.past ℓ).filter (below g))) :=
  PrefixUnique.prefix_unique_V2s
    (reachable_hist V hr (by rw [hp]; simp) (by rw [ha]; simp)) V hq hℓ

/-- … the whole history of every LP is a prefix of the dispatch sequence of every sequential run that
has passed it (nothing pending below a `g` above all its time stamps) … -/
theorem tw_quiescent_prefix_of_sequential (V : V2s M) (hr : TW.Reachable M s)
    (hp : s.pending = []) (ha : s.antis = []) {ℓ : Nat} (hℓ : ℓ < M.nLps)
    (hg : ∀ x ∈ s.past ℓ, x.t < g)
    {q : SeqState σ} (hq : Spec.Reachable M q) (hl : ∀ x ∈ q.pending, g ≤ x.t) :
    s.past ℓ <+: q.disp ℓ ∧ s.past ℓ = (q.disp ℓ).filter (below g) := by
  have H : Hist M s.past g := reachable_hist V hr (by rw [hp]; simp) (by rw [ha]; simp)
  have h1 := PrefixUnique.committed_prefix_seq H (V.below _ _) V.timeMono hq hl hℓ
  have h2 := ((PrefixUnique.prefix_unique_V2s H V hq hℓ).2 hl).1
  rw [filter_below_self hg] at h1 h2
  exact ⟨h1, h2.symm⟩

/-- … and every FINISHED sequential run (nothing pending at all) has dispatched exactly the optimistic
histories and ended in exactly the LP states that are the folds of the handler over them. -/
theorem tw_quiescent_final (V : V2s M) (hr : TW.Reachable M s)
    (hp : s.pending = []) (ha : s.antis = [])
    {q : SeqState σ} (hq : Spec.Reachable M q) (hqp : q.pending = []) {ℓ : Nat} (hℓ : ℓ < M.nLps) :
    q.disp ℓ = s.past ℓ ∧ q.st ℓ = lpState M ℓ (s.past ℓ) := by
  obtain ⟨g, hg⟩ := exists_time_bound (q.disp ℓ ++ s.past ℓ)
  have H : Hist M s.past g := reachable_hist V hr (by rw [hp]; simp) (by rw [ha]; simp)
  have h := ((PrefixUnique.prefix_unique_V2s H V hq hℓ).2 (by rw [hqp]; simp)).1
  rw [filter_below_self (fun x hx => hg x (List.mem_append_left _ hx)),
    filter_below_self (fun x hx => hg x (List.mem_append_right _ hx))] at h
  exact ⟨h, by rw [PrefixUnique.seq_state_exact hq ℓ, h]⟩

/-- a quiescent optimistic state IS a final state of some run of the sequential executor
(so `tw_quiescent_final` is not vacuous) -/
theorem tw_quiescent_is_sequential (V : V2s M) (hr : TW.Reachable M s)
    (hp : s.pending = []) (ha : s.antis = []) :
    ∃ q, Spec.Reachable M q ∧ q.pending = [] ∧
      ∀ ℓ, ℓ < M.nLps → q.disp ℓ = s.past ℓ ∧ q.st ℓ = lpState M ℓ (s.past ℓ) := by
  obtain ⟨q, hq, hqp, hd⟩ := (reachable_inv V hr).quiescent_sequential V hp ha
  exact ⟨q, hq, hqp, fun ℓ hℓ => ⟨hd ℓ hℓ, by rw [PrefixUnique.seq_state_exact hq ℓ, hd ℓ hℓ]⟩⟩

/-- **C09 at protocol level (schedule / configuration independence).** Two reachable states of the
optimistic machine (different schedules, rollback patterns, annihilation orders …) with the same lower
bound `g` have, LP by LP, the same history below `g` and the same committed LP state. -/
theorem tw_schedule_independent (V : V2s M) (hr : TW.Reachable M s) (hr' : TW.Reachable M s')
    (hp : ∀ x ∈ s.pending, g ≤ x.t) (ha : ∀ x ∈ s.antis, g ≤ x.t)
    (hp' : ∀ x ∈ s'.pending, g ≤ x.t) (ha' : ∀ x ∈ s'.antis, g ≤ x.t)
    {ℓ : Nat} (hℓ : ℓ < M.nLps) :
    (s.past ℓ).filter (below g) = (s'.past ℓ).filter (below g) ∧
    lpState M ℓ ((s.past ℓ).filter (below g)) = lpState M ℓ ((s'.past ℓ).filter (below g)) :=
  PrefixUnique.history_unique (reachable_hist V hr hp ha) (V.below _ _)
    (reachable_hist V hr' hp' ha') (V.below _ _) V.timeMono hℓ

/-- **C03 at protocol level.** What is committed at a lower bound `g'` in one reachable state is a prefix
of what is committed at any larger lower bound `g` in any other reachable state (in particular in a later
state of the same run): committed events are never undone or reordered. -/
theorem tw_committed_monotone (V : V2s M) (hr : TW.Reachable M s) (hr' : TW.Reachable M s')
    (hgg : g' ≤ g)
    (hp : ∀ x ∈ s.pending, g' ≤ x.t) (ha : ∀ x ∈ s.antis, g' ≤ x.t)
    (hp' : ∀ x ∈ s'.pending, g ≤ x.t) (ha' : ∀ x ∈ s'.antis, g ≤ x.t)
    {ℓ : Nat} (hℓ : ℓ < M.nLps) :
    (s.past ℓ).filter (below g') <+: (s'.past ℓ).filter (below g) :=
  PrefixUnique.committed_prefix hgg (reachable_hist V hr hp ha) (V.below _ _)
    (reachable_hist V hr' hp' ha') (V.below _ _) V.timeMono hℓ

/-- the executable step functions perform exactly the steps of the relation the theorems are about -/
theorem step_function_exact {s₁ s₂ : TWState} :
    TW.Step M s₁ s₂ ↔ ∃ a, TW.step? M s₁ a = some s₂ :=
  ⟨step?_complete, fun ⟨_, h⟩ => step?_sound h⟩

/-! ### Non-vacuity -/

/-- a replayed trace of actions from the initial state ends in a reachable state -/
theorem run_reachable {as : List Action} (h : TW.run? M (TW.init M) as = some s) : TW.Reachable M s :=
  run?_reachable as TW.Reachable.init h

/-- ping-pong. LP 1 serves ball A at time 1; LP 0 optimistically processes A's return (time 2) BEFORE
ball B (time 1), LP 1 even processes the reply to that (time 3); then B arrives at LP 0 as a STRAGGLER:
the time-2 event is undone and re-queued, an anti-message for ⟨1,3,1,[1]⟩ goes out; it finds its message
processed at LP 1 (ANTI-ROLLBACK, which produces an anti-message for ⟨0,4,1,[2]⟩); that one meets its
message still queued (ANNIHILATION); then both LPs process their time-2 events. -/
def ppActs : List Action :=
  [ .exec 1 ⟨1, 1, 1, [0]⟩, .exec 0 ⟨0, 2, 1, [1]⟩, .exec 1 ⟨1, 3, 1, [1]⟩,
    .exec 0 ⟨0, 1, 1, [0]⟩,            -- the straggler
    .antiRollback 1 2,
    .annihilate ⟨0, 4, 1, [2]⟩,
    .exec 0 ⟨0, 2, 1, [1]⟩, .exec 1 ⟨1, 2, 1, [1]⟩ ]

/-- the state after `ppActs` -/
def ppS : TWState :=
  { past := fun
      | 0 => [initEv 0, ⟨0, 1, 1, [0]⟩, ⟨0, 2, 1, [1]⟩]
      | 1 => [initEv 1, ⟨1, 1, 1, [0]⟩, ⟨1, 2, 1, [1]⟩]
      | _ => []
    pending := [⟨1, 3, 1, [2]⟩, ⟨0, 3, 1, [2]⟩]
    antis := [] }

/-- what the replay computes, observed on the existing LPs -/
def obs (n : Nat) (s : TWState) : List (List Event) × List Event × List Event :=
  ((List.range n).map s.past, s.pending, s.antis)

/-- the straggler step: LP 0's optimistic time-2 event is undone and back in `pending`, and there is an
anti-message for what its invocation had sent -/
example : (TW.run? pingPong (TW.init pingPong) (ppActs.take 4)).map (obs 2) =
    some ([[initEv 0, ⟨0, 1, 1, [0]⟩], [initEv 1, ⟨1, 1, 1, [0]⟩, ⟨1, 3, 1, [1]⟩]],
          [⟨0, 4, 1, [2]⟩, ⟨0, 2, 1, [1]⟩, ⟨1, 2, 1, [1]⟩],
          [⟨1, 3, 1, [1]⟩]) := by decide

/-- the anti-rollback step: LP 1's processed ⟨1,3,1,[1]⟩ is undone and NOT re-queued, an anti-message for
its output appears -/
example : (TW.run? pingPong (TW.init pingPong) (ppActs.take 5)).map (obs 2) =
    some ([[initEv 0, ⟨0, 1, 1, [0]⟩], [initEv 1, ⟨1, 1, 1, [0]⟩]],
          [⟨0, 4, 1, [2]⟩, ⟨0, 2, 1, [1]⟩, ⟨1, 2, 1, [1]⟩],
          [⟨0, 4, 1, [2]⟩]) := by decide

/-- the annihilation step -/
example : (TW.run? pingPong (TW.init pingPong) (ppActs.take 6)).map (obs 2) =
    some ([[initEv 0, ⟨0, 1, 1, [0]⟩], [initEv 1, ⟨1, 1, 1, [0]⟩]],
          [⟨0, 2, 1, [1]⟩, ⟨1, 2, 1, [1]⟩], []) := by decide

/-- the whole trace is enabled and ends in `ppS` (on the existing LPs) -/
example : (TW.run? pingPong (TW.init pingPong) ppActs).map (obs 2) = some (obs 2 ppS) := by decide

/-- the end state is reachable and 3 is a lower bound of what is pending: the hypotheses of all the
theorems above hold with the non-trivial `g = 3` -/
theorem pp_nonvacuous : ∃ s, TW.Reachable pingPong s ∧
    (∀ x ∈ s.pending, 3 ≤ x.t) ∧ (∀ x ∈ s.antis, 3 ≤ x.t) ∧
    (s.past 0).filter (below 3) = [initEv 0, ⟨0, 1, 1, [0]⟩, ⟨0, 2, 1, [1]⟩] := by
  have h : ∃ s, TW.run? pingPong (TW.init pingPong) ppActs = some s := by
    rw [← Option.isSome_iff_exists]; decide
  obtain ⟨s, hs⟩ := h
  have ho : obs 2 s = obs 2 ppS := by
    have : (TW.run? pingPong (TW.init pingPong) ppActs).map (obs 2) = some (obs 2 ppS) := by decide
    rw [hs] at this
    exact Option.some.inj this
  simp only [obs, Prod.mk.injEq] at ho
  obtain ⟨hpast, hpend, hanti⟩ := ho
  have hp0 : s.past 0 = ppS.past 0 := by
    have := congrArg (fun l => l[0]?) hpast
    simpa using this
  refine ⟨s, run_reachable hs, ?_, ?_, ?_⟩
  · rw [hpend]; decide
  · rw [hanti]; decide
  · rw [hp0]; decide

/-- `reachable_hist` applies -/
example : ∃ s, TW.Reachable pingPong s ∧ Hist pingPong s.past 3 := by
  obtain ⟨s, hr, hp, ha, _⟩ := pp_nonvacuous
  exact ⟨s, hr, reachable_hist PrefixUnique.pingPong_V2s hr hp ha⟩

/-- the theorems compose on the concrete state: the executable sequential run, stopped when nothing
below 3 is pending, has dispatched to every LP exactly what `ppS` holds below 3 -/
example : (∀ x ∈ (seqRunN pingPong 4).pending, 3 ≤ x.t) ∧
    ∀ ℓ < 2, ((seqRunN pingPong 4).disp ℓ).filter (below 3) = (ppS.past ℓ).filter (below 3) := by decide

/-- `Spec.Hist` really holds of it (checked directly, independently of the theorem) … -/
example : histCheck pingPong ppS.past 3 = true := by decide
/-- … and does NOT hold in the middle of the trace (after the straggler step) at `g = 4`: an anti-message
with time stamp 3 is outstanding, LP 1 has processed an event that nobody has sent any more; the
lower-bound hypothesis on `antis` is what excludes this -/
example : histCheck pingPong
    (fun | 0 => [initEv 0, ⟨0, 1, 1, [0]⟩] | 1 => [initEv 1, ⟨1, 1, 1, [0]⟩, ⟨1, 3, 1, [1]⟩] | _ => []) 4 =
    false := by decide

/-- fan-in (IDENTICAL events). LP 0 optimistically processes its time-2 event before its time-1 event
and notifies LP 2 (copy A of ⟨2,3,1,[]⟩), which processes it; the straggler at LP 0 produces anti-messages
for copy A and for ⟨1,3,2,[1]⟩; the latter is annihilated in the queue; LP 0 re-executes and sends copy B,
LP 2 processes it too; then the anti-message for copy A rolls LP 2 back at the FIRST of the two equal
entries (any occurrence may be chosen): both are undone, one copy is re-queued. -/
def fiActs : List Action :=
  [ .exec 1 ⟨1, 1, 2, [0]⟩, .exec 0 ⟨0, 2, 2, [1]⟩,
    .exec 2 ⟨2, 1, 1, []⟩, .exec 2 ⟨2, 1, 1, []⟩, .exec 2 ⟨2, 2, 1, []⟩, .exec 2 ⟨2, 3, 1, []⟩,
    .exec 0 ⟨0, 1, 2, [0]⟩,            -- the straggler
    .annihilate ⟨1, 3, 2, [1]⟩,
    .exec 0 ⟨0, 2, 2, [1]⟩, .exec 2 ⟨2, 3, 1, []⟩,
    .antiRollback 2 4,
    .exec 2 ⟨2, 2, 1, []⟩, .exec 1 ⟨1, 2, 2, [1]⟩ ]

def fiS : TWState :=
  { past := fun
      | 0 => [initEv 0, ⟨0, 1, 2, [0]⟩, ⟨0, 2, 2, [1]⟩]
      | 1 => [initEv 1, ⟨1, 1, 2, [0]⟩, ⟨1, 2, 2, [1]⟩]
      | 2 => [initEv 2, ⟨2, 1, 1, []⟩, ⟨2, 1, 1, []⟩, ⟨2, 2, 1, []⟩, ⟨2, 2, 1, []⟩]
      | _ => []
    pending := [⟨1, 3, 2, [2]⟩, ⟨2, 3, 1, []⟩, ⟨2, 3, 1, []⟩, ⟨0, 3, 2, [2]⟩]
    antis := [] }

/-- after the straggler: two anti-messages -/
example : ((TW.run? fanIn (TW.init fanIn) (fiActs.take 7)).map (fun s => s.antis)) =
    some [⟨2, 3, 1, []⟩, ⟨1, 3, 2, [1]⟩] := by decide

/-- before / after the anti-rollback at LP 2 -/
example : ((TW.run? fanIn (TW.init fanIn) (fiActs.take 10)).map (fun s => (s.past 2, s.antis))) =
    some ([initEv 2, ⟨2, 1, 1, []⟩, ⟨2, 1, 1, []⟩, ⟨2, 2, 1, []⟩, ⟨2, 3, 1, []⟩, ⟨2, 3, 1, []⟩],
          [⟨2, 3, 1, []⟩]) := by decide
example : ((TW.run? fanIn (TW.init fanIn) (fiActs.take 11)).map (fun s => (s.past 2, s.antis))) =
    some ([initEv 2, ⟨2, 1, 1, []⟩, ⟨2, 1, 1, []⟩, ⟨2, 2, 1, []⟩], []) := by decide

example : (TW.run? fanIn (TW.init fanIn) fiActs).map (obs 3) = some (obs 3 fiS) := by decide

theorem fi_nonvacuous : ∃ s, TW.Reachable fanIn s ∧
    (∀ x ∈ s.pending, 3 ≤ x.t) ∧ (∀ x ∈ s.antis, 3 ≤ x.t) ∧
    (s.past 2).filter (below 3) =
      [initEv 2, ⟨2, 1, 1, []⟩, ⟨2, 1, 1, []⟩, ⟨2, 2, 1, []⟩, ⟨2, 2, 1, []⟩] := by
  have h : ∃ s, TW.run? fanIn (TW.init fanIn) fiActs = some s := by
    rw [← Option.isSome_iff_exists]; decide
  obtain ⟨s, hs⟩ := h
  have ho : obs 3 s = obs 3 fiS := by
    have : (TW.run? fanIn (TW.init fanIn) fiActs).map (obs 3) = some (obs 3 fiS) := by decide
    rw [hs] at this
    exact Option.some.inj this
  simp only [obs, Prod.mk.injEq] at ho
  obtain ⟨hpast, hpend, hanti⟩ := ho
  have hp2 : s.past 2 = fiS.past 2 := by
    have := congrArg (fun l => l[2]?) hpast
    simpa using this
  refine ⟨s, run_reachable hs, ?_, ?_, ?_⟩
  · rw [hpend]; decide
  · rw [hanti]; decide
  · rw [hp2]; decide

example : histCheck fanIn fiS.past 3 = true := by decide

/-- the sequential run agrees with `fiS` below 3, as `tw_equals_sequential` says it must -/
example : (∀ x ∈ (seqRunN fanIn 8).pending, 3 ≤ x.t) ∧
    ∀ ℓ < 3, ((seqRunN fanIn 8).disp ℓ).filter (below 3) = (fiS.past ℓ).filter (below 3) := by decide

/-- a quiescent reachable state (ping-pong stops at time 6): the hypotheses of the `tw_quiescent_*`
theorems are satisfiable, and the end state is the final state of the executable sequential run -/
def ppAll : List Action :=
  (List.range 6).flatMap (fun k =>
    [ .exec 0 ⟨0, k + 1, 1, [k]⟩, .exec 1 ⟨1, k + 1, 1, [k]⟩ ])

example : ((TW.run? pingPong (TW.init pingPong) ppAll).map
      (fun s => (s.pending, s.antis, s.past 0 == (seqRunN pingPong 12).disp 0,
        s.past 1 == (seqRunN pingPong 12).disp 1))) =
    some ([], [], true, true) ∧ (seqRunN pingPong 12).pending = [] := by decide

end RootSim.C01Glue
