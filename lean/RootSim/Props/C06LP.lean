import RootSim.Proofs.LPFullRun
/-!
# C06 / C01 / C02 at the LP level — ALL dispatch branches of `process_msg` (src/lp/process.c)

Model: `RootSim/Model/LPFull.lean` (`step` = `stepPre` + `stepFwd`), the function the re-execution driver (`Driver/Run.lean`,
`onExtract`) runs on every `ext` line of every real trace. Branches: ordinary message (straggler test, rollback, forward),
local anti-message with flag word 1 (discard) and 3 (`match_anti_msg`, rollback, discard), remote anti-message
(`handle_remote_anti_msg`: matched → rollback + release of both, or parked on `early_antis`), remote event whose anti-message is
already parked (`check_early_anti_messages`).

All theorems: every handler `h`, every LP state type `σ`, every history, every checkpoint placement, every allocator choice.
`step … = some …` means the C code stayed inside its arrays; `step_defined` says when that is guaranteed.
-/
namespace RootSim.C06LP
open RootSim RootSim.LP RootSim.LPFull

variable {σ : Type} {h : σ → Event → σ × List Event} {ev : Nat → Event} {init : σ} {base : List Nat}

/-- **(1) The well-formedness invariant is preserved by EVERY branch.** `WF` = `LInv` (LP state and every checkpoint = fold of the
handler over the corresponding prefix of the processed messages, on top of the committed `base`; checkpoint log sorted and inside
the history) + `SInv` (processed messages sorted by the event order as the code compares them, `bound` an upper bound, layout
`[sent* past]*`). The hypotheses on the dequeued message are needed only when it is going to be processed (`f` even). -/
theorem step_preserves_wf {look : Nat → Msg} {remote : Nat → Bool} {alloc : Nat → Nat} {s s' : St σ} {m f : Nat}
    {acts : List Action} (hW : WF h ev look init base s)
    (hm : f % 2 = 0 → (look m).WF ∧ (look m).destT = (ev m).t ∧ (look m).rawFlags = f + 2)
    (hs : step h ev look remote alloc s m f = some (s', acts)) : WF h ev look init base s' :=
  ⟨step_linv hW.linv hs, step_sinv hW.linv hW.sinv hm hs⟩

/-- the exactness half needs no hypothesis at all on the snapshot: whatever the flag words, after ANY branch the LP state is the
fold over the processed messages that remain -/
theorem step_state_is_fold {look : Nat → Msg} {remote : Nat → Bool} {alloc : Nat → Nat} {s s' : St σ} {m f : Nat}
    {acts : List Action} (hI : LInv h ev init base s.lp)
    (hs : step h ev look remote alloc s m f = some (s', acts)) :
    s'.lp.st = replay h ev init (base ++ pastMsgs s'.lp.hist) :=
  (step_linv hI hs).st_ok

/-- **the step is defined** in every well-formed state that owns a checkpoint with reference 0 (C13: always, after the first
fossil collection), provided a local anti-message with flag word 3 has its message in the history (C06
`processed_bit_iff_in_history`) -/
theorem step_defined {look : Nat → Msg} {remote : Nat → Bool} {alloc : Nat → Nat} {s : St σ} {m f : Nat}
    (hW : WF h ev look init base s) (hck : ∃ x ∈ s.lp.logs, x.1 = 0)
    (h3 : f = 3 → Entry.past m ∈ s.lp.hist) : ∃ r, step h ev look remote alloc s m f = some r :=
  LPFull.step_defined hW.linv hW.sinv hck h3

/-- **(2) A local anti-message (`f = 3`) removes exactly its target.** If `m` is a processed entry, the history is
`A ++ G ++ past m :: B` (`G` = the sent entries of `m`'s own execution, `A` empty or ending with a processed message, `m` not in
`B`) and after the step: the history is exactly `A` (the entries BEFORE the target's group); every processed message after the
target is un-processed (to be re-queued), the target is un-processed with the `cancelled` mark (never re-queued), in this order;
`m` is released exactly once and nothing else is; an anti-message goes to exactly the sent entries of `G` and `B`; the early list
is untouched; the LP state is the fold over `A`. -/
theorem anti_removes_exactly_target {look : Nat → Msg} {remote : Nat → Bool} {alloc : Nat → Nat} {s s' : St σ} {m : Nat}
    {acts : List Action} (hI : LInv h ev init base s.lp) (hm : Entry.past m ∈ s.lp.hist)
    (hs : step h ev look remote alloc s m 3 = some (s', acts)) :
    ∃ A G B, s.lp.hist = A ++ G ++ Entry.past m :: B ∧ Entry.past m ∉ B ∧ (∀ g ∈ G, g.isPast = false) ∧
      (∀ e, A.getLast? = some e → e.isPast = true) ∧
      s'.lp.hist = A ∧ s'.earlyAntis = s.earlyAntis ∧
      s'.lp.st = replay h ev init (base ++ pastMsgs A) ∧
      unprocs acts = (m, true) :: (pastMsgs B).map (fun y => (y, false)) ∧
      frees acts = [m] ∧
      antis acts = G ++ B.filter Entry.isSent := by
  obtain ⟨A, G, x, B, hh, hx, hB, hG, hA⟩ := exists_target_decomp s.lp.hist (fun e => e == Entry.past m) ⟨_, hm, by simp⟩
  have hxm : x = Entry.past m := by simpa using hx
  subst hxm
  have hB' : Entry.past m ∉ B := fun hmem => by have := hB _ hmem; simp at this
  exact ⟨A, G, B, hh, hB', hG, hA, anti_local_exact hI A G B hh hG hA hB' hs⟩

/-- **(2') A remote anti-message whose event is processed removes exactly that event.** The target `x` is the LAST processed
entry carrying the (id word, m_seq) of the anti-message; same statement, and both buffers are released exactly once:
`frees = [x, m]`. -/
theorem remote_anti_removes_exactly_target {look : Nat → Msg} {remote : Nat → Bool} {alloc : Nat → Nat} {s s' : St σ}
    {m f : Nat} {acts : List Action} (hI : LInv h ev init base s.lp) (hf : f % 2 = 1) (hf3 : 3 < f)
    (hm : ∃ y, Entry.past y ∈ s.lp.hist ∧ keyAt look y = (f + 1, (look m).mSeq))
    (hs : step h ev look remote alloc s m f = some (s', acts)) :
    ∃ A G x B, s.lp.hist = A ++ G ++ Entry.past x :: B ∧ keyAt look x = (f + 1, (look m).mSeq) ∧
      (∀ y, Entry.past y ∈ B → keyAt look y ≠ (f + 1, (look m).mSeq)) ∧
      (∀ g ∈ G, g.isPast = false) ∧ (∀ e, A.getLast? = some e → e.isPast = true) ∧
      s'.lp.hist = A ∧ s'.earlyAntis = s.earlyAntis ∧
      s'.lp.st = replay h ev init (base ++ pastMsgs A) ∧
      unprocs acts = (x, true) :: (pastMsgs B).map (fun y => (y, false)) ∧
      frees acts = [x, m] ∧
      antis acts = G ++ B.filter Entry.isSent := by
  obtain ⟨y, hy, hky⟩ := hm
  obtain ⟨A, G, e, B, hh, he, hB, hG, hA⟩ := exists_target_decomp s.lp.hist (remoteHit look (f + 1) (look m).mSeq)
    ⟨_, hy, (remoteHit_iff _ _ _ _).mpr ⟨y, rfl, hky⟩⟩
  obtain ⟨x, rfl, hkx⟩ := (remoteHit_iff _ _ _ _).mp he
  refine ⟨A, G, x, B, hh, hkx, ?_, hG, hA, anti_remote_exact hI hf hf3 A G B hh hG hA he hB hs⟩
  intro z hz hkz
  have := hB _ hz
  rw [(remoteHit_iff _ _ _ _).mpr ⟨z, rfl, hkz⟩] at this
  exact Bool.noConfusion this

/-- **(3) A remote event and its anti-message annihilate in either order.** `P.e` / `P.a`: the two messages, id word `P.w`,
sequence number `P.q`. Any run (process_msg steps on any messages, checkpoints, fossil collections) that satisfies the
environment's guarantees `Legal` (unique ids; `e` is dequeued only while it is in the queue, `a` once — see `OkOp`) and in which
the anti-message is dequeued at some point (`pre ++ [a] ++ post`). Whichever comes first — the event is a processed entry when
the anti-message is dequeued, or the event is dequeued (again) after it — at the end: `e` is not a processed entry, `a` is not on
the early list, each of the two buffers has been released exactly once over the whole trace, and the LP state is the fold over
the processed entries that remain. -/
theorem remote_cancel_any_order {P : Pair} (hP : P.Ok) {remote : Nat → Bool} {s0 s' : St σ} {T : Trace σ}
    (hE : ∃ base, LInv h ev init base s0.lp) (hfresh : P.Fresh s0)
    (pre post : List Op) (iA : Inp) (hA : iA.m = P.a)
    (hlegal : Legal P h ev remote false s0 (pre ++ Op.msg iA :: post))
    (hrun : run h ev remote s0 (pre ++ Op.msg iA :: post) = some (s', T))
    (hcomplete : (∃ s1 T1, run h ev remote s0 pre = some (s1, T1) ∧ P.e ∈ pastMsgs s1.lp.hist) ∨
                 (∃ op ∈ post, op.isE P = true)) :
    P.e ∉ pastMsgs s'.lp.hist ∧ P.a ∉ s'.earlyAntis ∧
    (frees (Trace.acts T)).count P.e = 1 ∧ (frees (Trace.acts T)).count P.a = 1 ∧
    ∃ base', s'.lp.st = replay h ev init (base' ++ pastMsgs s'.lp.hist) := by
  obtain ⟨h1, h2, h3, h4⟩ := remote_cancel_core hP hE hfresh pre post iA hA hlegal hrun hcomplete
  obtain ⟨b, hI⟩ := run_exact _ s0 s' T hE hrun
  exact ⟨h1, h2, h3, h4, b, hI.st_ok⟩

/-- (3') … and at EVERY moment of every legal run nothing is lost or released twice: before the anti-message is dequeued neither
buffer has been released; afterwards either the anti-message waits on the early list, the event is not processed and nothing has
been released (the event is still in the queue or on its way), or the pair is cancelled: each released exactly once. -/
theorem remote_pair_status {P : Pair} (hP : P.Ok) {remote : Nat → Bool} {s0 s' : St σ} {T : Trace σ}
    (hE : ∃ base, LInv h ev init base s0.lp) (hfresh : P.Fresh s0) (ops : List Op)
    (hlegal : Legal P h ev remote false s0 ops) (hrun : run h ev remote s0 ops = some (s', T)) :
    (ops.any (fun op => op.isA P) = false →
      P.a ∉ s'.earlyAntis ∧ (frees (Trace.acts T)).count P.e = 0 ∧ (frees (Trace.acts T)).count P.a = 0) ∧
    (ops.any (fun op => op.isA P) = true →
      (P.a ∈ s'.earlyAntis ∧ s'.earlyAntis.count P.a = 1 ∧ P.e ∉ pastMsgs s'.lp.hist ∧
        (frees (Trace.acts T)).count P.e = 0 ∧ (frees (Trace.acts T)).count P.a = 0) ∨
      (P.a ∉ s'.earlyAntis ∧ P.e ∉ pastMsgs s'.lp.hist ∧
        (frees (Trace.acts T)).count P.e = 1 ∧ (frees (Trace.acts T)).count P.a = 1)) := by
  have hinv := pinv_run hP ops false s0 s' [] T (pinv_init hfresh) hE hlegal hrun
  simp only [Bool.false_or, List.nil_append] at hinv
  refine ⟨fun hd => ?_, fun hd => ?_⟩
  · rw [hd] at hinv; exact hinv.before rfl
  · rw [hd] at hinv
    by_cases hm : P.a ∈ s'.earlyAntis
    · left
      obtain ⟨q1, q2, q3⟩ := hinv.parked rfl hm
      have := List.count_pos_iff.mpr hm
      have := hinv.a_once
      exact ⟨hm, by omega, q1, q2, q3⟩
    · right
      obtain ⟨q1, q2, q3⟩ := hinv.done rfl hm
      exact ⟨hm, q1, q2, q3⟩

/-- **(4) The early list is exact, over every run.** Starting from an empty list, after any run in which parked anti-messages have
pairwise different (id, seq) and keep them while they wait: `earlyAntis` is — element for element, newest first — the list of the
remote anti-messages dequeued so far that found no processed event with their (id, seq) in the history, and whose event has not
been dequeued since (`waiting`). -/
theorem early_list_exact {remote : Nat → Bool} (ops : List Op) (s0 s' : St σ) (T : Trace σ)
    (h0 : s0.earlyAntis = []) (hE : ∃ base, LInv h ev init base s0.lp)
    (hr : run h ev remote s0 ops = some (s', T))
    (hnd : ((T.filterMap parkedBy).map (·.2)).Nodup) (hks : KeysStable T) :
    s'.earlyAntis = (waiting T).map (·.1) :=
  earlyAntis_eq_waiting ops s0 s' T h0 hE hr hnd hks

/-- (4') `check_early_anti_messages` removes exactly one entry, the matching one, wherever it is in the list, keeps the others in
place, releases both buffers, and does not touch the LP -/
theorem check_early_removes_exactly_one {look : Nat → Msg} {remote : Nat → Bool} {alloc : Nat → Nat} (s : St σ) (m f b : Nat)
    (l1 l2 : List Nat) (hf : f % 2 = 0) (hf0 : f ≠ 0) (hl : s.earlyAntis = l1 ++ b :: l2)
    (hb : keyAt look b = (f + 2, (look m).mSeq)) (hl1 : ∀ c ∈ l1, keyAt look c ≠ (f + 2, (look m).mSeq)) :
    step h ev look remote alloc s m f =
      some ({ s with earlyAntis := l1 ++ l2 }, [.earlyMatch m b, .free m, .free b]) :=
  early_match_exact s m f b l1 l2 hf hf0 hl hb hl1

/-- (4'') … and when no waiting anti-message matches, the list is left alone and the event is processed -/
theorem check_early_no_match {look : Nat → Msg} {remote : Nat → Bool} {alloc : Nat → Nat} {s s' : St σ} {m f : Nat}
    {acts : List Action} (hI : LInv h ev init base s.lp) (hf : f % 2 = 0)
    (hno : ∀ c ∈ s.earlyAntis, keyAt look c ≠ (f + 2, (look m).mSeq))
    (hs : step h ev look remote alloc s m f = some (s', acts)) :
    s'.earlyAntis = s.earlyAntis ∧ (∃ k, pastMsgs s'.lp.hist = pastMsgs (s.lp.hist.take k) ++ [m]) ∧ frees acts = [] := by
  rcases step_summary hI hs with ⟨h1, _⟩ | ⟨h1, _⟩ | ⟨hf', _⟩ | ⟨_, _, b, l1, l2, hl, hb, _⟩ | ⟨_, _, k, hh, he, hfr⟩
  · omega
  · omega
  · omega
  · exact absurd hb (hno b (by rw [hl]; simp))
  · exact ⟨he, ⟨k, hh⟩, hfr⟩

/-- (4) with hypotheses on the INPUTS only: the dequeued remote anti-messages have pairwise different (id, seq), and one snapshot
function `lk`, used by every step, shows on each of them the word and sequence number it is dequeued with -/
theorem early_list_exact_of_inputs {remote : Nat → Bool} (ops : List Op) (s0 s' : St σ) (T : Trace σ) (lk : Nat → Msg)
    (h0 : s0.earlyAntis = []) (hE : ∃ base, LInv h ev init base s0.lp)
    (hr : run h ev remote s0 ops = some (s', T))
    (hnd : (ops.filterMap Op.antiKey?).Nodup)
    (hlk : ∀ op ∈ ops, ∀ i, op = Op.msg i → i.look = lk ∧ (i.f % 2 = 1 → 3 < i.f → keyAt lk i.m = i.antiKey)) :
    s'.earlyAntis = (waiting T).map (·.1) :=
  early_list_exact ops s0 s' T h0 hE hr (parked_nodup_of_ops hr hnd) (keysStable_of_const lk hr hlk)

/-! ## Non-vacuity: one concrete LP, every branch, every theorem's hypotheses -/

/-- time stamps: message ordinal `m` carries time `10 m`, except the straggler 35 (time 35) -/
def exT : Nat → Nat := fun m => if m = 35 then 35 else 10 * m
/-- handler: the state records the processed time stamps; every event of type 1 schedules one event for LP 1 (this rank) and one
for LP 7 (another rank) -/
def exH : List Nat → Event → List Nat × List Event := fun s e =>
  (s ++ [e.t], if e.type = 1 then [{ dest := 1, t := e.t + 5, type := 2, payload := [] },
                                   { dest := 7, t := e.t + 6, type := 2, payload := [] }] else [])
def exEv : Nat → Event := fun m => { dest := 0, t := exT m, type := 1, payload := [] }
def exRemote : Nat → Bool := fun d => decide (4 ≤ d)
/-- flag / id words: 3 is a processed remote event (id word 40, so 42 once processed) with sequence number 7, 50 its
anti-message; 60 and 61 are parked remote anti-messages (words 82, 86; sequence numbers 1, 2); 70 is the remote event of 60
(id word 80, sequence number 1); everything else is local and processed (word 2) -/
def exFlags : Nat → Nat := fun m => if m = 3 then 42 else if m = 50 then 43 else if m = 60 then 82 else if m = 61 then 86
  else if m = 70 then 82 else 2
def exSeq : Nat → Nat := fun m => if m = 3 then 7 else if m = 50 then 7 else if m = 60 then 1 else if m = 61 then 2
  else if m = 70 then 1 else 0
def exLook : Nat → Msg := fun m =>
  { destT := exT m, rawFlags := exFlags m, mSeq := exSeq m, mType := 1, plSize := 0, pl := [] }

/-- four processed messages with local and remote sent entries in between, two checkpoints, two parked anti-messages -/
def exS : St (List Nat) :=
  { lp := { hist := [.past 1, .sent 101, .rsent 102, .past 2, .sent 103, .rsent 104, .past 3, .sent 105, .rsent 106, .past 4]
            logs := [(0, []), (4, [10, 20])], st := [10, 20, 30, 40], bound := some 40 }
    earlyAntis := [61, 60] }

def view (r : Option (St (List Nat) × List Action)) :=
  r.map (fun x => (x.1.lp.hist, x.1.lp.st, x.1.lp.logs, x.1.lp.bound, x.1.earlyAntis, x.2))

/-- the state satisfies the invariant -/
theorem exS_wf : WF exH exEv exLook [] [] exS :=
  ⟨⟨by decide, by decide, by decide⟩,
   ⟨by unfold Sorted; decide, by
      intro m hm; refine ⟨40, rfl, ?_⟩
      have : m = 1 ∨ m = 2 ∨ m = 3 ∨ m = 4 := by simpa [exS, pastMsgs] using hm
      rcases this with h | h | h | h <;> subst h <;> decide,
    by intro e he; simp [exS] at he; subst he; rfl,
    by intro m _; unfold Msg.WF exLook; simp⟩⟩

example : ∃ x ∈ exS.lp.logs, x.1 = 0 := ⟨(0, []), by decide, rfl⟩

/-- local anti-message (`f = 3`) for message 2, a target in the middle of the history: the history shrinks to `[past 1]`; 101, 102
(sent by 2 itself), 103 … 106 are cancelled; 3 and 4 are un-processed (re-queued), 2 with the `cancelled` mark; 2 is released -/
example : view (step exH exEv exLook exRemote (fun k => 200 + k) exS 2 3) =
    some ([.past 1], [10], [(0, [])], some 40, [61, 60],
      [.antiLocal 101, .antiRemote 102, .freeAtGvt 102, .unproc 2 true, .antiLocal 103, .antiRemote 104, .freeAtGvt 104,
       .unproc 3 false, .antiLocal 105, .antiRemote 106, .freeAtGvt 106, .unproc 4 false, .rollback 1 0, .silent 0 1,
       .rollbackDone 1, .termRollback 20, .antiDiscard 2 3, .free 2]) := by rfl
example : Entry.past 2 ∈ exS.lp.hist := by decide

/-- remote anti-message 50 (flag word 41 = id 40 + ANTI) for the processed remote event 3: found by (42, 7), rollback to the start of
3's group (index 4 = a checkpoint: nothing to re-execute), both released -/
example : view (step exH exEv exLook exRemote (fun k => 200 + k) exS 50 41) =
    some ([.past 1, .sent 101, .rsent 102, .past 2], [10, 20], [(0, []), (4, [10, 20])], some 40, [61, 60],
      [.markAnti 3, .antiLocal 103, .antiRemote 104, .freeAtGvt 104, .unproc 3 true, .antiLocal 105, .antiRemote 106,
       .freeAtGvt 106, .unproc 4 false, .rollback 4 4, .rollbackDone 4, .termRollback 30, .free 3, .free 50]) := by rfl
example : ∃ y, Entry.past y ∈ exS.lp.hist ∧ keyAt exLook y = (41 + 1, (exLook 50).mSeq) := ⟨3, by decide, by decide⟩

/-- remote anti-message 91 whose event has not arrived: parked in front of the two already waiting -/
example : view (step exH exEv exLook exRemote (fun k => 200 + k) exS 91 91) =
    some (exS.lp.hist, [10, 20, 30, 40], exS.lp.logs, some 40, [91, 61, 60], [.earlyPark 91]) := by rfl

/-- remote event 70 (id word 80, sequence number 1): its anti-message 60 is the SECOND entry of the early list; exactly that entry is
unlinked, 61 stays, nothing is processed -/
example : view (step exH exEv exLook exRemote (fun k => 200 + k) exS 70 80) =
    some (exS.lp.hist, [10, 20, 30, 40], exS.lp.logs, some 40, [61], [.earlyMatch 70 60, .free 70, .free 60]) := by rfl
example : exS.earlyAntis = [61] ++ 60 :: [] ∧ keyAt exLook 60 = (80 + 2, (exLook 70).mSeq) ∧
    (∀ c ∈ [61], keyAt exLook c ≠ (80 + 2, (exLook 70).mSeq)) := by decide

/-- local anti-message of a message that was never processed (`f = 1`): discarded -/
example : view (step exH exEv exLook exRemote (fun k => 200 + k) exS 90 1) =
    some (exS.lp.hist, [10, 20, 30, 40], exS.lp.logs, some 40, [61, 60], [.antiDiscard 90 1, .free 90]) := by rfl

/-- ordinary message 5 (time 50, not a straggler): processed, one local and one remote output -/
example : view (step exH exEv exLook exRemote (fun k => 200 + k) exS 5 0) =
    some (exS.lp.hist ++ [.sent 200, .rsent 201, .past 5], [10, 20, 30, 40, 50], exS.lp.logs, some 50, [61, 60],
      [.send 200 { dest := 1, t := 55, type := 2, payload := [] }, .rsend 201 { dest := 7, t := 56, type := 2, payload := [] },
       .forward 5 12]) := by rfl

/-- straggler 35 (time 35): message 4 is undone and re-queued, its outputs cancelled, then 35 is processed -/
example : view (step exH exEv exLook exRemote (fun k => 200 + k) exS 35 0) =
    some ([.past 1, .sent 101, .rsent 102, .past 2, .sent 103, .rsent 104, .past 3, .sent 200, .rsent 201, .past 35],
      [10, 20, 30, 35], [(0, []), (4, [10, 20])], some 35, [61, 60],
      [.antiLocal 105, .antiRemote 106, .freeAtGvt 106, .unproc 4 false, .rollback 7 4, .silent 6 3, .rollbackDone 7,
       .termRollback 35, .send 200 { dest := 1, t := 40, type := 2, payload := [] },
       .rsend 201 { dest := 7, t := 41, type := 2, payload := [] }, .forward 35 9]) := by rfl
example : (exLook 35).WF ∧ (exLook 35).destT = (exEv 35).t ∧ (exLook 35).rawFlags = 0 + 2 := by decide

/-! ### the target at index 0 of the history, after a fossil collection -/

/-- message 3 produced no output; the checkpoint (3, [10, 20]) is the one fossil collection at GVT 25 keeps -/
def exS2 : St (List Nat) :=
  { lp := { hist := [.past 1, .sent 101, .past 2, .past 3, .sent 105, .past 4]
            logs := [(0, []), (3, [10, 20])], st := [10, 20, 30, 40], bound := some 40 } }

def inp (m f : Nat) : Inp := { m := m, f := f, look := exLook, alloc := fun k => 200 + 10 * m + k }

def viewR (r : Option (St (List Nat) × Trace (List Nat))) :=
  r.map (fun x => (x.1.lp.hist, x.1.lp.st, x.1.lp.logs, x.1.lp.bound, x.1.earlyAntis, Trace.acts x.2))

example : LInv exH exEv [] [] exS2.lp := ⟨by decide, by decide, by decide⟩

/-- fossil collection releases 2 and 1 (index 2 down to 0, the local sent entry 101 is only dropped) and leaves `[past 3, sent 105,
past 4]` with the checkpoint rebased to 0; then the remote anti-message 50 finds its event 3 in slot 0: rollback to index 0, the
history becomes empty, `bound` becomes -1 (`none`), the state is the checkpoint's (= the fold over the committed 1, 2) -/
example : viewR (run exH exEv exRemote exS2 [.fossil 25 1, .msg (inp 50 41)]) =
    some ([], [10, 20], [(0, [10, 20])], none, [],
      [.free 2, .free 1,
       .markAnti 3, .unproc 3 true, .antiLocal 105, .unproc 4 false, .rollback 0 0, .rollbackDone 0, .termRollback 30,
       .free 3, .free 50]) := by rfl

/-! ### a remote event and its anti-message: three orders -/

def exS0 : St (List Nat) := { exS with earlyAntis := [61] }
/-- event 70 (id word 80, sequence number 1) and its anti-message 60 -/
def exP : Pair := { e := 70, a := 60, w := 80, q := 1 }
example : exP.Ok := ⟨by decide, by decide, by decide⟩
example : exP.Fresh exS0 := ⟨by decide, by decide, by decide, by decide⟩
example : ∃ base, LInv exH exEv [] base exS0.lp := ⟨[], exS_wf.linv⟩

/-- A: the anti-message first (parked), an unrelated message in between, then the event (annihilated on arrival) -/
def opsA : List Op := [.msg (inp 60 81), .msg (inp 5 0), .msg (inp 70 80)]
/-- B: the event first (processed), a checkpoint and an unrelated local anti-message, then the anti-message (rollback) -/
def opsB : List Op := [.msg (inp 70 80), .ckpt, .msg (inp 90 1), .msg (inp 60 81)]
/-- C: the event is processed, a straggler (5, time 50 < 700) rolls it back into the queue, the anti-message arrives and must
wait, the event is dequeued again and annihilated -/
def opsC : List Op := [.msg (inp 70 80), .msg (inp 5 0), .msg (inp 60 81), .ckpt, .msg (inp 70 80)]

example : Legal exP exH exEv exRemote false exS0 opsA := by decide
example : Legal exP exH exEv exRemote false exS0 opsB := by decide
example : Legal exP exH exEv exRemote false exS0 opsC := by decide

/-- `hcomplete` in the three orders -/
example : ∃ op ∈ [Op.msg (inp 5 0), Op.msg (inp 70 80)], op.isE exP = true := ⟨_, List.mem_cons_of_mem _ (List.mem_singleton.mpr rfl), rfl⟩
example : ∃ s1 T1, run exH exEv exRemote exS0 [.msg (inp 70 80), .ckpt, .msg (inp 90 1)] = some (s1, T1) ∧
    exP.e ∈ pastMsgs s1.lp.hist := by
  have h1 : (run exH exEv exRemote exS0 [.msg (inp 70 80), .ckpt, .msg (inp 90 1)]).map
      (fun r => decide (exP.e ∈ pastMsgs r.1.lp.hist)) = some true := by rfl
  cases hr : run exH exEv exRemote exS0 [.msg (inp 70 80), .ckpt, .msg (inp 90 1)] with
  | none => rw [hr] at h1; cases h1
  | some r =>
    rw [hr] at h1
    exact ⟨r.1, r.2, rfl, by simpa using h1⟩
example : ∃ op ∈ [Op.ckpt, Op.msg (inp 70 80)], op.isE exP = true := ⟨_, List.mem_cons_of_mem _ (List.mem_singleton.mpr rfl), rfl⟩

/-- the three runs are defined and end in the same cancelled situation: 70 is not processed, 60 is not waiting, each released once -/
def viewP (r : Option (St (List Nat) × Trace (List Nat))) :=
  r.map (fun x => (pastMsgs x.1.lp.hist, x.1.lp.st, x.1.earlyAntis, frees (Trace.acts x.2)))
example : viewP (run exH exEv exRemote exS0 opsA) = some ([1, 2, 3, 4, 5], [10, 20, 30, 40, 50], [61], [70, 60]) := by rfl
example : viewP (run exH exEv exRemote exS0 opsB) = some ([1, 2, 3, 4], [10, 20, 30, 40], [61], [90, 70, 60]) := by rfl
example : viewP (run exH exEv exRemote exS0 opsC) = some ([1, 2, 3, 4, 5], [10, 20, 30, 40, 50], [61], [70, 60]) := by rfl

/-! ### the early list over a run -/

def exS1 : St (List Nat) := { exS with earlyAntis := [] }
/-- two anti-messages are parked (60, then 61), an unrelated message is processed, the event of the OLDER one (60) arrives -/
def opsE : List Op := [.msg (inp 60 81), .msg (inp 61 85), .msg (inp 5 0), .msg (inp 70 80)]

example : (opsE.filterMap Op.antiKey?).Nodup := by decide
example : ∀ op ∈ opsE, ∀ i, op = Op.msg i →
    i.look = exLook ∧ (i.f % 2 = 1 → 3 < i.f → keyAt exLook i.m = i.antiKey) := by
  intro op hop i hi
  simp only [opsE, List.mem_cons, List.not_mem_nil, or_false] at hop
  rcases hop with rfl | rfl | rfl | rfl <;> (cases hi; exact ⟨rfl, by decide⟩)
example : (run exH exEv exRemote exS1 opsE).map (fun r => (r.1.earlyAntis, (waiting r.2).map (·.1))) =
    some ([61], [61]) := by rfl
/-- … and before the event arrives both wait, newest first -/
example : (run exH exEv exRemote exS1 (opsE.take 3)).map (fun r => (r.1.earlyAntis, (waiting r.2).map (·.1))) =
    some ([61, 60], [61, 60]) := by rfl

/-- Why (3) is not stated as "after both have been dequeued": in run C, after the event, the straggler and the anti-message —
both members of the pair HAVE been dequeued — the anti-message is waiting on the early list and nothing has been released: the
straggler's rollback put the event back into the queue (`unproc 70 false`), and only its second dequeue completes the
cancellation. `remote_pair_status` covers this intermediate situation, `remote_cancel_any_order` the completed one. -/
theorem both_dequeued_is_not_enough :
    (run exH exEv exRemote exS0 (opsC.take 3)).map (fun r =>
      (r.1.earlyAntis, pastMsgs r.1.lp.hist, frees (Trace.acts r.2), (unprocs (Trace.acts r.2)).filter (fun x => x.1 == 70))) =
    some ([60, 61], [1, 2, 3, 4, 5], [], [(70, false)]) := by rfl

end RootSim.C06LP
