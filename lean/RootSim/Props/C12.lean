import RootSim.Proofs.AllocInv
/-!
# C12 — the allocator returns valid, disjoint, stable blocks

Model: `RootSim/Model/Alloc.lean` (`rs_malloc`, `rs_calloc`, `rs_realloc`, `rs_free` over several
buddy systems).  All theorems hold for every configuration `c` with `0 < B ≤ T` (`Cfg.ok`), every
reachable state (`Inv`, shown to be an invariant of *every* API call including checkpoint take /
restore / fossil collection, (1)), every size, every placement `ins` of new arenas and every
initial content `c.junk` of fresh arenas.

`s.live c` is the list of live blocks `(arena, offset, order)`; `s.bytes b` the content of a block.
-/
namespace RootSim.C12
open RootSim.Alloc

/-! ## (1) the invariant -/

theorem inv_init (c : Cfg) : Inv c (MM.init c) := ⟨[], GInv_init c⟩

theorem inv_step {c : Cfg} (hc : c.ok) {s s' : MM} {op : Op} {r : Ret} (hI : Inv c s)
    (h : step c s op = some (s', r)) : Inv c s' := by
  obtain ⟨snaps, hG⟩ := hI
  obtain ⟨sn, hg⟩ := gstep_of_step (g := ⟨s, snaps⟩) h
  exact ⟨sn, hG.step hc hg⟩

theorem inv_run {c : Cfg} (hc : c.ok) {s s' : MM} {ops : List Op} (hI : Inv c s)
    (h : run c s ops = some s') : Inv c s' := by
  induction ops generalizing s with
  | nil => simp [run] at h; subst h; exact hI
  | cons op ops ih =>
    simp only [run] at h
    split at h
    · rename_i s1 r hs; exact ih (inv_step hc hI hs) h
    · simp at h

/-- what the invariant says about the arenas: trees well-formed, memory of size `2^T`, identities
unique, and `full_ckpt_size = base + Σ_arenas (perArena + Σ live block sizes)` -/
theorem inv_arenas {c : Cfg} {s : MM} (hI : Inv c s) :
    (∀ a ∈ s.arenas, a.tree.WF c.B c.T ∧ a.mem.length = 2 ^ c.T) ∧ (s.arenas.map (·.id)).Nodup ∧
    s.full = c.base + (s.arenas.map fun a => c.perArena + a.tree.liveBytes c.T).sum :=
  ⟨hI.inv0.ok, hI.inv0.nodup, hI.inv0.full⟩

/-- every live block: order between `B` and `T`, inside the arena, aligned to its size -/
theorem live_block_valid {c : Cfg} {s : MM} (hI : Inv c s) {id o k : Nat} (h : (id, o, k) ∈ s.live c) :
    c.B ≤ k ∧ k ≤ c.T ∧ o + 2 ^ k ≤ 2 ^ c.T ∧ 2 ^ k ∣ o := live_bounds hI.inv0 h

/-- live blocks never overlap -/
theorem live_blocks_disjoint {c : Cfg} {s : MM} (hI : Inv c s) {id o1 k1 o2 k2 : Nat}
    (h1 : (id, o1, k1) ∈ s.live c) (h2 : (id, o2, k2) ∈ s.live c) (hne : (o1, k1) ≠ (o2, k2)) :
    o1 + 2 ^ k1 ≤ o2 ∨ o2 + 2 ^ k2 ≤ o1 := live_disjoint hI.inv0 h1 h2 hne

/-! ## (2) size, bounds, alignment of a successful allocation -/

/-- `buddy_allocation_block_compute(n)` is the least `k ≥ B` with `n ≤ 2^k`, i.e. `max B ⌈log2 n⌉` -/
theorem blockExp_is_max_B_clog2 (B n k : Nat) : blockExp B n ≤ k ↔ B ≤ k ∧ n ≤ 2 ^ k := blockExp_le_iff B n k

theorem malloc_block {c : Cfg} (hc : c.ok) {s s' : MM} {n ins : Nat} {p : Ptr} (hI : Inv c s)
    (h : rsMalloc c s n ins = (s', .ptr p)) :
    c.B ≤ blockExp c.B n ∧ n ≤ 2 ^ blockExp c.B n ∧ (c.B < blockExp c.B n → 2 ^ (blockExp c.B n - 1) < n) ∧
    (p.aid, p.off, blockExp c.B n) ∈ s'.live c ∧
    p.off + 2 ^ blockExp c.B n ≤ 2 ^ c.T ∧ 2 ^ blockExp c.B n ∣ p.off := by
  have hA := rsMalloc_ptr hc hI.inv0 h
  have hb := blockExp_spec c.B n
  exact ⟨hb.1, hb.2.1, hb.2.2, (hA.live _).2 (Or.inl rfl), hA.inside, hA.aligned⟩

/-- every request `0 < n ≤ 2^T` succeeds -/
theorem malloc_succeeds {c : Cfg} (hc : c.ok) {s : MM} (hI : Inv c s) {n : Nat} (ins : Nat) (h0 : 0 < n)
    (hT : n ≤ 2 ^ c.T) : ∃ s' p, rsMalloc c s n ins = (s', .ptr p) := by
  rcases rsMalloc_cases hc hI.inv0 n ins with ⟨h, _⟩ | ⟨h, _⟩ | ⟨_, _, h⟩
  · omega
  · omega
  · exact h

/-! ## (3) the new block is fresh and disjoint; live set = before ∪ {new} -/

theorem malloc_live {c : Cfg} (hc : c.ok) {s s' : MM} {n ins : Nat} {p : Ptr} (hI : Inv c s)
    (h : rsMalloc c s n ins = (s', .ptr p)) :
    (p.aid, p.off, blockExp c.B n) ∉ s.live c ∧
    ∀ b, b ∈ s'.live c ↔ b = (p.aid, p.off, blockExp c.B n) ∨ b ∈ s.live c :=
  ⟨(rsMalloc_ptr hc hI.inv0 h).fresh, (rsMalloc_ptr hc hI.inv0 h).live⟩

theorem malloc_disjoint {c : Cfg} (hc : c.ok) {s s' : MM} {n ins : Nat} {p : Ptr} (hI : Inv c s)
    (h : rsMalloc c s n ins = (s', .ptr p)) {o j : Nat} (hb : (p.aid, o, j) ∈ s.live c) :
    o + 2 ^ j ≤ p.off ∨ p.off + 2 ^ blockExp c.B n ≤ o := by
  have hA := rsMalloc_ptr hc hI.inv0 h
  have h1 : (p.aid, o, j) ∈ s'.live c := (hA.live _).2 (Or.inr hb)
  have h2 : (p.aid, p.off, blockExp c.B n) ∈ s'.live c := (hA.live _).2 (Or.inl rfl)
  apply live_disjoint hA.inv h1 h2
  intro he
  simp at he
  apply hA.fresh
  rw [← he.1, ← he.2]; exact hb

/-! ## (4) free -/

theorem free_live {c : Cfg} (hc : c.ok) {s : MM} {p : Ptr} {j : Nat} (hI : Inv c s)
    (hp : (p.aid, p.off, j) ∈ s.live c) :
    ∃ s', rsFree c s (some p) = some s' ∧
      (∀ b, b ∈ s'.live c ↔ b ∈ s.live c ∧ b ≠ (p.aid, p.off, j)) ∧ s'.full + 2 ^ j = s.full ∧
      (∀ b ∈ s'.live c, s'.bytes b = s.bytes b) := by
  obtain ⟨s', h1, h2⟩ := rsFree_spec hc hI.inv0 hp
  refine ⟨s', h1, h2.live, h2.full, ?_⟩
  intro b hb
  exact bytes_of_mem hI.inv0 h2.inv h2.mem ((h2.live b).1 hb).1

/-- reusable: right after `free` of a block of order `j`, its arena can serve a request of that order
(`buddy_malloc` does not return `NULL`), so `rs_malloc` of any size of that order does not create a
new arena -/
theorem free_reusable {c : Cfg} (hc : c.ok) {s s' : MM} {p : Ptr} {j : Nat} (hI : Inv c s)
    (hp : (p.aid, p.off, j) ∈ s.live c) (hf : rsFree c s (some p) = some s') :
    (∃ a ∈ s'.arenas, a.id = p.aid ∧ (a.tree.bmalloc c.T j).isSome) ∧
    ∀ n ins s'' r, 0 < n → blockExp c.B n = j → rsMalloc c s' n ins = (s'', r) →
      (∃ q, r = .ptr q) ∧ s''.arenas.length = s'.arenas.length := by
  obtain ⟨s1, h1, h2⟩ := rsFree_spec hc hI.inv0 hp
  rw [hf] at h1; simp at h1; subst h1
  obtain ⟨a, ha, he, hl⟩ := h2.reusable
  have hb := live_bounds hI.inv0 hp
  constructor
  · refine ⟨a, ha, he, ?_⟩
    obtain ⟨t', off, q, _⟩ := BT.bmalloc_spec hc.1 hb.1 hb.2.1 (h2.inv.ok a ha).1 hl
    simp [q]
  · intro n ins s'' r hpos hn hm
    refine ⟨?_, rsMalloc_no_grow hc h2.inv ha (by rw [hn]; exact hl) hm⟩
    rcases rsMalloc_cases hc h2.inv n ins with ⟨h0, _⟩ | ⟨hT, _⟩ | ⟨_, _, s3, q, h3⟩
    · omega
    · have := (two_pow_T_lt_iff hc n).2 hT; omega
    · rw [h3] at hm; simp at hm; exact ⟨q, hm.2.symm⟩


/-- full coalescing: an arena without live blocks is back in its initial state (`buddy_init`), whatever
the order in which its blocks were freed -/
theorem free_all_coalesces {c : Cfg} {s : MM} (hI : Inv c s) {a : Arena} (ha : a ∈ s.arenas)
    (hnone : ∀ b ∈ s.live c, b.1 ≠ a.id) : a.tree = .free := by
  apply BT.eq_free_of_blocks_nil (hI.inv0.ok a ha).1 0
  apply List.eq_nil_iff_forall_not_mem.2
  intro b hb
  exact hnone (a.id, b.1, b.2) (mem_live.2 ⟨a, ha, rfl, hb⟩) rfl

/-! ## (5) frame / stability -/

/-- the block an operation acts on -/
def target : Op → Option (Nat × Nat)
  | .realloc (some p) _ _ => some (p.aid, p.off)
  | .free (some p) => some (p.aid, p.off)
  | .write p _ _ => some (p.aid, p.off)
  | _ => none

/-- **stability**: any malloc / calloc / realloc / free / store leaves every live block other than its
target live and with unchanged content -/
theorem frame {c : Cfg} (hc : c.ok) {s s' : MM} {op : Op} {r : Ret} (hI : Inv c s) (hu : op.isUser = true)
    (h : step c s op = some (s', r)) {b : Nat × Nat × Nat} (hb : b ∈ s.live c)
    (hne : target op ≠ some (b.1, b.2.1)) : b ∈ s'.live c ∧ s'.bytes b = s.bytes b := by
  have hI0 := hI.inv0
  have malloc_case : ∀ {n ins s' r}, rsMalloc c s n ins = (s', r) → b ∈ s'.live c ∧ s'.bytes b = s.bytes b := by
    intro n ins s' r hm
    by_cases hr : ∃ p, r = .ptr p
    · obtain ⟨p, rfl⟩ := hr
      have hA := rsMalloc_ptr hc hI0 hm
      exact ⟨(hA.live b).2 (Or.inr hb), bytes_of_mem hI0 hA.inv hA.mem hb⟩
    · have := (rsMalloc_not_ptr hc hI0 hm (fun p hp => hr ⟨p, hp⟩)).1
      subst this; exact ⟨hb, rfl⟩
  cases op with
  | malloc n ins =>
    simp only [step] at h
    split at h
    · simp only [Option.some.injEq] at h; exact malloc_case h
    · simp at h
  | calloc nm sz ins =>
    simp only [step] at h
    split at h
    · simp only [Option.some.injEq] at h
      by_cases hr : ∃ p, r = .ptr p
      · obtain ⟨p, rfl⟩ := hr
        obtain ⟨s1, hA, hP⟩ := rsCalloc_ptr hc hI0 h
        have hb1 : b ∈ s1.live c := (hA.live b).2 (Or.inr hb)
        refine ⟨by rw [hP.live]; exact hb1, ?_⟩
        have hnew : (p.aid, p.off, blockExp c.B (nm * sz % 2 ^ 64)) ∈ s1.live c := (hA.live _).2 (Or.inl rfl)
        have := (blockExp_spec c.B (nm * sz % 2 ^ 64)).2.1
        rw [poke_bytes_other hA.inv hP hnew (Nat.le_refl _) (by simp; omega) hb1
          (fun he => hA.fresh (he ▸ hb))]
        exact bytes_of_mem hI0 hA.inv hA.mem hb
      · have := (rsCalloc_not_ptr hc hI0 h (fun p hp => hr ⟨p, hp⟩)).1
        subst this; exact ⟨hb, rfl⟩
    · simp at h
  | realloc p n ins =>
    simp only [step] at h
    split at h
    · rename_i hl
      by_cases hn : n = 0
      · simp [rsRealloc, hn] at h
        rw [← h.1]; exact ⟨hb, rfl⟩
      · cases p with
        | none =>
          simp only [rsRealloc, hn, if_false, Option.some.injEq] at h
          exact malloc_case h
        | some p =>
          obtain ⟨j, hj⟩ := legal_some hI0 hl.2
          have hbp : b ≠ (p.aid, p.off, j) := by
            intro he; apply hne; simp [target, he]
          rcases rsRealloc_spec hc hI0 hj n ins (by omega) with ⟨_, h1⟩ | ⟨_, _, h1⟩ |
            ⟨_, _, s1, s3, q, h1, hA, hP, hF⟩
          · rw [h1] at h; simp at h; rw [← h.1]; exact ⟨hb, rfl⟩
          · rw [h1] at h; simp at h; rw [← h.1]; exact ⟨hb, rfl⟩
          · rw [h1] at h; simp at h; rw [← h.1]
            have hb1 : b ∈ s1.live c := (hA.live b).2 (Or.inr hb)
            have hb2 : b ∈ (s1.poke q.aid q.off (s1.peek p.aid p.off (min n (2 ^ j)))).live c := by
              rw [hP.live]; exact hb1
            have hb3 : b ∈ s3.live c := (hF.live b).2 ⟨hb2, hbp⟩
            refine ⟨hb3, ?_⟩
            rw [bytes_of_mem hP.inv hF.inv hF.mem hb2]
            have hnew : (q.aid, q.off, blockExp c.B n) ∈ s1.live c := (hA.live _).2 (Or.inl rfl)
            have hq := live_bounds hA.inv hnew
            have hpb := live_bounds hI0 hj
            have hlen : (s1.peek p.aid p.off (min n (2 ^ j))).length = min n (2 ^ j) := by
              have hp1 : (p.aid, p.off, j) ∈ s1.live c := (hA.live _).2 (Or.inr hj)
              obtain ⟨ap, hap, hep⟩ := mem_arena_of_live hp1
              simp at hep
              rw [← hep]; apply peek_length hA.inv hap; omega
            have := (blockExp_spec c.B n).2.1
            rw [poke_bytes_other hA.inv hP hnew (Nat.le_refl _) (by rw [hlen]; omega) hb1
              (fun he => hA.fresh (he ▸ hb))]
            exact bytes_of_mem hI0 hA.inv hA.mem hb
    · simp at h
  | free p =>
    simp only [step] at h
    split at h
    · rename_i hl
      cases p with
      | none => simp [rsFree] at h; rw [← h.1]; exact ⟨hb, rfl⟩
      | some p =>
        obtain ⟨j, hj⟩ := legal_some hI0 hl
        have hbp : b ≠ (p.aid, p.off, j) := by
          intro he; apply hne; simp [target, he]
        obtain ⟨s3, h1, hF⟩ := rsFree_spec hc hI0 hj
        rw [h1] at h; simp at h; rw [← h.1]
        exact ⟨(hF.live b).2 ⟨hb, hbp⟩, bytes_of_mem hI0 hF.inv hF.mem hb⟩
    · simp at h
  | write p i bs =>
    simp only [step] at h
    split at h
    · rename_i k hk
      split at h
      · rename_i hle
        simp at h
        have hl := (blockAt_iff hI0 p k).1 hk
        have hbd := live_bounds hI0 hl
        obtain ⟨a, ha, he⟩ := mem_arena_of_live hl
        simp at he
        have hP := poke_spec hI0 ha (p.off + i) bs (by omega)
        rw [he] at hP
        rw [← h.1]
        refine ⟨by rw [hP.live]; exact hb, ?_⟩
        apply poke_bytes_other hI0 hP hl (by omega) (by omega) hb
        intro he'; apply hne; simp [target, he']
      · simp at h
    · simp at h
  | take _ => simp [Op.isUser] at hu
  | restore _ => simp [Op.isUser] at hu
  | fossil _ => simp [Op.isUser] at hu


/-! ## (6) realloc, clean failures -/

theorem realloc_in_place {c : Cfg} (hc : c.ok) {s : MM} {p : Ptr} {j n : Nat} (ins : Nat) (hI : Inv c s)
    (hp : (p.aid, p.off, j) ∈ s.live c) (hn : 0 < n) (hj : blockExp c.B n = j) :
    rsRealloc c s (some p) n ins = some (s, .ptr p) := by
  rcases rsRealloc_spec hc hI.inv0 hp n ins hn with ⟨_, h1⟩ | ⟨h0, _⟩ | ⟨h0, _⟩
  · exact h1
  · exact absurd hj.symm h0
  · exact absurd hj.symm h0

/-- a realloc that changes the order: new block valid and fresh, old block gone, every other block
kept, the first `min n (old size)` bytes carried over -/
theorem realloc_moves {c : Cfg} (hc : c.ok) {s : MM} {p : Ptr} {j n : Nat} (ins : Nat) (hI : Inv c s)
    (hp : (p.aid, p.off, j) ∈ s.live c) (hn : 0 < n) (hT : n ≤ 2 ^ c.T) (hj : blockExp c.B n ≠ j) :
    ∃ s' q, rsRealloc c s (some p) n ins = some (s', .ptr q) ∧
      (q.aid, q.off, blockExp c.B n) ∉ s.live c ∧
      (∀ b, b ∈ s'.live c ↔ b = (q.aid, q.off, blockExp c.B n) ∨ (b ∈ s.live c ∧ b ≠ (p.aid, p.off, j))) ∧
      q.off + 2 ^ blockExp c.B n ≤ 2 ^ c.T ∧ 2 ^ blockExp c.B n ∣ q.off ∧ n ≤ 2 ^ blockExp c.B n ∧
      (s'.bytes (q.aid, q.off, blockExp c.B n)).take (min n (2 ^ j)) =
        (s.bytes (p.aid, p.off, j)).take (min n (2 ^ j)) := by
  have hI0 := hI.inv0
  rcases rsRealloc_spec hc hI0 hp n ins hn with ⟨h0, _⟩ | ⟨_, h0, _⟩ | ⟨_, _, s1, s3, q, h1, hA, hP, hF⟩
  · exact absurd h0.symm hj
  · omega
  · have hble := (blockExp_spec c.B n).2.1
    have hq1 : (q.aid, q.off, blockExp c.B n) ∈ s1.live c := (hA.live _).2 (Or.inl rfl)
    have hp1 : (p.aid, p.off, j) ∈ s1.live c := (hA.live _).2 (Or.inr hp)
    have hpb := live_bounds hI0 hp
    have hqb := live_bounds hA.inv hq1
    have hqp : (q.aid, q.off, blockExp c.B n) ≠ (p.aid, p.off, j) := fun he => hA.fresh (he ▸ hp)
    refine ⟨s3, q, h1, hA.fresh, ?_, hA.inside, hA.aligned, hble, ?_⟩
    · intro b
      rw [hF.live, hP.live, hA.live]
      constructor
      · rintro ⟨hb | hb, hne⟩
        · exact Or.inl hb
        · exact Or.inr ⟨hb, hne⟩
      · rintro (rfl | ⟨hb, hne⟩)
        · exact ⟨Or.inl rfl, hqp⟩
        · exact ⟨Or.inr hb, hne⟩
    · have hq2 : (q.aid, q.off, blockExp c.B n) ∈
          (s1.poke q.aid q.off (s1.peek p.aid p.off (min n (2 ^ j)))).live c := by rw [hP.live]; exact hq1
      rw [bytes_of_mem hP.inv hF.inv hF.mem hq2]
      obtain ⟨ap, hap, hep⟩ := mem_arena_of_live hp1
      simp at hep
      have hlen : (s1.peek p.aid p.off (min n (2 ^ j))).length = min n (2 ^ j) := by
        rw [← hep]; apply peek_length hA.inv hap; omega
      unfold MM.bytes
      simp only
      rw [peek_take, peek_take]
      have e1 : min (min n (2 ^ j)) (2 ^ blockExp c.B n) = min n (2 ^ j) := by omega
      have e2 : min (min n (2 ^ j)) (2 ^ j) = min n (2 ^ j) := by omega
      rw [e1, e2]
      have hs := hP.same
      rw [hlen] at hs
      rw [hs]
      obtain ⟨a0, ha0, he0⟩ := mem_arena_of_live hp
      simp at he0
      rw [← he0]
      exact peek_of_mem hI0 hA.inv hA.mem ha0 _ _

theorem malloc_zero (c : Cfg) (s : MM) (ins : Nat) : rsMalloc c s 0 ins = (s, .null) := by simp [rsMalloc]

theorem malloc_too_big {c : Cfg} (hc : c.ok) (s : MM) {n : Nat} (ins : Nat) (h : 2 ^ c.T < n) :
    rsMalloc c s n ins = (s, .enomem) := by
  have h0 : n ≠ 0 := by have := Nat.two_pow_pos c.T; omega
  simp [rsMalloc, h0, (two_pow_T_lt_iff hc n).2 h]

theorem calloc_zero_product (c : Cfg) (s : MM) {nm sz : Nat} (ins : Nat) (h : nm * sz = 0) :
    rsCalloc c s nm sz ins = (s, .null) := by simp [rsCalloc, h, rsMalloc]

theorem realloc_zero (c : Cfg) (s : MM) (p : Ptr) (ins : Nat) : rsRealloc c s (some p) 0 ins = some (s, .null) := by
  simp [rsRealloc]

theorem realloc_null_zero (c : Cfg) (s : MM) (ins : Nat) : rsRealloc c s none 0 ins = some (s, .einval) := by
  simp [rsRealloc]

theorem realloc_null (c : Cfg) (s : MM) {n : Nat} (ins : Nat) (h : 0 < n) :
    rsRealloc c s none n ins = some (rsMalloc c s n ins) := by
  have : n ≠ 0 := by omega
  simp [rsRealloc, this]

theorem realloc_too_big {c : Cfg} (hc : c.ok) {s : MM} {p : Ptr} {j n : Nat} (ins : Nat) (hI : Inv c s)
    (hp : (p.aid, p.off, j) ∈ s.live c) (h : 2 ^ c.T < n) :
    rsRealloc c s (some p) n ins = some (s, .enomem) := by
  have h0 : 0 < n := by have := Nat.two_pow_pos c.T; omega
  rcases rsRealloc_spec hc hI.inv0 hp n ins h0 with ⟨hj, _⟩ | ⟨_, _, h1⟩ | ⟨_, hT, _⟩
  · have := (live_bounds hI.inv0 hp).2.1
    have := (two_pow_T_lt_iff hc n).2 h
    omega
  · exact h1
  · omega

/-! ## (7) calloc -/

theorem calloc_zeroed {c : Cfg} (hc : c.ok) {s s' : MM} {nm sz ins : Nat} {p : Ptr} (hI : Inv c s)
    (hov : nm * sz < 2 ^ 64) (h : rsCalloc c s nm sz ins = (s', .ptr p)) :
    (p.aid, p.off, blockExp c.B (nm * sz)) ∉ s.live c ∧
    (∀ b, b ∈ s'.live c ↔ b = (p.aid, p.off, blockExp c.B (nm * sz)) ∨ b ∈ s.live c) ∧
    nm * sz ≤ 2 ^ blockExp c.B (nm * sz) ∧ p.off + 2 ^ blockExp c.B (nm * sz) ≤ 2 ^ c.T ∧
    2 ^ blockExp c.B (nm * sz) ∣ p.off ∧
    (s'.bytes (p.aid, p.off, blockExp c.B (nm * sz))).take (nm * sz) = List.replicate (nm * sz) 0 := by
  obtain ⟨s1, hA, hP⟩ := rsCalloc_ptr hc hI.inv0 h
  rw [Nat.mod_eq_of_lt hov] at hA hP
  have hble := (blockExp_spec c.B (nm * sz)).2.1
  refine ⟨hA.fresh, ?_, hble, hA.inside, hA.aligned, ?_⟩
  · intro b; rw [hP.live]; exact hA.live b
  · unfold MM.bytes
    simp only
    rw [peek_take]
    have e1 : min (nm * sz) (2 ^ blockExp c.B (nm * sz)) = nm * sz := by omega
    rw [e1]
    have := hP.same
    simpa using this

/-- **Defect of the pinned code (`callocChecked = false`; outside `calloc_zeroed`'s hypothesis
`nmemb*size < 2^64`)**: `rs_calloc` multiplies in `size_t` without an overflow check, so a request for
`(2^63+8)·2 = 2^64+16` bytes *succeeds* and returns a block sized for 16 bytes.  Fixed by
`repo_patches/rs_calloc_overflow.diff` (`callocChecked = true`, see `calloc_overflow_fails`). -/
theorem calloc_wraparound_counterexample {c : Cfg} (hc : c.ok) (hpin : c.callocChecked = false) {s : MM}
    (hI : Inv c s) (ins : Nat) (hT : 4 ≤ c.T) (hT' : c.T < 64) :
    ∃ s' p, rsCalloc c s (2 ^ 63 + 8) 2 ins = (s', .ptr p) ∧
      (p.aid, p.off, blockExp c.B 16) ∈ s'.live c ∧ 2 ^ c.T < (2 ^ 63 + 8) * 2 := by
  have e : (2 ^ 63 + 8) * 2 % 2 ^ 64 = 16 := by decide
  have h16 : (16 : Nat) ≤ 2 ^ c.T := by
    have := Nat.pow_le_pow_right (n := 2) (by omega) hT; omega
  obtain ⟨s1, p, hm⟩ := malloc_succeeds hc hI (n := 16) ins (by omega) h16
  have hA := rsMalloc_ptr hc hI.inv0 hm
  refine ⟨s1.poke p.aid p.off (List.replicate 16 0), p, ?_, ?_, ?_⟩
  · simp [rsCalloc, e, hm, hpin]
  · have hnew : (p.aid, p.off, blockExp c.B 16) ∈ s1.live c := (hA.live _).2 (Or.inl rfl)
    obtain ⟨a, ha, he⟩ := mem_arena_of_live hnew
    simp at he
    have hble := (blockExp_spec c.B 16).2.1
    have hP := poke_spec hA.inv ha p.off (List.replicate 16 0) (by have := hA.inside; simp; omega)
    rw [he] at hP
    rw [hP.live]; exact hnew
  · have : 2 ^ c.T < 2 ^ 64 := Nat.pow_lt_pow_right (by omega) hT'
    omega

/-- patched `rs_calloc`: a product that does not fit in `size_t` fails cleanly — `NULL`, `ENOMEM`,
nothing changes -/
theorem calloc_overflow_fails {c : Cfg} (hck : c.callocChecked = true) (s : MM) {nm sz : Nat} (ins : Nat)
    (h : 2 ^ 64 ≤ nm * sz) : rsCalloc c s nm sz ins = (s, .enomem) := by
  simp [rsCalloc, hck, h]

/-- patched `rs_calloc`: `calloc_zeroed` without any hypothesis on the product -/
theorem calloc_zeroed_checked {c : Cfg} (hc : c.ok) (hck : c.callocChecked = true) {s s' : MM}
    {nm sz ins : Nat} {p : Ptr} (hI : Inv c s) (h : rsCalloc c s nm sz ins = (s', .ptr p)) :
    (p.aid, p.off, blockExp c.B (nm * sz)) ∉ s.live c ∧
    (∀ b, b ∈ s'.live c ↔ b = (p.aid, p.off, blockExp c.B (nm * sz)) ∨ b ∈ s.live c) ∧
    nm * sz ≤ 2 ^ blockExp c.B (nm * sz) ∧ p.off + 2 ^ blockExp c.B (nm * sz) ≤ 2 ^ c.T ∧
    2 ^ blockExp c.B (nm * sz) ∣ p.off ∧
    (s'.bytes (p.aid, p.off, blockExp c.B (nm * sz))).take (nm * sz) = List.replicate (nm * sz) 0 := by
  apply calloc_zeroed hc hI _ h
  apply Nat.lt_of_not_le
  intro hov
  rw [calloc_overflow_fails hck s ins hov] at h
  simp at h

/-- every outcome of `rs_calloc` that is not a pointer leaves the state unchanged and is either a
zero-size or an over-size request -/
theorem calloc_fails_cleanly {c : Cfg} (hc : c.ok) {s s' : MM} {nm sz ins : Nat} {r : Ret} (hI : Inv c s)
    (h : rsCalloc c s nm sz ins = (s', r)) (hr : ∀ p, r ≠ .ptr p) :
    s' = s ∧ ((nm * sz % 2 ^ 64 = 0 ∧ r = .null) ∨ (2 ^ c.T < nm * sz % 2 ^ 64 ∧ r = .enomem) ∨
      (c.callocChecked = true ∧ 2 ^ 64 ≤ nm * sz ∧ r = .enomem)) :=
  rsCalloc_not_ptr hc hI.inv0 h hr

/-- **The full calloc clause of C12** for the variant `checked` of `rs_calloc`: for every
configuration of that variant, every reachable state and all `size_t` arguments, a successful call
returns a fresh live block of some order `k` with `nmemb*size ≤ 2^k` (at least the requested size)
whose first `nmemb*size` bytes are zero, the live set being the old one plus that block; and an
unsuccessful call changes nothing and happens only for a zero-size or an over-size
(`> 2^T`, or not representable) request. -/
def CallocStatement (checked : Bool) : Prop :=
  ∀ (c : Cfg), c.ok → c.callocChecked = checked → ∀ (s : MM), Inv c s →
  ∀ (nm sz ins : Nat) (s' : MM) (r : Ret), nm < 2 ^ 64 → sz < 2 ^ 64 → rsCalloc c s nm sz ins = (s', r) →
    (∀ p, r = .ptr p → ∃ k, (p.aid, p.off, k) ∉ s.live c ∧
      (∀ b, b ∈ s'.live c ↔ b = (p.aid, p.off, k) ∨ b ∈ s.live c) ∧ nm * sz ≤ 2 ^ k ∧
      (s'.bytes (p.aid, p.off, k)).take (nm * sz) = List.replicate (nm * sz) 0) ∧
    ((∀ p, r ≠ .ptr p) → s' = s ∧ (nm * sz = 0 ∨ 2 ^ c.T < nm * sz ∨ 2 ^ 64 ≤ nm * sz))

/-- the patched code satisfies the full clause -/
theorem callocStatement_patched : CallocStatement true := by
  intro c hc hck s hI nm sz ins s' r _ _ h
  constructor
  · rintro p rfl
    obtain ⟨h1, h2, h3, _, _, h6⟩ := calloc_zeroed_checked hc hck hI h
    exact ⟨_, h1, h2, h3, h6⟩
  · intro hr
    obtain ⟨h1, h2⟩ := calloc_fails_cleanly hc hI h hr
    refine ⟨h1, ?_⟩
    by_cases hov : 2 ^ 64 ≤ nm * sz
    · exact Or.inr (Or.inr hov)
    · have e : nm * sz % 2 ^ 64 = nm * sz := Nat.mod_eq_of_lt (by omega)
      rw [e] at h2
      rcases h2 with h2 | h2 | h2
      · exact Or.inl h2.1
      · exact Or.inr (Or.inl h2.1)
      · exact absurd h2.2.1 hov

/-- the real configuration with the pinned `rs_calloc` -/
def cRealPinned : Cfg := ⟨16, 6, 2192, 16, fun _ _ => 0, false⟩

/-- the pinned code violates it: `rs_calloc(2^63+8, 2)` succeeds with a block far smaller than
`nmemb*size` -/
theorem callocStatement_pinned_false : ¬ CallocStatement false := by
  intro hS
  have hc : cRealPinned.ok := ⟨by decide, by decide⟩
  have hI : Inv cRealPinned (MM.init cRealPinned) := inv_init _
  obtain ⟨s', p, h, _, _⟩ :=
    calloc_wraparound_counterexample hc rfl hI 0 (by decide) (by decide)
  obtain ⟨k, _, hlive, hle, _⟩ :=
    (hS cRealPinned hc rfl _ hI (2 ^ 63 + 8) 2 0 s' (.ptr p) (by decide) (by decide) h).1 p rfl
  have hI' : Inv cRealPinned s' :=
    inv_step (op := .calloc (2 ^ 63 + 8) 2 0) (r := .ptr p) hc hI (by simp [step, h])
  have hb := live_block_valid hI' ((hlive _).2 (Or.inl rfl))
  have h1 : 2 ^ k ≤ 2 ^ cRealPinned.T := Nat.pow_le_pow_right (by decide) hb.2.1
  have h2 : (2 : Nat) ^ cRealPinned.T < (2 ^ 63 + 8) * 2 := by decide
  omega

/-! ## (8) the unchecked assumption of `buddy_malloc` -/

/-- When `longest[0] ≥ req`, the descent of `buddy_malloc` (which never re-checks) ends on a
completely free node of exactly the requested order and never passes through an allocated node. -/
theorem descent_safe {B e n : Nat} {t : BT} (hB : 0 < B) (hBe : B ≤ e) (h : t.WF B (e + n))
    (hl : e ≤ t.longest (e + n)) : (t.descendN e n).isSome := by
  obtain ⟨t', off, h1, _⟩ := BT.descendN_spec hB hBe h hl
  simp [h1]

/-- `buddy_malloc` returns `NULL` exactly when `longest[0] < req` -/
theorem buddy_malloc_null_iff {B T e : Nat} {t : BT} (hB : 0 < B) (hBe : B ≤ e) (heT : e ≤ T)
    (h : t.WF B T) : t.bmalloc T e = none ↔ t.longest T < e := BT.bmalloc_eq_none hB hBe heT h

/-- every tree the allocator ever holds is well-formed, hence (8) applies to every `buddy_malloc` call
made by `rs_malloc` in a reachable state -/
theorem reachable_trees_wf {c : Cfg} (hc : c.ok) {s : MM} {ops : List Op}
    (h : run c (MM.init c) ops = some s) : ∀ a ∈ s.arenas, a.tree.WF c.B c.T :=
  fun a ha => ((inv_run hc (inv_init c) h).inv0.ok a ha).1

/-! ## non-vacuity -/

/-- the real configuration (patched `rs_calloc`) -/
def cReal : Cfg := ⟨16, 6, 2192, 16, fun _ _ => 0, true⟩
/-- a tiny configuration for kernel evaluation: 8-byte arenas, 2-byte leaves -/
def cTiny : Cfg := ⟨3, 1, 5, 16, fun i o => i + o, false⟩

theorem cReal_ok : cReal.ok := ⟨by decide, by decide⟩
theorem cTiny_ok : cTiny.ok := ⟨by decide, by decide⟩

/-- a reachable state with two arenas (the second inserted *before* the first), live blocks of
different orders, a checkpoint, a free and a realloc -/
def tinyOps : List Op :=
  [.malloc 3 0, .malloc 8 0, .take 0, .malloc 2 0, .write ⟨0, 0⟩ 1 [7, 9], .free (some ⟨1, 0⟩),
   .realloc (some ⟨0, 0⟩) 5 0, .calloc 1 2 0]

example : (run cTiny (MM.init cTiny) tinyOps).isSome = true := by decide

example : ((run cTiny (MM.init cTiny) tinyOps).map fun s => s.live cTiny) =
    some [(1, 0, 3), (0, 0, 1), (0, 4, 1)] := by decide

example : ∃ s, run cTiny (MM.init cTiny) tinyOps = some s ∧ Inv cTiny s := by
  cases h : run cTiny (MM.init cTiny) tinyOps with
  | none => exact absurd h (by decide)
  | some s => exact ⟨s, rfl, inv_run cTiny_ok (inv_init _) h⟩

example : ∃ s p, rsMalloc cReal (MM.init cReal) 65 0 = (s, .ptr p) :=
  malloc_succeeds cReal_ok (inv_init _) 0 (by decide) (by decide)

end RootSim.C12
