import RootSim.Proofs.Topology
/-!
# C19 — topology queries are mutually consistent and rollback-safe

All theorems quantify over every well-formed topology (`Topo.WF`: what `vInitializeTopology` returns
when `width * height` fits `unsigned`, see `wf_of_init`; for graphs additionally what
`AddTopologyLink` preserves within its contract, see `wf_of_links`), i.e. over ALL sizes `≥ 1`, all
source regions `src < regions`, all direction codes and all random inputs within their contract
(`RinOK`, supplied by property C18).

Two code versions are covered (see `Model/Topology.lean`): the pinned tree (`…Orig`,
`getReceiverV false false`, `countDirectionsOrig`) and the tree with the three proposed patches
(`getReceiver = getReceiverV true true`, `countDirections`).  The general theorems are stated over
the variant flags, so every mixture of applied patches is covered as well.

Findings on the pinned tree (each with a kernel-checked witness below):
* F4a `CountDirections` (square): wrong iff `width = 1 ∨ height = 1`   (`count_square_orig_iff`)
* F4b `CountDirections` (hexagon): wrong iff `hexCountBad`               (`count_hexagon_orig_iff`)
* F4c single-region star: `GetReceiver(0, RANDOM)` = region 1           (`receiver_valid_orig_counterexample`)
* F5  the random choice depends on the shared static arrays              (`random_pure_orig_counterexample`)
-/
namespace RootSim.C19
open RootSim.Topo

/-! ## 0. well-formedness is what the API establishes -/

theorem wf_of_init {g : Nat} {args : List Nat} {T : Topo} (h : initTopology g args = some T)
    (hfit : ∀ a b, args = [a, b] → a < U32 ∧ b < U32 ∧ b * a < U32) : T.WF :=
  initTopology_WF h hfit

theorem wf_of_links {T T' : Topo} {ops : List (Nat × Nat)} (hWF : T.WF) (hg : T.geom = .graph)
    (hops : ∀ op ∈ ops, op.2 < T.regions) (h : addLinks T ops = some T') : T'.WF :=
  addLinks_WF hWF hg hops h

/-! ## 1. `GetReceiver` returns `INVALID_DIRECTION` or a region inside the topology that `IsNeighbor` confirms -/

/-- the statement, for the code variant `(starFix, shufFix)` -/
def ReceiverValidStatement (sf hf : Bool) : Prop :=
  ∀ (T : Topo) (st st' : Arrays) (src d r : Nat) (rin : List Nat),
    T.WF → src < T.regions → (d = dRANDOM → RinOK sf T src rin) →
    getReceiverV sf hf T st src d rin = (.region r, st') →
    r < T.regions ∧ isNeighbor T src r = true

/-- general form: any variant, excluding only (unpatched star ∧ single region) -/
theorem receiver_validV (sf hf : Bool) {T : Topo} (hWF : T.WF) {st st' : Arrays} {src d r : Nat} {rin : List Nat}
    (hs : src < T.regions) (hrin : d = dRANDOM → RinOK sf T src rin)
    (hstar : sf = true ∨ ¬ (T.geom = .star ∧ T.regions = 1))
    (h : getReceiverV sf hf T st src d rin = (.region r, st')) :
    r < T.regions ∧ isNeighbor T src r = true := by
  cases hg : T.geom with
  | hexagon => exact recv_valid_grid hWF (Or.inl hg) hs h
  | square => exact recv_valid_grid hWF (Or.inr (Or.inl hg)) hs h
  | torus => exact recv_valid_grid hWF (Or.inr (Or.inr hg)) hs h
  | ring => exact recv_valid_ring hWF hg hs h
  | bidring => exact recv_valid_bidring hWF hg hs h
  | graph => exact recv_valid_graph hWF hg hs h
  | fcmesh =>
    by_cases hd : d = dRANDOM
    · have := hrin hd
      simp only [RinOK, hg] at this
      exact recv_valid_mesh hg hs this.1 h
    · exfalso
      unfold getReceiverV at h
      rw [if_neg (by omega)] at h
      simp [hg, getNeighborMesh, hd] at h
  | star =>
    by_cases hd : d = dRANDOM
    · have hr := hrin hd
      simp only [RinOK, hg] at hr
      by_cases h1 : T.regions = 1
      · -- single region: only the patched code is covered, and it answers INVALID_DIRECTION
        have hsf : sf = true := by
          rcases hstar with h' | h'
          · exact h'
          · exact absurd ⟨hg, h1⟩ h'
        exfalso
        have hs0 : src = 0 := by omega
        unfold getReceiverV at h
        rw [if_neg (by omega)] at h
        simp [hg, getNeighborStar, hd, hs0, hsf, h1] at h
      · refine recv_valid_star hg hs ?_ h
        intro hs0
        have := hr hs0
        rw [if_neg h1] at this
        exact this
    · exfalso
      unfold getReceiverV at h
      rw [if_neg (by omega)] at h
      simp [hg, getNeighborStar, hd] at h

/-- **receiver_valid** (patched star; holds with and without the shuffle patch) -/
theorem receiver_valid (hf : Bool) : ReceiverValidStatement true hf :=
  fun _ _ _ _ _ _ _ hWF hs hrin h => receiver_validV true hf hWF hs hrin (Or.inl rfl) h

/-- F4c: on the pinned tree a star made of its centre only answers region 1, which does not exist
(`RandomRange(1, 0)` = 1). -/
theorem receiver_valid_orig_counterexample : ¬ ReceiverValidStatement false false := by
  intro h
  have := h { geom := .star, regions := 1, width := 0, height := 0, adj := [] } Arrays.init Arrays.init
    0 dRANDOM 1 [1] (by decide) (by decide) (fun _ _ => by simp) (by decide)
  exact absurd this.1 (by decide)

/-- the pinned tree is right everywhere else -/
theorem receiver_valid_orig_partial {T : Topo} (hWF : T.WF) {st st' : Arrays} {src d r : Nat} {rin : List Nat}
    (hs : src < T.regions) (hrin : d = dRANDOM → RinOK false T src rin)
    (hnot : ¬ (T.geom = .star ∧ T.regions = 1))
    (h : getReceiverOrig T st src d rin = (.region r, st')) :
    r < T.regions ∧ isNeighbor T src r = true :=
  receiver_validV false false hWF hs hrin (Or.inr hnot) h

/-! per geometry (any variant; the grids, rings and graphs need no contract on the random inputs) -/

theorem receiver_valid_grid {sf hf : Bool} {T : Topo} (hWF : T.WF) {st st' : Arrays} {src d r : Nat}
    {rin : List Nat} (hg : T.geom = .hexagon ∨ T.geom = .square ∨ T.geom = .torus) (hs : src < T.regions)
    (h : getReceiverV sf hf T st src d rin = (.region r, st')) : r < T.regions ∧ isNeighbor T src r = true :=
  recv_valid_grid hWF hg hs h

theorem receiver_valid_ring {sf hf : Bool} {T : Topo} (hWF : T.WF) {st st' : Arrays} {src d r : Nat}
    {rin : List Nat} (hg : T.geom = .ring) (hs : src < T.regions)
    (h : getReceiverV sf hf T st src d rin = (.region r, st')) : r < T.regions ∧ isNeighbor T src r = true :=
  recv_valid_ring hWF hg hs h

theorem receiver_valid_bidring {sf hf : Bool} {T : Topo} (hWF : T.WF) {st st' : Arrays} {src d r : Nat}
    {rin : List Nat} (hg : T.geom = .bidring) (hs : src < T.regions)
    (h : getReceiverV sf hf T st src d rin = (.region r, st')) : r < T.regions ∧ isNeighbor T src r = true :=
  recv_valid_bidring hWF hg hs h

theorem receiver_valid_graph {sf hf : Bool} {T : Topo} (hWF : T.WF) {st st' : Arrays} {src d r : Nat}
    {rin : List Nat} (hg : T.geom = .graph) (hs : src < T.regions)
    (h : getReceiverV sf hf T st src d rin = (.region r, st')) : r < T.regions ∧ isNeighbor T src r = true :=
  recv_valid_graph hWF hg hs h

theorem receiver_valid_mesh {sf hf : Bool} {T : Topo} {st st' : Arrays} {src d r : Nat}
    {rin : List Nat} (hg : T.geom = .fcmesh) (hs : src < T.regions) (hrin : ∀ c ∈ rin, c < T.regions)
    (h : getReceiverV sf hf T st src d rin = (.region r, st')) : r < T.regions ∧ isNeighbor T src r = true :=
  recv_valid_mesh hg hs hrin h

theorem receiver_valid_star {sf hf : Bool} {T : Topo} {st st' : Arrays} {src d r : Nat}
    {rin : List Nat} (hg : T.geom = .star) (hs : src < T.regions)
    (hrin : src = 0 → ∃ k, rin.head? = some k ∧ 1 ≤ k ∧ k < T.regions)
    (h : getReceiverV sf hf T st src d rin = (.region r, st')) : r < T.regions ∧ isNeighbor T src r = true :=
  recv_valid_star hg hs hrin h

/-! ## 2. `DIRECTION_RANDOM` finds a neighbour whenever one exists -/

/-- general form (any variant; for the unpatched shuffle the arrays must be in a reachable state) -/
theorem random_someV (sf hf : Bool) {T : Topo} (hWF : T.WF) {st : Arrays} {src : Nat} {rin : List Nat}
    (hs : src < T.regions) (hst : hf = true ∨ st.OK) (hrin : RinOK sf T src rin)
    (hpos : 0 < countDirections T src) :
    ∃ r, (getReceiverV sf hf T st src dRANDOM rin).1 = .region r := by
  obtain ⟨hr1, hr2, hgeo⟩ := hWF
  unfold getReceiverV
  rw [if_neg (by omega)]
  cases hg : T.geom with
  | hexagon =>
    simp only [hg, RinOK, countDirections] at hrin hpos ⊢
    have hp : st.hex.Perm hexDirs ∨ hf = true := by
      rcases hst with h | h
      · exact Or.inr h
      · exact Or.inl h.1
    rcases hp with hp | hp
    · exact gridRandom_some hp hexDirs_ne hrin.1 hrin.2 (hex_count_pos hpos)
    · subst hp
      obtain ⟨r, hr⟩ := gridRandom_some (hf := true) (arr := hexDirs) (List.Perm.refl _) hexDirs_ne hrin.1 hrin.2 (hex_count_pos hpos)
      exact ⟨r, by simpa [gridRandom] using hr⟩
  | square =>
    simp only [hg, RinOK, countDirections] at hrin hpos ⊢
    have hp : st.sq.Perm sqDirs ∨ hf = true := by
      rcases hst with h | h
      · exact Or.inr h
      · exact Or.inl h.2
    rcases hp with hp | hp
    · exact gridRandom_some hp sqDirs_ne hrin.1 hrin.2 (sq_count_pos hpos)
    · subst hp
      obtain ⟨r, hr⟩ := gridRandom_some (hf := true) (arr := sqDirs) (List.Perm.refl _) sqDirs_ne hrin.1 hrin.2 (sq_count_pos hpos)
      exact ⟨r, by simpa [gridRandom] using hr⟩
  | torus =>
    simp only [hg, RinOK] at hrin ⊢
    have hex : ∃ d ∈ sqDirs, torFixed T.width T.height src d ≠ none := ⟨dE, by decide, by simp [torFixed]⟩
    have hp : st.sq.Perm sqDirs ∨ hf = true := by
      rcases hst with h | h
      · exact Or.inr h
      · exact Or.inl h.2
    rcases hp with hp | hp
    · exact gridRandom_some hp sqDirs_ne hrin.1 hrin.2 hex
    · subst hp
      obtain ⟨r, hr⟩ := gridRandom_some (hf := true) (arr := sqDirs) (List.Perm.refl _) sqDirs_ne hrin.1 hrin.2 hex
      exact ⟨r, by simpa [gridRandom] using hr⟩
  | ring => exact ⟨_, by simp only [ringFixed]; rfl⟩
  | bidring =>
    simp only [hg, RinOK] at hrin ⊢
    cases rin with
    | nil => exact absurd rfl hrin
    | cons b rest =>
      exact getNeighborBidring_random_exists _ _ _ _
  | star =>
    simp only [hg, RinOK, countDirections, countDirectionsOrig] at hrin hpos ⊢
    by_cases hs0 : src = 0
    · have hr := hrin hs0
      simp only [hs0, if_true, sub64] at hpos
      have h1 : T.regions ≠ 1 := by omega
      rw [if_neg h1] at hr
      obtain ⟨k, hk, _⟩ := hr
      cases rin with
      | nil => simp at hk
      | cons k' rest => exact ⟨k', by simp [getNeighborStar, hs0, h1]⟩
    · exact ⟨0, by simp [getNeighborStar, hs0]⟩
  | fcmesh =>
    simp only [hg, RinOK, countDirections, countDirectionsOrig, sub64] at hrin hpos ⊢
    have h1 : T.regions ≠ 1 := by omega
    rcases hrin.2 with h | h
    · exact absurd h h1
    · obtain ⟨r, hr⟩ := meshLoop_exists h
      exact ⟨r, by simp [getNeighborMesh, h1, hr]⟩
  | graph =>
    simp only [hg, RinOK, countDirections, countDirectionsOrig, Topo.WFgeo] at hrin hpos hgeo ⊢
    have hlt : src < T.adj.length := by omega
    rw [List.getElem?_eq_getElem hlt] at hrin hpos
    simp only [Option.getD_some] at hrin hpos
    have hne : T.adj[src] ≠ [] := by intro h; rw [h] at hpos; simp at hpos
    obtain ⟨r, hr⟩ := graphWalk_exists hne hrin
    refine ⟨r, ?_⟩
    simp only [getNeighborGraph, List.getElem?_eq_getElem hlt]
    rw [hr, if_neg (by omega : ¬ T.adj[src].length = 0)]
    simp only [ne_eq, not_true_eq_false, if_false]

/-- general form of the other direction: nothing to choose from ⇒ `INVALID_DIRECTION`
(e.g. the 1x1 grids: the `assert` is compiled out, the function returns `INVALID_DIRECTION`) -/
theorem random_invalidV (sf hf : Bool) {T : Topo} (hWF : T.WF) {st : Arrays} {src : Nat} {rin : List Nat}
    (hs : src < T.regions) (hst : hf = true ∨ st.OK) (hrin : RinOK sf T src rin)
    (hstar : sf = true ∨ ¬ (T.geom = .star ∧ T.regions = 1))
    (hz : countDirections T src = 0) :
    (getReceiverV sf hf T st src dRANDOM rin).1 = .invalid := by
  obtain ⟨hr1, hr2, hgeo⟩ := hWF
  unfold getReceiverV
  rw [if_neg (by omega)]
  cases hg : T.geom with
  | hexagon =>
    simp only [hg, RinOK, countDirections] at hrin hz ⊢
    have hp : st.hex.Perm hexDirs ∨ hf = true := by
      rcases hst with h | h
      · exact Or.inr h
      · exact Or.inl h.1
    rcases hp with hp | hp
    · exact gridRandom_none hp hexDirs_ne hrin.1 hrin.2 (hex_count_zero hz)
    · subst hp
      have hr := gridRandom_none (hf := true) (arr := hexDirs) (List.Perm.refl _) hexDirs_ne hrin.1 hrin.2 (hex_count_zero hz)
      simpa [gridRandom] using hr
  | square =>
    simp only [hg, RinOK, countDirections] at hrin hz ⊢
    have hp : st.sq.Perm sqDirs ∨ hf = true := by
      rcases hst with h | h
      · exact Or.inr h
      · exact Or.inl h.2
    rcases hp with hp | hp
    · exact gridRandom_none hp sqDirs_ne hrin.1 hrin.2 (sq_count_zero hz)
    · subst hp
      have hr := gridRandom_none (hf := true) (arr := sqDirs) (List.Perm.refl _) sqDirs_ne hrin.1 hrin.2 (sq_count_zero hz)
      simpa [gridRandom] using hr
  | torus => simp [countDirections, countDirectionsOrig, hg] at hz
  | ring => simp [countDirections, countDirectionsOrig, hg] at hz
  | bidring => simp [countDirections, countDirectionsOrig, hg] at hz
  | star =>
    simp only [hg, countDirections, countDirectionsOrig] at hz ⊢
    by_cases hs0 : src = 0
    · simp only [hs0, if_true, sub64] at hz
      have h1 : T.regions = 1 := by omega
      have hsf : sf = true := by
        rcases hstar with h | h
        · exact h
        · exact absurd ⟨hg, h1⟩ h
      simp [getNeighborStar, hs0, h1, hsf]
    · simp [hs0] at hz
  | fcmesh =>
    simp only [hg, countDirections, countDirectionsOrig, sub64] at hz ⊢
    have h1 : T.regions = 1 := by omega
    simp [getNeighborMesh, h1]
  | graph =>
    simp only [hg, countDirections, countDirectionsOrig, Topo.WFgeo] at hz hgeo ⊢
    have hlt : src < T.adj.length := by omega
    rw [List.getElem?_eq_getElem hlt] at hz
    simp only [Option.getD_some] at hz
    simp only [getNeighborGraph, List.getElem?_eq_getElem hlt, hz, ne_eq, not_true_eq_false, if_false, if_true]

/-- whatever is asked, the direction arrays stay permutations of their initialisers -/
theorem arrays_ok_preserved (sf hf : Bool) (T : Topo) {st : Arrays} (src d : Nat) (rin : List Nat) (hst : st.OK) :
    (getReceiverV sf hf T st src d rin).2.OK := by
  unfold getReceiverV
  split
  · exact hst
  · split <;> (try split) <;> first
      | exact hst
      | exact ⟨gridRandom_perm.trans hst.1, hst.2⟩
      | exact ⟨hst.1, gridRandom_perm.trans hst.2⟩

theorem arrays_init_ok : Arrays.init.OK := ⟨List.Perm.refl _, List.Perm.refl _⟩

/-- **random_valid**: a random receiver is a region of the topology that `IsNeighbor` confirms -/
theorem random_valid (hf : Bool) {T : Topo} (hWF : T.WF) {st st' : Arrays} {src r : Nat} {rin : List Nat}
    (hs : src < T.regions) (hrin : RinOK true T src rin)
    (h : getReceiverV true hf T st src dRANDOM rin = (.region r, st')) :
    r < T.regions ∧ isNeighbor T src r = true :=
  receiver_valid hf T st st' src dRANDOM r rin hWF hs (fun _ => hrin) h

/-- **random_some_if_any** (patched tree): if the source has a neighbour at all
(`CountDirections > 0`), `DIRECTION_RANDOM` returns one — valid as in `receiver_valid` -/
theorem random_some_if_any {T : Topo} (hWF : T.WF) (st : Arrays) {src : Nat} {rin : List Nat}
    (hs : src < T.regions) (hrin : RinOK true T src rin) (hpos : 0 < countDirections T src) :
    ∃ r, (getReceiver T st src dRANDOM rin).1 = .region r ∧ r < T.regions ∧ isNeighbor T src r = true := by
  obtain ⟨r, hr⟩ := random_someV true true hWF (st := st) hs (Or.inl rfl) hrin hpos
  exact ⟨r, hr, random_valid true hWF hs hrin (st := st) (st' := (getReceiver T st src dRANDOM rin).2)
    (by rw [← hr])⟩

/-- the same in terms of the fixed directions (grids and rings): some fixed direction has a valid
receiver ⇒ `DIRECTION_RANDOM` has one -/
theorem random_some_if_any_fixed {T : Topo} (hWF : T.WF) (st : Arrays) {src : Nat} {rin : List Nat}
    (hs : src < T.regions) (hrin : RinOK true T src rin)
    (hg : T.geom = .hexagon ∨ T.geom = .square ∨ T.geom = .torus ∨ T.geom = .ring ∨ T.geom = .bidring)
    (hex : ∃ d ∈ fixedDirs T.geom, recvFixed T src d ≠ none) :
    ∃ r, (getReceiver T st src dRANDOM rin).1 = .region r ∧ r < T.regions ∧ isNeighbor T src r = true := by
  apply random_some_if_any hWF st hs hrin
  rw [count_eq_validDirs hg, validDirs]
  apply List.countP_pos_iff.mpr
  obtain ⟨d, hd, hv⟩ := hex
  exact ⟨d, hd, by cases h : recvFixed T src d <;> simp_all⟩

/-- **random_invalid_if_none** (patched tree): no neighbour ⇒ `INVALID_DIRECTION` (1x1 grids, single
region star/mesh, graph node without links) -/
theorem random_invalid_if_none {T : Topo} (hWF : T.WF) (st : Arrays) {src : Nat} {rin : List Nat}
    (hs : src < T.regions) (hrin : RinOK true T src rin) (hz : countDirections T src = 0) :
    (getReceiver T st src dRANDOM rin).1 = .invalid :=
  random_invalidV true true hWF hs (Or.inl rfl) hrin (Or.inl rfl) hz

/-- the pinned tree, from any reachable state of the static arrays, away from the single-region star;
`validDirs`-style counting is used because `countDirectionsOrig` is wrong (section 3) -/
theorem random_some_if_any_orig_partial {T : Topo} (hWF : T.WF) {st : Arrays} {src : Nat} {rin : List Nat}
    (hs : src < T.regions) (hst : st.OK) (hrin : RinOK false T src rin)
    (hpos : 0 < countDirections T src) :
    ∃ r, (getReceiverOrig T st src dRANDOM rin).1 = .region r :=
  random_someV false false hWF hs (Or.inr hst) hrin hpos

/-! ## 3. `CountDirections` -/

/-- **count_eq_valid_dirs** (patched tree; hexagon, square, torus, ring, bidring):
`CountDirections(from)` = number of fixed directions `d` with `GetReceiver(from, d) != INVALID_DIRECTION` -/
theorem count_eq_valid_dirs {T : Topo} (st : Arrays) {src : Nat} (rin : List Nat) (hs : src < T.regions)
    (hg : T.geom = .hexagon ∨ T.geom = .square ∨ T.geom = .torus ∨ T.geom = .ring ∨ T.geom = .bidring) :
    countDirections T src =
      (fixedDirs T.geom).countP (fun d => decide ((getReceiver T st src d rin).1 ≠ .invalid)) := by
  rw [count_eq_validDirs hg, validDirs_spec true true st rin hs]

/-- **count_star**: the centre has `regions - 1` neighbours, a leaf one -/
theorem count_star {T : Topo} (hWF : T.WF) (hg : T.geom = .star) (src : Nat) :
    countDirections T src = if src = 0 then T.regions - 1 else 1 := by
  obtain ⟨h1, h2, _⟩ := hWF
  simp only [countDirections, countDirectionsOrig, hg, sub64]
  split <;> omega

/-- **count_mesh**: every other region -/
theorem count_mesh {T : Topo} (hWF : T.WF) (hg : T.geom = .fcmesh) (src : Nat) :
    countDirections T src = T.regions - 1 := by
  obtain ⟨h1, h2, _⟩ := hWF
  simp only [countDirections, countDirectionsOrig, hg, sub64]
  omega

/-- **count_graph**: after any sequence of accepted `AddTopologyLink` calls on a fresh graph the count of
`src` is the number of distinct targets linked from `src` — stated as: it is the length of a
duplicate-free list whose members are exactly those targets -/
theorem count_graph {n : Nat} {T0 T : Topo} {ops : List (Nat × Nat)} (h0 : initTopology 8 [n] = some T0)
    (h : addLinks T0 ops = some T) {src : Nat} (hs : src < T.regions) :
    ∃ l : List Nat, l.Nodup ∧ (∀ t, t ∈ l ↔ (src, t) ∈ ops) ∧ countDirections T src = l.length := by
  have _ := hs -- `adjacency[from]` is only defined for regions of the topology
  have hg0 : T0.geom = .graph ∧ T0.adj = List.replicate T0.regions [] := by
    simp only [initTopology, Geom.ofNat?, reduceCtorEq, or_self, if_false, if_true] at h0
    split at h0
    · cases h0
    · simp only [Option.some.injEq] at h0; subst h0; exact ⟨rfl, rfl⟩
  obtain ⟨hg', hr', hl', hn'⟩ := addLinks_spec hg0.1 h
  have hnb0 : T0.nbrs src = [] := by
    simp only [Topo.nbrs, hg0.2]
    cases h : (List.replicate T0.regions ([] : List Nat))[src]? with
    | none => rfl
    | some l =>
      have := List.mem_of_getElem? h
      simp only [List.mem_replicate] at this
      simp [this.2]
  refine ⟨T.nbrs src, (hn' src).1 (by rw [hnb0]; exact List.nodup_nil), ?_, ?_⟩
  · intro t
    rw [(hn' src).2 t, hnb0]
    simp
  · simp only [countDirections, countDirectionsOrig, hg', Topo.nbrs]

/-! ### the closed formulas of the pinned tree -/

/-- the statement for the pinned tree -/
def CountEqValidDirsOrigStatement : Prop :=
  ∀ (T : Topo) (src : Nat), T.WF → src < T.regions →
    (T.geom = .hexagon ∨ T.geom = .square ∨ T.geom = .torus ∨ T.geom = .ring ∨ T.geom = .bidring) →
    countDirectionsOrig T src = validDirs T src

/-- F4a witness: the single cell of a 1x1 square grid has no neighbour, the pinned tree says 2 -/
theorem count_orig_counterexample_square :
    countDirectionsOrig { geom := .square, regions := 1, width := 1, height := 1, adj := [] } 0 = 2 ∧
    validDirs { geom := .square, regions := 1, width := 1, height := 1, adj := [] } 0 = 0 := by decide

/-- F4b witnesses: 1x1 hexagon (1 instead of 0); 2x2 hexagon, last row (cells 2 and 3: 4 instead of 3,
1 instead of 2) -/
theorem count_orig_counterexample_hexagon :
    countDirectionsOrig { geom := .hexagon, regions := 1, width := 1, height := 1, adj := [] } 0 = 1 ∧
    validDirs { geom := .hexagon, regions := 1, width := 1, height := 1, adj := [] } 0 = 0 ∧
    countDirectionsOrig { geom := .hexagon, regions := 4, width := 2, height := 2, adj := [] } 2 = 4 ∧
    validDirs { geom := .hexagon, regions := 4, width := 2, height := 2, adj := [] } 2 = 3 ∧
    countDirectionsOrig { geom := .hexagon, regions := 4, width := 2, height := 2, adj := [] } 3 = 1 ∧
    validDirs { geom := .hexagon, regions := 4, width := 2, height := 2, adj := [] } 3 = 2 := by decide

theorem count_eq_valid_dirs_orig_counterexample : ¬ CountEqValidDirsOrigStatement := by
  intro h
  have := h { geom := .square, regions := 1, width := 1, height := 1, adj := [] } 0 (by decide) (by decide)
    (by decide)
  exact absurd this (by decide)

/-- where the closed formula for hexagons of the pinned tree is wrong -/
def hexCountBad (w h src : Nat) : Prop :=
  h = 1 ∨ (h % 2 = 0 ∧ 2 ≤ w ∧ src / w + 1 = h ∧ (src % w = 0 ∨ src % w + 1 = w))

/-- F4a, exact domain: the square formula of the pinned tree is right iff `width ≥ 2 ∧ height ≥ 2` -/
theorem count_square_orig_iff {T : Topo} (hWF : T.WF) (hg : T.geom = .square) {src : Nat} (hs : src < T.regions) :
    countDirectionsOrig T src = validDirs T src ↔ (2 ≤ T.width ∧ 2 ≤ T.height) := by
  obtain ⟨hr1, hr2, hgeo⟩ := hWF
  simp only [Topo.WFgeo, hg] at hgeo
  obtain ⟨hw, hh, hreg⟩ := hgeo
  have hwh : T.width * T.height < U32 := by omega
  obtain ⟨hc, hx, hy⟩ := coords_of_lt hw hwh (by omega : src < T.width * T.height)
  obtain ⟨hw32, hh32⟩ := lt_U32_of_mul hw hh hwh
  have hv : validDirs T src = sqDirs.countP (fun d => (sqFixed T.width T.height src d).isSome) := by
    simp only [validDirs, hg, fixedDirs, recvFixed]
  rw [hv, sq_valid_xy hc]
  have key := square_count_xy hw32 hh32 hx hy
  simp only [countDirectionsOrig, hg, hc]
  exact key

/-- F4b, exact domain: the hexagon formula of the pinned tree is right iff not `hexCountBad` -/
theorem count_hexagon_orig_iff {T : Topo} (hWF : T.WF) (hg : T.geom = .hexagon) {src : Nat} (hs : src < T.regions) :
    countDirectionsOrig T src = validDirs T src ↔ ¬ hexCountBad T.width T.height src := by
  obtain ⟨hr1, hr2, hgeo⟩ := hWF
  simp only [Topo.WFgeo, hg] at hgeo
  obtain ⟨hw, hh, hreg⟩ := hgeo
  have hwh : T.width * T.height < U32 := by omega
  obtain ⟨hc, hx, hy⟩ := coords_of_lt hw hwh (by omega : src < T.width * T.height)
  obtain ⟨hw32, hh32⟩ := lt_U32_of_mul hw hh hwh
  have hv : validDirs T src = hexDirs.countP (fun d => (hexFixed T.width T.height src d).isSome) := by
    simp only [validDirs, hg, fixedDirs, recvFixed]
  rw [hv, hex_valid_xy hc]
  simp only [countDirectionsOrig, hg, hc, hexCountBad]
  rcases Nat.mod_two_eq_zero_or_one (src / T.width) with hp | hp
  · exact hexagon_count_xy_even hw32 hh32 hp hx hy
  · exact hexagon_count_xy_odd hw32 hh32 hp hx hy

/-- the proved part of `CountEqValidDirsOrigStatement`: everything outside the two bad domains -/
theorem count_eq_valid_dirs_orig_partial {T : Topo} (hWF : T.WF) {src : Nat} (hs : src < T.regions)
    (hg : T.geom = .hexagon ∨ T.geom = .square ∨ T.geom = .torus ∨ T.geom = .ring ∨ T.geom = .bidring)
    (hsq : T.geom = .square → 2 ≤ T.width ∧ 2 ≤ T.height)
    (hhex : T.geom = .hexagon → ¬ hexCountBad T.width T.height src) :
    countDirectionsOrig T src = validDirs T src := by
  rcases hg with hg | hg | hg | hg | hg
  · exact (count_hexagon_orig_iff hWF hg hs).mpr (hhex hg)
  · exact (count_square_orig_iff hWF hg hs).mpr (hsq hg)
  · rw [← count_eq_validDirs (Or.inr (Or.inr (Or.inl hg)))]; simp only [countDirections, hg]
  · rw [← count_eq_validDirs (Or.inr (Or.inr (Or.inr (Or.inl hg))))]; simp only [countDirections, hg]
  · rw [← count_eq_validDirs (Or.inr (Or.inr (Or.inr (Or.inr hg))))]; simp only [countDirections, hg]

/-- `validDirs` is the API-level count also on the pinned tree -/
theorem validDirs_orig_spec {T : Topo} (st : Arrays) {src : Nat} (rin : List Nat) (hs : src < T.regions) :
    validDirs T src =
      (fixedDirs T.geom).countP (fun d => decide ((getReceiverOrig T st src d rin).1 ≠ .invalid)) :=
  validDirs_spec false false st rin hs

/-! ## 4. the random choice is a function of the caller's random inputs only -/

/-- **random_pure** (with `topology-shuffle-local.diff`): the receiver does not depend on the contents of the
file-scope arrays — there is no hidden state left that another LP, another thread or an earlier
(rolled back) execution could have changed — and the call does not modify them -/
theorem random_pure (sf : Bool) (T : Topo) (st st' : Arrays) (src d : Nat) (rin : List Nat) :
    (getReceiverV sf true T st src d rin).1 = (getReceiverV sf true T st' src d rin).1 ∧
    (getReceiverV sf true T st src d rin).2 = st :=
  getReceiverV_shufFix sf T st st' src d rin

/-- the statement for the pinned tree (arrays in any two reachable states) -/
def RandomPureOrigStatement : Prop :=
  ∀ (T : Topo) (st st' : Arrays) (src : Nat) (rin : List Nat),
    T.WF → src < T.regions → st.OK → st'.OK → RinOK false T src rin →
    (getReceiverOrig T st src dRANDOM rin).1 = (getReceiverOrig T st' src dRANDOM rin).1

def sq33 : Topo := { geom := .square, regions := 9, width := 3, height := 3, adj := [] }

/-- F5 replay: the centre of a 3x3 square grid asks twice with the same draws `[1, 2, 3]` (a rollback
re-execution, or two LPs with equal generator state): first answer region 3, second answer region 1 -/
theorem random_impure_orig_replay :
    getReceiverOrig sq33 Arrays.init 4 dRANDOM [1, 2, 3] = (.region 3, ⟨hexDirs, [1, 2, 3, 0]⟩) ∧
    getReceiverOrig sq33 ⟨hexDirs, [1, 2, 3, 0]⟩ 4 dRANDOM [1, 2, 3] = (.region 1, ⟨hexDirs, [2, 3, 0, 1]⟩) := by
  decide

theorem random_pure_orig_counterexample : ¬ RandomPureOrigStatement := by
  intro h
  have hst : (getReceiverOrig sq33 Arrays.init 4 dRANDOM [1, 2, 3]).2.OK :=
    arrays_ok_preserved false false sq33 4 dRANDOM [1, 2, 3] arrays_init_ok
  have := h sq33 Arrays.init (getReceiverOrig sq33 Arrays.init 4 dRANDOM [1, 2, 3]).2 4 [1, 2, 3]
    (by decide) (by decide) arrays_init_ok hst (by simp [RinOK, sq33])
  rw [random_impure_orig_replay.1] at this
  rw [random_impure_orig_replay.2] at this
  exact absurd this (by decide)

/-- the proved part: the pinned tree is pure exactly where there is nothing to choose — all valid
fixed directions of the source lead to the same region (or the geometry does not use the arrays) -/
theorem random_pure_orig_partial {T : Topo} {st st' : Arrays} {src : Nat} {rin : List Nat}
    (hst : st.OK) (hst' : st'.OK) (hrin : RinOK false T src rin)
    (hco : ∀ d1 ∈ fixedDirs T.geom, ∀ d2 ∈ fixedDirs T.geom, ∀ r1 r2,
      recvFixed T src d1 = some r1 → recvFixed T src d2 = some r2 → r1 = r2) :
    (getReceiverOrig T st src dRANDOM rin).1 = (getReceiverOrig T st' src dRANDOM rin).1 := by
  unfold getReceiverOrig getReceiverV
  split
  · rfl
  · cases hg : T.geom <;> simp only [hg, RinOK, fixedDirs, recvFixed, gridRandom] at hrin hco ⊢
    · exact getRandomNeighborOrig_coincide hst.1 hst'.1 hexDirs_ne hrin.1 hrin.2 hco
    · exact getRandomNeighborOrig_coincide hst.2 hst'.2 sqDirs_ne hrin.1 hrin.2 hco
    · exact getRandomNeighborOrig_coincide hst.2 hst'.2 sqDirs_ne hrin.1 hrin.2 hco

/-- … and the domain is exact: two valid fixed directions with different receivers (grids) ⇒ two
reachable array states and in-contract draws on which the pinned tree answers differently -/
theorem random_pure_orig_exact {T : Topo} {src d1 d2 r1 r2 : Nat}
    (hg : T.geom = .hexagon ∨ T.geom = .square ∨ T.geom = .torus) (hs : src < T.regions)
    (h1 : d1 ∈ fixedDirs T.geom) (h2 : d2 ∈ fixedDirs T.geom)
    (hf1 : recvFixed T src d1 = some r1) (hf2 : recvFixed T src d2 = some r2) (hne : r1 ≠ r2) :
    ∃ st st' rin, st.OK ∧ st'.OK ∧ RinOK false T src rin ∧
      (getReceiverOrig T st src dRANDOM rin).1 ≠ (getReceiverOrig T st' src dRANDOM rin).1 := by
  have hns : ¬ src ≥ T.regions := by omega
  rcases hg with hg | hg | hg <;> simp only [hg, fixedDirs, recvFixed] at h1 h2 hf1 hf2
  · obtain ⟨a, a', js, hp, hp', hl, hj, hd⟩ := getRandomNeighborOrig_differ hexDirs_ne h1 h2 hf1 hf2 hne
    refine ⟨⟨a, sqDirs⟩, ⟨a', sqDirs⟩, js, ⟨hp, List.Perm.refl _⟩, ⟨hp', List.Perm.refl _⟩, ?_, ?_⟩
    · simp only [RinOK, hg]; exact ⟨hl, hj⟩
    · unfold getReceiverOrig getReceiverV
      rw [if_neg hns, if_neg hns]
      simp only [hg, gridRandom]
      exact hd
  · obtain ⟨a, a', js, hp, hp', hl, hj, hd⟩ := getRandomNeighborOrig_differ sqDirs_ne h1 h2 hf1 hf2 hne
    refine ⟨⟨hexDirs, a⟩, ⟨hexDirs, a'⟩, js, ⟨List.Perm.refl _, hp⟩, ⟨List.Perm.refl _, hp'⟩, ?_, ?_⟩
    · simp only [RinOK, hg]; exact ⟨hl, hj⟩
    · unfold getReceiverOrig getReceiverV
      rw [if_neg hns, if_neg hns]
      simp only [hg, gridRandom]
      exact hd
  · obtain ⟨a, a', js, hp, hp', hl, hj, hd⟩ := getRandomNeighborOrig_differ sqDirs_ne h1 h2 hf1 hf2 hne
    refine ⟨⟨hexDirs, a⟩, ⟨hexDirs, a'⟩, js, ⟨List.Perm.refl _, hp⟩, ⟨List.Perm.refl _, hp'⟩, ?_, ?_⟩
    · simp only [RinOK, hg]; exact ⟨hl, hj⟩
    · unfold getReceiverOrig getReceiverV
      rw [if_neg hns, if_neg hns]
      simp only [hg, gridRandom]
      exact hd

/-! ## Non-vacuity: concrete, non-trivial instances meet the hypotheses of the theorems above -/

/-- a 3x4 hexagon grid (height 3, width 4) as `InitializeTopology(TOPOLOGY_HEXAGON, 3, 4)` makes it -/
def hex34 : Topo := { geom := .hexagon, regions := 12, width := 4, height := 3, adj := [] }
example : initTopology 1 [3, 4] = some hex34 := by decide
example : hex34.WF ∧ sq33.WF := by decide
example : RinOK true hex34 5 [3, 1, 4, 5, 4] := by simp [RinOK, hex34]
example : 0 < countDirections hex34 5 ∧ countDirections hex34 5 = 6 ∧ countDirections hex34 0 = 2 := by decide
example : (getReceiver hex34 Arrays.init 5 dRANDOM [3, 1, 4, 5, 4]).1 = .region 1 := by decide
example : isNeighbor hex34 5 1 = true ∧ isNeighbor hex34 5 11 = false := by decide
/-- both kinds of hexagon cells exist: where the pinned formula is right and where it is wrong -/
example : ¬ hexCountBad 4 3 5 ∧ hexCountBad 4 2 4 ∧ hexCountBad 4 1 2 := by
  unfold hexCountBad; decide
/-- the 1x1 grids have nothing to choose from -/
example : countDirections { geom := .torus, regions := 1, width := 1, height := 1, adj := [] } 0 = 4 ∧
    countDirections { geom := .square, regions := 1, width := 1, height := 1, adj := [] } 0 = 0 ∧
    (getReceiver { geom := .square, regions := 1, width := 1, height := 1, adj := [] } Arrays.init 0 dRANDOM
      [0, 1, 2]).1 = .invalid := by decide
/-- star and mesh contracts are satisfiable, with and without neighbours -/
example : RinOK true { geom := .star, regions := 5, width := 0, height := 0, adj := [] } 0 [3] := by
  simp [RinOK]
example : RinOK true { geom := .star, regions := 1, width := 0, height := 0, adj := [] } 0 [] := by
  simp [RinOK]
example : RinOK false { geom := .fcmesh, regions := 4, width := 0, height := 0, adj := [] } 2 [2, 2, 3] := by
  simp [RinOK]
/-- a graph built through the API: 3 regions, links 0→1, 0→2, 0→1 (again), 1→0 -/
example : ∃ T0 T, initTopology 8 [3] = some T0 ∧ addLinks T0 [(0, 1), (0, 2), (0, 1), (1, 0)] = some T ∧
    T.WF ∧ countDirections T 0 = 2 ∧ countDirections T 2 = 0 ∧
    (getReceiver T Arrays.init 0 dRANDOM [1, 0]).1 = .region 2 :=
  ⟨_, _, rfl, rfl, by decide, by decide, by decide, by decide⟩
/-- `random_pure_orig_exact` applies to the centre of the 3x3 grid (E → 5, W → 3) -/
example : recvFixed sq33 4 dE = some 5 ∧ recvFixed sq33 4 dW = some 3 := by decide
/-- `random_pure_orig_partial` applies non-trivially: a 1x2 square grid, the only neighbour of cell 0 is 1 -/
def sq12 : Topo := { geom := .square, regions := 2, width := 2, height := 1, adj := [] }
example : ∀ d1 ∈ fixedDirs sq12.geom, ∀ d2 ∈ fixedDirs sq12.geom, ∀ r1 r2,
    recvFixed sq12 0 d1 = some r1 → recvFixed sq12 0 d2 = some r2 → r1 = r2 := by
  have hE : recvFixed sq12 0 dE = some 1 := by decide
  have hW : recvFixed sq12 0 dW = none := by decide
  have hN : recvFixed sq12 0 dN = none := by decide
  have hS : recvFixed sq12 0 dS = none := by decide
  intro d1 h1 d2 h2 r1 r2 e1 e2
  simp only [sq12, fixedDirs, List.mem_cons, List.not_mem_nil, or_false] at h1 h2
  rcases h1 with rfl | rfl | rfl | rfl <;> rcases h2 with rfl | rfl | rfl | rfl <;> simp_all

end RootSim.C19
