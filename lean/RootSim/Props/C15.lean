import RootSim.Proofs.MQueue
/-!
# C15 (buffer half) — the inter-thread message buffer loses nothing, duplicates nothing, and the
minimum-time query is a true lower bound

"Every event inserted for a thread by any thread is extracted by that thread exactly once; … the
queue's minimum-time query is never larger than the timestamp of any event that was inserted for that
thread before the query began and has not yet been extracted."

For EVERY number of concurrent producers and EVERY interleaving of the individual shared-memory accesses
of `msg_queue_insert` (load, CAS incl. failed and spuriously failed attempts) with the consumer's
`atomic_exchange` and its walk over the detached list (sequentially consistent; release/acquire not
modelled). The private heap is abstracted to a multiset from which `extract` removes an element of
minimal time stamp (that the C heap does so is the heap work package + the correspondence run).
-/
namespace RootSim.C15
open RootSim.MQueue

/-- the invariant of `Proofs/MQueue.lean` is inductive, hence holds in every reachable state -/
theorem invariant {s : St} (hr : Reachable s) : QInv s := by
  induction hr with
  | init n => exact init_inv n
  | step a _ hs ih => exact step_inv ih hs

/-- **no loss, no duplication**: at every moment the multiset of completed inserts equals
(shared list) + (detached, being walked) + (private heap) + (extracted), these four are pairwise disjoint
and duplicate-free, the shared list is a finite `NULL`-terminated chain of distinct nodes starting at the
head pointer, and the node of a producer that is still inside `msg_queue_insert` is in none of them. -/
theorem no_loss_no_dup {s : St} (hr : Reachable s) :
    s.comp.Perm (s.lst ++ s.det ++ s.priv ++ s.out) ∧
    (s.lst ++ s.det ++ s.priv ++ s.out).Nodup ∧
    IsChain s.next s.head s.lst ∧
    (∀ (p m : Nat), s.prod[p]? = some (PPc.loaded m) →
        m ∉ s.comp ∧ m ∉ s.lst ∧ m ∉ s.det ∧ m ∉ s.priv ∧ m ∉ s.out) := by
  have hi := invariant hr
  refine ⟨hi.perm, hi.nodup, hi.chainL, ?_⟩
  intro p m hp
  have h := (hi.pendFresh p m hp).2
  have hc : m ∉ s.comp := fun hin => h (hi.perm.mem_iff.mp hin)
  rw [mem_all4] at h
  exact ⟨hc, fun x => h (Or.inl x), fun x => h (Or.inr (Or.inl x)), fun x => h (Or.inr (Or.inr (Or.inl x))),
    fun x => h (Or.inr (Or.inr (Or.inr x)))⟩

/-- **at most once, and only what was inserted**: the sequence of extracted messages has no repetition
and consists of completed inserts -/
theorem extracted_at_most_once {s : St} (hr : Reachable s) : s.out.Nodup ∧ ∀ m ∈ s.out, m ∈ s.comp := by
  have hi := invariant hr
  constructor
  · have := hi.nodup
    unfold all4 at this
    exact (List.nodup_append.mp this).2.1
  · intro m hm
    exact hi.perm.mem_iff.mpr (mem_all4.mpr (Or.inr (Or.inr (Or.inr hm))))

/-- **the swap takes the whole list**: the pointer returned by `atomic_exchange` leads, through `next`,
over exactly the current content of the buffer, which becomes empty -/
theorem swap_takes_all {s s' : St} (hr : Reachable s) (h : swap s = some s') :
    s'.det = s.lst ∧ s'.lst = [] ∧ s'.head = none ∧ s'.cons = .walk s.head ∧ IsChain s'.next s.head s.lst ∧
    (∀ m ∈ s.comp, m ∉ s.out → m ∈ s'.snap) := by
  have hi := invariant hr
  obtain ⟨hc, rfl⟩ := swap_spec h
  refine ⟨rfl, rfl, rfl, rfl, hi.chainL, ?_⟩
  intro m hm hout
  have hdet : s.det = [] := by have := hi.chainD; simpa [hc] using this
  have := mem_all4.mp (hi.perm.mem_iff.mp hm)
  simp only [hdet, List.not_mem_nil, false_or] at this
  simp only [List.mem_append]
  rcases this with h1 | h1 | h1
  · exact Or.inl h1
  · exact Or.inr h1
  · exact absurd h1 hout

/-- **every completed insert is taken by the next swap**: start a consumer operation (`swap`) in any
reachable state `s0`; let producers and the consumer's walk interleave arbitrarily (`acts`) until the
walk is over (`ready`). Then every message whose insert had completed before the swap and that had not
been extracted is in the private heap. -/
theorem taken_after_swap {s0 s1 s2 : St} (hr : Reachable s0) (hsw : swap s0 = some s1) (acts : List Act)
    (he : exec s1 acts = some s2) (hf : ∀ a ∈ acts, finishes a = false) (hready : s2.cons = .ready) :
    ∀ m ∈ s0.comp, m ∉ s0.out → m ∈ s2.priv := by
  intro m hm hout
  have hsnap := (swap_takes_all hr hsw).2.2.2.2.2 m hm hout
  have hr1 : Reachable s1 := Reachable.step .swap hr hsw
  have hc1 : s1.cons ≠ .idle := by rw [(swap_takes_all hr hsw).2.2.2.1]; simp
  have hk := exec_keeps acts he hf hc1
  have hi2 := invariant (exec_reachable acts hr1 he)
  have hdet : s2.det = [] := by have := hi2.chainD; simpa [hready] using this
  have := hi2.snapW (by rw [hready]; simp) m (by rw [hk.1]; exact hsnap)
  rw [hdet] at this
  simpa using this

/-- **peek is a lower bound**: `msg_queue_time_peek` = swap, walk, minimum of the private heap. The
value it returns is ≤ the time stamp of every message whose insert completed before the peek's swap and
which has not been extracted — whatever the producers do in the meantime. -/
theorem peek_lower_bound {s0 s1 s2 s3 : St} {v : Nat} (hr : Reachable s0) (hsw : swap s0 = some s1)
    (acts : List Act) (he : exec s1 acts = some s2) (hf : ∀ a ∈ acts, finishes a = false)
    (hp : peek s2 = some (s3, v)) :
    ∀ m ∈ s0.comp, m ∉ s0.out → v ≤ s0.t m := by
  intro m hm hout
  obtain ⟨hready, _, rfl⟩ := peek_spec hp
  have hin := taken_after_swap hr hsw acts he hf hready m hm hout
  have hlt : m < s0.nmsgs := by
    have hi := invariant hr
    exact hi.bound m (hi.perm.mem_iff.mp hm)
  have ht1 : s1.t m = s0.t m := by obtain ⟨_, rfl⟩ := swap_spec hsw; rfl
  have hn1 : s1.nmsgs = s0.nmsgs := by obtain ⟨_, rfl⟩ := swap_spec hsw; rfl
  have ht2 := (exec_t_stable acts he).2 m (by omega)
  rw [← ht1, ← ht2]
  exact minT_le hin

/-- `msg_queue_extract` returns an element of minimal time stamp of the private heap (the guard of the
model's `extract`; for the real heap this is the heap work package) and `NULL` only if it is empty -/
theorem extract_returns_min {s s' : St} {c : Option Nat} (h : extract s c = some s') :
    (∀ m, c = some m → m ∈ s.priv ∧ ∀ j ∈ s.priv, s.t m ≤ s.t j) ∧ (c = none → s.priv = []) := by
  obtain ⟨_, hcase⟩ := extract_spec h
  rcases hcase with ⟨m, rfl, hm, _⟩ | ⟨rfl, he, _⟩
  · refine ⟨fun m' hm' => ?_, fun hn => by cases hn⟩
    cases hm'; exact isMin_mem hm
  · exact ⟨fun m' hm' => (by cases hm'), fun _ => he⟩

/-! ### Non-vacuity: two producers, a failed CAS with retry, a spurious failure, swap, walk, peek, extract -/
def exRun : Option St :=
  exec (MQueue.init 2)
    [.insLoad 0 50, .insLoad 1 30, .insCas 1 false, .insCas 0 false, .insCas 0 true, .insCas 0 false,
     .swap, .insLoad 1 10, .walk, .insCas 1 false, .walk, .walk]
/-- after the run: both early inserts are private, the late one (t=10) is in the shared list, the
consumer is `ready` -/
example : exRun.map (fun s => (s.priv, s.lst, s.comp, s.snap)) = some ([1, 0], [2], [2, 0, 1], [0, 1]) := by decide
example : exRun.map (fun s => (s.head, s.next 2, s.next 0, s.next 1)) = some (some 2, none, some 1, none) := by
  decide
example : (exRun.bind peek).map (·.2) = some 30 := by decide
example : (exRun.bind (fun s => extract s (some 1))).map (fun s => (s.priv, s.out)) = some ([0], [1]) := by decide
example : (exRun.bind (fun s => extract s (some 0))).isNone = true := by decide

end RootSim.C15
