import RootSim.Proofs.LP
/-!
# C05 (LP level) and C13 (LP level): rollback restores the exact LP state; fossil collection never
discards what a legal rollback can need.

The model is `Model/LP.lean` (`process.c` + `fossil.c` + the checkpoint log), over an arbitrary LP
state type `σ`, an arbitrary deterministic handler `h`, arbitrary message contents `ev`.
A checkpoint is the state itself; that the allocator's checkpoint/restore reproduces every byte is
the allocator-level half of C05 (`Props/C05.lean`, work package ALLOC).
All statements are for every history of operations, every checkpoint placement, every rollback target.
-/
namespace RootSim.C05LP
open RootSim RootSim.LP

variable {σ : Type}

/-- an operation of the LP-local machine; the environment chooses them freely -/
inductive Op where
  | fwd (m : Nat) (outs : List Nat)    -- forward execution of message `m`, outputs get ordinals `outs`
  | ckpt                                -- a checkpoint is taken (any placement)
  | rb (i : Nat)                        -- rollback to history index `i`
  | fossil (gvt ep : Nat)               -- fossil collection at GVT `gvt`

/-- one step; `none` = the C code would run off the beginning of the checkpoint log -/
def step (h : σ → Event → σ × List Event) (ev : Nat → Event) (lp : LPState σ) : Op → Option (LPState σ)
  | .fwd m outs => some (forward h lp m (ev m) outs).1
  | .ckpt => some (checkpoint lp)
  | .rb i => (rollback h ev lp i).map (·.lp)
  | .fossil gvt ep => match fossil (fun m => (ev m).t) lp gvt ep with
    | some o => some o.lp
    | none => some lp

def run (h : σ → Event → σ × List Event) (ev : Nat → Event) (lp : LPState σ) : List Op → Option (LPState σ)
  | [] => some lp
  | op :: ops => match step h ev lp op with
    | some lp' => run h ev lp' ops
    | none => none

/-- the state of an LP is exact: it is the re-execution, from `init`, of the committed messages
`base` followed by the past messages still in the history -/
def Exact (h : σ → Event → σ × List Event) (ev : Nat → Event) (init : σ) (lp : LPState σ) : Prop :=
  ∃ base, LInv h ev init base lp

/-- **C05, one rollback**: rollback to any index `i` not before some checkpoint succeeds and hands
the next handler exactly the state after the messages that remain valid. -/
theorem rollback_exact {h : σ → Event → σ × List Event} {ev : Nat → Event} {init : σ} {base : List Nat}
    {lp : LPState σ} (hI : LInv h ev init base lp) (i : Nat) (hck : ∃ x ∈ lp.logs, x.1 ≤ i) :
    ∃ o, rollback h ev lp i = some o ∧ o.lp.hist = lp.hist.take i ∧
      o.lp.st = replay h ev init (base ++ pastMsgs (lp.hist.take i)) :=
  let ⟨o, h1, h2, _, h4, _⟩ := LP.rollback_exact hI i hck
  ⟨o, h1, h2, h4⟩

/-- coasting forward emits nothing: the state after a rollback is computed by `silentExec`, which by
definition discards every output of the re-executed handlers -/
theorem silent_no_sends (h : σ → Event → σ × List Event) (ev : Nat → Event) (s : σ) (ms : List Nat) :
    silentExec h ev s ms = ms.foldl (fun s m => (h s (ev m)).1) s := rfl

/-- **C05/C13, every history**: starting from an exact state, after ANY sequence of forward steps,
checkpoints (any placement), rollbacks (to any target for which the step is defined) and fossil
collections (any GVT values), the state is still exact. -/
theorem run_exact {h : σ → Event → σ × List Event} {ev : Nat → Event} {init : σ} :
    ∀ (ops : List Op) (lp lp' : LPState σ), Exact h ev init lp → run h ev lp ops = some lp' →
      Exact h ev init lp'
  | [], lp, lp', hE, hr => by simp [run] at hr; subst hr; exact hE
  | op :: ops, lp, lp', ⟨base, hI⟩, hr => by
    simp only [run] at hr
    split at hr
    · rename_i lp1 hs
      refine run_exact ops lp1 lp' ?_ hr
      cases op with
      | fwd m outs => simp [step] at hs; subst hs; exact ⟨base, forward_inv hI m outs⟩
      | ckpt => simp [step] at hs; subst hs; exact ⟨base, checkpoint_inv hI⟩
      | rb i =>
        simp only [step, Option.map_eq_some_iff] at hs
        obtain ⟨o, ho, rfl⟩ := hs
        -- the step is defined, so a log with ref ≤ i was found
        have hck : ∃ x ∈ lp.logs, x.1 ≤ i := by
          unfold rollback at ho
          split at ho
          · simp at ho
          · rename_i li hli
            obtain ⟨A, x, B, hl, _, hx, _⟩ := findLog_some hli
            exact ⟨x, by rw [hl]; simp, hx⟩
        obtain ⟨o', ho', _, _, _, hI'⟩ := LP.rollback_exact hI i hck
        rw [ho] at ho'; cases ho'; exact ⟨base, hI'⟩
      | fossil gvt ep =>
        simp only [step] at hs
        split at hs
        · rename_i o ho
          cases hs
          exact ⟨_, (fossil_inv hI _ gvt ep ho).2.2.2.2⟩
        · cases hs; exact ⟨base, hI⟩
    · simp at hr

/-- **C13**: after a fossil collection the first kept checkpoint has reference 0, so EVERY later
rollback target has a checkpoint not after it, the kept history starts exactly at that checkpoint,
and (by `rollback_exact`) every such rollback is exact. -/
theorem rollback_after_fossil_exact {h : σ → Event → σ × List Event} {ev : Nat → Event} {init : σ}
    {base : List Nat} {lp : LPState σ} (hI : LInv h ev init base lp) (gvt ep : Nat)
    {o : FossilOut σ} (ho : fossil (fun m => (ev m).t) lp gvt ep = some o) (i : Nat) :
    lp.hist = o.dropped ++ o.lp.hist ∧
    ∃ o', rollback h ev o.lp i = some o' ∧ o'.lp.hist = o.lp.hist.take i ∧
      o'.lp.st = replay h ev init (base ++ pastMsgs (o.dropped ++ o.lp.hist.take i)) := by
  obtain ⟨hh, _, _, ⟨x, hx, hx0⟩, hI'⟩ := fossil_inv hI _ gvt ep ho
  have hmem : x ∈ o.lp.logs := by
    cases hl : o.lp.logs with
    | nil => simp [hl] at hx
    | cons a as => simp [hl] at hx; subst hx; simp
  obtain ⟨o', h1, h2, h3⟩ := rollback_exact hI' i ⟨x, hmem, by omega⟩
  refine ⟨hh, o', h1, h2, ?_⟩
  rw [h3, List.append_assoc, ← pastMsgs_append]

/-! ### Non-vacuity: a concrete LP (state = list of processed time stamps) with two checkpoints,
rolled back between them, after a fossil collection. -/
def exH : List Nat → Event → List Nat × List Event := fun s e => (s ++ [e.t], [])
def exEv : Nat → Event := fun m => { dest := 0, t := 10 * m, type := 1, payload := [] }
def exLp0 : LPState (List Nat) := { hist := [.past 0], logs := [(1, [0])], st := [0], bound := some 0 }

example : LInv exH exEv [] [] exLp0 :=
  ⟨by intro x hx; simp [exLp0] at hx; subst hx; simp [exLp0, replay, pastMsgs, exH, exEv],
   by simp [exLp0], by simp [exLp0, replay, pastMsgs, exH, exEv]⟩

example : (run exH exEv exLp0 [.fwd 1 [7], .fwd 2 [], .ckpt, .fwd 3 [8, 9], .fossil 15 1, .rb 2]).map
    (fun lp => (lp.st, lp.hist, lp.logs)) =
    some ([0, 10], [.sent 7, .past 1], [(0, [0])]) := by decide

end RootSim.C05LP
