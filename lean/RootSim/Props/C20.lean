import RootSim.Proofs.Stats
import RootSim.Proofs.StatsLoop
import RootSim.Proofs.StatsLoopInv
/-!
# C20 — the statistics file

"When a statistics file is requested, the produced binary file parses according to its documented
layout, holds the same number of per-GVT records for the node and for each of its threads, and lists
non-decreasing GVT values. Each per-thread record reports exactly the forward executions, rollbacks,
undone events, silent re-executions, checkpoints and anti-messages that occurred on that thread since
its previous record, so cumulatively undone events never exceed forward executions."

Proved here, for all data / all runs of the accounting machine (no bound on sizes or lengths):
`roundtrip`, `decode_sound`, `decode_injective`, `encode_length`, `records_exact` (+ `record_counts`), `undone_le_forward`,
`file_undone_le_forward`, `gvt_column`, `gvt_column_nondecreasing`, `node_count_eq_thread0`,
`file_wf`/`file_roundtrip`.

**"The same number of records for each thread"** depends on the variant of the flush loop of
`gvt_msg_drain` (`StatsLoop.Cfg.fix6`). The statement is `SameRecordCountStatement fix6`, over the model of the
worker loop / GVT round / termination test / flush loop (`Model/StatsLoop.lean`: any number of threads, any
schedule of the atomic blocks):
* `fix6 = false` (the pinned tree, finding F6): *refuted* (`same_record_count_counterexample_stop`,
  `same_record_count_counterexample_vote`, `not_same_record_count`); what does hold is `node_count_eq_thread0`
  and `records_plus_dropped` (a thread lacks exactly the values its flush loop dropped);
* `fix6 = true` (the flush loop hands the value to `stats_on_gvt`): *proved*, `same_record_count_fixed` (every
  thread has recorded exactly the rounds that completed) for every execution that returns (`StatsLoop.Returns`:
  not one that ends in the shutdown deadlock F1).
-/
namespace RootSim.C20
open RootSim.Stats

/-! ## Layout -/

/-- **The layout is self-consistent**: every well-formed content is recovered from its bytes. -/
theorem roundtrip (d : StatsData) (h : d.WF) : decode (encode d) = .ok d := by
  obtain ⟨h0, h1, h2, h3, h4⟩ := h
  have hbody : decBody d.be (encInt d.be 8 d.names.length ++ (d.names.flatMap encName ++
      (encInt d.be 8 d.nodes.length ++ (d.nodes.flatMap (encNode d.be) ++ [])))) = .ok (d, []) := by
    unfold decBody
    rw [decCount_enc d.be _ _ h1]
    simp only
    rw [if_neg (by omega)]
    rw [decList_enc decName encName d.names _ (fun n hn r => decName_enc n r (h2 n hn))]
    simp only
    rw [decCount_enc d.be _ _ h3]
    simp only
    rw [decList_enc (decNode d.be d.names.length) (encNode d.be) d.nodes []
          (fun n hn r => decNode_enc d.be d.names.length h0 n r (h4 n hn))]
  simp only [List.append_nil] at hbody
  cases hbe : d.be with
  | false =>
    rw [hbe] at hbody
    have : encode d = 15 :: 240 :: (encInt false 8 d.names.length ++ (d.names.flatMap encName ++
        (encInt false 8 d.nodes.length ++ d.nodes.flatMap (encNode false)))) := by
      simp [encode, hbe, encInt, leBytes, magic]
    rw [this]
    simp only [decode, and_self, if_true, hbody]
  | true =>
    rw [hbe] at hbody
    have : encode d = 240 :: 15 :: (encInt true 8 d.names.length ++ (d.names.flatMap encName ++
        (encInt true 8 d.nodes.length ++ d.nodes.flatMap (encNode true)))) := by
      simp [encode, hbe, encInt, leBytes, magic]
    rw [this]
    simp [decode, hbody]

theorem roundtrip_option (d : StatsData) (h : d.WF) : decode? (encode d) = some d := by
  simp [decode?, roundtrip d h, Except.toOption]

/-- **The layout is unambiguous**: whatever the decoder accepts is *exactly* the encoding of a
well-formed content (no slack, no alternative encodings, nothing ignored). -/
theorem decode_sound (bs : Bytes) (hb : IsBytes bs) (d : StatsData) (h : decode bs = .ok d) :
    encode d = bs ∧ d.WF := by
  have body : ∀ (be : Bool) (r rest : Bytes) (d : StatsData), IsBytes r → decBody be r = .ok (d, rest) →
      r = encInt be 8 d.names.length ++ (d.names.flatMap encName ++
        (encInt be 8 d.nodes.length ++ d.nodes.flatMap (encNode be))) ++ rest ∧ d.be = be ∧ d.WF := by
    intro be r rest d hr h
    unfold decBody at h
    split at h
    · exact absurd h (by simp)
    rename_i sCnt r1 h1
    split at h
    · exact absurd h (by simp)
    rename_i hs
    split at h
    · exact absurd h (by simp)
    rename_i names r2 h2
    split at h
    · exact absurd h (by simp)
    rename_i nCnt r3 h3
    split at h
    · exact absurd h (by simp)
    rename_i nodes r4 h4
    simp only [Except.ok.injEq, Prod.mk.injEq] at h
    obtain ⟨rfl, rfl⟩ := h
    obtain ⟨e1, p1⟩ := decCount_sound be r sCnt r1 hr h1
    have hb1 : IsBytes r1 := by rw [e1] at hr; exact hr.of_append_right
    obtain ⟨e2, l2, p2⟩ := decList_sound decName encName (fun n => n.length ≤ 255)
      (fun bs x r hb h => decName_sound bs x r hb h) sCnt r1 names r2 hb1 h2
    have hb2 : IsBytes r2 := by rw [e2] at hb1; exact hb1.of_append_right
    obtain ⟨e3, p3⟩ := decCount_sound be r2 nCnt r3 hb2 h3
    have hb3 : IsBytes r3 := by rw [e3] at hb2; exact hb2.of_append_right
    obtain ⟨e4, l4, p4⟩ := decList_sound (decNode be sCnt) (encNode be) (fun n => n.WF sCnt)
      (fun bs x r hb h => decNode_sound be sCnt bs x r hb h) nCnt r3 nodes r4 hb3 h4
    refine ⟨?_, rfl, ?_⟩
    · show r = encInt be 8 names.length ++ (names.flatMap encName ++
        (encInt be 8 nodes.length ++ nodes.flatMap (encNode be))) ++ r4
      simp only [List.append_assoc]
      rw [l2, l4, ← e4, ← e3, ← e2, ← e1]
    · show 0 < names.length ∧ names.length < 2^63 ∧ (∀ n ∈ names, n.length ≤ 255) ∧ nodes.length < 2^63 ∧
        ∀ n ∈ nodes, n.WF names.length
      rw [l2, l4]
      exact ⟨by omega, p1, p2, p3, p4⟩
  unfold decode at h
  split at h
  · rename_i b0 b1 r
    have hr : IsBytes r := fun x hx => hb x (by simp [hx])
    split at h
    · rename_i hm
      split at h
      · exact absurd h (by simp)
      · rename_i d' rest hd
        split at h
        · rename_i hrest
          simp only [Except.ok.injEq] at h
          subst h; subst hrest
          obtain ⟨e, hbe, wf⟩ := body false r [] d' hr hd
          refine ⟨?_, wf⟩
          rw [hm.1, hm.2, e]
          simp [encode, hbe, encInt, leBytes, magic]
        · exact absurd h (by simp)
    · split at h
      · rename_i hm
        split at h
        · exact absurd h (by simp)
        · rename_i d' rest hd
          split at h
          · rename_i hrest
            simp only [Except.ok.injEq] at h
            subst h; subst hrest
            obtain ⟨e, hbe, wf⟩ := body true r [] d' hr hd
            refine ⟨?_, wf⟩
            rw [hm.1, hm.2, e]
            simp [encode, hbe, encInt, leBytes, magic]
          · exact absurd h (by simp)
      · exact absurd h (by simp)
  · exact absurd h (by simp)

/-- consequently decoding is injective on byte strings -/
theorem decode_injective (a b : Bytes) (ha : IsBytes a) (hb : IsBytes b) (d : StatsData)
    (h1 : decode a = .ok d) (h2 : decode b = .ok d) : a = b := by
  rw [← (decode_sound a ha d h1).1, ← (decode_sound b hb d h2).1]

/-- **Length formula** (bytes): magic, `s_cnt`, the Pascal strings, `n_cnt`, then per node the
72-byte global block, the 8-byte size and 16 bytes per node entry, and per thread an 8-byte size
and `8 * s_cnt` bytes per record. -/
theorem encode_length (d : StatsData) (h : d.WF) :
    (encode d).length =
      2 + 8 + (d.names.map (fun n => 1 + n.length)).sum + 8 +
      (d.nodes.map (fun n => globSize + 8 + n.recs.length * nodeRecSize +
          (n.threads.map (fun th => 8 + th.length * (8 * d.names.length))).sum)).sum := by
  obtain ⟨h0, h1, h2, h3, h4⟩ := h
  have hn : ∀ l : List Bytes, (∀ n ∈ l, n.length ≤ 255) →
      (l.flatMap encName).length = (l.map (fun n => 1 + n.length)).sum := by
    intro l
    induction l with
    | nil => simp
    | cons n l ih =>
      intro hl
      simp only [List.flatMap_cons, List.length_append, List.map_cons, List.sum_cons]
      rw [encName_length n (hl n (by simp)), ih (fun m hm => hl m (by simp [hm]))]
  have hd : ∀ l : List NodeStats, (∀ n ∈ l, n.WF d.names.length) →
      (l.flatMap (encNode d.be)).length = (l.map (fun n => globSize + 8 + n.recs.length * nodeRecSize +
          (n.threads.map (fun th => 8 + th.length * (8 * d.names.length))).sum)).sum := by
    intro l
    induction l with
    | nil => simp
    | cons n l ih =>
      intro hl
      simp only [List.flatMap_cons, List.length_append, List.map_cons, List.sum_cons]
      rw [encNode_length d.be _ n (hl n (by simp)), ih (fun m hm => hl m (by simp [hm]))]
  simp only [encode, List.length_append, encInt_length, hn _ h2, hd _ h4]

/-! ## Accounting -/

/-- **Each record reports exactly what happened since the previous one.** For every run of the
accounting machine from the initial state (`stats_cur` zeroed, empty temporary file), the k-th
record written is the tally of the steps of the k-th period (each slot modulo 2^64, the real-time
slot being the timer value at the flush), and the accumulator holds the tally of the steps after
the last flush. -/
theorem records_exact (rid0 : Bool) (l : List Step) (s : TState) (h : run rid0 {} l = some s) :
    s.out = (periods l).1.map Period.record ∧ s.cur = (tally (periods l).2).wrap := by
  obtain ⟨h1, h2, _⟩ := run_spec rid0 l {} s fits_zero h
  rw [expectOut_zero] at h1
  rw [expectCur_zero] at h2
  exact ⟨by simpa using h1, h2⟩

/-- what `tally` counts, slot by slot (the six counters of the property) -/
theorem record_counts (l : List Step) :
    (tally l).processed = l.countP (fun a => match a with | .forward _ => true | _ => false) ∧
    (tally l).rollbacks = l.countP (fun a => match a with | .rollback _ _ => true | _ => false) ∧
    (tally l).undone = (l.map (fun a => match a with | .rollback k _ => k | _ => 0)).sum ∧
    (tally l).silent = (l.map (fun a => match a with | .silent j _ => j | _ => 0)).sum ∧
    (tally l).ckpts = l.countP (fun a => match a with | .ckpt _ _ => true | _ => false) ∧
    (tally l).antis = l.countP (fun a => match a with | .anti => true | _ => false) := by
  induction l with
  | nil => simp [tally]
  | cons a as ih =>
    obtain ⟨i1, i2, i3, i4, i5, i6⟩ := ih
    cases a <;>
      simp [tally_cons, Step.delta, Counters.add, i1, i2, i3, i4, i5, i6] <;> omega

/-- no wrap-around ⇒ the record *is* the tally (fewer than 2^64 of anything between two GVTs) -/
theorem record_exact_of_fits (p : Period) (h : (tally p.steps).Fits) :
    p.record = { tally p.steps with realTime := p.now % 2^64 } := by
  rw [Period.record, Counters.wrap_of_fits _ h]

/-- **Undone never exceeds forward**, for every prefix of every run: each undone entry had been
pushed by a forward step and not fossil-collected. -/
theorem undone_le_forward (rid0 : Bool) (l : List Step) (s : TState) (h : run rid0 {} l = some s)
    (p : List Step) (hp : p <+: l) : undTotal p ≤ fwdTotal p := by
  obtain ⟨q, rfl⟩ := hp
  obtain ⟨s1, h1, _⟩ := run_append rid0 p q {} s h
  have := hist_invariant rid0 p {} s1 h1
  simp only at this
  have h0 : ({} : TState).hist = 0 := rfl
  omega

/-- the same, read off the file: cumulative sums over the first `j` records of a thread -/
theorem file_undone_le_forward (rid0 : Bool) (l : List Step) (s : TState) (h : run rid0 {} l = some s)
    (hfit : ∀ p ∈ (periods l).1, (tally p.steps).processed < 2^64) (j : Nat) :
    ((s.out.take j).map (·.undone)).sum ≤ ((s.out.take j).map (·.processed)).sum := by
  obtain ⟨hout, _⟩ := records_exact rid0 l s h
  have hpre : ((periods l).1.take j).flatMap Period.flat <+: l := by
    have hl := periods_flat l
    have : (periods l).1 = (periods l).1.take j ++ (periods l).1.drop j := (List.take_append_drop j _).symm
    refine ⟨((periods l).1.drop j).flatMap Period.flat ++ (periods l).2, ?_⟩
    rw [← List.append_assoc, ← List.flatMap_append, ← this]
    exact hl.symm
  have hle := undone_le_forward rid0 l s h _ hpre
  rw [tally_flatMap_und, tally_flatMap_fwd] at hle
  rw [hout, ← List.map_take, List.map_map, List.map_map]
  have hsub : ∀ p ∈ (periods l).1.take j, (tally p.steps).processed < 2^64 :=
    fun p hp => hfit p (List.mem_of_mem_take hp)
  have e1 : ∀ ps : List Period, (ps.map ((fun c : Counters => c.undone) ∘ Period.record)).sum ≤
      (ps.map (fun p => (tally p.steps).undone)).sum := by
    intro ps
    induction ps with
    | nil => simp
    | cons p ps ih =>
      simp only [List.map_cons, List.sum_cons, Function.comp_apply, Period.record, Counters.wrap]
      have : (tally p.steps).undone % 2^64 ≤ (tally p.steps).undone := Nat.mod_le _ _
      omega
  have e2 : ∀ ps : List Period, (∀ p ∈ ps, (tally p.steps).processed < 2^64) →
      (ps.map ((fun c : Counters => c.processed) ∘ Period.record)).sum =
      (ps.map (fun p => (tally p.steps).processed)).sum := by
    intro ps
    induction ps with
    | nil => simp
    | cons p ps ih =>
      intro hps
      simp only [List.map_cons, List.sum_cons, Function.comp_apply, Period.record, Counters.wrap]
      have := hps p (by simp)
      rw [ih (fun q hq => hps q (by simp [hq])), Nat.mod_eq_of_lt this]
  have := e1 ((periods l).1.take j)
  rw [e2 _ hsub]
  omega

/-! ## The GVT column and the node records -/

/-- the node file lists exactly the values handed to `stats_on_gvt` on thread 0, in order -/
theorem gvt_column (l : List Step) (s : TState) (h : run true {} l = some s) :
    s.nodeOut.map (·.gvt) = gvtInputs l := by
  simpa using nodeOut_spec l {} s h

/-- **GVT values are non-decreasing in the file** if the values produced by the GVT algorithm are
(that is property C04; keys of non-negative doubles order like the doubles). -/
theorem gvt_column_nondecreasing (l : List Step) (s : TState) (h : run true {} l = some s)
    (hmono : (gvtInputs l).Pairwise (· ≤ ·)) : (s.nodeOut.map (·.gvt)).Pairwise (· ≤ ·) := by
  rw [gvt_column l s h]; exact hmono

/-- **The node holds as many records as thread 0** (both are written by the same `stats_on_gvt` call);
other threads never touch the node file. -/
theorem node_count_eq_thread0 (l : List Step) (s : TState) (h : run true {} l = some s) :
    s.nodeOut.length = s.out.length ∧ s.out.length = (gvtInputs l).length := by
  have h1 := congrArg List.length (gvt_column l s h)
  have h2 := congrArg List.length (records_exact true l s h).1
  simp only [List.length_map] at h1 h2
  rw [h1, h2, periods_length]
  exact ⟨rfl, rfl⟩

theorem node_untouched_by_others (l : List Step) (s : TState) (h : run false {} l = some s) :
    s.nodeOut = [] := nodeOut_other l {} s h

/-! ## From the runs to the file -/

/-- every record written fits the 12 × 8-byte `struct stats_thread` -/
theorem records_fit (rid0 : Bool) (l : List Step) (s : TState) (h : run rid0 {} l = some s) :
    ∀ c ∈ s.out, c.toList.length = statsCount ∧ ∀ v ∈ c.toList, v < 2^64 := by
  intro c hc
  rw [(records_exact rid0 l s h).1] at hc
  obtain ⟨p, _, rfl⟩ := List.mem_map.mp hc
  refine ⟨rfl, ?_⟩
  intro v hv
  simp only [Period.record, Counters.wrap, Counters.toList, List.mem_cons, List.not_mem_nil, or_false] at hv
  rcases hv with h | h | h | h | h | h | h | h | h | h | h | h <;> omega

/-- **The file of a (single-node) run is well-formed**, hence parses back: thread 0 ran `l0` and ended
in `s0`, the other threads ran `p.1` and ended in `p.2` for `p ∈ others`; sizes are bounded by what an
`int64` byte count can express. -/
theorem file_wf (be : Bool) (lps maxRss : Nat) (ts : List Nat) (l0 : List Step) (s0 : TState)
    (others : List (List Step × TState))
    (h0 : run true {} l0 = some s0) (hs : ∀ p ∈ others, run false {} p.1 = some p.2)
    (hlps : lps < 2^64) (hrss : maxRss < 2^64) (hts : ts.length = globalCount ∧ ∀ t ∈ ts, t < 2^64)
    (hn : others.length + 1 < 2^64)
    (hg : ∀ r ∈ s0.nodeOut, r.gvt < 2^64 ∧ r.rss < 2^64)
    (hlen0 : s0.out.length * 96 < 2^63) (hlen : ∀ p ∈ others, p.2.out.length * 96 < 2^63) :
    (StatsData.mk be statsNameBytes [assemble lps maxRss ts (s0 :: others.map (·.2))]).WF := by
  have hfit : ∀ s ∈ s0 :: others.map (·.2), ∀ c ∈ s.out,
      c.toList.length = statsCount ∧ ∀ v ∈ c.toList, v < 2^64 := by
    intro s hs'
    rcases List.mem_cons.mp hs' with rfl | hm
    · exact records_fit true l0 _ h0
    · obtain ⟨p, hp, rfl⟩ := List.mem_map.mp hm
      exact records_fit false p.1 p.2 (hs p hp)
  have hnl : statsNameBytes.length = 12 := by decide
  have hnb : ∀ n ∈ statsNameBytes, n.length ≤ 255 := by decide
  refine ⟨?_, ?_, hnb, ?_, ?_⟩
  · show 0 < statsNameBytes.length; omega
  · show statsNameBytes.length < 2^63; omega
  · show [assemble lps maxRss ts (s0 :: others.map (·.2))].length < 2^63; simp
  intro n hn'
  simp only [List.mem_singleton] at hn'
  subst hn'
  show (assemble lps maxRss ts (s0 :: others.map (·.2))).WF statsNameBytes.length
  rw [hnl]
  refine ⟨?_, hlps, hrss, hts.1, hts.2, ?_, ?_, ?_⟩
  · simp only [assemble, List.length_map, List.length_cons]; omega
  · simp only [assemble, List.head?_cons, Option.map_some, Option.getD_some, nodeRecSize]
    have := (node_count_eq_thread0 l0 s0 h0).1
    omega
  · simpa [assemble] using hg
  · intro th hth
    simp only [assemble, List.mem_map] at hth
    obtain ⟨s, hs', rfl⟩ := hth
    refine ⟨?_, ?_⟩
    · simp only [List.length_map]
      rcases List.mem_cons.mp hs' with rfl | hm
      · omega
      · obtain ⟨p, hp, rfl⟩ := List.mem_map.mp hm
        have := hlen p hp; omega
    · intro rc hrc
      obtain ⟨c, hc, rfl⟩ := List.mem_map.mp hrc
      exact hfit s hs' c hc

theorem file_roundtrip (be : Bool) (lps maxRss : Nat) (ts : List Nat) (l0 : List Step) (s0 : TState)
    (others : List (List Step × TState))
    (h0 : run true {} l0 = some s0) (hs : ∀ p ∈ others, run false {} p.1 = some p.2)
    (hlps : lps < 2^64) (hrss : maxRss < 2^64) (hts : ts.length = globalCount ∧ ∀ t ∈ ts, t < 2^64)
    (hn : others.length + 1 < 2^64)
    (hg : ∀ r ∈ s0.nodeOut, r.gvt < 2^64 ∧ r.rss < 2^64)
    (hlen0 : s0.out.length * 96 < 2^63) (hlen : ∀ p ∈ others, p.2.out.length * 96 < 2^63) :
    let d := StatsData.mk be statsNameBytes [assemble lps maxRss ts (s0 :: others.map (·.2))]
    decode (encode d) = .ok d :=
  roundtrip _ (file_wf be lps maxRss ts l0 s0 others h0 hs hlps hrss hts hn hg hlen0 hlen)

/-! ## Same number of records for every thread: false on the pinned tree (finding F6), true with the repair -/

open RootSim.StatsLoop in
/-- The part of C20 about the record counts, for the variant `fix6` of the flush loop: in every execution that
returns (all threads have left the worker loop and the flush loop of `gvt_msg_drain` and stand at its barrier)
all threads have called `stats_on_gvt` equally often. -/
def SameRecordCountStatement (fix6 : Bool) : Prop :=
  ∀ (cfg : Cfg) (sched : List Nat), cfg.fix6 = fix6 →
    Returns cfg sched → sameCount (runFine cfg (init cfg) sched) = true

open RootSim.StatsLoop in
/-- **Counter-example 1** (pinned tree; replayed on the real code by the harness, at `VERIF_YIELD` granularity):
a model calls `RootsimStop()` while the reducer thread of the current GVT round is inside its batch
of 64 `process_msg()`: thread 0 ends with one record, thread 1 with none. -/
theorem same_record_count_counterexample_stop :
    allDone (runHook (stopCfg false) (initHook (stopCfg false)) stopSched) = true ∧
    recordCounts (runHook (stopCfg false) (initHook (stopCfg false)) stopSched) = [1, 0] := by decide +kernel

open RootSim.StatsLoop in
/-- **Counter-example 2** (pinned tree; plain predicate termination, no `RootsimStop`): the last vote of
`termination_on_gvt` lands between another thread's `gvt_phase_run()` and its loop test:
thread 0 ends with one record, thread 1 with two. -/
theorem same_record_count_counterexample_vote :
    allDone (runFine (voteCfg false) (init (voteCfg false)) voteSched) = true ∧
    recordCounts (runFine (voteCfg false) (init (voteCfg false)) voteSched) = [1, 2] := by decide +kernel

open RootSim.StatsLoop in
theorem not_same_record_count : ¬ SameRecordCountStatement false := by
  intro h
  have h1 := h (voteCfg false) voteSched rfl same_record_count_counterexample_vote.1
  have h2 : sameCount (runFine (voteCfg false) (init (voteCfg false)) voteSched) = false := by decide +kernel
  rw [h1] at h2
  exact Bool.noConfusion h2

open RootSim.StatsLoop in
/-- the two executions are not artefacts of a degenerate configuration: with the same configurations
a fair alternation of the threads terminates with equal counts -/
example : allDone (runHook (stopCfg false) (initHook (stopCfg false)) (rep [0, 1] 40)) = true ∧
    recordCounts (runHook (stopCfg false) (initHook (stopCfg false)) (rep [0, 1] 40)) = [1, 1] := by decide +kernel

open RootSim.StatsLoop in
/-- **Both variants: a thread lacks exactly the values its flush loop dropped.** In every execution that
returns, every round that was started is over and every thread has been handed its value, in the worker loop
(recorded) or in the flush loop (recorded iff `fix6`). No bound on threads, rounds or schedule length. -/
theorem records_plus_dropped (cfg : Cfg) (sched : List Nat) (hret : Returns cfg sched) :
    (∀ th ∈ (runFine cfg (init cfg) sched).ths,
      th.records + th.discarded = (runFine cfg (init cfg) sched).sh.completed) ∧
    (runFine cfg (init cfg) sched).sh.started = (runFine cfg (init cfg) sched).sh.completed :=
  GInv_final cfg _ (reachable_fine cfg sched) hret

open RootSim.StatsLoop in
/-- **With the repair every thread holds one record per GVT round.** For every number of threads, every
configuration (period, `RootsimStop` call, termination votes) and every schedule of the atomic blocks of the
loop model with `fix6 = true`: if the execution returns, every thread has called `stats_on_gvt` exactly once for
each round that completed (and no round is left open), hence all threads - thread 0, which also writes the
node's records (`node_count_eq_thread0`), among them - hold the same number of records. -/
theorem same_record_count_fixed (cfg : Cfg) (hfix : cfg.fix6 = true) (sched : List Nat) (hret : Returns cfg sched) :
    (∀ th ∈ (runFine cfg (init cfg) sched).ths, th.records = (runFine cfg (init cfg) sched).sh.completed) ∧
    (runFine cfg (init cfg) sched).sh.started = (runFine cfg (init cfg) sched).sh.completed ∧
    sameCount (runFine cfg (init cfg) sched) = true := by
  have hinv := reachable_fine cfg sched
  obtain ⟨hall, hcs⟩ := GInv_final cfg _ hinv hret
  have hrec : ∀ th ∈ (runFine cfg (init cfg) sched).ths,
      th.records = (runFine cfg (init cfg) sched).sh.completed := by
    intro th hm
    have h0 := hinv.2.2.2 hfix th hm
    have := hall th hm
    omega
  exact ⟨hrec, hcs, sameCount_of_all _ _ hrec⟩

open RootSim.StatsLoop in
/-- the same for the executions the harness replays on the real threads (grants between `VERIF_YIELD` points) -/
theorem same_record_count_fixed_hook (cfg : Cfg) (hfix : cfg.fix6 = true) (sched : List Nat)
    (hret : ReturnsHook cfg sched) :
    (∀ th ∈ (runHook cfg (initHook cfg) sched).ths, th.records = (runHook cfg (initHook cfg) sched).sh.completed) ∧
    sameCount (runHook cfg (initHook cfg) sched) = true := by
  have hinv := reachable_hook cfg sched
  obtain ⟨hall, _⟩ := GInv_final cfg _ hinv hret
  have hrec : ∀ th ∈ (runHook cfg (initHook cfg) sched).ths,
      th.records = (runHook cfg (initHook cfg) sched).sh.completed := by
    intro th hm
    have h0 := hinv.2.2.2 hfix th hm
    have := hall th hm
    omega
  exact ⟨hrec, sameCount_of_all _ _ hrec⟩

open RootSim.StatsLoop in
theorem same_record_count_fixed_statement : SameRecordCountStatement true :=
  fun cfg sched hfix hret => (same_record_count_fixed cfg hfix sched hret).2.2

/-! ### Non-vacuity of `Returns` / `ReturnsHook` for the repaired variant -/

open RootSim.StatsLoop in
/-- 2 threads, the schedule of counter-example 1: the execution returns; thread 1 adopts the round in its flush
loop (the pinned variant drops exactly that value: `discarded = [0, 1]`), the repaired variant records it -/
example : ReturnsHook (stopCfg true) stopSched ∧
    recordCounts (runHook (stopCfg true) (initHook (stopCfg true)) stopSched) = [1, 1] ∧
    (runHook (stopCfg false) (initHook (stopCfg false)) stopSched).ths.map (·.discarded) = [0, 1] := by
  decide +kernel

open RootSim.StatsLoop in
/-- 2 threads, fine-grained schedule of counter-example 2: returns, thread 0 adopts the second round -/
example : Returns (voteCfg true) voteSched ∧
    recordCounts (runFine (voteCfg true) (init (voteCfg true)) voteSched) = [2, 2] ∧
    (runFine (voteCfg false) (init (voteCfg false)) voteSched).ths.map (·.discarded) = [1, 0] ∧
    (runFine (voteCfg true) (init (voteCfg true)) voteSched).sh.completed = 2 := by
  decide +kernel

open RootSim.StatsLoop in
/-- 3 threads: returns; thread 0 records the round in its worker loop, threads 1 and 2 adopt it in their flush
loops (pinned variant: `[1, 0, 0]` records, `[0, 1, 1]` dropped; repaired variant: `[1, 1, 1]`) -/
example : ReturnsHook (stop3Cfg true) stop3Sched ∧
    recordCounts (runHook (stop3Cfg true) (initHook (stop3Cfg true)) stop3Sched) = [1, 1, 1] ∧
    recordCounts (runHook (stop3Cfg false) (initHook (stop3Cfg false)) stop3Sched) = [1, 0, 0] ∧
    (runHook (stop3Cfg false) (initHook (stop3Cfg false)) stop3Sched).ths.map (·.discarded) = [0, 1, 1] := by
  decide +kernel

open RootSim.StatsLoop in
/-- the hypothesis is not for free: the same 3 threads can end in the shutdown deadlock F1 (thread 0 has started
a round, the other threads are idle at the barrier and never join it): that execution has not returned after
200 further grants of thread 0 (it spins in thread phase B) -/
example : ¬ ReturnsHook (stop3Cfg true) (rep [1, 2] 16 ++ rep [0] 200) := by decide +kernel

/-! ## Non-vacuity -/

def exData : StatsData :=
  { be := false, names := [[112, 114], [97]],
    nodes := [{ lps := 4, maxRss := 123456, ts := [1, 2, 3, 4, 5, 6],
                recs := [⟨4607182418800017408, 1000⟩, ⟨4611686018427387904, 2000⟩],
                threads := [[[5, 600], [7, 800]], [[1, 2]]] }] }   -- thread 1 has one record fewer: still WF

example : exData.WF := by decide
example : decode (encode exData) = .ok exData := roundtrip exData (by decide)
example : (encode exData).length = 199 := by rfl
example : IsBytes (encode exData) := by decide +kernel
/-- appending a byte, or cutting one, makes a file unparsable -/
example : (match decode (encode exData ++ [0]) with | .error e => e == "garbage" | .ok _ => false) = true ∧
    (match decode ((encode exData).take 198) with | .error e => e == "truncated" | .ok _ => false) = true := by
  decide +kernel
example : (encode { exData with be := true }).take 2 = [240, 15] := by decide

/-- a run with forward executions, a rollback undoing two of them, a silent re-execution, a checkpoint,
fossil collection and two flushes -/
def exRun : List Step :=
  [.forward 3, .ckpt 64 1, .forward 2, .forward 2, .anti, .rollback 2 9, .silent 1 4, .forward 1,
   .gvt 4607182418800017408 77 1000, .fossil 1, .forward 5, .gvt 4611686018427387904 99 2000, .forward 1]

example : (run true {} exRun).isSome = true := by decide
example : ∃ s, run true {} exRun = some s ∧ s.out.length = 2 ∧ s.nodeOut.length = 2 ∧
    (s.out.map (·.processed)) = [4, 1] ∧ (s.out.map (·.undone)) = [2, 0] ∧ s.cur.processed = 1 :=
  ⟨_, rfl, by decide⟩
example : (gvtInputs exRun).Pairwise (· ≤ ·) := by decide
example : ∀ p ∈ (periods exRun).1, (tally p.steps).processed < 2^64 := by decide
/-- the structural constraint bites: undoing more than the history holds is not a run -/
example : run true {} [.forward 1, .rollback 2 0] = none := by decide

end RootSim.C20
