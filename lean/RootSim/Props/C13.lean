import RootSim.Proofs.AllocInv
/-!
# C13 (allocator level) — fossil collection never discards what a legal rollback can need

Model: `fossil` (= `model_allocator_fossil_lp_collect`), `ckptRestore`, `keepUpTo` (the unchecked
backward scans over `logs`) of `RootSim/Model/Alloc.lean`.  The LP-level part (gvt/fossil.c) is handled
elsewhere; this namespace can be extended.
-/
namespace RootSim.C13.Alloc
open RootSim.Alloc

/-- the rebasing `ref_i -= r` -/
def rebase (r : Nat) (l : Nat × Ckpt) : Nat × Ckpt := (l.1 - r, l.2)

/-! ## invariants of `logs` -/

/-- `ref_i` strictly increasing in every reachable state (the contract of `take` — the caller passes a
`ref_i` larger than all logged ones — is part of `step`) -/
theorem logs_sorted {c : Cfg} {s : MM} (hI : Inv c s) : (s.logs.map (·.1)).Pairwise (· < ·) :=
  hI.choose_spec.sorted

/-- the log is non-empty after the first take, and stays non-empty -/
theorem logs_nonempty_take (c : Cfg) (s : MM) (ref : Nat) : (ckptTake c s ref).logs ≠ [] := by
  simp [ckptTake]

theorem restore_logs {c : Cfg} {s s' : MM} {x r : Nat} (h : ckptRestore c s x = some (s', r)) :
    ∃ k rest, s'.logs ≠ [] ∧ s.logs = s'.logs ++ rest ∧ s'.logs.getLast? = some (r, k) ∧ r ≤ x ∧
      ∀ e ∈ rest, x < e.1 := by
  unfold ckptRestore at h
  simp only at h
  split at h
  · simp at h
  · rename_i r' k hl
    obtain ⟨rest, h1, h2, h3⟩ := keepUpTo_spec x s.logs
    simp only [Option.some.injEq, Prod.mk.injEq] at h
    obtain ⟨rfl, rfl⟩ := h
    refine ⟨k, rest, ?_, h1, hl, h3 _ hl, h2⟩
    intro hn
    have : keepUpTo x s.logs = [] := hn
    rw [this] at hl; simp at hl

theorem logs_nonempty_step {c : Cfg} (hc : c.ok) {s s' : MM} {op : Op} {r : Ret} (hI : Inv c s)
    (hne : s.logs ≠ []) (h : step c s op = some (s', r)) : s'.logs ≠ [] := by
  by_cases hu : op.isUser = true
  · rw [(step_user_frame hc hI.inv0 hu h).logs]; exact hne
  · cases op with
    | take ref =>
      simp only [step] at h
      split at h
      · simp at h; rw [← h.1]; exact logs_nonempty_take _ _ _
      · simp at h
    | restore x =>
      simp only [step, Option.map_eq_some_iff] at h
      obtain ⟨⟨s1, r1⟩, h1, h2⟩ := h
      simp at h2
      obtain ⟨_, _, q, _⟩ := restore_logs h1
      rw [← h2.1]; exact q
    | fossil x =>
      simp only [step, Option.map_eq_some_iff] at h
      obtain ⟨⟨s1, r1⟩, h1, h2⟩ := h
      simp at h2
      obtain ⟨snaps, hG⟩ := hI
      obtain ⟨_, _, _, _, _, _, _, _, _, _, _, _, _, q, _⟩ := fossil_spec hG h1
      rw [← h2.1, q]; simp
    | malloc _ _ => simp [Op.isUser] at hu
    | calloc _ _ _ => simp [Op.isUser] at hu
    | realloc _ _ _ => simp [Op.isUser] at hu
    | free _ => simp [Op.isUser] at hu
    | write _ _ _ => simp [Op.isUser] at hu

/-! ## what fossil collection keeps -/

/-- `model_allocator_fossil_lp_collect(tgt)` returns `r` = the largest logged `ref_i ≤ tgt` (so a
checkpoint with `ref ≤ tgt` is kept); the kept logs are exactly those with `ref_i ≥ r`, rebased by
`−r` (so `kept[0].ref_i = 0`); only earlier ones are dropped; nothing else changes. -/
theorem fossil_keeps {c : Cfg} {s s' : MM} {tgt r : Nat} (hI : Inv c s) (h : fossil s tgt = some (s', r)) :
    r ≤ tgt ∧ (∃ k, (r, k) ∈ s.logs) ∧ (∀ l ∈ s.logs, l.1 ≤ tgt → l.1 ≤ r) ∧
    s'.logs = (s.logs.filter fun l => decide (r ≤ l.1)).map (rebase r) ∧
    (∃ k rest, s'.logs = (0, k) :: rest ∧ (r, k) ∈ s.logs) ∧
    s'.arenas = s.arenas ∧ s'.full = s.full ∧ s'.nextId = s.nextId := by
  obtain ⟨snaps, hG⟩ := hI
  obtain ⟨ys, k, rest, S1, σ, S2, d1, _, _, d4, d5, d6, d7, d8, _⟩ := fossil_spec hG h
  simp only at d1
  refine ⟨d4, ⟨k, by rw [d1]; simp⟩, ?_, ?_, ⟨k, _, by rw [d8], by rw [d1]; simp⟩, by rw [d8], by rw [d8],
    by rw [d8]⟩
  · intro l hl hle
    rw [d1] at hl
    simp at hl
    rcases hl with hl | rfl | hl
    · exact Nat.le_of_lt (d6 l hl)
    · exact Nat.le_refl _
    · have := d5 l hl; omega
  · rw [d8, d1, List.filter_append]
    have e1 : ys.filter (fun l => decide (r ≤ l.1)) = [] := by
      rw [List.filter_eq_nil_iff]; intro a ha; have := d6 a ha; simp; omega
    have e2 : ((r, k) :: rest).filter (fun l => decide (r ≤ l.1)) = (r, k) :: rest := by
      rw [List.filter_eq_self]; intro a ha
      simp at ha
      rcases ha with rfl | ha
      · simp
      · have := d7 a ha; simp; omega
    rw [e1, e2]
    simp [rebase]

/-- `logs[0].ref_i = 0` after any fossil collection, and from then on forever -/
def FirstRefZero (s : MM) : Prop := ∃ k rest, s.logs = (0, k) :: rest

theorem firstRefZero_after_fossil {c : Cfg} {s s' : MM} {tgt r : Nat} (hI : Inv c s)
    (h : fossil s tgt = some (s', r)) : FirstRefZero s' := by
  obtain ⟨_, _, _, _, ⟨k, rest, q, _⟩, _⟩ := fossil_keeps hI h
  exact ⟨k, rest, q⟩

theorem firstRefZero_step {c : Cfg} (hc : c.ok) {s s' : MM} {op : Op} {r : Ret} (hI : Inv c s)
    (hz : FirstRefZero s) (h : step c s op = some (s', r)) : FirstRefZero s' := by
  obtain ⟨k0, rest0, hz⟩ := hz
  by_cases hu : op.isUser = true
  · rw [FirstRefZero, (step_user_frame hc hI.inv0 hu h).logs]; exact ⟨k0, rest0, hz⟩
  · cases op with
    | take ref =>
      simp only [step] at h
      split at h
      · simp at h; rw [← h.1]; exact ⟨k0, rest0 ++ [(ref, mkCkpt c s)], by simp [ckptTake, hz]⟩
      · simp at h
    | restore x =>
      simp only [step, Option.map_eq_some_iff] at h
      obtain ⟨⟨s1, r1⟩, h1, h2⟩ := h
      simp at h2
      obtain ⟨_, rest, q1, q2, _⟩ := restore_logs h1
      rw [← h2.1]
      cases hl : s1.logs with
      | nil => exact absurd hl q1
      | cons a t =>
        rw [hl, hz] at q2
        simp at q2
        exact ⟨k0, t, by rw [q2.1]; exact hl⟩
    | fossil x =>
      simp only [step, Option.map_eq_some_iff] at h
      obtain ⟨⟨s1, r1⟩, h1, h2⟩ := h
      simp at h2
      rw [← h2.1]; exact firstRefZero_after_fossil hI h1
    | malloc _ _ => simp [Op.isUser] at hu
    | calloc _ _ _ => simp [Op.isUser] at hu
    | realloc _ _ _ => simp [Op.isUser] at hu
    | free _ => simp [Op.isUser] at hu
    | write _ _ _ => simp [Op.isUser] at hu

/-! ## the unchecked backward scans -/

/-- **Precondition of the scans** of `model_allocator_checkpoint_restore(ref)` and
`model_allocator_fossil_lp_collect(ref)`: some logged `ref_i` is `≤ ref`.  Otherwise the C loops read
`logs[-1]`, `logs[-2]`, … (undefined behaviour; `none` in the model). -/
def ScanSafe (s : MM) (x : Nat) : Prop := ∃ l ∈ s.logs, l.1 ≤ x

theorem restore_defined_iff (c : Cfg) (s : MM) (x : Nat) : (ckptRestore c s x).isSome ↔ ScanSafe s x := by
  constructor
  · intro h
    rw [Option.isSome_iff_exists] at h
    obtain ⟨⟨s', r⟩, h⟩ := h
    obtain ⟨k, rest, q1, q2, q3, q4, _⟩ := restore_logs h
    exact ⟨(r, k), by rw [q2]; simp [List.mem_of_getLast? q3], q4⟩
  · rintro ⟨l, hl, hx⟩; exact ckptRestore_isSome hl hx

theorem fossil_defined_iff (s : MM) (x : Nat) : (fossil s x).isSome ↔ ScanSafe s x := by
  constructor
  · intro h
    cases hl : (keepUpTo x s.logs).getLast? with
    | none => simp [fossil, hl] at h
    | some v =>
      obtain ⟨rest, h1, h2, h3⟩ := keepUpTo_spec x s.logs
      exact ⟨v, by rw [h1]; simp [List.mem_of_getLast? hl], h3 _ hl⟩
  · rintro ⟨l, hl, hx⟩; exact fossil_isSome hl hx

/-- the callers' invariant: the first log's `ref_i` is at most `r0` -/
def Low (r0 : Nat) (s : MM) : Prop := ∀ l rest, s.logs = l :: rest → l.1 ≤ r0

theorem scanSafe_of_low {r0 : Nat} {s : MM} (hl : Low r0 s) (hne : s.logs ≠ []) {x : Nat} (hx : r0 ≤ x) :
    ScanSafe s x := by
  cases h : s.logs with
  | nil => exact absurd h hne
  | cons l rest => exact ⟨l, by rw [h]; simp, Nat.le_trans (hl l rest h) hx⟩

theorem low_step {c : Cfg} (hc : c.ok) {r0 : Nat} {s s' : MM} {op : Op} {r : Ret} (hI : Inv c s)
    (hl : Low r0 s) (hfirst : ∀ ref, op = .take ref → s.logs = [] → ref ≤ r0)
    (h : step c s op = some (s', r)) : Low r0 s' := by
  by_cases hu : op.isUser = true
  · rw [Low, (step_user_frame hc hI.inv0 hu h).logs]; exact hl
  · cases op with
    | take ref =>
      simp only [step] at h
      split at h
      · simp at h; rw [← h.1]
        intro l rest hlr
        simp only [ckptTake] at hlr
        cases hs : s.logs with
        | nil => rw [hs] at hlr; simp at hlr; rw [← hlr.1]; exact hfirst ref rfl hs
        | cons a t => rw [hs] at hlr; simp at hlr; rw [← hlr.1]; exact hl a t hs
      · simp at h
    | restore x =>
      simp only [step, Option.map_eq_some_iff] at h
      obtain ⟨⟨s1, r1⟩, h1, h2⟩ := h
      simp at h2
      obtain ⟨_, rest, q1, q2, _⟩ := restore_logs h1
      rw [← h2.1]
      intro l t hlt
      rw [hlt] at q2
      exact hl l (t ++ rest) (by rw [q2]; simp)
    | fossil x =>
      simp only [step, Option.map_eq_some_iff] at h
      obtain ⟨⟨s1, r1⟩, h1, h2⟩ := h
      simp at h2
      obtain ⟨k, rest, q⟩ := firstRefZero_after_fossil hI h1
      rw [← h2.1]
      intro l t hlt
      rw [q] at hlt; simp at hlt; rw [← hlt.1]; exact Nat.zero_le _
    | malloc _ _ => simp [Op.isUser] at hu
    | calloc _ _ _ => simp [Op.isUser] at hu
    | realloc _ _ _ => simp [Op.isUser] at hu
    | free _ => simp [Op.isUser] at hu
    | write _ _ _ => simp [Op.isUser] at hu

/-- The usage pattern "the first take has `ref ≤ r0`, nothing is restored or collected before it, and
every later restore / fossil target is `≥ r0`" (`taken` = a take has happened). -/
def usageOk (r0 : Nat) : Bool → List Op → Bool
  | _, [] => true
  | false, .take ref :: ops => decide (ref ≤ r0) && usageOk r0 true ops
  | false, .restore _ :: _ => false
  | false, .fossil _ :: _ => false
  | true, .restore x :: ops => decide (r0 ≤ x) && usageOk r0 true ops
  | true, .fossil x :: ops => decide (r0 ≤ x) && usageOk r0 true ops
  | t, _ :: ops => usageOk r0 t ops

/-- **the scans never run below index 0 under the usage pattern**: whenever a history following the
pattern reaches a restore / fossil call, `ScanSafe` holds for it. -/
theorem usage_pattern_scans_safe {c : Cfg} (hc : c.ok) {r0 : Nat} {pre post : List Op} {op : Op} {s : MM}
    (hu : usageOk r0 false (pre ++ op :: post) = true) (hrun : run c (MM.init c) pre = some s) :
    (∀ x, op = .restore x → ScanSafe s x) ∧ (∀ x, op = .fossil x → ScanSafe s x) := by
  have key : ∀ (pre : List Op) (t : Bool) (s0 : MM), Inv c s0 → (t = false → s0.logs = []) →
      (t = true → s0.logs ≠ [] ∧ Low r0 s0) → usageOk r0 t (pre ++ op :: post) = true →
      run c s0 pre = some s →
      (∀ x, op = .restore x → ScanSafe s x) ∧ (∀ x, op = .fossil x → ScanSafe s x) := by
    intro pre
    induction pre with
    | nil =>
      intro t s0 hI h1 h2 hu hr
      simp [run] at hr; subst hr
      simp only [List.nil_append] at hu
      constructor
      · intro x hx; subst hx
        cases t with
        | false => simp [usageOk] at hu
        | true => simp [usageOk] at hu; exact scanSafe_of_low (h2 rfl).2 (h2 rfl).1 hu.1
      · intro x hx; subst hx
        cases t with
        | false => simp [usageOk] at hu
        | true => simp [usageOk] at hu; exact scanSafe_of_low (h2 rfl).2 (h2 rfl).1 hu.1
    | cons o pre ih =>
      intro t s0 hI h1 h2 hu hr
      simp only [run] at hr
      split at hr
      · rename_i s1 r hs
        have hI1 := hI.step hc hs
        simp only [List.cons_append] at hu
        cases t with
        | false =>
          have hl0 := h1 rfl
          cases o with
          | take ref =>
            simp [usageOk] at hu
            refine ih true s1 hI1 (by simp) (fun _ => ⟨?_, ?_⟩) hu.2 hr
            · simp only [step] at hs
              split at hs
              · simp at hs; rw [← hs.1]; simp [ckptTake]
              · simp at hs
            · apply low_step hc hI (fun l rest h => by rw [hl0] at h; simp at h) ?_ hs
              intro ref' he _; simp at he; subst he; exact hu.1
          | restore x => simp [usageOk] at hu
          | fossil x => simp [usageOk] at hu
          | malloc a b =>
            simp [usageOk] at hu
            exact ih false s1 hI1 (fun _ => by rw [(step_user_frame hc hI.inv0 rfl hs).logs]; exact hl0)
              (by simp) hu hr
          | calloc a b d =>
            simp [usageOk] at hu
            exact ih false s1 hI1 (fun _ => by rw [(step_user_frame hc hI.inv0 rfl hs).logs]; exact hl0)
              (by simp) hu hr
          | realloc a b d =>
            simp [usageOk] at hu
            exact ih false s1 hI1 (fun _ => by rw [(step_user_frame hc hI.inv0 rfl hs).logs]; exact hl0)
              (by simp) hu hr
          | free a =>
            simp [usageOk] at hu
            exact ih false s1 hI1 (fun _ => by rw [(step_user_frame hc hI.inv0 rfl hs).logs]; exact hl0)
              (by simp) hu hr
          | write a b d =>
            simp [usageOk] at hu
            exact ih false s1 hI1 (fun _ => by rw [(step_user_frame hc hI.inv0 rfl hs).logs]; exact hl0)
              (by simp) hu hr
        | true =>
          obtain ⟨hne, hlow⟩ := h2 rfl
          have hne1 := logs_nonempty_step hc hI hne hs
          have hlow1 : Low r0 s1 := low_step hc hI hlow (fun ref _ h => absurd h hne) hs
          have hu' : usageOk r0 true (pre ++ op :: post) = true := by
            cases o <;> simp [usageOk] at hu <;> first | exact hu | exact hu.2
          exact ih true s1 hI1 (by simp) (fun _ => ⟨hne1, hlow1⟩) hu' hr
      · simp at hr
  exact key pre false (MM.init c) (Inv.init c) (fun _ => rfl) (by simp) hu hrun

/-! ## restores after fossil collection -/

/-- **Restore commutes with fossil collection**: if fossil collection returned `r`, then for every
target `x ≥ r`, `restore (x − r)` afterwards finds a log (never runs off the beginning), chooses the
same checkpoint as `restore x` would have before the collection, returns its rebased `ref_i`, and
produces the same allocator state; the logs differ exactly by the dropped prefix and the rebasing. -/
theorem restore_after_fossil {c : Cfg} {s sf : MM} {tgt r : Nat} (hI : Inv c s)
    (hf : fossil s tgt = some (sf, r)) {x : Nat} (hx : r ≤ x) :
    ∃ s1 q s2, ckptRestore c s x = some (s1, q) ∧ r ≤ q ∧ ckptRestore c sf (x - r) = some (s2, q - r) ∧
      s2.arenas = s1.arenas ∧ s2.full = s1.full ∧ s2.nextId = s1.nextId ∧
      s2.logs = (s1.logs.filter fun l => decide (r ≤ l.1)).map (rebase r) := by
  obtain ⟨snaps, hG⟩ := hI
  obtain ⟨ys, k, rest, S1, σ, S2, d1, _, _, d4, d5, d6, d7, d8, _⟩ := fossil_spec hG hf
  simp only at d1
  have hK : keepUpTo x ((r, k) :: rest) ≠ [] := keepUpTo_ne_nil (e := (r, k)) (by simp) hx
  have hall : ∀ e ∈ (r, k) :: rest, r ≤ e.1 := by
    intro e he; simp at he
    rcases he with rfl | he
    · exact Nat.le_refl _
    · exact Nat.le_of_lt (d7 e he)
  have e1 : keepUpTo x s.logs = ys ++ keepUpTo x ((r, k) :: rest) := by
    rw [d1]; exact keepUpTo_append x ys _ hK
  have hsf : sf.logs = ((r, k) :: rest).map (rebase r) := by rw [d8]; simp [rebase]
  have e2 : keepUpTo (x - r) sf.logs = (keepUpTo x ((r, k) :: rest)).map (rebase r) := by
    rw [hsf]; exact keepUpTo_rebase x r ((r, k) :: rest) hall hx
  have hsub : ∀ e ∈ keepUpTo x ((r, k) :: rest), r ≤ e.1 := fun e he => hall e (keepUpTo_sub x _ e he)
  generalize keepUpTo x ((r, k) :: rest) = K at *
  obtain ⟨⟨q, kq⟩, hq⟩ : ∃ v, K.getLast? = some v := by
    cases h : K.getLast? with
    | none => rw [List.getLast?_eq_none_iff] at h; exact absurd h hK
    | some v => exact ⟨v, rfl⟩
  have hq1 : (ys ++ K).getLast? = some (q, kq) := by rw [List.getLast?_append, hq]; rfl
  have hq2 : (K.map (rebase r)).getLast? = some (q - r, kq) := by rw [List.getLast?_map, hq]; rfl
  have hsa : sf.arenas = s.arenas := by rw [d8]
  cases hra : restoreArenas c.T s.arenas.reverse kq.recs with
  | mk as n =>
    refine ⟨{ s with arenas := as.reverse, full := kq.size + n * c.perArena, logs := ys ++ K }, q,
      { sf with arenas := as.reverse, full := kq.size + n * c.perArena, logs := K.map (rebase r) },
      ?_, hsub _ (List.mem_of_getLast? hq), ?_, rfl, rfl, by rw [d8], ?_⟩
    · simp only [ckptRestore, e1, hq1, hra]
    · simp only [ckptRestore, e2, hq2, hsa, hra]
    · simp only
      rw [List.filter_append]
      have f1 : ys.filter (fun l => decide (r ≤ l.1)) = [] := by
        rw [List.filter_eq_nil_iff]; intro a ha; have := d6 a ha; simp; omega
      have f2 : K.filter (fun l => decide (r ≤ l.1)) = K := by
        rw [List.filter_eq_self]; intro a ha; simpa using hsub a ha
      rw [f1, f2]; rfl

/-- after a fossil collection every restore target finds a log -/
theorem restore_defined_after_fossil {c : Cfg} {s sf : MM} {tgt r : Nat} (hI : Inv c s)
    (hf : fossil s tgt = some (sf, r)) (y : Nat) : (ckptRestore c sf y).isSome := by
  obtain ⟨k, rest, q⟩ := firstRefZero_after_fossil hI hf
  exact ckptRestore_isSome (e := (0, k)) (by rw [q]; simp) (Nat.zero_le _)

/-- … and yields the exact state of the chosen checkpoint (C05 `restore_exact` holds in the
instrumented state after the collection: the snapshots are dropped together with their logs) -/
theorem restore_exact_after_fossil {c : Cfg} (hc : c.ok) {g gf : GS} (hG : GInv c g) {tgt : Nat} {rr : Ret}
    (hf : gstep c g (.fossil tgt) = some (gf, rr)) : GInv c gf ∧
    gf.snaps = g.snaps.drop (g.snaps.length - gf.s.logs.length) ∧ gf.snaps.length = gf.s.logs.length := by
  have hGf := hG.step hc hf
  refine ⟨hGf, ?_, ?_⟩
  · unfold gstep at hf
    split at hf
    · simp at hf
    · simp only [Option.some.injEq, Prod.mk.injEq] at hf
      rw [← hf.1]
  · have := congrArg List.length hGf.cks; simpa using this.symm

/-! ## non-vacuity -/

def cTiny : Cfg := ⟨3, 1, 5, 16, fun i o => i + o, false⟩
theorem cTiny_ok : cTiny.ok := ⟨by decide, by decide⟩

def hist : List Op :=
  [.take 0, .malloc 3 0, .take 2, .malloc 2 0, .take 5, .free (some ⟨0, 0⟩), .take 6]

example : ((run cTiny (MM.init cTiny) hist).bind fun s => (fossil s 5).map fun r =>
    (r.2, r.1.logs.map (·.1))) = some (5, [0, 1]) := by decide

example : ((run cTiny (MM.init cTiny) hist).bind fun s => (fossil s 4).map fun r =>
    (r.2, r.1.logs.map (·.1))) = some (2, [0, 3, 4]) := by decide

example : usageOk 0 false (hist ++ [.fossil 4, .restore 1, .take 2, .fossil 0]) = true := by decide

example : (run cTiny (MM.init cTiny) (hist ++ [.fossil 4, .restore 1, .take 2, .fossil 0])).isSome = true := by
  decide

end RootSim.C13.Alloc
