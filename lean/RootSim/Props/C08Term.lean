import RootSim.Model.Termination
/-!
# C08, detection half: the termination protocol of `gvt/termination.c` is live

`Props/C08.lean` covers what happens AFTER termination has been decided (worker loop, drain, barriers). This file covers the step
before: a thread that has not voted yet can always vote once all its LPs are counted as done, because its `max_t` is a finite
time stamp of an event it processed — `max_t == SIMTIME_MAX` is reserved for "already voted". (A change that stores a larger value
into `max_t`, e.g. the `SIMTIME_MAX` of an LP whose predicate held at `LP_INIT`, silences the thread for ever: seeded change
`C08-maxt-poisoned-by-init-true-lp`.)

All statements: both code variants (`fix`), every number of threads / LPs, every operation sequence.
-/
namespace RootSim.C08Term
open RootSim.Term

/-- every processed event has a finite time stamp (contract V3): its key is below the key of `SIMTIME_MAX` -/
def ProcBounded : List Op → Prop
  | [] => True
  | .proc _ _ t _ :: os => t < SIMTIME_MAX ∧ ProcBounded os
  | _ :: os => ProcBounded os

/-- ghost: which threads have voted so far -/
def stepG (fix : Bool) (nNodes : Nat) (nv : Node × List Bool) (o : Op) : Option (Node × List Bool) :=
  match step fix nNodes nv.1 o with
  | none => none
  | some (n', voted) =>
    match o with
    | .gvt ti _ => some (n', if voted then nv.2.set ti true else nv.2)
    | _ => some (n', nv.2)

def runG (fix : Bool) (nNodes : Nat) : Node × List Bool → List Op → Option (Node × List Bool)
  | nv, [] => some nv
  | nv, o :: os => match stepG fix nNodes nv o with
    | none => none
    | some nv' => runG fix nNodes nv' os

/-- the ghost run projects onto the real one -/
theorem runG_fst (fix : Bool) (nNodes : Nat) (nv nv' : Node × List Bool) (ops : List Op)
    (h : runG fix nNodes nv ops = some nv') : run fix nNodes nv.1 ops = some nv'.1 := by
  induction ops generalizing nv with
  | nil => simp [runG] at h; simp [run, h]
  | cons o os ih =>
    simp only [runG] at h
    cases hs : stepG fix nNodes nv o with
    | none => simp [hs] at h
    | some nv1 =>
      rw [hs] at h
      have h1 := ih nv1 h
      unfold stepG at hs
      cases hst : step fix nNodes nv.1 o with
      | none => simp [hst] at hs
      | some r =>
        obtain ⟨n', vt⟩ := r
        have : nv1.1 = n' := by
          rw [hst] at hs
          cases o <;> simp at hs <;> (try (rw [← hs])) <;> simp_all
        simp [run, hst, ← this, h1]

/-- `max_t == SIMTIME_MAX` exactly for the threads that have voted; otherwise it is a finite time stamp -/
def Good (nv : Node × List Bool) : Prop :=
  nv.2.length = nv.1.thrs.length ∧
  ∀ (ti : Nat) (th : Thread), nv.1.thrs[ti]? = some th →
    th.maxT ≤ SIMTIME_MAX ∧ (th.maxT = SIMTIME_MAX ↔ nv.2[ti]? = some true)

theorem good_init (nThreads nNodes ttime : Nat) :
    Good (Node.init nThreads nNodes ttime, List.replicate nThreads false) := by
  refine ⟨by simp [Node.init], ?_⟩
  intro ti th h
  simp only [Node.init, List.getElem?_replicate] at h
  split at h
  · cases h
    simp [Thread.init, SIMTIME_MAX, List.getElem?_replicate, *]
  · cases h

private theorem good_upd {n : Node} {v : List Bool} (hg : Good (n, v)) {ti : Nat} {f : Thread → Option Thread} {n' : Node}
    (hu : updThread n ti f = some n')
    (hf : ∀ th th', f th = some th' → th.maxT ≤ SIMTIME_MAX →
      th'.maxT ≤ SIMTIME_MAX ∧ (th'.maxT = SIMTIME_MAX ↔ th.maxT = SIMTIME_MAX)) : Good (n', v) := by
  unfold updThread at hu
  cases hth : n.thrs[ti]? with
  | none => simp [hth] at hu
  | some th =>
    rw [hth] at hu
    cases hft : f th with
    | none => simp [hft] at hu
    | some th' =>
      simp only [hft, Option.some.injEq] at hu
      subst hu
      refine ⟨by simpa using hg.1, ?_⟩
      intro tj tx hx
      simp only [List.getElem?_set] at hx
      split at hx
      · rename_i heq
        split at hx
        · cases hx
          subst heq
          have := hg.2 ti th hth
          have h2 := hf th th' hft this.1
          exact ⟨h2.1, h2.2.trans this.2⟩
        · cases hx
      · exact hg.2 tj tx hx

theorem good_step (fix : Bool) (nNodes : Nat) (nv nv' : Node × List Bool) (o : Op) (hg : Good nv)
    (hb : ProcBounded [o]) (hs : stepG fix nNodes nv o = some nv') : Good nv' := by
  obtain ⟨n, v⟩ := nv
  unfold stepG at hs
  cases hst : step fix nNodes n o with
  | none => simp [hst] at hs
  | some r =>
    obtain ⟨n1, vt⟩ := r
    simp only [hst] at hs
    cases o with
    | lpInit ti term =>
      simp only [Option.some.injEq] at hs; subst hs
      simp only [step, Option.map_eq_some_iff] at hst
      obtain ⟨n2, hu, he⟩ := hst
      cases he
      exact good_upd hg hu (fun th th' h _ => by simp [lpInit] at h; subst h; simp_all)
    | proc ti i t term =>
      simp only [Option.some.injEq] at hs; subst hs
      simp only [step, Option.map_eq_some_iff] at hst
      obtain ⟨n2, hu, he⟩ := hst
      cases he
      have ht : t < SIMTIME_MAX := hb.1
      refine good_upd hg hu (fun th th' h hle => ?_)
      unfold onMsgProcess at h
      cases hti : th.termT[i]? with
      | none => simp [hti] at h
      | some old =>
        simp only [hti] at h
        split at h
        · cases h; simp [hle]
        · cases h
          by_cases hterm : term = true
          · simp only [hterm, if_true]
            constructor
            · omega
            · constructor
              · intro h; omega
              · intro h; omega
          · simp [hterm, hle]
    | rb ti i s k =>
      simp only [Option.some.injEq] at hs; subst hs
      simp only [step, Option.map_eq_some_iff] at hst
      obtain ⟨n2, hu, he⟩ := hst
      cases he
      refine good_upd hg hu (fun th th' h hle => ?_)
      unfold onRollback at h
      cases hti : th.termT[i]? with
      | none => simp [hti] at h
      | some old => simp only [hti, Option.some.injEq] at h; subst h; simp [hle]
    | stop =>
      simp only [Option.some.injEq] at hs; subst hs
      simp only [step, Option.some.injEq, Prod.mk.injEq] at hst
      obtain ⟨rfl, _⟩ := hst
      exact ⟨hg.1, fun ti th h => hg.2 ti th h⟩
    | ctrl =>
      simp only [Option.some.injEq] at hs; subst hs
      simp only [step, Option.some.injEq, Prod.mk.injEq] at hst
      obtain ⟨rfl, _⟩ := hst
      exact ⟨hg.1, fun ti th h => hg.2 ti th h⟩
    | gvt ti g =>
      simp only [Option.some.injEq] at hs; subst hs
      simp only [step, onGvt] at hst
      cases hth : n.thrs[ti]? with
      | none => simp [hth] at hst
      | some th =>
        simp only [hth] at hst
        split at hst
        · simp only [Option.some.injEq, Prod.mk.injEq] at hst
          obtain ⟨rfl, rfl⟩ := hst
          simpa using hg
        · simp only [Option.some.injEq, Prod.mk.injEq] at hst
          obtain ⟨hn, rfl⟩ := hst
          have hlen : ti < n.thrs.length := by
            rcases List.getElem?_eq_some_iff.mp hth with ⟨h, _⟩; exact h
          have hthrs : n1.thrs = n.thrs.set ti { th with maxT := SIMTIME_MAX } := by
            rw [← hn]; split <;> simp [onCtrlMsg]
          refine ⟨by simp [hthrs, hg.1], ?_⟩
          intro tj tx hx
          rw [hthrs] at hx
          simp only [List.getElem?_set] at hx
          simp only [if_true, List.getElem?_set]
          split at hx
          · rename_i heq
            subst heq
            simp only [hlen, if_true, Option.some.injEq] at hx
            subst hx
            have : ti < v.length := by rw [hg.1]; exact hlen
            simp [this]
          · rename_i hne
            have := hg.2 tj tx hx
            simp only [hne, if_false]
            exact this

theorem procBounded_cons {o : Op} {os : List Op} (h : ProcBounded (o :: os)) : ProcBounded [o] ∧ ProcBounded os := by
  cases o <;> simp_all [ProcBounded]

theorem good_run (fix : Bool) (nNodes : Nat) (nv nv' : Node × List Bool) (ops : List Op) (hg : Good nv)
    (hb : ProcBounded ops) (hr : runG fix nNodes nv ops = some nv') : Good nv' := by
  induction ops generalizing nv with
  | nil => simp [runG] at hr; subst hr; exact hg
  | cons o os ih =>
    simp only [runG] at hr
    cases hs : stepG fix nNodes nv o with
    | none => simp [hs] at hr
    | some nv1 =>
      rw [hs] at hr
      have hb' := procBounded_cons hb
      exact ih nv1 (good_step fix nNodes nv nv1 o hg hb'.1 hs) hb'.2 hr

/-- **Detection is live.** In every state reachable from `termination_global_init()` by any sequence of module operations with
finite event time stamps: a thread that has not voted has a finite `max_t`, so as soon as all its LPs are counted as done
(`lps_to_end == 0`) EVERY GVT value above `max_t` makes it vote — and such values exist below `SIMTIME_MAX`. -/
theorem detection_live (fix : Bool) (nThreads nNodes ttime : Nat) (ops : List Op) (hb : ProcBounded ops)
    (n : Node) (v : List Bool)
    (hr : runG fix nNodes (Node.init nThreads nNodes ttime, List.replicate nThreads false) ops = some (n, v))
    (ti : Nat) (th : Thread) (hth : n.thrs[ti]? = some th) (hnv : v[ti]? ≠ some true) (hdone : th.lpsToEnd = 0) :
    th.maxT < SIMTIME_MAX ∧
    ∀ g, th.maxT < g → ∃ n', onGvt n ti g = some (n', true) := by
  have hg := good_run fix nNodes _ _ ops (good_init nThreads nNodes ttime) hb hr
  have h := hg.2 ti th hth
  have hlt : th.maxT < SIMTIME_MAX := by
    rcases Nat.lt_or_ge th.maxT SIMTIME_MAX with h1 | h1
    · exact h1
    · exact absurd (h.2.mp (Nat.le_antisymm h.1 h1)) hnv
  refine ⟨hlt, fun g hgt => ?_⟩
  have hno : noVote th g n.ttime = false := by
    simp [noVote, hdone]; intro h1; omega
  simp [onGvt, hth, hno]

/-- conversely, `max_t == SIMTIME_MAX` only for threads that have voted -/
theorem maxT_max_iff_voted (fix : Bool) (nThreads nNodes ttime : Nat) (ops : List Op) (hb : ProcBounded ops)
    (n : Node) (v : List Bool)
    (hr : runG fix nNodes (Node.init nThreads nNodes ttime, List.replicate nThreads false) ops = some (n, v))
    (ti : Nat) (th : Thread) (hth : n.thrs[ti]? = some th) :
    th.maxT = SIMTIME_MAX ↔ v[ti]? = some true :=
  ((good_run fix nNodes _ _ ops (good_init nThreads nNodes ttime) hb hr).2 ti th hth).2

/-! non-vacuity: one thread, two LPs (one done at init), an event, a rollback of the init-true LP, then the vote -/
example : (runG true 1 (Node.init 1 1 SIMTIME_MAX, [false])
      [.lpInit 0 true, .lpInit 0 false, .proc 0 1 40 true, .rb 0 0 30 1, .gvt 0 41]).map (fun nv => (nv.2, cantEnd nv.1)) =
    some ([true], false) := by decide

end RootSim.C08Term
