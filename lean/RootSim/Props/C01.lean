import RootSim.Props.C05LP
/-!
# C01 / C03 — part (A): LP-local refinement

(The composition of C01 is described in DESIGN.md §3 C01: (A) LP-local refinement — this file and
`Props/C05LP.lean`; (B) the per-message automaton — `Props/C06.lean`; (C) the GVT cut —
`Props/C04.lean`; (D) the prefix-uniqueness theorem — `Props/PrefixUnique.lean`; (E) the glue is
covered by trace re-execution of real runs, not by a theorem.)
-/
namespace RootSim.C01
open RootSim RootSim.LP

variable {σ : Type}

/-- the history layout `[sent* past]*`: a forward step appends the ordinals of the handler's
outputs as `sent` entries followed by the message's own `past` entry, and reports exactly the
handler's outputs -/
theorem forward_records_outputs (h : σ → Event → σ × List Event) (lp : LPState σ) (m : Nat) (e : Event)
    (outs : List Nat) :
    (forward h lp m e outs).2 = (h lp.st e).2 ∧
    (forward h lp m e outs).1.hist = lp.hist ++ outs.map Entry.sent ++ [.past m] ∧
    (forward h lp m e outs).1.st = (h lp.st e).1 := by
  simp [forward]

/-- **straggler matching** (`match_straggler_msg`): the returned index `k` is at most
`length − 1` (the last entry is always undone), the entry just before it (if any) is a processed
message that the straggler is NOT before, and every processed message from `k` up to (excluding)
the last entry is one the straggler IS before — so exactly the events that must be re-executed
after the straggler are undone, whatever the history. -/
theorem matchStraggler_spec (look : Nat → Msg) (hist : List Entry) (s : Msg) :
    let k := matchStraggler look hist s
    k ≤ hist.length - 1 ∧
    (0 < k → ∃ e, hist[k - 1]? = some e ∧ e.isPast = true ∧ isBefore s (look e.msg) = false) ∧
    (∀ j e, k ≤ j → j < hist.length - 1 → hist[j]? = some e → e.isPast = true →
      isBefore s (look e.msg) = true) := by
  intro k
  have hk : k = scanBack (fun e => e.isPast && !(isBefore s (look e.msg))) hist.dropLast.reverse := rfl
  have hlen : hist.dropLast.length = hist.length - 1 := by simp
  have hget : ∀ j, j < hist.length - 1 → hist[j]? = hist.dropLast[j]? := by
    intro j hj
    rw [List.getElem?_dropLast]; simp [hj]
  rcases scanBack_rev_spec (fun e => e.isPast && !(isBefore s (look e.msg))) hist.dropLast with
    ⟨h0, hall⟩ | ⟨A, x, B, hl, hB, hx, hk'⟩
  · rw [← hk] at h0
    refine ⟨by omega, by omega, ?_⟩
    intro j e _ hj he hp
    rw [hget j hj] at he
    have := hall e (List.mem_of_getElem? he)
    simp [hp] at this; exact this
  · rw [← hk] at hk'
    have hAl : A.length + 1 + B.length = hist.length - 1 := by
      rw [← hlen, hl]; simp; omega
    refine ⟨by omega, ?_, ?_⟩
    · intro _
      refine ⟨x, ?_, ?_, ?_⟩
      · rw [hk', Nat.add_sub_cancel, hget _ (by omega), hl]; simp
      · simp at hx; exact hx.1
      · simp at hx; exact hx.2
    · intro j e hkj hj he hp
      rw [hget j hj, hl] at he
      have hjA : A.length < j := by omega
      have : (A ++ x :: B)[j]? = B[j - A.length - 1]? := by
        rw [List.getElem?_append_right (by omega)]
        obtain ⟨d, hd⟩ : ∃ d, j - A.length = d + 1 := ⟨j - A.length - 1, by omega⟩
        rw [hd, List.getElem?_cons_succ]; congr 1
      rw [this] at he
      have := hB e (List.mem_of_getElem? he)
      simp [hp] at this; exact this

/-- **anti-message matching** (`match_anti_msg`): when the cancelled message `m` is in the history, the returned index `k` is
the start of `m`'s own group `[sent* past m]`: the entries from `k` up to the (last) past entry of `m` are all `sent` markers,
and the entry before `k` (if any) is a processed message - so the rollback undoes `m`, everything after it, and the sends of
`m` itself, and nothing before. -/
theorem matchAnti_spec (hist : List Entry) (m k : Nat) (h : matchAnti hist m = some k) :
    ∃ i, hist[i]? = some (.past m) ∧ k ≤ i ∧
      (∀ j e, i < j → hist[j]? = some e → e ≠ .past m) ∧
      (∀ j e, k ≤ j → j < i → hist[j]? = some e → e.isPast = false) ∧
      (0 < k → ∃ e, hist[k - 1]? = some e ∧ e.isPast = true) := by
  unfold matchAnti findPast at h
  simp only at h
  rcases scanBack_rev_spec (fun e => e == Entry.past m) hist with ⟨h0, _⟩ | ⟨A, x, B, hl, hB, hx, hk⟩
  · simp [h0] at h
  · simp only [hk, Nat.add_one_ne_zero, if_false, Nat.add_sub_cancel] at h
    have hxm : x = .past m := by simpa using hx
    subst hxm
    have htake : hist.take A.length = A := by rw [hl]; simp
    rw [htake] at h
    simp only [Option.some.injEq] at h
    refine ⟨A.length, by rw [hl]; simp, ?_, ?_, ?_, ?_⟩
    · -- k ≤ i
      rcases scanBack_rev_spec Entry.isPast A with ⟨h0, _⟩ | ⟨A', y, B', hA, _, _, hk'⟩
      · omega
      · rw [hk'] at h; rw [hA]; simp; omega
    · intro j e hj he hne
      subst hne
      rw [hl] at he
      have : (A ++ Entry.past m :: B)[j]? = B[j - A.length - 1]? := by
        rw [List.getElem?_append_right (by omega)]
        obtain ⟨d, hd⟩ : ∃ d, j - A.length = d + 1 := ⟨j - A.length - 1, by omega⟩
        rw [hd, List.getElem?_cons_succ]; congr 1
      rw [this] at he
      have := hB _ (List.mem_of_getElem? he)
      simp at this
    · intro j e hkj hji he
      rw [hl, List.getElem?_append_left hji] at he
      rcases scanBack_rev_spec Entry.isPast A with ⟨_, hall⟩ | ⟨A', y, B', hA, hB', _, hk'⟩
      · exact hall e (List.mem_of_getElem? he)
      · rw [hk'] at h
        rw [hA] at he
        have hjA : A'.length < j := by omega
        have : (A' ++ y :: B')[j]? = B'[j - A'.length - 1]? := by
          rw [List.getElem?_append_right (by omega)]
          obtain ⟨d, hd⟩ : ∃ d, j - A'.length = d + 1 := ⟨j - A'.length - 1, by omega⟩
          rw [hd, List.getElem?_cons_succ]; congr 1
        rw [this] at he
        exact hB' e (List.mem_of_getElem? he)
    · intro hk0
      rcases scanBack_rev_spec Entry.isPast A with ⟨h0, _⟩ | ⟨A', y, B', hA, _, hy, hk'⟩
      · omega
      · rw [hk'] at h
        refine ⟨y, ?_, hy⟩
        rw [← h, Nat.add_sub_cancel, hl, hA]
        simp

/-- re-export: the state of an LP is always the deterministic execution of its not-undone events -/
theorem lp_state_is_fold {h : σ → Event → σ × List Event} {ev : Nat → Event} {init : σ}
    (ops : List C05LP.Op) (lp lp' : LPState σ) (hE : C05LP.Exact h ev init lp)
    (hr : C05LP.run h ev lp ops = some lp') :
    ∃ base, lp'.st = replay h ev init (base ++ pastMsgs lp'.hist) := by
  obtain ⟨base, hI⟩ := C05LP.run_exact ops lp lp' hE hr
  exact ⟨base, hI.st_ok⟩

/-! non-vacuity -/
example : matchStraggler (fun m => { destT := 10 * m, rawFlags := 0, mType := 1, plSize := 0, pl := [] })
    [.past 0, .sent 7, .past 2, .sent 8, .past 4, .past 6]
    { destT := 30, rawFlags := 0, mType := 1, plSize := 0, pl := [] } = 3 := by decide

end RootSim.C01
