import RootSim.Proofs.GenModelContract
import RootSim.Proofs.ClampTransfer
import RootSim.Props.C01Glue
import RootSim.Props.C01GlueD
/-!
# The GenModel family satisfies the model contracts the end-to-end theorems assume

`GenModel.simModel P rng0` is the Lean twin of `harness/genmodel.h`, the model every full-run correspondence
executes on the real runtime. The end-to-end theorems (`Props/C01Glue.lean` under `Spec.V2s`,
`Props/C01GlueV2.lean`, `Props/C01GlueD.lean` under `Spec.V2`) quantify over every model satisfying those
contracts. This file closes the gap for the family:

* The contracts AS STATED (`Spec.V2s`, `Spec.V2`: every LP index, every state, EVERY event) are FALSE for the
  family (`genmodel_not_V2`, `genmodel_not_V2s`, with three independent kernel-checked reasons: an LP index
  `≥ nLps`; an `LP_INIT` event with a positive time stamp; an event type above `LP_FINI`) — invocations the
  runtime never performs.
* The relativised contracts (`Spec.V2sOn`, `Spec.V2On`: every EXISTING LP, every state — reachable or not —,
  every model event and the LP's own `LP_INIT` event) hold: `genmodel_V2s` (strict mode, `fwdTok = false`),
  `genmodel_V2` / `genmodel_fwd_V2` (both modes); `genmodel_fwd_not_V2s`: the V2-only mode violates the strict
  contract on an admissible invocation in a reachable LP state.
* The relativised contracts are all the end-to-end theorems need (`Proofs/ClampTransfer.lean`: the machines
  only perform admissible invocations, so the runs of `M` are runs of `Spec.clamp M`, which satisfies the global
  contract): `v2sOn_tw_equals_sequential` … for every model, and the instances for the family
  `genmodel_tw_equals_sequential`, `genmodel_tw_quiescent_final`, `genmodel_tw_schedule_independent`,
  `genmodel_fwd_tw_equals_sequential_D`, `genmodel_fwd_tw_quiescent_final_D`,
  `genmodel_fwd_tw_schedule_independent_D`.
-/
namespace RootSim.GenModelContract
open RootSim RootSim.Spec RootSim.GenModel

/-- the statement asked for, literally (`Spec.V2s` quantifies over every LP index and every event): FALSE,
see `genmodel_V2s_Statement_false` -/
def genmodel_V2s_Statement : Prop :=
  ∀ (P : Params) (rng0 : Nat → Rng), 0 < P.nLps → 0 < P.nTypes → P.nTypes < LP_INIT → P.fwdTok = false →
    Spec.V2s (simModel P rng0)

/-- **1. Strict mode.** For every parameter set with at least one LP, at least one type, at most `LP_INIT`
types and `fwdTok = false` (nothing is needed on `maxFan`, the thresholds, `skew`, `useRng`, `memOps`,
`t0Events`), every generator seeding: every existing LP, in EVERY state, processing any model event (any type
below `LP_INIT`, also types the model never sends) or its `LP_INIT` event, schedules only events strictly after
their cause, for existing LPs, with model types. -/
theorem genmodel_V2s (P : Params) (rng0 : Nat → Rng) (hL : 0 < P.nLps) (hT : 0 < P.nTypes)
    (hT' : P.nTypes ≤ LP_INIT) (hF : P.fwdTok = false) : Spec.V2sOn (simModel P rng0) :=
  genmodel_V2sOn P rng0 hL hT hT' hF

/-- **2. Both modes** (in particular the V2-only mode `fwdTok = true`): the runtime's contract. -/
theorem genmodel_V2 (P : Params) (rng0 : Nat → Rng) (hL : 0 < P.nLps) (hT : 0 < P.nTypes)
    (hT' : P.nTypes ≤ LP_INIT) : Spec.V2On (simModel P rng0) :=
  genmodel_V2On P rng0 hL hT hT'

theorem genmodel_fwd_V2 (P : Params) (rng0 : Nat → Rng) (hL : 0 < P.nLps) (hT : 0 < P.nTypes)
    (hT' : P.nTypes ≤ LP_INIT) (_hF : P.fwdTok = true) : Spec.V2On (simModel P rng0) :=
  genmodel_V2On P rng0 hL hT hT'

/-- the same two facts as global contracts of the clamped model -/
theorem genmodel_clamp_V2s (P : Params) (rng0 : Nat → Rng) (hL : 0 < P.nLps) (hT : 0 < P.nTypes)
    (hT' : P.nTypes ≤ LP_INIT) (hF : P.fwdTok = false) : Spec.V2s (clamp (simModel P rng0)) :=
  GenModel.genmodel_clamp_V2s P rng0 hL hT hT' hF

theorem genmodel_clamp_V2 (P : Params) (rng0 : Nat → Rng) (hL : 0 < P.nLps) (hT : 0 < P.nTypes)
    (hT' : P.nTypes ≤ LP_INIT) : Spec.V2 (clamp (simModel P rng0)) :=
  GenModel.genmodel_clamp_V2 P rng0 hL hT hT'

/-- **The V2-only mode leaves the strict contract** (4 LPs, 3 types, fan 3, thr 40, spread 20, `fwdTok`): LP 0,
in its state after `LP_INIT`, processing a type-1 event, forwards it unchanged — not after its cause. -/
theorem genmodel_fwd_not_V2s : ¬ Spec.V2sOn (simModel P0fwd rngZ) ∧ ¬ Spec.V2s (simModel P0fwd rngZ) :=
  ⟨genmodel_fwd_not_V2sOn, GenModel.genmodel_fwd_not_V2s⟩

/-- **The unrelativised contracts are false for the family** (already for the typical strict configuration) -/
theorem genmodel_not_V2 : ¬ Spec.V2 (simModel P0 rngZ) := GenModel.genmodel_not_V2

theorem genmodel_not_V2s : ¬ Spec.V2s (simModel P0 rngZ) := GenModel.genmodel_not_V2s

theorem genmodel_V2s_Statement_false : ¬ genmodel_V2s_Statement :=
  fun h => genmodel_not_V2s (h P0 rngZ (by decide) (by decide) (by decide) rfl)

/-- the three independent reasons, each an invocation the runtime never performs -/
theorem genmodel_unrelativised_counterexamples :
    ¬ (simModel P0 rngZ).validStep 7 ((simModel P0 rngZ).init 7) (initEv 7) ∧
    ¬ (simModel P0 rngZ).validStep 0 ((simModel P0 rngZ).init 0)
        { dest := 0, t := 100, type := LP_INIT, payload := [] } ∧
    ¬ (simModel P0 rngZ).validStep 0 (s0 P0) { dest := 0, t := 5, type := 65823, payload := [] } :=
  ⟨genmodel_not_validStep_lp, genmodel_not_validStep_initTime, genmodel_not_validStep_type⟩

/-! ### The relativised contracts are what the end-to-end theorems need (every model) -/

section general
variable {σ : Type} {M : SimModel σ} {g : Nat}

/-- `V2sOn M ↔ V2s (clamp M)`, `V2On M ↔ V2 (clamp M)`; a global contract implies the relativised one -/
theorem relativised_iff_clamp : (Spec.V2sOn M ↔ Spec.V2s (clamp M)) ∧ (Spec.V2On M ↔ Spec.V2 (clamp M)) ∧
    (Spec.V2s M → Spec.V2sOn M) ∧ (Spec.V2 M → Spec.V2On M) ∧ (Spec.V2sOn M → Spec.V2On M) :=
  ⟨V2sOn_iff_clamp M, V2On_iff_clamp M, V2s.on, V2.on, V2sOn.toV2On⟩

/-- the machines only perform admissible invocations: every run of `M` is a run of `clamp M` -/
theorem runs_are_clamped_runs (V : Spec.V2On M) :
    (∀ q, Spec.Reachable M q → Spec.Reachable (clamp M) q) ∧
    (∀ s, TW.Reachable M s → TW.Reachable (clamp M) s) ∧
    (∀ s, TWD.Reachable M s → TWD.Reachable (clamp M) s) :=
  ⟨fun _ h => Spec.reachable_clamp V h, fun _ h => TW.reachable_clamp V h, fun _ h => TWD.reachable_clamp V h⟩

/-- `C01Glue.tw_equals_sequential` under the relativised strict contract -/
theorem v2sOn_tw_equals_sequential (V : Spec.V2sOn M) {s : TWState} (hr : TW.Reachable M s)
    (hp : ∀ x ∈ s.pending, g ≤ x.t) (ha : ∀ x ∈ s.antis, g ≤ x.t)
    {q : SeqState σ} (hq : Spec.Reachable M q) (hl : ∀ x ∈ q.pending, g ≤ x.t)
    {ℓ : Nat} (hℓ : ℓ < M.nLps) :
    (q.disp ℓ).filter (below g) = (s.past ℓ).filter (below g) ∧
    lpState M ℓ ((q.disp ℓ).filter (below g)) = lpState M ℓ ((s.past ℓ).filter (below g)) := by
  have h := (C01Glue.tw_equals_sequential (M := clamp M) ((V2sOn_iff_clamp M).mp V)
    (TW.reachable_clamp V.toV2On hr) hp ha (Spec.reachable_clamp V.toV2On hq) hl hℓ).1
  exact ⟨h, by rw [h]⟩

/-- `C01Glue.tw_quiescent_final` under the relativised strict contract -/
theorem v2sOn_tw_quiescent_final (V : Spec.V2sOn M) {s : TWState} (hr : TW.Reachable M s)
    (hp : s.pending = []) (ha : s.antis = [])
    {q : SeqState σ} (hq : Spec.Reachable M q) (hqp : q.pending = []) {ℓ : Nat} (hℓ : ℓ < M.nLps) :
    q.disp ℓ = s.past ℓ ∧ q.st ℓ = lpState M ℓ (s.past ℓ) := by
  have h := (C01Glue.tw_quiescent_final (M := clamp M) ((V2sOn_iff_clamp M).mp V)
    (TW.reachable_clamp V.toV2On hr) hp ha (Spec.reachable_clamp V.toV2On hq) hqp hℓ).1
  exact ⟨h, by rw [PrefixUnique.seq_state_exact hq ℓ, h]⟩

/-- `C01Glue.tw_schedule_independent` (C09 at protocol level) under the relativised strict contract -/
theorem v2sOn_tw_schedule_independent (V : Spec.V2sOn M) {s s' : TWState}
    (hr : TW.Reachable M s) (hr' : TW.Reachable M s')
    (hp : ∀ x ∈ s.pending, g ≤ x.t) (ha : ∀ x ∈ s.antis, g ≤ x.t)
    (hp' : ∀ x ∈ s'.pending, g ≤ x.t) (ha' : ∀ x ∈ s'.antis, g ≤ x.t)
    {ℓ : Nat} (hℓ : ℓ < M.nLps) :
    (s.past ℓ).filter (below g) = (s'.past ℓ).filter (below g) ∧
    lpState M ℓ ((s.past ℓ).filter (below g)) = lpState M ℓ ((s'.past ℓ).filter (below g)) := by
  have h := (C01Glue.tw_schedule_independent (M := clamp M) ((V2sOn_iff_clamp M).mp V)
    (TW.reachable_clamp V.toV2On hr) (TW.reachable_clamp V.toV2On hr') hp ha hp' ha' hℓ).1
  exact ⟨h, by rw [h]⟩

/-- `C01GlueD.tw_equals_sequential_D` under the relativised runtime contract -/
theorem v2On_tw_equals_sequential_D (V : Spec.V2On M) {s : TWGState} (hr : TWD.Reachable M s)
    (hp : ∀ x ∈ s.pending, g ≤ x.ev.t) (ha : ∀ x ∈ s.antis, g ≤ x.ev.t)
    {q : SeqState σ} (hq : Spec.Reachable M q) (hl : ∀ x ∈ q.pending, g ≤ x.t)
    {ℓ : Nat} (hℓ : ℓ < M.nLps) :
    (q.disp ℓ).filter (below g) = (TWG.histOf s ℓ).filter (below g) ∧
    lpState M ℓ ((q.disp ℓ).filter (below g)) = lpState M ℓ ((TWG.histOf s ℓ).filter (below g)) := by
  have h := (C01GlueD.tw_equals_sequential_D (M := clamp M) ((V2On_iff_clamp M).mp V)
    (TWD.reachable_clamp V hr) hp ha (Spec.reachable_clamp V hq) hl hℓ).1
  exact ⟨h, by rw [h]⟩

/-- `C01GlueD.tw_quiescent_final_D` under the relativised runtime contract -/
theorem v2On_tw_quiescent_final_D (V : Spec.V2On M) {s : TWGState} (hr : TWD.Reachable M s)
    (hp : s.pending = []) (ha : s.antis = [])
    {q : SeqState σ} (hq : Spec.Reachable M q) (hqp : q.pending = []) {ℓ : Nat} (hℓ : ℓ < M.nLps) :
    q.disp ℓ = TWG.histOf s ℓ ∧ q.st ℓ = lpState M ℓ (TWG.histOf s ℓ) := by
  have h := (C01GlueD.tw_quiescent_final_D (M := clamp M) ((V2On_iff_clamp M).mp V)
    (TWD.reachable_clamp V hr) hp ha (Spec.reachable_clamp V hq) hqp hℓ).1
  exact ⟨h, by rw [PrefixUnique.seq_state_exact hq ℓ, h]⟩

/-- `C01GlueD.tw_schedule_independent_D` under the relativised runtime contract -/
theorem v2On_tw_schedule_independent_D (V : Spec.V2On M) {s s' : TWGState}
    (hr : TWD.Reachable M s) (hr' : TWD.Reachable M s')
    (hp : ∀ x ∈ s.pending, g ≤ x.ev.t) (ha : ∀ x ∈ s.antis, g ≤ x.ev.t)
    (hp' : ∀ x ∈ s'.pending, g ≤ x.ev.t) (ha' : ∀ x ∈ s'.antis, g ≤ x.ev.t)
    {ℓ : Nat} (hℓ : ℓ < M.nLps) :
    (TWG.histOf s ℓ).filter (below g) = (TWG.histOf s' ℓ).filter (below g) ∧
    lpState M ℓ ((TWG.histOf s ℓ).filter (below g)) = lpState M ℓ ((TWG.histOf s' ℓ).filter (below g)) := by
  have h := (C01GlueD.tw_schedule_independent_D (M := clamp M) ((V2On_iff_clamp M).mp V)
    (TWD.reachable_clamp V hr) (TWD.reachable_clamp V hr') hp ha hp' ha' hℓ).1
  exact ⟨h, by rw [h]⟩

end general

/-! ### 3. The end-to-end theorems for the GenModel family -/

section family
variable {g : Nat} (P : Params) (rng0 : Nat → Rng)

/-- **Strict mode: Time Warp = sequential, for the model the correspondences run.** Any reachable state of the
content-level Time Warp machine of `simModel P rng0`, any lower bound `g` of what is pending, any sequential
run that has passed `g`: same events below `g`, LP by LP, same LP states. -/
theorem genmodel_tw_equals_sequential (hL : 0 < P.nLps) (hT : 0 < P.nTypes) (hT' : P.nTypes ≤ LP_INIT)
    (hF : P.fwdTok = false) {s : TWState} (hr : TW.Reachable (simModel P rng0) s)
    (hp : ∀ x ∈ s.pending, g ≤ x.t) (ha : ∀ x ∈ s.antis, g ≤ x.t)
    {q : SeqState GState} (hq : Spec.Reachable (simModel P rng0) q) (hl : ∀ x ∈ q.pending, g ≤ x.t)
    {ℓ : Nat} (hℓ : ℓ < P.nLps) :
    (q.disp ℓ).filter (below g) = (s.past ℓ).filter (below g) ∧
    lpState (simModel P rng0) ℓ ((q.disp ℓ).filter (below g)) =
      lpState (simModel P rng0) ℓ ((s.past ℓ).filter (below g)) :=
  v2sOn_tw_equals_sequential (genmodel_V2s P rng0 hL hT hT' hF) hr hp ha hq hl hℓ

/-- strict mode, "whatever the interleaving": a quiescent optimistic state and a finished sequential run have
the same histories and the same final LP states -/
theorem genmodel_tw_quiescent_final (hL : 0 < P.nLps) (hT : 0 < P.nTypes) (hT' : P.nTypes ≤ LP_INIT)
    (hF : P.fwdTok = false) {s : TWState} (hr : TW.Reachable (simModel P rng0) s)
    (hp : s.pending = []) (ha : s.antis = [])
    {q : SeqState GState} (hq : Spec.Reachable (simModel P rng0) q) (hqp : q.pending = [])
    {ℓ : Nat} (hℓ : ℓ < P.nLps) :
    q.disp ℓ = s.past ℓ ∧ q.st ℓ = lpState (simModel P rng0) ℓ (s.past ℓ) :=
  v2sOn_tw_quiescent_final (genmodel_V2s P rng0 hL hT hT' hF) hr hp ha hq hqp hℓ

/-- strict mode, C09 at protocol level: two optimistic executions agree below a common lower bound -/
theorem genmodel_tw_schedule_independent (hL : 0 < P.nLps) (hT : 0 < P.nTypes) (hT' : P.nTypes ≤ LP_INIT)
    (hF : P.fwdTok = false) {s s' : TWState}
    (hr : TW.Reachable (simModel P rng0) s) (hr' : TW.Reachable (simModel P rng0) s')
    (hp : ∀ x ∈ s.pending, g ≤ x.t) (ha : ∀ x ∈ s.antis, g ≤ x.t)
    (hp' : ∀ x ∈ s'.pending, g ≤ x.t) (ha' : ∀ x ∈ s'.antis, g ≤ x.t)
    {ℓ : Nat} (hℓ : ℓ < P.nLps) :
    (s.past ℓ).filter (below g) = (s'.past ℓ).filter (below g) ∧
    lpState (simModel P rng0) ℓ ((s.past ℓ).filter (below g)) =
      lpState (simModel P rng0) ℓ ((s'.past ℓ).filter (below g)) :=
  v2sOn_tw_schedule_independent (genmodel_V2s P rng0 hL hT hT' hF) hr hr' hp ha hp' ha' hℓ

/-- **Both modes (in particular V2-only, `fwdTok = true`), the machine with the code's straggler rule.** -/
theorem genmodel_fwd_tw_equals_sequential_D (hL : 0 < P.nLps) (hT : 0 < P.nTypes) (hT' : P.nTypes ≤ LP_INIT)
    {s : TWGState} (hr : TWD.Reachable (simModel P rng0) s)
    (hp : ∀ x ∈ s.pending, g ≤ x.ev.t) (ha : ∀ x ∈ s.antis, g ≤ x.ev.t)
    {q : SeqState GState} (hq : Spec.Reachable (simModel P rng0) q) (hl : ∀ x ∈ q.pending, g ≤ x.t)
    {ℓ : Nat} (hℓ : ℓ < P.nLps) :
    (q.disp ℓ).filter (below g) = (TWG.histOf s ℓ).filter (below g) ∧
    lpState (simModel P rng0) ℓ ((q.disp ℓ).filter (below g)) =
      lpState (simModel P rng0) ℓ ((TWG.histOf s ℓ).filter (below g)) :=
  v2On_tw_equals_sequential_D (genmodel_V2 P rng0 hL hT hT') hr hp ha hq hl hℓ

theorem genmodel_fwd_tw_quiescent_final_D (hL : 0 < P.nLps) (hT : 0 < P.nTypes) (hT' : P.nTypes ≤ LP_INIT)
    {s : TWGState} (hr : TWD.Reachable (simModel P rng0) s)
    (hp : s.pending = []) (ha : s.antis = [])
    {q : SeqState GState} (hq : Spec.Reachable (simModel P rng0) q) (hqp : q.pending = [])
    {ℓ : Nat} (hℓ : ℓ < P.nLps) :
    q.disp ℓ = TWG.histOf s ℓ ∧ q.st ℓ = lpState (simModel P rng0) ℓ (TWG.histOf s ℓ) :=
  v2On_tw_quiescent_final_D (genmodel_V2 P rng0 hL hT hT') hr hp ha hq hqp hℓ

theorem genmodel_fwd_tw_schedule_independent_D (hL : 0 < P.nLps) (hT : 0 < P.nTypes)
    (hT' : P.nTypes ≤ LP_INIT) {s s' : TWGState}
    (hr : TWD.Reachable (simModel P rng0) s) (hr' : TWD.Reachable (simModel P rng0) s')
    (hp : ∀ x ∈ s.pending, g ≤ x.ev.t) (ha : ∀ x ∈ s.antis, g ≤ x.ev.t)
    (hp' : ∀ x ∈ s'.pending, g ≤ x.ev.t) (ha' : ∀ x ∈ s'.antis, g ≤ x.ev.t)
    {ℓ : Nat} (hℓ : ℓ < P.nLps) :
    (TWG.histOf s ℓ).filter (below g) = (TWG.histOf s' ℓ).filter (below g) ∧
    lpState (simModel P rng0) ℓ ((TWG.histOf s ℓ).filter (below g)) =
      lpState (simModel P rng0) ℓ ((TWG.histOf s' ℓ).filter (below g)) :=
  v2On_tw_schedule_independent_D (genmodel_V2 P rng0 hL hT hT') hr hr' hp ha hp' ha' hℓ

end family

/-! ### 4. Non-vacuity -/

/-- the typical check configuration (4 LPs, 3 types, fan 3, thr 40, spread 20) satisfies the hypotheses, in the
strict and in the V2-only mode; `Params.ofFields` is how the driver builds it from the `model` line -/
example : 0 < P0.nLps ∧ 0 < P0.nTypes ∧ P0.nTypes ≤ LP_INIT ∧ P0.nTypes < LP_INIT ∧ P0.fwdTok = false := by decide
example : 0 < P0fwd.nLps ∧ 0 < P0fwd.nTypes ∧ P0fwd.nTypes ≤ LP_INIT ∧ P0fwd.fwdTok = true := by decide
example : (Params.ofFields 12345 4 3 3 40 20 1 1 0 0).nLps = 4 ∧
    (Params.ofFields 12345 4 3 3 40 20 1 1 0 0).fwdTok = false ∧
    (Params.ofFields 12345 4 3 3 40 20 1 1 2 0).fwdTok = true := by decide

example : Spec.V2sOn (simModel P0 rngZ) := genmodel_V2s P0 rngZ (by decide) (by decide) (by decide) rfl
example : Spec.V2On (simModel P0fwd rngZ) := genmodel_fwd_V2 P0fwd rngZ (by decide) (by decide) (by decide) rfl

set_option maxRecDepth 100000 in
/-- the contract is not vacuous: the admissible invocation of `genmodel_fwd_not_V2s` does schedule an event, and `LP_INIT` schedules at least one -/
example : (handler P0fwd 0 (s0 P0fwd) cFwd).2.length = 1 ∧
    (handler P0 0 ((simModel P0 rngZ).init 0) (initEv 0)).2.length = 1 ∧
    Admissible (simModel P0 rngZ) 0 cFwd ∧ Admissible (simModel P0 rngZ) 0 (initEv 0) := by decide

/-- the initial states are reachable (the corollaries are about non-empty sets of states) -/
example : TW.Reachable (simModel P0 rngZ) (TW.init (simModel P0 rngZ)) ∧
    TWD.Reachable (simModel P0fwd rngZ) (TWG.init (simModel P0fwd rngZ)) ∧
    Spec.Reachable (simModel P0 rngZ) (Spec.init (simModel P0 rngZ)) :=
  ⟨TW.Reachable.init, TWD.Reachable.init, Spec.Reachable.init⟩

end RootSim.GenModelContract
