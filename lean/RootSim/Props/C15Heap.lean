import RootSim.Proofs.Heap
import RootSim.Props.C16
/-!
# C15 (private-heap half) and the heap part of C10 — the binary heap of `heap.h`

All theorems are about the verbatim array algorithms `heapInsertI` / `heapExtractI` of `Model/Heap.lean`
with a *call-site indexed* comparator (`heapInsert lt = heapInsertI (fun _ => lt)` is the ordinary case):

* multiset preservation holds for **every** comparator (no order axiom at all);
* for a comparator that is a strict weak order (`StrictWeak`, e.g. the event order of C16) the heap
  invariant is preserved and `heap_extract` returns a minimum;
* for a family of comparators that merely respects the time stamps (`TimeConsistent`), whose
  tie-break answers may change arbitrarily from call to call (the anti flag read by
  `msg_is_before_extended` is set concurrently by other threads), the *time-heap* invariant
  (`parent.t ≤ child.t`) is preserved, the extracted element has the least time stamp and `heap_min`
  is a lower bound of all time stamps.  No property of the tie-break is used.
-/
namespace RootSim.C15.Heap
open RootSim RootSim.Heap
variable {α : Type}

/-! ## 1. Multiset preservation — any comparator -/

/-- `heap_insert` adds exactly the inserted element. -/
theorem insert_perm (cmp : Cmp α) (a : Array α) (x : α) :
    (heapInsertI cmp a x).1.toList.Perm (x :: a.toList) := by
  have := heapInsertI_perm cmp a x
  rw [Array.perm_iff_toList_perm] at this
  refine this.trans ?_
  simp only [Array.toList_push]
  exact List.perm_append_singleton _ _

/-- `heap_extract` removes exactly the returned element; it fails only on the empty heap. -/
theorem extract_perm (cmp : Cmp α) (a : Array α) (m : α) (a' : Array α)
    (h : heapExtractI cmp a = some (m, a')) : a.toList.Perm (m :: a'.toList) :=
  heapExtractI_perm cmp a m a' h

theorem extract_isSome_iff (cmp : Cmp α) (a : Array α) : (heapExtractI cmp a).isSome ↔ 0 < a.size := by
  unfold heapExtractI; split <;> simp [*]

/-- the returned element is the root `items[0]` -/
theorem extract_eq_root (cmp : Cmp α) (a : Array α) (m : α) (a' : Array α)
    (h : heapExtractI cmp a = some (m, a')) : heapMin a = some m := by
  unfold heapExtractI at h
  split at h
  · rename_i hs
    simp only [Option.some.injEq, Prod.mk.injEq] at h
    unfold heapMin
    rw [← h.1]; exact Array.getElem?_eq_getElem hs
  · exact absurd h (by simp)

/-- `heap_insert_n` adds exactly the given elements. -/
theorem insertN_perm (cmp : Cmp α) (a : Array α) (ins : List α) :
    (heapInsertNI cmp a ins).toList.Perm (ins ++ a.toList) := by
  unfold heapInsertNI
  induction ins with
  | nil => simp
  | cons x xs ih =>
    simp only [List.foldr_cons, List.cons_append]
    exact (insert_perm cmp _ x).trans (List.Perm.cons _ ih)

/-! ## 2. Strict weak orders: heap invariant and minimality -/

/-- `lt` is a strict weak order on the elements satisfying `P` -/
structure StrictWeak (lt : α → α → Bool) (P : α → Prop) : Prop where
  asymm : ∀ a b, P a → P b → lt a b = true → lt b a = false
  /-- negative transitivity (equivalently: incomparability is transitive and `lt` is transitive) -/
  ntrans : ∀ a b c, P a → P b → P c → lt a b = false → lt b c = false → lt a c = false

/-- the heap invariant w.r.t. `lt`: no child is before its parent -/
def IsHeap (lt : α → α → Bool) (a : Array α) : Prop := HeapLe (fun x y => lt y x = false) a

theorem StrictWeak.consistent {lt : α → α → Bool} {P : α → Prop} (S : StrictWeak lt P) :
    Consistent (constCmp lt) (fun x y => lt y x = false) P where
  refl a ha := by
    cases h : lt a a
    · rfl
    · have := S.asymm a a ha ha h; rw [h] at this; exact absurd this (by simp)
  trans a b c ha hb hc h1 h2 := S.ntrans c b a hc hb ha h2 h1
  of_lt _ a b ha hb h := S.asymm a b ha hb h
  of_not_lt _ a b _ _ h := h

theorem insert_isHeap {lt : α → α → Bool} {P : α → Prop} (S : StrictWeak lt P)
    (a : Array α) (x : α) (hP : AllP P a) (hx : P x) (hh : IsHeap lt a) :
    IsHeap lt (heapInsert lt a x).1 ∧ AllP P (heapInsert lt a x).1 :=
  ⟨heapInsertI_heap S.consistent a x hP hx hh, heapInsertI_allP a x hP hx⟩

theorem extract_isHeap {lt : α → α → Bool} {P : α → Prop} (S : StrictWeak lt P)
    (a : Array α) (m : α) (a' : Array α) (h : heapExtract lt a = some (m, a'))
    (hP : AllP P a) (hh : IsHeap lt a) : IsHeap lt a' ∧ AllP P a' ∧ P m :=
  ⟨heapExtractI_heap S.consistent a m a' h hP hh, (heapExtractI_allP a m a' h hP).2,
   (heapExtractI_allP a m a' h hP).1⟩

/-- In a heap no element is before the root. -/
theorem root_minimal {lt : α → α → Bool} {P : α → Prop} (S : StrictWeak lt P)
    (a : Array α) (hP : AllP P a) (hh : IsHeap lt a) (m : α) (hm : heapMin a = some m) :
    ∀ y ∈ a.toList, lt y m = false := by
  unfold heapMin at hm
  have h0 : 0 < a.size := by
    rcases Nat.eq_zero_or_pos a.size with h | h
    · rw [Array.getElem?_eq_none (by omega)] at hm; exact absurd hm (by simp)
    · exact h
  rw [Array.getElem?_eq_getElem h0] at hm
  simp only [Option.some.injEq] at hm
  subst hm
  exact heapLe_root_mem S.consistent.refl S.consistent.trans a hP hh h0

/-- **`heap_extract` returns a minimum**: no remaining element (and no element at all) is before it. -/
theorem extract_minimal {lt : α → α → Bool} {P : α → Prop} (S : StrictWeak lt P)
    (a : Array α) (m : α) (a' : Array α) (h : heapExtract lt a = some (m, a'))
    (hP : AllP P a) (hh : IsHeap lt a) : ∀ y ∈ a'.toList, lt y m = false := by
  intro y hy
  exact root_minimal S a hP hh m (extract_eq_root _ a m a' h) y
    ((extract_perm _ a m a' h).mem_iff.2 (List.mem_cons_of_mem _ hy))

/-- the event order of C16 is a strict weak order on well-formed messages -/
theorem isBefore_strictWeak : StrictWeak isBefore Msg.WF where
  asymm a b _ _ h := C16.asymm a b h
  ntrans a b c ha hb hc h1 h2 := by
    cases h3 : isBefore a c
    · rfl
    · -- a < c; then (b < a ∨ incomparable a b) and (c < b ∨ incomparable b c): all cases contradict
      cases hba : isBefore b a
      · cases hcb : isBefore c b
        · have := C16.incomp_trans a b c ha hb hc ⟨h1, hba⟩ ⟨h2, hcb⟩
          rw [this.1] at h3; exact absurd h3 (by simp)
        · have := C16.trans a c b ha hc hb h3 hcb
          rw [h1] at this; exact absurd this (by simp)
      · have := C16.trans b a c hb ha hc hba h3
        rw [h2] at this; exact absurd this (by simp)

/-! ## 3. Time-consistent comparators: robust minimum-timestamp guarantee -/

/-- every answer of the comparator respects the keys (time stamps): `cmp a b → a.t ≤ b.t` and
`¬ cmp a b → b.t ≤ a.t`.  Nothing is assumed about ties, nor that two calls agree. -/
def TimeConsistent (key : α → Nat) (cmp : Cmp α) : Prop :=
  ∀ n a b, (cmp n a b = true → key a ≤ key b) ∧ (cmp n a b = false → key b ≤ key a)

/-- the time-heap invariant `parent.t ≤ child.t` -/
def TimeHeap (key : α → Nat) (a : Array α) : Prop := HeapLe (fun x y => key x ≤ key y) a

theorem TimeConsistent.consistent {key : α → Nat} {cmp : Cmp α} (T : TimeConsistent key cmp) :
    Consistent cmp (fun x y => key x ≤ key y) (fun _ => True) where
  refl _ _ := Nat.le_refl _
  trans _ _ _ _ _ _ h1 h2 := Nat.le_trans h1 h2
  of_lt n a b _ _ h := (T n a b).1 h
  of_not_lt n a b _ _ h := (T n a b).2 h

theorem allTrue (a : Array α) : AllP (fun _ => True) a := fun _ _ => trivial

theorem insert_timeHeap {key : α → Nat} {cmp : Cmp α} (T : TimeConsistent key cmp)
    (a : Array α) (x : α) (hh : TimeHeap key a) : TimeHeap key (heapInsertI cmp a x).1 :=
  heapInsertI_heap T.consistent a x (allTrue a) trivial hh

theorem extract_timeHeap {key : α → Nat} {cmp : Cmp α} (T : TimeConsistent key cmp)
    (a : Array α) (m : α) (a' : Array α) (h : heapExtractI cmp a = some (m, a'))
    (hh : TimeHeap key a) : TimeHeap key a' :=
  heapExtractI_heap T.consistent a m a' h (allTrue a) hh

/-- `heap_min(self).t` is a lower bound of every stored time stamp (`msg_queue_time_peek`). -/
theorem min_time_le {key : α → Nat} (a : Array α) (hh : TimeHeap key a) (m : α)
    (hm : heapMin a = some m) : ∀ y ∈ a.toList, key m ≤ key y := by
  unfold heapMin at hm
  have h0 : 0 < a.size := by
    rcases Nat.eq_zero_or_pos a.size with h | h
    · rw [Array.getElem?_eq_none (by omega)] at hm; exact absurd hm (by simp)
    · exact h
  rw [Array.getElem?_eq_getElem h0] at hm
  simp only [Option.some.injEq] at hm
  subst hm
  exact heapLe_root_mem (le := fun x y => key x ≤ key y) (P := fun _ => True) (fun _ _ => Nat.le_refl _)
    (fun _ _ _ _ _ _ h1 h2 => Nat.le_trans h1 h2) a (allTrue a) hh h0

/-- **The extracted element has the least time stamp** among all stored elements
(`msg_queue_extract`), whatever the tie-break answered. -/
theorem extract_min_time {key : α → Nat} (cmp : Cmp α) (a : Array α) (m : α) (a' : Array α)
    (h : heapExtractI cmp a = some (m, a')) (hh : TimeHeap key a) :
    ∀ y ∈ a'.toList, key m ≤ key y := by
  intro y hy
  exact min_time_le a hh m (extract_eq_root _ a m a' h) y
    ((extract_perm _ a m a' h).mem_iff.2 (List.mem_cons_of_mem _ hy))

/-- every heap obtained from the empty heap by inserts and extracts, each with its OWN arbitrary
time-consistent comparator family (so also: answers varying between and within operations) -/
inductive Reach (key : α → Nat) : Array α → Prop
  | empty : Reach key #[]
  | insert {a : Array α} (cmp : Cmp α) (x : α) : TimeConsistent key cmp → Reach key a →
      Reach key (heapInsertI cmp a x).1
  | extract {a a' : Array α} {m : α} (cmp : Cmp α) : TimeConsistent key cmp → Reach key a →
      heapExtractI cmp a = some (m, a') → Reach key a'

/-- **all histories**: the time-heap invariant holds in every reachable heap, hence `min_time_le`
and `extract_min_time` apply at every point of every history. -/
theorem reach_timeHeap {key : α → Nat} {a : Array α} (h : Reach key a) : TimeHeap key a := by
  induction h with
  | empty => intro c hc; simp at hc
  | insert cmp x T _ ih => exact insert_timeHeap T _ x ih
  | extract cmp T _ he ih => exact extract_timeHeap T _ _ _ he ih

/-- `q_elem_is_before` when the *messages* are observed through an arbitrary, call-dependent view
(their flags, types, payloads may be anything at each call; only the cached `t` of the queue element
is stable): still time-consistent. -/
def qElemCmpView (view : Nat → Msg → Msg) : Cmp QElem :=
  fun n x y => qElemBefore ⟨x.t, view n x.m⟩ ⟨y.t, view n y.m⟩

theorem qElem_timeConsistent (view : Nat → Msg → Msg) : TimeConsistent QElem.t (qElemCmpView view) := by
  intro n x y
  simp only [qElemCmpView, qElemBefore, Bool.or_eq_true, decide_eq_true_eq, Bool.and_eq_true,
    Bool.or_eq_false_iff, decide_eq_false_iff_not, Bool.and_eq_false_iff]
  constructor <;> intro h <;> omega

/-- the comparator as written (`q_elem_is_before`, flags not changing) is the identity view -/
theorem qElemBefore_eq_view : constCmp qElemBefore = qElemCmpView (fun _ m => m) := rfl

/-- the serial runtime's comparator is time-consistent as well -/
theorem isBefore_timeConsistent : TimeConsistent Msg.destT (constCmp isBefore) := by
  intro n x y
  simp only [isBefore, Bool.or_eq_true, decide_eq_true_eq, Bool.and_eq_true,
    Bool.or_eq_false_iff, decide_eq_false_iff_not, Bool.and_eq_false_iff]
  constructor <;> intro h <;> omega

/-! ## Non-vacuity -/
section Examples
def m (t ty : Nat) (fl : Nat := 0) (seq : Nat := 0) : Msg :=
  { destT := t, rawFlags := fl, mType := ty, plSize := 0, pl := [], mSeq := seq }

/-- a heap built by the model, with ties and equal-content messages -/
def exHeap : Array Msg :=
  [m 5 1, m 3 1, m 3 2 0 7, m 3 2 0 8, m 0 9, m 3 1 1, m 4 0].foldl (fun a x => (heapInsert isBefore a x).1) #[]

/-- a heap built by inserts from the empty heap satisfies the hypotheses of the theorems above -/
theorem build_isHeap {α : Type} {lt : α → α → Bool} {P : α → Prop} (S : StrictWeak lt P) (l : List α)
    (hl : ∀ x ∈ l, P x) (a : Array α) (ha : IsHeap lt a ∧ AllP P a) :
    IsHeap lt (l.foldl (fun a x => (heapInsert lt a x).1) a) ∧
    AllP P (l.foldl (fun a x => (heapInsert lt a x).1) a) := by
  induction l generalizing a with
  | nil => exact ha
  | cons x xs ih =>
    simp only [List.foldl_cons]
    exact ih (fun y hy => hl y (List.mem_cons_of_mem _ hy)) _
      (insert_isHeap S a x ha.2 (hl x (List.mem_cons_self)) ha.1)

example : IsHeap isBefore exHeap ∧ AllP Msg.WF exHeap := by
  apply build_isHeap isBefore_strictWeak
  · intro x hx; simp only [List.mem_cons, List.not_mem_nil, or_false] at hx
    rcases hx with rfl | rfl | rfl | rfl | rfl | rfl | rfl <;> decide
  · exact ⟨fun c hc => by simp at hc, fun k hk => by simp at hk⟩
example : exHeap.size = 7 := by decide +kernel
example : (heapExtract isBefore exHeap).map (fun r => (r.1.destT, r.1.mType)) = some (0, 9) := by decide +kernel
/-- a flipped anti flag breaks the tie-break heap order but the time order still comes out right -/
example : ((heapExtractI (qElemCmpView fun n x => if n % 3 = 0 then { x with rawFlags := 1 } else x)
    (exHeap.map fun x => (⟨x.destT, x⟩ : QElem))).map fun r => r.1.t) = some 0 := by decide +kernel
end Examples

end RootSim.C15.Heap
