import RootSim.Proofs.Gvt
import RootSim.Model.Shutdown
/-!
# C04 — GVT is a monotone, safe lower bound (thread level of `gvt.c`)

"The GVT values reported to a worker thread never decrease, are the same for all threads […] in a
given round, and are safe: after a thread has been told GVT = g it never again extracts an event or
anti-message with timestamp below g, never rolls an LP back to a point below g, and no message
with timestamp below g is still in any queue, buffer or in flight."

Model: `Model/Gvt.lean` — `N` threads (any `N`), `gvt_thread_phase_run` with the counters `c_a`,
`c_b`, message extraction / insertion / completion at any time on any thread. All theorems hold
for every state reachable from an initial state (`Init`: everybody idle, queues arbitrary), i.e.
for all interleavings. The `log` ghost records every `(round, value)` a thread reads when it leaves
phase D.

Everything a thread inserts anywhere while it processes (or rolls back for) a message with time
stamp `c` has a time stamp `≥ c` (`emit`'s precondition — contract V2 plus the rollback rules:
re-queued events and anti-messages are not before the straggler); rollback targets are time stamps of
extracted messages. So `Safe g` ("`g` is below everything queued or being processed, and stays so")
is the model-level content of "never extracts / rolls back below `g`, nothing below `g` in any queue".

Node level (two rounds with colour flip, MPI collectives, in-flight remote messages) is NOT covered
here: see `NodeLevelStatement` (left as a statement) at the end.
-/
namespace RootSim.C04
open RootSim.Gvt

/-- **Counters**: `c_b` counts the threads in phase B or C, `c_a` those in C or D. -/
theorem counters (s0 s : St) (h0 : Init s0) (h : Reach s0 s) :
    s.cb = s.ths.countP (fun t => t.phase == .B || t.phase == .C) ∧
    s.ca = s.ths.countP (fun t => t.phase == .C || t.phase == .D) := by
  obtain ⟨K, hK⟩ := reach_inv s0 s h0 h
  exact ⟨hK.cb_eq, hK.ca_eq⟩

/-- guard of phase B (`c_b = N`): every thread has done its phase-A peek -/
theorem guardB_all_left_A (s0 s : St) (h0 : Init s0) (h : Reach s0 s) (hg : s.cb = s.ths.length) :
    ∀ u ∈ s.ths, u.phase = .B ∨ u.phase = .C := by
  obtain ⟨K, hK⟩ := reach_inv s0 s h0 h
  exact fun u hu => inBC_phase (countP_len_all (by rw [← hK.cb_eq]; exact hg) u hu)

/-- guard of phase C (`c_a = N`): every thread has seen `c_b = N` -/
theorem guardC_all_left_B (s0 s : St) (h0 : Init s0) (h : Reach s0 s) (hg : s.ca = s.ths.length) :
    ∀ u ∈ s.ths, u.phase = .C ∨ u.phase = .D := by
  obtain ⟨K, hK⟩ := reach_inv s0 s h0 h
  exact fun u hu => inCD_phase (countP_len_all (by rw [← hK.ca_eq]; exact hg) u hu)

/-- guard of phase D (`c_b = 0`): **a thread reads only after all `N` threads wrote their slot in
this round** (every thread has performed exactly as many phase-C writes as the reader) -/
theorem guardD_all_wrote (s0 s : St) (h0 : Init s0) (h : Reach s0 s) (t : Th) (ht : t ∈ s.ths)
    (hp : t.phase = .D) (hg : s.cb = 0) : ∀ u ∈ s.ths, u.wr = t.wr := by
  obtain ⟨K, hK⟩ := reach_inv s0 s h0 h
  have hnobc := countP_zero_all (by rw [← hK.cb_eq]; exact hg)
  have htw := hK.wrEq t ht
  have htr : t.rd = K := stage_rd_CD hK.stage ht (Or.inr hp)
  simp only [hp, if_true] at htw
  intro u hu
  have huw := hK.wrEq u hu
  rcases hK.stage with hst | hst | hst | hst
  · have := (hst t ht).1; rw [hp] at this; rcases this with h | h | h <;> cases h
  · have := (hst t ht).1; rw [hp] at this; rcases this with h | h <;> cases h
  · rcases (hst u hu).1 with hc | hd
    · have := hnobc u hu; simp [inBC, hc] at this
    · have := (hst u hu).2; simp only [hd, if_true] at huw; omega
  · rcases hst u hu with ⟨hd, hr⟩ | ⟨hia, hr⟩
    · simp only [hd, if_true] at huw; omega
    · have : (if u.phase = Phase.D then 1 else 0) = 0 := by
        rcases hia with h | h <;> simp [h]
      rw [this] at huw; omega

/-- guard of phase A (`c_a = 0`): the previous round is over for everybody -/
theorem guardA_prev_round_over (s0 s : St) (h0 : Init s0) (h : Reach s0 s) (t : Th) (ht : t ∈ s.ths)
    (hp : t.phase = .A) (hg : s.ca = 0) :
    ∀ u ∈ s.ths, (u.phase = .idle ∨ u.phase = .A ∨ u.phase = .B) ∧ u.rd = t.rd := by
  obtain ⟨K, hK⟩ := reach_inv s0 s h0 h
  obtain ⟨K', _, hst⟩ := phaseA_stage s K t hK ht hp hg
  intro u hu
  exact ⟨(hst u hu).1, by rw [(hst u hu).2, (hst t ht).2]⟩

/-- **Rounds are reusable**: when every thread is idle again both counters are 0 and all threads have
completed the same number of rounds. -/
theorem rounds_reusable (s0 s : St) (h0 : Init s0) (h : Reach s0 s) (hid : ∀ t ∈ s.ths, t.phase = .idle) :
    s.ca = 0 ∧ s.cb = 0 ∧ ∀ t ∈ s.ths, ∀ u ∈ s.ths, t.rd = u.rd := by
  obtain ⟨K, hK⟩ := reach_inv s0 s h0 h
  refine ⟨?_, ?_, ?_⟩
  · rw [hK.ca_eq, List.countP_eq_zero]; intro t ht; simp [inCD, hid t ht]
  · rw [hK.cb_eq, List.countP_eq_zero]; intro t ht; simp [inBC, hid t ht]
  · have hrd : ∀ t ∈ s.ths, t.rd = K ∨ t.rd = K + 1 := by
      intro t ht
      rcases hK.stage with hst | hst | hst | hst
      · exact Or.inl (hst t ht).2
      · exact Or.inl (hst t ht).2
      · exact Or.inl (hst t ht).2
      · rcases hst t ht with ⟨_, h⟩ | ⟨_, h⟩
        · exact Or.inl h
        · exact Or.inr h
    intro t ht u hu
    rcases hK.stage with hst | hst | hst | hst
    · rw [(hst t ht).2, (hst u hu).2]
    · rw [(hst t ht).2, (hst u hu).2]
    · rw [(hst t ht).2, (hst u hu).2]
    · rcases hst t ht with ⟨h1, _⟩ | ⟨_, h1⟩
      · rw [hid t ht] at h1; cases h1
      · rcases hst u hu with ⟨h2, _⟩ | ⟨_, h2⟩
        · rw [hid u hu] at h2; cases h2
        · rw [h1, h2]

/-- **Cut lemma, part 1**: once every thread has left phase A (`Active`: `c_b = N` or `c_a > 0`) the
cut value `G = min_t (if t has written its slot then r_t else min(acc_t, min pending_t, cur_t))`
does not change, whatever step is taken (in particular it never decreases), until the round ends. -/
theorem cut_constant (s0 s s' : St) (a : Act) (h0 : Init s0) (h : Reach s0 s) (ha : Active s)
    (hs : step s a = some s') : G s' = G s := by
  obtain ⟨K, hK⟩ := reach_inv s0 s h0 h
  obtain ⟨_, _, hG⟩ := inv_step s s' K a hK hs
  exact hG ha

/-- **Cut lemma, part 2**: while the cut is in force, `G` is a lower bound of every queued message
and of every message being processed, on every thread. -/
theorem cut_safe (s0 s : St) (h0 : Init s0) (h : Reach s0 s) (ha : Active s) : Safe (G s) s := by
  obtain ⟨K, hK⟩ := reach_inv s0 s h0 h
  exact cut_safe_all hK ha

/-- **The value a thread reads when it leaves phase D** is `min_t r_t`, equals the cut value, every
slot it is the minimum of was written in this round (`guardD_all_wrote`), and it is safe. -/
theorem read_value (s0 s s' : St) (i : Nat) (h0 : Init s0) (h : Reach s0 s)
    (hs : step s (.phaseD i) = some s') :
    s'.last = gmin s ∧ gmin s = G s ∧ Safe (gmin s) s ∧ ∃ k, s'.log = (k, gmin s) :: s.log := by
  obtain ⟨K, hK⟩ := reach_inv s0 s h0 h
  simp only [step] at hs
  split at hs
  · cases hs
  · rename_i t ht
    split at hs
    · rename_i hg
      simp only [Option.some.injEq] at hs
      have hnobc := countP_zero_all (by rw [← hK.cb_eq]; exact hg.2)
      have hGg : G s = gmin s := G_eq_gmin s hnobc
      have hpos : 0 < s.ths.countP inCD :=
        List.countP_pos_iff.mpr ⟨t, List.mem_of_getElem? ht, by simp [inCD, hg.1]⟩
      have hact : Active s := Or.inr (by rw [hK.ca_eq]; exact hpos)
      refine ⟨by rw [← hs], hGg.symm, by rw [← hGg]; exact cut_safe_all hK hact, ⟨t.rd, by rw [← hs]⟩⟩
    · cases hs

/-- **Safe, for ever**: every value ever read is, in every later state, a lower bound of everything
queued or being processed. -/
theorem reported_safe (s0 s : St) (h0 : Init s0) (h : Reach s0 s) (k v : Nat) (hv : (k, v) ∈ s.log) :
    Safe v s := by
  obtain ⟨K, hK⟩ := reach_inv s0 s h0 h
  have hle : v ≤ s.last := (hK.logK _ hv).2.1
  intro t ht
  obtain ⟨h1, h2⟩ := hK.safeLast t ht
  exact ⟨fun x hx => Nat.le_trans hle (h1 x hx), fun c hc => Nat.le_trans hle (h2 c hc)⟩

/-- … hence after a thread has been told `v` no thread ever again **extracts** a message below `v` … -/
theorem no_extract_below (s0 s s' : St) (h0 : Init s0) (h : Reach s0 s) (k v i j : Nat) (hv : (k, v) ∈ s.log)
    (hs : step s (.extract i j) = some s') :
    ∃ t e, s.ths[i]? = some t ∧ t.pending[j]? = some e ∧ v ≤ e := by
  have hsafe := reported_safe s0 s h0 h k v hv
  simp only [step] at hs
  split at hs
  · cases hs
  · rename_i t ht
    split at hs
    · rename_i e _ he
      exact ⟨t, e, ht, he, (hsafe t (List.mem_of_getElem? ht)).1 e (List.mem_of_getElem? he)⟩
    · cases hs

/-- … and nothing below `v` is ever **inserted** into a queue again (new events, events re-queued by
a rollback, anti-messages). -/
theorem no_emit_below (s0 s s' : St) (h0 : Init s0) (h : Reach s0 s) (k v i u x : Nat) (hv : (k, v) ∈ s.log)
    (hs : step s (.emit i u x) = some s') : v ≤ x := by
  have hsafe := reported_safe s0 s h0 h k v hv
  simp only [step] at hs
  split at hs
  · rename_i t tu ht htu
    split at hs
    · rename_i c hc
      split at hs
      · rename_i hcx
        exact Nat.le_trans ((hsafe t (List.mem_of_getElem? ht)).2 c hc) hcx
      · cases hs
    · cases hs
  · cases hs

/-- **Same value for all threads of a round.** -/
theorem same_value (s0 s : St) (h0 : Init s0) (h : Reach s0 s) (k v v' : Nat)
    (hv : (k, v) ∈ s.log) (hv' : (k, v') ∈ s.log) : v = v' := by
  obtain ⟨K, hK⟩ := reach_inv s0 s h0 h
  exact Nat.le_antisymm (hK.logMono _ hv _ hv' (Nat.le_refl _)) (hK.logMono _ hv' _ hv (Nat.le_refl _))

/-- **Monotone across rounds.** -/
theorem monotone (s0 s : St) (h0 : Init s0) (h : Reach s0 s) (k k' v v' : Nat)
    (hv : (k, v) ∈ s.log) (hv' : (k', v') ∈ s.log) (hk : k ≤ k') : v ≤ v' := by
  obtain ⟨K, hK⟩ := reach_inv s0 s h0 h
  exact hK.logMono _ hv _ hv' hk

/-! ### Non-vacuity: a concrete 2-thread round with the subtle interleaving

Thread 1 has done its phase-C peek (slot written) when thread 0 — still processing the message
with time stamp 3 it extracted before — sends it a message with time stamp 4. The message is not
seen by thread 1's peeks, but it is covered by thread 0's accumulator (3 ≤ 4). -/

def ex0 : St := { ths := [{ pending := [3, 9] }, { pending := [7] }] }

def exSched : List Act :=
  [.start 0, .phaseA 0, .start 1, .extract 0 0, .phaseA 1, .phaseB 0, .phaseB 1, .phaseC 1,
   .emit 0 1 4,            -- after thread 1's phase-C peek
   .phaseC 0, .phaseD 1, .finish 0, .phaseD 0]

example : Init ex0 := ⟨by decide, by decide, rfl, rfl, rfl, rfl⟩

/-- the schedule is executable; both threads read 3; the late message (4) is still queued -/
example : ∃ s, run ex0 exSched = some s ∧ s.log = [(0, 3), (0, 3)] ∧ s.ca = 0 ∧ s.cb = 0 ∧
    (s.ths.map (·.pending)) = [[9], [4, 7]] := ⟨_, rfl, by decide, by decide, by decide, by decide⟩

/-- a state in which the cut is in force (`Active`) is reachable -/
example : ∃ s, run ex0 (exSched.take 8) = some s ∧ Active s ∧ G s = 3 :=
  ⟨_, rfl, by unfold Active; decide, by decide⟩

theorem reach_run (s0 : St) (as : List Act) : ∀ s s', Reach s0 s → run s as = some s' → Reach s0 s' := by
  induction as with
  | nil => intro s s' h hr; simp only [run, Option.some.injEq] at hr; subst hr; exact h
  | cons a as ih =>
    intro s s' h hr
    simp only [run] at hr
    split at hr
    · cases hr
    · rename_i s1 hs; exact ih s1 s' (Reach.step h hs) hr

/-- **The coupling `start` needs `cur = none` is essential** (and is what the code has:
`gvt_phase_run` is never called from inside `process_msg`). If a thread could start a round
(`gvt_accumulator = SIMTIME_MAX`) while still processing a message, that message's time stamp would be
covered by nothing: with the same queues as above, thread 0 extracts 3, *then* starts; the round
computes 7 while thread 0 can still emit a message with time stamp 3. This state is not reachable
in the model (`start` is refused): -/
example : step { ths := [{ pending := [9], cur := some 3, acc := 3 }, { pending := [7] }] } (.start 0) = none := by
  decide

/-! ### The phase machine of this model is the one that is replayed against the real code

`Model/Shutdown.lean` (`threadPhase`, the thread level of the complete `gvt_phase_run` model) is compared in
lock-step with the real `gvt.c` under the deterministic scheduler (harness `hc08.c`, driver mode `shutdown`).
The four phase steps of the model used in this file perform exactly the same guard tests and the same
updates of `thread_phase`, `c_a`, `c_b`. -/

def tphOf : Phase → RootSim.Shutdown.TPh
  | .idle => .idle | .A => .A | .B => .B | .C => .C | .D => .D

def actOf : Phase → Nat → Option Act
  | .A, i => some (.phaseA i) | .B, i => some (.phaseB i) | .C, i => some (.phaseC i) | .D, i => some (.phaseD i)
  | .idle, _ => none

theorem inc32_eq (x : Nat) : RootSim.Shutdown.inc32 x = (x + 1) % W32 := rfl

theorem dec32_one (x : Nat) : RootSim.Shutdown.dec32 x 1 = (x + W32 - 1) % W32 := by
  have h : 1 % RootSim.Shutdown.W32 = 1 := Nat.mod_eq_of_lt (by unfold RootSim.Shutdown.W32; omega)
  unfold RootSim.Shutdown.dec32; rw [h]; rfl

set_option linter.unusedSimpArgs false in
theorem phase_machine_agrees (s : St) (i : Nat) (t : Th) (a : Act) (ss : RootSim.Shutdown.St)
    (u : RootSim.Shutdown.Th) (ht : s.ths[i]? = some t) (ha : actOf t.phase i = some a)
    (hn : ss.n = s.ths.length) (hca : ss.ca = s.ca) (hcb : ss.cb = s.cb) (hu : u.tph = tphOf t.phase) :
    match step s a with
    | none => RootSim.Shutdown.threadPhase ss u = (ss, u, false)
    | some s' => ∃ t', s'.ths[i]? = some t' ∧
        (RootSim.Shutdown.threadPhase ss u).1.ca = s'.ca ∧ (RootSim.Shutdown.threadPhase ss u).1.cb = s'.cb ∧
        (RootSim.Shutdown.threadPhase ss u).2.1.tph = tphOf t'.phase ∧
        (RootSim.Shutdown.threadPhase ss u).2.2 = (t.phase == .D) := by
  have hi : i < s.ths.length := (List.getElem?_eq_some_iff.mp ht).1
  have hgi : s.ths[i] = t := (List.getElem?_eq_some_iff.mp ht).2
  cases hp : t.phase <;> rw [hp] at ha hu <;> simp only [actOf, Option.some.injEq] at ha
  · cases ha
  · subst ha
    by_cases hg : s.ca = 0 <;>
      simp [step, ht, hgi, hp, RootSim.Shutdown.threadPhase, hu, tphOf, hn, hca, hcb, hg, hi,
        inc32_eq, dec32_one]
  · subst ha
    by_cases hg : s.cb = s.ths.length <;>
      simp [step, ht, hgi, hp, RootSim.Shutdown.threadPhase, hu, tphOf, hn, hca, hcb, hg, hi,
        inc32_eq, dec32_one]
  · subst ha
    by_cases hg : s.ca = s.ths.length <;>
      simp [step, ht, hgi, hp, RootSim.Shutdown.threadPhase, hu, tphOf, hn, hca, hcb, hg, hi,
        inc32_eq, dec32_one]
  · subst ha
    by_cases hg : s.cb = 0 <;>
      simp [step, ht, hgi, hp, RootSim.Shutdown.threadPhase, hu, tphOf, hn, hca, hcb, hg, hi,
        inc32_eq, dec32_one]

end RootSim.C04
