import RootSim.Proofs.ShutdownQuiet
/-!
# C08 — every run returns (liveness of termination and shutdown)

"Once every LP's predicate holds on a committed state, or the GVT passes the termination time, or
RootsimStop is called, RootsimRun returns after a bounded amount of further work on every rank,
having invoked LP_FINI once per LP; it never deadlocks or spins forever in GVT, barrier or drain
code, whatever the interleaving of threads at that moment."

Model: `Model/Shutdown.lean` (single node, `no_mpi.c` build; pinned code and the proposed repairs).

* `ShutdownLiveStatement v` — the full statement for a code variant `v` (all thread counts, all fair schedules).
* `f1_counterexample`, `f10_counterexample` — it is FALSE for the pinned code, for two independent
  reasons: a reachable deadlock (F1) and a reachable fair livelock (F10).
* `Fair.fair_terminates` — (iii): progress measure + deadlock-freedom ⇒ every weakly fair run terminates.
* `progress_measure` — (i) for ALL thread counts (pinned drain): after the trigger every non-spin step
  decreases `measure`.
* `shutdown_live_partial_quiet` — all thread counts, under the hypothesis "no GVT round is open or started
  after the first thread observes termination": every fair run brings ALL threads out of the flush loop
  to the second barrier of the drain — the region in which F1 deadlocks is deadlock-free.
* `shutdown_live_partial` — (i)+(iii) put together for all thread counts: with the pinned drain (and no
  time-stamp-0 message left, or the F10 repair) a fair run that never gets stuck returns, having run
  `lp_fini()` exactly once per thread: there is NO livelock; the only way not to return is a deadlock,
  i.e. a failure of (ii) — which F1 shows to be reachable. Deadlock-freedom (ii) itself is the
  hypothesis; for the repaired drain it is established only by bounded model checking (compiled code,
  N ≤ 4, see the check), not by a kernel-checked proof: `DeadlockFreeStatement` is left as a statement.
-/
namespace RootSim.C08
open RootSim.Shutdown RootSim.Fair

/-- **The full statement**: from every reachable state in which termination has been decided, every
schedule that lets every thread run again and again reaches a state where every thread has returned,
and `lp_fini()` ran exactly once on every thread. -/
def ShutdownLiveStatement (v : Variant) : Prop :=
  ∀ (n : Nat) (zq : Bool) (s : St) (f : Nat → Act), Reach v n zq s → triggered s = true → FairSched owns n f →
    ∃ k, final (exec (step v) f s k) = true ∧ finiOnce (exec (step v) f s k) = true

/-! ### Finding F1: a reachable deadlock of the pinned code (2 threads) -/

/-- Both threads complete a GVT computation; thread 0 votes; thread 1 casts the last vote
(`nodes_to_end` becomes 0), leaves the loop while idle, skips the flush loop and enters the barrier of
`gvt_msg_drain`; thread 0, still in the iteration it began before the vote, finds the period elapsed and
starts a new computation, then sees the termination flag, leaves the loop and waits in the flush loop,
in thread phase B, for thread 1 to join — for ever. -/
def f1Sched : List Act :=
  [.run 0 false false, .run 0 true false, .run 0 false false, .run 0 false false, .run 0 false false,
   .run 1 false false, .run 1 false false, .run 1 false false, .run 1 false false, .run 0 false false,
   .run 0 false false, .run 1 false false, .run 1 false false, .run 0 false false, .run 0 false false,
   .run 1 false false, .run 1 false false, .run 0 false false, .run 0 false false, .run 1 false false,
   .run 1 false false, .run 0 false false, .run 0 false false, .run 1 false false, .run 1 false false,
   .run 1 false false, .run 1 false false, .run 0 false false, .run 0 false false, .run 0 false false,
   .run 0 false false, .run 1 false false, .run 1 false false, .run 1 false false, .run 1 false false,
   .run 0 false false, .run 0 false false, .run 1 false false, .run 1 false false, .run 0 false false,
   .run 0 false false, .run 1 false false, .run 1 false false, .run 0 false false, .run 0 false false,
   .run 0 false false, .run 0 false false, .run 1 false false, .run 1 false false, .run 1 false false,
   .run 1 false false,
   .run 0 false true,                       -- thread 0 receives the GVT and votes
   .run 0 false false, .run 0 false false,  -- loop head: not yet decided; next iteration begins
   .run 0 false false, .run 1 false false,
   .run 1 false true,                       -- thread 1 receives the GVT and casts the LAST vote
   .run 1 false false,                      -- thread 1: loop head → leaves the loop
   .run 1 false false,                      -- … node_done, idle
   .run 0 true false,                       -- thread 0 (period elapsed): starts a new computation
   .run 0 false false,                      -- thread 0: loop head → leaves the loop
   .run 0 false false,                      -- flush loop: A → B, c_b = 1
   .run 1 false false,                      -- thread 1: flush loop skipped
   .run 1 false false]                      -- thread 1: arrives at the barrier

/-- the deadlocked state -/
def f1State : St := run pinned (St.init 2) f1Sched

/-- **F1 witness** (kernel-checked): the schedule leads the pinned code into a state where termination
has been decided, no thread has returned, thread 0 is in the flush loop in thread phase B with
`c_b = 1`, thread 1 waits in the first barrier of the drain, and no action of any thread changes
the state any more. -/
theorem f1_deadlock_witness :
    triggered f1State = true ∧ final f1State = false ∧ stuck pinned f1State = true ∧
    f1State.ths.map (fun t => (t.pc, t.tph)) = [(.flush, .B), (.barWait 0, .idle)] ∧
    f1State.cb = 1 ∧ f1State.gvtNodes = 1 := by decide +kernel

/-- … and it stays there under every schedule. -/
theorem f1_stuck_forever (f : Nat → Act) (k : Nat) : exec (step pinned) f f1State k = f1State :=
  stuck_exec pinned f1State f1_deadlock_witness.2.2.1 f k

/-- round robin over `n` threads (a fair schedule) -/
def roundRobin (n : Nat) (tm : Bool) : Nat → Act := fun k => .run (k % n) tm false

theorem roundRobin_fair (n : Nat) (tm : Bool) : FairSched owns n (roundRobin n tm) := by
  intro i hi m
  refine ⟨m * n + i, ?_, ?_⟩
  · have : m ≤ m * n := Nat.le_mul_of_pos_right m (by omega)
    omega
  · show owns (Act.run ((m * n + i) % n) tm false) i
    have : (m * n + i) % n = i := by
      rw [Nat.add_comm, Nat.add_mul_mod_self_right, Nat.mod_eq_of_lt hi]
    rw [this]; rfl

/-- **The full statement is false for the pinned code (deadlock, F1).** -/
theorem f1_counterexample : ¬ ShutdownLiveStatement pinned := by
  intro h
  obtain ⟨k, hk, _⟩ := h 2 false f1State (roundRobin 2 false) (reach_run pinned 2 false f1Sched _ Reach.init)
    f1_deadlock_witness.1 (roundRobin_fair 2 false)
  rw [f1_stuck_forever] at hk
  rw [f1_deadlock_witness.2.1] at hk
  cases hk

/-- The same schedule on the repaired code does not deadlock: continuing round robin, every thread returns. -/
theorem f1_schedule_on_fixed :
    let s := run fixed (St.init 2) f1Sched
    stuck fixed s = false ∧
    final (run fixed s ((List.range 200).map (roundRobin 2 false))) = true ∧
    finiOnce (run fixed s ((List.range 200).map (roundRobin 2 false))) = true := by decide +kernel

/-! ### Finding F10: a reachable fair livelock of the pinned code (1 thread suffices) -/

/-- `RootsimStop` is called while a message with time stamp 0 is still queued (`zq`): the thread leaves
the loop, passes the barriers and enters the first forced round of the drain. -/
def f10Prefix : List Act :=
  [.run 0 false false, .stop 0, .run 0 false false, .run 0 false false, .run 0 false false,
   .run 0 false false, .run 0 false false, .run 0 false false, .run 0 false false]

def f10State : St := run pinned (St.init 1 true) f10Prefix

/-- **F10 witness** (kernel-checked): in `f10State` the only thread is in `while(!gvt_phase_run())` of the
first forced round; a complete GVT computation (15 calls) returns `0.0` and brings the system back to
exactly the same state; none of the states on the way is final. -/
theorem f10_livelock_witness :
    triggered f10State = true ∧ f10State.ths.map (·.pc) = [.forced 0] ∧
    run pinned f10State (List.replicate 15 (.run 0 true false)) = f10State ∧
    (List.range 15).all (fun r => !final (run pinned f10State (List.replicate r (.run 0 true false)))) = true := by
  decide +kernel

theorem exec_const_eq_run (v : Variant) (a : Act) (s : St) (k : Nat) :
    exec (step v) (fun _ => a) s k = run v s (List.replicate k a) := by
  induction k generalizing s with
  | zero => rfl
  | succ k ih =>
    have hrun : ∀ (l : List Act) (s : St), run v s (l ++ [a]) = step v (run v s l) a := by
      intro l; induction l with
      | nil => intro s; rfl
      | cons b l ihl => intro s; simp only [List.cons_append, run]; exact ihl _
    have hrep : List.replicate (k + 1) a = List.replicate k a ++ [a] := by
      rw [List.replicate_succ']
    rw [hrep, hrun, ← ih]; rfl

theorem run_replicate_add (v : Variant) (a : Act) (s : St) (m k : Nat) :
    run v s (List.replicate (m + k) a) = run v (run v s (List.replicate m a)) (List.replicate k a) := by
  induction m generalizing s with
  | zero => simp [run]
  | succ m ih =>
    have : m + 1 + k = (m + k) + 1 := by omega
    rw [this, List.replicate_succ, List.replicate_succ]
    simp only [run]
    exact ih _

/-- **The full statement is false for the pinned code also because of F10** (a fair run that spins for ever
in the drain), independently of F1: one thread suffices. The same holds for a tree that carries only the
F1 repair. -/
theorem f10_counterexample : ¬ ShutdownLiveStatement pinned := by
  intro h
  have hfair : FairSched owns 1 (fun _ => Act.run 0 true false) := by
    intro i hi m; refine ⟨m, Nat.le_refl _, ?_⟩
    have : i = 0 := by omega
    subst this; rfl
  obtain ⟨k, hk, _⟩ := h 1 true f10State (fun _ => .run 0 true false)
    (reach_run pinned 1 true f10Prefix _ Reach.init) f10_livelock_witness.1 hfair
  rw [exec_const_eq_run] at hk
  -- k = 15 q + r: the state after k steps is the state after r steps
  have hper : ∀ q r, run pinned f10State (List.replicate (15 * q + r) (.run 0 true false)) =
      run pinned f10State (List.replicate r (.run 0 true false)) := by
    intro q
    induction q with
    | zero => intro r; simp
    | succ q ih =>
      intro r
      have : 15 * (q + 1) + r = 15 + (15 * q + r) := by omega
      rw [this, run_replicate_add, f10_livelock_witness.2.2.1, ih]
  have hk' := hk
  rw [← Nat.div_add_mod k 15, hper] at hk'
  have hall := f10_livelock_witness.2.2.2
  rw [List.all_eq_true] at hall
  have := hall (k % 15) (List.mem_range.mpr (Nat.mod_lt _ (by omega)))
  rw [hk'] at this
  cases this

/-- with the F10 repair the same situation ends: the forced rounds complete although the GVT is 0 -/
theorem f10_prefix_on_fixed :
    let s := run fixed (St.init 1 true) f10Prefix
    final (run fixed s (List.replicate 60 (.run 0 true false))) = true ∧
    finiOnce (run fixed s (List.replicate 60 (.run 0 true false))) = true := by decide +kernel

/-! ### (i) and the partial liveness theorem, all thread counts -/

/-- **(i) Progress measure** (all thread counts; variants with the pinned drain; `RootsimStop` not called
again): once termination has been decided and a finished GVT computation is recognisable as such, every
step that changes the state strictly decreases `measure`. -/
theorem progress_measure (v : Variant) (hcf : v.closeFix = false) (s : St) (htr : triggered s = true)
    (hz : v.zeroFix = true ∨ s.zq = false) (a : Act) (hns : ∀ i, a ≠ .stop i) (hch : step v s a ≠ s) :
    measure (step v s a) < measure s := by
  rcases step_measure v hcf s htr hz a hns with h | h
  · exact absurd h hch
  · exact h.1

/-- (ii), the statement that is NOT proved for all thread counts: in every reachable state after the trigger
that is not final, some thread is enabled whatever choices the schedule makes for it. False for the pinned
code (`f1_deadlock_witness`). For `fixed` it holds for `N ≤ 4` by exhaustive exploration with the compiled
model (driver mode `shutdownmc`, run by the check). -/
def DeadlockFreeStatement (v : Variant) : Prop :=
  ∀ (n : Nat) (zq : Bool) (s : St), Reach v n zq s → triggered s = true → final s = false →
    ∃ i, i < n ∧ ∀ tm vo, step v s (.run i tm vo) ≠ s

theorem f1_not_deadlock_free : ¬ DeadlockFreeStatement pinned := by
  intro h
  obtain ⟨i, _, hi⟩ := h 2 false f1State (reach_run pinned 2 false f1Sched _ Reach.init)
    f1_deadlock_witness.1 f1_deadlock_witness.2.1
  exact hi false false (stuck_step pinned f1State f1_deadlock_witness.2.2.1 _)

/-- **Partial liveness theorem, all thread counts** (pinned drain). From a reachable state in which
termination has been decided, along a fair schedule that contains no further `RootsimStop`, if no state
of the run is stuck (`hdf`: the instance of (ii) along this run), the run reaches a state in which every
thread has returned and `lp_fini()` has run exactly once on every thread. -/
theorem shutdown_live_partial (v : Variant) (hcf : v.closeFix = false) (n : Nat) (zq : Bool) (s : St)
    (f : Nat → Act) (hreach : Reach v n zq s) (htr : triggered s = true)
    (hz : v.zeroFix = true ∨ s.zq = false) (hnostop : ∀ k i, f k ≠ .stop i) (hfair : FairSched owns n f)
    (hdf : ∀ k, final (exec (step v) f s k) = false →
      ∃ i, i < n ∧ ∀ tm vo, step v (exec (step v) f s k) (.run i tm vo) ≠ exec (step v) f s k) :
    ∃ k, final (exec (step v) f s k) = true ∧ finiOnce (exec (step v) f s k) = true := by
  -- side conditions hold along the run
  have hside : ∀ k, triggered (exec (step v) f s k) = true ∧ (v.zeroFix = true ∨ (exec (step v) f s k).zq = false) := by
    intro k
    induction k with
    | zero => exact ⟨htr, hz⟩
    | succ k ih =>
      rcases step_measure v hcf _ ih.1 ih.2 (f k) (hnostop k) with h | h
      · simp only [exec, h]; exact ih
      · simp only [exec]; exact ⟨h.2.1, h.2.2.1⟩
  have hr : ∀ k, Reach v n zq (exec (step v) f s k) := by
    intro k
    induction k with
    | zero => exact hreach
    | succ k ih => exact Reach.step (f k) ih
  obtain ⟨k, hk⟩ := fair_terminates_run (step v) owns n (fun s => final s = true) measure f s
    (fun k hne => by
      rcases step_measure v hcf _ (hside k).1 (hside k).2 (f k) (hnostop k) with h | h
      · exact absurd h hne
      · simp only [exec]; exact h.1)
    (fun k hnf => by
      have hf : final (exec (step v) f s k) = false := by
        cases h : final (exec (step v) f s k)
        · rfl
        · exact absurd h hnf
      obtain ⟨i, hi, hen⟩ := hdf k hf
      refine ⟨i, hi, ?_⟩
      intro a ha
      cases a with
      | run j tm vo =>
        have : j = i := ha
        subst this; exact hen tm vo
      | stop j => exact absurd ha (by simp [owns])
      | zero => exact absurd ha (by simp [owns]))
    hfair
  exact ⟨k, hk, final_finiOnce _ (reach_finiOk v n zq _ (hr k)) hk⟩

/-- the step relation restricted by the two hypotheses either changes nothing or is a step of the model -/
theorem stepQ_measure (v : Variant) (hcf : v.closeFix = false) (s : St) (htr : triggered s = true)
    (hz : v.zeroFix = true ∨ s.zq = false) (a : Act) :
    stepQ v s a = s ∨
    (measure (stepQ v s a) < measure s ∧ triggered (stepQ v s a) = true ∧
      (v.zeroFix = true ∨ (stepQ v s a).zq = false) ∧ (stepQ v s a).n = s.n) := by
  cases a with
  | stop i => left; rfl
  | zero => exact step_measure v hcf s htr hz .zero (fun i h => by cases h)
  | run i tm vo => exact step_measure v hcf s htr hz (.run i false vo) (fun j h => by cases h)

/-- **`shutdown_live_partial` for the F1 region, all thread counts, under the hypothesis of the brief**: if, when
termination has been decided, no GVT round is open (`Quiet`: every thread idle in the GVT machine,
`gvt_nodes = 0`, every thread between the loop head and the second barrier of the drain) and no round is
started afterwards (`stepQ`: thread 0's timer does not fire in the worker loop any more; no further
`RootsimStop`), then under every fair schedule ALL threads leave the flush loop and arrive at the second
barrier of `gvt_msg_drain`: the deadlock F1 cannot occur. (What follows the milestone — the two forced GVT
computations — is covered by `shutdown_live_partial` modulo deadlock-freedom of a GVT computation in which
all threads take part.) -/
theorem shutdown_live_partial_quiet (v : Variant) (hcf : v.closeFix = false) (s : St) (f : Nat → Act)
    (htr : triggered s = true) (hq : Quiet s) (hz : v.zeroFix = true ∨ s.zq = false)
    (hfair : FairSched owns s.n f) :
    ∃ k, milestone (exec (stepQ v) f s k) = true := by
  by_cases hex : ∃ k, milestone (exec (stepQ v) f s k) = true
  · exact hex
  · have hno : ∀ k, milestone (exec (stepQ v) f s k) = false := by
      intro k
      cases h : milestone (exec (stepQ v) f s k)
      · rfl
      · exact absurd ⟨k, h⟩ hex
    have hside : ∀ k, triggered (exec (stepQ v) f s k) = true ∧
        (v.zeroFix = true ∨ (exec (stepQ v) f s k).zq = false) ∧ (exec (stepQ v) f s k).n = s.n ∧
        Quiet (exec (stepQ v) f s k) := by
      intro k
      induction k with
      | zero => exact ⟨htr, hz, rfl, hq⟩
      | succ k ih =>
        obtain ⟨h1, h2, h3, h4⟩ := ih
        have hq' : Quiet (exec (stepQ v) f s (k + 1)) := by
          rcases quiet_step v hcf _ h1 h4 (f k) with h | h
          · exact h
          · have := hno (k + 1); simp only [exec] at this; rw [h] at this; cases this
        rcases stepQ_measure v hcf _ h1 h2 (f k) with h | h
        · refine ⟨?_, ?_, ?_, hq'⟩ <;> simp only [exec, h] <;> assumption
        · exact ⟨by simp only [exec]; exact h.2.1, by simp only [exec]; exact h.2.2.1,
            by simp only [exec]; rw [h.2.2.2]; exact h3, hq'⟩
    exact fair_terminates_run (stepQ v) owns s.n (fun s => milestone s = true) measure f s
      (fun k hne => by
        obtain ⟨h1, h2, _, _⟩ := hside k
        rcases stepQ_measure v hcf _ h1 h2 (f k) with h | h
        · exact absurd h hne
        · simp only [exec]; exact h.1)
      (fun k _ => by
        obtain ⟨h1, _, h3, h4⟩ := hside k
        obtain ⟨i, hi, hen⟩ := quiet_live v hcf _ h1 h4 (hno k)
        exact ⟨i, by rw [← h3]; exact hi, hen⟩)
      hfair

/-- non-vacuity: the state right after the last vote of a run in which both threads were idle is quiet -/
example : let s := run pinned (St.init 2) [.run 0 false false, .run 1 false false, .stop 1]
    triggered s = true ∧ Quiet s ∧ milestone s = false := by
  refine ⟨by decide +kernel, ⟨by decide +kernel, by decide +kernel, ?_⟩, by decide +kernel⟩
  intro t ht
  have : t = { pc := .body } := by
    revert ht; simp [run, step, runTh, setTh, St.init]
  subst this
  exact ⟨rfl, Or.inr (Or.inl ⟨rfl, rfl⟩)⟩

/-- `LP_FINI` exactly once, for every variant and every thread count: whenever every thread has returned. -/
theorem lp_fini_once (v : Variant) (n : Nat) (zq : Bool) (s : St) (h : Reach v n zq s) (hf : final s = true) :
    finiOnce s = true :=
  final_finiOnce s (reach_finiOk v n zq s h) hf

/-! Non-vacuity of `shutdown_live_partial`: one thread, pinned code, termination by `RootsimStop`; the
constant schedule is fair, contains no `stop`, and no state before the final one (reached after 40
steps) is stuck. -/

theorem final_absorbing (v : Variant) (s : St) (h : final s = true) (i : Nat) (tm vo : Bool) :
    step v s (.run i tm vo) = s := by
  simp only [step]
  split
  · rename_i t ht
    simp only [final, List.all_eq_true, beq_iff_eq] at h
    have := h t (List.mem_of_getElem? ht)
    simp [runTh, this]
  · rfl

def exStart : St := run pinned (St.init 1) [.run 0 false false, .stop 0, .run 0 false false]

example : ∃ K, final (run pinned exStart (List.replicate K (.run 0 true false))) = true ∧
    (List.range K).all (fun k =>
      let s := run pinned exStart (List.replicate k (.run 0 true false))
      !final s && (step pinned s (.run 0 true false) != s) && (step pinned s (.run 0 false false) != s)) = true ∧
    triggered exStart = true ∧ exStart.zq = false :=
  ⟨40, by decide +kernel, by decide +kernel, by decide +kernel, by decide +kernel⟩

end RootSim.C08
