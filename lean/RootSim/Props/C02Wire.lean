import RootSim.Model.Wire
/-!
# C02 (wire level): size-based demultiplexing of MPI messages is unambiguous

For every layout satisfying `Layout.ok` (checked against the real headers on every run) and every payload size, a control
message, an anti-message and an event are each classified as what they are.
-/
namespace RootSim.C02.Wire
open RootSim.Wire

theorem control_classified (L : Layout) (h : L.ok) : classify L L.ctrlSz = .control := by
  obtain ⟨_, _, h3⟩ := h
  unfold classify; simp [Nat.le_of_lt h3]

theorem anti_classified (L : Layout) (h : L.ok) : classify L L.antiSize = .anti := by
  obtain ⟨_, _, h3⟩ := h
  unfold classify
  have : ¬ L.antiSize = L.ctrlSz := by omega
  simp [this]

theorem event_classified (L : Layout) (h : L.ok) (pl : Nat) : classify L (L.eventSize pl) = .event := by
  obtain ⟨h1, h2, _⟩ := h
  unfold classify Layout.eventSize Layout.antiSize
  have : ¬ (L.offPl - L.offDest + pl ≤ L.offMSeq - L.offDest + 4) := by omega
  simp [this]

/-- the three kinds have pairwise different sizes, whatever the payload -/
theorem sizes_distinct (L : Layout) (h : L.ok) (pl : Nat) :
    L.ctrlSz ≠ L.antiSize ∧ L.antiSize ≠ L.eventSize pl ∧ L.ctrlSz ≠ L.eventSize pl := by
  obtain ⟨h1, h2, h3⟩ := h
  unfold Layout.eventSize Layout.antiSize at *
  omega

/-- non-vacuity: the layout of the NDEBUG build on x86-64 -/
example : (⟨8, 28, 40, 4⟩ : Layout).ok := by decide

end RootSim.C02.Wire
