import RootSim.Proofs.RandGamma
import RootSim.Props.C18
/-!
# C18 — `Gamma(ia)`, the rejection branch (`ia ≥ 6`), both code versions (finding F14)

Property: "`Gamma` is finite and non-negative for every generator state".

* Pinned code (`fixed = false`, inner loop `while(v1 * v1 + v2 * v2 > 1.0)`): FALSE.
  `v1 = Random()` can be exactly `0.0`; then `y = v2 / v1` is a division by zero and the function
  returns `+inf` (`v2 > 0`) or NaN (`v2 == 0`): two kernel-checked counter-examples.
* Repaired code (`fixed = true`, `while(v1 == 0.0 || …)`): TRUE, for every order
  `6 ≤ ia < 2^32`, every generator state, every fuel of the two loops, every libm with
  `LibmLaws2`: whenever the function returns, the value is finite and in `[0, 2^100]`, no division
  by zero was evaluated, and the generator advanced by exactly the calls of `Random()` made.

`*`, `+`, `-`, `/` and the comparisons are the concrete binary64 operations of `Model/Float.lean`
(no `FloatLaws` assumed); `sqrt`/`exp`/`log` are constrained by `LibmLaws2` only (`log` not at all).
**Termination of the two rejection loops is NOT claimed**: the theorems are about the runs that
return ("for every fuel").
-/
namespace RootSim.C18
open RootSim RootSim.Rand RootSim.Float

/-! ## F14 on the pinned code -/

/-- the generator state of finding F14 (first raw output 0, reproduced on the real code:
`Gamma(7) = inf`) -/
def f14State : Rng := ⟨0x3c6ef372fe94f82a, 0, 0x7eb08eda39c9cb72, 0x94d049bb133111e9⟩

/-- a state whose first two raw outputs are `0` and `2^63`: `v1 = 0.0`, `v2 = 2 * 0.5 - 1 = 0.0` -/
def f14NanState : Rng := ⟨0, 0, craftS1 (2 ^ 63), 5⟩

/-- `+inf * exp(..)` is `+inf` or NaN when `exp(..)` is not negative; `Random() > ` that is false -/
theorem gt_inf_mul_false (r : FVal) (E : FVal) (hr : ∃ m s, r = .fin m s) (hE : E.isNegF = false) :
    FVal.gt r (FVal.mul (.inf false) E) = false := by
  obtain ⟨m, s, rfl⟩ := hr
  cases E with
  | fin b t =>
    simp only [FVal.isNegF, decide_eq_false_iff_not] at hE
    by_cases hb : b = 0
    · simp [FVal.mul, hb, FVal.gt]
    · simp [FVal.mul, hb, hE, FVal.gt]
  | inf n =>
    simp only [FVal.isNegF] at hE
    subst hE
    simp [FVal.mul, FVal.gt]
  | nan => simp [FVal.mul, FVal.gt]

/-- the pass of the outer loop that follows an inner loop ending with `v1 = 0.0`, `v2 > 0`,
order 7: `y = +inf`, `s = +inf`, `x = +inf`, `x < 0.0` is false, the acceptance test compares with
`+inf` or NaN and is false: `return x` -/
theorem pinned_inf_of_draws (f : BitsFn) (L : Libm) (hL : LibmLaws2 L) (g : Rng) (fi fo : Nat)
    (v2 r3 : FVal) (g1 g2 g3 : Rng)
    (h1 : random f g = .ok (.fin 0 0, g1)) (h2 : random f g1 = .ok (v2, g2))
    (h3 : random f g2 = .ok (r3, g3)) (hr3 : ∃ m s, r3 = .fin m s)
    (hc : gammaInnerCond false (.fin 0 0) (gammaV2 v2) = false)
    (hy : gammaY (.fin 0 0) (gammaV2 v2) = .inf false) :
    gammaBig f L false 7 (fi + 1) (fo + 1) g = .ok (⟨some (.inf false), 3, true⟩, g3) := by
  have hin : gammaInner f false (fi + 1) g = .ok ((some (.fin 0 0, gammaV2 v2), 1), g2) := by
    simp [gammaInner, bind, Except.bind, h1, h2, hc, pure, Except.pure]
  obtain ⟨a, t, hsq, ha, _⟩ := hL.sqrt_ge_one 13 0 (by omega)
  have harg : gammaSqArg (gammaAm 7) = .fin ((13 : Nat) : Int) 0 := gammaSqArg_eq 7 (by omega)
  have ha0 : ¬ (a = 0) := by
    have := Nat.two_pow_pos t
    omega
  have haneg : ¬ ((a : Int) < 0) := by omega
  have hs : FVal.mul (L.sqrt (gammaSqArg (gammaAm 7))) (.inf false) = .inf false := by
    rw [harg, hsq]
    simp [FVal.mul, ha0, haneg]
  have hx : FVal.add (.inf false) (gammaAm 7) = .inf false := rfl
  have hlt : FVal.lt (.inf false) FVal.zero = false := rfl
  have hrhs : ∀ s x, FVal.gt r3 (gammaRhs L (gammaAm 7) (.inf false) s x) = false := by
    intro s x
    have : FVal.add FVal.one (FVal.mul (.inf false) (.inf false)) = .inf false := rfl
    simp only [gammaRhs, this]
    exact gt_inf_mul_false r3 _ hr3 (hL.exp_not_neg _)
  have hit : gammaBigIter f L false (gammaAm 7) (fi + 1) g = .ok (⟨.ret (.inf false), 3, true⟩, g3) := by
    simp [gammaBigIter, bind, Except.bind, hin, hy, hs, hx, hlt, h3, hrhs, pure, Except.pure, FVal.isZero]
  simp [gammaBig, gammaBigLoop, bind, Except.bind, hit, pure, Except.pure]

/-- **F14, kernel-checked: on the pinned code `Gamma(7)` returns `+inf`** on the generator state
`f14State` (3 calls of `Random()`, one division by zero), whatever the libm is as long as
`sqrt(13)` is finite `≥ 1` and `exp` is never negative (`LibmLaws2`), for every non-zero fuel. -/
theorem gamma_big_pinned_counterexample (L : Libm) (hL : LibmLaws2 L) (fi fo : Nat) :
    f14State.WF ∧
    gammaBig randomBits L false 7 (fi + 1) (fo + 1) f14State =
      .ok (⟨some (.inf false), 3, true⟩, advance 3 f14State) := by
  refine ⟨by decide, ?_⟩
  exact pinned_inf_of_draws randomBits L hL f14State fi fo (.fin 4997738579501159 53)
    (.fin 6875623836524916 53) (advance 1 f14State) (advance 2 f14State) (advance 3 f14State)
    (by decide +kernel) (by decide +kernel) (by decide +kernel) ⟨_, _, rfl⟩ (by decide +kernel) (by decide +kernel)

/-- the same with the `Random()` of `repo_patches/random_shift_ub.diff` (F3 repaired, F14 not) -/
theorem gamma_big_pinned_counterexample_fs (L : Libm) (hL : LibmLaws2 L) (fi fo : Nat) :
    gammaBig randomBitsFixed L false 7 (fi + 1) (fo + 1) f14State =
      .ok (⟨some (.inf false), 3, true⟩, advance 3 f14State) :=
  pinned_inf_of_draws randomBitsFixed L hL f14State fi fo (.fin 4997738579501159 53)
    (.fin 6875623836524916 53) (advance 1 f14State) (advance 2 f14State) (advance 3 f14State)
    (by decide +kernel) (by decide +kernel) (by decide +kernel) ⟨_, _, rfl⟩ (by decide +kernel) (by decide +kernel)

/-- **F14, second form: `0.0 / 0.0`. On the pinned code `Gamma(ia)` returns NaN** on
`f14NanState`, for EVERY order and EVERY libm (no law needed: NaN propagates through `*`, `+`
and every comparison with NaN is false). -/
theorem gamma_big_pinned_nan_counterexample (L : Libm) (ia fi fo : Nat) :
    f14NanState.WF ∧
    gammaBig randomBits L false ia (fi + 1) (fo + 1) f14NanState =
      .ok (⟨some .nan, 3, true⟩, advance 3 f14NanState) := by
  refine ⟨by decide, ?_⟩
  have h1 : random randomBits f14NanState = .ok (.fin 0 0, advance 1 f14NanState) := by decide +kernel
  have h2 : random randomBits (advance 1 f14NanState) = .ok (.fin 4503599627370496 53, advance 2 f14NanState) := by
    decide +kernel
  have h3 : random randomBits (advance 2 f14NanState) = .ok (.fin 7916483719987200 102, advance 3 f14NanState) := by
    decide +kernel
  have hc : gammaInnerCond false (.fin 0 0) (gammaV2 (.fin 4503599627370496 53)) = false := by decide +kernel
  have hy : gammaY (.fin 0 0) (gammaV2 (.fin 4503599627370496 53)) = .nan := by decide +kernel
  have hin : gammaInner randomBits false (fi + 1) f14NanState =
      .ok ((some (.fin 0 0, gammaV2 (.fin 4503599627370496 53)), 1), advance 2 f14NanState) := by
    simp [gammaInner, bind, Except.bind, h1, h2, hc, pure, Except.pure]
  have hmul : ∀ v, FVal.mul v .nan = .nan := by
    intro v; cases v <;> rfl
  have hadd : ∀ v, FVal.add .nan v = .nan := by
    intro v; cases v <;> rfl
  have hadd' : ∀ v, FVal.add v .nan = .nan := by
    intro v; cases v <;> rfl
  have hgt : ∀ v, FVal.gt v .nan = false := by
    intro v; cases v <;> rfl
  have hrhs : ∀ am s x, gammaRhs L am .nan s x = .nan := by
    intro am s x
    simp only [gammaRhs, hmul, hadd']
    rfl
  have hit : gammaBigIter randomBits L false (gammaAm ia) (fi + 1) f14NanState =
      .ok (⟨.ret .nan, 3, true⟩, advance 3 f14NanState) := by
    have hlt : FVal.lt .nan FVal.zero = false := rfl
    simp [gammaBigIter, bind, Except.bind, hin, hy, hmul, hadd, hlt, h3, hrhs, hgt, pure, Except.pure,
      FVal.isZero]
  simp [gammaBig, gammaBigLoop, bind, Except.bind, hit, pure, Except.pure]

/-! ## the repaired code -/

/-- **`Gamma(ia)`, `6 ≤ ia < 2^32`, repaired code: whenever it returns, the value is finite and in
`[0, 2^100]`; no division by zero; the generator advanced by exactly the `draws` calls of
`Random()` made** (at most `2 fi + 1` per pass of the outer loop). For every generator state,
every fuel `fi` (inner loop) and `fo` (outer loop), every bits function with `GoodBits` (either
that, or `Random()` itself was undefined: possible with the pinned `Random()` only, finding F3). -/
theorem gamma_big_finite_nonneg (f : BitsFn) (hf : GoodBits f) (L : Libm) (hL : LibmLaws2 L) (ia : Nat)
    (_h6 : 6 ≤ ia) (h32 : ia < 2 ^ 32) (fi fo : Nat) (g : Rng) :
    (∃ r, gammaBig f L true ia fi fo g = .ok (r, advance r.draws g) ∧ r.draws ≤ (2 * fi + 1) * fo ∧
        r.divZero = false ∧ ∀ v, r.value = some v → FVal.FinNonneg v ∧ FinNonnegLe 100 v) ∨
    (∃ e, gammaBig f L true ia fi fo g = .error e) := by
  rcases gammaBigLoop_cases f hf L hL true ia h32 fi fo g with ⟨r, h, hd, hz, hv⟩ | h
  · refine .inl ⟨r, h, hd, hz rfl, ?_⟩
    intro v hval
    have := hv (hz rfl) v hval
    exact ⟨finNonneg_of_le this, this⟩
  · exact .inr h

/-- with the repaired `Random()` as well: never undefined -/
theorem gamma_big_fixed_total (L : Libm) (hL : LibmLaws2 L) (ia : Nat) (h6 : 6 ≤ ia) (h32 : ia < 2 ^ 32)
    (fi fo : Nat) (g : Rng) :
    ∃ r, gammaBig randomBitsFixed L true ia fi fo g = .ok (r, advance r.draws g) ∧
      r.draws ≤ (2 * fi + 1) * fo ∧ r.divZero = false ∧ ∀ v, r.value = some v → FVal.FinNonneg v := by
  have key : ∀ (fo : Nat) (g : Rng) (e : UB), gammaBigLoop randomBitsFixed L true (gammaAm ia) fi fo g ≠ .error e := by
    -- no call of `Random()` fails
    have hrand : ∀ g, ∃ r, random randomBitsFixed g = .ok (r, advance 1 g) := fun g =>
      let ⟨r, h, _⟩ := random_total _ goodBits_fixed total_fixed g; ⟨r, h⟩
    have hinner : ∀ (fi : Nat) (g : Rng) (e : UB), gammaInner randomBitsFixed true fi g ≠ .error e := by
      intro fi
      induction fi with
      | zero => intro g e h; cases h
      | succ fi ih =>
        intro g e h
        obtain ⟨r1, h1⟩ := hrand g
        obtain ⟨r2, h2⟩ := hrand (advance 1 g)
        simp only [gammaInner, bind, Except.bind, h1, h2] at h
        split at h
        · cases hr : gammaInner randomBitsFixed true fi (advance 1 (advance 1 g)) with
          | ok p => rw [hr] at h; cases h
          | error e' => exact ih _ _ hr
        · cases h
    have hiter : ∀ (g : Rng) (e : UB), gammaBigIter randomBitsFixed L true (gammaAm ia) fi g ≠ .error e := by
      intro g e h
      cases hr : gammaInner randomBitsFixed true fi g with
      | error e' => exact hinner _ _ _ hr
      | ok p =>
        obtain ⟨⟨o, k⟩, g1⟩ := p
        obtain ⟨r3, h3⟩ := hrand g1
        cases o with
        | none => simp [gammaBigIter, bind, Except.bind, hr, pure, Except.pure] at h
        | some vv =>
          obtain ⟨v1, v2⟩ := vv
          simp only [gammaBigIter, bind, Except.bind, hr, h3, pure, Except.pure] at h
          split at h
          · cases h
          · split at h <;> cases h
    intro fo
    induction fo with
    | zero => intro g e h; cases h
    | succ fo ih =>
      intro g e h
      cases hr : gammaBigIter randomBitsFixed L true (gammaAm ia) fi g with
      | error e' => exact hiter _ _ hr
      | ok p =>
        obtain ⟨⟨out, d, z⟩, g1⟩ := p
        cases out with
        | ret x => simp [gammaBigLoop, bind, Except.bind, hr, pure, Except.pure] at h
        | stuck => simp [gammaBigLoop, bind, Except.bind, hr, pure, Except.pure] at h
        | again =>
          cases hr2 : gammaBigLoop randomBitsFixed L true (gammaAm ia) fi fo g1 with
          | error e' => exact ih _ _ hr2
          | ok q => simp [gammaBigLoop, bind, Except.bind, hr, hr2, pure, Except.pure] at h
  rcases gamma_big_finite_nonneg _ goodBits_fixed L hL ia h6 h32 fi fo g with ⟨r, h, hd, hz, hv⟩ | ⟨e, h⟩
  · exact ⟨r, h, hd, hz, fun v hval => (hv v hval).1⟩
  · exact absurd h (key fo g e)

/-- what is true of the PINNED code: the same conclusion for the runs in which no division by
zero was evaluated (`…_partial`: the missing part is false, see the counter-examples) -/
theorem gamma_big_pinned_partial (f : BitsFn) (hf : GoodBits f) (L : Libm) (hL : LibmLaws2 L) (ia : Nat)
    (_h6 : 6 ≤ ia) (h32 : ia < 2 ^ 32) (fi fo : Nat) (g : Rng) :
    (∃ r, gammaBig f L false ia fi fo g = .ok (r, advance r.draws g) ∧ r.draws ≤ (2 * fi + 1) * fo ∧
        (r.divZero = false → ∀ v, r.value = some v → FVal.FinNonneg v)) ∨
    (∃ e, gammaBig f L false ia fi fo g = .error e) := by
  rcases gammaBigLoop_cases f hf L hL false ia h32 fi fo g with ⟨r, h, hd, _, hv⟩ | h
  · exact .inl ⟨r, h, hd, fun hz v hval => finNonneg_of_le (hv hz v hval)⟩
  · exact .inr h

/-- The C18 clause for the rejection branch, for a code version: "IF the function returns a value
THEN it is finite and `≥ 0`, no division by zero happened, and the generator advanced by exactly
the draws made". -/
def GammaBigStatement (fixed : Bool) : Prop :=
  ∀ (f : BitsFn) (L : Libm) (ia fi fo : Nat) (g : Rng) (r : GammaRes) (g' : Rng),
    GoodBits f → LibmLaws2 L → 6 ≤ ia → ia < 2 ^ 32 →
    gammaBig f L fixed ia fi fo g = .ok (r, g') →
    g' = advance r.draws g ∧ r.divZero = false ∧ ∀ v, r.value = some v → FVal.FinNonneg v

/-- `toyLibm` (`sqrt x = 2^⌊⌊log2 x⌋/2⌋`, `exp x = 1`) satisfies the assumed laws: they are
satisfiable -/
theorem toyLibm_laws2 : LibmLaws2 toyLibm where
  sqrt_ge_one := by
    intro m s h
    have hm0 : m ≠ 0 := by
      intro h0; subst h0
      have := Nat.two_pow_pos s
      omega
    have hb := pow_bitlen_le hm0
    have hlt := bitlen_lt m
    have hs : s < bitlen m := (Nat.pow_lt_pow_iff_right (by omega)).1 (Nat.lt_of_le_of_lt h hlt)
    refine ⟨2 ^ ((bitlen m - 1 - s) / 2), 0, ?_, Nat.one_le_two_pow, ?_⟩
    · simp [toyLibm, hm0]
    · have h1 : 2 ^ ((bitlen m - 1 - s) / 2) ≤ 2 ^ (bitlen m - 1 - s) :=
        Nat.pow_le_pow_right (by omega) (Nat.div_le_self _ _)
      have h2 : 2 ^ (bitlen m - 1 - s) * 2 ^ s = 2 ^ (bitlen m - 1) := by
        rw [← Nat.pow_add]; congr 1; omega
      calc 2 ^ ((bitlen m - 1 - s) / 2) * 2 ^ s ≤ 2 ^ (bitlen m - 1 - s) * 2 ^ s := Nat.mul_le_mul_right _ h1
        _ = 2 ^ (bitlen m - 1) := h2
        _ ≤ m := hb
        _ = m * 2 ^ 0 := by simp
  exp_not_neg := by
    intro v
    cases v <;> rfl

/-- the clause is FALSE for the pinned code … -/
theorem gammaBigStatement_pinned_refuted : ¬ GammaBigStatement false := by
  intro h
  have hc := (gamma_big_pinned_counterexample toyLibm toyLibm_laws2 0 0).2
  obtain ⟨_, hz, _⟩ := h randomBits toyLibm 7 1 1 f14State _ _ goodBits_pinned toyLibm_laws2 (by omega) (by omega) hc
  cases hz

/-- … and TRUE for the repaired code -/
theorem gammaBigStatement_fixed : GammaBigStatement true := by
  intro f L ia fi fo g r g' hf hL h6 h32 h
  rcases gamma_big_finite_nonneg f hf L hL ia h6 h32 fi fo g with ⟨r', h', _, hz, hv⟩ | ⟨e, h'⟩
  · rw [h'] at h
    injection h with h
    injection h with hr hg
    subst hr; subst hg
    exact ⟨rfl, hz, fun v hval => (hv v hval).1⟩
  · rw [h'] at h; cases h

/-! ## the whole function -/

/-- **The C18 clause for `Gamma`, every order `ia < 2^32` (both branches)**, for a code version. -/
def GammaStatementFull (fixed : Bool) : Prop :=
  ∀ (f : BitsFn) (L : Libm) (ia fi fo : Nat) (g : Rng) (r : GammaRes) (g' : Rng),
    GoodBits f → LibmLaws L → LibmLaws2 L → ia < 2 ^ 32 →
    gamma f L fixed ia fi fo g = .ok (r, g') →
    g' = advance r.draws g ∧ r.divZero = false ∧ ∀ v, r.value = some v → FVal.FinNonneg v

/-- **repaired code: `Gamma(ia)` is finite and non-negative whenever it returns, for every order**
(`ia < 6`: `gamma_small_nonneg_finite`, always returns; `ia ≥ 6`: `gamma_big_finite_nonneg`) -/
theorem gamma_statement_fixed : GammaStatementFull true := by
  intro f L ia fi fo g r g' hf hL hL2 h32 h
  by_cases hia : ia < 6
  · rcases gamma_small_nonneg_finite f hf L hL ia hia g with ⟨v, hs, _, hv⟩ | ⟨e, hs⟩
    · simp only [gamma, hs] at h
      injection h with h
      injection h with hr hg
      subst hr; subst hg
      refine ⟨rfl, rfl, ?_⟩
      intro v' hv'
      injection hv' with hv'
      subst hv'; exact hv
    · simp only [gamma, hs] at h
      cases h
  · have hnone : gammaSmall f L ia g = none := by simp [gammaSmall, hia]
    simp only [gamma, hnone] at h
    exact gammaBigStatement_fixed f L ia fi fo g r g' hf hL2 (by omega) h32 h

/-- pinned code: the clause for the whole function is false (order 7) -/
theorem gammaStatementFull_pinned_refuted : ¬ GammaStatementFull false := by
  intro h
  have hc := (gamma_big_pinned_counterexample toyLibm toyLibm_laws2 0 0).2
  have hg : gamma randomBits toyLibm false 7 1 1 f14State =
      .ok (⟨some (.inf false), 3, true⟩, advance 3 f14State) := by
    have hnone : gammaSmall randomBits toyLibm 7 f14State = none := by simp [gammaSmall]
    simp only [gamma, hnone]
    exact hc
  obtain ⟨_, hz, _⟩ := h randomBits toyLibm 7 1 1 f14State _ _ goodBits_pinned toyLibm_laws toyLibm_laws2 (by omega) hg
  cases hz

/-! ## Non-vacuity -/

/-- the repaired model returns a finite positive value (`≈ 3.5`) on the F14 state, after 7 calls
of `Random()` (the pass with `v1 = 0.0` is rejected by the inner loop), with the lawful `toyLibm` -/
example : gammaBig randomBitsFixed toyLibm true 7 8 8 f14State =
    .ok (⟨some (.fin 126416266235248400 55), 7, false⟩, advance 7 f14State) := by decide +kernel

/-- a large order on an ordinary state; both `Random()` versions -/
example : gammaBig randomBits toyLibm true 100000 8 8 ⟨1, 2, 3, 4⟩ =
    .ok (⟨some (.fin 868041657304401313792 53), 7, false⟩, advance 7 ⟨1, 2, 3, 4⟩) := by decide +kernel

/-- the whole function dispatches on `ia` -/
example : (gamma randomBitsFixed toyLibm true 3 8 8 f14State).map (fun p => p.1.draws) = .ok 3 ∧
    (gamma randomBitsFixed toyLibm true 7 8 8 f14State).map (fun p => p.1.draws) = .ok 7 := by decide +kernel

example : LibmLaws toyLibm ∧ LibmLaws2 toyLibm ∧ GoodBits randomBitsFixed ∧ (6 : Nat) ≤ 7 ∧ (7 : Nat) < 2 ^ 32 :=
  ⟨toyLibm_laws, toyLibm_laws2, goodBits_fixed, by omega, by omega⟩

end RootSim.C18
