import RootSim.Proofs.MsgOrder
/-!
# C16 — the event order is a strict weak order with a content-only tie-break

All theorems quantify over *every* message (whole `struct lp_msg`, every field,
payloads of every length), under the single well-formedness hypothesis that the
buffer really holds `pl_size` bytes.
-/
namespace RootSim.C16
open RootSim

/-- incomparability in the event order -/
def incomp (a b : Msg) : Prop := isBefore a b = false ∧ isBefore b a = false

theorem irrefl (a : Msg) : isBefore a a = false := by
  simp [isBefore, isBeforeExt, memcmpGt_irrefl]

theorem asymm (a b : Msg) (h : isBefore a b = true) : isBefore b a = false := by
  rw [← Bool.not_eq_true]
  intro h'
  rw [isBefore_iff] at h h'
  rcases h with h | ⟨_, h | ⟨_, h | ⟨_, h | ⟨_, h⟩⟩⟩⟩ <;>
  rcases h' with h' | ⟨_, h' | ⟨_, h' | ⟨_, h' | ⟨_, h'⟩⟩⟩⟩ <;> try omega
  rw [memcmpGt_asymm _ _ h] at h'; exact Bool.noConfusion h'

/-- **Incomparable events have identical content** (and conversely): the fact the comment in
`msg.h` relies on ("the two messages will necessarily induce the same state change"). -/
theorem incomp_iff_content_eq (a b : Msg) (ha : a.WF) (hb : b.WF) :
    incomp a b ↔ a.content = b.content := by
  constructor
  · rintro ⟨h1, h2⟩
    rw [← Bool.not_eq_true, isBefore_iff] at h1 h2
    have ht : a.destT = b.destT := by omega
    have han : a.anti = b.anti := by omega
    have hty : a.mType = b.mType := by omega
    have hs : a.plSize = b.plSize := by omega
    have m1 : memcmpGt a.body b.body = false := by
      rw [← Bool.not_eq_true]; intro hm; apply h1; simp [ht, han, hty, hs, hm]
    have m2 : memcmpGt b.body a.body = false := by
      rw [← Bool.not_eq_true]; intro hm; apply h2; simp [ht, han, hty, hs, hm]
    have hl : a.body.length = b.body.length := by
      rw [Msg.body_length a ha, Msg.body_length b hb, hs]
    have hbody := memcmpGt_total _ _ hl m1 m2
    simp [Msg.content, ht, han, hty, hs, hbody]
  · intro h
    simp only [Msg.content, Prod.mk.injEq] at h
    obtain ⟨ht, han, hty, hs, hbody⟩ := h
    constructor <;> simp [isBefore, isBeforeExt, ht, han, hty, hs, hbody, memcmpGt_irrefl]

/-- **Content-only**: the order is a function of the two contents; addresses, `next`, sender,
sequence number, id bits of `raw_flags`, bytes beyond `pl_size` cannot influence it. -/
theorem content_only (a a' b b' : Msg) (ha : a.content = a'.content) (hb : b.content = b'.content) :
    isBefore a b = isBefore a' b' := by
  simp only [Msg.content, Prod.mk.injEq] at ha hb
  obtain ⟨h1, h2, h3, h4, h5⟩ := ha
  obtain ⟨g1, g2, g3, g4, g5⟩ := hb
  simp [isBefore, isBeforeExt, h1, h2, h3, h4, h5, g1, g2, g3, g4, g5]

theorem trans (a b c : Msg) (ha : a.WF) (hb : b.WF) (hc : c.WF)
    (h1 : isBefore a b = true) (h2 : isBefore b c = true) : isBefore a c = true := by
  rw [isBefore_iff] at *
  rcases h1 with h1 | ⟨t1, h1 | ⟨x1, h1 | ⟨y1, h1 | ⟨z1, h1⟩⟩⟩⟩ <;>
  rcases h2 with h2 | ⟨t2, h2 | ⟨x2, h2 | ⟨y2, h2 | ⟨z2, h2⟩⟩⟩⟩ <;>
  first
  | (left; omega)
  | (right; refine ⟨by omega, ?_⟩; left; omega)
  | (right; refine ⟨by omega, ?_⟩; right; refine ⟨by omega, ?_⟩; left; omega)
  | (right; refine ⟨by omega, ?_⟩; right; refine ⟨by omega, ?_⟩; right; refine ⟨by omega, ?_⟩; left; omega)
  | skip
  right; refine ⟨by omega, ?_⟩; right; refine ⟨by omega, ?_⟩; right; refine ⟨by omega, ?_⟩
  right; refine ⟨by omega, ?_⟩
  have l1 : a.body.length = b.body.length := by
    rw [Msg.body_length a ha, Msg.body_length b hb, z1]
  have l2 : b.body.length = c.body.length := by
    rw [Msg.body_length b hb, Msg.body_length c hc, z2]
  exact memcmpGt_trans _ _ _ l1 l2 h1 h2

/-- incomparability is transitive ⇒ together with `irrefl`, `trans`: a strict weak order -/
theorem incomp_trans (a b c : Msg) (ha : a.WF) (hb : b.WF) (hc : c.WF)
    (h1 : incomp a b) (h2 : incomp b c) : incomp a c := by
  rw [incomp_iff_content_eq a b ha hb] at h1
  rw [incomp_iff_content_eq b c hb hc] at h2
  rw [incomp_iff_content_eq a c ha hc]
  exact h1.trans h2

/-- the queue comparator is the message comparator when the cached time stamp is the message's -/
theorem qElem_eq (x y : QElem) (hx : x.t = x.m.destT) (hy : y.t = y.m.destT) :
    qElemBefore x y = isBefore x.m y.m := by
  simp [qElemBefore, isBefore, hx, hy]

/-- the queue comparator refines the time order even if the cached time stamps are arbitrary -/
theorem qElem_time_consistent (x y : QElem) (h : qElemBefore x y = true) : x.t ≤ y.t := by
  simp only [qElemBefore, Bool.or_eq_true, decide_eq_true_eq, Bool.and_eq_true] at h
  omega

/-! ### Non-vacuity: concrete, non-trivial messages meet the hypotheses. -/
def exA : Msg := { destT := 5, rawFlags := 12, mType := 3, plSize := 2, pl := [1, 2, 99], next := 77, mSeq := 4 }
def exB : Msg := { destT := 5, rawFlags := 4,  mType := 3, plSize := 2, pl := [1, 2, 7],  next := 13, mSeq := 9 }
def exC : Msg := { destT := 5, rawFlags := 4,  mType := 3, plSize := 2, pl := [1, 1, 7] }
example : exA.WF ∧ exB.WF ∧ exC.WF := by decide
example : incomp exA exB := by unfold incomp; decide
example : exA ≠ exB ∧ exA.content = exB.content := by decide
example : isBefore exA exC = true ∧ isBefore exC exA = false := by decide

end RootSim.C16
