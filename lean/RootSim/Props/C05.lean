import RootSim.Proofs.AllocInv
/-!
# C05 (allocator level) — `model_allocator_checkpoint_restore` restores the exact state

Model: `ckptTake`, `ckptRestore` of `RootSim/Model/Alloc.lean`.  The LP-level part of C05 (process.c)
is handled elsewhere; this namespace can be extended.

`SameAsSnapshot c σ s'` is "the state `s'` equals the state `σ` at the checkpoint": same live blocks,
same bytes in every live block, same tree (hence same `longest[]`) for every arena that existed in
`σ`, arenas created later are in the `buddy_init` state, and `full_ckpt_size` is that of `σ` plus the
per-arena header of each later arena (which a checkpoint of `s'` has to record).
-/
namespace RootSim.C05.Alloc
open RootSim.Alloc

structure SameAsSnapshot (c : Cfg) (σ s' : MM) : Prop where
  live : ∀ b, b ∈ s'.live c ↔ b ∈ σ.live c
  bytes : ∀ b ∈ σ.live c, s'.bytes b = σ.bytes b
  trees : ∀ a ∈ σ.arenas, ∃ a' ∈ s'.arenas, a'.id = a.id ∧ a'.tree = a.tree ∧
    a'.tree.flatten c.T c.B = a.tree.flatten c.T c.B
  later : ∀ a' ∈ s'.arenas, a'.id ∉ σ.arenas.map (·.id) → a'.tree = .free
  order : (σ.arenas.map (·.id)).Sublist (s'.arenas.map (·.id))
  full : s'.full = σ.full + (s'.arenas.length - σ.arenas.length) * c.perArena

theorem sameAsSnapshot_of_restored {c : Cfg} {σ s' : MM} (hσ : Inv0 c σ) (hs : Inv0 c s')
    (h : Restored c σ s') (hsub : (ids σ.arenas).Sublist (ids s'.arenas)) : SameAsSnapshot c σ s' :=
  ⟨h.live hs, fun _ hb => h.bytes hσ hs hb,
   fun a ha => by
     obtain ⟨a', h1, h2, h3, _⟩ := h.same a ha
     exact ⟨a', h1, h2, h3, by rw [h3]⟩,
   h.later, hsub, h.full⟩

/-! ## `ckpt_size_exact` -/

/-- In every reachable state, `model_allocator_checkpoint_take` writes exactly `full_ckpt_size` bytes
into the buffer it allocated with `mm_alloc(full_ckpt_size)` (no heap overflow, no slack), and stores
that size in `ckpt_size`. -/
theorem ckpt_size_exact {c : Cfg} (hc : c.ok) {s : MM} (hI : Inv c s) (ref : Nat) :
    (ckptTake c s ref).logs.getLast? = some (ref, mkCkpt c s) ∧
    (mkCkpt c s).written c = s.full ∧ (mkCkpt c s).size = s.full :=
  ⟨by simp [ckptTake], written_mkCkpt hc hI.inv0, rfl⟩

/-- the invariant behind it -/
theorem full_ckpt_size_invariant {c : Cfg} (hc : c.ok) {ops : List Op} {s : MM}
    (h : run c (MM.init c) ops = some s) :
    s.full = c.base + (s.arenas.map fun a => c.perArena + a.tree.liveBytes c.T).sum :=
  ((Inv.init c).run hc h).inv0.full

/-! ## `restore_take` -/

/-- **Exactness of restore, one call** (ghost form).  In a state satisfying the invariant, where
`g.snaps[i]` is the allocator state at the moment `logs[i]` was taken: `restore x` picks the last log
`i` with `ref_i ≤ x`, returns its `ref_i`, drops the later logs, and the resulting state equals
`g.snaps[i]`. -/
theorem restore_exact {c : Cfg} (hc : c.ok) {g : GS} (hG : GInv c g) {x r : Nat} {s' : MM}
    (h : ckptRestore c g.s x = some (s', r)) :
    ∃ i k σ, g.s.logs[i]? = some (r, k) ∧ g.snaps[i]? = some σ ∧ r ≤ x ∧
      (∀ j l, i < j → g.s.logs[j]? = some l → x < l.1) ∧
      s'.logs = g.s.logs.take (i + 1) ∧ SameAsSnapshot c σ s' := by
  obtain ⟨ys, k, rest, S1, σ, S2, d1, d2, d3, d4, d5, d6, d7, d8, _, d10⟩ := ckptRestore_spec hc hG h
  refine ⟨ys.length, k, σ, by simp [d1], by simp [d2, ← d3], d4, ?_, ?_, ?_⟩
  · intro j l hj hl
    rw [d1, List.getElem?_append_right (by omega)] at hl
    have : j - ys.length = (j - ys.length - 1) + 1 := by omega
    rw [this, List.getElem?_cons_succ] at hl
    exact d5 l (List.mem_of_getElem? hl)
  · rw [d6, d1]
    have : ys ++ (r, k) :: rest = (ys ++ [(r, k)]) ++ rest := by simp
    rw [this, List.take_left' (by simp)]
  · have hσ := hG.snaps σ (by rw [d2]; simp)
    exact sameAsSnapshot_of_restored hσ.1 d10.inv0 d7 (by rw [d8]; exact hσ.2)

/-- **Exactness of restore, all histories**: after ANY sequence of malloc / calloc / realloc / free /
stores / checkpoint takes / restores / fossil collections from the initial state (new arenas inserted
at any position), every restore yields exactly the state at the moment the chosen checkpoint was
taken. -/
theorem restore_exact_all_histories {c : Cfg} (hc : c.ok) {ops : List Op} {g : GS}
    (hrun : grun c (GS.init c) ops = some g) {x r : Nat} {s' : MM}
    (h : ckptRestore c g.s x = some (s', r)) :
    ∃ i k σ, g.s.logs[i]? = some (r, k) ∧ g.snaps[i]? = some σ ∧ r ≤ x ∧
      (∀ j l, i < j → g.s.logs[j]? = some l → x < l.1) ∧
      s'.logs = g.s.logs.take (i + 1) ∧ SameAsSnapshot c σ s' :=
  restore_exact hc ((GInv_init c).run hc hrun) h

/-- restore followed by take: the checkpoint written right after a restore has exactly the size
`full_ckpt_size` computed by the restore (this is what breaks if the per-arena offset of
re-initialised arenas is forgotten); if no arena was created since the snapshot it has the size of
the original checkpoint. -/
theorem restore_then_take_size {c : Cfg} (hc : c.ok) {g : GS} (hG : GInv c g) {x r : Nat} {s' : MM}
    (h : ckptRestore c g.s x = some (s', r)) :
    (mkCkpt c s').written c = s'.full ∧
    ∀ (i : Nat) (σ : MM), g.snaps[i]? = some σ → (∃ k, g.s.logs[i]? = some (r, k)) →
      (mkCkpt c s').written c = (mkCkpt c σ).written c + (s'.arenas.length - σ.arenas.length) * c.perArena := by
  obtain ⟨i, k, σ, e1, e2, _, _, _, e6⟩ := restore_exact hc hG h
  obtain ⟨ys, k', rest, S1, σ', S2, _, _, _, _, _, _, _, _, _, d10⟩ := ckptRestore_spec hc hG h
  have hw := written_mkCkpt hc d10.inv0
  refine ⟨hw, ?_⟩
  intro i' σ'' hs hl
  obtain ⟨k'', hl⟩ := hl
  have : i' = i := sorted_index_unique hG.sorted hl e1
  subst this
  rw [e2] at hs; simp at hs; subst hs
  have hσ := hG.snaps σ (List.mem_of_getElem? e2)
  rw [hw, written_mkCkpt hc hσ.1, e6.full]

/-- operations allowed between the checkpoint and the restore in `restore_take`: everything except
fossil collection and restores to targets below the checkpoint (both remove it from the log) -/
def keeps (ref : Nat) : Op → Bool
  | .fossil _ => false
  | .restore x => decide (ref ≤ x)
  | _ => true

/-- the checkpoint with `ref_i = ref` taken in state `σ` is still logged -/
def Tracks (g : GS) (ref : Nat) (σ : MM) : Prop :=
  ∃ (i : Nat) (k : Ckpt), g.s.logs[i]? = some (ref, k) ∧ g.snaps[i]? = some σ

theorem tracks_step {c : Cfg} (hc : c.ok) {g g' : GS} (hG : GInv c g) {ref : Nat} {σ : MM}
    (ht : Tracks g ref σ) {op : Op} {r : Ret} (hk : keeps ref op = true) (h : gstep c g op = some (g', r)) :
    Tracks g' ref σ := by
  obtain ⟨i, k, t1, t2⟩ := ht
  by_cases hu : op.isUser = true
  · obtain ⟨h1, h2⟩ := gstep_user hu h
    have hF := step_user_frame hc hG.inv0 hu h1
    exact ⟨i, k, by rw [hF.logs]; exact t1, by rw [h2]; exact t2⟩
  · cases op with
    | take ref' =>
      unfold gstep at h
      simp only [step] at h
      split at h
      · simp at h
      · rename_i s' r' hs
        split at hs
        · simp only [Option.some.injEq, Prod.mk.injEq] at hs h
          obtain ⟨rfl, rfl⟩ := hs
          obtain ⟨rfl, rfl⟩ := h
          have hi1 := (List.getElem?_eq_some_iff.1 t1).1
          have hi2 := (List.getElem?_eq_some_iff.1 t2).1
          exact ⟨i, k, by simp [ckptTake, List.getElem?_append_left hi1, t1],
            by simp [List.getElem?_append_left hi2, t2]⟩
        · simp at hs
    | restore x =>
      simp [keeps] at hk
      have hs := gstep_fst h
      simp only [step, Option.map_eq_some_iff] at hs
      obtain ⟨⟨s1, r1⟩, hs1, hs2⟩ := hs
      simp only [Prod.mk.injEq] at hs2
      obtain ⟨e1, rfl⟩ := hs2
      obtain ⟨i', k', σ', q1, q2, q3, q4, q5, q6⟩ := restore_exact hc hG hs1
      have hle : i ≤ i' := by
        apply Nat.le_of_not_lt; intro hlt
        have := q4 i _ hlt t1; simp at this; omega
      have hsn : g'.snaps = g.snaps.take (i' + 1) := by
        unfold gstep at h
        rw [show step c g.s (Op.restore x) = some (s1, Ret.ref r1) by simp [step, hs1]] at h
        simp only [Option.some.injEq, Prod.mk.injEq] at h
        rw [← h.1]
        simp only
        rw [q5, List.length_take]
        have := (List.getElem?_eq_some_iff.1 q1).1
        congr 1; omega
      refine ⟨i, k, ?_, ?_⟩
      · rw [← e1, q5, List.getElem?_take]; simp [show i < i' + 1 by omega, t1]
      · rw [hsn, List.getElem?_take]; simp [show i < i' + 1 by omega, t2]
    | fossil _ => simp [keeps] at hk
    | malloc _ _ => simp [Op.isUser] at hu
    | calloc _ _ _ => simp [Op.isUser] at hu
    | realloc _ _ _ => simp [Op.isUser] at hu
    | free _ => simp [Op.isUser] at hu
    | write _ _ _ => simp [Op.isUser] at hu

/-- **`restore_take`**: take a checkpoint `ref` in any reachable state `s`; then run ANY sequence of
malloc / calloc / realloc / free / stores, further takes, and restores to targets `≥ ref` (arenas may
be created at any position); then restore to any target for which the scan returns `ref`: the state
equals `s` — every live block, every byte of every live block, the tree of every arena of `s`, and
`full_ckpt_size` (plus the header size of each arena created meanwhile, which is back in its initial
state). -/
theorem restore_take {c : Cfg} (hc : c.ok) {s s0 : MM} (hI : Inv c s) {ref : Nat}
    (h0 : step c s (.take ref) = some (s0, .ok)) {ops : List Op} (hk : ∀ op ∈ ops, keeps ref op = true)
    {s1 : MM} (hrun : run c s0 ops = some s1) {x : Nat} {s' : MM}
    (hres : ckptRestore c s1 x = some (s', ref)) : SameAsSnapshot c s s' := by
  obtain ⟨snaps, hG⟩ := hI
  -- ghost state right after the take
  obtain ⟨sn0, hg0⟩ := gstep_of_step (g := ⟨s, snaps⟩) h0
  have hG0 := hG.step hc hg0
  have hsn0 : sn0 = snaps ++ [s] := by
    unfold gstep at hg0; rw [h0] at hg0; simp at hg0; exact hg0.symm
  have hlogs0 : s0.logs = s.logs ++ [(ref, mkCkpt c s)] := by
    simp only [step] at h0
    split at h0
    · simp at h0; rw [← h0]; rfl
    · simp at h0
  have hlen : snaps.length = s.logs.length := by
    have := congrArg List.length hG.cks; simpa using this.symm
  have ht0 : Tracks ⟨s0, sn0⟩ ref s :=
    ⟨s.logs.length, mkCkpt c s, by simp [hlogs0], by simp [hsn0, ← hlen]⟩
  -- propagate through the run
  have key : ∀ (ops : List Op) (g : GS), GInv c g → Tracks g ref s → (∀ op ∈ ops, keeps ref op = true) →
      ∀ g', grun c g ops = some g' → GInv c g' ∧ Tracks g' ref s := by
    intro ops
    induction ops with
    | nil => intro g hg ht _ g' hr; simp [grun] at hr; subst hr; exact ⟨hg, ht⟩
    | cons op ops ih =>
      intro g hg ht hks g' hr
      simp only [grun] at hr
      split at hr
      · rename_i g1 r hs
        exact ih g1 (hg.step hc hs) (tracks_step hc hg ht (hks op (by simp)) hs)
          (fun o ho => hks o (by simp [ho])) g' hr
      · simp at hr
  obtain ⟨sn1, hgr⟩ := grun_of_run (g := ⟨s0, sn0⟩) hrun
  obtain ⟨hG1, ⟨i, k, t1, t2⟩⟩ := key ops _ hG0 ht0 hk _ hgr
  obtain ⟨i', k', σ', q1, q2, _, _, _, q6⟩ := restore_exact hc hG1 hres
  have : i' = i := sorted_index_unique hG1.sorted q1 t1
  subst this
  rw [t2] at q2; simp at q2; subst q2
  exact q6

/-! ## non-vacuity -/

def cTiny : Cfg := ⟨3, 1, 5, 16, fun i o => i + o, false⟩
theorem cTiny_ok : cTiny.ok := ⟨by decide, by decide⟩

/-- checkpoint with two live blocks; afterwards: overwrite, free, allocate into a NEW arena that is
inserted BEFORE the old one, take another checkpoint, restore between the two -/
def before : List Op := [.malloc 3 0, .malloc 2 0, .write ⟨0, 0⟩ 0 [11, 12, 13]]
def after : List Op :=
  [.write ⟨0, 0⟩ 1 [7, 9], .free (some ⟨0, 4⟩), .malloc 8 0, .take 9, .malloc 1 0, .restore 12]

example : ((run cTiny (MM.init cTiny) (before ++ [.take 5] ++ after)).bind fun s =>
    (ckptRestore cTiny s 7).map fun r => (r.2, r.1.live cTiny, r.1.arenas.map (·.id), r.1.full)) =
    some (5, [(0, 0, 2), (0, 4, 1)], [1, 0], 16 + 5 + 5 + 4 + 2) := by decide

example : ∀ op ∈ after, keeps 5 op = true := by decide

end RootSim.C05.Alloc
