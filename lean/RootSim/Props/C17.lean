import RootSim.Proofs.Barrier
/-!
# C17 — the thread barrier (`sync_thread_barrier`, `src/core/sync.c`)

"In every use of the thread barrier no thread returns before all participating threads have entered
that use, exactly one thread is told it is the leader, and the barrier can be reused immediately and
indefinitely by the same set of threads."

All theorems hold for EVERY number of threads `0 < N < 2^32` (`n_threads` is a C `unsigned`), EVERY
interleaving of the individual atomic operations (sequentially consistent; the `memory_order`
annotations are not modelled) and ANY number of consecutive uses, including a fast thread re-entering
use `k+1` while slow threads are still spinning in use `k`.
-/
namespace RootSim.C17
open RootSim.Barrier

/-- **The invariant is inductive** for `enter` AND `exit` (hence for every scheduled step). -/
theorem invariant_inductive {s s' : St} {i : Nat} (h : ∃ m, BInv s m) (hs : Barrier.step s i = some s') :
    ∃ m, BInv s' m := by
  obtain ⟨m, h⟩ := h
  rcases step_cases hs with he | he | he
  · exact ⟨m, enter_inv h he⟩
  · rcases exit_inv h he with h' | h'
    · exact ⟨m, h'⟩
    · exact ⟨m + 1, h'⟩
  · subst he; exact ⟨m, h⟩

/-- **reusable**: the invariant holds in every reachable state — after arbitrarily many uses, with
threads spread over two consecutive uses (fast re-entry). -/
theorem reusable {s : St} (hr : Reachable s) : ∃ m, BInv s m := by
  induction hr with
  | init N hpos hW => exact ⟨0, init_inv N hpos hW⟩
  | step i _ hs ih => exact invariant_inductive ih hs

/-- `reusable`, stated on schedules: for all `N`, for every schedule of any length -/
theorem reusable_exec (N : Nat) (hpos : 0 < N) (hW : N < W) (sched : List Nat) (s : St)
    (he : exec (Barrier.init N) sched = some s) : ∃ m, BInv s m :=
  reusable (exec_reachable sched (Reachable.init N hpos hW) he)

/-- **no early pass**: a thread leaves use `k` only in a state in which all `N` threads have executed
the `fetch_add` of use `k`. -/
theorem no_early_pass {s s' : St} {i : Nat} (hr : Reachable s) (he : Barrier.exit s i = some s') :
    ∃ t, s.ths[i]? = some t ∧ cnt s t.uses = s.ths.length := by
  obtain ⟨m, h⟩ := reusable hr
  obtain ⟨t, ht, _, hok, _⟩ := exit_spec he
  exact ⟨t, ht, by rw [← h.nlen]; exact (exitOk_iff h (List.mem_of_getElem? ht)).mp hok⟩

/-- the same as a state property: whenever some thread has returned from use `k`, every thread has
entered use `k` -/
theorem passed_imp_all_entered {s : St} (hr : Reachable s) {t : Th} (ht : t ∈ s.ths) {k : Nat}
    (hk : passed k t = true) : cnt s k = s.ths.length := by
  obtain ⟨m, h⟩ := reusable hr
  have hk' : k < t.uses := by simpa [passed] using hk
  by_cases hkm : k = m
  · subst hkm
    have : t.uses = k + 1 := by rcases h.range t ht with h1 | h1 <;> omega
    rw [← h.nlen]; exact h.full ⟨t, ht, this⟩
  · have hlt : k < m := by rcases h.range t ht with h1 | h1 <;> omega
    unfold cnt
    rw [List.countP_eq_length]
    intro t' ht'
    apply entered_of_gt
    rcases h.range t' ht' with h1 | h1 <;> omega

/-- the unsigned counters never wrap: the `fetch_add` of an up-use finds a value `< N ≤ UINT_MAX`, the
`fetch_add(-1)` of a down-use finds a value `≥ 1` -/
theorem no_wrap {s s' : St} {i : Nat} (hr : Reachable s) (he : enter s i = some s') :
    ∃ t, s.ths[i]? = some t ∧
      (up t.uses = true → ctr s t.uses < s.n ∧ ctr s' t.uses = ctr s t.uses + 1) ∧
      (up t.uses = false → 1 ≤ ctr s t.uses ∧ ctr s' t.uses + 1 = ctr s t.uses) := by
  obtain ⟨m, h⟩ := reusable hr
  obtain ⟨t, ht, hsp, hs'⟩ := enter_spec he
  have hs'' : s' = enterSt s i t := hs'
  subst hs''
  refine ⟨t, ht, ?_⟩
  have hmem : t ∈ s.ths := List.mem_of_getElem? ht
  have hnot : entered t.uses t = false := by simp [entered, hsp]
  have hlt : cnt s t.uses < s.n := by rw [h.nlen]; exact cnt_lt_of_not_entered s _ t hmem hnot
  have hold : ctr s t.uses = expect s.n t.uses (cnt s t.uses) := by
    rcases h.range t hmem with hu | hu
    · rw [hu]; exact h.cm
    · rw [hu]; exact h.cm1
  have hW := h.nW
  rw [enterSt_ctr_same, hold]
  unfold expect newCtr fetchAdd
  constructor
  · intro hup; simp only [hup, if_true, W] at hW ⊢; omega
  · intro hup; simp only [hup, Bool.false_eq_true, if_false, W] at hW ⊢; omega

/-- at most one thread is ever told "leader" in a use -/
theorem at_most_one_leader {s : St} (hr : Reachable s) (k : Nat) : leadCnt s k ≤ 1 := by
  obtain ⟨m, h⟩ := reusable hr
  rw [h.lead k]; unfold leadExp
  split <;> split <;> omega

/-- **exactly one leader**: once all `N` threads have entered use `k` (in particular once anybody has
returned from it), exactly one of them has been handed `true` in use `k`. -/
theorem exactly_one_leader {s : St} (hr : Reachable s) (k : Nat) (hall : cnt s k = s.ths.length) :
    leadCnt s k = 1 := by
  obtain ⟨m, h⟩ := reusable hr
  rw [h.lead k, hall, ← h.nlen]; unfold leadExp
  have := h.npos
  split
  · simp
  · simp

/-- the value a thread returns from use `k` is the flag recorded for it in use `k` -/
theorem returned_flag_recorded {s s' : St} {i : Nat} (hr : Reachable s) (he : Barrier.exit s i = some s') :
    ∃ t, s.ths[i]? = some t ∧ t.flags[t.uses]? = some t.l := by
  obtain ⟨m, h⟩ := reusable hr
  obtain ⟨t, ht, hsp, _, _⟩ := exit_spec he
  exact ⟨t, ht, (h.loc t (List.mem_of_getElem? ht)).2 hsp⟩

/-! ### progress -/

/-- **progress** (no deadlock inside the barrier): once all `N` threads have entered use `k`, the
spin-loop guard of every thread still in use `k` is true, and it stays true under every further
schedule until that thread leaves. -/
theorem progress {s s' : St} (hr : Reachable s) (k : Nat) (hall : cnt s k = s.ths.length)
    (sched : List Nat) (he : exec s sched = some s') (t' : Th) (ht' : t' ∈ s'.ths) (hk : t'.uses = k) :
    exitOk s' t' = true := by
  obtain ⟨m, h⟩ := reusable hr
  obtain ⟨m', h'⟩ := reusable (exec_reachable sched hr he)
  rw [exitOk_iff h' ht', hk]
  have hm := exec_cnt_mono sched he k
  have hle := cnt_le s' k
  rw [← h'.nlen] at hle
  rw [hm.2] at hle ⊢
  rw [h.nlen]; rw [h.nlen] at hle; omega

/-- …and the guard is true ONLY then (the spin loop does not let anybody through earlier) -/
theorem guard_iff_all_entered {s : St} (hr : Reachable s) (t : Th) (ht : t ∈ s.ths) :
    exitOk s t = true ↔ cnt s t.uses = s.ths.length := by
  obtain ⟨m, h⟩ := reusable hr
  rw [exitOk_iff h ht, h.nlen]

/-- **deadlock freedom**: in every reachable state some thread can make a real move (execute its
`fetch_add`, or pass the spin loop) — the barrier never gets stuck with everybody spinning. -/
theorem deadlock_free {s : St} (hr : Reachable s) :
    ∃ i s', enter s i = some s' ∨ Barrier.exit s i = some s' := by
  obtain ⟨m, h⟩ := reusable hr
  have hexit : ∀ t ∈ s.ths, t.spin = true → cnt s t.uses = s.n →
      ∃ i s', enter s i = some s' ∨ Barrier.exit s i = some s' := by
    intro t ht hsp hall
    obtain ⟨i, hi, hget⟩ := List.getElem_of_mem ht
    have hget? : s.ths[i]? = some t := by rw [List.getElem?_eq_getElem hi, hget]
    have hok := (exitOk_iff h ht).mpr hall
    exact ⟨i, exitSt s i t, Or.inr (by simp [Barrier.exit, hget?, hsp, hok, exitSt])⟩
  by_cases hout : ∃ t ∈ s.ths, t.spin = false
  · obtain ⟨t, ht, hsp⟩ := hout
    obtain ⟨i, hi, hget⟩ := List.getElem_of_mem ht
    have hget? : s.ths[i]? = some t := by rw [List.getElem?_eq_getElem hi, hget]
    exact ⟨i, enterSt s i t, Or.inl (by simp [enter, hget?, hsp, enterSt])⟩
  · have hspin : ∀ t ∈ s.ths, t.spin = true := by
      intro t ht
      by_cases hs : t.spin = true
      · exact hs
      · exact absurd ⟨t, ht, by simpa using hs⟩ hout
    have hne : s.ths ≠ [] := by
      intro hnil
      have := h.npos
      rw [h.nlen, hnil] at this
      simp at this
    obtain ⟨t0, ht0⟩ := List.exists_mem_of_ne_nil _ hne
    by_cases hm : ∃ t ∈ s.ths, t.uses = m
    · obtain ⟨t, ht, hu⟩ := hm
      apply hexit t ht (hspin t ht)
      rw [hu]
      by_cases hm1 : ∃ t' ∈ s.ths, t'.uses = m + 1
      · exact h.full hm1
      · rw [h.nlen]; unfold cnt; rw [List.countP_eq_length]
        intro t' ht'
        have : t'.uses = m := by
          rcases h.range t' ht' with h1 | h1
          · exact h1
          · exact absurd ⟨t', ht', h1⟩ hm1
        simp [entered, this, hspin t' ht']
    · apply hexit t0 ht0 (hspin t0 ht0)
      have hall : ∀ t' ∈ s.ths, t'.uses = m + 1 := by
        intro t' ht'
        rcases h.range t' ht' with h1 | h1
        · exact absurd ⟨t', ht', h1⟩ hm
        · exact h1
      rw [hall t0 ht0, h.nlen]; unfold cnt; rw [List.countP_eq_length]
      intro t' ht'
      simp [entered, hall t' ht', hspin t' ht']

/-! ### Non-vacuity: concrete executions, including fast re-entry -/

/-- 3 threads, everybody enters use 0, thread 0 leaves and immediately enters use 1 while threads 1 and
2 are still spinning in use 0: threads are spread over two uses, the state is reachable. -/
def exFast : Option St := exec (Barrier.init 3) [0, 1, 2, 0, 0]
example : exFast.map (fun s => (s.ths.map (fun t => (t.uses, t.spin)), s.c0, s.c1))
    = some ([(1, true), (0, true), (0, true)], 3, 1) := by decide
/-- thread 0 was the (only) leader of use 0 (first to arrive, going up) -/
example : exFast.map (fun s => (leadCnt s 0, s.ths.map (fun t => t.flags))) =
    some (1, [[true, true], [false], [false]]) := by decide
/-- thread 0 cannot run through use 1: its guard is false until 1 and 2 arrive (stutter step) -/
example : (exFast.bind (fun s => Barrier.step s 0)) = exFast := by decide
/-- a down-use: the LAST thread to arrive is the leader; 12 full uses later counters are back at 0 -/
def exRounds : Option St :=
  exec (Barrier.init 2) ((List.replicate 12 [0, 1, 1, 0]).flatten)
example : exRounds.map (fun s => (s.ths.map (fun t => (t.uses, t.spin)), s.c0, s.c1)) =
    some ([(12, false), (12, false)], 0, 0) := by decide
example : exRounds.map (fun s => s.ths.map (fun t => t.flags.take 4)) =
    some [[true, true, false, false], [false, false, true, true]] := by decide
example : Reachable (Barrier.init 3) := Reachable.init 3 (by decide) (by decide)

end RootSim.C17
