import RootSim.Proofs.Spec
/-!
# Prefix uniqueness of Time Warp (the pure core of C01 / C02 / C03 / C09)

`Model/Spec.lean` defines the textbook sequential executor as a relation (`Spec.Step`,
`Spec.Reachable`: dispatch SOME `Event.before`-minimal pending event) and the interface `Spec.Hist M G g`
to the optimistic runtime: at GVT `g`, `G ℓ` is what LP `ℓ` has processed and not undone (H1: `LP_INIT`
first, then events for `ℓ` in an order compatible with the event order; H2: states and sent events are
the folds of the handler over `G ℓ` — built into `lpState`/`outsAll`; H3: below `g`, what has been
processed by `ℓ` is, as a multiset, exactly what all LPs have sent to `ℓ`).

Model contracts used:
* `Spec.V2sBelow M G g` — STRICT causality (`Event.before cause effect = true`) and existing
  destinations, required only of the handler invocations that occur in the history on events below `g`;
* `Spec.TimeMono M` — no invocation schedules an event with a smaller time stamp than its cause.
Both follow from the global strict contract `Spec.V2s M`.

**Open**: with the runtime's contract V2 alone (`Event.before effect cause = false`, which allows an
event to schedule a simultaneous event of identical content, i.e. incomparable with its cause) the
theorem is not proved here; `prefix_unique` needs V2s where the history was actually executed.
In fact under V2 alone H1–H3 are NOT sufficient (`v2_only_counterexample` below: two simultaneous
identical events that "cause each other" form a self-justifying history that satisfies H1–H3 but that
no execution can produce). The V2-only case needs an extra hypothesis from the runtime layers, e.g.
that the "was sent by" relation on the processed events is well-founded (messages are sent, in real
time, before they are received).

All statements hold for every model, every number of LPs, every history, every `g`, every run of the
sequential relation (every choice among incomparable events).
-/
namespace RootSim.PrefixUnique
open RootSim RootSim.Spec

variable {σ : Type} {M : SimModel σ} {G G' : Nat → List Event} {g g' : Nat}

/-- **Key lemma**: while a sequential run has only dispatched events below `g` (invariant `Phase1`:
its dispatch sequences are prefixes of the histories, its pending bag is "sent minus dispatched"),
a minimal pending event below `g` is exactly the next event of its destination LP's history. -/
theorem next_event_unique (H : Hist M G g) (V : V2sBelow M G g) (T : TimeMono M) {s : SeqState σ}
    (P : Phase1 M G g s) {e : Event} (he : e ∈ s.pending) (hmin : Minimal e s.pending) (hlt : e.t < g) :
    e.dest < M.nLps ∧ ∃ S, G e.dest = s.disp e.dest ++ e :: S := by
  obtain ⟨hd, S, hS⟩ := P.next_of_minimal H V T he hmin hlt
  exact ⟨hd, S, by rw [P.split hd, hS]⟩

/-- the invariant holds along every sequential run -/
theorem run_invariant (H : Hist M G g) (V : V2sBelow M G g) (T : TimeMono M) {s : SeqState σ}
    (hr : Reachable M s) : Phase1 M G g s ∨ Phase2 M G g s :=
  reachable_phase H V T hr

/-- **Prefix uniqueness.** Let `G` be a global history of the optimistic runtime at GVT `g` (H1–H3),
executed under strict causality below `g`. For EVERY reachable state `s` of the sequential reference
relation and every LP `ℓ`: what the sequential run has dispatched to `ℓ` below `g` is a prefix of what
the optimistic LP has processed below `g`; and once the sequential run has nothing below `g` pending,
the two sequences are equal and so are the LP states they produce.

(The case where only V2 — not V2s — holds: see Props/C01GlueV2.lean — refuted for histories alone and for the content-level machine, proved for the machine with a ghost creation order.) -/
theorem prefix_unique (H : Hist M G g) (V : V2sBelow M G g) (T : TimeMono M) {s : SeqState σ}
    (hr : Reachable M s) {ℓ : Nat} (hℓ : ℓ < M.nLps) :
    (s.disp ℓ).filter (below g) <+: (G ℓ).filter (below g) ∧
    ((∀ x ∈ s.pending, g ≤ x.t) →
      (s.disp ℓ).filter (below g) = (G ℓ).filter (below g) ∧
      lpState M ℓ ((s.disp ℓ).filter (below g)) = lpState M ℓ ((G ℓ).filter (below g))) := by
  rcases reachable_phase H V T hr with P | P
  · refine ⟨List.IsPrefix.filter _ (P.pre ℓ hℓ), fun hlate => ?_⟩
    have := (P.toPhase2 H V T hlate).filter_eq H hℓ
    exact ⟨this, by rw [this]⟩
  · have := P.filter_eq H hℓ
    exact ⟨by rw [this]; exact List.prefix_refl _, fun _ => ⟨this, by rw [this]⟩⟩

/-- the same under the global strict contract -/
theorem prefix_unique_V2s (H : Hist M G g) (V : V2s M) {s : SeqState σ}
    (hr : Reachable M s) {ℓ : Nat} (hℓ : ℓ < M.nLps) :
    (s.disp ℓ).filter (below g) <+: (G ℓ).filter (below g) ∧
    ((∀ x ∈ s.pending, g ≤ x.t) →
      (s.disp ℓ).filter (below g) = (G ℓ).filter (below g) ∧
      lpState M ℓ ((s.disp ℓ).filter (below g)) = lpState M ℓ ((G ℓ).filter (below g))) :=
  prefix_unique H (V.below G g) V.timeMono hr hℓ

/-- the state of an LP of a sequential run is the fold of the handler over its dispatch sequence
(so `lpState M ℓ (…)` above is the state the sequential LP had after its events below `g`) -/
theorem seq_state_exact {s : SeqState σ} (hr : Reachable M s) (ℓ : Nat) :
    s.st ℓ = lpState M ℓ (s.disp ℓ) := reachable_st hr ℓ

/-- the part of a history below `g` is a prefix of the history (so `lpState M ℓ ((G ℓ).filter …)` is the
state the optimistic LP had, or is rolled back to, after its events below `g`) -/
theorem hist_below_prefix (H : Hist M G g) {ℓ : Nat} (hℓ : ℓ < M.nLps) (g' : Nat) :
    (G ℓ).filter (below g') <+: G ℓ :=
  tsorted_filter_prefix_self _ (H.tsorted hℓ)

/-- the sequential relation can always execute everything below `g`: some run reaches a state with
no pending event below `g` (so the equality case of `prefix_unique` is not vacuous) -/
theorem exists_sequential_run (H : Hist M G g) (V : V2sBelow M G g) (T : TimeMono M) :
    ∃ s, Reachable M s ∧ ∀ x ∈ s.pending, g ≤ x.t := by
  obtain ⟨s, hr, _, hl⟩ := exists_run_to H V T
  exact ⟨s, hr, hl⟩

/-- **Corollary (i) — C09 / C01**: two global histories at the same GVT `g` (different thread counts,
checkpoint intervals, GVT timing, interleavings, rollback patterns …) agree below `g`, LP by LP, and
produce the same LP states. -/
theorem history_unique (H : Hist M G g) (V : V2sBelow M G g) (H' : Hist M G' g) (V' : V2sBelow M G' g)
    (T : TimeMono M) {ℓ : Nat} (hℓ : ℓ < M.nLps) :
    (G ℓ).filter (below g) = (G' ℓ).filter (below g) ∧
    lpState M ℓ ((G ℓ).filter (below g)) = lpState M ℓ ((G' ℓ).filter (below g)) := by
  obtain ⟨s, hr, _, hl⟩ := exists_run_to H V T
  have h1 := ((prefix_unique H V T hr hℓ).2 hl).1
  have h2 := ((prefix_unique H' V' T hr hℓ).2 hl).1
  have := h1.symm.trans h2
  exact ⟨this, by rw [this]⟩

/-- **Corollary (ii) — C03**: what is committed at an earlier GVT `g'` (history `G'`) is a prefix of what
is committed at a later GVT `g` (history `G`) … -/
theorem committed_prefix (hg : g' ≤ g) (H' : Hist M G' g') (V' : V2sBelow M G' g')
    (H : Hist M G g) (V : V2sBelow M G g) (T : TimeMono M) {ℓ : Nat} (hℓ : ℓ < M.nLps) :
    (G' ℓ).filter (below g') <+: (G ℓ).filter (below g) := by
  rw [(history_unique H' V' (H.mono hg) (V.mono hg) T hℓ).1]
  exact tsorted_filter_prefix hg _ (H.tsorted hℓ)

/-- … and of the per-LP sequence of every sequential run that has nothing below `g` pending. -/
theorem committed_prefix_seq (H : Hist M G g) (V : V2sBelow M G g) (T : TimeMono M) {s : SeqState σ}
    (hr : Reachable M s) (hl : ∀ x ∈ s.pending, g ≤ x.t) {ℓ : Nat} (hℓ : ℓ < M.nLps) :
    (G ℓ).filter (below g) <+: s.disp ℓ := by
  have P : Phase2 M G g s := by
    rcases reachable_phase H V T hr with P | P
    · exact P.toPhase2 H V T hl
    · exact P
  obtain ⟨L, hL, _⟩ := P.disp ℓ hℓ
  obtain ⟨rest, hrest⟩ := H.cons hℓ
  rw [hL, hrest]
  by_cases h0 : 0 < g
  · simp only [List.filter_cons, List.tail_cons, below, initEv, h0, decide_true, if_true,
      List.cons_prefix_cons, true_and]
    exact List.prefix_append _ _
  · have : g = 0 := by omega
    subst this
    have : List.filter (below 0) rest = [] :=
      List.filter_eq_nil_iff.mpr (by intro a _; simp [below])
    simp [below, initEv, this]

/-! ### Non-vacuity -/

/-- ping-pong satisfies the global strict contract -/
theorem pingPong_V2s : V2s pingPong := by
  intro ℓ s c o ho
  simp only [pingPong] at ho
  split at ho
  · simp only [List.mem_singleton] at ho
    subst ho
    refine ⟨Event.before_of_t_lt (by simp), ?_, by simp [LP_INIT]⟩
    show 1 - ℓ < 2
    omega
  · simp at ho

theorem fanIn_V2s : V2s fanIn := by
  intro ℓ s c o ho
  simp only [fanIn] at ho
  split at ho
  · simp only [List.mem_cons, List.mem_nil_iff, or_false] at ho
    rcases ho with rfl | rfl
    · exact ⟨Event.before_of_t_lt (by simp), by simp [fanIn], by simp [LP_INIT]⟩
    · refine ⟨Event.before_of_t_lt (by simp), ?_, by simp [LP_INIT]⟩
      show 1 - ℓ < 3
      omega
  · simp at ho

/-- a history of ping-pong at GVT 4: LP 0 is ahead (it has speculatively processed its events at
times 4 and 5), LP 1 has processed exactly its events below 4 -/
def ppG : Nat → List Event
  | 0 => [initEv 0, ⟨0, 1, 1, [0]⟩, ⟨0, 2, 1, [1]⟩, ⟨0, 3, 1, [2]⟩, ⟨0, 4, 1, [3]⟩, ⟨0, 5, 1, [4]⟩]
  | 1 => [initEv 1, ⟨1, 1, 1, [0]⟩, ⟨1, 2, 1, [1]⟩, ⟨1, 3, 1, [2]⟩]
  | _ => []

/-- another history at GVT 4: LP 1 is ahead, and LP 0 has processed a straggler-to-be speculative
event (time 9, never sent by anybody) that will be undone -/
def ppG' : Nat → List Event
  | 0 => [initEv 0, ⟨0, 1, 1, [0]⟩, ⟨0, 2, 1, [1]⟩, ⟨0, 3, 1, [2]⟩, ⟨0, 9, 1, [7]⟩]
  | 1 => [initEv 1, ⟨1, 1, 1, [0]⟩, ⟨1, 2, 1, [1]⟩, ⟨1, 3, 1, [2]⟩, ⟨1, 4, 1, [3]⟩]
  | _ => []

example : Hist pingPong ppG 4 := histCheck_sound (by decide)
example : Hist pingPong ppG' 4 := histCheck_sound (by decide)
example : ppG 0 ≠ ppG' 0 ∧ (ppG 0).filter (below 4) = (ppG' 0).filter (below 4) := by decide

/-- the hypotheses are not satisfied by a history that misses an event below `g` … -/
example : histCheck pingPong (fun ℓ => if ℓ = 1 then (ppG 1).take 3 else ppG ℓ) 4 = false := by decide
/-- … nor by one that has processed simultaneous events in the wrong order -/
example : histCheck pingPong
    (fun ℓ => if ℓ = 0 then [initEv 0, ⟨0, 2, 1, [1]⟩, ⟨0, 1, 1, [0]⟩, ⟨0, 3, 1, [2]⟩] else ppG ℓ) 4 =
    false := by decide

/-- the theorems compose on the concrete histories -/
example {ℓ : Nat} (hℓ : ℓ < 2) : (ppG ℓ).filter (below 4) = (ppG' ℓ).filter (below 4) :=
  (history_unique (M := pingPong) (histCheck_sound (by decide)) (pingPong_V2s.below _ _)
    (histCheck_sound (by decide)) (pingPong_V2s.below _ _) pingPong_V2s.timeMono hℓ).1

/-- fan-in at GVT 3: LP 2 has received every notification below 3 (IDENTICAL events occur twice) and
one of the two notifications at time 3 -/
def fiG : Nat → List Event
  | 0 => [initEv 0, ⟨0, 1, 2, [0]⟩, ⟨0, 2, 2, [1]⟩, ⟨0, 3, 2, [2]⟩]
  | 1 => [initEv 1, ⟨1, 1, 2, [0]⟩, ⟨1, 2, 2, [1]⟩]
  | 2 => [initEv 2, ⟨2, 1, 1, []⟩, ⟨2, 1, 1, []⟩, ⟨2, 2, 1, []⟩, ⟨2, 2, 1, []⟩, ⟨2, 3, 1, []⟩]
  | _ => []

example : Hist fanIn fiG 3 := histCheck_sound (by decide)

/-- the executable sequential run, stopped when nothing below 3 is pending, agrees with `fiG` below 3
(as `prefix_unique_V2s` says it must) -/
example : (∀ x ∈ (seqRunN fanIn 8).pending, 3 ≤ x.t) ∧
    ∀ ℓ < 3, ((seqRunN fanIn 8).disp ℓ).filter (below 3) = (fiG ℓ).filter (below 3) := by decide

/-- a run of the RELATION that resolves a tie differently from `seqRunN` (it serves LP 0 before LP 1
at time 1: the two events are incomparable, the destination is not part of the order) -/
example : ∃ s, Step pingPong (init pingPong) s ∧ s.disp 0 = [initEv 0, ⟨0, 1, 1, [0]⟩] ∧
    s.disp 1 = [initEv 1] ∧ (seqRunN pingPong 1).disp 1 = [initEv 1, ⟨1, 1, 1, [0]⟩] :=
  ⟨_, Step.mk (init pingPong) ⟨0, 1, 1, [0]⟩ (by decide) (by decide), by decide, by decide, by decide⟩

/-! ### V2s cannot simply be replaced by V2 -/

/-- a self-justifying history of `echo`: LP 0 has processed an event that only LP 1's processing of
the identical simultaneous event sends, and vice versa -/
def echoG : Nat → List Event
  | 0 => [initEv 0, ⟨0, 5, 1, []⟩]
  | 1 => [initEv 1, ⟨1, 5, 1, []⟩]
  | _ => []

/-- **H1–H3 + V2 (non-strict) + `TimeMono` do not imply prefix uniqueness**: `echo` satisfies the
runtime's model contract (`SimModel.validStep`: V2, V3, V4) in every state, `echoG` satisfies H1–H3 at
GVT 10, the sequential run is finished in its initial state (nothing pending), yet LP 0's history
below 10 is not what the sequential run dispatched. -/
theorem v2_only_counterexample :
    (∀ ℓ s c, echo.validStep ℓ s c) ∧ TimeMono echo ∧ Hist echo echoG 10 ∧
    Reachable echo (init echo) ∧ (init echo).pending = [] ∧
    ((init echo).disp 0).filter (below 10) ≠ (echoG 0).filter (below 10) := by
  refine ⟨?_, ?_, histCheck_sound (by decide), Reachable.init, by decide, by decide⟩
  · intro ℓ s c o ho
    simp only [echo] at ho
    split at ho
    · rename_i h1
      simp only [List.mem_singleton] at ho
      subst ho
      refine ⟨?_, ?_, by simp [LP_INIT]⟩
      · unfold Event.before
        rw [C16.content_only _ c.toMsg c.toMsg c.toMsg
          (by simp [Msg.content, Event.toMsg, Msg.anti, Msg.body, h1]) rfl]
        exact C16.irrefl _
      · show 1 - ℓ < 2
        omega
    · simp at ho
  · intro ℓ s c o ho
    simp only [echo] at ho
    split at ho
    · simp only [List.mem_singleton] at ho; subst ho; exact Nat.le_refl _
    · simp at ho

end RootSim.PrefixUnique
