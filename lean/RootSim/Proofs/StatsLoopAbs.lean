import RootSim.Model.StatsLoop
/-!
# The GVT round is a barrier: every thread goes through every round

Inductive invariant of the loop model `RootSim.StatsLoop` (any number of threads, any schedule, both
variants of the flush loop). Each thread has a *position* in the current round (`code`), the shared
counters `c_a c_b c_c c_d gvt_nodes total_msg_received` are functions of how many threads stand at each
position, and the positions of all threads lie in one of ten windows (`Stage0` … `Stage9`), which is what the four
thread phases A-D and the node phases of `gvt.c` enforce. Consequence (`GInv_final` in `Proofs/StatsLoopInv.lean`): when all threads
have reached the barrier of `gvt_msg_drain`, every thread has been handed the value of every round that
was started, in the worker loop or in the flush loop.
-/
set_option linter.unusedVariables false
namespace RootSim.StatsLoop

/-! ## Positions -/

/-- Position of a thread w.r.t. round number `R` (= rounds started so far); `tot` = values received so far.
`0` idle, has not joined round `R` · `1..4` first A-D reduction (thread phase A,B,C,D) · `5` `node_sent_reduce`
· `6` `node_sent_reduce_wait` · `7` `node_sent_wait` · `8..11` second A-D reduction · `12` `node_min_reduce`
· `13` `node_min_reduce_wait` (the reducer) · `14` `node_min_wait` · `15` `node_done` (value received)
· `16` idle, through with round `R` · `17` none of these. -/
def code (R : Nat) (th : Th) : Nat :=
  let tot := th.records + th.discarded
  match th.nphase, th.tphase with
  | 0, 0 => if tot = R then 16 else if tot + 1 = R then 0 else 17
  | 0, 1 => if tot + 1 = R then 1 else 17
  | 0, 2 => if tot + 1 = R then 2 else 17
  | 0, 3 => if tot + 1 = R then 3 else 17
  | 0, 4 => if tot + 1 = R then 4 else 17
  | 1, 1 => if tot + 1 = R then 5 else 17
  | 2, 1 => if tot + 1 = R then 6 else 17
  | 3, 1 => if tot + 1 = R then 7 else 17
  | 4, 1 => if tot + 1 = R then 8 else 17
  | 4, 2 => if tot + 1 = R then 9 else 17
  | 4, 3 => if tot + 1 = R then 10 else 17
  | 4, 4 => if tot + 1 = R then 11 else 17
  | 5, 1 => if tot + 1 = R then 12 else 17
  | 6, 1 => if tot + 1 = R then 13 else 17
  | 7, 1 => if tot + 1 = R then 14 else 17
  | 8, 1 => if tot = R then 15 else 17
  | _, _ => 17

/-- number of threads at position `k` -/
def cnt (R : Nat) (ths : List Th) (k : Nat) : Nat := ths.countP (fun th => code R th == k)

theorem cnt_set (R : Nat) (ths : List Th) (i : Nat) (th th' : Th) (h : ths[i]? = some th) (k : Nat) :
    cnt R (ths.set i th') k + (if code R th = k then 1 else 0) =
    cnt R ths k + (if code R th' = k then 1 else 0) := by
  induction ths generalizing i with
  | nil => simp at h
  | cons a l ih =>
    cases i with
    | zero =>
      simp only [List.getElem?_cons_zero, Option.some.injEq] at h
      subst h
      simp only [cnt, List.set_cons_zero, List.countP_cons, beq_iff_eq]
      omega
    | succ j =>
      simp only [List.getElem?_cons_succ] at h
      have := ih j h
      simp only [cnt, List.set_cons_succ, List.countP_cons] at this ⊢
      omega

theorem cnt_pos (R : Nat) (ths : List Th) (i : Nat) (th : Th) (h : ths[i]? = some th) :
    1 ≤ cnt R ths (code R th) := by
  have hm : th ∈ ths := List.mem_of_getElem? h
  exact List.countP_pos_iff.mpr ⟨th, hm, by simp⟩

theorem cnt_all (R : Nat) (ths : List Th) (k : Nat) (h : cnt R ths k = ths.length) :
    ∀ th ∈ ths, code R th = k := by
  intro th hm
  have := (List.countP_eq_length (p := fun th => code R th == k) (l := ths)).mp h th hm
  simpa using this

theorem cnt_const (R : Nat) (ths : List Th) (k : Nat) (h : ∀ th ∈ ths, code R th = k) (j : Nat) :
    cnt R ths j = if j = k then ths.length else 0 := by
  induction ths with
  | nil => simp [cnt]
  | cons a l ih =>
    have ha := h a (by simp)
    have := ih (fun th hm => h th (by simp [hm]))
    simp only [cnt, List.countP_cons, beq_iff_eq, ha, List.length_cons] at this ⊢
    rw [this]
    by_cases hj : j = k
    · subst hj; simp
    · have : ¬ k = j := fun e => hj e.symm
      simp [hj, this]

/-! ## The invariant on the counts -/

/-- the shared variables the invariant speaks about -/
structure Ab where
  cA : Nat
  cB : Nat
  cC : Nat
  cD : Nat
  gn : Nat
  tr : Int
  st : Nat
  cp : Nat

def absSh (sh : Sh) : Ab :=
  { cA := sh.cA, cB := sh.cB, cC := sh.cC, cD := sh.cD, gn := sh.gvtNodes, tr := sh.totalRecv,
    st := sh.started, cp := sh.completed }

/-- what holds in every stage: no thread is off the track, the A-D counters and `c_d` count threads -/
def Common (n : Nat) (c : Nat → Nat) (s : Ab) : Prop :=
  c 17 = 0 ∧
  c 0 + c 1 + c 2 + c 3 + c 4 + c 5 + c 6 + c 7 + c 8 + c 9 + c 10 + c 11 + c 12 + c 13 + c 14 + c 15 + c 16 = n ∧
  s.cB = c 2 + c 3 + c 9 + c 10 ∧ s.cA = c 3 + c 4 + c 10 + c 11 ∧ s.cD = c 13 + c 14 + c 15

/-! the window the threads are in -/
/-- no round in progress -/
def Stage0 (n : Nat) (c : Nat → Nat) (s : Ab) : Prop :=
  c 16 = n ∧ s.gn = 0 ∧ s.cC = 0 ∧ s.tr = 0 ∧ s.cp = s.st
def Stage1 (n : Nat) (c : Nat → Nat) (s : Ab) : Prop :=
  c 0 + c 1 + c 2 = n ∧ 1 ≤ c 1 + c 2 ∧ s.gn = 1 ∧ s.cC = 0 ∧ s.tr = 0 ∧ s.st = s.cp + 1
def Stage2 (n : Nat) (c : Nat → Nat) (s : Ab) : Prop :=
  c 2 + c 3 = n ∧ 1 ≤ n ∧ s.gn = 1 ∧ s.cC = 0 ∧ s.tr = 0 ∧ s.st = s.cp + 1
def Stage3 (n : Nat) (c : Nat → Nat) (s : Ab) : Prop :=
  c 3 + c 4 = n ∧ 1 ≤ n ∧ s.gn = 1 ∧ s.cC = 0 ∧ s.tr = 0 ∧ s.st = s.cp + 1
def Stage4 (n : Nat) (c : Nat → Nat) (s : Ab) : Prop :=
  c 4 + c 5 + c 6 + c 7 = n ∧ 1 ≤ c 4 + c 5 + c 6 ∧ c 6 ≤ 1 ∧ (c 6 = 1 → c 4 + c 5 = 0) ∧
  s.gn = 1 ∧ s.cC = c 6 + c 7 ∧ s.tr = ((c 6 + c 7 : Nat) : Int) ∧ s.st = s.cp + 1
def Stage5 (n : Nat) (c : Nat → Nat) (s : Ab) : Prop :=
  c 7 + c 8 + c 9 = n ∧ 1 ≤ n ∧ s.gn = 1 ∧ s.cC = n ∧ s.tr = 0 ∧ s.st = s.cp + 1
def Stage6 (n : Nat) (c : Nat → Nat) (s : Ab) : Prop :=
  c 9 + c 10 = n ∧ 1 ≤ n ∧ s.gn = 1 ∧ s.cC = n ∧ s.tr = 0 ∧ s.st = s.cp + 1
def Stage7 (n : Nat) (c : Nat → Nat) (s : Ab) : Prop :=
  c 10 + c 11 = n ∧ 1 ≤ n ∧ s.gn = 1 ∧ s.cC = n ∧ s.tr = 0 ∧ s.st = s.cp + 1
def Stage8 (n : Nat) (c : Nat → Nat) (s : Ab) : Prop :=
  c 11 + c 12 + c 13 + c 14 = n ∧ 1 ≤ n ∧ c 13 ≤ 1 ∧ (1 ≤ c 14 → c 13 = 1) ∧
  s.gn = 1 ∧ s.cC = n ∧ s.tr = 0 ∧ s.st = s.cp + 1
def Stage9 (n : Nat) (c : Nat → Nat) (s : Ab) : Prop :=
  c 14 + c 15 + c 16 = n ∧ 1 ≤ c 14 + c 15 ∧ s.gn = 1 ∧ s.cC = 0 ∧ s.tr = 0 ∧ s.st = s.cp + 1

def AInv (n : Nat) (c : Nat → Nat) (s : Ab) : Prop :=
  Common n c s ∧ (Stage0 n c s ∨ Stage1 n c s ∨ Stage2 n c s ∨ Stage3 n c s ∨ Stage4 n c s ∨
    Stage5 n c s ∨ Stage6 n c s ∨ Stage7 n c s ∨ Stage8 n c s ∨ Stage9 n c s)

/-- One call of `gvt_phase_run` by a thread at position `a` (not the call that starts a round): the
thread moves to `b`, the shared variables from `s` to `s'`; the Boolean says "a value was returned".
The moves marked *impossible* are excluded by the invariant. -/
inductive Move (n : Nat) : Nat → Nat → Ab → Ab → Bool → Prop
  | stay (a s) : Move n a a s s false
  | join (s) : s.cB ≠ 0 → Move n 0 1 s s false
  | joinLate (s) : s.cB ≠ 0 → Move n 16 17 s s false                       -- impossible
  | ab (k s) : (k = 1 ∨ k = 8) → s.cA = 0 → Move n k (k+1) s { s with cB := s.cB + 1 } false
  | bc (k s) : (k = 2 ∨ k = 9) → s.cB = n → Move n k (k+1) s { s with cA := s.cA + 1 } false
  | cd (k s) : (k = 3 ∨ k = 10) → s.cA = n → Move n k (k+1) s { s with cB := s.cB - 1 } false
  | de (k s) : (k = 4 ∨ k = 11) → s.cB = 0 → Move n k (k+1) s { s with cA := s.cA - 1 } false
  | sent (s) : s.cA = 0 → s.cC ≠ n - 1 → Move n 5 7 s { s with tr := s.tr + 1, cC := s.cC + 1 } false
  | sentLast (s) : s.cA = 0 → s.cC = n - 1 → Move n 5 6 s { s with tr := s.tr + 1, cC := s.cC + 1 } false
  | scatter (s) : Move n 6 7 s { s with tr := s.tr - (n : Int) } false
  | recvd (s) : s.tr = 0 → Move n 7 8 s s false
  | minFirst (s) : s.cD = 0 → Move n 12 13 s { s with cD := s.cD + 1 } false
  | minLater (s) : s.cD ≠ 0 → Move n 12 14 s { s with cD := s.cD + 1 } false
  | reduced (s) : s.cD = n → Move n 13 15 s { s with cC := s.cC - n } true
  | released (s) : s.cC = 0 → Move n 14 15 s s true
  | done (s) : Move n 15 16 s { s with cD := s.cD - 1, gn := if s.cD = 1 then s.gn - 1 else s.gn,
                                       cp := if s.cD = 1 then s.cp + 1 else s.cp } false

/-- the count vector after a thread has moved from `a` to `b` -/
def Moved (c c' : Nat → Nat) (a b : Nat) : Prop :=
  1 ≤ c a ∧ ∀ k, c' k + (if a = k then 1 else 0) = c k + (if b = k then 1 else 0)

/-- try the stages one after the other -/
syntax "stage_search" : tactic
macro_rules
  | `(tactic| stage_search) => `(tactic| first
      | (exfalso; omega)
      | (refine Or.inl ?_; omega)
      | (refine Or.inr (Or.inl ?_); omega)
      | (refine Or.inr (Or.inr (Or.inl ?_)); omega)
      | (refine Or.inr (Or.inr (Or.inr (Or.inl ?_))); omega)
      | (refine Or.inr (Or.inr (Or.inr (Or.inr (Or.inl ?_)))); omega)
      | (refine Or.inr (Or.inr (Or.inr (Or.inr (Or.inr (Or.inl ?_))))); omega)
      | (refine Or.inr (Or.inr (Or.inr (Or.inr (Or.inr (Or.inr (Or.inl ?_)))))); omega)
      | (refine Or.inr (Or.inr (Or.inr (Or.inr (Or.inr (Or.inr (Or.inr (Or.inl ?_))))))); omega)
      | (refine Or.inr (Or.inr (Or.inr (Or.inr (Or.inr (Or.inr (Or.inr (Or.inr (Or.inl ?_)))))))); omega)
      | (refine Or.inr (Or.inr (Or.inr (Or.inr (Or.inr (Or.inr (Or.inr (Or.inr (Or.inr ?_)))))))); omega))

set_option hygiene false in
/-- closes `AInv n c' s'` from `h : AInv n c s` and the count equations `e0 … e17` (the applications `c k`,
`c' k` are abstracted into variables first: `omega` is slow on many application atoms) -/
macro "finish_move" : tactic => `(tactic| (
  simp only [AInv, Common, Stage0, Stage1, Stage2, Stage3, Stage4, Stage5, Stage6, Stage7, Stage8, Stage9] at h ⊢
  generalize c 0 = x0 at *; generalize c 1 = x1 at *; generalize c 2 = x2 at *; generalize c 3 = x3 at *
  generalize c 4 = x4 at *; generalize c 5 = x5 at *; generalize c 6 = x6 at *; generalize c 7 = x7 at *
  generalize c 8 = x8 at *; generalize c 9 = x9 at *; generalize c 10 = x10 at *; generalize c 11 = x11 at *
  generalize c 12 = x12 at *; generalize c 13 = x13 at *; generalize c 14 = x14 at *; generalize c 15 = x15 at *
  generalize c 16 = x16 at *; generalize c 17 = x17 at *
  generalize c' 0 = y0 at *; generalize c' 1 = y1 at *; generalize c' 2 = y2 at *; generalize c' 3 = y3 at *
  generalize c' 4 = y4 at *; generalize c' 5 = y5 at *; generalize c' 6 = y6 at *; generalize c' 7 = y7 at *
  generalize c' 8 = y8 at *; generalize c' 9 = y9 at *; generalize c' 10 = y10 at *; generalize c' 11 = y11 at *
  generalize c' 12 = y12 at *; generalize c' 13 = y13 at *; generalize c' 14 = y14 at *; generalize c' 15 = y15 at *
  generalize c' 16 = y16 at *; generalize c' 17 = y17 at *
  obtain ⟨⟨hbad, hsum, hcb, hca, hcd⟩, hst⟩ := h
  refine ⟨by omega, ?_⟩
  rcases hst with h|h|h|h|h|h|h|h|h|h <;> stage_search))

set_option hygiene false in
/-- the eighteen instances of `Moved` for concrete `a b` -/
macro "move_setup" : tactic => `(tactic| (
  obtain ⟨hpos, hk⟩ := hc
  have e0 := hk 0; have e1 := hk 1; have e2 := hk 2; have e3 := hk 3; have e4 := hk 4; have e5 := hk 5
  have e6 := hk 6; have e7 := hk 7; have e8 := hk 8; have e9 := hk 9; have e10 := hk 10; have e11 := hk 11
  have e12 := hk 12; have e13 := hk 13; have e14 := hk 14; have e15 := hk 15; have e16 := hk 16; have e17 := hk 17
  clear hk
  simp only [Nat.reduceEqDiff, if_true, if_false, Nat.add_zero] at e0 e1 e2 e3 e4 e5 e6 e7 e8 e9 e10 e11 e12 e13 e14 e15 e16 e17))

theorem mv_stay (n : Nat) (c c' : Nat → Nat) (a : Nat) (s : Ab) (hc : Moved c c' a a) (h : AInv n c s) :
    AInv n c' s := by
  have e : ∀ k, c' k = c k := by
    intro k; have := hc.2 k; omega
  have : c' = c := funext e
  rw [this]; exact h

theorem mv_join (n : Nat) (c c' : Nat → Nat) (s : Ab) (hg : s.cB ≠ 0) (hc : Moved c c' 0 1) (h : AInv n c s) :
    AInv n c' s := by
  move_setup; finish_move

theorem mv_joinLate (n : Nat) (c c' : Nat → Nat) (s : Ab) (_hg : s.cB ≠ 0) (hc : Moved c c' 16 17) (h : AInv n c s) :
    AInv n c' s := by
  move_setup; finish_move

theorem mv_ab (n : Nat) (c c' : Nat → Nat) (k : Nat) (s : Ab) (hk : k = 1 ∨ k = 8) (hg : s.cA = 0)
    (hc : Moved c c' k (k+1)) (h : AInv n c s) : AInv n c' { s with cB := s.cB + 1 } := by
  rcases hk with rfl | rfl <;> (move_setup; finish_move)

theorem mv_bc (n : Nat) (c c' : Nat → Nat) (k : Nat) (s : Ab) (hk : k = 2 ∨ k = 9) (hg : s.cB = n)
    (hc : Moved c c' k (k+1)) (h : AInv n c s) : AInv n c' { s with cA := s.cA + 1 } := by
  rcases hk with rfl | rfl <;> (move_setup; finish_move)

theorem mv_cd (n : Nat) (c c' : Nat → Nat) (k : Nat) (s : Ab) (hk : k = 3 ∨ k = 10) (hg : s.cA = n)
    (hc : Moved c c' k (k+1)) (h : AInv n c s) : AInv n c' { s with cB := s.cB - 1 } := by
  rcases hk with rfl | rfl <;> (move_setup; finish_move)

theorem mv_de (n : Nat) (c c' : Nat → Nat) (k : Nat) (s : Ab) (hk : k = 4 ∨ k = 11) (hg : s.cB = 0)
    (hc : Moved c c' k (k+1)) (h : AInv n c s) : AInv n c' { s with cA := s.cA - 1 } := by
  rcases hk with rfl | rfl <;> (move_setup; finish_move)

theorem mv_sent (n : Nat) (c c' : Nat → Nat) (s : Ab) (hg : s.cA = 0) (hg2 : s.cC ≠ n - 1)
    (hc : Moved c c' 5 7) (h : AInv n c s) : AInv n c' { s with tr := s.tr + 1, cC := s.cC + 1 } := by
  move_setup; finish_move

theorem mv_sentLast (n : Nat) (c c' : Nat → Nat) (s : Ab) (hg : s.cA = 0) (hg2 : s.cC = n - 1)
    (hc : Moved c c' 5 6) (h : AInv n c s) : AInv n c' { s with tr := s.tr + 1, cC := s.cC + 1 } := by
  move_setup; finish_move

theorem mv_scatter (n : Nat) (c c' : Nat → Nat) (s : Ab)
    (hc : Moved c c' 6 7) (h : AInv n c s) : AInv n c' { s with tr := s.tr - (n : Int) } := by
  move_setup; finish_move

theorem mv_recvd (n : Nat) (c c' : Nat → Nat) (s : Ab) (hg : s.tr = 0)
    (hc : Moved c c' 7 8) (h : AInv n c s) : AInv n c' s := by
  move_setup; finish_move

theorem mv_minFirst (n : Nat) (c c' : Nat → Nat) (s : Ab) (hg : s.cD = 0)
    (hc : Moved c c' 12 13) (h : AInv n c s) : AInv n c' { s with cD := s.cD + 1 } := by
  move_setup; finish_move

theorem mv_minLater (n : Nat) (c c' : Nat → Nat) (s : Ab) (hg : s.cD ≠ 0)
    (hc : Moved c c' 12 14) (h : AInv n c s) : AInv n c' { s with cD := s.cD + 1 } := by
  move_setup; finish_move

theorem mv_reduced (n : Nat) (c c' : Nat → Nat) (s : Ab) (hg : s.cD = n)
    (hc : Moved c c' 13 15) (h : AInv n c s) : AInv n c' { s with cC := s.cC - n } := by
  move_setup; finish_move

theorem mv_released (n : Nat) (c c' : Nat → Nat) (s : Ab) (hg : s.cC = 0)
    (hc : Moved c c' 14 15) (h : AInv n c s) : AInv n c' s := by
  move_setup; finish_move

theorem mv_done (n : Nat) (c c' : Nat → Nat) (s : Ab)
    (hc : Moved c c' 15 16) (h : AInv n c s) :
    AInv n c' { s with cD := s.cD - 1, gn := if s.cD = 1 then s.gn - 1 else s.gn,
                       cp := if s.cD = 1 then s.cp + 1 else s.cp } := by
  move_setup
  by_cases h1 : s.cD = 1
  · simp only [h1, if_true]; finish_move
  · simp only [h1, if_false]; finish_move

/-- **every move preserves the invariant on the counts** -/
theorem AInv_move (n : Nat) (c c' : Nat → Nat) (a b : Nat) (s s' : Ab) (v : Bool)
    (hm : Move n a b s s' v) (hc : Moved c c' a b) (h : AInv n c s) : AInv n c' s' := by
  cases hm
  case stay => exact mv_stay n c c' _ _ hc h
  case join => exact mv_join n c c' _ (by assumption) hc h
  case joinLate => exact mv_joinLate n c c' _ (by assumption) hc h
  case ab => exact mv_ab n c c' _ _ (by assumption) (by assumption) hc h
  case bc => exact mv_bc n c c' _ _ (by assumption) (by assumption) hc h
  case cd => exact mv_cd n c c' _ _ (by assumption) (by assumption) hc h
  case de => exact mv_de n c c' _ _ (by assumption) (by assumption) hc h
  case sent => exact mv_sent n c c' _ (by assumption) (by assumption) hc h
  case sentLast => exact mv_sentLast n c c' _ (by assumption) (by assumption) hc h
  case scatter => exact mv_scatter n c c' _ hc h
  case recvd => exact mv_recvd n c c' _ (by assumption) hc h
  case minFirst => exact mv_minFirst n c c' _ (by assumption) hc h
  case minLater => exact mv_minLater n c c' _ (by assumption) hc h
  case reduced => exact mv_reduced n c c' _ (by assumption) hc h
  case released => exact mv_released n c c' _ (by assumption) hc h
  case done => exact mv_done n c c' _ hc h

end RootSim.StatsLoop
